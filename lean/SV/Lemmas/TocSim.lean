/-
Simulation of the two TOC interpreters (`SV.Toc.memTree`, `SV.Toc.dbTree`) on the fragment
`SpecConformingR`: directories may be announced more than once (by entries with the same
attributes).  The memory store keeps the LAST entry of a name as the node, the db store the node
it made for the FIRST one, so the two trees are related up to a renaming of keys (`canon`); the
view contains no keys.  Everything lives in the namespace `SV.Toc.R`, next to the older
single-key development `SV.Lemmas.TocAgree` (fragment `SpecConforming`, used by C02's bridge).
Parts: 1 names, first/last index, `look`, the two-keyed invariant `Inv`, directory creation,
linking; 2 the steps and the run; 3 the fragment; 4 views under renaming; 5 attributes; 6 chunk
tables; 7 the trees and views agree.
-/
import SV.Lemmas.Toc

namespace SV.Toc.R

/-! ## Basic facts: kids maps -/

theorem getKid_setKid_same (b : String) (k : Key) (l : Kids) : getKid b (setKid b k l) = some k := by
  induction l with
  | nil => simp [setKid, getKid]
  | cons x xs ih =>
    unfold setKid
    by_cases h : x.1 = b
    · simp [h, getKid]
    · simp [h, getKid, ih]

theorem getKid_setKid_ne (b b' : String) (k : Key) (l : Kids) (h : b' ≠ b) :
    getKid b' (setKid b k l) = getKid b' l := by
  induction l with
  | nil => simp [setKid, getKid, Ne.symm h]
  | cons x xs ih =>
    unfold setKid
    by_cases hx : x.1 = b
    · have hne : ¬ x.1 = b' := fun e => h (e.symm.trans hx)
      rw [if_pos hx]
      simp only [getKid]
      rw [if_neg (Ne.symm h), if_neg hne]
    · rw [if_neg hx]
      simp only [getKid]
      by_cases hx' : x.1 = b'
      · rw [if_pos hx', if_pos hx']
      · rw [if_neg hx', if_neg hx', ih]

theorem mem_setKid {b : String} {c : Key} {l : Kids} {kv : String × Key} (h : kv ∈ setKid b c l) :
    kv = (b, c) ∨ kv ∈ l := by
  induction l with
  | nil => simp [setKid] at h; exact Or.inl h
  | cons x xs ih =>
    unfold setKid at h
    split at h
    · rcases List.mem_cons.mp h with e | e
      · exact Or.inl e
      · exact Or.inr (List.mem_cons_of_mem _ e)
    · rcases List.mem_cons.mp h with e | e
      · exact Or.inr (e ▸ List.mem_cons_self ..)
      · rcases ih e with e' | e'
        · exact Or.inl e'
        · exact Or.inr (List.mem_cons_of_mem _ e')

theorem walkKids_snoc (kids : Key → Kids) (k : Key) (p : Path) (x : String) :
    walkKids kids k (p ++ [x]) = (walkKids kids k p).bind fun c => getKid x (kids c) := by
  induction p generalizing k with
  | nil =>
    simp only [List.nil_append, walkKids, Option.bind]
    cases getKid x (kids k) <;> rfl
  | cons b rest ih =>
    simp only [List.cons_append, walkKids]
    cases getKid b (kids k) with
    | none => simp
    | some c => simp [ih]

/-- a walk is determined by its snoc-unfolding -/
theorem walkKids_eq_of_snoc (kids : Key → Kids) (f : Path → Option Key)
    (h0 : f [] = some .root)
    (hs : ∀ p x, f (p ++ [x]) = (f p).bind fun c => getKid x (kids c)) :
    ∀ p, walkKids kids .root p = f p := by
  intro p
  generalize hn : p.length = n
  induction n generalizing p with
  | zero =>
    have : p = [] := List.length_eq_zero_iff.mp hn
    subst this; simp [walkKids, h0]
  | succ n ih =>
    rcases List.eq_nil_or_concat p with e | ⟨q, x, e⟩
    · subst e; simp at hn
    · subst e
      rw [List.concat_eq_append] at hn ⊢
      have hq : q.length = n := by simp at hn; omega
      rw [walkKids_snoc, ih q hq, hs]

end SV.Toc.R
namespace SV.Toc.R
/-! ## pass 1 -/

theorem pass1Go_length (lp : Path) (lr : Option Int) (es : List Entry) :
    (pass1Go lp lr es).length = es.length := by
  induction es generalizing lp lr with
  | nil => rfl
  | cons e es ih => simp [pass1Go, ih]

theorem pass1Go_getElem (es : List Entry) : ∀ (lp : Path) (lr : Option Int) (i : Nat) (m : MEnt),
    (pass1Go lp lr es)[i]? = some m →
      es[i]? = some m.e ∧ (m.e.type ≠ "chunk" → m.path = cleanName m.e.name) := by
  induction es with
  | nil => intro lp lr i m h; simp [pass1Go] at h
  | cons e es ih =>
    intro lp lr i m h
    cases i with
    | zero =>
      simp only [pass1Go, List.getElem?_cons_zero, Option.some.injEq] at h
      subst h
      refine ⟨by simp [pass1Ent], ?_⟩
      intro hc
      simp only [pass1Ent] at hc ⊢
      simp [hc]
    | succ i =>
      simp only [pass1Go, List.getElem?_cons_succ] at h
      simpa using ih _ _ i m h

theorem pass1_length (es : List Entry) : (pass1 es).length = es.length := pass1Go_length _ _ _

theorem pass1_getElem (es : List Entry) (i : Nat) (m : MEnt) (h : (pass1 es)[i]? = some m) :
    es[i]? = some m.e ∧ (m.e.type ≠ "chunk" → m.path = cleanName m.e.name) :=
  pass1Go_getElem es _ _ i m h

/-! ## `r.m` restricted to entries -/

def NonChunkAt (ms : List MEnt) (j : Nat) (p : Path) : Prop :=
  ∃ m, ms[j]? = some m ∧ m.e.type ≠ "chunk" ∧ m.path = p

theorem lastIdxFrom_some (ms : List MEnt) (p : Path) : ∀ (k j : Nat), lastIdxFrom ms p k = some j →
    k ≤ j ∧ NonChunkAt ms (j - k) p := by
  induction ms with
  | nil => intro k j h; simp [lastIdxFrom] at h
  | cons m rest ih =>
    intro k j h
    unfold lastIdxFrom at h
    cases hr : lastIdxFrom rest p (k + 1) with
    | some j' =>
      rw [hr] at h
      simp only [Option.some.injEq] at h; subst h
      obtain ⟨h1, m', h2, h3⟩ := ih (k + 1) j' hr
      refine ⟨by omega, m', ?_, h3⟩
      have : j' - k = (j' - (k + 1)) + 1 := by omega
      rw [this]; simpa using h2
    | none =>
      rw [hr] at h
      simp only at h
      split at h
      · rename_i hm
        simp only [Option.some.injEq] at h; subst h
        exact ⟨Nat.le_refl _, m, by simp, hm.1, hm.2⟩
      · cases h

theorem lastIdxFrom_ge (ms : List MEnt) (p : Path) : ∀ (k t : Nat), NonChunkAt ms t p →
    ∃ j, lastIdxFrom ms p k = some j ∧ k + t ≤ j := by
  induction ms with
  | nil => intro k t ⟨m, h, _⟩; simp at h
  | cons m rest ih =>
    intro k t ⟨m', h1, h2, h3⟩
    unfold lastIdxFrom
    cases t with
    | zero =>
      simp only [List.getElem?_cons_zero, Option.some.injEq] at h1; subst h1
      cases hr : lastIdxFrom rest p (k + 1) with
      | some j' =>
        have := (lastIdxFrom_some rest p (k + 1) j' hr).1
        exact ⟨j', rfl, by omega⟩
      | none => exact ⟨k, by simp [h2, h3], by omega⟩
    | succ t =>
      simp only [List.getElem?_cons_succ] at h1
      obtain ⟨j, hj, hle⟩ := ih (k + 1) t ⟨m', h1, h2, h3⟩
      rw [hj]
      exact ⟨j, rfl, by omega⟩

theorem lastIdx_nonChunk {ms : List MEnt} {p : Path} {j : Nat} (h : lastIdx ms p = some j) :
    NonChunkAt ms j p := by
  have := lastIdxFrom_some ms p 0 j h
  simpa using this.2

theorem lastIdx_max {ms : List MEnt} {p : Path} {L j : Nat} (h : lastIdx ms p = some L)
    (hj : NonChunkAt ms j p) : j ≤ L := by
  obtain ⟨j', hj', hle⟩ := lastIdxFrom_ge ms p 0 j hj
  unfold lastIdx at h; rw [h] at hj'; cases hj'; omega

theorem lastIdx_eq_none_iff (ms : List MEnt) (p : Path) :
    lastIdx ms p = none ↔ ∀ j, ¬ NonChunkAt ms j p := by
  constructor
  · intro h j hj
    obtain ⟨j', hj', _⟩ := lastIdxFrom_ge ms p 0 j hj
    unfold lastIdx at h; rw [h] at hj'; cases hj'
  · intro h
    cases hl : lastIdx ms p with
    | none => rfl
    | some j => exact absurd (lastIdx_nonChunk hl) (h j)

theorem lastIdx_isSome {ms : List MEnt} {p : Path} {j : Nat} (h : NonChunkAt ms j p) :
    ∃ L, lastIdx ms p = some L ∧ j ≤ L := by
  obtain ⟨L, hL, hle⟩ := lastIdxFrom_ge ms p 0 j h
  exact ⟨L, hL, by omega⟩

/-- index of the FIRST non-chunk entry with a name: the entry the db store creates the node for -/
def firstIdxFrom (ms : List MEnt) (p : Path) (i : Nat) : Option Nat :=
  match ms with
  | [] => none
  | m :: rest => if m.e.type ≠ "chunk" ∧ m.path = p then some i else firstIdxFrom rest p (i + 1)

def firstIdx (ms : List MEnt) (p : Path) : Option Nat := firstIdxFrom ms p 0

theorem firstIdxFrom_some (ms : List MEnt) (p : Path) : ∀ (k f : Nat), firstIdxFrom ms p k = some f →
    k ≤ f ∧ NonChunkAt ms (f - k) p ∧ ∀ t, t < f - k → ¬ NonChunkAt ms t p := by
  induction ms with
  | nil => intro k f h; simp [firstIdxFrom] at h
  | cons m rest ih =>
    intro k f h
    unfold firstIdxFrom at h
    split at h
    · rename_i hm
      simp only [Option.some.injEq] at h; subst h
      refine ⟨Nat.le_refl _, ⟨m, by simp, hm.1, hm.2⟩, fun t ht => by omega⟩
    · rename_i hm
      obtain ⟨h1, ⟨m', h2, h3, h4⟩, h5⟩ := ih (k + 1) f h
      have hfk : f - k = (f - (k + 1)) + 1 := by omega
      refine ⟨by omega, ⟨m', by rw [hfk]; simpa using h2, h3, h4⟩, ?_⟩
      intro t ht ⟨mt, hmt, hct, hpt⟩
      cases t with
      | zero =>
        simp only [List.getElem?_cons_zero, Option.some.injEq] at hmt; subst hmt
        exact hm ⟨hct, hpt⟩
      | succ t => exact h5 t (by omega) ⟨mt, by simpa using hmt, hct, hpt⟩

theorem firstIdxFrom_none (ms : List MEnt) (p : Path) : ∀ (k : Nat), firstIdxFrom ms p k = none →
    ∀ t, ¬ NonChunkAt ms t p := by
  induction ms with
  | nil => intro k _ t ⟨m, h, _⟩; simp at h
  | cons m rest ih =>
    intro k h t ⟨mt, hmt, hct, hpt⟩
    unfold firstIdxFrom at h
    split at h
    · cases h
    · rename_i hm
      cases t with
      | zero =>
        simp only [List.getElem?_cons_zero, Option.some.injEq] at hmt; subst hmt
        exact hm ⟨hct, hpt⟩
      | succ t => exact ih (k + 1) h t ⟨mt, by simpa using hmt, hct, hpt⟩

theorem firstIdx_nonChunk {ms : List MEnt} {p : Path} {f : Nat} (h : firstIdx ms p = some f) :
    NonChunkAt ms f p := by
  have := (firstIdxFrom_some ms p 0 f h).2.1; simpa using this

theorem firstIdx_min {ms : List MEnt} {p : Path} {f j : Nat} (h : firstIdx ms p = some f)
    (hj : NonChunkAt ms j p) : f ≤ j := by
  have := (firstIdxFrom_some ms p 0 f h).2.2 j
  simp only [Nat.sub_zero] at this
  rcases Nat.lt_or_ge j f with hlt | hge
  · exact absurd hj (this hlt)
  · exact hge

theorem firstIdx_isSome {ms : List MEnt} {p : Path} {j : Nat} (h : NonChunkAt ms j p) :
    ∃ f, firstIdx ms p = some f ∧ f ≤ j := by
  cases hf : firstIdx ms p with
  | none => exact absurd h (firstIdxFrom_none ms p 0 hf j)
  | some f => exact ⟨f, rfl, firstIdx_min hf h⟩

theorem firstIdx_eq_none_iff (ms : List MEnt) (p : Path) :
    firstIdx ms p = none ↔ lastIdx ms p = none := by
  rw [lastIdx_eq_none_iff]
  constructor
  · intro h; exact firstIdxFrom_none ms p 0 h
  · intro h
    cases hf : firstIdx ms p with
    | none => rfl
    | some f => exact absurd (firstIdx_nonChunk hf) (h f)

end SV.Toc.R

namespace SV.Toc.R

/-! ## The fragment of TOCs on which the trees are compared -/

/-- two entries announce the same directory with the same attributes -/
def SameDir (a b : MEnt) : Prop :=
  a.e.type = "dir" ∧ b.e.type = "dir" ∧ attrOfEntry a.e 0 = attrOfEntry b.e 0

structure TreeOK (ms : List MEnt) : Prop where
  /-- a name is used once, except that a directory may be announced again by an identical entry -/
  names : ∀ (i j : Nat) (mi mj : MEnt), ms[i]? = some mi → ms[j]? = some mj → mi.e.type ≠ "chunk" →
    mj.e.type ≠ "chunk" → mi.path = mj.path → i = j ∨ SameDir mi mj
  noRoot : ∀ j, ¬ NonChunkAt ms j []
  /-- whatever lies above an entry is a directory (or implicit), first announced before the entry -/
  parents : ∀ i p, NonChunkAt ms i p → ∀ n, 0 < n → n < p.length →
    (∀ (j : Nat) (m : MEnt), ms[j]? = some m → m.e.type ≠ "chunk" → m.path = p.take n → m.e.type = "dir") ∧
    (∀ f, firstIdx ms (p.take n) = some f → f < i)
  /-- hardlinks point at earlier non-directory entries -/
  hardlinks : ∀ (i : Nat) (m : MEnt), ms[i]? = some m → m.e.type = "hardlink" →
    ∃ j, j < i ∧ ∃ mj : MEnt, ms[j]? = some mj ∧ mj.e.type ≠ "chunk" ∧ mj.path = cleanName m.e.linkName
      ∧ mj.e.type ≠ "dir"

/-- an entry that is not a directory is the only one of its name -/
theorem nondir_unique {ms : List MEnt} (ok : TreeOK ms) {i j : Nat} {mi mj : MEnt}
    (hi : ms[i]? = some mi) (hj : ms[j]? = some mj) (hci : mi.e.type ≠ "chunk") (hcj : mj.e.type ≠ "chunk")
    (hp : mi.path = mj.path) (hd : mi.e.type ≠ "dir" ∨ mj.e.type ≠ "dir") : i = j := by
  rcases ok.names i j mi mj hi hj hci hcj hp with h | ⟨h1, h2, _⟩
  · exact h
  · rcases hd with h | h
    · exact absurd h1 h
    · exact absurd h2 h

theorem nondir_first_last {ms : List MEnt} (ok : TreeOK ms) {i : Nat} {m : MEnt}
    (hm : ms[i]? = some m) (hc : m.e.type ≠ "chunk") (hd : m.e.type ≠ "dir") :
    firstIdx ms m.path = some i ∧ lastIdx ms m.path = some i := by
  have hnc : NonChunkAt ms i m.path := ⟨m, hm, hc, rfl⟩
  obtain ⟨f, hf, _⟩ := firstIdx_isSome hnc
  obtain ⟨L, hL, _⟩ := lastIdx_isSome hnc
  obtain ⟨mf, hmf, hcf, hpf⟩ := firstIdx_nonChunk hf
  obtain ⟨mL, hmL, hcL, hpL⟩ := lastIdx_nonChunk hL
  have e1 := nondir_unique ok hm hmf hc hcf hpf.symm (Or.inl hd)
  have e2 := nondir_unique ok hm hmL hc hcL hpL.symm (Or.inl hd)
  subst e1; subst e2
  exact ⟨hf, hL⟩

/-- hardlink resolution by index, with fuel -/
def resolveF (ms : List MEnt) : Nat → Nat → Key
  | 0, j => .ent j
  | f + 1, j =>
    match ms[j]? with
    | some m =>
      if m.e.type = "hardlink" then
        match lastIdx ms (cleanName m.e.linkName) with
        | some t => resolveF ms f t
        | none => .ent j
      else .ent j
    | none => .ent j

def resolveKey (ms : List MEnt) (j : Nat) : Key := resolveF ms j j

theorem hardlink_target {ms : List MEnt} (ok : TreeOK ms) {i : Nat} {m : MEnt}
    (hm : ms[i]? = some m) (hh : m.e.type = "hardlink") :
    ∃ t, t < i ∧ lastIdx ms (cleanName m.e.linkName) = some t ∧
      ∃ mt, ms[t]? = some mt ∧ mt.e.type ≠ "chunk" ∧ mt.e.type ≠ "dir" := by
  obtain ⟨j, hj, mj, h1, h2, h3, h4⟩ := ok.hardlinks i m hm hh
  have := (nondir_first_last ok h1 h2 h4).2
  rw [h3] at this
  exact ⟨j, hj, this, mj, h1, h2, h4⟩

theorem resolveF_stable {ms : List MEnt} (ok : TreeOK ms) :
    ∀ (t f : Nat), t ≤ f → resolveF ms f t = resolveF ms t t := by
  intro t
  induction t using Nat.strongRecOn with
  | _ t ih =>
    intro f hf
    cases hm : ms[t]? with
    | none =>
      cases f <;> cases t <;> simp [resolveF, hm]
    | some m =>
      by_cases hh : m.e.type = "hardlink"
      · obtain ⟨t', ht', hl, _⟩ := hardlink_target ok hm hh
        cases t with
        | zero => omega
        | succ t0 =>
          cases f with
          | zero => omega
          | succ f0 =>
            simp only [resolveF, hm, hh, ↓reduceIte, hl]
            rw [ih t' ht' f0 (by omega), ih t' ht' t0 (by omega)]
      · cases f <;> cases t <;> simp [resolveF, hm, hh]

theorem resolveKey_unfold {ms : List MEnt} (ok : TreeOK ms) {j : Nat} {m : MEnt}
    (hm : ms[j]? = some m) :
    resolveKey ms j = if m.e.type = "hardlink" then
        (match lastIdx ms (cleanName m.e.linkName) with
         | some t => resolveKey ms t
         | none => .ent j)
      else .ent j := by
  unfold resolveKey
  by_cases hh : m.e.type = "hardlink"
  · obtain ⟨t, ht, hl, _⟩ := hardlink_target ok hm hh
    cases j with
    | zero => omega
    | succ j0 =>
      simp only [resolveF, hm, hh, ↓reduceIte, hl]
      exact resolveF_stable ok t j0 (by omega)
  · cases j <;> simp [resolveF, hm, hh]

/-- what an index resolves to -/
theorem resolveKey_spec {ms : List MEnt} (ok : TreeOK ms) :
    ∀ (j : Nat) (m : MEnt), ms[j]? = some m → m.e.type ≠ "chunk" →
      ∃ r mr, r ≤ j ∧ resolveKey ms j = .ent r ∧ ms[r]? = some mr ∧ mr.e.type ≠ "chunk" ∧
        mr.e.type ≠ "hardlink" ∧ (m.e.type = "hardlink" → mr.e.type ≠ "dir") ∧
        (m.e.type ≠ "hardlink" → r = j) := by
  intro j
  induction j using Nat.strongRecOn with
  | _ j ih =>
    intro m hm hc
    rw [resolveKey_unfold ok hm]
    by_cases hh : m.e.type = "hardlink"
    · obtain ⟨t, ht, hl, mt, hmt, hct, hdt⟩ := hardlink_target ok hm hh
      rw [if_pos hh]; simp only [hl]
      obtain ⟨r, mr, h1, h2, h3, h4, h5, h6, h7⟩ := ih t ht mt hmt hct
      refine ⟨r, mr, by omega, h2, h3, h4, h5, ?_, fun h => absurd hh h⟩
      intro _
      by_cases hht : mt.e.type = "hardlink"
      · exact h6 hht
      · have := h7 hht; subst this; rw [hmt] at h3; cases h3; exact hdt
    · rw [if_neg hh]
      exact ⟨j, m, Nat.le_refl _, rfl, hm, hc, hh, fun h => absurd h hh, fun _ => rfl⟩

/-! ## The lookup both stores implement, stated on the TOC -/

/-- the node a cleaned name leads to after the entries `< i` have been processed and the implicit
directories `imps` have been created -/
def look (ms : List MEnt) (i : Nat) (imps : List Path) (p : Path) : Option Key :=
  if p = [] then some .root
  else match firstIdx ms p with
    | some j => if j < i then some (resolveKey ms j) else none
    | none => if p ∈ imps then some (.imp p) else none

/-- keys of directories -/
def IsDirKey (ms : List MEnt) : Key → Prop
  | .root => True
  | .imp _ => True
  | .ent j => ∃ m, ms[j]? = some m ∧ m.e.type = "dir"

/-- nodes that exist after the entries `< i` -/
def Created (ms : List MEnt) (i : Nat) (imps : List Path) : Key → Prop
  | .root => True
  | .imp p => p ∈ imps ∧ p ≠ []
  | .ent j => j < i ∧ ∃ m, ms[j]? = some m ∧ m.e.type ≠ "chunk" ∧ m.e.type ≠ "hardlink" ∧
      firstIdx ms m.path = some j

theorem look_created {ms : List MEnt} (ok : TreeOK ms) {i : Nat} {imps : List Path} {p : Path} {k : Key}
    (h : look ms i imps p = some k) : Created ms i imps k := by
  unfold look at h
  split at h
  · cases h; trivial
  · rename_i hp
    split at h
    · rename_i j hl
      split at h
      · rename_i hj
        cases h
        obtain ⟨m, hm, hc, hpm⟩ := firstIdx_nonChunk hl
        obtain ⟨r, mr, h1, h2, h3, h4, h5, h6, h7⟩ := resolveKey_spec ok j m hm hc
        rw [h2]
        refine ⟨by omega, mr, h3, h4, h5, ?_⟩
        by_cases hh : m.e.type = "hardlink"
        · exact (nondir_first_last ok h3 h4 (h6 hh)).1
        · have := h7 hh; subst this
          rw [hm] at h3; cases h3
          rw [hpm]; exact hl
      · cases h
    · split at h
      · cases h; rename_i hmem; exact ⟨hmem, hp⟩
      · cases h

/-- a directory is reached by its own name only -/
theorem look_dir_unique {ms : List MEnt} (ok : TreeOK ms) {i : Nat} {imps : List Path} {p q : Path} {k : Key}
    (hp : look ms i imps p = some k) (hq : look ms i imps q = some k) (hd : IsDirKey ms k) : p = q := by
  have key : ∀ (p : Path), look ms i imps p = some k →
      (k = .root ∧ p = []) ∨ (k = .imp p ∧ p ≠ []) ∨
      (∃ j m, p ≠ [] ∧ k = .ent j ∧ ms[j]? = some m ∧ m.e.type ≠ "chunk" ∧ m.path = p) := by
    intro p h
    unfold look at h
    split at h
    · cases h; rename_i e; exact Or.inl ⟨rfl, e⟩
    · rename_i hne
      split at h
      · rename_i j hl
        split at h
        · cases h
          obtain ⟨m, hm, hc, hpath⟩ := firstIdx_nonChunk hl
          obtain ⟨r, mr, h1, h2, h3, h4, h5, h6, h7⟩ := resolveKey_spec ok j m hm hc
          rw [h2] at hd ⊢
          obtain ⟨md, hmd, hdir⟩ := hd
          rw [h3] at hmd; cases hmd
          have hnh : m.e.type ≠ "hardlink" := fun e => h6 e hdir
          have := h7 hnh; subst this
          exact Or.inr (Or.inr ⟨r, m, hne, rfl, hm, hc, hpath⟩)
        · cases h
      · split at h
        · cases h; exact Or.inr (Or.inl ⟨rfl, hne⟩)
        · cases h
  rcases key p hp with ⟨h1, h2⟩ | ⟨h1, h2⟩ | ⟨j, m, h0, h1, h2, h3, h4⟩
  · rcases key q hq with ⟨_, h4⟩ | ⟨h3, _⟩ | ⟨_, _, _, h3, _⟩
    · rw [h2, h4]
    · rw [h1] at h3; cases h3
    · rw [h1] at h3; cases h3
  · rcases key q hq with ⟨h3, _⟩ | ⟨h3, _⟩ | ⟨_, _, _, h3, _⟩
    · rw [h1] at h3; cases h3
    · rw [h1] at h3; cases h3; rfl
    · rw [h1] at h3; cases h3
  · rcases key q hq with ⟨h5, _⟩ | ⟨h5, _⟩ | ⟨j', m', _, h5, h6, h7, h8⟩
    · rw [h1] at h5; cases h5
    · rw [h1] at h5; cases h5
    · rw [h1] at h5; cases h5
      rw [h2] at h6; cases h6
      rw [← h4, ← h8]

end SV.Toc.R

namespace SV.Toc.R

/-! ## Linking a child: effect on walks -/

theorem walk_link (kids : Key → Kids) (g : Path → Option Key) (q : Path) (b : String) (pk c : Key)
    (hw : ∀ p, walkKids kids .root p = g p)
    (hq : g q = some pk) (hd : g (q ++ [b]) = none)
    (huniq : ∀ p, g p = some pk → p = q) (hck : kids c = []) (hne : c ≠ pk) :
    ∀ p, walkKids (fun k => if k = pk then setKid b c (kids k) else kids k) .root p =
      if p = q ++ [b] then some c else g p := by
  have hg0 : g [] = some .root := by rw [← hw]; rfl
  have hgs : ∀ p x, g (p ++ [x]) = (g p).bind fun k => getKid x (kids k) := by
    intro p x; rw [← hw, ← hw, walkKids_snoc]
  apply walkKids_eq_of_snoc
  · have : ([] : Path) ≠ q ++ [b] := by simp
    rw [if_neg this]; exact hg0
  · intro p x
    by_cases hpx : p ++ [x] = q ++ [b]
    · have hpq : p = q ∧ x = b := by
        have := List.append_inj' hpx rfl
        exact ⟨this.1, by simpa using this.2⟩
      obtain ⟨rfl, rfl⟩ := hpq
      have : p ≠ p ++ [x] := by
        intro e; have := congrArg List.length e; simp at this
      rw [if_pos rfl, if_neg this, hq]
      simp [getKid_setKid_same]
    · rw [if_neg hpx]
      by_cases hpd : p = q ++ [b]
      · rw [if_pos hpd, hgs, hpd, hd]
        simp only [Option.bind]
        rw [if_neg hne, hck]; rfl
      · rw [if_neg hpd, hgs]
        cases hgp : g p with
        | none => rfl
        | some k =>
          simp only [Option.bind]
          by_cases hk : k = pk
          · subst hk
            have hp := huniq p hgp
            subst hp
            have hx : x ≠ b := fun e => hpx (by rw [e])
            rw [if_pos rfl, getKid_setKid_ne _ _ _ _ hx]
          · rw [if_neg hk]

/-! ## The simulation invariant -/

def attr0 (ms : List MEnt) : Key → Attr
  | .ent j =>
    match ms[j]? with
    | some m => attrOfEntry m.e (if m.e.type = "dir" then 2 else 1)
    | none => {}
  | _ => rootAttr

def eraseNL (b : DbAttr) : DbAttr := { b with numLink := none }

/-- NumLink of the memory store, with the root directory counted as if it already existed -/
def nlEff (sm : MState) (k : Key) : Int := if k = .root ∧ [] ∉ sm.imps then 2 else sm.nl k

/-! ### Directories announced more than once

The memory store keeps the LAST of several entries of a name as the node (`r.m[name]`), the db
store keeps the node the FIRST one created.  `canon` maps a memory key to the db key of the same
node, `lastOf` goes back. -/

def canon (ms : List MEnt) : Key → Key
  | .ent j =>
    match ms[j]? with
    | some m =>
      if m.e.type = "dir" then
        match firstIdx ms m.path with
        | some f => .ent f
        | none => .ent j
      else .ent j
    | none => .ent j
  | k => k

def lastOf (ms : List MEnt) : Key → Key
  | .ent j =>
    match ms[j]? with
    | some m =>
      if m.e.type = "dir" then
        match lastIdx ms m.path with
        | some L => .ent L
        | none => .ent j
      else .ent j
    | none => .ent j
  | k => k

def canonKV (ms : List MEnt) (kv : String × Key) : String × Key := (kv.1, canon ms kv.2)

/-- memory keys that can have children: the root, implicit directories, and the LAST entry of a
directory name -/
def MLiveDir (ms : List MEnt) : Key → Prop
  | .root => True
  | .imp _ => True
  | .ent L => ∃ m, ms[L]? = some m ∧ m.e.type = "dir" ∧ lastIdx ms m.path = some L

/-- 1 while the memory store has not yet counted the node's own name (it does so when it
processes the last entry of the name) -/
def pendOwn (ms : List MEnt) (i : Nat) : Key → Int
  | .ent f =>
    match lastOf ms (.ent f) with
    | .ent L => if i ≤ L then 1 else 0
    | _ => 0
  | _ => 0

theorem dir_nonchunk {m : MEnt} (h : m.e.type = "dir") : m.e.type ≠ "chunk" := by rw [h]; decide
theorem dir_nonhardlink {m : MEnt} (h : m.e.type = "dir") : m.e.type ≠ "hardlink" := by rw [h]; decide

theorem canon_of_dir {ms : List MEnt} {j f : Nat} {m : MEnt} (hm : ms[j]? = some m)
    (hd : m.e.type = "dir") (hf : firstIdx ms m.path = some f) : canon ms (.ent j) = .ent f := by
  simp [canon, hm, hd, hf]

theorem canon_of_nondir {ms : List MEnt} {j : Nat} {m : MEnt} (hm : ms[j]? = some m)
    (hd : m.e.type ≠ "dir") : canon ms (.ent j) = .ent j := by
  simp [canon, hm, hd]

theorem lastOf_of_dir {ms : List MEnt} {j L : Nat} {m : MEnt} (hm : ms[j]? = some m)
    (hd : m.e.type = "dir") (hL : lastIdx ms m.path = some L) : lastOf ms (.ent j) = .ent L := by
  simp [lastOf, hm, hd, hL]

theorem lastOf_of_nondir {ms : List MEnt} {j : Nat} {m : MEnt} (hm : ms[j]? = some m)
    (hd : m.e.type ≠ "dir") : lastOf ms (.ent j) = .ent j := by
  simp [lastOf, hm, hd]

theorem lastOf_ne_imp (ms : List MEnt) (k : Key) (d : Path) (h : k ≠ .imp d) : lastOf ms k ≠ .imp d := by
  cases k with
  | root => simp [lastOf]
  | imp p => simpa [lastOf] using h
  | ent j =>
    simp only [lastOf]
    split
    · split
      · split <;> simp
      · simp
    · simp

theorem lastOf_eq_root (ms : List MEnt) (k : Key) : lastOf ms k = .root ↔ k = .root := by
  cases k with
  | root => simp [lastOf]
  | imp p => simp [lastOf]
  | ent j =>
    simp only [lastOf]
    split
    · split
      · split <;> simp
      · simp
    · simp

theorem canon_is_ent (ms : List MEnt) (j : Nat) : ∃ r, canon ms (.ent j) = .ent r := by
  simp only [canon]
  split
  · split
    · split
      · exact ⟨_, rfl⟩
      · exact ⟨_, rfl⟩
    · exact ⟨_, rfl⟩
  · exact ⟨_, rfl⟩

/-- all entries of a directory name are directories with the same path; the first and the last
index exist together -/
theorem dir_first_last {ms : List MEnt} {j : Nat} {m : MEnt} (hm : ms[j]? = some m)
    (hd : m.e.type = "dir") :
    ∃ f L, firstIdx ms m.path = some f ∧ lastIdx ms m.path = some L ∧ f ≤ j ∧ j ≤ L := by
  have hnc : NonChunkAt ms j m.path := ⟨m, hm, dir_nonchunk hd, rfl⟩
  obtain ⟨f, hf, h1⟩ := firstIdx_isSome hnc
  obtain ⟨L, hL, h2⟩ := lastIdx_isSome hnc
  exact ⟨f, L, hf, hL, h1, h2⟩

/-- entries sharing a name with a directory entry are directories -/
theorem same_name_dir {ms : List MEnt} (ok : TreeOK ms) {i j : Nat} {mi mj : MEnt}
    (hi : ms[i]? = some mi) (hj : ms[j]? = some mj) (hci : mi.e.type ≠ "chunk") (hcj : mj.e.type ≠ "chunk")
    (hp : mi.path = mj.path) (hd : mi.e.type = "dir") : mj.e.type = "dir" ∧ attrOfEntry mi.e 0 = attrOfEntry mj.e 0 := by
  rcases ok.names i j mi mj hi hj hci hcj hp with h | ⟨_, h2, h3⟩
  · subst h; rw [hi] at hj; cases hj; exact ⟨hd, rfl⟩
  · exact ⟨h2, h3⟩

/-- `canon` does not confuse two memory directories -/
theorem canon_inj {ms : List MEnt} {k k' : Key} (hk : MLiveDir ms k) (hk' : MLiveDir ms k')
    (h : canon ms k = canon ms k') : k = k' := by
  cases k with
  | root =>
    cases k' with
    | root => rfl
    | imp p => simp [canon] at h
    | ent j => obtain ⟨r, hr⟩ := canon_is_ent ms j; rw [hr] at h; simp [canon] at h
  | imp p =>
    cases k' with
    | root => simp [canon] at h
    | imp q => simpa [canon] using h
    | ent j => obtain ⟨r, hr⟩ := canon_is_ent ms j; rw [hr] at h; simp [canon] at h
  | ent L =>
    cases k' with
    | root => obtain ⟨r, hr⟩ := canon_is_ent ms L; rw [hr] at h; simp [canon] at h
    | imp q => obtain ⟨r, hr⟩ := canon_is_ent ms L; rw [hr] at h; simp [canon] at h
    | ent L' =>
      obtain ⟨m, hm, hd, hL⟩ := hk
      obtain ⟨m', hm', hd', hL'⟩ := hk'
      obtain ⟨f, _, hf, _, _, _⟩ := dir_first_last hm hd
      obtain ⟨f', _, hf', _, _, _⟩ := dir_first_last hm' hd'
      rw [canon_of_dir hm hd hf, canon_of_dir hm' hd' hf'] at h
      cases h
      -- same first index: same name
      obtain ⟨mf, hmf, _, hpf⟩ := firstIdx_nonChunk hf
      obtain ⟨mf', hmf', _, hpf'⟩ := firstIdx_nonChunk hf'
      rw [hmf] at hmf'; cases hmf'
      have hp : m.path = m'.path := by rw [← hpf, ← hpf']
      rw [hp] at hL
      rw [hL] at hL'; cases hL'; rfl

structure Inv (ms : List MEnt) (i : Nat) (sm : MState) (sd : DState) (P : List Path) (δ : Key → Int) : Prop where
  /-- children maps, memory side renamed to db keys -/
  kids : ∀ k, MLiveDir ms k → sd.kids (canon ms k) = (sm.kids k).map (canonKV ms)
  /-- only live directories have children in the memory store -/
  memNoKids : ∀ k, ¬ MLiveDir ms k → sm.kids k = []
  walk : ∀ p, walkKids sd.kids .root p = if p ∈ P then none else look ms i sm.imps p
  impsNone : ∀ p ∈ sm.imps, lastIdx ms p = none
  pend : ∀ p ∈ P, p ∈ sm.imps ∧ p ≠ []
  node : ∀ k, Created ms i sm.imps k → ∃ b, sd.nodes k = some b ∧
    eraseNL b = eraseNL (writeAttr {} (attr0 ms k)) ∧
    readNumLink b = nlEff sm (lastOf ms k) + δ k + pendOwn ms i k
  noKids : ∀ k, ¬ (Created ms i sm.imps k ∧ IsDirKey ms k) → sd.kids k = []
  pendKids : ∀ p ∈ P, sd.kids (.imp p) = []
  /-- entries whose name has not been met yet still carry their pass-1 NumLink -/
  freshNl : ∀ j m, ms[j]? = some m → m.e.type ≠ "chunk" →
    (∀ f, firstIdx ms m.path = some f → i ≤ f) → sm.nl (.ent j) = initNl ms (.ent j)
  /-- the memory store creates its root directory lazily, before the first child is linked -/
  rootImp : sm.kids .root ≠ [] → [] ∈ sm.imps
  /-- children maps only point at existing nodes -/
  kidsCreated : ∀ k kv, kv ∈ sd.kids k → Created ms i sm.imps kv.2

def Admissible (ms : List MEnt) (i : Nat) (q : Path) : Prop :=
  ∀ n, 0 < n → n ≤ q.length →
    (∀ (j : Nat) (m : MEnt), ms[j]? = some m → m.e.type ≠ "chunk" → m.path = q.take n → m.e.type = "dir") ∧
    (∀ f, firstIdx ms (q.take n) = some f → f < i)

theorem resolveKey_nonhardlink {ms : List MEnt} (ok : TreeOK ms) {j : Nat} {m : MEnt}
    (hm : ms[j]? = some m) (hh : m.e.type ≠ "hardlink") : resolveKey ms j = .ent j := by
  rw [resolveKey_unfold ok hm, if_neg hh]

theorem mLookup_eq_look {ms : List MEnt} (ok : TreeOK ms) {i : Nat} {sm : MState} {d : Path}
    (hadm : Admissible ms i d) (hne : d ≠ []) :
    (mLookup ms sm d).map (canon ms) = look ms i sm.imps d ∧
      (∀ km, mLookup ms sm d = some km → MLiveDir ms km) ∧
      (∀ k, look ms i sm.imps d = some k → IsDirKey ms k) := by
  have hlen : 0 < d.length := List.length_pos_iff.mpr hne
  have had := hadm d.length hlen (Nat.le_refl _)
  rw [List.take_length] at had
  unfold mLookup look
  rw [if_neg hne]
  cases hl : lastIdx ms d with
  | some L =>
    obtain ⟨m, hm, hc, hp⟩ := lastIdx_nonChunk hl
    have hdir := had.1 L m hm hc hp
    obtain ⟨f, hf, _⟩ := firstIdx_isSome (lastIdx_nonChunk hl)
    obtain ⟨mf, hmf, hcf, hpf⟩ := firstIdx_nonChunk hf
    have hdf := had.1 f mf hmf hcf hpf
    have hfi := had.2 f hf
    have hcan : canon ms (.ent L) = .ent f := canon_of_dir hm hdir (by rw [hp]; exact hf)
    rw [hf]
    simp only [Option.map_some, hcan, hfi, ↓reduceIte, resolveKey_nonhardlink ok hmf (dir_nonhardlink hdf)]
    refine ⟨trivial, ?_, ?_⟩
    · intro km hk; cases hk
      exact ⟨m, hm, hdir, by rw [hp]; exact hl⟩
    · intro k hk; cases hk
      exact ⟨mf, hmf, hdf⟩
  | none =>
    rw [(firstIdx_eq_none_iff ms d).mpr hl]
    simp only
    by_cases hmem : d ∈ sm.imps
    · simp only [hmem, ↓reduceIte, impKey, hne, Option.map_some, canon]
      exact ⟨trivial, (fun km hk => by cases hk; trivial), (fun k hk => by cases hk; trivial)⟩
    · simp only [hmem, ↓reduceIte, Option.map_none]
      exact ⟨trivial, (fun km hk => by cases hk), (fun k hk => by cases hk)⟩

theorem readNumLink_root : readNumLink (writeAttr {} rootAttr) = 2 := by decide

theorem eraseNL_bump (b : DbAttr) : eraseNL (bumpNumLink b) = eraseNL b := rfl

theorem readNumLink_bump (b : DbAttr) : readNumLink (bumpNumLink b) = readNumLink b + 1 := by
  simp [readNumLink, bumpNumLink]

theorem look_cons_ne {ms : List MEnt} {i : Nat} {imps : List Path} {d p : Path} (h : p ≠ d) :
    look ms i (d :: imps) p = look ms i imps p := by
  unfold look
  have : (p ∈ d :: imps) ↔ p ∈ imps := by simp [h]
  simp only [this]

theorem created_cons {ms : List MEnt} {i : Nat} {imps : List Path} {d : Path} {k : Key}
    (hk : k ≠ .imp d) : Created ms i (d :: imps) k ↔ Created ms i imps k := by
  cases k with
  | root => simp [Created]
  | ent j => simp [Created]
  | imp p =>
    have : p ≠ d := fun e => hk (by rw [e])
    simp [Created, this]

theorem pendOwn_imp (ms : List MEnt) (i : Nat) (p : Path) : pendOwn ms i (.imp p) = 0 := rfl
theorem pendOwn_root (ms : List MEnt) (i : Nat) : pendOwn ms i .root = 0 := rfl

/-- an implicit directory has been created (bucket / `r.m` entry) but not linked yet -/
theorem inv_create_imp {ms : List MEnt} {i : Nat} {sm : MState} {sd : DState} {P : List Path}
    {δ : Key → Int} (inv : Inv ms i sm sd P δ) (d : Path) (hne : d ≠ []) (hnot : d ∉ sm.imps)
    (hl : lastIdx ms d = none) (hδ : δ (.imp d) = 0) :
    Inv ms i { sm with imps := d :: sm.imps, nl := fun k => if k = .imp d then 2 else sm.nl k }
      (setNode sd (.imp d) (writeAttr {} rootAttr)) (d :: P) δ := by
  have hlook : look ms i sm.imps d = none := by
    unfold look; rw [if_neg hne, (firstIdx_eq_none_iff ms d).mpr hl]; simp [hnot]
  refine ⟨inv.kids, inv.memNoKids, ?_, ?_, ?_, ?_, ?_, ?_, ?_, fun h => List.mem_cons_of_mem _ (inv.rootImp h), ?_⟩
  · intro p
    show walkKids sd.kids .root p = _
    rw [inv.walk p]
    by_cases hp : p = d
    · subst hp
      simp only [List.mem_cons, true_or, ↓reduceIte]
      split
      · rfl
      · exact hlook
    · rw [look_cons_ne hp]
      simp [hp]
  · intro p hp
    rcases List.mem_cons.mp hp with e | e
    · rw [e]; exact hl
    · exact inv.impsNone p e
  · intro p hp
    rcases List.mem_cons.mp hp with e | e
    · rw [e]; exact ⟨List.mem_cons_self .., hne⟩
    · exact ⟨List.mem_cons_of_mem _ (inv.pend p e).1, (inv.pend p e).2⟩
  · intro k hk
    by_cases hkd : k = .imp d
    · subst hkd
      refine ⟨writeAttr {} rootAttr, by simp [setNode], rfl, ?_⟩
      rw [readNumLink_root, hδ, pendOwn_imp]
      simp [nlEff, lastOf]
    · have hk' := (created_cons hkd).mp hk
      obtain ⟨b, h1, h2, h3⟩ := inv.node k hk'
      refine ⟨b, by simp [setNode, hkd, h1], h2, ?_⟩
      rw [h3]
      congr 2
      unfold nlEff
      have hlo := lastOf_ne_imp ms k d hkd
      simp only [hlo, ↓reduceIte, List.mem_cons]
      have : ([] : Path) ≠ d := fun e => hne e.symm
      simp [this]
  · intro k hk
    show sd.kids k = []
    apply inv.noKids
    intro ⟨h1, h2⟩
    by_cases hkd : k = .imp d
    · subst hkd; exact hnot h1.1
    · exact hk ⟨(created_cons hkd).mpr h1, h2⟩
  · intro p hp
    show sd.kids (.imp p) = []
    rcases List.mem_cons.mp hp with e | e
    · rw [e]
      apply inv.noKids
      intro ⟨h1, _⟩; exact hnot h1.1
    · exact inv.pendKids p e
  · intro j m hm hc hf
    show (if Key.ent j = Key.imp d then 2 else sm.nl (.ent j)) = _
    simp only [reduceCtorEq, ↓reduceIte]
    exact inv.freshNl j m hm hc hf
  · intro k kv hkv
    have := inv.kidsCreated k kv hkv
    by_cases hkd : kv.2 = .imp d
    · rw [hkd] at this; exact absurd this.1 hnot
    · exact (created_cons hkd).mpr this

theorem resolveF_is_ent (ms : List MEnt) : ∀ f t, ∃ r, resolveF ms f t = .ent r := by
  intro f
  induction f with
  | zero => intro t; exact ⟨t, rfl⟩
  | succ f ih =>
    intro t
    simp only [resolveF]
    split
    · split
      · split
        · exact ih _
        · exact ⟨t, rfl⟩
      · exact ⟨t, rfl⟩
    · exact ⟨t, rfl⟩

theorem look_imp_key {ms : List MEnt} {i : Nat} {imps : List Path} {p q : Path}
    (h : look ms i imps p = some (.imp q)) : p = q ∧ q ∈ imps := by
  unfold look at h
  split at h
  · cases h
  · split at h
    · split at h
      · rename_i j _ _
        obtain ⟨r, hr⟩ := resolveF_is_ent ms j j
        unfold resolveKey at h
        rw [hr] at h; cases h
      · cases h
    · split at h
      · cases h; rename_i hm; exact ⟨rfl, hm⟩
      · cases h

theorem look_ne_root {ms : List MEnt} {i : Nat} {imps : List Path} {p : Path} (hne : p ≠ [])
    (h : look ms i imps p = some .root) : False := by
  unfold look at h
  rw [if_neg hne] at h
  split at h
  · split at h
    · rename_i j _ _
      obtain ⟨r, hr⟩ := resolveF_is_ent ms j j
      unfold resolveKey at h; rw [hr] at h; cases h
    · cases h
  · split at h <;> cases h

theorem keyType_imp (ms : List MEnt) (p : Path) : keyType ms (.imp p) = "dir" := rfl

theorem map_setKid (ms : List MEnt) (b : String) (c : Key) (l : Kids) :
    (setKid b c l).map (canonKV ms) = setKid b (canon ms c) (l.map (canonKV ms)) := by
  induction l with
  | nil => rfl
  | cons x xs ih =>
    simp only [setKid, List.map_cons, canonKV]
    by_cases h : x.1 = b
    · simp [h, canonKV]
    · simp only [h, ↓reduceIte, List.map_cons]
      rw [ih]; rfl

theorem lastOf_canon {ms : List MEnt} (ok : TreeOK ms) {km : Key} (h : MLiveDir ms km) :
    lastOf ms (canon ms km) = km := by
  cases km with
  | root => rfl
  | imp p => rfl
  | ent L =>
    obtain ⟨m, hm, hd, hL⟩ := h
    obtain ⟨f, _, hf, _, _, _⟩ := dir_first_last hm hd
    rw [canon_of_dir hm hd hf]
    obtain ⟨mf, hmf, hcf, hpf⟩ := firstIdx_nonChunk hf
    have hdf := (same_name_dir ok hm hmf (dir_nonchunk hd) hcf hpf.symm hd).1
    rw [lastOf_of_dir hmf hdf (by rw [hpf]; exact hL)]

theorem canon_lastOf {ms : List MEnt} (ok : TreeOK ms) {i : Nat} {imps : List Path} {kd : Key}
    (h : Created ms i imps kd) : canon ms (lastOf ms kd) = kd ∧
      (IsDirKey ms kd → MLiveDir ms (lastOf ms kd)) := by
  cases kd with
  | root => exact ⟨rfl, fun _ => trivial⟩
  | imp p => exact ⟨rfl, fun _ => trivial⟩
  | ent f =>
    obtain ⟨_, m, hm, hc, _, hf⟩ := h
    by_cases hd : m.e.type = "dir"
    · obtain ⟨_, L, _, hL, _, _⟩ := dir_first_last hm hd
      rw [lastOf_of_dir hm hd hL]
      obtain ⟨mL, hmL, hcL, hpL⟩ := lastIdx_nonChunk hL
      have hdL := (same_name_dir ok hm hmL hc hcL hpL.symm hd).1
      refine ⟨canon_of_dir hmL hdL (by rw [hpL]; exact hf), fun _ => ⟨mL, hmL, hdL, by rw [hpL]; exact hL⟩⟩
    · rw [lastOf_of_nondir hm hd]
      refine ⟨canon_of_nondir hm hd, ?_⟩
      rintro ⟨m', hm', hd'⟩
      rw [hm] at hm'; cases hm'; exact absurd hd' hd

/-- the pending implicit directory `d = q ++ [b]` is linked into its parent (memory key `pkm`,
db key `pkd`) -/
theorem inv_link_pending {ms : List MEnt} (ok : TreeOK ms) {i : Nat} {sm : MState} {sd : DState}
    {P : List Path} {δ : Key → Int} (q : Path) (b : String) (pkm pkd : Key)
    (inv : Inv ms i sm sd ((q ++ [b]) :: P) δ)
    (hq : look ms i sm.imps q = some pkd) (hcan : canon ms pkm = pkd) (hlive : MLiveDir ms pkm)
    (hqP : q ∉ P) (hdP : (q ++ [b]) ∉ P)
    (hdir : IsDirKey ms pkd) (hroot : pkm = .root → [] ∈ sm.imps) :
    Inv ms i (mAddChild ms sm pkm b (.imp (q ++ [b]))) (dSetChild sd pkd b (.imp (q ++ [b])) true) P δ := by
  have hqd : q ≠ q ++ [b] := by intro e; have := congrArg List.length e; simp at this
  have hpkc := look_created ok hq
  obtain ⟨bp, hbp1, hbp2, hbp3⟩ := inv.node pkd hpkc
  have hpend := inv.pend (q ++ [b]) (List.mem_cons_self ..)
  have hne : Key.imp (q ++ [b]) ≠ pkd := by
    intro e; rw [← e] at hq
    exact hqd (look_imp_key hq).1
  have hlo : lastOf ms pkd = pkm := by rw [← hcan]; exact lastOf_canon ok hlive
  have hsdkids : (dSetChild sd pkd b (.imp (q ++ [b])) true).kids =
      fun k => if k = pkd then setKid b (.imp (q ++ [b])) (sd.kids k) else sd.kids k := by
    simp [dSetChild, hbp1, setNode]
  have hsdnodes : (dSetChild sd pkd b (.imp (q ++ [b])) true).nodes =
      fun k => if k = pkd then some (bumpNumLink bp) else sd.nodes k := by
    simp [dSetChild, hbp1, setNode]
  have hsmimps : (mAddChild ms sm pkm b (.imp (q ++ [b]))).imps = sm.imps := rfl
  have hsmnl : (mAddChild ms sm pkm b (.imp (q ++ [b]))).nl = fun k => if k = pkm then sm.nl k + 1 else sm.nl k := by
    simp [mAddChild, keyType_imp]
  have hsmkids : (mAddChild ms sm pkm b (.imp (q ++ [b]))).kids =
      fun k => if k = pkm then setKid b (.imp (q ++ [b])) (sm.kids k) else sm.kids k := rfl
  refine ⟨?_, ?_, ?_, inv.impsNone, ?_, ?_, ?_, ?_, ?_, ?_, ?_⟩
  · intro k hk
    rw [hsdkids, hsmkids]
    by_cases hkp : k = pkm
    · subst hkp
      simp only [hcan, ↓reduceIte]
      rw [map_setKid, ← inv.kids k hk, hcan]; rfl
    · have : canon ms k ≠ pkd := fun e => hkp (canon_inj hk hlive (e.trans hcan.symm))
      simp only [this, hkp, ↓reduceIte]
      exact inv.kids k hk
  · intro k hk
    rw [hsmkids]
    have : k ≠ pkm := fun e => hk (e ▸ hlive)
    simp only [this, ↓reduceIte]
    exact inv.memNoKids k hk
  · intro p
    rw [hsdkids]
    have := walk_link sd.kids (fun p => if p ∈ (q ++ [b]) :: P then none else look ms i sm.imps p)
      q b pkd (.imp (q ++ [b])) inv.walk
      (by simp only [List.mem_cons, hqd, hqP, or_self, ↓reduceIte]; exact hq)
      (by simp)
      (by
        intro p hp
        split at hp
        · cases hp
        · exact look_dir_unique ok hp hq hdir)
      (inv.pendKids _ (List.mem_cons_self ..)) hne p
    rw [this, hsmimps]
    by_cases hpd : p = q ++ [b]
    · subst hpd
      rw [if_pos rfl, if_neg hdP]
      unfold look
      rw [if_neg hpend.2, (firstIdx_eq_none_iff ms _).mpr (inv.impsNone _ hpend.1)]
      simp [hpend.1]
    · rw [if_neg hpd]
      simp [hpd]
  · intro p hp
    exact inv.pend p (List.mem_cons_of_mem _ hp)
  · intro k hk
    rw [hsdnodes]
    by_cases hkp : k = pkd
    · subst hkp
      refine ⟨bumpNumLink bp, by simp, by rw [eraseNL_bump]; exact hbp2, ?_⟩
      rw [readNumLink_bump, hbp3, hlo]
      unfold nlEff
      rw [hsmimps, hsmnl]
      by_cases hr : pkm = .root
      · have := hroot hr
        simp [this]; omega
      · simp [hr]; omega
    · obtain ⟨b', h1, h2, h3⟩ := inv.node k hk
      refine ⟨b', by simp [hkp, h1], h2, ?_⟩
      have hlk : lastOf ms k ≠ pkm := by
        intro e
        have := (canon_lastOf ok hk).1
        rw [e, hcan] at this
        exact hkp this.symm
      rw [h3]; unfold nlEff; rw [hsmimps, hsmnl]; simp [hlk]
  · intro k hk
    rw [hsdkids]
    have hkp : k ≠ pkd := fun e => hk (by subst e; exact ⟨hpkc, hdir⟩)
    simp only [hkp, ↓reduceIte]
    exact inv.noKids k hk
  · intro p hp
    rw [hsdkids]
    have : Key.imp p ≠ pkd := by
      intro e; rw [← e] at hq
      exact hqP ((look_imp_key hq).1 ▸ hp)
    simp only [this, ↓reduceIte]
    exact inv.pendKids p (List.mem_cons_of_mem _ hp)
  · intro j m hm hc hf
    rw [hsmnl]
    have : Key.ent j ≠ pkm := by
      intro e
      -- pkm is a live directory whose db node exists: its name has been met
      rw [← e] at hlive hcan
      obtain ⟨m', hm', hd', hL'⟩ := hlive
      rw [hm] at hm'; cases hm'
      obtain ⟨f, _, hff, _, _, _⟩ := dir_first_last hm hd'
      rw [canon_of_dir hm hd' hff] at hcan
      rw [← hcan] at hpkc
      have := hf f hff
      exact absurd hpkc.1 (by omega)
    simp only [this, ↓reduceIte]
    exact inv.freshNl j m hm hc hf
  · intro h
    by_cases hpk : pkm = .root
    · exact hroot hpk
    · apply inv.rootImp
      simpa [mAddChild, Ne.symm hpk] using h
  · intro k kv hkv
    rw [hsdkids] at hkv
    show Created ms i sm.imps kv.2
    by_cases hkp : k = pkd
    · simp only [hkp, ↓reduceIte] at hkv
      rcases mem_setKid hkv with e | e
      · rw [e]; exact ⟨hpend.1, hpend.2⟩
      · exact inv.kidsCreated pkd kv e
    · simp only [hkp, ↓reduceIte] at hkv
      exact inv.kidsCreated k kv hkv

theorem inv_create_root {ms : List MEnt} (ok : TreeOK ms) {i : Nat} {sm : MState} {sd : DState}
    {P : List Path} {δ : Key → Int} (inv : Inv ms i sm sd P δ) (hnot : [] ∉ sm.imps) :
    Inv ms i { sm with imps := [] :: sm.imps, nl := fun k => if k = .root then 2 else sm.nl k } sd P δ := by
  have hl : lastIdx ms [] = none := (lastIdx_eq_none_iff ms []).mpr ok.noRoot
  have hcr : ∀ k, Created ms i ([] :: sm.imps) k ↔ Created ms i sm.imps k := by
    intro k
    cases k with
    | root => simp [Created]
    | ent j => simp [Created]
    | imp p =>
      simp only [Created, List.mem_cons]
      constructor
      · rintro ⟨h1 | h1, h2⟩
        · exact absurd h1 h2
        · exact ⟨h1, h2⟩
      · rintro ⟨h1, h2⟩; exact ⟨Or.inr h1, h2⟩
  refine ⟨inv.kids, inv.memNoKids, ?_, ?_, ?_, ?_, ?_, inv.pendKids, ?_, fun _ => List.mem_cons_self ..,
    fun k kv hkv => (hcr kv.2).mpr (inv.kidsCreated k kv hkv)⟩
  · intro p
    rw [inv.walk p]
    by_cases hp : p = []
    · subst hp; simp [look]
    · rw [look_cons_ne hp]
  · intro p hp
    rcases List.mem_cons.mp hp with e | e
    · rw [e]; exact hl
    · exact inv.impsNone p e
  · intro p hp
    exact ⟨List.mem_cons_of_mem _ (inv.pend p hp).1, (inv.pend p hp).2⟩
  · intro k hk
    obtain ⟨b, h1, h2, h3⟩ := inv.node k ((hcr k).mp hk)
    refine ⟨b, h1, h2, ?_⟩
    rw [h3]; congr 2
    unfold nlEff
    by_cases hr : lastOf ms k = .root
    · rw [hr]; simp [hnot]
    · simp [hr]
  · intro k hk
    apply inv.noKids
    intro ⟨h1, h2⟩
    exact hk ⟨(hcr k).mpr h1, h2⟩
  · intro j m hm hc hf
    show (if Key.ent j = Key.root then 2 else sm.nl (.ent j)) = _
    simp only [reduceCtorEq, ↓reduceIte]
    exact inv.freshNl j m hm hc hf

theorem take_reverse_cons (b : String) (rest : List String) (n : Nat) (hn : n ≤ rest.length) :
    ((b :: rest).reverse).take n = rest.reverse.take n := by
  simp only [List.reverse_cons]
  rw [List.take_append_of_le_length (by simpa using hn)]

theorem goc {ms : List MEnt} (ok : TreeOK ms) (i : Nat) :
    ∀ (rev : List String) (sm : MState) (sd : DState) (P : List Path) (δ : Key → Int),
      Inv ms i sm sd P δ → (∀ p, δ (.imp p) = 0) →
      Admissible ms i rev.reverse →
      (∀ n, n ≤ rev.length → rev.reverse.take n ∉ P) →
      ∃ sm' sd' km kd, mGetOrCreateDir ms sm rev = (sm', km) ∧ dGetOrCreateDir sd rev = some (sd', kd) ∧
        canon ms km = kd ∧ MLiveDir ms km ∧
        Inv ms i sm' sd' P δ ∧ look ms i sm'.imps rev.reverse = some kd ∧ IsDirKey ms kd ∧
        (km = .root → [] ∈ sm'.imps) ∧
        (∀ p, p ∈ sm.imps → p ∈ sm'.imps) ∧
        (∀ j, i ≤ j → sd'.nodes (.ent j) = sd.nodes (.ent j)) ∧
        sd'.lastEnt = sd.lastEnt ∧ sd'.lastEntSize = sd.lastEntSize ∧ sd'.chunks = sd.chunks := by
  intro rev
  induction rev with
  | nil =>
    intro sm sd P δ inv _ _ _
    have hl : lastIdx ms [] = none := (lastIdx_eq_none_iff ms []).mpr ok.noRoot
    obtain ⟨br, hbr, _, _⟩ := inv.node .root trivial
    by_cases hmem : [] ∈ sm.imps
    · refine ⟨sm, sd, .root, .root, ?_, ?_, rfl, trivial, inv, by simp [look], trivial, fun _ => hmem,
        fun _ h => h, fun _ _ => rfl, rfl, rfl, rfl⟩
      · simp [mGetOrCreateDir, mLookup, hl, hmem, impKey]
      · simp [dGetOrCreateDir, hbr]
    · refine ⟨_, sd, .root, .root, ?_, ?_, rfl, trivial, inv_create_root ok inv hmem, by simp [look], trivial,
        fun _ => List.mem_cons_self .., fun _ h => List.mem_cons_of_mem _ h, fun _ _ => rfl, rfl, rfl, rfl⟩
      · simp [mGetOrCreateDir, mLookup, hl, hmem]
      · simp [dGetOrCreateDir, hbr]
  | cons b rest ih =>
    intro sm sd P δ inv hδ hadm hP
    have hd : (b :: rest).reverse = rest.reverse ++ [b] := by simp
    have hne : (b :: rest).reverse ≠ [] := by simp
    have hdP : (b :: rest).reverse ∉ P := by
      have := hP (b :: rest).length (Nat.le_refl _)
      rwa [← List.length_reverse, List.take_length] at this
    obtain ⟨hml, hlivek, hdirk⟩ := mLookup_eq_look (sm := sm) ok hadm hne
    have hwalk : dGetIDByName sd (b :: rest).reverse = look ms i sm.imps (b :: rest).reverse := by
      unfold dGetIDByName; rw [inv.walk, if_neg hdP]
    cases hmk : mLookup ms sm (b :: rest).reverse with
    | some km =>
      rw [hmk] at hml
      simp only [Option.map_some] at hml
      have hlk := hml.symm
      obtain ⟨bk, hbk, _, _⟩ := inv.node _ (look_created ok hlk)
      refine ⟨sm, sd, km, canon ms km, ?_, ?_, rfl, hlivek km hmk, inv, hlk, hdirk _ hlk, ?_, fun _ h => h,
        fun _ _ => rfl, rfl, rfl, rfl⟩
      · simp only [mGetOrCreateDir]; rw [hmk]
      · simp only [dGetOrCreateDir]; rw [hwalk, hlk]; simp [hbk]
      · intro e; subst e
        exact (look_ne_root hne hlk).elim
    | none =>
      rw [hmk] at hml
      simp only [Option.map_none] at hml
      have hlk := hml.symm
      -- both stores create the directory, recurse for the parent, then link
      have hlnone : lastIdx ms (b :: rest).reverse = none := by
        cases hl : lastIdx ms (b :: rest).reverse with
        | none => rfl
        | some j => unfold mLookup at hmk; rw [hl] at hmk; cases hmk
      have hnot : (b :: rest).reverse ∉ sm.imps := by
        intro hmem
        unfold mLookup at hmk; rw [hlnone] at hmk
        rw [if_pos hmem] at hmk; cases hmk
      have inv1 := inv_create_imp inv (b :: rest).reverse hne hnot hlnone (hδ _)
      have hadm' : Admissible ms i rest.reverse := by
        intro n h0 hn
        have hn' : n ≤ rest.length := by simpa using hn
        have := hadm n h0 (by simp; omega)
        rw [take_reverse_cons b rest n hn'] at this
        exact this
      have hP' : ∀ n, n ≤ rest.length → rest.reverse.take n ∉ (b :: rest).reverse :: P := by
        intro n hn hmem
        rcases List.mem_cons.mp hmem with e | e
        · have := congrArg List.length e
          simp at this; omega
        · have := hP n (by simp; omega)
          rw [take_reverse_cons b rest n hn] at this
          exact this e
      obtain ⟨sm2, sd2, pkm, pkd, hm2, hd2, hcan2, hlive2, inv2, hlook2, hdir2, hroot2, hmono2, hnodes2, hle2, hls2, hch2⟩ :=
        ih _ _ _ δ inv1 hδ hadm' hP'
      have hqP : rest.reverse ∉ P := by
        have := hP rest.length (by simp)
        rwa [take_reverse_cons b rest _ (Nat.le_refl _), ← List.length_reverse, List.take_length] at this
      rw [hd] at inv2 hdP
      have inv3 := inv_link_pending ok rest.reverse b pkm pkd inv2 hlook2 hcan2 hlive2 hqP hdP hdir2 hroot2
      have hdmem : (rest.reverse ++ [b]) ∈ sm2.imps := hmono2 _ (by rw [← hd]; exact List.mem_cons_self ..)
      have hpkc := look_created ok hlook2
      obtain ⟨bp, hbp, _, _⟩ := inv2.node pkd hpkc
      refine ⟨_, _, .imp (rest.reverse ++ [b]), .imp (rest.reverse ++ [b]), ?_, ?_, rfl, trivial, inv3, ?_, trivial,
        (fun e => by cases e), ?_, ?_, ?_, ?_, ?_⟩
      · simp only [mGetOrCreateDir]
        rw [hmk]
        simp only [hd] at hm2 ⊢
        rw [hm2]
      · simp only [dGetOrCreateDir]
        rw [hwalk, hlk]
        simp only [hd] at hd2 ⊢
        rw [hd2]
      · rw [hd]
        show look ms i sm2.imps (rest.reverse ++ [b]) = _
        unfold look
        rw [← hd, if_neg hne, (firstIdx_eq_none_iff ms _).mpr hlnone]
        rw [hd]; simp [hdmem]
      · intro p hp
        exact hmono2 p (List.mem_cons_of_mem _ hp)
      · intro j hj
        have hne' : Key.ent j ≠ pkd := by
          intro e; rw [← e] at hpkc; exact absurd hpkc.1 (by omega)
        have : (dSetChild sd2 pkd b (.imp (rest.reverse ++ [b])) true).nodes (.ent j) = sd2.nodes (.ent j) := by
          simp [dSetChild, hbp, setNode, hne']
        rw [this, hnodes2 j hj]
        simp [setNode]
      · simp [dSetChild, hbp, setNode, hle2]
      · simp [dSetChild, hbp, setNode, hls2]
      · simp [dSetChild, hbp, setNode, hch2]

theorem Inv.congr_db {ms : List MEnt} {i : Nat} {sm : MState} {sd sd' : DState} {P : List Path}
    {δ : Key → Int} (inv : Inv ms i sm sd P δ) (hk : sd'.kids = sd.kids) (hn : sd'.nodes = sd.nodes) :
    Inv ms i sm sd' P δ := by
  refine ⟨?_, inv.memNoKids, ?_, inv.impsNone, inv.pend, ?_, ?_, ?_, inv.freshNl, inv.rootImp, ?_⟩
  · rw [hk]; exact inv.kids
  · rw [hk]; exact inv.walk
  · rw [hn]; exact inv.node
  · rw [hk]; exact inv.noKids
  · rw [hk]; exact inv.pendKids
  · rw [hk]; exact inv.kidsCreated

theorem readNumLink_writeAttr_fresh (a : Attr) : readNumLink (writeAttr {} a) = a.numLink := by
  unfold writeAttr readNumLink putNZ
  cases a.xattrs with
  | nil => by_cases h : a.numLink - 1 = 0 <;> simp [h] <;> omega
  | cons f r => cases r <;> (by_cases h : a.numLink - 1 = 0 <;> simp [h] <;> omega)

theorem look_succ_at {ms : List MEnt} (ok : TreeOK ms) (i : Nat) (imps : List Path) (p : Path)
    (h : firstIdx ms p = some i) : look ms (i + 1) imps p = some (resolveKey ms i) := by
  have hp : p ≠ [] := fun e => ok.noRoot i (e ▸ firstIdx_nonChunk h)
  unfold look
  rw [if_neg hp, h]
  simp

theorem look_succ_ne {ms : List MEnt} (i : Nat) (imps : List Path) (p : Path)
    (h : firstIdx ms p ≠ some i) : look ms (i + 1) imps p = look ms i imps p := by
  unfold look
  by_cases hp : p = []
  · simp [hp]
  · simp only [hp, ↓reduceIte]
    cases hl : firstIdx ms p with
    | none => rfl
    | some j =>
      simp only
      have hji : j ≠ i := by
        intro e; subst e; exact h hl
      by_cases hlt : j < i
      · simp [hlt, Nat.lt_succ_of_lt hlt]
      · have : ¬ j < i + 1 := by omega
        simp [hlt, this]

/-- a bucket created early for the entry being processed does not disturb the invariant -/
theorem inv_setNode_fresh {ms : List MEnt} {i : Nat} {sm : MState} {sd : DState} {P : List Path}
    {δ : Key → Int} (inv : Inv ms i sm sd P δ) (j : Nat) (hj : i ≤ j) (b : DbAttr) :
    Inv ms i sm (setNode sd (.ent j) b) P δ := by
  refine ⟨inv.kids, inv.memNoKids, inv.walk, inv.impsNone, inv.pend, ?_, inv.noKids, inv.pendKids, inv.freshNl,
    inv.rootImp, inv.kidsCreated⟩
  intro k hk
  obtain ⟨b', h1, h2, h3⟩ := inv.node k hk
  have : k ≠ .ent j := by
    intro e; subst e; exact absurd hk.1 (by omega)
  exact ⟨b', by simp [setNode, this, h1], h2, h3⟩

theorem path_split (d : Path) (hne : d ≠ []) : d = parentDir d ++ [baseName d] := by
  unfold parentDir baseName
  have := List.dropLast_concat_getLast hne
  rw [List.getLast?_eq_some_getLast hne]
  simpa using this.symm

theorem walk_relink (kids : Key → Kids) (pk : Key) (b : String) (c : Key)
    (h : getKid b (kids pk) = some c) : ∀ (p : Path) (k : Key),
    walkKids (fun k => if k = pk then setKid b c (kids k) else kids k) k p = walkKids kids k p := by
  have hg : ∀ k b', getKid b' (if k = pk then setKid b c (kids k) else kids k) = getKid b' (kids k) := by
    intro k b'
    by_cases hk : k = pk
    · subst hk
      simp only [↓reduceIte]
      by_cases hb : b' = b
      · subst hb; rw [getKid_setKid_same, h]
      · exact getKid_setKid_ne _ _ _ _ hb
    · simp [hk]
  intro p
  induction p with
  | nil => intro k; rfl
  | cons x rest ih =>
    intro k
    simp only [walkKids]
    rw [hg k x]
    cases getKid x (kids k) with
    | none => rfl
    | some c' => exact ih c'

/-- the parent's children map, read off the walk -/
theorem getKid_of_walk (kids : Key → Kids) (q : Path) (b : String) (pk c : Key)
    (hq : walkKids kids .root q = some pk) (hd : walkKids kids .root (q ++ [b]) = some c) :
    getKid b (kids pk) = some c := by
  rw [walkKids_snoc, hq] at hd
  simpa using hd

theorem pendOwn_step {ms : List MEnt} (i : Nat) (k : Key) (h : lastOf ms k ≠ .ent i) :
    pendOwn ms (i + 1) k = pendOwn ms i k := by
  cases k with
  | root => rfl
  | imp p => rfl
  | ent f =>
    simp only [pendOwn]
    cases hl : lastOf ms (.ent f) with
    | root => rfl
    | imp p => rfl
    | ent L =>
      simp only
      have : L ≠ i := by intro e; subst e; exact h hl
      by_cases h1 : i ≤ L
      · have : i + 1 ≤ L := by omega
        simp [h1, this]
      · have : ¬ i + 1 ≤ L := by omega
        simp [h1, this]

/-- entry `i` (not a chunk, not a hardlink) is the FIRST of its name; it has been given its
bucket and its parent directory exists: linking it completes the step. -/
theorem inv_link_entry {ms : List MEnt} (ok : TreeOK ms) {i : Nat} {sm : MState} {sd : DState}
    (q : Path) (b : String) (pkm pkd : Key) (m : MEnt)
    (inv : Inv ms i sm sd [] (fun _ => 0))
    (hm : ms[i]? = some m) (hc : m.e.type ≠ "chunk") (hh : m.e.type ≠ "hardlink")
    (hfirst : firstIdx ms m.path = some i)
    (hpath : m.path = q ++ [b])
    (hq : look ms i sm.imps q = some pkd) (hcan : canon ms pkm = pkd) (hlive : MLiveDir ms pkm)
    (hdir : IsDirKey ms pkd) (hroot : pkm = .root → [] ∈ sm.imps)
    (hnode : sd.nodes (.ent i) = some (writeAttr {} (attr0 ms (.ent i)))) :
    Inv ms (i + 1)
      (mAddChild ms { sm with nl := fun k => if k = .ent i then sm.nl k + 1 else sm.nl k } pkm b (.ent i))
      (dSetChild sd pkd b (.ent i) (m.e.type = "dir")) [] (fun _ => 0) := by
  have hnc : NonChunkAt ms i (q ++ [b]) := ⟨m, hm, hc, hpath⟩
  have hfirst' : firstIdx ms (q ++ [b]) = some i := by rw [← hpath]; exact hfirst
  have hpkc := look_created ok hq
  obtain ⟨bp, hbp1, hbp2, hbp3⟩ := inv.node pkd hpkc
  have hne : Key.ent i ≠ pkd := by
    intro e; rw [← e] at hpkc; exact absurd hpkc.1 (by omega)
  have hlo : lastOf ms pkd = pkm := by rw [← hcan]; exact lastOf_canon ok hlive
  have hnem : Key.ent i ≠ pkm := by
    intro e
    rw [← e] at hlive hcan
    obtain ⟨m', hm', hd', _⟩ := hlive
    rw [hm] at hm'; cases hm'
    rw [canon_of_dir hm hd' hfirst] at hcan
    exact hne hcan
  have hkt : keyType ms (.ent i) = m.e.type := by simp [keyType, hm]
  have hres : resolveKey ms i = .ent i := resolveKey_nonhardlink ok hm hh
  have hcani : canon ms (.ent i) = .ent i := by
    by_cases hd : m.e.type = "dir"
    · exact canon_of_dir hm hd hfirst
    · exact canon_of_nondir hm hd
  have hsdkids : (dSetChild sd pkd b (.ent i) (m.e.type = "dir")).kids =
      fun k => if k = pkd then setKid b (.ent i) (sd.kids k) else sd.kids k := by
    unfold dSetChild
    by_cases hd : m.e.type = "dir" <;> simp [hd, hbp1, setNode]
  have hsdnodes : (dSetChild sd pkd b (.ent i) (m.e.type = "dir")).nodes =
      fun k => if k = pkd ∧ m.e.type = "dir" then some (bumpNumLink bp) else sd.nodes k := by
    unfold dSetChild
    by_cases hd : m.e.type = "dir"
    · simp [hd, hbp1, setNode]
    · simp [hd]
  have hlookd : look ms i sm.imps (q ++ [b]) = none := by
    have hne' : q ++ [b] ≠ [] := by simp
    unfold look; rw [if_neg hne', hfirst']; simp
  have hkidsi : sd.kids (.ent i) = [] := by
    apply inv.noKids
    intro ⟨h1, _⟩; exact absurd h1.1 (by omega)
  have hcr : ∀ k, Created ms (i + 1) sm.imps k ↔ (k = .ent i ∨ Created ms i sm.imps k) := by
    intro k
    cases k with
    | root => simp [Created]
    | imp p => simp [Created]
    | ent j =>
      simp only [Created, Key.ent.injEq]
      constructor
      · rintro ⟨h1, h2⟩
        by_cases hji : j = i
        · exact Or.inl hji
        · exact Or.inr ⟨by omega, h2⟩
      · rintro (h | ⟨h1, h2⟩)
        · subst h; exact ⟨by omega, m, hm, hc, hh, hfirst⟩
        · exact ⟨by omega, h2⟩
  have hsmkids : (mAddChild ms { sm with nl := fun k => if k = .ent i then sm.nl k + 1 else sm.nl k } pkm b (.ent i)).kids =
      fun k => if k = pkm then setKid b (.ent i) (sm.kids k) else sm.kids k := rfl
  have hnl : (mAddChild ms { sm with nl := fun k => if k = .ent i then sm.nl k + 1 else sm.nl k } pkm b (.ent i)).nl =
      fun k => if k = pkm ∧ m.e.type = "dir" then sm.nl k + 1
               else if k = .ent i then sm.nl k + 1 else sm.nl k := by
    unfold mAddChild
    simp only [hkt]
    by_cases hd : m.e.type = "dir"
    · simp only [hd, ↓reduceIte, and_true]
      funext k
      by_cases hkp : k = pkm
      · subst hkp; simp [Ne.symm hnem]
      · simp [hkp]
    · simp [hd]
  have himps : (mAddChild ms { sm with nl := fun k => if k = .ent i then sm.nl k + 1 else sm.nl k } pkm b (.ent i)).imps = sm.imps := rfl
  -- no node that exists already has entry `i` as the last of its name
  have hnolast : ∀ k, Created ms i sm.imps k → lastOf ms k ≠ .ent i := by
    intro k hk e
    have h1 := (canon_lastOf ok hk).1
    rw [e, hcani] at h1
    rw [← h1] at hk; exact absurd hk.1 (by omega)
  refine ⟨?_, ?_, ?_, inv.impsNone, ?_, ?_, ?_, ?_, ?_, ?_, ?_⟩
  · intro k hk
    rw [hsdkids, hsmkids]
    by_cases hkp : k = pkm
    · subst hkp
      simp only [hcan, ↓reduceIte]
      rw [map_setKid, ← inv.kids k hk, hcan, hcani]
    · have : canon ms k ≠ pkd := fun e => hkp (canon_inj hk hlive (e.trans hcan.symm))
      simp only [this, hkp, ↓reduceIte]
      exact inv.kids k hk
  · intro k hk
    rw [hsmkids]
    have : k ≠ pkm := fun e => hk (e ▸ hlive)
    simp only [this, ↓reduceIte]
    exact inv.memNoKids k hk
  · intro p
    rw [hsdkids]
    have hw : ∀ p, walkKids sd.kids .root p = look ms i sm.imps p := by
      intro p; have := inv.walk p; simpa using this
    have := walk_link sd.kids (look ms i sm.imps) q b pkd (.ent i) hw hq hlookd
      (fun p hp => look_dir_unique ok hp hq hdir) hkidsi hne p
    rw [this]
    simp only [List.not_mem_nil, ↓reduceIte]
    show _ = look ms (i + 1) sm.imps p
    by_cases hpd : p = q ++ [b]
    · subst hpd; rw [look_succ_at ok i _ _ hfirst', hres]; simp
    · have : firstIdx ms p ≠ some i := by
        intro h
        obtain ⟨m', hm', _, hp'⟩ := firstIdx_nonChunk h
        rw [hm] at hm'; cases hm'
        exact hpd (by rw [← hp', hpath])
      rw [look_succ_ne i _ _ this]; simp [hpd]
  · intro p hp; cases hp
  · intro k hk
    rw [hsdnodes]
    show ∃ b', _ ∧ _ ∧ readNumLink b' = nlEff _ (lastOf ms k) + 0 + pendOwn ms (i + 1) k
    rcases (hcr k).mp hk with hki | hko
    · subst hki
      have hnp : ¬ (Key.ent i = pkd ∧ m.e.type = "dir") := fun h => hne h.1
      refine ⟨_, by dsimp only; rw [if_neg hnp]; exact hnode, rfl, ?_⟩
      rw [readNumLink_writeAttr_fresh]
      by_cases hd : m.e.type = "dir"
      · obtain ⟨_, L, _, hL, _, hiL⟩ := dir_first_last hm hd
        rw [lastOf_of_dir hm hd hL]
        have hpo : pendOwn ms (i + 1) (.ent i) = if i + 1 ≤ L then 1 else 0 := by
          simp [pendOwn, lastOf_of_dir hm hd hL]
        rw [hpo]
        unfold nlEff
        rw [himps, hnl]
        obtain ⟨mL, hmL, hcL, hpL⟩ := lastIdx_nonChunk hL
        have hLp : Key.ent L ≠ pkm := by
          intro e
          rw [← e] at hlive hcan
          obtain ⟨m', hm', hd', _⟩ := hlive
          rw [hmL] at hm'; cases hm'
          rw [canon_of_dir hmL hd' (by rw [hpL]; exact hfirst)] at hcan
          exact hne hcan
        by_cases hLi : L = i
        · subst hLi
          have h0 := inv.freshNl L m hm hc (fun f hf => by rw [hfirst] at hf; cases hf; exact Nat.le_refl _)
          simp only [reduceCtorEq, false_and, ↓reduceIte, hnem, attr0, hm, attrOfEntry, hd]
          rw [h0]
          have : ¬ L + 1 ≤ L := by omega
          simp [initNl, hm, hd, this]
        · have h0 := inv.freshNl L mL hmL hcL (fun f hf => by rw [hpL, hfirst] at hf; cases hf; exact Nat.le_refl _)
          have hdL := (same_name_dir ok hm hmL hc hcL hpL.symm hd).1
          have hLi' : Key.ent L ≠ Key.ent i := by intro e; cases e; exact hLi rfl
          have : i + 1 ≤ L := by omega
          simp only [reduceCtorEq, false_and, ↓reduceIte, hLp, hLi', this, attr0, hm, attrOfEntry, hd]
          rw [h0]; simp [initNl, hmL, hdL]
      · rw [lastOf_of_nondir hm hd]
        have hpo : pendOwn ms (i + 1) (.ent i) = 0 := by
          simp [pendOwn, lastOf_of_nondir hm hd]
        rw [hpo]
        unfold nlEff
        rw [himps, hnl]
        have h0 := inv.freshNl i m hm hc (fun f hf => by rw [hfirst] at hf; cases hf; exact Nat.le_refl _)
        simp only [reduceCtorEq, false_and, ↓reduceIte, hd, and_false, attr0, hm, attrOfEntry]
        rw [h0]; simp [initNl, hm, hd]
    · obtain ⟨b', h1, h2, h3⟩ := inv.node k hko
      have hki := hnolast k hko
      have hpo := pendOwn_step i k hki
      by_cases hkp : k = pkd ∧ m.e.type = "dir"
      · obtain ⟨hkp1, hd⟩ := hkp
        subst hkp1
        rw [hbp1] at h1; cases h1
        refine ⟨bumpNumLink bp, by simp [hd], by rw [eraseNL_bump]; exact h2, ?_⟩
        rw [readNumLink_bump, h3, hpo, hlo]
        unfold nlEff
        rw [himps, hnl]
        by_cases hr : pkm = .root
        · have := hroot hr; simp [this, hd]; omega
        · simp [hr, hd]; omega
      · refine ⟨b', by dsimp only; rw [if_neg hkp]; exact h1, h2, ?_⟩
        rw [h3, hpo]
        congr 2
        unfold nlEff
        rw [himps, hnl]
        have hkm : ¬ (lastOf ms k = pkm ∧ m.e.type = "dir") := by
          intro ⟨e, hd⟩
          apply hkp
          refine ⟨?_, hd⟩
          have := (canon_lastOf ok hko).1
          rw [e, hcan] at this; exact this.symm
        simp [hkm, hki]
  · intro k hk
    rw [hsdkids]
    have hkp : k ≠ pkd := by
      intro e; subst e
      exact hk ⟨(hcr k).mpr (Or.inr hpkc), hdir⟩
    simp only [hkp, ↓reduceIte]
    by_cases hki : k = .ent i
    · subst hki; exact hkidsi
    · apply inv.noKids
      intro ⟨h1, h2⟩
      exact hk ⟨(hcr k).mpr (Or.inr h1), h2⟩
  · intro p hp; cases hp
  · intro j mj hmj hcj hf
    rw [hnl]
    have hjp : ¬ (Key.ent j = pkm ∧ m.e.type = "dir") := by
      intro ⟨e, _⟩
      rw [← e] at hlive hcan
      obtain ⟨m', hm', hd', _⟩ := hlive
      rw [hmj] at hm'; cases hm'
      obtain ⟨f, _, hff, _, _, _⟩ := dir_first_last hmj hd'
      rw [canon_of_dir hmj hd' hff] at hcan
      rw [← hcan] at hpkc
      have := hf f hff
      exact absurd hpkc.1 (by omega)
    have hji : Key.ent j ≠ .ent i := by
      intro e; cases e
      rw [hm] at hmj; cases hmj
      have := hf i hfirst; omega
    simp only [hjp, hji, ↓reduceIte]
    exact inv.freshNl j mj hmj hcj (fun f hff => by have := hf f hff; omega)
  · intro h
    by_cases hpk : pkm = .root
    · exact hroot hpk
    · apply inv.rootImp
      simpa [mAddChild, Ne.symm hpk] using h
  · intro k kv hkv
    rw [hsdkids] at hkv
    show Created ms (i + 1) sm.imps kv.2
    by_cases hkp : k = pkd
    · simp only [hkp, ↓reduceIte] at hkv
      rcases mem_setKid hkv with e | e
      · rw [e]; exact (hcr _).mpr (Or.inl rfl)
      · exact (hcr _).mpr (Or.inr (inv.kidsCreated pkd kv e))
    · simp only [hkp, ↓reduceIte] at hkv
      exact (hcr _).mpr (Or.inr (inv.kidsCreated k kv hkv))

theorem putNZ_idem (v : Int) : putNZ (putNZ none v) v = putNZ none v := by
  unfold putNZ; by_cases h : v = 0 <;> simp [h]

/-- writing the same attributes over a bucket again (a repeated directory entry) changes nothing -/
theorem writeAttr_idem (b : DbAttr) (a0 : Attr) (he : eraseNL b = eraseNL (writeAttr {} a0)) :
    writeAttr b { a0 with numLink := readNumLink b } = b := by
  have h1 : b.size = (writeAttr {} a0).size := by have := congrArg DbAttr.size he; exact this
  have h2 : b.uid = (writeAttr {} a0).uid := by have := congrArg DbAttr.uid he; exact this
  have h3 : b.gid = (writeAttr {} a0).gid := by have := congrArg DbAttr.gid he; exact this
  have h4 : b.devMajor = (writeAttr {} a0).devMajor := by have := congrArg DbAttr.devMajor he; exact this
  have h5 : b.devMinor = (writeAttr {} a0).devMinor := by have := congrArg DbAttr.devMinor he; exact this
  have h6 : b.mtime = (writeAttr {} a0).mtime := by have := congrArg DbAttr.mtime he; exact this
  have h7 : b.linkName = (writeAttr {} a0).linkName := by have := congrArg DbAttr.linkName he; exact this
  have h8 : b.mode = (writeAttr {} a0).mode := by have := congrArg DbAttr.mode he; exact this
  have h9 : b.xFirst = (writeAttr {} a0).xFirst := by have := congrArg DbAttr.xFirst he; exact this
  have h10 : b.xExtra = (writeAttr {} a0).xExtra := by have := congrArg DbAttr.xExtra he; exact this
  have hnl : putNZ b.numLink (readNumLink b - 1) = b.numLink := by
    unfold putNZ readNumLink
    cases hb : b.numLink with
    | none => simp
    | some n => by_cases h0 : n = 0 <;> simp [h0]
  obtain ⟨sz, uid, gid, dj, dn, nl, mt, ln, md, xf, xe⟩ := b
  simp only at h1 h2 h3 h4 h5 h6 h7 h8 h9 h10 hnl
  unfold writeAttr at h1 h2 h3 h4 h5 h6 h7 h8 h9 h10 ⊢
  cases hx : a0.xattrs with
  | nil =>
    simp only [hx] at h1 h2 h3 h4 h5 h6 h7 h8 h9 h10 ⊢
    simp only [DbAttr.mk.injEq]
    refine ⟨?_, ?_, ?_, ?_, ?_, hnl, ?_, ?_, ?_, trivial, trivial⟩
    · rw [h1]; exact putNZ_idem _
    · rw [h2]; exact putNZ_idem _
    · rw [h3]; exact putNZ_idem _
    · rw [h4]; exact putNZ_idem _
    · rw [h5]; exact putNZ_idem _
    · rw [h6]; cases a0.mtime <;> rfl
    · rw [h7]; by_cases h : a0.linkName = "" <;> simp [h]
    · rw [h8]; by_cases h : a0.mode = 0 <;> simp [h]
  | cons f r =>
    cases r with
    | nil =>
      simp only [hx] at h1 h2 h3 h4 h5 h6 h7 h8 h9 h10 ⊢
      simp only [DbAttr.mk.injEq]
      refine ⟨?_, ?_, ?_, ?_, ?_, hnl, ?_, ?_, ?_, h9.symm, trivial⟩
      · rw [h1]; exact putNZ_idem _
      · rw [h2]; exact putNZ_idem _
      · rw [h3]; exact putNZ_idem _
      · rw [h4]; exact putNZ_idem _
      · rw [h5]; exact putNZ_idem _
      · rw [h6]; cases a0.mtime <;> rfl
      · rw [h7]; by_cases h : a0.linkName = "" <;> simp [h]
      · rw [h8]; by_cases h : a0.mode = 0 <;> simp [h]
    | cons r1 rs =>
      simp only [hx] at h1 h2 h3 h4 h5 h6 h7 h8 h9 h10 ⊢
      simp only [DbAttr.mk.injEq]
      refine ⟨?_, ?_, ?_, ?_, ?_, hnl, ?_, ?_, ?_, h9.symm, h10.symm⟩
      · rw [h1]; exact putNZ_idem _
      · rw [h2]; exact putNZ_idem _
      · rw [h3]; exact putNZ_idem _
      · rw [h4]; exact putNZ_idem _
      · rw [h5]; exact putNZ_idem _
      · rw [h6]; cases a0.mtime <;> rfl
      · rw [h7]; by_cases h : a0.linkName = "" <;> simp [h]
      · rw [h8]; by_cases h : a0.mode = 0 <;> simp [h]

/-- entry `i` announces a directory again (`f < i` is the first entry of the name): the memory
store links the new entry object, the db store links the same node once more. -/
theorem inv_relink_dup {ms : List MEnt} (ok : TreeOK ms) {i f : Nat} {sm : MState} {sd : DState}
    (q : Path) (b : String) (pkm pkd : Key) (m : MEnt)
    (inv : Inv ms i sm sd [] (fun _ => 0))
    (hm : ms[i]? = some m) (hd : m.e.type = "dir")
    (hfirst : firstIdx ms m.path = some f) (hfi : f < i)
    (hpath : m.path = q ++ [b])
    (hq : look ms i sm.imps q = some pkd) (hcan : canon ms pkm = pkd) (hlive : MLiveDir ms pkm)
    (hdir : IsDirKey ms pkd) (hroot : pkm = .root → [] ∈ sm.imps) :
    Inv ms (i + 1)
      (mAddChild ms { sm with nl := fun k => if k = .ent i then sm.nl k + 1 else sm.nl k } pkm b (.ent i))
      (dSetChild sd pkd b (.ent f) true) [] (fun _ => 0) := by
  have hc := dir_nonchunk hd
  have hpkc := look_created ok hq
  obtain ⟨bp, hbp1, hbp2, hbp3⟩ := inv.node pkd hpkc
  have hlo : lastOf ms pkd = pkm := by rw [← hcan]; exact lastOf_canon ok hlive
  have hcani : canon ms (.ent i) = .ent f := canon_of_dir hm hd hfirst
  obtain ⟨mf, hmf, hcf, hpf⟩ := firstIdx_nonChunk hfirst
  have hdf := (same_name_dir ok hm hmf hc hcf hpf.symm hd).1
  have hlookd : look ms i sm.imps (q ++ [b]) = some (.ent f) := by
    have hne' : q ++ [b] ≠ [] := by simp
    unfold look; rw [if_neg hne', ← hpath, hfirst]
    simp [hfi, resolveKey_nonhardlink ok hmf (dir_nonhardlink hdf)]
  have hfc := look_created ok hlookd
  have hw : ∀ p, walkKids sd.kids .root p = look ms i sm.imps p := by
    intro p; have := inv.walk p; simpa using this
  have hgk : getKid b (sd.kids pkd) = some (.ent f) :=
    getKid_of_walk sd.kids q b pkd (.ent f) (by rw [hw, hq]) (by rw [hw, hlookd])
  -- the parent is another directory
  have hnem : Key.ent i ≠ pkm := by
    intro e
    rw [← e] at hcan
    rw [hcani] at hcan
    rw [← hcan] at hq
    have := look_dir_unique ok hq hlookd ⟨mf, hmf, hdf⟩
    have := congrArg List.length this; simp at this
  have hkt : keyType ms (.ent i) = "dir" := by simp [keyType, hm, hd]
  have hsdkids : (dSetChild sd pkd b (.ent f) true).kids =
      fun k => if k = pkd then setKid b (.ent f) (sd.kids k) else sd.kids k := by
    simp [dSetChild, hbp1, setNode]
  have hsdnodes : (dSetChild sd pkd b (.ent f) true).nodes =
      fun k => if k = pkd then some (bumpNumLink bp) else sd.nodes k := by
    simp [dSetChild, hbp1, setNode]
  have hsmkids : (mAddChild ms { sm with nl := fun k => if k = .ent i then sm.nl k + 1 else sm.nl k } pkm b (.ent i)).kids =
      fun k => if k = pkm then setKid b (.ent i) (sm.kids k) else sm.kids k := rfl
  have hnl : (mAddChild ms { sm with nl := fun k => if k = .ent i then sm.nl k + 1 else sm.nl k } pkm b (.ent i)).nl =
      fun k => if k = pkm then sm.nl k + 1 else if k = .ent i then sm.nl k + 1 else sm.nl k := by
    unfold mAddChild
    simp only [hkt, ↓reduceIte]
    funext k
    by_cases hkp : k = pkm
    · subst hkp; simp [Ne.symm hnem]
    · simp [hkp]
  have himps : (mAddChild ms { sm with nl := fun k => if k = .ent i then sm.nl k + 1 else sm.nl k } pkm b (.ent i)).imps = sm.imps := rfl
  have hcr : ∀ k, Created ms (i + 1) sm.imps k ↔ Created ms i sm.imps k := by
    intro k
    cases k with
    | root => simp [Created]
    | imp p => simp [Created]
    | ent j =>
      simp only [Created]
      constructor
      · rintro ⟨h1, m', h2, h3, h4, h5⟩
        refine ⟨?_, m', h2, h3, h4, h5⟩
        by_cases hji : j = i
        · subst hji; rw [hm] at h2; cases h2; rw [hfirst] at h5; cases h5; omega
        · omega
      · rintro ⟨h1, h2⟩; exact ⟨by omega, h2⟩
  have hlooksucc : ∀ p, look ms (i + 1) sm.imps p = look ms i sm.imps p := by
    intro p
    apply look_succ_ne
    intro h
    obtain ⟨m', hm', _, hp'⟩ := firstIdx_nonChunk h
    rw [hm] at hm'; cases hm'
    rw [← hp', hfirst] at h; cases h; omega
  refine ⟨?_, ?_, ?_, inv.impsNone, ?_, ?_, ?_, ?_, ?_, ?_, ?_⟩
  · intro k hk
    rw [hsdkids, hsmkids]
    by_cases hkp : k = pkm
    · subst hkp
      simp only [hcan, ↓reduceIte]
      rw [map_setKid, ← inv.kids k hk, hcan, hcani]
    · have : canon ms k ≠ pkd := fun e => hkp (canon_inj hk hlive (e.trans hcan.symm))
      simp only [this, hkp, ↓reduceIte]
      exact inv.kids k hk
  · intro k hk
    rw [hsmkids]
    have : k ≠ pkm := fun e => hk (e ▸ hlive)
    simp only [this, ↓reduceIte]
    exact inv.memNoKids k hk
  · intro p
    rw [hsdkids, walk_relink sd.kids pkd b (.ent f) hgk p .root, hw p]
    simp only [List.not_mem_nil, ↓reduceIte]
    exact (hlooksucc p).symm
  · intro p hp; cases hp
  · intro k hk
    rw [hsdnodes]
    show ∃ b', _ ∧ _ ∧ readNumLink b' = nlEff _ (lastOf ms k) + 0 + pendOwn ms (i + 1) k
    have hko := (hcr k).mp hk
    obtain ⟨b', h1, h2, h3⟩ := inv.node k hko
    by_cases hkp : k = pkd
    · subst hkp
      rw [hbp1] at h1; cases h1
      have hki : lastOf ms k ≠ .ent i := by rw [hlo]; exact Ne.symm hnem
      refine ⟨bumpNumLink bp, by simp, by rw [eraseNL_bump]; exact h2, ?_⟩
      rw [readNumLink_bump, h3, pendOwn_step i k hki, hlo]
      unfold nlEff
      rw [himps, hnl]
      by_cases hr : pkm = .root
      · have := hroot hr; simp [this]; omega
      · simp [hr]; omega
    · refine ⟨b', by dsimp only; rw [if_neg hkp]; exact h1, h2, ?_⟩
      have hkm : lastOf ms k ≠ pkm := by
        intro e
        have := (canon_lastOf ok hko).1
        rw [e, hcan] at this; exact hkp this.symm
      by_cases hki : lastOf ms k = .ent i
      · -- the node of this very directory: the memory store counts the last name now
        have hkf : k = .ent f := by
          have := (canon_lastOf ok hko).1
          rw [hki, hcani] at this; exact this.symm
        subst hkf
        rw [h3]
        have hp1 : pendOwn ms i (.ent f) = 1 := by simp [pendOwn, hki]
        have hp2 : pendOwn ms (i + 1) (.ent f) = 0 := by
          have : ¬ i + 1 ≤ i := by omega
          simp [pendOwn, hki, this]
        rw [hp1, hp2, hki]
        unfold nlEff
        rw [himps, hnl]
        simp [Ne.symm hnem]
      · rw [h3, pendOwn_step i k hki]
        congr 2
        unfold nlEff
        rw [himps, hnl]
        simp [hkm, hki]
  · intro k hk
    rw [hsdkids]
    have hkp : k ≠ pkd := by
      intro e; subst e
      exact hk ⟨(hcr k).mpr hpkc, hdir⟩
    simp only [hkp, ↓reduceIte]
    apply inv.noKids
    intro ⟨h1, h2⟩
    exact hk ⟨(hcr k).mpr h1, h2⟩
  · intro p hp; cases hp
  · intro j mj hmj hcj hf
    rw [hnl]
    have hjp : Key.ent j ≠ pkm := by
      intro e
      rw [← e] at hlive hcan
      obtain ⟨m', hm', hd', _⟩ := hlive
      rw [hmj] at hm'; cases hm'
      obtain ⟨f', _, hff, _, _, _⟩ := dir_first_last hmj hd'
      rw [canon_of_dir hmj hd' hff] at hcan
      rw [← hcan] at hpkc
      have := hf f' hff
      exact absurd hpkc.1 (by omega)
    have hji : Key.ent j ≠ .ent i := by
      intro e; cases e
      rw [hm] at hmj; cases hmj
      have := hf f hfirst; omega
    simp only [hjp, hji, ↓reduceIte]
    exact inv.freshNl j mj hmj hcj (fun f' hff => by have := hf f' hff; omega)
  · intro h
    by_cases hpk : pkm = .root
    · exact hroot hpk
    · apply inv.rootImp
      simpa [mAddChild, Ne.symm hpk] using h
  · intro k kv hkv
    rw [hsdkids] at hkv
    show Created ms (i + 1) sm.imps kv.2
    by_cases hkp : k = pkd
    · simp only [hkp, ↓reduceIte] at hkv
      rcases mem_setKid hkv with e | e
      · rw [e]; exact (hcr _).mpr hfc
      · exact (hcr _).mpr (inv.kidsCreated pkd kv e)
    · simp only [hkp, ↓reduceIte] at hkv
      exact (hcr _).mpr (inv.kidsCreated k kv hkv)

/-! ## The loop bound of `getSource` -/

def isHl (m : MEnt) : Bool := m.e.type = "hardlink"

theorem mem_namesOf {ms : List MEnt} {j : Nat} {p : Path} (h : NonChunkAt ms j p) : p ∈ namesOf ms := by
  obtain ⟨m, hm, hc, hp⟩ := h
  unfold namesOf
  rw [List.mem_map]
  exact ⟨m, List.mem_filter.mpr ⟨List.mem_of_getElem? hm, by simp [ncB, hc]⟩, hp⟩

/-- names that are pairwise different by index are pairwise different as a list -/
theorem nodup_filter_map (P : MEnt → Bool) : ∀ (l : List MEnt),
    (∀ (i j : Nat) (mi mj : MEnt), l[i]? = some mi → l[j]? = some mj → P mi = true → P mj = true →
      mi.path = mj.path → i = j) → ((l.filter P).map (·.path)).Nodup := by
  intro l
  induction l with
  | nil => intro _; simp
  | cons x rest ih =>
    intro h
    have hrest := ih (fun i j mi mj hi hj pi pj hp => by
      have := h (i + 1) (j + 1) mi mj (by simpa using hi) (by simpa using hj) pi pj hp
      omega)
    by_cases hx : P x = true
    · simp only [List.filter, hx, List.map_cons]
      refine List.nodup_cons.mpr ⟨?_, hrest⟩
      intro hmem
      rw [List.mem_map] at hmem
      obtain ⟨y, hy, hyp⟩ := hmem
      obtain ⟨hyr, hPy⟩ := List.mem_filter.mp hy
      obtain ⟨j, hj, hyj⟩ := List.getElem_of_mem hyr
      have := h 0 (j + 1) x y (by simp) (by simp [← hyj]) hx hPy hyp.symm
      omega
    · simp only [List.filter, hx]
      exact hrest

theorem length_filter_ne (a : Path) : ∀ (H : List Path), H.Nodup →
    H.length ≤ (H.filter fun b => !b == a).length + 1 := by
  intro H
  induction H with
  | nil => intro _; simp
  | cons x xs ih =>
    intro hnd
    obtain ⟨h1, h2⟩ := List.nodup_cons.mp hnd
    by_cases hxa : x = a
    · subst hxa
      have hf : (xs.filter fun b => !b == x) = xs := by
        rw [List.filter_eq_self]
        intro b hb
        have : b ≠ x := fun e => h1 (e ▸ hb)
        simp [this]
      have hb : (!x == x) = false := by simp
      simp only [List.filter, hb, hf, List.length_cons]; omega
    · have := ih h2
      have hb : (!x == a) = true := by simp [hxa]
      simp only [List.filter, hb, List.length_cons]; omega

/-- a duplicate-free list of names drawn from `N` is no longer than `N` without its duplicates -/
theorem length_le_eraseDups : ∀ (n : Nat) (N H : List Path), N.length = n → H.Nodup →
    (∀ x, x ∈ H → x ∈ N) → H.length ≤ N.eraseDups.length := by
  intro n
  induction n using Nat.strongRecOn with
  | _ n ih =>
    intro N H hn hnd hsub
    cases N with
    | nil =>
      cases H with
      | nil => simp
      | cons x xs => exact absurd (hsub x (by simp)) (by simp)
    | cons a N' =>
      rw [List.eraseDups_cons]
      have hlen : (N'.filter fun b => !b == a).length < n := by
        have := List.length_filter_le (fun b => !b == a) N'
        simp at hn; omega
      have hH' : (H.filter fun b => !b == a).Nodup := hnd.filter _
      have hsub' : ∀ x, x ∈ (H.filter fun b => !b == a) → x ∈ (N'.filter fun b => !b == a) := by
        intro x hx
        obtain ⟨hxH, hxa⟩ := List.mem_filter.mp hx
        have hxN := hsub x hxH
        have hne : x ≠ a := by simpa using hxa
        rcases List.mem_cons.mp hxN with e | e
        · exact absurd e hne
        · exact List.mem_filter.mpr ⟨e, hxa⟩
      have := ih _ hlen _ _ rfl hH' hsub'
      have h2 := length_filter_ne a H hnd
      simp only [List.length_cons]
      omega

/-- number of hardlink entries among the first `j + 1` -/
def cntH (ms : List MEnt) (j : Nat) : Nat := ((ms.take (j + 1)).filter isHl).length

theorem cntH_le_total (ms : List MEnt) (j : Nat) : cntH ms j ≤ (ms.filter isHl).length := by
  unfold cntH
  exact ((List.take_sublist _ _).filter _).length_le

theorem cntH_lt {ms : List MEnt} {t j : Nat} {m : MEnt} (htj : t < j) (hm : ms[j]? = some m)
    (hh : m.e.type = "hardlink") : cntH ms t + 1 ≤ cntH ms j := by
  unfold cntH
  have hjl : j < ms.length := by
    rcases Nat.lt_or_ge j ms.length with h | h
    · exact h
    · rw [List.getElem?_eq_none h] at hm; cases hm
  have h1 : ms.take (j + 1) = ms.take j ++ [m] := by
    rw [List.take_add_one, hm]; rfl
  rw [h1, List.filter_append, List.length_append]
  have hx : isHl m = true := by simp [isHl, hh]
  simp only [List.filter, hx, List.length_cons, List.length_nil]
  have : ms.take (t + 1) = (ms.take j).take (t + 1) := by
    rw [List.take_take]; congr 1; omega
  rw [this]
  have := ((List.take_sublist (t + 1) (ms.take j)).filter isHl).length_le
  omega

theorem cntH_pos {ms : List MEnt} {j : Nat} {m : MEnt} (hm : ms[j]? = some m)
    (hh : m.e.type = "hardlink") : 1 ≤ cntH ms j := by
  by_cases hj0 : j = 0
  · subst hj0
    unfold cntH
    have : ms.take 1 = [m] := by
      cases ms with
      | nil => simp at hm
      | cons x xs => simp at hm; subst hm; rfl
    rw [this]
    have hx : isHl m = true := by simp [isHl, hh]
    simp [List.filter, hx]
  · have := cntH_lt (ms := ms) (t := 0) (j := j) (by omega) hm hh
    omega

/-- there are at least as many distinct names as hardlink entries -/
theorem hl_le_distinct {ms : List MEnt} (ok : TreeOK ms) : (ms.filter isHl).length ≤ distinctNames ms := by
  have hnd : ((ms.filter isHl).map (·.path)).Nodup := by
    apply nodup_filter_map
    intro i j mi mj hi hj pi pj hp
    have hi' : mi.e.type = "hardlink" := by simpa [isHl] using pi
    have hj' : mj.e.type = "hardlink" := by simpa [isHl] using pj
    exact nondir_unique ok hi hj (by rw [hi']; decide) (by rw [hj']; decide) hp (Or.inl (by rw [hi']; decide))
  have hsub : ∀ x, x ∈ (ms.filter isHl).map (·.path) → x ∈ namesOf ms := by
    intro x hx
    rw [List.mem_map] at hx
    obtain ⟨y, hy, hyp⟩ := hx
    obtain ⟨hym, hyh⟩ := List.mem_filter.mp hy
    unfold namesOf
    rw [List.mem_map]
    have : y.e.type = "hardlink" := by simpa [isHl] using hyh
    exact ⟨y, List.mem_filter.mpr ⟨hym, by simp [ncB, this]⟩, hyp⟩
  have := length_le_eraseDups _ (namesOf ms) _ rfl hnd hsub
  simp only [List.length_map] at this
  unfold distinctNames
  exact this

theorem keyType_ent {ms : List MEnt} {j : Nat} {m : MEnt} (hm : ms[j]? = some m) :
    keyType ms (.ent j) = m.e.type := by simp [keyType, hm]

/-- `getSource` reaches the resolved entry before the loop bound trips -/
theorem mGetSource_ok {ms : List MEnt} (ok : TreeOK ms) (s : MState) (bound : Nat) :
    ∀ (j : Nat) (m : MEnt), ms[j]? = some m → m.e.type ≠ "chunk" →
      ∀ n, (m.e.type = "hardlink" → n + cntH ms j ≤ bound + 1) →
        mGetSource ms s bound n (.ent j) = some (resolveKey ms j) := by
  intro j
  induction j using Nat.strongRecOn with
  | _ j ih =>
    intro m hm hc n hn
    rw [resolveKey_unfold ok hm]
    unfold mGetSource
    rw [keyType_ent hm]
    by_cases hh : m.e.type = "hardlink"
    · obtain ⟨t, ht, hl, mt, hmt, hct, _⟩ := hardlink_target ok hm hh
      have hcj := cntH_pos hm hh
      have hn' := hn hh
      have hnb : ¬ n > bound := by omega
      simp only [hh, ne_eq, not_true_eq_false, ↓reduceIte, hnb, hm]
      have hml : mLookup ms s (cleanName m.e.linkName) = some (.ent t) := by
        unfold mLookup; rw [hl]
      rw [hml]
      have hle : n ≤ bound := by omega
      simp only [hle, ↓reduceDIte, hl]
      exact ih t ht mt hmt hct (n + 1) (fun hht => by have := cntH_lt ht hm hh; omega)
    · simp [hh]

/-! # Part 2: the steps of both interpreters and the joint run -/

theorem isDirKey_keyType {ms : List MEnt} {k : Key} (h : ¬ IsDirKey ms k) : keyType ms k ≠ "dir" := by
  cases k with
  | root => exact absurd trivial h
  | imp p => exact absurd trivial h
  | ent j =>
    intro e
    apply h
    cases hm : ms[j]? with
    | none => simp [keyType, hm] at e
    | some m =>
      refine ⟨m, hm, ?_⟩
      simpa [keyType, hm] using e

/-- hardlink entry `i`: the target's link count has been raised, the parent exists; linking the
name to the target completes the step. -/
theorem inv_link_hardlink {ms : List MEnt} (ok : TreeOK ms) {i : Nat} {sm : MState} {sd : DState}
    (q : Path) (b : String) (pkm pkd org : Key) (m : MEnt)
    (inv : Inv ms i sm sd [] (fun k => if k = org then 1 else 0))
    (hm : ms[i]? = some m) (hh : m.e.type = "hardlink")
    (hpath : m.path = q ++ [b])
    (hq : look ms i sm.imps q = some pkd) (hcan : canon ms pkm = pkd) (hlive : MLiveDir ms pkm)
    (hdir : IsDirKey ms pkd) (hroot : pkm = .root → [] ∈ sm.imps)
    (horg : resolveKey ms i = org) (hoc : Created ms i sm.imps org) (hod : ¬ IsDirKey ms org)
    (hcano : canon ms org = org) (hlasto : lastOf ms org = org) :
    Inv ms (i + 1)
      (mAddChild ms { sm with nl := fun k =>
          if k = org then (if k = .ent i then sm.nl k + 1 else sm.nl k) + 1
          else (if k = .ent i then sm.nl k + 1 else sm.nl k) } pkm b org)
      (dSetChild sd pkd b org false) [] (fun _ => 0) := by
  have hc : m.e.type ≠ "chunk" := by rw [hh]; decide
  have hndir : m.e.type ≠ "dir" := by rw [hh]; decide
  have hfirst := (nondir_first_last ok hm hc hndir).1
  have hfirst' : firstIdx ms (q ++ [b]) = some i := by rw [← hpath]; exact hfirst
  have hpkc := look_created ok hq
  have hne : org ≠ pkd := fun e => hod (e ▸ hdir)
  have hnem : org ≠ pkm := by
    intro e; rw [← e, hcano] at hcan; exact hne hcan
  have hoi : org ≠ .ent i := by
    intro e; rw [e] at hoc; exact absurd hoc.1 (by omega)
  have hkt : keyType ms org ≠ "dir" := isDirKey_keyType hod
  have hsdkids : (dSetChild sd pkd b org false).kids =
      fun k => if k = pkd then setKid b org (sd.kids k) else sd.kids k := by
    simp [dSetChild]
  have hsdnodes : (dSetChild sd pkd b org false).nodes = sd.nodes := by simp [dSetChild]
  have hlookd : look ms i sm.imps (q ++ [b]) = none := by
    have hne' : q ++ [b] ≠ [] := by simp
    unfold look; rw [if_neg hne', hfirst']; simp
  have hkidso : sd.kids org = [] := inv.noKids org (fun ⟨_, h2⟩ => hod h2)
  have hcr : ∀ k, Created ms (i + 1) sm.imps k ↔ Created ms i sm.imps k := by
    intro k
    cases k with
    | root => simp [Created]
    | imp p => simp [Created]
    | ent j =>
      simp only [Created]
      constructor
      · rintro ⟨h1, m', h2, h3, h4, h5⟩
        refine ⟨?_, m', h2, h3, h4, h5⟩
        by_cases hji : j = i
        · subst hji; rw [hm] at h2; cases h2; exact absurd hh h4
        · omega
      · rintro ⟨h1, h2⟩; exact ⟨by omega, h2⟩
  have hsmkids : ∀ k, (mAddChild ms { sm with nl := fun k =>
          if k = org then (if k = .ent i then sm.nl k + 1 else sm.nl k) + 1
          else (if k = .ent i then sm.nl k + 1 else sm.nl k) } pkm b org).kids k =
      if k = pkm then setKid b org (sm.kids k) else sm.kids k := fun _ => rfl
  refine ⟨?_, ?_, ?_, inv.impsNone, ?_, ?_, ?_, ?_, ?_, ?_, ?_⟩
  · intro k hk
    rw [hsdkids, hsmkids]
    by_cases hkp : k = pkm
    · subst hkp
      simp only [hcan, ↓reduceIte]
      rw [map_setKid, ← inv.kids k hk, hcan, hcano]
    · have : canon ms k ≠ pkd := fun e => hkp (canon_inj hk hlive (e.trans hcan.symm))
      simp only [this, hkp, ↓reduceIte]
      exact inv.kids k hk
  · intro k hk
    rw [hsmkids]
    have : k ≠ pkm := fun e => hk (e ▸ hlive)
    simp only [this, ↓reduceIte]
    exact inv.memNoKids k hk
  · intro p
    rw [hsdkids]
    have hw : ∀ p, walkKids sd.kids .root p = look ms i sm.imps p := by
      intro p; have := inv.walk p; simpa using this
    have := walk_link sd.kids (look ms i sm.imps) q b pkd org hw hq hlookd
      (fun p hp => look_dir_unique ok hp hq hdir) hkidso hne p
    rw [this]
    simp only [List.not_mem_nil, ↓reduceIte]
    show _ = look ms (i + 1) sm.imps p
    by_cases hpd : p = q ++ [b]
    · subst hpd; rw [look_succ_at ok i _ _ hfirst', horg]; simp
    · have : firstIdx ms p ≠ some i := by
        intro h
        obtain ⟨m', hm', _, hp'⟩ := firstIdx_nonChunk h
        rw [hm] at hm'; cases hm'
        exact hpd (by rw [← hp', hpath])
      rw [look_succ_ne i _ _ this]; simp [hpd]
  · intro p hp; cases hp
  · intro k hk
    rw [hsdnodes]
    have hko := (hcr k).mp hk
    obtain ⟨b', h1, h2, h3⟩ := inv.node k hko
    have hcl := (canon_lastOf ok hko).1
    have hki : lastOf ms k ≠ .ent i := by
      intro e
      rw [e, canon_of_nondir hm hndir] at hcl
      rw [← hcl] at hko; exact absurd hko.1 (by omega)
    refine ⟨b', h1, h2, ?_⟩
    show readNumLink b' = nlEff _ (lastOf ms k) + 0 + pendOwn ms (i + 1) k
    rw [h3, pendOwn_step i k hki]
    unfold nlEff
    simp only [mAddChild, hkt, ↓reduceIte, hki]
    by_cases hko' : k = org
    · subst hko'
      rw [hlasto]
      have : k ≠ .root := by
        intro e; subst e
        obtain ⟨r, hr⟩ := resolveF_is_ent ms i i
        unfold resolveKey at horg; rw [hr] at horg; cases horg
      simp [this]
    · have : lastOf ms k ≠ org := by
        intro e; rw [e, hcano] at hcl; exact hko' hcl.symm
      simp [hko', this]
  · intro k hk
    rw [hsdkids]
    have hkp : k ≠ pkd := by
      intro e; subst e
      exact hk ⟨(hcr k).mpr hpkc, hdir⟩
    simp only [hkp, ↓reduceIte]
    apply inv.noKids
    intro ⟨h1, h2⟩
    exact hk ⟨(hcr k).mpr h1, h2⟩
  · intro p hp; cases hp
  · intro j mj hmj hcj hf
    have hji : Key.ent j ≠ .ent i := by
      intro e; cases e
      rw [hm] at hmj; cases hmj
      have := hf i hfirst; omega
    have hjo : Key.ent j ≠ org := by
      intro e; rw [← e] at hoc
      obtain ⟨h1, m', hm', _, _, hf'⟩ := hoc
      rw [hmj] at hm'; cases hm'
      have := hf j hf'; omega
    simp only [mAddChild, hkt, ↓reduceIte, hjo, hji]
    exact inv.freshNl j mj hmj hcj (fun f' hff => by have := hf f' hff; omega)
  · intro h
    by_cases hpk : pkm = .root
    · exact hroot hpk
    · apply inv.rootImp
      simpa [mAddChild, Ne.symm hpk] using h
  · intro k kv hkv
    rw [hsdkids] at hkv
    show Created ms (i + 1) sm.imps kv.2
    by_cases hkp : k = pkd
    · simp only [hkp, ↓reduceIte] at hkv
      rcases mem_setKid hkv with e | e
      · rw [e]; exact (hcr _).mpr hoc
      · exact (hcr _).mpr (inv.kidsCreated pkd kv e)
    · simp only [hkp, ↓reduceIte] at hkv
      exact (hcr _).mpr (inv.kidsCreated k kv hkv)

structure CState where
  lastEnt : Option Key := none
  lastEntSize : Int := 0
  chunks : Key → List Chunk := fun _ => []

def cproj (sd : DState) : CState := ⟨sd.lastEnt, sd.lastEntSize, sd.chunks⟩

def dbChunkSize (lastEntSize : Int) (e : Entry) : Int :=
  let cs := if e.type = "chunk" ∧ e.chunkSize = 0 then lastEntSize - e.chunkOffset else e.chunkSize
  if cs = 0 ∧ e.size ≠ 0 then e.size else cs

def dbRow (lastEntSize : Int) (e : Entry) : Chunk :=
  { chunkOffset := e.chunkOffset, chunkSize := dbChunkSize lastEntSize e, digest := e.chunkDigest,
    offset := e.offset }

def cAppend (c : CState) (k : Key) (row : Chunk) : CState :=
  { c with chunks := fun k' => if k' = k then c.chunks k ++ [row] else c.chunks k' }

/-- what one entry does to the chunk bookkeeping of `initNodes`, given the id it was filed under -/
def cStep (ms : List MEnt) (c : CState) (i : Nat) (e : Entry) : CState :=
  if e.type = "chunk" then
    if dbChunkSize c.lastEntSize e > 0 then
      match c.lastEnt with
      | some k => cAppend c k (dbRow c.lastEntSize e)
      | none => c
    else c
  else
    let id := if e.type = "hardlink" then resolveKey ms i else canon ms (.ent i)
    let c' : CState := { c with lastEnt := some id, lastEntSize := e.size }
    if e.type = "reg" ∧ e.size > 0 then cAppend c' id (dbRow c.lastEntSize e) else c'

theorem admissible_parent {ms : List MEnt} (ok : TreeOK ms) {i : Nat} {d : Path}
    (h : NonChunkAt ms i d) : Admissible ms i (parentDir d) := by
  intro n h0 hn
  unfold parentDir at hn
  have hlen : n < d.length := by
    rw [List.length_dropLast] at hn
    have : d.length ≠ 0 := by
      intro e; rw [e] at hn; omega
    omega
  have htake : (parentDir d).take n = d.take n := by
    unfold parentDir
    rw [List.dropLast_eq_take, List.take_take]
    congr 1; omega
  rw [htake]
  exact ok.parents i d h n h0 hlen

end SV.Toc.R

namespace SV.Toc.R

theorem dSetChild_cproj (s : DState) (pid : Key) (b : String) (id : Key) (isDir : Bool) :
    (dSetChild s pid b id isDir).lastEnt = s.lastEnt ∧
    (dSetChild s pid b id isDir).lastEntSize = s.lastEntSize ∧
    (dSetChild s pid b id isDir).chunks = s.chunks := by
  unfold dSetChild
  cases isDir
  · simp
  · simp only [↓reduceIte]
    split <;> simp [setNode]

/-- `getOrCreateDir` does not touch the list of hardlink sources -/
theorem mGoc_hl (ms : List MEnt) : ∀ (rev : List String) (s : MState),
    (mGetOrCreateDir ms s rev).1.hlSources = s.hlSources := by
  intro rev
  induction rev with
  | nil =>
    intro s
    simp only [mGetOrCreateDir]
    split <;> rfl
  | cons b rest ih =>
    intro s
    simp only [mGetOrCreateDir]
    split
    · rfl
    · simp only [mAddChild]
      rw [ih]

theorem Inv.set_hl {ms : List MEnt} {i : Nat} {sm : MState} {sd : DState} {P : List Path}
    {δ : Key → Int} (inv : Inv ms i sm sd P δ) (l : List Key) :
    Inv ms i { sm with hlSources := l } sd P δ :=
  ⟨inv.kids, inv.memNoKids, inv.walk, inv.impsNone, inv.pend, inv.node, inv.noKids, inv.pendKids, inv.freshNl,
    inv.rootImp, inv.kidsCreated⟩

/-- keys a hardlink may be resolved to: existing nodes that are not directories -/
def HlOK (ms : List MEnt) (i : Nat) (sm : MState) : Prop :=
  ∀ org, org ∈ sm.hlSources → Created ms i sm.imps org ∧ ¬ IsDirKey ms org

theorem created_succ {ms : List MEnt} {i : Nat} {imps : List Path} {k : Key}
    (h : Created ms i imps k) : Created ms (i + 1) imps k := by
  cases k with
  | root => trivial
  | imp p => exact h
  | ent j => exact ⟨by have := h.1; omega, h.2⟩




theorem attrOfEntry_nl (e : Entry) (n : Int) : attrOfEntry e n = { attrOfEntry e 0 with numLink := n } := rfl

/-- entry `i` is the first (maybe only) one of its name and not a hardlink -/
theorem step_plain {ms : List MEnt} (ok : TreeOK ms) {i : Nat} {sm : MState} {sd : DState} (m : MEnt)
    (inv : Inv ms i sm sd [] (fun _ => 0))
    (hm : ms[i]? = some m) (hc : m.e.type ≠ "chunk") (hh : m.e.type ≠ "hardlink")
    (hfirst : firstIdx ms m.path = some i)
    (hname : cleanName m.e.name = m.path) :
    ∃ sm' sd', pass2Step ms sm i m = some sm' ∧ dStep sd i m.e = some sd' ∧
      Inv ms (i + 1) sm' sd' [] (fun _ => 0) ∧ cproj sd' = cStep ms (cproj sd) i m.e ∧
      sm'.hlSources = sm.hlSources ∧ (∀ p, p ∈ sm.imps → p ∈ sm'.imps) := by
  have hnc : NonChunkAt ms i m.path := ⟨m, hm, hc, rfl⟩
  have hdne : m.path ≠ [] := fun e => ok.noRoot i (e ▸ hnc)
  have hsplit := path_split m.path hdne
  -- the bucket of the entry is written first
  have inv1 := inv_setNode_fresh inv i (Nat.le_refl _)
    (writeAttr {} (attrOfEntry m.e (if m.e.type = "dir" then 2 else 1)))
  have hadm : Admissible ms i (parentDir m.path).reverse.reverse := by
    rw [List.reverse_reverse]; exact admissible_parent ok hnc
  obtain ⟨sm2, sd2, pkm, pkd, hg1, hg2, hcan2, hlive2, inv2, hlook2, hdir2, hroot2, hmono2, hnodes2, hle2, hls2, hch2⟩ :=
    goc ok i (parentDir m.path).reverse sm _ [] (fun _ => 0) inv1 (fun _ => rfl) hadm
      (fun _ _ h => by cases h)
  have hhl2 : sm2.hlSources = sm.hlSources := by
    have := mGoc_hl ms (parentDir m.path).reverse sm; rw [hg1] at this; exact this
  rw [List.reverse_reverse] at hlook2
  have hnode2 : sd2.nodes (.ent i) = some (writeAttr {} (attr0 ms (.ent i))) := by
    rw [hnodes2 i (Nat.le_refl _)]
    simp [setNode, attr0, hm]
  have inv3 := inv_link_entry ok (parentDir m.path) (baseName m.path) pkm pkd m inv2 hm hc hh hfirst hsplit
    hlook2 hcan2 hlive2 hdir2 hroot2 hnode2
  have hlookd : dGetIDByName sd m.path = none := by
    unfold dGetIDByName
    have := inv.walk m.path
    simp only [List.not_mem_nil, ↓reduceIte] at this
    rw [this]
    unfold look; rw [if_neg hdne, hfirst]; simp
  have hcani : canon ms (.ent i) = .ent i := by
    by_cases hd : m.e.type = "dir"
    · exact canon_of_dir hm hd hfirst
    · exact canon_of_nondir hm hd
  -- the db step, in closed form
  have hfound : (if m.e.type = "dir" then (some none : Option (Option (Key × DbAttr))) else some none) = some none := by
    split <;> rfl
  have hdstep : dStep sd i m.e = some
      (if m.e.type = "reg" ∧ m.e.size > 0 then
        addChunk { dSetChild sd2 pkd (baseName m.path) (.ent i) (m.e.type = "dir") with
                   lastEnt := some (.ent i), lastEntSize := m.e.size } (.ent i)
          (dbRow sd.lastEntSize m.e)
       else { dSetChild sd2 pkd (baseName m.path) (.ent i) (m.e.type = "dir") with
              lastEnt := some (.ent i), lastEntSize := m.e.size }) := by
    unfold dStep
    simp only [hname, hc, false_and, ↓reduceIte, hh, hdne, hlookd, hfound, hg2, or_false]
    by_cases hreg : m.e.type = "reg" ∧ m.e.size > 0
    · rw [if_pos hreg, if_pos hreg]
      simp only [dbRow, dbChunkSize, hc, false_and, ↓reduceIte]
    · rw [if_neg hreg, if_neg hreg]
  have hX := dSetChild_cproj sd2 pkd (baseName m.path) (.ent i) (m.e.type = "dir")
  have hpass : pass2Step ms sm i m = some (mAddChild ms
      { sm2 with nl := fun k => if k = .ent i then sm2.nl k + 1 else sm2.nl k } pkm (baseName m.path) (.ent i)) := by
    unfold pass2Step
    rw [if_neg hc, if_neg hdne]
    simp only [hg1, hh, ↓reduceIte]
  refine ⟨_, _, hpass, hdstep, ?_, ?_, hhl2, hmono2⟩
  · apply inv3.congr_db
    · split <;> rfl
    · split <;> rfl
  · unfold cproj cStep
    simp only [hc, ↓reduceIte, hh, hcani]
    by_cases hreg : m.e.type = "reg" ∧ m.e.size > 0
    · rw [if_pos hreg, if_pos hreg]
      simp only [addChunk, cAppend, hX.2.2, hch2, setNode]
    · rw [if_neg hreg, if_neg hreg]
      simp only [hX.2.2, hch2, setNode]

/-- entry `i` announces again a directory first announced by entry `f < i` -/
theorem step_dup {ms : List MEnt} (ok : TreeOK ms) {i f : Nat} {sm : MState} {sd : DState} (m : MEnt)
    (inv : Inv ms i sm sd [] (fun _ => 0))
    (hm : ms[i]? = some m) (hd : m.e.type = "dir")
    (hfirst : firstIdx ms m.path = some f) (hfi : f < i)
    (hname : cleanName m.e.name = m.path) :
    ∃ sm' sd', pass2Step ms sm i m = some sm' ∧ dStep sd i m.e = some sd' ∧
      Inv ms (i + 1) sm' sd' [] (fun _ => 0) ∧ cproj sd' = cStep ms (cproj sd) i m.e ∧
      sm'.hlSources = sm.hlSources ∧ (∀ p, p ∈ sm.imps → p ∈ sm'.imps) := by
  have hc := dir_nonchunk hd
  have hh := dir_nonhardlink hd
  have hnr : m.e.type ≠ "reg" := by rw [hd]; decide
  have hnc : NonChunkAt ms i m.path := ⟨m, hm, hc, rfl⟩
  have hdne : m.path ≠ [] := fun e => ok.noRoot i (e ▸ hnc)
  have hsplit := path_split m.path hdne
  obtain ⟨mf, hmf, hcf, hpf⟩ := firstIdx_nonChunk hfirst
  obtain ⟨hdf, hsame⟩ := same_name_dir ok hm hmf hc hcf hpf.symm hd
  -- the node exists; writing the same attributes again changes nothing
  have hlookd : look ms i sm.imps m.path = some (.ent f) := by
    unfold look; rw [if_neg hdne, hfirst]
    simp [hfi, resolveKey_nonhardlink ok hmf (dir_nonhardlink hdf)]
  have hwalkd : dGetIDByName sd m.path = some (.ent f) := by
    unfold dGetIDByName
    have := inv.walk m.path
    simp only [List.not_mem_nil, ↓reduceIte] at this
    rw [this, hlookd]
  obtain ⟨bf, hbf, hbfe, _⟩ := inv.node (.ent f) (look_created ok hlookd)
  have hidem : writeAttr bf (attrOfEntry m.e (readNumLink bf)) = bf := by
    have ha0 : attr0 ms (.ent f) = attrOfEntry mf.e 2 := by simp [attr0, hmf, hdf]
    have := writeAttr_idem bf (attr0 ms (.ent f)) hbfe
    rw [ha0] at this
    rw [attrOfEntry_nl m.e, hsame]
    exact this
  have hsd1 : setNode sd (.ent f) bf = { sd with nodes := fun k' => if k' = .ent f then some bf else sd.nodes k' } := rfl
  have inv1 : Inv ms i sm (setNode sd (.ent f) bf) [] (fun _ => 0) := by
    refine inv.congr_db (sd' := setNode sd (.ent f) bf) rfl ?_
    funext k
    simp only [setNode]
    by_cases hk : k = .ent f
    · subst hk; simp [hbf]
    · simp [hk]
  have hadm : Admissible ms i (parentDir m.path).reverse.reverse := by
    rw [List.reverse_reverse]; exact admissible_parent ok hnc
  obtain ⟨sm2, sd2, pkm, pkd, hg1, hg2, hcan2, hlive2, inv2, hlook2, hdir2, hroot2, hmono2, hnodes2, hle2, hls2, hch2⟩ :=
    goc ok i (parentDir m.path).reverse sm _ [] (fun _ => 0) inv1 (fun _ => rfl) hadm
      (fun _ _ h => by cases h)
  have hhl2 : sm2.hlSources = sm.hlSources := by
    have := mGoc_hl ms (parentDir m.path).reverse sm; rw [hg1] at this; exact this
  rw [List.reverse_reverse] at hlook2
  have inv3 := inv_relink_dup ok (parentDir m.path) (baseName m.path) pkm pkd m inv2 hm hd hfirst hfi hsplit
    hlook2 hcan2 hlive2 hdir2 hroot2
  have hcani : canon ms (.ent i) = .ent f := canon_of_dir hm hd hfirst
  have hdstep : dStep sd i m.e = some
      { dSetChild sd2 pkd (baseName m.path) (.ent f) true with
        lastEnt := some (.ent f), lastEntSize := m.e.size } := by
    unfold dStep
    simp only [hname, hc, false_and, ↓reduceIte, hh, hdne, hwalkd, hbf, hidem, hg2, or_false, hnr]
    simp only [hd, ↓reduceIte, hwalkd, hbf, hidem, hg2, decide_true]
  have hX := dSetChild_cproj sd2 pkd (baseName m.path) (.ent f) true
  have hpass : pass2Step ms sm i m = some (mAddChild ms
      { sm2 with nl := fun k => if k = .ent i then sm2.nl k + 1 else sm2.nl k } pkm (baseName m.path) (.ent i)) := by
    unfold pass2Step
    rw [if_neg hc, if_neg hdne]
    simp only [hg1, hh, ↓reduceIte]
  refine ⟨_, _, hpass, hdstep, ?_, ?_, hhl2, hmono2⟩
  · exact inv3.congr_db rfl rfl
  · unfold cproj cStep
    simp only [hc, ↓reduceIte, hh, hcani, hnr, false_and, hX.2.2, hch2, setNode]



theorem inv_bump_org {ms : List MEnt} {i : Nat} {sm : MState} {sd : DState}
    (inv : Inv ms i sm sd [] (fun _ => 0)) (org : Key) (bo : DbAttr) (hbo : sd.nodes org = some bo) :
    Inv ms i sm (setNode sd org (bumpNumLink bo)) [] (fun k => if k = org then 1 else 0) := by
  refine ⟨inv.kids, inv.memNoKids, inv.walk, inv.impsNone, inv.pend, ?_, inv.noKids, inv.pendKids, inv.freshNl,
    inv.rootImp, inv.kidsCreated⟩
  intro k hk
  obtain ⟨b', h1, h2, h3⟩ := inv.node k hk
  by_cases hko : k = org
  · subst hko
    rw [hbo] at h1; cases h1
    refine ⟨bumpNumLink bo, by simp [setNode], by rw [eraseNL_bump]; exact h2, ?_⟩
    rw [readNumLink_bump, h3]; simp; omega
  · exact ⟨b', by simp [setNode, hko, h1], h2, by rw [h3]; simp [hko]⟩

theorem created_mono_imps {ms : List MEnt} {i : Nat} {imps imps' : List Path} {k : Key}
    (h : ∀ p, p ∈ imps → p ∈ imps') (hk : Created ms i imps k) : Created ms i imps' k := by
  cases k with
  | root => trivial
  | ent j => exact hk
  | imp p => exact ⟨h p hk.1, hk.2⟩

theorem step_hardlink {ms : List MEnt} (ok : TreeOK ms) {i : Nat}
    {sm : MState} {sd : DState} (m : MEnt)
    (inv : Inv ms i sm sd [] (fun _ => 0))
    (hm : ms[i]? = some m) (hh : m.e.type = "hardlink")
    (hname : cleanName m.e.name = m.path) :
    ∃ sm' sd', pass2Step ms sm i m = some sm' ∧ dStep sd i m.e = some sd' ∧
      Inv ms (i + 1) sm' sd' [] (fun _ => 0) ∧ cproj sd' = cStep ms (cproj sd) i m.e ∧
      (∃ org, sm'.hlSources = org :: sm.hlSources ∧ Created ms (i + 1) sm'.imps org ∧ ¬ IsDirKey ms org) ∧
      (∀ p, p ∈ sm.imps → p ∈ sm'.imps) := by
  have hc : m.e.type ≠ "chunk" := by rw [hh]; decide
  have hnd : m.e.type ≠ "dir" := by rw [hh]; decide
  have hnr : m.e.type ≠ "reg" := by rw [hh]; decide
  have hnc : NonChunkAt ms i m.path := ⟨m, hm, hc, rfl⟩
  have hdne : m.path ≠ [] := fun e => ok.noRoot i (e ▸ hnc)
  have hsplit := path_split m.path hdne
  -- the target
  obtain ⟨t, ht, hl, mt, hmt, hct, hdt⟩ := hardlink_target ok hm hh
  obtain ⟨r, mr, hr1, hr2, hr3, hr4, hr5, hr6, _⟩ := resolveKey_spec ok i m hm hc
  have hres : resolveKey ms i = resolveKey ms t := by
    rw [resolveKey_unfold ok hm, if_pos hh]; simp only [hl]
  have hrt : r ≤ t := by
    obtain ⟨r', _, h1, h2, _⟩ := resolveKey_spec ok t mt hmt hct
    rw [hres, h2] at hr2; cases hr2; exact h1
  have hrnd : mr.e.type ≠ "dir" := hr6 hh
  have hoc : ∀ imps, Created ms i imps (.ent r) :=
    fun _ => ⟨by omega, mr, hr3, hr4, hr5, (nondir_first_last ok hr3 hr4 hrnd).1⟩
  have hod : ¬ IsDirKey ms (.ent r) := by
    rintro ⟨m', h1, h2⟩; rw [hr3] at h1; cases h1; exact hr6 hh h2
  obtain ⟨bo, hbo, hboe, _⟩ := inv.node (.ent r) (hoc _)
  -- the stored mode of the target is not a directory's
  have hbomode : fmIsDir ((bo.mode.getD 0) % 4294967296) = false := by
    have h8 : bo.mode = (writeAttr {} (attr0 ms (.ent r))).mode := by
      have := congrArg DbAttr.mode hboe; exact this
    have ha0 : attr0 ms (.ent r) = attrOfEntry mr.e (if mr.e.type = "dir" then 2 else 1) := by
      simp [attr0, hr3]
    have hmode : (writeAttr {} (attr0 ms (.ent r))).mode.getD 0 = goFileMode mr.e.type mr.e.mode := by
      rw [ha0]
      unfold writeAttr
      simp only [attrOfEntry]
      cases mr.e.xattrs with
      | nil => by_cases h0 : goFileMode mr.e.type mr.e.mode = 0 <;> simp [h0]
      | cons f rest => cases rest <;> (by_cases h0 : goFileMode mr.e.type mr.e.mode = 0 <;> simp [h0])
    rw [h8, hmode, Nat.mod_eq_of_lt (goFileMode_lt _ _)]
    exact fmIsDir_go_false _ _ (hr6 hh)
  have hft : firstIdx ms (cleanName m.e.linkName) = some t := by
    have := (nondir_first_last ok hmt hct hdt).1
    have hp : mt.path = cleanName m.e.linkName := by
      obtain ⟨mt', h1, _, h3⟩ := lastIdx_nonChunk hl
      rw [hmt] at h1; cases h1; exact h3
    rw [hp] at this; exact this
  have hwalkt : dGetIDByName sd (cleanName m.e.linkName) = some (.ent r) := by
    unfold dGetIDByName
    have := inv.walk (cleanName m.e.linkName)
    simp only [List.not_mem_nil, ↓reduceIte] at this
    rw [this]
    have hne : cleanName m.e.linkName ≠ [] := by
      intro e
      have := lastIdx_nonChunk hl
      rw [e] at this; exact ok.noRoot t this
    unfold look; rw [if_neg hne, hft]; simp [ht, ← hres, hr2]
  have inv1 := inv_bump_org inv (.ent r) bo hbo
  have hadm : Admissible ms i (parentDir m.path).reverse.reverse := by
    rw [List.reverse_reverse]; exact admissible_parent ok hnc
  obtain ⟨sm2, sd2, pkm, pkd, hg1, hg2, hcan2, hlive2, inv2, hlook2, hdir2, hroot2, hmono2, _, hle2, hls2, hch2⟩ :=
    goc ok i (parentDir m.path).reverse sm _ [] _ inv1 (fun p => by simp) hadm
      (fun _ _ h => by cases h)
  rw [List.reverse_reverse] at hlook2
  have inv3 := inv_link_hardlink ok (parentDir m.path) (baseName m.path) pkm pkd (.ent r) m inv2 hm hh hsplit
    hlook2 hcan2 hlive2 hdir2 hroot2 hr2 (hoc _) hod (canon_of_nondir hr3 hrnd) (lastOf_of_nondir hr3 hrnd)
  -- getSource
  have hgs : ∀ s : MState, s.imps = sm2.imps →
      mGetSource ms s (lenM ms s) 0 (.ent i) = some (.ent r) := by
    intro s _
    rw [← hr2]
    apply mGetSource_ok ok s (lenM ms s) i m hm hc 0
    intro _
    have h1 := cntH_le_total ms i
    have h2 := hl_le_distinct ok
    unfold lenM; omega
  have hkt : keyType ms (.ent r) ≠ "dir" := isDirKey_keyType hod
  have hhl2 : sm2.hlSources = sm.hlSources := by
    have := mGoc_hl ms (parentDir m.path).reverse sm; rw [hg1] at this; exact this
  have hpass : pass2Step ms sm i m = some (mAddChild ms
      { sm2 with nl := (fun k => if k = Key.ent r then (if k = Key.ent i then sm2.nl k + 1 else sm2.nl k) + 1 else (if k = Key.ent i then sm2.nl k + 1 else sm2.nl k)),
                 hlSources := Key.ent r :: sm2.hlSources }
      pkm (baseName m.path) (Key.ent r)) := by
    unfold pass2Step
    rw [if_neg hc, if_neg hdne]
    simp only [hg1, hh, ↓reduceIte]
    rw [hgs { sm2 with nl := fun k => if k = Key.ent i then sm2.nl k + 1 else sm2.nl k } rfl]
    simp only [hkt, ↓reduceIte]
  have hX := dSetChild_cproj sd2 pkd (baseName m.path) (.ent r) false
  have hdstep : dStep sd i m.e = some
      { dSetChild sd2 pkd (baseName m.path) (.ent r) false with
        lastEnt := some (.ent r), lastEntSize := m.e.size } := by
    unfold dStep
    simp [hname, hh, hdne, hwalkt, hbo, hg2, hbomode]
  refine ⟨_, _, hpass, hdstep, ?_, ?_, ⟨.ent r, by simp [mAddChild, hhl2], ?_, hod⟩, hmono2⟩
  · have e : mAddChild ms
        { sm2 with nl := (fun k => if k = Key.ent r then (if k = Key.ent i then sm2.nl k + 1 else sm2.nl k) + 1 else (if k = Key.ent i then sm2.nl k + 1 else sm2.nl k)),
                   hlSources := Key.ent r :: sm2.hlSources }
        pkm (baseName m.path) (Key.ent r) =
        { mAddChild ms
            { sm2 with nl := (fun k => if k = Key.ent r then (if k = Key.ent i then sm2.nl k + 1 else sm2.nl k) + 1 else (if k = Key.ent i then sm2.nl k + 1 else sm2.nl k)) }
            pkm (baseName m.path) (Key.ent r) with hlSources := Key.ent r :: sm2.hlSources } := rfl
    rw [e]
    exact Inv.set_hl (inv3.congr_db (sd' := { dSetChild sd2 pkd (baseName m.path) (.ent r) false with
      lastEnt := some (.ent r), lastEntSize := m.e.size }) rfl rfl) _
  · unfold cproj cStep
    simp [hh, hr2, hX.2.2, hch2, setNode]
  · exact created_succ (hoc _)

theorem step_chunk {ms : List MEnt} (ok : TreeOK ms) {i : Nat} {sm : MState} {sd : DState} (m : MEnt)
    (inv : Inv ms i sm sd [] (fun _ => 0))
    (hm : ms[i]? = some m) (hc : m.e.type = "chunk") (hlast : sd.lastEnt.isSome) :
    ∃ sd', pass2Step ms sm i m = some sm ∧ dStep sd i m.e = some sd' ∧
      Inv ms (i + 1) sm sd' [] (fun _ => 0) ∧ cproj sd' = cStep ms (cproj sd) i m.e := by
  have hno : ∀ p, ¬ NonChunkAt ms i p := by
    rintro p ⟨m', hm', h2, _⟩; rw [hm] at hm'; cases hm'; exact h2 hc
  have hnf : ∀ p, firstIdx ms p ≠ some i := fun p h => hno p (firstIdx_nonChunk h)
  have hcr : ∀ k, Created ms (i + 1) sm.imps k ↔ Created ms i sm.imps k := by
    intro k
    cases k with
    | root => simp [Created]
    | imp p => simp [Created]
    | ent j =>
      simp only [Created]
      constructor
      · rintro ⟨h1, m', h2, h3, h4⟩
        refine ⟨?_, m', h2, h3, h4⟩
        by_cases hji : j = i
        · subst hji; rw [hm] at h2; cases h2; exact absurd hc h3
        · omega
      · rintro ⟨h1, h2⟩; exact ⟨by omega, h2⟩
  have hpo : ∀ k, Created ms i sm.imps k → pendOwn ms (i + 1) k = pendOwn ms i k := by
    intro k hk
    apply pendOwn_step
    intro e
    cases k with
    | root => simp [lastOf] at e
    | imp p => simp [lastOf] at e
    | ent f =>
      obtain ⟨hfi, mf, hmf, hcf, _, _⟩ := hk
      by_cases hd : mf.e.type = "dir"
      · obtain ⟨L, hL, _⟩ := lastIdx_isSome (⟨mf, hmf, hcf, rfl⟩ : NonChunkAt ms f mf.path)
        rw [lastOf_of_dir hmf hd hL] at e
        cases e
        exact hno _ (lastIdx_nonChunk hL)
      · rw [lastOf_of_nondir hmf hd] at e
        cases e; omega
  have inv' : Inv ms (i + 1) sm sd [] (fun _ => 0) := by
    refine ⟨inv.kids, inv.memNoKids, ?_, inv.impsNone, inv.pend, ?_, ?_, inv.pendKids, ?_, inv.rootImp,
      fun k kv hkv => (hcr _).mpr (inv.kidsCreated k kv hkv)⟩
    · intro p; rw [inv.walk p, look_succ_ne i _ _ (hnf p)]
    · intro k hk
      obtain ⟨b, h1, h2, h3⟩ := inv.node k ((hcr k).mp hk)
      exact ⟨b, h1, h2, by rw [h3, hpo k ((hcr k).mp hk)]⟩
    · intro k hk; exact inv.noKids k (fun ⟨h1, h2⟩ => hk ⟨(hcr k).mpr h1, h2⟩)
    · intro j mj hj hcj hf; exact inv.freshNl j mj hj hcj (fun f hff => by have := hf f hff; omega)
  obtain ⟨k, hk⟩ := Option.isSome_iff_exists.mp hlast
  have hdstep : dStep sd i m.e = some
      (if dbChunkSize sd.lastEntSize m.e > 0 then addChunk sd k (dbRow sd.lastEntSize m.e) else sd) := by
    unfold dStep
    have h1 : ¬ (m.e.type = "chunk" ∧ sd.lastEnt.isNone = true) := by
      rw [hk]; simp
    have hnr : m.e.type ≠ "reg" := by rw [hc]; decide
    simp [hc, hk, dbRow, dbChunkSize]
    exact (apply_ite some _ _ _).symm
  refine ⟨_, (by unfold pass2Step; rw [if_pos hc]), hdstep, ?_, ?_⟩
  · apply inv'.congr_db <;> (split <;> rfl)
  · unfold cproj cStep
    simp [hc, hk]
    split <;> simp [addChunk, cAppend, hk]

theorem enum_drop {α : Type} (l : List α) (i : Nat) (h : i < l.length) :
    enumFrom' i (l.drop i) = (i, l[i]) :: enumFrom' (i + 1) (l.drop (i + 1)) := by
  rw [List.drop_eq_getElem_cons h]; rfl

theorem enum_drop_nil {α : Type} (l : List α) (i : Nat) (h : l.length ≤ i) :
    enumFrom' i (l.drop i) = [] := by
  rw [List.drop_eq_nil_of_le h]; rfl

/-- the chunk bookkeeping over the first entries, indices starting at `k` -/
def cRunFrom (ms : List MEnt) (c : CState) (k : Nat) : List Entry → CState
  | [] => c
  | e :: rest => cRunFrom ms (cStep ms c k e) (k + 1) rest

def cRun (ms : List MEnt) (es : List Entry) (i : Nat) : CState := cRunFrom ms {} 0 (es.take i)

theorem cRunFrom_append (ms : List MEnt) (c : CState) (k : Nat) (l1 l2 : List Entry) :
    cRunFrom ms c k (l1 ++ l2) = cRunFrom ms (cRunFrom ms c k l1) (k + l1.length) l2 := by
  induction l1 generalizing c k with
  | nil => simp [cRunFrom]
  | cons e rest ih =>
    simp only [List.cons_append, cRunFrom, List.length_cons]
    rw [ih]; congr 1; omega

theorem cRun_succ (ms : List MEnt) (es : List Entry) (i : Nat) (h : i < es.length) :
    cRun ms es (i + 1) = cStep ms (cRun ms es i) i es[i] := by
  unfold cRun
  rw [List.take_add_one, List.getElem?_eq_getElem h]
  simp only [Option.toList_some]
  rw [cRunFrom_append]
  simp [cRunFrom, List.length_take, Nat.min_eq_left (Nat.le_of_lt h)]

theorem cStep_lastEnt (ms : List MEnt) (c : CState) (i : Nat) (e : Entry) :
    (c.lastEnt.isSome ∨ e.type ≠ "chunk") → (cStep ms c i e).lastEnt.isSome := by
  intro h
  unfold cStep
  by_cases hc : e.type = "chunk"
  · have hs : c.lastEnt.isSome := by rcases h with h | h; exact h; exact absurd hc h
    obtain ⟨k, hk⟩ := Option.isSome_iff_exists.mp hs
    simp only [hc, ↓reduceIte, hk]
    split <;> simp [cAppend, hk]
  · simp only [hc, ↓reduceIte]
    split <;> simp [cAppend]

/-- both interpreters run to the end of the TOC and stay related -/
theorem run_sim {es : List Entry} (ok : TreeOK (pass1 es))
    (hfirst : ∀ (i : Nat) (m : MEnt), (pass1 es)[i]? = some m → m.e.type = "chunk" →
      ∃ j mj, j < i ∧ (pass1 es)[j]? = some mj ∧ mj.e.type ≠ "chunk") :
    ∀ (d i : Nat) (sm : MState) (sd : DState), es.length - i = d → i ≤ es.length →
      Inv (pass1 es) i sm sd [] (fun _ => 0) → cproj sd = cRun (pass1 es) es i →
      ((∃ j mj, j < i ∧ (pass1 es)[j]? = some mj ∧ mj.e.type ≠ "chunk") → sd.lastEnt.isSome) →
      HlOK (pass1 es) i sm →
      ∃ smF sdF, pass2 (pass1 es) (enumFrom' i ((pass1 es).drop i)) sm = some smF ∧
        dRun (enumFrom' i (es.drop i)) sd = .inl sdF ∧
        Inv (pass1 es) es.length smF sdF [] (fun _ => 0) ∧ cproj sdF = cRun (pass1 es) es es.length ∧
        HlOK (pass1 es) es.length smF := by
  intro d
  induction d with
  | zero =>
    intro i sm sd hd hi inv hcp _ hhl
    have hie : i = es.length := by omega
    subst hie
    refine ⟨sm, sd, ?_, ?_, inv, hcp, hhl⟩
    · rw [enum_drop_nil _ _ (by rw [pass1_length]; exact Nat.le_refl _)]; rfl
    · rw [enum_drop_nil _ _ (Nat.le_refl _)]; rfl
  | succ d ih =>
    intro i sm sd hd hi inv hcp hlast hhl
    have hlt : i < es.length := by omega
    have hltm : i < (pass1 es).length := by rw [pass1_length]; exact hlt
    have hm : (pass1 es)[i]? = some (pass1 es)[i] := List.getElem?_eq_getElem hltm
    obtain ⟨he, hname⟩ := pass1_getElem es i _ hm
    have hee : es[i] = ((pass1 es)[i]).e := by
      rw [List.getElem?_eq_getElem hlt] at he; exact Option.some.inj he
    rw [enum_drop _ _ hltm, enum_drop _ _ hlt]
    simp only [pass2, dRun]
    -- one step
    have hmonoHl : ∀ sm' : MState, sm'.hlSources = sm.hlSources → (∀ p, p ∈ sm.imps → p ∈ sm'.imps) →
        HlOK (pass1 es) (i + 1) sm' := by
      intro sm' e1 e2 org horg
      rw [e1] at horg
      exact ⟨created_succ (created_mono_imps e2 (hhl org horg).1), (hhl org horg).2⟩
    have hstep : ∃ sm' sd', pass2Step (pass1 es) sm i (pass1 es)[i] = some sm' ∧
        dStep sd i es[i] = some sd' ∧ Inv (pass1 es) (i + 1) sm' sd' [] (fun _ => 0) ∧
        cproj sd' = cStep (pass1 es) (cproj sd) i es[i] ∧ HlOK (pass1 es) (i + 1) sm' := by
      rw [hee]
      by_cases hc : ((pass1 es)[i]).e.type = "chunk"
      · obtain ⟨sd', h1, h2, h3, h4⟩ := step_chunk ok _ inv hm hc (hlast (hfirst i _ hm hc))
        exact ⟨sm, sd', h1, h2, h3, h4, hmonoHl sm rfl (fun _ h => h)⟩
      · by_cases hh : ((pass1 es)[i]).e.type = "hardlink"
        · obtain ⟨sm', sd', h1, h2, h3, h4, ⟨org, h5, h6, h7⟩, h8⟩ :=
            step_hardlink ok _ inv hm hh (hname hc).symm
          refine ⟨sm', sd', h1, h2, h3, h4, ?_⟩
          intro o ho
          rw [h5] at ho
          rcases List.mem_cons.mp ho with e | e
          · rw [e]; exact ⟨h6, h7⟩
          · exact ⟨created_succ (created_mono_imps h8 (hhl o e).1), (hhl o e).2⟩
        · obtain ⟨f, hf, hfi⟩ := firstIdx_isSome (⟨_, hm, hc, rfl⟩ : NonChunkAt (pass1 es) i ((pass1 es)[i]).path)
          by_cases hfe : f = i
          · subst hfe
            obtain ⟨sm', sd', h1, h2, h3, h4, h5, h6⟩ := step_plain ok _ inv hm hc hh hf (hname hc).symm
            exact ⟨sm', sd', h1, h2, h3, h4, hmonoHl sm' h5 h6⟩
          · have hd : ((pass1 es)[i]).e.type = "dir" := by
              obtain ⟨mf, hmf, hcf, hpf⟩ := firstIdx_nonChunk hf
              rcases ok.names i f _ mf hm hmf hc hcf hpf.symm with e | ⟨h1, _⟩
              · exact absurd e.symm hfe
              · exact h1
            obtain ⟨sm', sd', h1, h2, h3, h4, h5, h6⟩ :=
              step_dup ok _ inv hm hd hf (by omega) (hname hc).symm
            exact ⟨sm', sd', h1, h2, h3, h4, hmonoHl sm' h5 h6⟩
    obtain ⟨sm', sd', h1, h2, h3, h4, hhl'⟩ := hstep
    rw [h1, h2]
    have hcp' : cproj sd' = cRun (pass1 es) es (i + 1) := by
      rw [cRun_succ _ _ _ hlt, ← hcp]; exact h4
    have hlast' : (∃ j mj, j < i + 1 ∧ (pass1 es)[j]? = some mj ∧ mj.e.type ≠ "chunk") → sd'.lastEnt.isSome := by
      intro ⟨j, mj, hj, hmj, hcj⟩
      have : (cproj sd').lastEnt.isSome := by
        rw [h4]
        apply cStep_lastEnt
        by_cases hji : j = i
        · subst hji
          right
          rw [hm] at hmj; cases hmj
          rw [hee]; exact hcj
        · left
          exact hlast ⟨j, mj, by omega, hmj, hcj⟩
      exact this
    exact ih (i + 1) sm' sd' (by omega) (by omega) h3 hcp' hlast' hhl'

end SV.Toc.R

namespace SV.Toc.R


/-! # Part 3: the decidable fragment `SpecConformingR` -/

theorem get_of_getElem? {α : Type} {l : List α} {i : Nat} {a : α} (h : l[i]? = some a) :
    ∃ hi : i < l.length, l[i] = a := by
  rw [List.getElem?_eq_some_iff] at h; exact h

theorem spec_treeOK {es : List Entry} (sc : SpecConformingR es) : TreeOK (pass1 es) := by
  refine ⟨?_, ?_, ?_, ?_⟩
  · intro i j mi mj hi hj hci hcj hp
    obtain ⟨hi', e⟩ := get_of_getElem? hi
    obtain ⟨hj', e'⟩ := get_of_getElem? hj
    subst e e'
    exact sc.names i hi' j hj' hci hcj hp
  · rintro j ⟨m, hm, hc, hp⟩
    obtain ⟨hj, e⟩ := get_of_getElem? hm
    subst e
    exact sc.noRoot j hj hc hp
  · rintro i p ⟨m, hm, hc, hp⟩ n h0 hn
    obtain ⟨hi, e⟩ := get_of_getElem? hm
    subst e
    rw [← hp] at hn
    have hanc := sc.parents i hi hc n hn h0
    rw [hp] at hanc
    constructor
    · intro j mj hmj hcj hpj
      obtain ⟨hj, e'⟩ := get_of_getElem? hmj
      subst e'
      exact (hanc j hj hcj hpj).1
    · intro f hf
      obtain ⟨mf, hmf, hcf, hpf⟩ := firstIdx_nonChunk hf
      obtain ⟨hf', e'⟩ := get_of_getElem? hmf
      subst e'
      obtain ⟨_, g, hg, hgi, hcg, hpg⟩ := hanc f hf' hcf hpf
      have := firstIdx_min hf ⟨_, List.getElem?_eq_getElem hg, hcg, hpg⟩
      omega
  · intro i m hm hh
    obtain ⟨hi, e⟩ := get_of_getElem? hm
    subst e
    obtain ⟨j, hj, h1, h2, h3, h4⟩ := sc.hardlinks i hi hh
    exact ⟨j, h1, _, List.getElem?_eq_getElem hj, h2, h3, h4⟩

theorem spec_first {es : List Entry} (sc : SpecConformingR es) :
    ∀ (i : Nat) (m : MEnt), (pass1 es)[i]? = some m → m.e.type = "chunk" →
      ∃ j mj, j < i ∧ (pass1 es)[j]? = some mj ∧ mj.e.type ≠ "chunk" := by
  intro i
  induction i using Nat.strongRecOn with
  | _ i ih =>
    intro m hm hc
    obtain ⟨he, _⟩ := pass1_getElem es i m hm
    obtain ⟨hi, e⟩ := get_of_getElem? he
    obtain ⟨h0, hprev⟩ := sc.chunkAfterData i hi (by rw [e]; exact hc)
    have hpl : i - 1 < (pass1 es).length := by rw [pass1_length]; omega
    have hmp : (pass1 es)[i - 1]? = some (pass1 es)[i - 1] := List.getElem?_eq_getElem hpl
    obtain ⟨hep, _⟩ := pass1_getElem es (i - 1) _ hmp
    obtain ⟨_, ep⟩ := get_of_getElem? hep
    rcases hprev with hr | hch
    · refine ⟨i - 1, _, by omega, hmp, ?_⟩
      rw [← ep, hr]; decide
    · obtain ⟨j, mj, hj, h1, h2⟩ := ih (i - 1) (by omega) _ hmp (by rw [← ep]; exact hch)
      exact ⟨j, mj, by omega, h1, h2⟩

/-! ## Initial states -/

theorem init_inv (ms : List MEnt) :
    Inv ms 0 { nl := initNl ms } dInit [] (fun _ => 0) := by
  refine ⟨fun _ _ => rfl, fun _ _ => rfl, ?_, ?_, ?_, ?_, ?_, ?_, fun _ _ _ _ _ => rfl, ?_, ?_⟩
  · intro p
    cases p with
    | nil => simp [walkKids, look]
    | cons b rest =>
      simp only [walkKids, dInit, getKid, List.not_mem_nil, ↓reduceIte]
      unfold look
      simp only [reduceCtorEq, ↓reduceIte, List.not_mem_nil]
      split
      · simp
      · rfl
  · intro p hp; cases hp
  · intro p hp; cases hp
  · intro k hk
    cases k with
    | root =>
      refine ⟨writeAttr {} rootAttr, by simp [dInit], rfl, ?_⟩
      rw [readNumLink_root]; simp [nlEff, lastOf, pendOwn]
    | imp p => exact absurd hk.1 (by simp)
    | ent j => exact absurd hk.1 (by omega)
  · intro k _; rfl
  · intro p hp; cases hp
  · intro h; exact absurd rfl h
  · intro k kv hkv; cases hkv



/-! # Part 4: from agreeing nodes to equal views

The two trees name their nodes differently (`g` renames the keys of the first tree to those of the
second); the view contains no keys. -/

def mapKV (g : Key → Key) (kv : String × Key) : String × Key := (kv.1, g kv.2)
def mapPK (g : Key → Key) (pk : Path × Key) : Path × Key := (pk.1, g pk.2)

/-- what `view` looks at in a node -/
structure NodeAgree (g : Key → Key) (n1 n2 : Node) : Prop where
  ok1 : n1.ok = true
  ok2 : n2.ok = true
  err1 : n1.kidsErr = false
  err2 : n2.kidsErr = false
  kids : n2.kids = n1.kids.map (mapKV g)
  attr : normalise n1.attr = normalise n2.attr
  mode : n1.attr.mode = n2.attr.mode
  size : n1.attr.size = n2.attr.size
  offset : n1.offset = n2.offset
  openOk : n1.openOk = n2.openOk
  lookup : ∀ x, 0 ≤ x → n1.chunks.lookup x = n2.chunks.lookup x

/-- the trees agree, up to the renaming `g`, on a set of keys closed under children -/
structure TreesAgree (g : Key → Key) (t1 t2 : Tree) (C : Key → Prop) : Prop where
  root : g t1.root = t2.root
  rootC : C t1.root
  node : ∀ k, C k → NodeAgree g (t1.node k) (t2.node (g k))
  closed : ∀ k, C k → ∀ kv, kv ∈ (t1.node k).kids → C kv.2
  inj : ∀ a b, C a → C b → g a = g b → a = b

theorem mem_insertKid {kv x : String × Key} {l : Kids} : x ∈ insertKid kv l ↔ x = kv ∨ x ∈ l := by
  induction l with
  | nil => simp [insertKid]
  | cons y ys ih =>
    unfold insertKid
    split
    · simp
    · simp only [List.mem_cons, ih]
      constructor
      · rintro (h | h | h)
        · exact Or.inr (Or.inl h)
        · exact Or.inl h
        · exact Or.inr (Or.inr h)
      · rintro (h | h | h)
        · exact Or.inr (Or.inl h)
        · exact Or.inl h
        · exact Or.inr (Or.inr h)

theorem mem_sortKids {x : String × Key} {l : Kids} : x ∈ sortKids l ↔ x ∈ l := by
  induction l with
  | nil => simp [sortKids]
  | cons y ys ih =>
    show x ∈ insertKid y (sortKids ys) ↔ _
    rw [mem_insertKid, ih]; simp

theorem insertKid_map (g : Key → Key) (kv : String × Key) (l : Kids) :
    insertKid (mapKV g kv) (l.map (mapKV g)) = (insertKid kv l).map (mapKV g) := by
  induction l with
  | nil => rfl
  | cons x xs ih =>
    simp only [List.map_cons, insertKid]
    have : (mapKV g kv).1 = kv.1 := rfl
    have hx : (mapKV g x).1 = x.1 := rfl
    rw [this, hx]
    split
    · rfl
    · simp only [List.map_cons]; rw [ih]

theorem sortKids_map (g : Key → Key) (l : Kids) :
    sortKids (l.map (mapKV g)) = (sortKids l).map (mapKV g) := by
  induction l with
  | nil => rfl
  | cons x xs ih =>
    show insertKid (mapKV g x) (sortKids (xs.map (mapKV g))) = (insertKid x (sortKids xs)).map (mapKV g)
    rw [ih, insertKid_map]

theorem mem_map_inj {g : Key → Key} {C : Key → Prop} (inj : ∀ a b, C a → C b → g a = g b → a = b)
    {k : Key} {seen : List Key} (hk : C k) (hs : ∀ s, s ∈ seen → C s) :
    g k ∈ seen.map g ↔ k ∈ seen := by
  constructor
  · intro h
    obtain ⟨s, hs1, hs2⟩ := List.mem_map.mp h
    rw [← inj s k (hs s hs1) hk hs2]; exact hs1
  · intro h; exact List.mem_map.mpr ⟨k, h, rfl⟩

theorem listing_agree {g : Key → Key} {t1 t2 : Tree} {C : Key → Prop} (ag : TreesAgree g t1 t2 C) :
    ∀ (fuel : Nat) (p : Path) (k : Key) (seen : List Key), C k → (∀ s, s ∈ seen → C s) →
      listing t2 fuel p (g k) (seen.map g) =
        ((listing t1 fuel p k seen).1.map (mapPK g), (listing t1 fuel p k seen).2.map g) ∧
      (∀ pk, pk ∈ (listing t1 fuel p k seen).1 → C pk.2) ∧
      (∀ s, s ∈ (listing t1 fuel p k seen).2 → C s) := by
  intro fuel
  induction fuel with
  | zero =>
    intro p k seen hk hseen
    have := ag.node k hk
    simp only [listing, this.ok1, this.ok2, ↓reduceIte]
    refine ⟨rfl, ?_, ?_⟩
    · intro pk hpk; simp at hpk; rw [hpk]; exact hk
    · intro s hs
      rcases List.mem_cons.mp hs with h | h
      · rw [h]; exact hk
      · exact hseen s h
  | succ fuel ih =>
    intro p k seen hk hseen
    have na := ag.node k hk
    have hmem := mem_map_inj ag.inj hk hseen
    simp only [listing, na.ok1, na.ok2, ↓reduceIte, na.err1, na.err2,
      Bool.false_eq_true, Bool.not_eq_true, Bool.true_eq_false]
    by_cases hs : k ∈ seen
    · have hs' : g k ∈ seen.map g := hmem.mpr hs
      simp only [hs, hs', ↓reduceIte]
      refine ⟨rfl, ?_, hseen⟩
      intro pk hpk; simp at hpk; rw [hpk]; exact hk
    · have hs' : ¬ g k ∈ seen.map g := fun h => hs (hmem.mp h)
      simp only [hs, hs', ↓reduceIte]
      rw [na.kids, sortKids_map]
      -- the fold over the sorted children
      have hfold : ∀ (l : Kids) (acc : List (Path × Key) × List Key), (∀ kv, kv ∈ l → C kv.2) →
          (∀ pk, pk ∈ acc.1 → C pk.2) → (∀ s, s ∈ acc.2 → C s) →
          (l.map (mapKV g)).foldl (fun (acc : List (Path × Key) × List Key) (bc : String × Key) =>
              let r := listing t2 fuel (p ++ [bc.1]) bc.2 acc.2
              (acc.1 ++ r.1, r.2)) (acc.1.map (mapPK g), acc.2.map g) =
          ((l.foldl (fun (acc : List (Path × Key) × List Key) (bc : String × Key) =>
              let r := listing t1 fuel (p ++ [bc.1]) bc.2 acc.2
              (acc.1 ++ r.1, r.2)) acc).1.map (mapPK g),
           (l.foldl (fun (acc : List (Path × Key) × List Key) (bc : String × Key) =>
              let r := listing t1 fuel (p ++ [bc.1]) bc.2 acc.2
              (acc.1 ++ r.1, r.2)) acc).2.map g) ∧
          (∀ pk, pk ∈ (l.foldl (fun (acc : List (Path × Key) × List Key) (bc : String × Key) =>
              let r := listing t1 fuel (p ++ [bc.1]) bc.2 acc.2
              (acc.1 ++ r.1, r.2)) acc).1 → C pk.2) ∧
          (∀ s, s ∈ (l.foldl (fun (acc : List (Path × Key) × List Key) (bc : String × Key) =>
              let r := listing t1 fuel (p ++ [bc.1]) bc.2 acc.2
              (acc.1 ++ r.1, r.2)) acc).2 → C s) := by
        intro l
        induction l with
        | nil => intro acc _ hacc hacc2; exact ⟨rfl, hacc, hacc2⟩
        | cons x xs ihl =>
          intro acc hl hacc hacc2
          simp only [List.map_cons, List.foldl_cons]
          have hx := ih (p ++ [x.1]) x.2 acc.2 (hl x (by simp)) hacc2
          have e1 : (mapKV g x).1 = x.1 := rfl
          have e2 : (mapKV g x).2 = g x.2 := rfl
          rw [e1, e2, hx.1]
          have := ihl (acc.1 ++ (listing t1 fuel (p ++ [x.1]) x.2 acc.2).1, (listing t1 fuel (p ++ [x.1]) x.2 acc.2).2)
            (fun kv hkv => hl kv (by simp [hkv]))
            (by
              intro pk hpk
              simp only [List.mem_append] at hpk
              rcases hpk with h | h
              · exact hacc pk h
              · exact hx.2.1 pk h)
            hx.2.2
          simp only [List.map_append] at this
          exact this
      have hkidsC : ∀ kv, kv ∈ sortKids (t1.node k).kids → C kv.2 :=
        fun kv hkv => ag.closed k hk kv (mem_sortKids.mp hkv)
      have := hfold (sortKids (t1.node k).kids) ([], k :: seen) hkidsC (by intro pk h; cases h)
        (by
          intro s hs
          rcases List.mem_cons.mp hs with h | h
          · rw [h]; exact hk
          · exact hseen s h)
      simp only [List.map_nil, List.map_cons] at this
      refine ⟨by rw [this.1]; rfl, ?_, this.2.2⟩
      intro pk hpk
      rcases List.mem_cons.mp hpk with h | h
      · rw [h]; exact hk
      · exact this.2.1 pk h

theorem probeWalk_agree (tab1 tab2 : ChunkTab)
    (h : ∀ x, 0 ≤ x → tab1.lookup x = tab2.lookup x) :
    ∀ (fuel : Nat) (off : Int) (acc : List Int), 0 ≤ off →
      probeOffsets.walk tab1 fuel off acc = probeOffsets.walk tab2 fuel off acc := by
  intro fuel
  induction fuel with
  | zero => intro off acc _; rfl
  | succ fuel ih =>
    intro off acc hoff
    simp only [probeOffsets.walk]
    rw [h off hoff]
    cases tab2.lookup off with
    | none => rfl
    | some r =>
      obtain ⟨co, cs, d⟩ := r
      simp only
      split
      · rfl
      · rename_i hc
        apply ih
        omega

theorem probes_agree (tab1 tab2 : ChunkTab) (size : Int)
    (h : ∀ x, 0 ≤ x → tab1.lookup x = tab2.lookup x) :
    ((sortDedupInts (probeOffsets tab1 size)).filter (· ≥ 0)).map (fun x => (x, tab1.lookup x)) =
    ((sortDedupInts (probeOffsets tab2 size)).filter (· ≥ 0)).map (fun x => (x, tab2.lookup x)) := by
  have hp : probeOffsets tab1 size = probeOffsets tab2 size := by
    unfold probeOffsets
    exact probeWalk_agree tab1 tab2 h 2000 0 _ (Int.le_refl 0)
  rw [hp]
  apply List.map_congr_left
  intro x hx
  have : 0 ≤ x := by
    have := (List.mem_filter.mp hx).2
    simpa using this
  rw [h x this]

theorem firstPathOf_map {g : Key → Key} {C : Key → Prop} (inj : ∀ a b, C a → C b → g a = g b → a = b)
    (k : Key) (hk : C k) : ∀ (l : List (Path × Key)), (∀ pk, pk ∈ l → C pk.2) →
      firstPathOf (l.map (mapPK g)) (g k) = firstPathOf l k := by
  intro l
  induction l with
  | nil => intro _; rfl
  | cons x xs ih =>
    intro hl
    unfold firstPathOf
    simp only [List.map_cons, List.find?_cons]
    have hx : ((mapPK g x).2 = g k) ↔ (x.2 = k) :=
      ⟨fun h => inj _ _ (hl x (by simp)) hk h, fun h => by show g x.2 = g k; rw [h]⟩
    by_cases h : x.2 = k
    · simp [h, hx.mpr h, mapPK]
    · have h' : ¬ (mapPK g x).2 = g k := fun e => h (hx.mp e)
      simp only [h, h', decide_false]
      have := ih (fun pk hpk => hl pk (by simp [hpk]))
      unfold firstPathOf at this
      exact this

theorem view_agree {g : Key → Key} {t1 t2 : Tree} {C : Key → Prop} (ag : TreesAgree g t1 t2 C) :
    view t1 = view t2 := by
  unfold view
  have hl := listing_agree ag maxDepth [] t1.root [] ag.rootC (by intro s h; cases h)
  rw [← ag.root]
  have hl1 := hl.1
  simp only [List.map_nil] at hl1
  rw [hl1]
  simp only [List.map_map]
  apply List.map_congr_left
  intro pk hpk
  have hC := hl.2.1 pk hpk
  have na := ag.node pk.2 hC
  obtain ⟨p, k⟩ := pk
  show nodeView t1 (listing t1 maxDepth [] t1.root []).1 (p, k) =
    nodeView t2 (List.map (mapPK g) (listing t1 maxDepth [] t1.root []).1) (p, g k)
  simp only [nodeView]
  have hfp := firstPathOf_map ag.inj k hC _ hl.2.1
  have hls : (sortKids (t1.node k).kids).map (fun kv => (kv.1, typeChar (t1.node kv.2).attr.mode)) =
      (sortKids (t2.node (g k)).kids).map (fun kv => (kv.1, typeChar (t2.node kv.2).attr.mode)) := by
    rw [na.kids, sortKids_map, List.map_map]
    apply List.map_congr_left
    intro kv hkv
    have := ag.node kv.2 (ag.closed k hC kv (mem_sortKids.mp hkv))
    simp only [Function.comp, mapKV]
    rw [this.mode]
  have hemp : (t2.node (g k)).kids.isEmpty = (t1.node k).kids.isEmpty := by
    rw [na.kids]; cases (t1.node k).kids <;> rfl
  have hpr := probes_agree (t1.node k).chunks (t2.node (g k)).chunks (t1.node k).attr.size na.lookup
  have hfp' : firstPathOf (List.map (mapPK g) (listing t1 maxDepth [] t1.root []).1) (g k) =
      firstPathOf (listing t1 maxDepth [] t1.root []).1 k := hfp
  rw [hfp', hls, hpr, na.ok1, na.ok2, na.err1, na.err2, na.attr, na.offset, na.openOk, na.mode, hemp, na.size]




/-! ## The memory store's children maps point at the last entry of a directory's name

`addChild` keys the children of a directory by base name, so a directory announced again replaces
the child its parent held before. -/

def KNodup (l : Kids) : Prop := (l.map (·.1)).Nodup

theorem mem_setKid' {b : String} {c : Key} {l : Kids} {kv : String × Key} (hn : KNodup l)
    (h : kv ∈ setKid b c l) : kv = (b, c) ∨ (kv ∈ l ∧ kv.1 ≠ b) := by
  induction l with
  | nil => simp [setKid] at h; exact Or.inl h
  | cons x xs ih =>
    have hn' : KNodup xs := (List.nodup_cons.mp hn).2
    have hx1 : x.1 ∉ xs.map (·.1) := (List.nodup_cons.mp hn).1
    unfold setKid at h
    by_cases hx : x.1 = b
    · rw [if_pos hx] at h
      rcases List.mem_cons.mp h with e | e
      · exact Or.inl e
      · refine Or.inr ⟨by simp [e], ?_⟩
        intro hb
        apply hx1
        rw [hx, ← hb]
        exact List.mem_map.mpr ⟨kv, e, rfl⟩
    · rw [if_neg hx] at h
      rcases List.mem_cons.mp h with e | e
      · exact Or.inr ⟨by rw [e]; simp, by rw [e]; exact hx⟩
      · rcases ih hn' e with h1 | ⟨h1, h2⟩
        · exact Or.inl h1
        · exact Or.inr ⟨by simp [h1], h2⟩

theorem setKid_names (b : String) (c : Key) (l : Kids) :
    ∀ x, x ∈ (setKid b c l).map (·.1) → x = b ∨ x ∈ l.map (·.1) := by
  intro x hx
  obtain ⟨kv, h1, h2⟩ := List.mem_map.mp hx
  rcases mem_setKid h1 with e | e
  · left; rw [← h2, e]
  · right; exact List.mem_map.mpr ⟨kv, e, h2⟩

theorem setKid_nodup (b : String) (c : Key) (l : Kids) (hn : KNodup l) : KNodup (setKid b c l) := by
  induction l with
  | nil => simp [setKid, KNodup]
  | cons x xs ih =>
    have hn' : KNodup xs := (List.nodup_cons.mp hn).2
    have hx1 : x.1 ∉ xs.map (·.1) := (List.nodup_cons.mp hn).1
    unfold setKid
    by_cases hx : x.1 = b
    · rw [if_pos hx]
      show ((b, c) :: xs |>.map (·.1)).Nodup
      simp only [List.map_cons]
      exact List.nodup_cons.mpr ⟨by rw [← hx]; exact hx1, hn'⟩
    · rw [if_neg hx]
      show (x :: setKid b c xs |>.map (·.1)).Nodup
      simp only [List.map_cons]
      refine List.nodup_cons.mpr ⟨?_, ih hn'⟩
      intro h
      rcases setKid_names b c xs _ h with e | e
      · exact hx e
      · exact hx1 e

/-- the memory key of the directory named `d`, if there is one -/
def memKeyOf (ms : List MEnt) (d : Path) : Key :=
  match lastIdx ms d with
  | some L => .ent L
  | none => impKey d

structure MK (ms : List MEnt) (i : Nat) (sm : MState) : Prop where
  nodup : ∀ k, KNodup (sm.kids k)
  last : ∀ k kv j m, kv ∈ sm.kids k → kv.2 = .ent j → ms[j]? = some m → m.e.type = "dir" →
    j < i ∧ kv.1 = baseName m.path ∧ k = memKeyOf ms (parentDir m.path) ∧
    (∀ j' m', j < j' → j' < i → ms[j']? = some m' → m'.e.type ≠ "chunk" → m'.path ≠ m.path)

def stImp (sm : MState) (d : Path) : MState :=
  { sm with imps := d :: sm.imps, nl := fun k => if k = .imp d then 2 else sm.nl k }

theorem mk_goc (ms : List MEnt) (i : Nat) : ∀ (rev : List String) (sm : MState), MK ms i sm →
    MK ms i (mGetOrCreateDir ms sm rev).1 ∧ (mGetOrCreateDir ms sm rev).2 = memKeyOf ms rev.reverse := by
  intro rev
  induction rev with
  | nil =>
    intro sm mk
    simp only [mGetOrCreateDir, List.reverse_nil, memKeyOf, mLookup]
    cases hl : lastIdx ms [] with
    | some L => exact ⟨mk, rfl⟩
    | none =>
      simp only
      by_cases h : [] ∈ sm.imps
      · simp only [h, ↓reduceIte]; exact ⟨mk, trivial⟩
      · simp only [h, ↓reduceIte]; exact ⟨⟨mk.nodup, mk.last⟩, rfl⟩
  | cons b rest ih =>
    intro sm mk
    simp only [mGetOrCreateDir, memKeyOf, mLookup]
    cases hl : lastIdx ms (b :: rest).reverse with
    | some L => exact ⟨mk, rfl⟩
    | none =>
      simp only
      have hne : (b :: rest).reverse ≠ [] := by simp
      by_cases h : (b :: rest).reverse ∈ sm.imps
      · simp only [h, ↓reduceIte]; exact ⟨mk, trivial⟩
      · simp only [h, ↓reduceIte]
        have mk2' : ∀ s : MState, s.kids = sm.kids → MK ms i (mGetOrCreateDir ms s rest).1 :=
          fun s hs => (ih s ⟨by rw [hs]; exact mk.nodup, by rw [hs]; exact mk.last⟩).1
        have mk2 := mk2' (stImp sm (b :: rest).reverse) rfl
        unfold stImp at mk2
        refine ⟨⟨?_, ?_⟩, by simp [impKey, hne]⟩
        · intro k
          simp only [mAddChild]
          split
          · exact setKid_nodup _ _ _ (mk2.nodup _)
          · exact mk2.nodup _
        · intro k kv j m hkv hj hm hd
          simp only [mAddChild] at hkv
          split at hkv
          · rcases mem_setKid hkv with e | e
            · rw [e] at hj; cases hj
            · rename_i hk; rw [hk]; rw [hk] at e; exact mk2.last _ kv j m e hj hm hd
          · exact mk2.last k kv j m hkv hj hm hd

theorem mk_step {ms : List MEnt} (ok : TreeOK ms) {i : Nat} {sm sm' : MState} {m : MEnt}
    (hm : ms[i]? = some m) (mk : MK ms i sm) (h : pass2Step ms sm i m = some sm') : MK ms (i + 1) sm' := by
  have weaken : ∀ s : MState, s.kids = sm.kids → (∀ p, ¬ NonChunkAt ms i p) → MK ms (i + 1) s := by
    intro s hs hno
    refine ⟨by rw [hs]; exact mk.nodup, ?_⟩
    intro k kv j mj hkv hj hmj hd
    rw [hs] at hkv
    obtain ⟨h1, h2, h3, h4⟩ := mk.last k kv j mj hkv hj hmj hd
    refine ⟨by omega, h2, h3, ?_⟩
    intro j' m' hjj' hj' hm' hc'
    by_cases hji : j' = i
    · subst hji; exact absurd ⟨m', hm', hc', rfl⟩ (hno _)
    · exact h4 j' m' hjj' (by omega) hm' hc'
  unfold pass2Step at h
  by_cases hc : m.e.type = "chunk"
  · rw [if_pos hc] at h; cases h
    exact weaken _ rfl (by rintro p ⟨m', hm', h2, _⟩; rw [hm] at hm'; cases hm'; exact h2 hc)
  · rw [if_neg hc] at h
    have hne : m.path ≠ [] := fun e => ok.noRoot i ⟨m, hm, hc, e⟩
    rw [if_neg hne] at h
    obtain ⟨mk2, hpk⟩ := mk_goc ms i (parentDir m.path).reverse sm mk
    rw [List.reverse_reverse] at hpk
    generalize hg : mGetOrCreateDir ms sm (parentDir m.path).reverse = g at h mk2 hpk
    obtain ⟨s2, pk⟩ := g
    simp only at h mk2 hpk
    -- what linking a child under the parent does
    have link : ∀ (s : MState) (c : Key), s.kids = s2.kids →
        (∀ j mj, c = .ent j → ms[j]? = some mj → mj.e.type = "dir" → j = i) →
        MK ms (i + 1) (mAddChild ms s pk (baseName m.path) c) := by
      intro s c hs hci
      refine ⟨?_, ?_⟩
      · intro k
        simp only [mAddChild, hs]
        split
        · exact setKid_nodup _ _ _ (mk2.nodup _)
        · exact mk2.nodup _
      · intro k kv j mj hkv hj hmj hd
        have old : kv ∈ s2.kids k → (k = pk → kv.1 ≠ baseName m.path) →
            j < i + 1 ∧ kv.1 = baseName mj.path ∧ k = memKeyOf ms (parentDir mj.path) ∧
            (∀ j' m', j < j' → j' < i + 1 → ms[j']? = some m' → m'.e.type ≠ "chunk" → m'.path ≠ mj.path) := by
          intro hkv' hnb
          obtain ⟨h1, h2, h3, h4⟩ := mk2.last k kv j mj hkv' hj hmj hd
          refine ⟨by omega, h2, h3, ?_⟩
          intro j' m' hjj' hj' hm' hc' hp
          by_cases hji : j' = i
          · subst hji
            rw [hm] at hm'; cases hm'
            -- the entry announces the same directory again: it replaces this child
            apply hnb
            · rw [h3, ← hp]; exact hpk.symm
            · rw [h2, ← hp]
          · exact h4 j' m' hjj' (by omega) hm' hc' hp
        simp only [mAddChild, hs] at hkv
        by_cases hk : k = pk
        · rw [if_pos hk] at hkv
          rcases mem_setKid' (mk2.nodup _) hkv with e | ⟨e1, e2⟩
          · rw [e] at hj
            simp only at hj
            have hji := hci j mj hj hmj hd
            subst hji
            rw [hm] at hmj; cases hmj
            refine ⟨by omega, by rw [e], by rw [hk]; exact hpk, ?_⟩
            intro j' m' h1 h2; omega
          · exact old e1 (fun _ => e2)
        · rw [if_neg hk] at hkv
          exact old hkv (fun e => absurd e hk)
    by_cases hh : m.e.type = "hardlink"
    · simp only [hh, ↓reduceIte] at h
      split at h
      · cases h
      · rename_i org horg
        split at h
        · cases h
        · rename_i hkt
          cases h
          refine link _ org rfl ?_
          intro j mj e hmj hd
          rw [e, keyType_ent hmj] at hkt
          exact absurd hd hkt
    · simp only [hh, ↓reduceIte] at h
      cases h
      refine link _ (.ent i) rfl ?_
      intro j mj e _ _; cases e; rfl

theorem mk_run {ms : List MEnt} (ok : TreeOK ms) : ∀ (d i : Nat) (sm smF : MState), ms.length - i = d →
    MK ms i sm → pass2 ms (enumFrom' i (ms.drop i)) sm = some smF → MK ms ms.length smF := by
  intro d
  induction d with
  | zero =>
    intro i sm smF hd mk h
    rw [List.drop_eq_nil_of_le (by omega)] at h
    simp only [enumFrom', pass2] at h
    cases h
    refine ⟨mk.nodup, ?_⟩
    intro k kv j m hkv hj hm hdir
    obtain ⟨h1, h2, h3, h4⟩ := mk.last k kv j m hkv hj hm hdir
    obtain ⟨hjl, _⟩ := List.getElem?_eq_some_iff.mp hm
    refine ⟨hjl, h2, h3, ?_⟩
    intro j' m' hjj' hj' hm' hc'
    by_cases hji : j' < i
    · exact h4 j' m' hjj' hji hm' hc'
    · omega
  | succ d ih =>
    intro i sm smF hd mk h
    have hlt : i < ms.length := by omega
    rw [List.drop_eq_getElem_cons hlt] at h
    simp only [enumFrom', pass2] at h
    split at h
    · rename_i s' hs'
      exact ih (i + 1) s' smF (by omega) (mk_step ok (List.getElem?_eq_getElem hlt) mk hs') h
    · cases h

theorem mk_init (ms : List MEnt) : MK ms 0 { nl := initNl ms } :=
  ⟨fun _ => List.nodup_nil, fun _ _ _ _ h => by cases h⟩

end SV.Toc.R

namespace SV.Toc.R

/-! # Part 5: attributes -/

theorem attr0_mode_lt (ms : List MEnt) (k : Key) : (attr0 ms k).mode < 4294967296 := by
  cases k with
  | root => show rootAttr.mode < 4294967296; decide
  | imp p => show rootAttr.mode < 4294967296; decide
  | ent j =>
    simp only [attr0]
    split
    · exact goFileMode_lt _ _
    · decide

/-- the db bucket of a node against the attribute record it was written from, when only the
link count has been updated since -/
theorem attr_agree (b : DbAttr) (a0 : Attr) (nl : Int)
    (he : eraseNL b = eraseNL (writeAttr {} a0)) (hn : readNumLink b = nl)
    (hm : a0.mode < 4294967296) (hx : (a0.xattrs.map Prod.fst).Nodup) :
    normalise (readAttr b) = normalise { a0 with numLink := nl } ∧
      (readAttr b).mode = a0.mode ∧ (readAttr b).size = a0.size := by
  have hrt := readAttr_writeAttr a0 hm hx
  have h1 : b.size = (writeAttr {} a0).size := by have := congrArg DbAttr.size he; exact this
  have h2 : b.uid = (writeAttr {} a0).uid := by have := congrArg DbAttr.uid he; exact this
  have h3 : b.gid = (writeAttr {} a0).gid := by have := congrArg DbAttr.gid he; exact this
  have h4 : b.devMajor = (writeAttr {} a0).devMajor := by have := congrArg DbAttr.devMajor he; exact this
  have h5 : b.devMinor = (writeAttr {} a0).devMinor := by have := congrArg DbAttr.devMinor he; exact this
  have h6 : b.mtime = (writeAttr {} a0).mtime := by have := congrArg DbAttr.mtime he; exact this
  have h7 : b.linkName = (writeAttr {} a0).linkName := by have := congrArg DbAttr.linkName he; exact this
  have h8 : b.mode = (writeAttr {} a0).mode := by have := congrArg DbAttr.mode he; exact this
  have h9 : b.xFirst = (writeAttr {} a0).xFirst := by have := congrArg DbAttr.xFirst he; exact this
  have h10 : b.xExtra = (writeAttr {} a0).xExtra := by have := congrArg DbAttr.xExtra he; exact this
  have hnl : normNlink (readAttr b).numLink = normNlink nl := by
    unfold readAttr readNumLink at *
    simp only
    cases hb : b.numLink with
    | none => rw [hb] at hn; simp at hn; rw [← hn]; exact normNlink_one_zero
    | some n => rw [hb] at hn; simp at hn; rw [← hn]
  have hmode : (readAttr (writeAttr {} a0)).mode = a0.mode := by
    unfold writeAttr readAttr
    cases a0.xattrs with
    | nil => by_cases h : a0.mode = 0 <;> simp [h] <;> omega
    | cons f r => cases r <;> (by_cases h : a0.mode = 0 <;> simp [h] <;> omega)
  have hsize : (readAttr (writeAttr {} a0)).size = a0.size := by
    unfold writeAttr readAttr putNZ
    cases a0.xattrs with
    | nil => by_cases h : a0.size = 0 <;> simp [h]
    | cons f r => cases r <;> (by_cases h : a0.size = 0 <;> simp [h])
  have hmodeb : (readAttr b).mode = (readAttr (writeAttr {} a0)).mode := by
    simp only [readAttr, h8]
  have hsizeb : (readAttr b).size = (readAttr (writeAttr {} a0)).size := by
    simp only [readAttr, h1]
  refine ⟨?_, by rw [hmodeb, hmode], by rw [hsizeb, hsize]⟩
  have hn0 : normalise { a0 with numLink := nl } = { normalise a0 with nlink := normNlink nl } := rfl
  have hrb : readAttr b = { readAttr (writeAttr {} a0) with numLink := (readAttr b).numLink } := by
    simp only [readAttr, h1, h2, h3, h4, h5, h6, h7, h8, h9, h10]
  have hn1 : normalise { readAttr (writeAttr {} a0) with numLink := (readAttr b).numLink } =
      { normalise (readAttr (writeAttr {} a0)) with nlink := normNlink (readAttr b).numLink } := rfl
  rw [hn0, ← hrt, ← hnl, hrb, hn1]

end SV.Toc.R

namespace SV.Toc.R

/-! # Part 6: chunk tables -/

/-- `lastRegEnt.Size` after the first `i` entries, starting from `lr` -/
def lrFrom (lr : Option Int) : List Entry → Nat → Option Int
  | _, 0 => lr
  | [], _ + 1 => lr
  | e :: es, i + 1 => lrFrom (if e.type = "reg" then some e.size else lr) es i

theorem lrFrom_succ (es : List Entry) : ∀ (lr : Option Int) (i : Nat) (e : Entry), es[i]? = some e →
    lrFrom lr es (i + 1) = if e.type = "reg" then some e.size else lrFrom lr es i := by
  induction es with
  | nil => intro lr i e h; simp at h
  | cons x xs ih =>
    intro lr i e h
    cases i with
    | zero =>
      simp only [List.getElem?_cons_zero, Option.some.injEq] at h; subst h
      simp [lrFrom]
    | succ i =>
      simp only [List.getElem?_cons_succ] at h
      simp only [lrFrom]
      exact ih _ i e h

/-- generalisation of `pass1_getElem`: the entry at `i` is `pass1Ent` applied to the loop state
reached after the entries before it -/
theorem pass1Go_state (es : List Entry) : ∀ (lp : Path) (lr : Option Int) (i : Nat) (m : MEnt),
    (pass1Go lp lr es)[i]? = some m →
      ∃ lp', m = (pass1Ent lp' (lrFrom lr es i) m.e).1 ∧
        (i = 0 → lp' = lp) ∧
        (∀ j, i = j + 1 → ∃ mp, (pass1Go lp lr es)[j]? = some mp ∧ lp' = mp.path) := by
  induction es with
  | nil => intro lp lr i m h; simp [pass1Go] at h
  | cons e es ih =>
    intro lp lr i m h
    cases i with
    | zero =>
      simp only [pass1Go, List.getElem?_cons_zero, Option.some.injEq] at h
      subst h
      exact ⟨lp, rfl, fun _ => rfl, fun j hj => by omega⟩
    | succ i =>
      simp only [pass1Go, List.getElem?_cons_succ] at h
      obtain ⟨lp', h1, h2, h3⟩ := ih _ _ i m h
      refine ⟨lp', ?_, fun h0 => by omega, ?_⟩
      · exact h1
      intro j hj
      have hji : i = j := by omega
      subst hji
      cases i with
      | zero =>
        refine ⟨(pass1Ent lp lr e).1, by simp [pass1Go], ?_⟩
        rw [h2 rfl]
        simp [pass1Ent]
      | succ i' =>
        obtain ⟨mp, hmp, hlp⟩ := h3 i' rfl
        exact ⟨mp, by simpa [pass1Go] using hmp, hlp⟩

/-- a `chunk` entry takes the name of the entry before it -/
theorem pass1_chunk_path {es : List Entry} {i : Nat} {m mp : MEnt}
    (hm : (pass1 es)[i + 1]? = some m) (hp : (pass1 es)[i]? = some mp) (hc : m.e.type = "chunk") :
    m.path = mp.path := by
  obtain ⟨lp', h1, _, h3⟩ := pass1Go_state es [] none (i + 1) m hm
  obtain ⟨mp', hmp', hlp⟩ := h3 i rfl
  have : mp' = mp := by
    unfold pass1 at hp; rw [hp] at hmp'; exact (Option.some.inj hmp').symm
  subst this
  rw [h1]
  simp [pass1Ent, hc, hlp]

end SV.Toc.R

namespace SV.Toc.R

theorem spec_es_ms {es : List Entry} {u : Nat} {m : MEnt} (hm : (pass1 es)[u]? = some m) :
    ∃ hu : u < es.length, es[u] = m.e := by
  obtain ⟨he, _⟩ := pass1_getElem es u m hm
  exact get_of_getElem? he

/-- every `chunk` entry belongs to a `reg` entry before it: it carries that entry's name and pass 1
has that entry's size at hand -/
theorem chunk_owner {es : List Entry} (sc : SpecConformingR es) :
    ∀ (u : Nat) (m : MEnt), (pass1 es)[u]? = some m → m.e.type = "chunk" →
      ∃ r mr, r < u ∧ (pass1 es)[r]? = some mr ∧ mr.e.type = "reg" ∧ mr.path = m.path ∧
        lrFrom none es u = some mr.e.size := by
  intro u
  induction u using Nat.strongRecOn with
  | _ u ih =>
    intro m hm hc
    obtain ⟨hu, heu⟩ := spec_es_ms hm
    obtain ⟨h0, hprev⟩ := sc.chunkAfterData u hu (by rw [heu]; exact hc)
    have hpl : u - 1 < (pass1 es).length := by rw [pass1_length]; omega
    have hmp : (pass1 es)[u - 1]? = some (pass1 es)[u - 1] := List.getElem?_eq_getElem hpl
    obtain ⟨hup, hep⟩ := spec_es_ms hmp
    have hu1 : u = (u - 1) + 1 := by omega
    have hpath : m.path = ((pass1 es)[u - 1]).path := by
      rw [hu1] at hm
      exact pass1_chunk_path hm hmp hc
    have hlr : lrFrom none es u =
        if es[u - 1].type = "reg" then some es[u - 1].size else lrFrom none es (u - 1) := by
      conv => lhs; rw [hu1]
      exact lrFrom_succ es none (u - 1) _ (List.getElem?_eq_getElem hup)
    rcases hprev with hr | hch
    · refine ⟨u - 1, _, by omega, hmp, by rw [← hep]; exact hr, hpath.symm, ?_⟩
      rw [hlr, if_pos hr, hep]
    · obtain ⟨r, mr, h1, h2, h3, h4, h5⟩ := ih (u - 1) (by omega) _ hmp (by rw [← hep]; exact hch)
      refine ⟨r, mr, by omega, h2, h3, by rw [h4, hpath], ?_⟩
      have : es[u - 1].type ≠ "reg" := by rw [hch]; decide
      rw [hlr, if_neg this, h5]

/-- the size pass 1 (and the db loop) give a chunk row of a file of size `sz` -/
def normSize (sz : Int) (e : Entry) : Int :=
  let cs := if e.chunkSize = 0 then sz - e.chunkOffset else e.chunkSize
  if cs = 0 ∧ e.size ≠ 0 then e.size else cs

theorem chunk_size {es : List Entry} (sc : SpecConformingR es) {u : Nat} {m : MEnt}
    (hm : (pass1 es)[u]? = some m) (hc : m.e.type = "chunk") :
    ∃ r mr, r < u ∧ (pass1 es)[r]? = some mr ∧ mr.e.type = "reg" ∧ mr.path = m.path ∧
      m.chunkSize = normSize mr.e.size m.e := by
  obtain ⟨r, mr, h1, h2, h3, h4, h5⟩ := chunk_owner sc u m hm hc
  refine ⟨r, mr, h1, h2, h3, h4, ?_⟩
  obtain ⟨lp', hst, _, _⟩ := pass1Go_state es [] none u m hm
  have hcs := congrArg MEnt.chunkSize hst
  rw [hcs]
  simp [pass1Ent, h5, hc, normSize]

theorem dbChunkSize_chunk (sz : Int) (e : Entry) (hc : e.type = "chunk") :
    dbChunkSize sz e = normSize sz e := by
  simp [dbChunkSize, normSize, hc]

/-- names of `reg` entries identify them: a chunk carries the name of exactly one file -/
theorem owner_unique {es : List Entry} (sc : SpecConformingR es) {r r' : Nat} {mr mr' : MEnt}
    (h1 : (pass1 es)[r]? = some mr) (h2 : (pass1 es)[r']? = some mr')
    (hc1 : mr.e.type ≠ "chunk") (hc2 : mr'.e.type ≠ "chunk") (hp : mr.path = mr'.path)
    (hd : mr.e.type ≠ "dir" ∨ mr'.e.type ≠ "dir") : r = r' :=
  nondir_unique (spec_treeOK sc) h1 h2 hc1 hc2 hp hd

end SV.Toc.R

namespace SV.Toc.R

/-- chunk entries the db store files under the file named `p` of size `sz` -/
def PpD (p : Path) (sz : Int) (m : MEnt) : Bool :=
  m.e.type = "chunk" ∧ m.path = p ∧ dbChunkSize sz m.e > 0

/-- what `md[id].chunks` of the file at index `r` holds after the first `i` entries -/
def dRowsSpec (ms : List MEnt) (i r : Nat) (mr : MEnt) : List Chunk :=
  (if r < i ∧ mr.e.size > 0 then [dbRow 0 mr.e] else []) ++
    ((ms.take i).filter (PpD mr.path mr.e.size)).map fun m => dbRow mr.e.size m.e

def idOf (ms : List MEnt) (t : Nat) (mt : MEnt) : Key :=
  if mt.e.type = "hardlink" then resolveKey ms t else canon ms (.ent t)

theorem idOf_reg {ms : List MEnt} {t : Nat} {mt : MEnt} (hm : ms[t]? = some mt) (hr : mt.e.type = "reg") :
    idOf ms t mt = .ent t := by
  have h1 : mt.e.type ≠ "hardlink" := by rw [hr]; decide
  have h2 : mt.e.type ≠ "dir" := by rw [hr]; decide
  simp [idOf, h1, canon_of_nondir hm h2]

structure CInv (ms : List MEnt) (i : Nat) (c : CState) : Prop where
  regs : ∀ r mr, ms[r]? = some mr → mr.e.type = "reg" → c.chunks (.ent r) = dRowsSpec ms i r mr
  others : ∀ k, (∀ r mr, ms[r]? = some mr → mr.e.type = "reg" → k ≠ .ent r) → c.chunks k = []
  last : ∀ m, 0 < i → ms[i - 1]? = some m → ∃ t mt, t < i ∧ ms[t]? = some mt ∧ mt.e.type ≠ "chunk" ∧
    mt.path = m.path ∧ c.lastEnt = some (idOf ms t mt) ∧ c.lastEntSize = mt.e.size

theorem dbRow_nonchunk (a b : Int) (e : Entry) (h : e.type ≠ "chunk") : dbRow a e = dbRow b e := by
  simp [dbRow, dbChunkSize, h]

theorem take_succ_filter (ms : List MEnt) (i : Nat) (m : MEnt) (hm : ms[i]? = some m) (P : MEnt → Bool) :
    (ms.take (i + 1)).filter P = (ms.take i).filter P ++ (if P m then [m] else []) := by
  rw [List.take_add_one, hm]
  simp only [Option.toList_some, List.filter_append]
  congr 1
  by_cases h : P m <;> simp [List.filter, h]

theorem cinv {es : List Entry} (sc : SpecConformingR es) :
    ∀ i, i ≤ es.length → CInv (pass1 es) i (cRun (pass1 es) es i) := by
  intro i
  induction i with
  | zero =>
    intro _
    refine ⟨?_, ?_, ?_⟩
    · intro r mr _ _; simp [cRun, cRunFrom, dRowsSpec]
    · intro k _; simp [cRun, cRunFrom]
    · intro m h; omega
  | succ i ih =>
    intro hi
    have hlt : i < es.length := by omega
    have inv := ih (by omega)
    have hltm : i < (pass1 es).length := by rw [pass1_length]; exact hlt
    have hm : (pass1 es)[i]? = some (pass1 es)[i] := List.getElem?_eq_getElem hltm
    obtain ⟨_, hee⟩ := spec_es_ms hm
    rw [cRun_succ _ _ _ hlt, hee]
    generalize hmdef : (pass1 es)[i] = m at hm
    generalize hcdef : cRun (pass1 es) es i = c at inv
    by_cases hc : m.e.type = "chunk"
    · -- a chunk row: filed under the file whose name it carries
      obtain ⟨r0, mr0, hr0, hmr0, hreg0, hpath0, _⟩ := chunk_owner sc i m hm hc
      have hi0 : 0 < i := by omega
      have hpl : i - 1 < (pass1 es).length := by omega
      have hmp : (pass1 es)[i - 1]? = some (pass1 es)[i - 1] := List.getElem?_eq_getElem hpl
      have hmi : (pass1 es)[(i - 1) + 1]? = some m := by
        have : i - 1 + 1 = i := by omega
        rw [this]; exact hm
      have hpp := pass1_chunk_path hmi hmp hc
      obtain ⟨t, mt, ht, hmt, hct, hpt, hle, hls⟩ := inv.last _ hi0 hmp
      have hnc0 : mr0.e.type ≠ "chunk" := by rw [hreg0]; decide
      have htr : t = r0 := owner_unique sc hmt hmr0 hct hnc0 (by rw [hpt, ← hpp, hpath0]) (Or.inr (by rw [hreg0]; decide))
      subst htr
      have hmteq : mt = mr0 := by rw [hmt] at hmr0; exact Option.some.inj hmr0
      subst hmteq
      have hid : idOf (pass1 es) t mt = .ent t := idOf_reg hmt hreg0
      rw [hid] at hle
      have hstep : cStep (pass1 es) c i m.e =
          if dbChunkSize mt.e.size m.e > 0 then cAppend c (.ent t) (dbRow mt.e.size m.e) else c := by
        unfold cStep
        simp only [hc, ↓reduceIte, hls, hle]
      rw [hstep]
      refine ⟨?_, ?_, ?_⟩
      · intro r mr hmr hreg
        unfold dRowsSpec
        rw [take_succ_filter _ i m hm]
        have hri : (r < i + 1 ∧ mr.e.size > 0) ↔ (r < i ∧ mr.e.size > 0) := by
          constructor
          · rintro ⟨h1, h2⟩
            refine ⟨?_, h2⟩
            by_cases hri : r = i
            · subst hri; rw [hm] at hmr; cases hmr; rw [hc] at hreg; exact absurd hreg (by decide)
            · omega
          · rintro ⟨h1, h2⟩; exact ⟨by omega, h2⟩
        simp only [hri]
        have hold := inv.regs r mr hmr hreg
        unfold dRowsSpec at hold
        by_cases hrt : r = t
        · subst hrt
          have hmreq : mr = mt := by rw [hmt] at hmr; exact (Option.some.inj hmr).symm
          subst hmreq
          have hP : PpD mr.path mr.e.size m = decide (dbChunkSize mr.e.size m.e > 0) := by
            simp [PpD, hc, hpath0]
          by_cases hpos : dbChunkSize mr.e.size m.e > 0
          · simp only [hpos, ↓reduceIte, hP, decide_true, List.map_append, List.map_cons, List.map_nil]
            simp only [cAppend, ↓reduceIte, hold, List.append_assoc]
          · simp only [hpos, ↓reduceIte, hP, decide_false, Bool.false_eq_true, List.append_nil]
            exact hold
        · have hP : PpD mr.path mr.e.size m = false := by
            have hnc : mr.e.type ≠ "chunk" := by rw [hreg]; decide
            have : m.path ≠ mr.path := by
              intro e
              exact hrt (owner_unique sc hmr hmt hnc hnc0 (by rw [← e, hpath0]) (Or.inl (by rw [hreg]; decide)))
            simp [PpD, this]
          simp only [hP, Bool.false_eq_true, ↓reduceIte, List.append_nil]
          have hne : Key.ent r ≠ Key.ent t := by intro e; cases e; exact hrt rfl
          split
          · simp only [cAppend, hne, ↓reduceIte]; exact hold
          · exact hold
      · intro k hk
        have hne : k ≠ Key.ent t := hk t mt hmt hreg0
        split
        · simp only [cAppend, hne, ↓reduceIte]; exact inv.others k hk
        · exact inv.others k hk
      · intro m' _ hm'
        simp only [Nat.add_sub_cancel] at hm'
        rw [hm] at hm'; cases hm'
        refine ⟨t, mt, by omega, hmt, hct, hpath0, ?_, ?_⟩
        · rw [hid]; split <;> simp [cAppend, hle]
        · split <;> simp [cAppend, hls]
    · -- an entry of its own
      have hstep : cStep (pass1 es) c i m.e =
          if m.e.type = "reg" ∧ m.e.size > 0 then
            cAppend { c with lastEnt := some (idOf (pass1 es) i m), lastEntSize := m.e.size }
              (idOf (pass1 es) i m) (dbRow c.lastEntSize m.e)
          else { c with lastEnt := some (idOf (pass1 es) i m), lastEntSize := m.e.size } := by
        unfold cStep idOf
        simp only [hc, ↓reduceIte]
      rw [hstep]
      have hnofilter : ∀ (r : Nat) (mr : MEnt), PpD mr.path mr.e.size m = false := by
        intro r mr; simp [PpD, hc]
      refine ⟨?_, ?_, ?_⟩
      · intro r mr hmr hreg
        unfold dRowsSpec
        rw [take_succ_filter _ i m hm, hnofilter r mr]
        simp only [Bool.false_eq_true, ↓reduceIte, List.append_nil]
        have hold := inv.regs r mr hmr hreg
        unfold dRowsSpec at hold
        by_cases hri : r = i
        · subst hri
          have hmreq : mr = m := by rw [hm] at hmr; exact (Option.some.inj hmr).symm
          subst hmreq
          have hidr : idOf (pass1 es) r mr = .ent r := idOf_reg hm hreg
          -- nothing was filed under this name before
          have hempty : ((pass1 es).take r).filter (PpD mr.path mr.e.size) = [] := by
            rw [List.filter_eq_nil_iff]
            intro x hx hP
            simp only [PpD, decide_eq_true_eq] at hP
            obtain ⟨u, hu, hxu⟩ := List.getElem_of_mem hx
            have hul : u < r := by simp at hu; omega
            have hxu' : (pass1 es)[u]? = some x := by
              rw [List.getElem_take] at hxu
              rw [← hxu]; exact List.getElem?_eq_getElem (by omega)
            obtain ⟨r', mr', h1, h2, h3, h4, _⟩ := chunk_owner sc u x hxu' hP.1
            have hnc' : mr'.e.type ≠ "chunk" := by rw [h3]; decide
            have := owner_unique sc h2 hm hnc' hc (by rw [h4, hP.2.1]) (Or.inl (by rw [h3]; decide))
            omega
          rw [hempty] at hold ⊢
          have hnl : ¬ (r < r ∧ mr.e.size > 0) := by omega
          simp only [hnl, ↓reduceIte, List.nil_append, List.map_nil] at hold
          by_cases hpos : mr.e.size > 0
          · have h1 : r < r + 1 ∧ mr.e.size > 0 := ⟨by omega, hpos⟩
            have h2 : mr.e.type = "reg" ∧ mr.e.size > 0 := ⟨hreg, hpos⟩
            simp only [h1, h2, and_self, ↓reduceIte, hidr, cAppend, hold, List.nil_append, List.map_nil,
              List.append_nil]
            rw [dbRow_nonchunk _ 0 _ hc]
          · have h1 : ¬ (r < r + 1 ∧ mr.e.size > 0) := fun h => hpos h.2
            have h2 : ¬ (mr.e.type = "reg" ∧ mr.e.size > 0) := fun h => hpos h.2
            simp only [h1, h2, ↓reduceIte, hold, List.map_nil, List.append_nil]
        · have hri' : (r < i + 1 ∧ mr.e.size > 0) ↔ (r < i ∧ mr.e.size > 0) := by
            constructor
            · rintro ⟨h1, h2⟩; exact ⟨by omega, h2⟩
            · rintro ⟨h1, h2⟩; exact ⟨by omega, h2⟩
          simp only [hri']
          split
          · rename_i hreg'
            have hidi : idOf (pass1 es) i m = .ent i := idOf_reg hm hreg'.1
            have hne : Key.ent r ≠ Key.ent i := by intro e; cases e; exact hri rfl
            simp only [cAppend, hidi, hne, ↓reduceIte]; exact hold
          · exact hold
      · intro k hk
        split
        · rename_i hreg'
          have hidi : idOf (pass1 es) i m = .ent i := idOf_reg hm hreg'.1
          have hne : k ≠ Key.ent i := hk i m hm hreg'.1
          simp only [cAppend, hidi, hne, ↓reduceIte]; exact inv.others k hk
        · exact inv.others k hk
      · intro m' _ hm'
        simp only [Nat.add_sub_cancel] at hm'
        rw [hm] at hm'; cases hm'
        refine ⟨i, m, by omega, hm, hc, rfl, ?_, ?_⟩
        · split <;> simp [cAppend]
        · split <;> simp [cAppend]

end SV.Toc.R

namespace SV.Toc.R

/-- chunk entries the memory store files under the name `p` -/
def Pp (p : Path) (m : MEnt) : Bool := m.e.type = "chunk" ∧ m.path = p

def rowM (m : MEnt) : Chunk :=
  { chunkOffset := m.e.chunkOffset, chunkSize := m.chunkSize, digest := memDigest m.e, offset := m.e.offset }

theorem go_append (p : Path) (l1 l2 : List MEnt) : ∀ (i : Nat) (acc : List Nat),
    memChunkIdxs.go p (l1 ++ l2) i acc = memChunkIdxs.go p l2 (i + l1.length) (memChunkIdxs.go p l1 i acc) := by
  induction l1 with
  | nil => intro i acc; simp [memChunkIdxs.go]
  | cons m rest ih =>
    intro i acc
    simp only [List.cons_append, memChunkIdxs.go, List.length_cons]
    rw [ih]; congr 1; omega

theorem go_nomatch (p : Path) (l : List MEnt) (h : ∀ m ∈ l, m.path ≠ p) : ∀ (i : Nat) (acc : List Nat),
    memChunkIdxs.go p l i acc = acc := by
  induction l with
  | nil => intro i acc; rfl
  | cons m rest ih =>
    intro i acc
    have hm := h m (by simp)
    simp only [memChunkIdxs.go, hm, and_false, false_and, ↓reduceIte]
    exact ih (fun x hx => h x (by simp [hx])) _ _

theorem memRows_append (ms : List MEnt) (a b : List Nat) :
    memRows ms (a ++ b) = memRows ms a ++ memRows ms b := by
  simp [memRows, List.filterMap_append]

theorem memRows_single (ms : List MEnt) (i : Nat) (m : MEnt) (h : ms[i]? = some m) :
    memRows ms [i] = [rowM m] := by
  simp [memRows, h, rowM]

/-- over a suffix without a resetting `reg` entry of that name, the replay appends the chunk rows -/
theorem go_rows (ms : List MEnt) (p : Path) : ∀ (d i : Nat) (acc : List Nat), ms.length - i = d →
    (∀ m ∈ ms.drop i, m.e.type = "reg" → m.path ≠ p) →
    memRows ms (memChunkIdxs.go p (ms.drop i) i acc) =
      memRows ms acc ++ ((ms.drop i).filter (Pp p)).map rowM ∧
    (memChunkIdxs.go p (ms.drop i) i acc).length = acc.length + ((ms.drop i).filter (Pp p)).length := by
  intro d
  induction d with
  | zero =>
    intro i acc hd _
    rw [List.drop_eq_nil_of_le (by omega)]
    simp [memChunkIdxs.go]
  | succ d ih =>
    intro i acc hd hno
    have hlt : i < ms.length := by omega
    rw [List.drop_eq_getElem_cons hlt] at hno ⊢
    have hnoreset : ¬ (ms[i].e.type = "reg" ∧ ms[i].path = p ∧ ms[i].e.chunkSize > 0 ∧ ms[i].e.chunkSize < ms[i].e.size) :=
      fun h => hno ms[i] (List.mem_cons_self ..) h.1 h.2.1
    simp only [memChunkIdxs.go, hnoreset, ↓reduceIte]
    have hrest := ih (i + 1) (if ms[i].e.type = "chunk" ∧ ms[i].path = p then acc ++ [i] else acc)
      (by omega) (fun m hm => hno m (List.mem_cons_of_mem _ hm))
    rw [hrest.1, hrest.2]
    by_cases hP : ms[i].e.type = "chunk" ∧ ms[i].path = p
    · have hPp : Pp p ms[i] = true := by simp [Pp, hP]
      simp only [hP, and_self, ↓reduceIte, List.filter, hPp, List.map_cons, List.length_cons, List.length_append,
        List.length_nil]
      rw [memRows_append, memRows_single ms i ms[i] (List.getElem?_eq_getElem hlt)]
      exact ⟨by simp, by omega⟩
    · have hPp : Pp p ms[i] = false := by simp [Pp]; exact fun h => (hP ⟨h, ·⟩)
      simp only [hP, ↓reduceIte, List.filter, hPp]
      exact ⟨trivial, trivial⟩

end SV.Toc.R

namespace SV.Toc.R

/-- row tables that tile `[0, size)`: the memory store's shortcut for fewer than two rows and the
db store's recomputed table answer alike -/
theorem lookup_rows_agree (size : Int) (m d : List Chunk) (hc : Contig 0 size m)
    (he : d.map eraseSize = m.map eraseSize) (x : Int) (hx : 0 ≤ x) :
    (match m with
     | [] => ChunkTab.single 0 0 ""
     | [r] => ChunkTab.single r.chunkOffset r.chunkSize r.digest
     | _ => ChunkTab.table m).lookup x = (ChunkTab.table (readChunks d size)).lookup x := by
  rw [readChunks_contig d m size hc he]
  match m, hc with
  | [], hc =>
    simp only [Contig] at hc
    simp [ChunkTab.lookup, searchChunk, searchFirst, searchLoop, hx]
  | [r], hc =>
    obtain ⟨h1, h2, h3⟩ := hc
    simp only [ChunkTab.lookup]
    rw [searchChunk_contig [r] 0 size ⟨h1, h2, h3⟩ x]
    simp only [List.find?, covers]
    by_cases hlt : x ≥ r.chunkSize
    · have : ¬ (x < r.chunkOffset + r.chunkSize) := by omega
      simp [hlt, this]
    · have : x < r.chunkOffset + r.chunkSize := by omega
      simp [hlt, this]
  | _ :: _ :: _, _ => rfl

theorem memDigest_eq (e : Entry) (h : digestOK e = true) : memDigest e = e.chunkDigest := by
  unfold memDigest
  unfold digestOK at h
  by_cases hc : e.chunkDigest = ""
  · simp [hc] at h ⊢; exact h
  · simp [hc]

theorem normSize_eff (sz : Int) (e : Entry) (h : e.size = 0) : normSize sz e = effSize sz e := by
  simp [normSize, effSize, h]

/-- chunk rows that pass `contigOK` tile the rest of the file -/
theorem contig_of_ok (size : Int) : ∀ (l : List MEnt) (start : Int),
    (∀ m ∈ l, m.chunkSize = normSize size m.e) → contigOK size start (l.map (·.e)) = true →
    Contig start size (l.map rowM) ∧ (∀ m ∈ l, digestOK m.e = true ∧ normSize size m.e > 0) := by
  intro l
  induction l with
  | nil =>
    intro start _ h
    simp only [List.map_nil, contigOK, decide_eq_true_eq] at h
    exact ⟨h, fun _ hm => by cases hm⟩
  | cons c cs ih =>
    intro start hsz h
    simp only [List.map_cons, contigOK, Bool.and_eq_true, decide_eq_true_eq] at h
    obtain ⟨⟨⟨⟨h1, h2⟩, h3⟩, h4⟩, h5⟩ := h
    have hcs : c.chunkSize = effSize size c.e := by
      rw [hsz c (by simp), normSize_eff _ _ h2]
    obtain ⟨ih1, ih2⟩ := ih (start + effSize size c.e) (fun m hm => hsz m (by simp [hm])) h5
    refine ⟨⟨h1, by simp only [rowM]; rw [hcs]; exact h4, by simp only [rowM]; rw [hcs]; exact ih1⟩, ?_⟩
    intro m hm
    rcases List.mem_cons.mp hm with e | e
    · subst e; exact ⟨h3, by rw [normSize_eff _ _ h2]; exact h4⟩
    · exact ih2 m e

theorem contig_lt_of_ne_nil {rows : List Chunk} {s t : Int} (h : Contig s t rows) (hne : rows ≠ []) : s < t := by
  cases rows with
  | nil => exact absurd rfl hne
  | cons r rs => have := h.2.2.le; have := h.2.1; omega

end SV.Toc.R

namespace SV.Toc.R

theorem mem_take_index {α : Type} {l : List α} {r : Nat} {a : α} (h : a ∈ l.take r) :
    ∃ u, u < r ∧ l[u]? = some a := by
  obtain ⟨u, hu, hxu⟩ := List.getElem_of_mem h
  have hul : u < r ∧ u < l.length := by simp at hu; omega
  refine ⟨u, hul.1, ?_⟩
  rw [List.getElem_take] at hxu
  rw [← hxu]; exact List.getElem?_eq_getElem hul.2

theorem mem_drop_index {α : Type} {l : List α} {k : Nat} {a : α} (h : a ∈ l.drop k) :
    ∃ u, k ≤ u ∧ l[u]? = some a := by
  obtain ⟨u, hu, hxu⟩ := List.getElem_of_mem h
  rw [List.getElem_drop] at hxu
  have : k + u < l.length := by simp at hu; omega
  exact ⟨k + u, by omega, by rw [← hxu]; exact List.getElem?_eq_getElem this⟩

/-- nothing before a file carries its name -/
theorem before_file {es : List Entry} (sc : SpecConformingR es) {r : Nat} {mr : MEnt}
    (hmr : (pass1 es)[r]? = some mr) (hnc : mr.e.type ≠ "chunk") (hnd : mr.e.type ≠ "dir") :
    ∀ m ∈ (pass1 es).take r, m.path ≠ mr.path := by
  intro m hm hp
  obtain ⟨u, hu, hmu⟩ := mem_take_index hm
  by_cases hc : m.e.type = "chunk"
  · obtain ⟨r', mr', h1, h2, h3, h4, _⟩ := chunk_owner sc u m hmu hc
    have hnc' : mr'.e.type ≠ "chunk" := by rw [h3]; decide
    have := owner_unique sc h2 hmr hnc' hnc (by rw [h4, hp]) (Or.inr hnd)
    omega
  · have := owner_unique sc hmu hmr hc hnc hp (Or.inr hnd)
    omega

theorem after_file {es : List Entry} (sc : SpecConformingR es) {r : Nat} {mr : MEnt}
    (hmr : (pass1 es)[r]? = some mr) (hnc : mr.e.type ≠ "chunk") (hnd : mr.e.type ≠ "dir") :
    ∀ m ∈ (pass1 es).drop (r + 1), m.e.type = "reg" → m.path ≠ mr.path := by
  intro m hm hreg hp
  obtain ⟨u, hu, hmu⟩ := mem_drop_index hm
  have hc : m.e.type ≠ "chunk" := by rw [hreg]; decide
  have := owner_unique sc hmu hmr hc hnc hp (Or.inr hnd)
  omega

theorem split_at {α : Type} (l : List α) (r : Nat) (a : α) (h : l[r]? = some a) :
    l = l.take r ++ a :: l.drop (r + 1) ∧ (l.take r).length = r := by
  obtain ⟨hr, e⟩ := get_of_getElem? h
  refine ⟨?_, by simp; omega⟩
  rw [← e, ← List.drop_eq_getElem_cons hr, List.take_append_drop]

/-- `r.chunks[name]` of a file: the `reg` entry itself when it opens a chunked file, then the
chunk entries carrying its name -/
theorem mem_table {es : List Entry} (sc : SpecConformingR es) {r : Nat} {mr : MEnt}
    (hmr : (pass1 es)[r]? = some mr) (hreg : mr.e.type = "reg") :
    memRows (pass1 es) (memChunkIdxs (pass1 es) mr.path) =
      (if mr.e.chunkSize > 0 ∧ mr.e.chunkSize < mr.e.size then [rowM mr] else []) ++
        ((pass1 es).filter (Pp mr.path)).map rowM ∧
    (memChunkIdxs (pass1 es) mr.path).length =
      (if mr.e.chunkSize > 0 ∧ mr.e.chunkSize < mr.e.size then 1 else 0) +
        ((pass1 es).filter (Pp mr.path)).length := by
  have hnc : mr.e.type ≠ "chunk" := by rw [hreg]; decide
  obtain ⟨hsplit, hlen⟩ := split_at (pass1 es) r mr hmr
  have hbefore := before_file sc hmr hnc (by rw [hreg]; decide)
  have hafter := after_file sc hmr hnc (by rw [hreg]; decide)
  -- the filter sees only what follows the file
  have hfilter : (pass1 es).filter (Pp mr.path) = ((pass1 es).drop (r + 1)).filter (Pp mr.path) := by
    conv => lhs; rw [hsplit]
    rw [List.filter_append, List.filter_cons]
    have h1 : ((pass1 es).take r).filter (Pp mr.path) = [] := by
      rw [List.filter_eq_nil_iff]
      intro x hx hP
      simp only [Pp, decide_eq_true_eq] at hP
      exact hbefore x hx hP.2
    have h2 : Pp mr.path mr = false := by simp [Pp, hnc]
    rw [h1, h2]; simp
  have hidx : memChunkIdxs (pass1 es) mr.path =
      memChunkIdxs.go mr.path ((pass1 es).drop (r + 1)) (r + 1)
        (if mr.e.chunkSize > 0 ∧ mr.e.chunkSize < mr.e.size then [r] else []) := by
    unfold memChunkIdxs
    have h0 : memChunkIdxs.go mr.path (pass1 es) 0 [] =
        memChunkIdxs.go mr.path ((pass1 es).take r ++ mr :: (pass1 es).drop (r + 1)) 0 [] :=
      congrArg (fun l => memChunkIdxs.go mr.path l 0 []) hsplit
    rw [h0, go_append, go_nomatch _ _ hbefore, hlen]
    simp [memChunkIdxs.go, hreg]
  have hrows := go_rows (pass1 es) mr.path ((pass1 es).length - (r + 1)) (r + 1)
    (if mr.e.chunkSize > 0 ∧ mr.e.chunkSize < mr.e.size then [r] else []) rfl hafter
  rw [hidx, hrows.1, hrows.2, hfilter]
  constructor
  · congr 1
    split
    · exact memRows_single _ r mr hmr
    · rfl
  · congr 1
    split <;> rfl

end SV.Toc.R

namespace SV.Toc.R

theorem pass1_nonchunk_size {es : List Entry} {r : Nat} {mr : MEnt}
    (hmr : (pass1 es)[r]? = some mr) (hnc : mr.e.type ≠ "chunk") : mr.chunkSize = regEff mr.e := by
  obtain ⟨lp', hst, _, _⟩ := pass1Go_state es [] none r mr hmr
  have hcs := congrArg MEnt.chunkSize hst
  rw [hcs]
  simp only [pass1Ent, hnc, false_and, ↓reduceIte, regEff]
  by_cases h0 : mr.e.chunkSize = 0
  · by_cases hs : mr.e.size = 0
    · simp [h0, hs]
    · simp [h0, hs]
  · simp [h0]

/-- The chunk tables of one regular file in both stores: same answer at every file offset, same
first blob offset. -/
theorem file_agree {es : List Entry} (sc : SpecConformingR es) {r : Nat} {mr : MEnt}
    (hmr : (pass1 es)[r]? = some mr) (hreg : mr.e.type = "reg") :
    (∀ x, 0 ≤ x →
      (if (memChunkIdxs (pass1 es) mr.path).length < 2 then
          ChunkTab.single mr.e.chunkOffset mr.chunkSize (memDigest mr.e)
        else ChunkTab.table (memRows (pass1 es) (memChunkIdxs (pass1 es) mr.path))).lookup x =
      (ChunkTab.table (readChunks ((cRun (pass1 es) es es.length).chunks (.ent r)) mr.e.size)).lookup x) ∧
    (((readChunks ((cRun (pass1 es) es es.length).chunks (.ent r)) mr.e.size).head?.map (·.offset)).getD 0
      = mr.e.offset) := by
  have hnc : mr.e.type ≠ "chunk" := by rw [hreg]; decide
  obtain ⟨hr, hmre⟩ := get_of_getElem? hmr
  have hfile := sc.files r hr (by rw [hmre]; exact hreg)
  rw [hmre] at hfile
  have hchunksOf : chunksOf (pass1 es) mr.path = ((pass1 es).filter (Pp mr.path)).map (·.e) := rfl
  rw [hchunksOf] at hfile
  -- sizes of the chunk rows
  have hsz : ∀ m ∈ (pass1 es).filter (Pp mr.path), m.chunkSize = normSize mr.e.size m.e := by
    intro m hm
    obtain ⟨hmem, hP⟩ := List.mem_filter.mp hm
    simp only [Pp, decide_eq_true_eq] at hP
    obtain ⟨u, _, hmu⟩ := List.getElem_of_mem hmem
    have hmu' : (pass1 es)[u]? = some m := by rw [← hmu]; exact List.getElem?_eq_getElem _
    obtain ⟨r', mr', _, h2, h3, h4, h5⟩ := chunk_size sc hmu' hP.1
    have hnc' : mr'.e.type ≠ "chunk" := by rw [h3]; decide
    have := owner_unique sc h2 hmr hnc' hnc (by rw [h4, hP.2]) (Or.inl (by rw [h3]; decide))
    subst this
    rw [hmr] at h2; cases h2
    exact h5
  obtain ⟨htab, hlen⟩ := mem_table sc hmr hreg
  have hcinv := cinv sc es.length (Nat.le_refl _)
  have hdb := hcinv.regs r mr hmr hreg
  have htake : (pass1 es).take es.length = pass1 es := by
    rw [← pass1_length es]; exact List.take_length
  unfold dRowsSpec at hdb
  rw [htake] at hdb
  have hrl : r < es.length := by rw [← pass1_length es]; exact hr
  simp only [fileOK, Bool.and_eq_true, decide_eq_true_eq] at hfile
  obtain ⟨hsize0, hrest⟩ := hfile
  by_cases hs0 : mr.e.size = 0
  · -- an empty file: no rows on either side
    simp only [hs0, ↓reduceIte, Bool.and_eq_true, List.isEmpty_iff, List.map_eq_nil_iff,
      decide_eq_true_eq] at hrest
    obtain ⟨⟨hnil, hcs0⟩, hoff0⟩ := hrest
    have hnoreset : ¬ (mr.e.chunkSize > 0 ∧ mr.e.chunkSize < mr.e.size) := by omega
    rw [hnil] at hlen htab
    simp only [hnoreset, ↓reduceIte, List.length_nil, Nat.add_zero] at hlen
    have hfd : (pass1 es).filter (PpD mr.path mr.e.size) = [] := by
      rw [List.filter_eq_nil_iff]
      intro x hx hP
      have : x ∈ (pass1 es).filter (Pp mr.path) := by
        simp only [PpD, decide_eq_true_eq] at hP
        exact List.mem_filter.mpr ⟨hx, by simp [Pp, hP.1, hP.2.1]⟩
      rw [hnil] at this; cases this
    have hnl : ¬ (r < es.length ∧ mr.e.size > 0) := by omega
    rw [hfd] at hdb
    simp only [hnl, ↓reduceIte, List.map_nil, List.append_nil] at hdb
    rw [hdb, hlen]
    have hmcs : mr.chunkSize = 0 := by
      rw [pass1_nonchunk_size hmr hnc]; simp [regEff, hcs0, hs0]
    refine ⟨?_, by simp [readChunks, hoff0]⟩
    intro x hx
    rw [if_pos (by omega)]
    have hr0 : readChunks [] mr.e.size = [] := rfl
    rw [hr0]
    simp only [ChunkTab.lookup, hmcs, searchChunk, List.getElem?_nil]
    rw [if_pos hx]
  · -- rows tile the file
    simp only [hs0, ↓reduceIte, Bool.and_eq_true, decide_eq_true_eq] at hrest
    obtain ⟨⟨⟨hdg, hco0⟩, hreff⟩, hcontig⟩ := hrest
    have hspos : mr.e.size > 0 := by omega
    obtain ⟨hct, hall⟩ := contig_of_ok mr.e.size _ (regEff mr.e) hsz hcontig
    have hmcs := pass1_nonchunk_size hmr hnc
    -- the full memory table
    have hcontigAll : Contig 0 mr.e.size (rowM mr :: ((pass1 es).filter (Pp mr.path)).map rowM) := by
      refine ⟨hco0, by simp only [rowM]; rw [hmcs]; exact hreff, ?_⟩
      simp only [rowM]; rw [hmcs]; simpa using hct
    -- the db rows
    have hfd : (pass1 es).filter (PpD mr.path mr.e.size) = (pass1 es).filter (Pp mr.path) := by
      apply List.filter_congr
      intro x hx
      by_cases hP : Pp mr.path x = true
      · have hxm : x ∈ (pass1 es).filter (Pp mr.path) := List.mem_filter.mpr ⟨hx, hP⟩
        have hpos := (hall x hxm).2
        simp only [Pp, decide_eq_true_eq] at hP
        simp only [PpD, Pp, hP.1, hP.2, dbChunkSize_chunk _ _ hP.1, hpos, and_self, decide_true]
      · simp only [Bool.not_eq_true] at hP
        rw [hP]
        simp only [Pp, decide_eq_false_iff_not] at hP
        simp only [PpD, decide_eq_false_iff_not]
        intro h; exact hP ⟨h.1, h.2.1⟩
    have hnl : r < es.length ∧ mr.e.size > 0 := ⟨hrl, hspos⟩
    rw [hfd] at hdb
    simp only [hnl, and_self, ↓reduceIte, List.singleton_append] at hdb
    have herase : ((cRun (pass1 es) es es.length).chunks (.ent r)).map eraseSize =
        (rowM mr :: ((pass1 es).filter (Pp mr.path)).map rowM).map eraseSize := by
      rw [hdb]
      simp only [List.map_cons, List.map_map, List.cons.injEq]
      refine ⟨?_, ?_⟩
      · simp [eraseSize, dbRow, rowM, memDigest_eq _ hdg]
      · apply List.map_congr_left
        intro x hx
        simp [eraseSize, dbRow, rowM, memDigest_eq _ (hall x hx).1]
    have hrc := readChunks_contig _ _ mr.e.size hcontigAll herase
    refine ⟨?_, by rw [hrc]; simp [rowM]⟩
    intro x hx
    have hla := lookup_rows_agree mr.e.size _ _ hcontigAll herase x hx
    rw [← hla]
    -- which shape the memory store uses
    cases hCs : (pass1 es).filter (Pp mr.path) with
    | nil =>
      rw [hCs] at hcontig hlen htab hcontigAll
      simp only [List.map_nil, contigOK, decide_eq_true_eq] at hcontig
      have hnoreset : ¬ (mr.e.chunkSize > 0 ∧ mr.e.chunkSize < mr.e.size) := by
        intro ⟨h1, h2⟩
        simp only [regEff] at hcontig
        split at hcontig <;> omega
      simp only [hnoreset, ↓reduceIte, List.length_nil, Nat.add_zero] at hlen
      rw [hlen]
      simp only [Nat.zero_lt_succ, ↓reduceIte, List.map_nil, rowM]
    | cons c cs =>
      rw [hCs] at hlen htab hct
      have hlt := contig_lt_of_ne_nil hct (by simp)
      have hreset : mr.e.chunkSize > 0 ∧ mr.e.chunkSize < mr.e.size := by
        simp only [regEff] at hlt hreff
        split at hlt <;> omega
      simp only [hreset, and_self, ↓reduceIte, List.length_cons] at hlen htab
      have hge : ¬ (memChunkIdxs (pass1 es) mr.path).length < 2 := by omega
      rw [if_neg hge, htab]
      simp only [List.map_cons, List.singleton_append]

end SV.Toc.R

namespace SV.Toc.R


/-! # Part 7: the two trees of a SpecConformingR TOC agree -/

theorem getKid_nil (b : String) : getKid b [] = none := rfl

theorem final_states {es : List Entry} (sc : SpecConformingR es) :
    ∃ smF sdF, pass2 (pass1 es) (enumFrom' 0 (pass1 es)) { nl := initNl (pass1 es) } = some smF ∧
      dRun (enumFrom' 0 es) dInit = .inl sdF ∧
      Inv (pass1 es) es.length smF sdF [] (fun _ => 0) ∧
      cproj sdF = cRun (pass1 es) es es.length ∧ [] ∈ smF.imps ∧ HlOK (pass1 es) es.length smF ∧
      MK (pass1 es) es.length smF := by
  have ok := spec_treeOK sc
  obtain ⟨smF, sdF, h1, h2, inv, hcp, hhl⟩ := run_sim ok (spec_first sc) es.length 0
    { nl := initNl (pass1 es) } dInit (by omega) (Nat.zero_le _) (init_inv _) rfl
    (fun ⟨j, _, hj, _⟩ => by omega) (fun _ h => by cases h)
  have hmk : MK (pass1 es) es.length smF := by
    have := mk_run ok (pass1 es).length 0 _ smF (by omega) (mk_init _) h1
    rw [pass1_length] at this; exact this
  simp only [List.drop_zero] at h1 h2
  refine ⟨smF, sdF, h1, h2, inv, hcp, ?_, hhl, hmk⟩
  -- some entry has been linked below the root, so the root directory exists
  obtain ⟨i, hi, hci⟩ := sc.nonEmpty
  have hil : i < (pass1 es).length := by rw [pass1_length]; exact hi
  have hm : (pass1 es)[i]? = some (pass1 es)[i] := List.getElem?_eq_getElem hil
  obtain ⟨_, hee⟩ := spec_es_ms hm
  have hc : ((pass1 es)[i]).e.type ≠ "chunk" := by rw [← hee]; exact hci
  have hnc : NonChunkAt (pass1 es) i ((pass1 es)[i]).path := ⟨_, hm, hc, rfl⟩
  have hne : ((pass1 es)[i]).path ≠ [] := fun e => ok.noRoot i (e ▸ hnc)
  obtain ⟨f, hf, hfi⟩ := firstIdx_isSome hnc
  have hw := inv.walk ((pass1 es)[i]).path
  simp only [List.not_mem_nil, ↓reduceIte] at hw
  have hlook : look (pass1 es) es.length smF.imps ((pass1 es)[i]).path = some (resolveKey (pass1 es) f) := by
    unfold look; rw [if_neg hne, hf]
    have : f < es.length := by omega
    simp [this]
  rw [hlook] at hw
  apply inv.rootImp
  intro hnil
  have hk := inv.kids .root trivial
  rw [hnil] at hk
  have hk' : sdF.kids .root = [] := hk
  cases hp : ((pass1 es)[i]).path with
  | nil => exact hne hp
  | cons b rest =>
    rw [hp] at hw
    simp only [walkKids, hk', getKid_nil] at hw
    cases hw

theorem memTree_accept {es : List Entry} {smF : MState}
    (h : pass2 (pass1 es) (enumFrom' 0 (pass1 es)) { nl := initNl (pass1 es) } = some smF)
    (hroot : [] ∈ smF.imps) (hl : lastIdx (pass1 es) [] = none)
    (hsrc : ∀ org, org ∈ smF.hlSources → smF.kids org = []) :
    memTree es = .accept { root := .root, node := memNode (pass1 es) smF } := by
  unfold memTree
  simp only [h]
  have hany : (smF.hlSources.any fun org => ¬ (smF.kids org).isEmpty) = false := by
    rw [List.any_eq_false]
    intro org horg
    simp [hsrc org horg]
  simp only [hany, Bool.false_eq_true, ↓reduceIte]
  have hlen : lenM (pass1 es) smF ≠ 0 := by
    unfold lenM
    have : 0 < smF.imps.length := List.length_pos_of_mem hroot
    omega
  simp only [hlen, ↓reduceIte]
  have : mLookupResolved (pass1 es) smF [] = some .root := by
    unfold mLookupResolved mLookup
    rw [hl]
    simp only [hroot, ↓reduceIte, impKey]
    unfold mGetSource
    simp [keyType]
  rw [this]

theorem dbTree_accept {es : List Entry} {sdF : DState} (h : dRun (enumFrom' 0 es) dInit = .inl sdF) :
    dbTree es = .accept { root := .root, node := dbNode sdF } := by
  unfold dbTree dInitNodes
  rw [h]

theorem mGetSource_nonhardlink (ms : List MEnt) (s : MState) (bound n : Nat) (k : Key)
    (h : keyType ms k ≠ "hardlink") : mGetSource ms s bound n k = some k := by
  unfold mGetSource; simp [h]

theorem mLookupResolved_ent {ms : List MEnt} (s : MState) {j : Nat} {m : MEnt}
    (hm : ms[j]? = some m) (hl : lastIdx ms m.path = some j) (hh : m.e.type ≠ "hardlink") :
    mLookupResolved ms s m.path = some (.ent j) := by
  unfold mLookupResolved mLookup
  rw [hl]
  exact mGetSource_nonhardlink ms s _ 0 _ (by rw [keyType_ent hm]; exact hh)

theorem validTypes_cases {t : String} (h : t ∈ validTypes) (hc : t ≠ "chunk") (hh : t ≠ "hardlink") :
    t = "reg" ∨ t = "dir" ∨ t = "symlink" ∨ t = "char" ∨ t = "block" ∨ t = "fifo" := by
  simp only [validTypes, List.mem_cons, List.not_mem_nil, or_false] at h
  rcases h with h | h | h | h | h | h | h | h
  · exact Or.inr (Or.inl h)
  · exact Or.inl h
  · exact Or.inr (Or.inr (Or.inl h))
  · exact absurd h hh
  · exact Or.inr (Or.inr (Or.inr (Or.inl h)))
  · exact Or.inr (Or.inr (Or.inr (Or.inr (Or.inl h))))
  · exact Or.inr (Or.inr (Or.inr (Or.inr (Or.inr h))))
  · exact absurd h hc

theorem readChunks_nil (size : Int) : readChunks [] size = [] := rfl

/-- at the end every directory name has been counted by the memory store -/
theorem pendOwn_end {ms : List MEnt} {n : Nat} (hn : ms.length ≤ n) (k : Key)
    (hk : ∀ f, k = .ent f → f < n) : pendOwn ms n k = 0 := by
  cases k with
  | root => rfl
  | imp p => rfl
  | ent f =>
    have hf := hk f rfl
    simp only [pendOwn]
    split
    · rename_i L hL
      have : L < n := by
        simp only [lastOf] at hL
        split at hL
        · split at hL
          · split at hL
            · rename_i L' hL'
              cases hL
              obtain ⟨mL, hmL, _⟩ := lastIdx_nonChunk hL'
              have := (List.getElem?_eq_some_iff.mp hmL).1
              omega
            · cases hL; exact hf
          · cases hL; exact hf
        · cases hL; exact hf
      have h' : ¬ n ≤ L := by omega
      simp [h']
    · rfl

/-- the memory-side entry standing for a db node: the last entry of the name -/
theorem mem_entry {ms : List MEnt} (ok : TreeOK ms) {f : Nat} {mf : MEnt}
    (hmf : ms[f]? = some mf) (hcf : mf.e.type ≠ "chunk") (hhf : mf.e.type ≠ "hardlink") :
    ∃ L mL, ms[L]? = some mL ∧ lastOf ms (.ent f) = .ent L ∧ lastIdx ms mL.path = some L ∧
      mL.e.type = mf.e.type ∧ attrOfEntry mL.e 0 = attrOfEntry mf.e 0 ∧ (mf.e.type ≠ "dir" → L = f) := by
  by_cases hd : mf.e.type = "dir"
  · obtain ⟨_, L, _, hL, _, _⟩ := dir_first_last hmf hd
    obtain ⟨mL, hmL, hcL, hpL⟩ := lastIdx_nonChunk hL
    obtain ⟨h1, h2⟩ := same_name_dir ok hmf hmL hcf hcL hpL.symm hd
    exact ⟨L, mL, hmL, lastOf_of_dir hmf hd hL, by rw [hpL]; exact hL, by rw [h1, hd], h2.symm,
      fun h => absurd hd h⟩
  · exact ⟨f, mf, hmf, lastOf_of_nondir hmf hd, (nondir_first_last ok hmf hcf hd).2, rfl, rfl, fun _ => rfl⟩

/-- every node that exists is described alike by both stores -/
theorem node_agree {es : List Entry} (sc : SpecConformingR es) {smF : MState} {sdF : DState}
    (inv : Inv (pass1 es) es.length smF sdF [] (fun _ => 0))
    (hcp : cproj sdF = cRun (pass1 es) es es.length) (hroot : [] ∈ smF.imps)
    (k : Key) (hk : Created (pass1 es) es.length smF.imps k) :
    NodeAgree (canon (pass1 es)) (memNode (pass1 es) smF (lastOf (pass1 es) k)) (dbNode sdF k) := by
  have ok := spec_treeOK sc
  obtain ⟨b, hb, hbe, hbn⟩ := inv.node k hk
  have hnl : readNumLink b = smF.nl (lastOf (pass1 es) k) := by
    rw [hbn, pendOwn_end (by rw [pass1_length]; exact Nat.le_refl _) k (by
      intro f e; rw [e] at hk; exact hk.1)]
    unfold nlEff; simp [hroot]
  have hchunks : sdF.chunks = (cRun (pass1 es) es es.length).chunks := by
    have := congrArg CState.chunks hcp; exact this
  have hcinv := cinv sc es.length (Nat.le_refl _)
  -- children exist
  have herr2 : ((sdF.kids k).any fun kv => (sdF.nodes kv.2).isNone) = false := by
    rw [List.any_eq_false]
    intro kv hkv
    obtain ⟨b', hb', _, _⟩ := inv.node kv.2 (inv.kidsCreated k kv hkv)
    simp [hb']
  have hdb : dbNode sdF k =
      { attr := readAttr b,
        offset := ((readChunks (sdF.chunks k) (readAttr b).size).head?.map (·.offset)).getD 0,
        openOk := fmIsRegular (readAttr b).mode,
        chunks := .table (readChunks (sdF.chunks k) (readAttr b).size),
        kids := sdF.kids k,
        kidsErr := (sdF.kids k).any fun kv => (sdF.nodes kv.2).isNone } := by
    unfold dbNode; rw [hb]
  -- children maps
  have hkids : sdF.kids k = (smF.kids (lastOf (pass1 es) k)).map (mapKV (canon (pass1 es))) := by
    obtain ⟨h1, h2⟩ := canon_lastOf ok hk
    by_cases hdir : IsDirKey (pass1 es) k
    · have := inv.kids _ (h2 hdir)
      rw [h1] at this
      exact this
    · rw [inv.noKids k (fun h => hdir h.2)]
      have hnl : ¬ MLiveDir (pass1 es) (lastOf (pass1 es) k) := by
        cases k with
        | root => exact absurd trivial hdir
        | imp p => exact absurd trivial hdir
        | ent f =>
          obtain ⟨_, mf, hmf, _, _, _⟩ := hk
          have hnd : mf.e.type ≠ "dir" := fun e => hdir ⟨mf, hmf, e⟩
          rw [lastOf_of_nondir hmf hnd]
          rintro ⟨m', h1', h2', _⟩
          rw [hmf] at h1'; cases h1'; exact hnd h2'
      rw [inv.memNoKids _ hnl]; rfl
  cases k with
  | ent f =>
    obtain ⟨hj, mf, hmf, hcf, hhf, hff⟩ := hk
    obtain ⟨j, m, hm, hlo, hlast, hty', hat, hLf⟩ := mem_entry ok hmf hcf hhf
    have hc : m.e.type ≠ "chunk" := by rw [hty']; exact hcf
    have hh : m.e.type ≠ "hardlink" := by rw [hty']; exact hhf
    rw [hlo] at hnl hkids ⊢
    obtain ⟨hjl, hee⟩ := spec_es_ms hm
    have hx : (m.e.xattrs.map Prod.fst).Nodup := by rw [← hee]; exact sc.xattrs j hjl
    have ha0 : attr0 (pass1 es) (.ent f) = attrOfEntry m.e (if m.e.type = "dir" then 2 else 1) := by
      have : attr0 (pass1 es) (.ent f) = attrOfEntry mf.e (if mf.e.type = "dir" then 2 else 1) := by
        simp [attr0, hmf]
      rw [this, hty', attrOfEntry_nl mf.e, attrOfEntry_nl m.e, hat]
    obtain ⟨hattr, hmode, hsize⟩ := attr_agree b (attr0 (pass1 es) (.ent f)) (smF.nl (.ent j)) hbe hnl
      (attr0_mode_lt _ _) (by rw [ha0]; exact hx)
    have hres := mLookupResolved_ent smF hm hlast hh
    have hmt : memChunkTab (pass1 es) smF (.ent j) =
        if m.e.isData then
          (if (memChunkIdxs (pass1 es) m.path).length < 2 then
            ChunkTab.single m.e.chunkOffset m.chunkSize (memDigest m.e)
           else ChunkTab.table (memRows (pass1 es) (memChunkIdxs (pass1 es) m.path)))
        else ChunkTab.none := by
      unfold memChunkTab
      simp only [keyPath, hm, Option.map_some, Option.getD_some, hres]
    have hm_attr : (memNode (pass1 es) smF (.ent j)).attr = attrOfEntry m.e (smF.nl (.ent j)) := by
      simp [memNode, hm]
    have hm_off : (memNode (pass1 es) smF (.ent j)).offset = m.e.offset := by simp [memNode, hm]
    have hm_open : (memNode (pass1 es) smF (.ent j)).openOk = decide (m.e.type = "reg") := by
      simp only [memNode, hm, hres, keyType_ent hm]
    have hm_chunks : (memNode (pass1 es) smF (.ent j)).chunks = memChunkTab (pass1 es) smF (.ent j) := by
      simp [memNode, hm]
    have hm_kids : (memNode (pass1 es) smF (.ent j)).kids = smF.kids (.ent j) := by simp [memNode, hm]
    have hm_ok : (memNode (pass1 es) smF (.ent j)).ok = true := by simp [memNode, hm]
    have hm_err : (memNode (pass1 es) smF (.ent j)).kidsErr = false := by simp [memNode, hm]
    rw [hdb]
    have hsz' : (readAttr b).size = m.e.size := by rw [hsize, ha0]; rfl
    have hmd' : (readAttr b).mode = goFileMode m.e.type m.e.mode := by rw [hmode, ha0]; rfl
    have hty : m.e.type ∈ validTypes := by rw [← hee]; exact sc.types j hjl
    have hothers : m.e.type ≠ "reg" → (cRun (pass1 es) es es.length).chunks (.ent f) = [] := by
      intro hreg
      exact hcinv.others (.ent f) (by
        intro r mr hmr hregr e; cases e; rw [hmf] at hmr; cases hmr; rw [hty'] at hreg; exact hreg hregr)
    refine ⟨hm_ok, rfl, hm_err, herr2, by rw [hm_kids]; exact hkids, ?_, ?_, ?_, ?_, ?_, ?_⟩
    · rw [hm_attr]; show _ = normalise (readAttr b); rw [hattr, ha0]; rfl
    · rw [hm_attr]; show _ = (readAttr b).mode; rw [hmd']; rfl
    · rw [hm_attr]; show _ = (readAttr b).size; rw [hsz']; rfl
    · -- GetOffset
      rw [hm_off]
      show m.e.offset = _
      rw [hsz', hchunks]
      by_cases hreg : m.e.type = "reg"
      · have hjf : j = f := hLf (by rw [← hty', hreg]; decide)
        subst hjf
        exact (file_agree sc hm hreg).2.symm
      · rw [hothers hreg, readChunks_nil]
        have : m.e.offset = 0 := by rw [← hee]; exact sc.noOffset j hjl (by rw [hee]; exact hreg) (by rw [hee]; exact hc)
        simp [this]
    · -- OpenFile
      rw [hm_open]
      show _ = fmIsRegular (readAttr b).mode
      rw [hmd', fmIsRegular_go]
      rcases validTypes_cases hty hc hh with h | h | h | h | h | h <;> rw [h] <;> decide
    · -- ChunkEntryForOffset
      intro x hx0
      rw [hm_chunks]
      show (memChunkTab (pass1 es) smF (.ent j)).lookup x = _
      rw [hmt, hsz', hchunks]
      by_cases hreg : m.e.type = "reg"
      · have hd : m.e.isData = true := by simp [Entry.isData, hreg]
        rw [hd]
        have hjf : j = f := hLf (by rw [← hty', hreg]; decide)
        subst hjf
        exact (file_agree sc hm hreg).1 x hx0
      · have hd : m.e.isData = false := by simp [Entry.isData, hreg, hc]
        rw [hd, hothers hreg, readChunks_nil]
        simp [ChunkTab.lookup, searchChunk]
  | root =>
    have hlo : lastOf (pass1 es) .root = .root := rfl
    rw [hlo] at hnl hkids ⊢
    obtain ⟨hattr, hmode, hsize⟩ := attr_agree b (attr0 (pass1 es) .root) (smF.nl .root) hbe hnl
      (attr0_mode_lt _ _) (by simp [attr0, rootAttr])
    have hnotreg : ∀ r mr, (pass1 es)[r]? = some mr → mr.e.type = "reg" → Key.root ≠ .ent r := by
      intro r mr _ _ e; cases e
    have hmtab : memChunkTab (pass1 es) smF .root = .none := by
      unfold memChunkTab mLookupResolved mLookup
      have hl : lastIdx (pass1 es) [] = none := (lastIdx_eq_none_iff _ []).mpr ok.noRoot
      simp only [keyPath, hl, hroot, ↓reduceIte, impKey]
      rw [mGetSource_nonhardlink _ _ _ _ _ (by simp [keyType])]
    rw [hdb]
    have hm0 : (attr0 (pass1 es) .root).mode = modeDir + 0o755 := rfl
    refine ⟨rfl, rfl, rfl, herr2, hkids, ?_, ?_, ?_, ?_, ?_, ?_⟩
    · rw [hattr]; simp only [memNode, attr0, rootAttr]; rfl
    · rw [hmode]; simp only [memNode, attr0, rootAttr]; decide
    · rw [hsize]; rfl
    · show (0 : Int) = _
      rw [hchunks, hcinv.others .root hnotreg, readChunks_nil]; rfl
    · show false = fmIsRegular (readAttr b).mode
      rw [hmode, hm0]; decide
    · intro x _
      show (memChunkTab (pass1 es) smF .root).lookup x = _
      rw [hmtab, hchunks, hcinv.others .root hnotreg, readChunks_nil]
      simp [ChunkTab.lookup, searchChunk]
  | imp p =>
    have hlo : lastOf (pass1 es) (.imp p) = .imp p := rfl
    rw [hlo] at hnl hkids ⊢
    obtain ⟨hp, hpne⟩ := hk
    obtain ⟨hattr, hmode, hsize⟩ := attr_agree b (attr0 (pass1 es) (.imp p)) (smF.nl (.imp p)) hbe hnl
      (attr0_mode_lt _ _) (by simp [attr0, rootAttr])
    have hnotreg : ∀ r mr, (pass1 es)[r]? = some mr → mr.e.type = "reg" → Key.imp p ≠ .ent r := by
      intro r mr _ _ e; cases e
    have hmtab : memChunkTab (pass1 es) smF (.imp p) = .none := by
      unfold memChunkTab mLookupResolved mLookup
      simp only [keyPath, inv.impsNone p hp, hp, ↓reduceIte, impKey, hpne]
      rw [mGetSource_nonhardlink _ _ _ _ _ (by simp [keyType])]
    rw [hdb]
    have hm0 : (attr0 (pass1 es) (.imp p)).mode = modeDir + 0o755 := rfl
    refine ⟨rfl, rfl, rfl, herr2, hkids, ?_, ?_, ?_, ?_, ?_, ?_⟩
    · rw [hattr]; simp only [memNode, attr0, rootAttr]; rfl
    · rw [hmode]; simp only [memNode, attr0, rootAttr]; decide
    · rw [hsize]; rfl
    · show (0 : Int) = _
      rw [hchunks, hcinv.others _ hnotreg, readChunks_nil]; rfl
    · show false = fmIsRegular (readAttr b).mode
      rw [hmode, hm0]; decide
    · intro x _
      show (memChunkTab (pass1 es) smF (.imp p)).lookup x = _
      rw [hmtab, hchunks, hcinv.others _ hnotreg, readChunks_nil]
      simp [ChunkTab.lookup, searchChunk]


theorem memNode_kids' (ms : List MEnt) (s : MState) (k : Key) :
    (memNode ms s k).kids = s.kids k ∨ (memNode ms s k).kids = [] := by
  cases k with
  | root => exact Or.inl rfl
  | imp p => exact Or.inl rfl
  | ent j =>
    simp only [memNode]
    split
    · exact Or.inl rfl
    · exact Or.inr rfl

/-- keys of the memory tree: the memory-side names of the nodes that exist -/
def MemKey (ms : List MEnt) (n : Nat) (imps : List Path) (km : Key) : Prop :=
  ∃ kd, Created ms n imps kd ∧ km = lastOf ms kd

/-- a child held by the memory store is the memory-side name of its db node -/
theorem kid_is_last {ms : List MEnt} (ok : TreeOK ms) {sm : MState} (mk : MK ms ms.length sm)
    {k : Key} {kv : String × Key} (hkv : kv ∈ sm.kids k) : kv.2 = lastOf ms (canon ms kv.2) := by
  cases hc : kv.2 with
  | root => rfl
  | imp p => rfl
  | ent j =>
    cases hm : ms[j]? with
    | none => simp [canon, lastOf, hm]
    | some mj =>
      by_cases hd : mj.e.type = "dir"
      · obtain ⟨h1, _, _, h4⟩ := mk.last k kv j mj hkv hc hm hd
        have hnc : NonChunkAt ms j mj.path := ⟨mj, hm, dir_nonchunk hd, rfl⟩
        obtain ⟨L, hL, hjL⟩ := lastIdx_isSome hnc
        obtain ⟨mL, hmL, hcL, hpL⟩ := lastIdx_nonChunk hL
        have hLn := (List.getElem?_eq_some_iff.mp hmL).1
        have hLj : L = j := by
          rcases Nat.lt_or_ge j L with h | h
          · exact absurd hpL (h4 L mL h hLn hmL hcL)
          · omega
        subst hLj
        exact (lastOf_canon ok (km := .ent L) ⟨mj, hm, hd, hL⟩).symm
      · rw [canon_of_nondir hm hd, lastOf_of_nondir hm hd]

/-- Both interpreters accept a SpecConformingR TOC and build trees that agree node by node, up to
the renaming of directories announced more than once. -/
theorem trees_agree {es : List Entry} (sc : SpecConformingR es) :
    ∃ smF sdF,
      memTree es = .accept { root := .root, node := memNode (pass1 es) smF } ∧
      dbTree es = .accept { root := .root, node := dbNode sdF } ∧
      TreesAgree (canon (pass1 es)) { root := .root, node := memNode (pass1 es) smF }
        { root := .root, node := dbNode sdF } (MemKey (pass1 es) es.length smF.imps) := by
  obtain ⟨smF, sdF, h1, h2, inv, hcp, hroot, hhl, mk⟩ := final_states sc
  have ok := spec_treeOK sc
  have hl : lastIdx (pass1 es) [] = none := (lastIdx_eq_none_iff _ []).mpr ok.noRoot
  have hsrc : ∀ org, org ∈ smF.hlSources → smF.kids org = [] := by
    intro org horg
    apply inv.memNoKids
    intro hlive
    apply (hhl org horg).2
    cases org with
    | root => trivial
    | imp p => trivial
    | ent j => obtain ⟨m, hm, hd, _⟩ := hlive; exact ⟨m, hm, hd⟩
  refine ⟨smF, sdF, memTree_accept h1 hroot hl hsrc, dbTree_accept h2, ⟨rfl, ⟨.root, trivial, rfl⟩, ?_, ?_, ?_⟩⟩
  · rintro km ⟨kd, hkd, e⟩
    subst e
    show NodeAgree _ (memNode (pass1 es) smF (lastOf (pass1 es) kd)) (dbNode sdF (canon (pass1 es) (lastOf (pass1 es) kd)))
    rw [(canon_lastOf ok hkd).1]
    exact node_agree sc inv hcp hroot kd hkd
  · rintro km ⟨kd, hkd, e⟩ kv hkv
    simp only at hkv
    rcases memNode_kids' (pass1 es) smF km with h | h
    · rw [h] at hkv
      have hlive : MLiveDir (pass1 es) km := by
        apply Classical.byContradiction
        intro hn
        rw [inv.memNoKids km hn] at hkv
        cases hkv
      have hk := inv.kids km hlive
      have hmem : canonKV (pass1 es) kv ∈ sdF.kids (canon (pass1 es) km) := by
        rw [hk]; exact List.mem_map.mpr ⟨kv, hkv, rfl⟩
      have hcr := inv.kidsCreated _ _ hmem
      have mk' : MK (pass1 es) (pass1 es).length smF := by rw [pass1_length]; exact mk
      exact ⟨canon (pass1 es) kv.2, hcr, kid_is_last ok mk' hkv⟩
    · rw [h] at hkv; cases hkv
  · rintro a b ⟨ka, hka, ea⟩ ⟨kb, hkb, eb⟩ hab
    rw [ea, eb, (canon_lastOf ok hka).1, (canon_lastOf ok hkb).1] at hab
    rw [ea, eb, hab]

/-- the canonical views of both stores coincide -/
theorem views_agree {es : List Entry} (sc : SpecConformingR es) :
    ∃ tm td, memTree es = .accept tm ∧ dbTree es = .accept td ∧ view tm = view td := by
  obtain ⟨smF, sdF, h1, h2, ag⟩ := trees_agree sc
  exact ⟨_, _, h1, h2, view_agree ag⟩


end SV.Toc.R

namespace SV.Toc.R

/-! ## The fragment without repeated names is included -/

theorem idx_of_nodup {α β : Type} (f : α → β) (P : α → Bool) : ∀ (l : List α),
    ((l.filter P).map f).Nodup → ∀ (i j : Nat) (hi : i < l.length) (hj : j < l.length),
      P l[i] = true → P l[j] = true → f l[i] = f l[j] → i = j := by
  intro l
  induction l with
  | nil => intro _ i j hi; simp at hi
  | cons x xs ih =>
    intro hn i j hi hj pi pj hf
    by_cases hx : P x = true
    · rw [List.filter_cons_of_pos hx, List.map_cons, List.nodup_cons] at hn
      cases i with
      | zero =>
        cases j with
        | zero => rfl
        | succ j' =>
          exfalso
          apply hn.1
          simp only [List.getElem_cons_zero, List.getElem_cons_succ] at hf pj
          rw [hf]
          exact List.mem_map.mpr ⟨_, List.mem_filter.mpr ⟨List.getElem_mem _, pj⟩, rfl⟩
      | succ i' =>
        cases j with
        | zero =>
          exfalso
          apply hn.1
          simp only [List.getElem_cons_zero, List.getElem_cons_succ] at hf pi
          rw [← hf]
          exact List.mem_map.mpr ⟨_, List.mem_filter.mpr ⟨List.getElem_mem _, pi⟩, rfl⟩
        | succ j' =>
          simp only [List.getElem_cons_succ] at hf pi pj
          have := ih hn.2 i' j' (by simpa using hi) (by simpa using hj) pi pj hf
          omega
    · have hx' : ¬ (P x = true) := hx
      rw [List.filter_cons_of_neg hx'] at hn
      cases i with
      | zero => simp only [List.getElem_cons_zero] at pi; exact absurd pi hx
      | succ i' =>
        cases j with
        | zero => simp only [List.getElem_cons_zero] at pj; exact absurd pj hx
        | succ j' =>
          simp only [List.getElem_cons_succ] at hf pi pj
          have := ih hn i' j' (by simpa using hi) (by simpa using hj) pi pj hf
          omega

theorem spec_of_nodup {es : List Entry} (sc : SpecConforming es) : SpecConformingR es := by
  refine ⟨sc.types, sc.nonEmpty, sc.noRoot, ?_, ?_, sc.hardlinks, sc.chunkAfterData, sc.files, sc.noOffset,
    sc.xattrs⟩
  · intro i hi j hj hci hcj hp
    left
    exact idx_of_nodup (fun m : MEnt => m.path) ncB (pass1 es) sc.names i j hi hj (by simpa [ncB] using hci) (by simpa [ncB] using hcj) hp
  · intro i hi hc n hn h0 j hj hcj hpj
    obtain ⟨h1, h2⟩ := sc.parents i hi hc n hn h0 j hj hcj hpj
    exact ⟨h1, j, hj, h2, hcj, hpj⟩

end SV.Toc.R

namespace SV.Toc.R

/-! ## Repetitions of directory entries appended to a TOC without repeated names -/

theorem pass1Go_append (a b : List Entry) : ∀ (lp : Path) (lr : Option Int),
    ∃ lp' lr', pass1Go lp lr (a ++ b) = pass1Go lp lr a ++ pass1Go lp' lr' b := by
  induction a with
  | nil => intro lp lr; exact ⟨lp, lr, rfl⟩
  | cons e es ih =>
    intro lp lr
    obtain ⟨lp', lr', h⟩ := ih (pass1Ent lp lr e).2.1 (pass1Ent lp lr e).2.2
    exact ⟨lp', lr', by simp only [List.cons_append, pass1Go, h]⟩

/-- what `StoresAgreeFull` says about the repeated entries -/
def DupOf (es' : List Entry) (dup : List (Nat × Entry)) : Prop :=
  ∀ d ∈ dup, ∃ h : d.1 < es'.length,
    es'[d.1].type = "dir" ∧ d.2.type = "dir" ∧ cleanName d.2.name = cleanName es'[d.1].name ∧
    { d.2 with name := "" } = { es'[d.1] with name := "" }

theorem attr_of_noname {a b : Entry} (h : { a with name := "" } = { b with name := "" }) :
    attrOfEntry a 0 = attrOfEntry b 0 ∧ a.type = b.type ∧ a.offset = b.offset ∧ a.xattrs = b.xattrs := by
  have h1 := congrArg Entry.size h
  have h2 := congrArg Entry.mtime h
  have h3 := congrArg Entry.linkName h
  have h4 := congrArg Entry.mode h
  have h5 := congrArg Entry.uid h
  have h6 := congrArg Entry.gid h
  have h7 := congrArg Entry.devMajor h
  have h8 := congrArg Entry.devMinor h
  have h9 := congrArg Entry.xattrs h
  have h10 := congrArg Entry.type h
  have h11 := congrArg Entry.offset h
  simp only at h1 h2 h3 h4 h5 h6 h7 h8 h9 h10 h11
  refine ⟨?_, h10, h11, h9⟩
  simp only [attrOfEntry, h1, h2, h3, h4, h5, h6, h7, h8, h9, h10]

theorem spec_of_dups {es' : List Entry} (sc : SpecConforming es') (dup : List (Nat × Entry))
    (hdup : DupOf es' dup) : SpecConformingR (es' ++ dup.map Prod.snd) := by
  obtain ⟨lp', lr', happ⟩ := pass1Go_append es' (dup.map Prod.snd) [] none
  have hms : pass1 (es' ++ dup.map Prod.snd) = pass1 es' ++ pass1Go lp' lr' (dup.map Prod.snd) := happ
  have hn' : (pass1 es').length = es'.length := pass1_length es'
  -- the old fragment, on optional indexing
  have uniq : ∀ (i j : Nat) (a b : MEnt), (pass1 es')[i]? = some a → (pass1 es')[j]? = some b →
      a.e.type ≠ "chunk" → b.e.type ≠ "chunk" → a.path = b.path → i = j := by
    intro i j a b ha hb hca hcb hp
    obtain ⟨hi, ea⟩ := get_of_getElem? ha
    obtain ⟨hj, eb⟩ := get_of_getElem? hb
    subst ea eb
    exact idx_of_nodup (fun m : MEnt => m.path) ncB (pass1 es') sc.names i j hi hj
      (by simpa [ncB] using hca) (by simpa [ncB] using hcb) hp
  have par : ∀ (i : Nat) (a : MEnt), (pass1 es')[i]? = some a → a.e.type ≠ "chunk" →
      ∀ n, n < a.path.length → 0 < n → ∀ (j : Nat) (b : MEnt), (pass1 es')[j]? = some b →
        b.e.type ≠ "chunk" → b.path = a.path.take n → b.e.type = "dir" ∧ j < i := by
    intro i a ha hca n hn h0 j b hb hcb hp
    obtain ⟨hi, ea⟩ := get_of_getElem? ha
    obtain ⟨hj, eb⟩ := get_of_getElem? hb
    subst ea eb
    exact sc.parents i hi hca n hn h0 j hj hcb hp
  -- every entry of the long TOC stands for an entry of the short one
  have src : ∀ (i : Nat) (m : MEnt), (pass1 (es' ++ dup.map Prod.snd))[i]? = some m →
      (i < es'.length ∧ (pass1 es')[i]? = some m ∧ (es' ++ dup.map Prod.snd)[i]? = es'[i]?) ∨
      (es'.length ≤ i ∧ m.e.type = "dir" ∧ ∃ s ms, s < es'.length ∧ (pass1 es')[s]? = some ms ∧
        ms.e.type = "dir" ∧ m.path = ms.path ∧ { m.e with name := "" } = { ms.e with name := "" }) := by
    intro i m hm
    rw [hms] at hm
    by_cases hi : i < es'.length
    · left
      rw [List.getElem?_append_left (by rw [hn']; exact hi)] at hm
      exact ⟨hi, hm, List.getElem?_append_left hi⟩
    · right
      rw [List.getElem?_append_right (by rw [hn']; omega)] at hm
      obtain ⟨hD, hpath⟩ := pass1Go_getElem _ _ _ _ _ hm
      rw [List.getElem?_map] at hD
      cases hd : dup[i - (pass1 es').length]? with
      | none => rw [hd] at hD; cases hD
      | some d =>
        rw [hd] at hD
        simp only [Option.map_some, Option.some.injEq] at hD
        obtain ⟨hs, h1, h2, h3, h4⟩ := hdup d (List.mem_of_getElem? hd)
        have hsl : d.1 < (pass1 es').length := by rw [hn']; exact hs
        have hms' : (pass1 es')[d.1]? = some (pass1 es')[d.1] := List.getElem?_eq_getElem hsl
        obtain ⟨he, hp'⟩ := pass1_getElem es' d.1 _ hms'
        have hee : es'[d.1] = ((pass1 es')[d.1]).e := by
          rw [List.getElem?_eq_getElem hs] at he; exact Option.some.inj he
        have htd : m.e.type = "dir" := by rw [← hD]; exact h2
        refine ⟨by omega, htd, d.1, _, hs, hms', by rw [← hee]; exact h1, ?_, ?_⟩
        · rw [hpath (by rw [htd]; decide), ← hD, h3, hee]
          exact (hp' (by rw [← hee, h1]; decide)).symm
        · rw [← hD, ← hee]; exact h4
  -- a uniform description: the entry of the short TOC an entry stands for
  have src' : ∀ (i : Nat) (m : MEnt), (pass1 (es' ++ dup.map Prod.snd))[i]? = some m → m.e.type ≠ "chunk" →
      ∃ s ms, s ≤ i ∧ s < es'.length ∧ (pass1 es')[s]? = some ms ∧ ms.e.type ≠ "chunk" ∧ m.path = ms.path ∧
        m.e.type = ms.e.type ∧ attrOfEntry m.e 0 = attrOfEntry ms.e 0 ∧
        (i < es'.length → s = i ∧ ms = m) ∧ (es'.length ≤ i → m.e.type = "dir") := by
    intro i m hm hc
    rcases src i m hm with ⟨h1, h2, _⟩ | ⟨h1, h2, s, ms, h3, h4, h5, h6, h7⟩
    · exact ⟨i, m, Nat.le_refl _, h1, h2, hc, rfl, rfl, rfl, fun _ => ⟨rfl, rfl⟩, fun h => by omega⟩
    · obtain ⟨e1, e2, _, _⟩ := attr_of_noname h7
      exact ⟨s, ms, by omega, h3, h4, by rw [h5]; decide, h6, e2, e1, fun h => by omega, fun _ => h2⟩
  have hlen : (pass1 (es' ++ dup.map Prod.snd)).length = es'.length + dup.length := by
    rw [pass1_length]; simp
  refine ⟨?_, ?_, ?_, ?_, ?_, ?_, ?_, ?_, ?_, ?_⟩
  · -- types
    intro i hi
    have hil : i < (pass1 (es' ++ dup.map Prod.snd)).length := by rw [pass1_length]; exact hi
    have hm := List.getElem?_eq_getElem hil
    obtain ⟨he, _⟩ := pass1_getElem _ i _ hm
    rw [List.getElem?_eq_getElem hi] at he
    have hee := Option.some.inj he
    rcases src i _ hm with ⟨h1, _, h3⟩ | ⟨_, h2, _⟩
    · rw [List.getElem?_eq_getElem hi, List.getElem?_eq_getElem h1] at h3
      rw [Option.some.inj h3]; exact sc.types i h1
    · rw [hee, h2]; decide
  · -- nonEmpty
    obtain ⟨i, hi, hc⟩ := sc.nonEmpty
    refine ⟨i, by simp; omega, ?_⟩
    rw [List.getElem_append_left hi]; exact hc
  · -- noRoot
    intro i hi hc hp
    obtain ⟨s, ms, _, hs, hms', hcs, hps, _⟩ := src' i _ (List.getElem?_eq_getElem hi) hc
    obtain ⟨hsl, e⟩ := get_of_getElem? hms'
    subst e
    exact sc.noRoot s hsl hcs (by rw [← hps]; exact hp)
  · -- names
    intro i hi j hj hci hcj hp
    obtain ⟨s, ms, _, _, hms', hcs, hps, hts, has, hlo, hhi⟩ := src' i _ (List.getElem?_eq_getElem hi) hci
    obtain ⟨s2, ms2, _, _, hms2', hcs2, hps2, hts2, has2, hlo2, hhi2⟩ := src' j _ (List.getElem?_eq_getElem hj) hcj
    have hss : s = s2 := uniq s s2 ms ms2 hms' hms2' hcs hcs2 (by rw [← hps, ← hps2]; exact hp)
    subst hss
    rw [hms'] at hms2'; cases hms2'
    by_cases h1 : i < es'.length
    · by_cases h2 : j < es'.length
      · left; rw [← (hlo h1).1, ← (hlo2 h2).1]
      · right
        have hd := hhi2 (by omega)
        exact ⟨by rw [hts, ← hts2]; exact hd, hd, by rw [has, has2]⟩
    · right
      have hd := hhi (by omega)
      exact ⟨hd, by rw [hts2, ← hts]; exact hd, by rw [has, has2]⟩
  · -- parents
    intro i hi hc n hn h0 j hj hcj hpj
    obtain ⟨s, ms, hsi, hsl, hms', hcs, hps, _, _, _, _⟩ := src' i _ (List.getElem?_eq_getElem hi) hc
    obtain ⟨s2, ms2, hs2j, hs2l, hms2', hcs2, hps2, hts2, _, _, _⟩ := src' j _ (List.getElem?_eq_getElem hj) hcj
    rw [hps] at hn hpj
    obtain ⟨hd, hlt⟩ := par s ms hms' hcs n hn h0 s2 ms2 hms2' hcs2 (by rw [← hps2]; exact hpj)
    refine ⟨by rw [hts2]; exact hd, s2, by rw [hlen]; omega, by omega, ?_, ?_⟩
    · have : (pass1 (es' ++ dup.map Prod.snd))[s2]? = some ms2 := by
        rw [hms, List.getElem?_append_left (by rw [hn']; exact hs2l)]; exact hms2'
      obtain ⟨_, e⟩ := get_of_getElem? this
      rw [e]; exact hcs2
    · have : (pass1 (es' ++ dup.map Prod.snd))[s2]? = some ms2 := by
        rw [hms, List.getElem?_append_left (by rw [hn']; exact hs2l)]; exact hms2'
      obtain ⟨_, e⟩ := get_of_getElem? this
      rw [e, ← hps2]; rw [hps]; exact hpj
  · -- hardlinks
    intro i hi hh
    rcases src i _ (List.getElem?_eq_getElem hi) with ⟨h1, h2, _⟩ | ⟨_, h2, _⟩
    · obtain ⟨hil, e⟩ := get_of_getElem? h2
      obtain ⟨j, hj, hji, h3, h4, h5⟩ := sc.hardlinks i hil (by rw [e]; exact hh)
      have : (pass1 (es' ++ dup.map Prod.snd))[j]? = some (pass1 es')[j] := by
        rw [hms, List.getElem?_append_left hj]; exact List.getElem?_eq_getElem hj
      obtain ⟨hjl, e'⟩ := get_of_getElem? this
      refine ⟨j, hjl, hji, by rw [e']; exact h3, ?_, by rw [e']; exact h5⟩
      rw [e', h4, e]
    · rw [h2] at hh; exact absurd hh (by decide)
  · -- chunkAfterData
    intro i hi hc
    have hil : i < (pass1 (es' ++ dup.map Prod.snd)).length := by rw [pass1_length]; exact hi
    have hm := List.getElem?_eq_getElem hil
    obtain ⟨he, _⟩ := pass1_getElem _ i _ hm
    rw [List.getElem?_eq_getElem hi] at he
    have hee := Option.some.inj he
    rcases src i _ hm with ⟨h1, _, h3⟩ | ⟨_, h2, _⟩
    · rw [List.getElem?_eq_getElem hi, List.getElem?_eq_getElem h1] at h3
      have h3' := Option.some.inj h3
      obtain ⟨h0, hprev⟩ := sc.chunkAfterData i h1 (by rw [← h3']; exact hc)
      refine ⟨h0, ?_⟩
      rw [List.getElem_append_left (by omega)]; exact hprev
    · rw [hee, h2] at hc; exact absurd hc (by decide)
  · -- files
    intro i hi hreg
    rcases src i _ (List.getElem?_eq_getElem hi) with ⟨h1, h2, _⟩ | ⟨_, h2, _⟩
    · obtain ⟨hil, e⟩ := get_of_getElem? h2
      have hf := sc.files i hil (by rw [e]; exact hreg)
      rw [e] at hf
      have hco : ∀ p, chunksOf (pass1 (es' ++ dup.map Prod.snd)) p = chunksOf (pass1 es') p := by
        intro p
        unfold chunksOf
        rw [hms, List.filter_append]
        have : List.filter (fun m => decide (m.e.type = "chunk" ∧ m.path = p))
            (pass1Go lp' lr' (dup.map Prod.snd)) = [] := by
          rw [List.filter_eq_nil_iff]
          intro t ht hP
          simp only [decide_eq_true_eq] at hP
          obtain ⟨k, hk⟩ := List.getElem?_of_mem ht
          have hk' : (pass1 (es' ++ dup.map Prod.snd))[(pass1 es').length + k]? = some t := by
            rw [hms, List.getElem?_append_right (by omega)]
            simpa using hk
          rcases src _ t hk' with ⟨h1', _, _⟩ | ⟨_, h2', _⟩
          · omega
          · rw [h2'] at hP; exact absurd hP.1 (by decide)
        rw [this, List.append_nil]
      rw [hco]; exact hf
    · rw [h2] at hreg; exact absurd hreg (by decide)
  · -- noOffset
    intro i hi hnr hnc
    have hil : i < (pass1 (es' ++ dup.map Prod.snd)).length := by rw [pass1_length]; exact hi
    have hm := List.getElem?_eq_getElem hil
    obtain ⟨he, _⟩ := pass1_getElem _ i _ hm
    rw [List.getElem?_eq_getElem hi] at he
    have hee := Option.some.inj he
    rcases src i _ hm with ⟨h1, _, h3⟩ | ⟨_, h2, s, ms, hs, hms', hd, _, h7⟩
    · rw [List.getElem?_eq_getElem hi, List.getElem?_eq_getElem h1] at h3
      have h3' := Option.some.inj h3
      rw [h3']; exact sc.noOffset i h1 (by rw [← h3']; exact hnr) (by rw [← h3']; exact hnc)
    · obtain ⟨_, _, e3, _⟩ := attr_of_noname h7
      rw [hee, e3]
      obtain ⟨he', _⟩ := pass1_getElem es' s ms hms'
      rw [List.getElem?_eq_getElem hs] at he'
      rw [← Option.some.inj he']
      exact sc.noOffset s hs (by rw [Option.some.inj he', hd]; decide) (by rw [Option.some.inj he', hd]; decide)
  · -- xattrs
    intro i hi
    have hil : i < (pass1 (es' ++ dup.map Prod.snd)).length := by rw [pass1_length]; exact hi
    have hm := List.getElem?_eq_getElem hil
    obtain ⟨he, _⟩ := pass1_getElem _ i _ hm
    rw [List.getElem?_eq_getElem hi] at he
    have hee := Option.some.inj he
    rcases src i _ hm with ⟨h1, _, h3⟩ | ⟨_, h2, s, ms, hs, hms', hd, _, h7⟩
    · rw [List.getElem?_eq_getElem hi, List.getElem?_eq_getElem h1] at h3
      rw [Option.some.inj h3]; exact sc.xattrs i h1
    · obtain ⟨_, _, _, e4⟩ := attr_of_noname h7
      rw [hee, e4]
      obtain ⟨he', _⟩ := pass1_getElem es' s ms hms'
      rw [List.getElem?_eq_getElem hs] at he'
      rw [← Option.some.inj he']
      exact sc.xattrs s hs

end SV.Toc.R
