import SV.Model.PoolCache

namespace SV.PoolCache

/-- Ownership invariant: every LRU value holds its key's bytes, no pooled buffer is an LRU value, no
buffer is the value of two entries, no buffer is in the pool twice. -/
structure Inv (content : Nat → Bytes) (s : St) : Prop where
  val : ∀ e ∈ s.lru, s.bufs[e.2]? = some (content e.1)
  sep : ∀ b ∈ s.pool, b < s.bufs.length ∧ ∀ e ∈ s.lru, e.2 ≠ b
  nd : (s.lru.map (·.2)).Nodup
  pnd : s.pool.Nodup

theorem inv_init (content : Nat → Bytes) : Inv content init :=
  ⟨by simp [init], by simp [init], by simp [init], by simp [init]⟩

theorem eraseIdx_ne {l : List (Nat × Nat)} (h : (l.map (·.2)).Nodup) {i : Nat} {e : Nat × Nat}
    (he : l[i]? = some e) : ∀ e' ∈ l.eraseIdx i, e'.2 ≠ e.2 := by
  induction l generalizing i with
  | nil => simp at he
  | cons a t ih =>
    simp only [List.map_cons, List.nodup_cons, List.mem_map, not_exists, not_and] at h
    cases i with
    | zero =>
      simp only [List.getElem?_cons_zero, Option.some.injEq] at he
      subst he
      intro e' he'
      simp only [List.eraseIdx_cons_zero] at he'
      exact fun hc => h.1 e' he' hc
    | succ j =>
      simp only [List.getElem?_cons_succ] at he
      intro e' he'
      simp only [List.eraseIdx_cons_succ, List.mem_cons] at he'
      rcases he' with rfl | he'
      · exact fun hc => h.1 e (List.mem_of_getElem? he) hc.symm
      · exact ih h.2 he e' he'

theorem inv_putBuffer_free {content : Nat → Bytes} {s : St} {b : Nat} (h : Inv content s)
    (hb : b < s.bufs.length) (hl : ∀ e ∈ s.lru, e.2 ≠ b) (hp : b ∉ s.pool) :
    Inv content (putBuffer s b) := by
  refine ⟨?_, ?_, h.nd, ?_⟩
  · intro e he
    simp only [putBuffer] at he ⊢
    rw [List.getElem?_set_ne (fun hc => hl e he hc.symm)]
    exact h.val e he
  · intro x hx
    simp only [putBuffer, List.mem_cons, List.length_set] at hx ⊢
    rcases hx with rfl | hx
    · exact ⟨hb, hl⟩
    · exact h.sep x hx
  · simp only [putBuffer, List.nodup_cons]
    exact ⟨hp, h.pnd⟩

theorem inv_evict {content : Nat → Bytes} {s : St} (h : Inv content s) (i : Nat) :
    Inv content (evict s i) := by
  unfold evict
  split
  · rename_i e he
    have hm : e ∈ s.lru := List.mem_of_getElem? he
    have hsub : ∀ x ∈ s.lru.eraseIdx i, x ∈ s.lru := fun x hx => (List.eraseIdx_sublist _ _).subset hx
    have h' : Inv content { s with lru := s.lru.eraseIdx i } :=
      ⟨fun x hx => h.val x (hsub x hx), fun b hb => ⟨(h.sep b hb).1, fun x hx => (h.sep b hb).2 x (hsub x hx)⟩,
       ((List.eraseIdx_sublist _ _).map _).nodup h.nd, h.pnd⟩
    refine inv_putBuffer_free h' ?_ (eraseIdx_ne h.nd he) ?_
    · have := h.val e hm
      exact (List.getElem?_eq_some_iff.1 this).1
    · intro hc
      exact (h.sep e.2 hc).2 e hm rfl
  · exact h

theorem inv_store {content : Nat → Bytes} {s : St} (h : Inv content s) (k : Nat) (pick : Option Nat)
    (fail : Bool) : Inv content (store content s k pick fail false) := by
  -- after `take` + `Write`: buffer `b` is private to the writer
  have key : ∀ (s1 : St) (b : Nat), Inv content s1 → b < s1.bufs.length → (∀ e ∈ s1.lru, e.2 ≠ b) →
      b ∉ s1.pool → Inv content (publish { s1 with bufs := s1.bufs.set b (content k) } k b) := by
    intro s1 b h1 hb hl hp
    have h2 : Inv content { s1 with bufs := s1.bufs.set b (content k) } := by
      refine ⟨?_, ?_, h1.nd, h1.pnd⟩
      · intro e he
        show (s1.bufs.set b (content k))[e.2]? = _
        rw [List.getElem?_set_ne (fun hc => hl e he hc.symm)]
        exact h1.val e he
      · intro x hx
        simp only [List.length_set]
        exact h1.sep x hx
    unfold publish
    split
    · exact inv_putBuffer_free h2 (by simpa using hb) hl hp
    · refine ⟨?_, ?_, ?_, h2.pnd⟩
      · intro e he
        simp only [List.mem_cons] at he
        rcases he with rfl | he
        · simp [List.getElem?_set_self hb]
        · exact h2.val e he
      · intro x hx
        refine ⟨(h2.sep x hx).1, ?_⟩
        intro e he
        simp only [List.mem_cons] at he
        rcases he with rfl | he
        · intro hc
          have hc' : b = x := hc
          exact hp (hc' ▸ hx)
        · exact (h2.sep x hx).2 e he
      · simp only [List.map_cons, List.nodup_cons, List.mem_map, not_exists, not_and]
        exact ⟨fun e he hc => hl e he hc, h2.nd⟩
  simp only [store, Bool.and_false, Bool.false_eq_true, if_false]
  unfold take
  split
  · rename_i b hb
    have hmem : b ∈ s.pool := by
      cases pick with
      | none => simp at hb
      | some i => exact List.mem_of_getElem? (by simpa using hb)
    refine key { s with pool := s.pool.erase b } b ?_ (h.sep b hmem).1 (h.sep b hmem).2 ?_
    · exact ⟨h.val, fun x hx => h.sep x (List.mem_of_mem_erase hx), h.nd, h.pnd.erase b⟩
    · exact h.pnd.not_mem_erase
  · refine key { s with bufs := s.bufs ++ [[]] } s.bufs.length ?_ (by simp) ?_ ?_
    · refine ⟨?_, ?_, h.nd, h.pnd⟩
      · intro e he
        have := h.val e he
        have hlt := (List.getElem?_eq_some_iff.1 this).1
        show (s.bufs ++ [[]])[e.2]? = _
        rw [List.getElem?_append_left hlt]
        exact this
      · intro x hx
        refine ⟨?_, (h.sep x hx).2⟩
        have := (h.sep x hx).1
        simp only [List.length_append, List.length_singleton]
        omega
    · intro e he hc
      have := (List.getElem?_eq_some_iff.1 (h.val e he)).1
      omega
    · intro hc
      have := (h.sep _ hc).1
      omega

theorem inv_run {content : Nat → Bytes} (ops : List Op) {s : St} (h : Inv content s) :
    Inv content (run content false s ops) := by
  induction ops generalizing s with
  | nil => exact h
  | cons op t ih =>
    simp only [run, List.foldl_cons]
    apply ih
    cases op with
    | store k pick fail => exact inv_store h k pick fail
    | evict i => exact inv_evict h i

theorem get_of_inv {content : Nat → Bytes} {s : St} (h : Inv content s) {k : Nat} {v : Bytes}
    (hg : get s k = some v) : v = content k := by
  unfold get at hg
  split at hg
  · rename_i e he
    have hm := List.mem_of_find?_eq_some he
    have hk : e.1 = k := by simpa using List.find?_some he
    rw [h.val e hm, hk] at hg
    exact (Option.some.inj hg).symm
  · simp at hg

end SV.PoolCache
