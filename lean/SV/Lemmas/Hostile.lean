/-
Helper lemmas for C04 (SV.Model.Hostile).
-/
import SV.Model.Hostile

namespace SV.Hostile
open Outcome

@[simp] theorem ok_bind {α β : Type} (a : α) (f : α → Outcome β) : (Outcome.ok a >>= f) = f a := rfl
@[simp] theorem err_bind {α β : Type} (f : α → Outcome β) : ((Outcome.err : Outcome α) >>= f) = Outcome.err := rfl
@[simp] theorem panic_bind {α β : Type} (f : α → Outcome β) : ((Outcome.panic : Outcome α) >>= f) = Outcome.panic := rfl
@[simp] theorem pure_eq_ok {α : Type} (a : α) : (pure a : Outcome α) = Outcome.ok a := rfl

theorem sliceB_ok (bs : List UInt8) (lo hi : Nat) (h1 : lo ≤ hi) (h2 : hi ≤ bs.length) :
    sliceB bs lo hi = Outcome.ok ((bs.drop lo).take (hi - lo)) := by
  unfold sliceB; simp [h1, h2]

theorem sliceB_length (bs : List UInt8) (lo hi : Nat) (h1 : lo ≤ hi) (h2 : hi ≤ bs.length) :
    ((bs.drop lo).take (hi - lo)).length = hi - lo := by
  simp; omega

theorem indexB_ok (bs : List UInt8) (i : Nat) (h : i < bs.length) : indexB bs i = Outcome.ok bs[i] := by
  unfold indexB; simp [h]

theorem le16_ok (b : List UInt8) (h : b.length = 2) : ∃ n, le16 b = Outcome.ok n := by
  unfold le16
  rw [indexB_ok b 1 (by omega), indexB_ok b 0 (by omega)]
  exact ⟨_, rfl⟩

/-- The tail of every gzip-based footer parse: magic check + hex offset. No slicing left to fail. -/
theorem parse_tail_no_panic (o : Option Int) :
    (match o with
     | none => (Outcome.err : Outcome Footer)
     | some off => if off < 0 then Outcome.err else Outcome.ok ⟨off, off, 0⟩) ≠ Outcome.panic := by
  cases o with
  | none => simp
  | some off => simp only []; split <;> simp

theorem gzipFooter_no_panic (len : Nat) (hdr : Option (List UInt8)) : gzipFooter len hdr ≠ Outcome.panic := by
  unfold gzipFooter
  split
  · simp
  · split
    · simp
    · rename_i extra
      split
      · simp
      · rename_i h4
        have h4 : 4 ≤ extra.length := by omega
        rw [indexB_ok extra 0 (by omega), indexB_ok extra 1 (by omega),
          sliceB_ok extra 2 4 (by omega) h4, sliceB_ok extra 4 extra.length h4 (Nat.le_refl _)]
        simp only [ok_bind]
        split
        · simp
        · obtain ⟨n, hn⟩ := le16_ok ((extra.drop 2).take (4 - 2)) (by simp; omega)
          rw [hn]
          simp only [ok_bind]
          split
          · simp
          · split
            · simp
            · rename_i hlen
              have hlen : ((extra.drop 4).take (extra.length - 4)).length = 22 := by
                simpa using hlen
              rw [sliceB_ok _ 16 _ (by omega) (Nat.le_refl _)]
              simp only [ok_bind]
              split
              · simp
              · rw [sliceB_ok _ 0 16 (by omega) (by omega)]
                simp only [ok_bind]
                exact parse_tail_no_panic _

theorem legacyFooter_no_panic (len : Nat) (hdr : Option (List UInt8)) : legacyFooter len hdr ≠ Outcome.panic := by
  unfold legacyFooter
  split
  · simp
  · split
    · simp
    · rename_i extra
      split
      · simp
      · rename_i h22
        have h22 : extra.length = 22 := by simpa using h22
        rw [sliceB_ok extra 16 extra.length (by omega) (Nat.le_refl _)]
        simp only [ok_bind]
        split
        · simp
        · rw [sliceB_ok extra 0 16 (by omega) (by omega)]
          simp only [ok_bind]
          exact parse_tail_no_panic _

theorem extFooter_no_panic (len : Nat) (hdr : Option (List UInt8)) : extFooter len hdr ≠ Outcome.panic := by
  unfold extFooter
  split
  · simp
  · split
    · simp
    · rename_i extra
      split
      · simp
      · rename_i h4
        have h4 : 4 ≤ extra.length := by omega
        rw [indexB_ok extra 0 (by omega), indexB_ok extra 1 (by omega),
          sliceB_ok extra 2 4 (by omega) h4, sliceB_ok extra 4 extra.length h4 (Nat.le_refl _)]
        simp only [ok_bind]
        split
        · simp
        · obtain ⟨n, hn⟩ := le16_ok ((extra.drop 2).take (4 - 2)) (by simp; omega)
          rw [hn]
          simp only [ok_bind]
          split
          · simp
          · split <;> simp

theorem zstdFooter_no_panic (p : List UInt8) : zstdFooter p ≠ Outcome.panic := by
  unfold zstdFooter
  split
  · simp
  · rename_i h40
    have h40 : p.length = 40 := by simpa [zstdFooterSize] using h40
    rw [sliceB_ok p 0 8 (by omega) (by omega), sliceB_ok p 8 16 (by omega) (by omega),
      sliceB_ok p 32 40 (by omega) (by omega)]
    simp only [ok_bind]
    split <;> simp

/-! ## int64 wrap-around -/

theorem wrap64_id (x : Int) (h1 : -9223372036854775808 ≤ x) (h2 : x < 9223372036854775808) : wrap64 x = x := by
  unfold wrap64; omega

theorem wrap64_range (x : Int) : -9223372036854775808 ≤ wrap64 x ∧ wrap64 x < 9223372036854775808 := by
  unfold wrap64; omega

/-- A value that fits `int64`. -/
def I64 (x : Int) : Prop := -9223372036854775808 ≤ x ∧ x < 9223372036854775808

theorem positive_nonneg (x : Int) : 0 ≤ positive x := by unfold positive; split <;> omega
theorem positive_eq (x : Int) : positive x = if x < 0 then 0 else x := rfl

/-! ## Open -/

/-- A registered decompressor whose numbers fit `int64` and whose footer size is not negative. -/
def DecOK (d : Dec) : Prop :=
  0 ≤ d.fSize ∧ d.fSize < 9223372036854775808 ∧ ∀ a b, d.footer = some (a, b) → I64 a ∧ I64 b

/-- All allocations recorded in a trace are within `[0, size]`. -/
def AllocsWithin (size : Int) (evs : List Ev) : Prop := ∀ n, Ev.alloc n ∈ evs → 0 ≤ n ∧ n ≤ size

theorem allocsWithin_nil (size : Int) : AllocsWithin size [] := by intro n h; simp at h

theorem allocsWithin_append {size : Int} {a b : List Ev} (ha : AllocsWithin size a) (hb : AllocsWithin size b) :
    AllocsWithin size (a ++ b) := by
  intro n h
  rcases List.mem_append.mp h with h | h
  · exact ha n h
  · exact hb n h

theorem maxFooterSize_bounds (size : Int) (ds : List Dec) (res : Int) (h0 : 0 ≤ res) (h1 : res ≤ size ∨ res = 0) :
    0 ≤ maxFooterSize size ds res ∧ (maxFooterSize size ds res ≤ size ∨ maxFooterSize size ds res = 0) := by
  induction ds generalizing res with
  | nil => exact ⟨h0, h1⟩
  | cons d ds ih =>
    unfold maxFooterSize
    apply ih
    · split <;> omega
    · split
      · left; omega
      · exact h1

theorem secRead_no_alloc (size off len : Int) : ∀ n, Ev.alloc n ∉ (secRead size off len).1 := by
  intro n
  unfold secRead
  split
  · simp
  · split <;> simp

theorem parseTOC_spec (size : Int) (d : Dec) (tocOff tocSize mlen : Int)
    (h : 0 ≤ tocOff → 0 ≤ tocSize ∧ tocSize ≤ size) :
    (parseTOC size d tocOff tocSize mlen).2 ≠ Outcome.panic ∧
      AllocsWithin size (parseTOC size d tocOff tocSize mlen).1 := by
  unfold parseTOC
  split
  · refine ⟨by simp, ?_⟩
    intro n hn; simp at hn
  · rename_i hoff
    have hoff : 0 ≤ tocOff := by omega
    obtain ⟨hs0, hs1⟩ := h hoff
    have hfirst : AllocsWithin size (if mlen > 0 then [Ev.toc (some mlen)] else []) := by
      intro n hn; split at hn <;> simp at hn
    simp only []
    generalize (if mlen > 0 then [Ev.toc (some mlen)] else []) = first at hfirst ⊢
    by_cases hc : mlen > 0 ∧ d.toc1 = true
    · rw [if_pos hc]
      exact ⟨by simp, hfirst⟩
    · rw [if_neg hc]
      have hm : make? tocSize = Outcome.ok () := by unfold make?; simp [hs0]
      rw [hm]
      simp only []
      rcases hsr : secRead size tocOff tocSize with ⟨rd, okRead⟩
      have hrd : ∀ n, Ev.alloc n ∉ rd := by
        intro n; have := secRead_no_alloc size tocOff tocSize n; rw [hsr] at this; exact this
      simp only []
      cases okRead
      · refine ⟨by simp, ?_⟩
        intro n hn
        simp only [Bool.false_eq_true, not_false_eq_true, if_true] at hn
        rcases List.mem_append.mp hn with hn | hn
        · exact hfirst n hn
        · rcases List.mem_cons.mp hn with hn | hn
          · cases hn; exact ⟨hs0, hs1⟩
          · exact absurd hn (hrd n)
      · refine ⟨by simp, ?_⟩
        intro n hn
        simp only [not_true_eq_false, if_false] at hn
        rcases List.mem_append.mp hn with hn | hn
        · rcases List.mem_append.mp hn with hn | hn
          · exact hfirst n hn
          · rcases List.mem_cons.mp hn with hn | hn
            · cases hn; exact ⟨hs0, hs1⟩
            · exact absurd hn (hrd n)
        · simp at hn

theorem tryDec_spec (size footerLen : Int) (d : Dec) (hs : 0 ≤ size) (hs2 : size < 9223372036854775808)
    (hf : 0 ≤ footerLen) (hf2 : footerLen ≤ size) (hd : DecOK d) :
    (tryDec size footerLen d).2 ≠ Outcome.panic ∧ AllocsWithin size (tryDec size footerLen d).1 := by
  obtain ⟨hfs0, hfs1, hft⟩ := hd
  have hw : wrap64 (footerLen - d.fSize) = footerLen - d.fSize := wrap64_id _ (by omega) (by omega)
  have hfo0 : 0 ≤ positive (footerLen - d.fSize) := positive_nonneg _
  have hfo1 : positive (footerLen - d.fSize) ≤ footerLen := by unfold positive; split <;> omega
  unfold tryDec
  simp only [hw]
  have h1 : slice? 0 (positive (footerLen - d.fSize)) footerLen = Outcome.ok () := by
    unfold slice?; rw [if_pos]; omega
  have h2 : slice? (positive (footerLen - d.fSize)) footerLen footerLen = Outcome.ok () := by
    unfold slice?; rw [if_pos]; omega
  rw [h1, h2]
  simp only []
  cases hfoot : d.footer with
  | none => exact ⟨by simp, allocsWithin_nil _⟩
  | some pr =>
    obtain ⟨tocOffset, tocSize0⟩ := pr
    obtain ⟨⟨ha0, ha1⟩, ⟨hb0, hb1⟩⟩ := hft tocOffset tocSize0 hfoot
    simp only []
    generalize hts : (if tocOffset ≥ 0 ∧ tocSize0 ≤ 0 then wrap64 (wrap64 (size - tocOffset) - d.fSize) else tocSize0) = tocSize
    have hts64 : -9223372036854775808 ≤ tocSize ∧ tocSize < 9223372036854775808 := by
      rw [← hts]; split
      · exact wrap64_range _
      · exact ⟨hb0, hb1⟩
    by_cases hrej : tocOffset ≥ 0 ∧ (tocSize < 0 ∨ tocOffset > wrap64 (size - tocSize))
    · rw [if_pos hrej]; exact ⟨by simp, allocsWithin_nil _⟩
    · rw [if_neg hrej]
      -- accepted range: whenever the TOC is inside the blob, 0 ≤ tocSize ≤ size - tocOffset
      have hacc : 0 ≤ tocOffset → 0 ≤ tocSize ∧ tocSize ≤ size := by
        intro h0
        have hn1 : ¬ tocSize < 0 := fun h => hrej ⟨h0, Or.inl h⟩
        have hn2 : ¬ tocOffset > wrap64 (size - tocSize) := fun h => hrej ⟨h0, Or.inr h⟩
        have hw2 : wrap64 (size - tocSize) = size - tocSize := wrap64_id _ (by omega) (by omega)
        rw [hw2] at hn2
        omega
      by_cases hcut : tocOffset ≥ 0 ∧ tocSize < positive (footerLen - d.fSize)
      · simp only [hcut, and_self, if_true]
        have h3 : slice? 0 tocSize (positive (footerLen - d.fSize)) = Outcome.ok () := by
          unfold slice?; rw [if_pos]; have := hacc hcut.1; omega
        rw [h3]
        exact parseTOC_spec size d tocOffset tocSize tocSize hacc
      · simp only [hcut, if_false]
        exact parseTOC_spec size d tocOffset tocSize _ hacc

theorem openLoop_spec (size footerLen : Int) (ds : List Dec) (evs : List Ev) (hs : 0 ≤ size)
    (hs2 : size < 9223372036854775808) (hf : 0 ≤ footerLen) (hf2 : footerLen ≤ size)
    (hd : ∀ d ∈ ds, DecOK d) (hev : AllocsWithin size evs) :
    (openLoop size footerLen ds evs).2 ≠ Outcome.panic ∧ AllocsWithin size (openLoop size footerLen ds evs).1 := by
  induction ds generalizing evs with
  | nil => unfold openLoop; exact ⟨by simp, hev⟩
  | cons d ds ih =>
    have hsp := tryDec_spec size footerLen d hs hs2 hf hf2 (hd d (List.mem_cons_self ..))
    unfold openLoop
    rcases hrun : tryDec size footerLen d with ⟨e, r⟩
    rw [hrun] at hsp
    have hall : AllocsWithin size (evs ++ e) := allocsWithin_append hev hsp.2
    cases r with
    | ok st =>
      cases st with
      | found => exact ⟨by simp, hall⟩
      | next => exact ih (evs ++ e) (fun d' h' => hd d' (List.mem_cons_of_mem _ h')) hall
    | err => exact ⟨by simp, hall⟩
    | panic => exact absurd rfl hsp.1

theorem openBlob_spec (size optTocOff : Int) (ds : List Dec) (hs : 0 ≤ size)
    (hs2 : size < 9223372036854775808) (hd : ∀ d ∈ ds, DecOK d) :
    (openBlob size optTocOff ds).2 ≠ Outcome.panic ∧ AllocsWithin size (openBlob size optTocOff ds).1 := by
  obtain ⟨hm0, hm1⟩ := maxFooterSize_bounds size ds 0 (Int.le_refl 0) (Or.inr rfl)
  have hm1 : maxFooterSize size ds 0 ≤ size := by omega
  unfold openBlob
  simp only []
  generalize maxFooterSize size ds 0 = fetch0 at hm0 hm1 ⊢
  by_cases hrej : optTocOff > fetch0 ∧ optTocOff > size
  · rw [if_pos hrej]; exact ⟨by simp, allocsWithin_nil _⟩
  · rw [if_neg hrej]
    generalize hfs : (if optTocOff > fetch0 then wrap64 (size - optTocOff) else fetch0) = fetchSize
    have hfb : 0 ≤ fetchSize ∧ fetchSize ≤ size := by
      rw [← hfs]; split
      · rename_i hgt
        have hle : optTocOff ≤ size := by
          by_cases h : optTocOff > size
          · exact absurd ⟨hgt, h⟩ hrej
          · omega
        have hw : wrap64 (size - optTocOff) = size - optTocOff := wrap64_id _ (by omega) (by omega)
        rw [hw]; omega
      · exact ⟨hm0, hm1⟩
    have hmk : make? fetchSize = Outcome.ok () := by unfold make?; simp [hfb.1]
    rw [hmk]
    simp only []
    have hw : wrap64 (size - fetchSize) = size - fetchSize := wrap64_id _ (by omega) (by omega)
    rw [hw]
    rcases hsr : secRead size (size - fetchSize) fetchSize with ⟨rd, okRead⟩
    have hrd : ∀ n, Ev.alloc n ∉ rd := by
      intro n; have := secRead_no_alloc size (size - fetchSize) fetchSize n; rw [hsr] at this; exact this
    have hev : AllocsWithin size (Ev.alloc fetchSize :: rd) := by
      intro n hn
      rcases List.mem_cons.mp hn with hn | hn
      · cases hn; exact hfb
      · exact absurd hn (hrd n)
    simp only []
    cases okRead
    · simp only [Bool.false_eq_true, not_false_eq_true, if_true]
      exact ⟨by simp, hev⟩
    · simp only [not_true_eq_false, if_false]
      exact openLoop_spec size fetchSize ds _ hs hs2 hfb.1 hfb.2 hd hev

/-! ## getSource -/

theorem getSourceLoop_no_panic (m : List Ent) (fuel i : Nat) (e : Ent) :
    getSourceLoop m fuel i e ≠ Outcome.panic := by
  induction fuel generalizing i e with
  | zero => unfold getSourceLoop; simp
  | succ f ih =>
    unfold getSourceLoop
    split
    · simp
    · split
      · simp
      · split
        · simp
        · exact ih _ _

theorem getSourceLoop_ok_type (m : List Ent) (fuel i : Nat) (e r : Ent)
    (h : getSourceLoop m fuel i e = Outcome.ok r) : r.type ≠ EType.hardlink := by
  induction fuel generalizing i e with
  | zero => unfold getSourceLoop at h; simp at h
  | succ f ih =>
    unfold getSourceLoop at h
    split at h
    · rename_i hne
      cases h; exact hne
    · split at h
      · simp at h
      · split at h
        · simp at h
        · exact ih _ _ h

/-- The result is the entry itself or an entry of the table. -/
theorem getSourceLoop_ok_mem (m : List Ent) (fuel i : Nat) (e r : Ent)
    (h : getSourceLoop m fuel i e = Outcome.ok r) : r = e ∨ ∃ n, lookup m n = some r := by
  induction fuel generalizing i e with
  | zero => unfold getSourceLoop at h; simp at h
  | succ f ih =>
    unfold getSourceLoop at h
    split at h
    · cases h; exact Or.inl rfl
    · split at h
      · simp at h
      · split at h
        · simp at h
        · rename_i org hl
          rcases ih _ _ h with h' | h'
          · exact Or.inr ⟨_, h' ▸ hl⟩
          · exact Or.inr h'

theorem getSourceLoop_succ (m : List Ent) (f i : Nat) (e : Ent) :
    getSourceLoop m (f + 1) i e =
      if e.type ≠ EType.hardlink then Outcome.ok e
      else if i > m.length then Outcome.err
      else match lookup m e.link with
        | none => Outcome.err
        | some org => getSourceLoop m f (i + 1) org := by
  conv => lhs; unfold getSourceLoop
  split
  · rfl
  · split
    · rfl
    · cases lookup m e.link <;> rfl

/-- One more unit of fuel changes nothing once `fuel + i` exceeds the loop bound of the Go code. -/
theorem getSourceLoop_fuel (m : List Ent) (f i : Nat) (e : Ent) (h : m.length + 2 ≤ (f + 1) + i) :
    getSourceLoop m (f + 2) i e = getSourceLoop m (f + 1) i e := by
  induction f generalizing i e with
  | zero =>
    rw [getSourceLoop_succ m 1, getSourceLoop_succ m 0]
    by_cases h1 : e.type ≠ EType.hardlink
    · simp [h1]
    · have hi : i > m.length := by omega
      simp [h1, hi]
  | succ f ih =>
    rw [getSourceLoop_succ m (f + 1 + 1), getSourceLoop_succ m (f + 1)]
    by_cases h1 : e.type ≠ EType.hardlink
    · simp [h1]
    · by_cases h2 : i > m.length
      · simp [h1, h2]
      · simp only [h1, h2, if_false]
        cases lookup m e.link with
        | none => rfl
        | some org => exact ih _ _ (by omega)

theorem getSource_fuel_sufficient (m : List Ent) (e : Ent) (k : Nat) :
    getSourceLoop m (m.length + 3 + k) 0 e = getSource m e := by
  induction k with
  | zero => rfl
  | succ k ih =>
    rw [← ih]
    have := getSourceLoop_fuel m (m.length + 2 + k) 0 e (by omega)
    have e1 : m.length + 3 + (k + 1) = m.length + 2 + k + 2 := by omega
    have e2 : m.length + 3 + k = m.length + 2 + k + 1 := by omega
    rw [e1, e2]; exact this

/-! ## The entry tree -/

/-- A child edge either leads to the name `base :: parent` (one component longer than the
parent) or to an entry that is not a directory. -/
def EdgeOK (e : Edge) : Prop := e.target = e.base :: e.parent ∨ e.ttype ≠ EType.dir

def EdgesOK (es : List Edge) : Prop := ∀ e ∈ es, EdgeOK e

theorem edgesOK_addEdge {es : List Edge} {e : Edge} (hes : EdgesOK es) (he : EdgeOK e) : EdgesOK (addEdge es e) := by
  intro x hx
  unfold addEdge at hx
  rcases List.mem_cons.mp hx with hx | hx
  · rw [hx]; exact he
  · exact hes x (List.mem_filter.mp hx).1

theorem getOrCreateDir_edgesOK (t : Tree) (n : Name) (h : EdgesOK t.edges) : EdgesOK (getOrCreateDir t n).edges := by
  induction n generalizing t with
  | nil =>
    unfold getOrCreateDir
    split
    · exact h
    · exact h
  | cons b p ih =>
    unfold getOrCreateDir
    split
    · exact h
    · apply edgesOK_addEdge
      · exact ih _ h
      · exact Or.inl rfl

theorem treeStep_edgesOK (t t' : Tree) (e : Ent) (h : EdgesOK t.edges) (hs : treeStep t e = Outcome.ok t') :
    EdgesOK t'.edges := by
  unfold treeStep at hs
  split at hs
  · cases hs; exact h
  · split at hs
    · cases hs; exact h
    · rename_i base pdir hname
      simp only [] at hs
      split at hs
      · split at hs
        · rename_i org hgs
          split at hs
          · simp at hs
          · rename_i hnd
            cases hs
            exact edgesOK_addEdge (getOrCreateDir_edgesOK t pdir h) (Or.inr hnd)
        · simp at hs
        · simp at hs
      · cases hs
        refine edgesOK_addEdge (getOrCreateDir_edgesOK t pdir h) (Or.inl ?_)
        exact hname

theorem treeLoop_edgesOK (ents : List Ent) (t t' : Tree) (h : EdgesOK t.edges) (hs : treeLoop ents t = Outcome.ok t') :
    EdgesOK t'.edges := by
  induction ents generalizing t with
  | nil => unfold treeLoop at hs; cases hs; exact h
  | cons e es ih =>
    unfold treeLoop at hs
    split at hs
    · rename_i t1 h1
      exact ih t1 (treeStep_edgesOK t t1 e h h1) hs
    · simp at hs
    · simp at hs

/-- `k` consecutive child edges that all lead to directories, from `a` down to `b`. -/
inductive DirChain (es : List Edge) : Name → Name → Nat → Prop where
  | nil (n : Name) : DirChain es n n 0
  | step {a b : Name} {k : Nat} (e : Edge) : DirChain es a b k → e ∈ es → e.parent = b →
      e.ttype = EType.dir → DirChain es a e.target (k + 1)

theorem dirChain_length {es : List Edge} (hes : EdgesOK es) {a b : Name} {k : Nat} (h : DirChain es a b k) :
    b.length = a.length + k := by
  induction h with
  | nil => simp
  | step e _ hm hp ht ih =>
    rcases hes e hm with h1 | h1
    · rw [h1, List.length_cons, hp, ih]; omega
    · exact absurd ht h1

/-! ### Every walker: an edge leads one component deeper or to a hardlink source -/

/-- Invariant of the second loop of `initFields`. -/
def EdgeOK2 (srcs : List Name) (e : Edge) : Prop := e.target = e.base :: e.parent ∨ e.target ∈ srcs

def EdgesOK2 (srcs : List Name) (es : List Edge) : Prop := ∀ e ∈ es, EdgeOK2 srcs e

theorem edgesOK2_addEdge {srcs : List Name} {es : List Edge} {e : Edge} (hes : EdgesOK2 srcs es)
    (he : EdgeOK2 srcs e) : EdgesOK2 srcs (addEdge es e) := by
  intro x hx
  unfold addEdge at hx
  rcases List.mem_cons.mp hx with hx | hx
  · rw [hx]; exact he
  · exact hes x (List.mem_filter.mp hx).1

theorem edgesOK2_mono {srcs : List Name} {s : Name} {es : List Edge} (hes : EdgesOK2 srcs es) :
    EdgesOK2 (s :: srcs) es := by
  intro x hx
  rcases hes x hx with h | h
  · exact Or.inl h
  · exact Or.inr (List.mem_cons_of_mem _ h)

theorem getOrCreateDir_sources (t : Tree) (n : Name) : (getOrCreateDir t n).sources = t.sources := by
  induction n generalizing t with
  | nil => unfold getOrCreateDir; split <;> rfl
  | cons b p ih =>
    unfold getOrCreateDir
    split
    · rfl
    · simp only []
      rw [ih]

theorem getOrCreateDir_edgesOK2 (t : Tree) (n : Name) (srcs : List Name) (h : EdgesOK2 srcs t.edges) :
    EdgesOK2 srcs (getOrCreateDir t n).edges := by
  induction n generalizing t with
  | nil =>
    unfold getOrCreateDir
    split
    · exact h
    · exact h
  | cons b p ih =>
    unfold getOrCreateDir
    split
    · exact h
    · apply edgesOK2_addEdge
      · exact ih _ h
      · exact Or.inl rfl

theorem treeStep_edgesOK2 (t t' : Tree) (e : Ent) (h : EdgesOK2 t.sources t.edges)
    (hs : treeStep t e = Outcome.ok t') : EdgesOK2 t'.sources t'.edges := by
  unfold treeStep at hs
  split at hs
  · cases hs; exact h
  · split at hs
    · cases hs; exact h
    · rename_i base pdir hname
      simp only [] at hs
      have hg : EdgesOK2 t.sources (getOrCreateDir t pdir).edges := getOrCreateDir_edgesOK2 t pdir _ h
      have hsrc := getOrCreateDir_sources t pdir
      split at hs
      · split at hs
        · rename_i org hgs
          split at hs
          · simp at hs
          · cases hs
            simp only []
            rw [hsrc]
            exact edgesOK2_addEdge (edgesOK2_mono hg) (Or.inr (List.mem_cons_self ..))
        · simp at hs
        · simp at hs
      · cases hs
        simp only []
        rw [hsrc]
        exact edgesOK2_addEdge hg (Or.inl hname)

theorem treeLoop_edgesOK2 (ents : List Ent) (t t' : Tree) (h : EdgesOK2 t.sources t.edges)
    (hs : treeLoop ents t = Outcome.ok t') : EdgesOK2 t'.sources t'.edges := by
  induction ents generalizing t with
  | nil => unfold treeLoop at hs; cases hs; exact h
  | cons e es ih =>
    unfold treeLoop at hs
    split at hs
    · rename_i t1 h1
      exact ih t1 (treeStep_edgesOK2 t t1 e h h1) hs
    · simp at hs
    · simp at hs

/-- What `initTree` accepts: the tree the loop built, with every hardlink source childless. -/
theorem initTree_ok (ents : List Ent) (t : Tree) (h : initTree ents = Outcome.ok t) :
    treeLoop ents ⟨(ents.filter (fun e => e.type ≠ EType.chunk)).reverse, [], []⟩ = Outcome.ok t ∧
      ∀ s ∈ t.sources, hasChild t.edges s = false := by
  unfold initTree at h
  split at h
  · rename_i t0 h0
    split at h
    · simp at h
    · rename_i hany
      cases h
      refine ⟨h0, ?_⟩
      intro s hs
      have := hany
      simp only [List.any_eq_true, not_exists, not_and, Bool.not_eq_true] at this
      exact this s hs
  · simp at h
  · simp at h

/-- `k` consecutive child edges of any kind from `a` down to `b`. -/
inductive Chain (es : List Edge) : Name → Name → Nat → Prop where
  | nil (n : Name) : Chain es n n 0
  | step {a b : Name} {k : Nat} (e : Edge) : Chain es a b k → e ∈ es → e.parent = b →
      Chain es a e.target (k + 1)

/-- Final form of the invariant: an edge leads one component deeper or to a childless entry. -/
def EdgesLeafOrDeeper (es : List Edge) : Prop :=
  ∀ e ∈ es, e.target = e.base :: e.parent ∨ hasChild es e.target = false

theorem hasChild_of_mem {es : List Edge} {e : Edge} (h : e ∈ es) : hasChild es e.parent = true := by
  unfold hasChild
  simp only [List.any_eq_true, decide_eq_true_eq]
  exact ⟨e, h, rfl⟩

/-- A node with children that is reached after `k` steps lies exactly `k` components deeper. -/
theorem chain_length {es : List Edge} (hes : EdgesLeafOrDeeper es) {a b : Name} {k : Nat}
    (h : Chain es a b k) (hb : hasChild es b = true) : b.length = a.length + k := by
  induction h with
  | nil => simp
  | step e _ hm hp ih =>
    rcases hes e hm with h1 | h1
    · have hpar : hasChild es e.parent = true := hasChild_of_mem hm
      rw [hp] at hpar
      rw [h1, List.length_cons, hp, ih hpar]; omega
    · rw [h1] at hb; exact absurd hb (by simp)

theorem chain_zero {es : List Edge} {a b : Name} (h : Chain es a b 0) : a = b := by
  cases h; rfl

theorem chain_start_hasChild {es : List Edge} {a b : Name} {k : Nat} (h : Chain es a b k) (hk : 0 < k) :
    hasChild es a = true := by
  induction h with
  | nil => omega
  | step e hc hm hp ih =>
    rename_i b' k'
    by_cases h0 : k' = 0
    · subst h0
      have := chain_zero hc
      rw [this, ← hp]; exact hasChild_of_mem hm
    · exact ih (by omega)

/-- hardlink edges never end in a hardlink entry. -/
theorem treeStep_no_panic (t : Tree) (e : Ent) : treeStep t e ≠ Outcome.panic := by
  unfold treeStep
  split
  · simp
  · split
    · simp
    · simp only []
      split
      · split
        · split <;> simp
        · simp
        · rename_i hp
          exact absurd hp (getSourceLoop_no_panic _ _ _ _)
      · simp

theorem treeLoop_no_panic (ents : List Ent) (t : Tree) : treeLoop ents t ≠ Outcome.panic := by
  induction ents generalizing t with
  | nil => unfold treeLoop; simp
  | cons e es ih =>
    unfold treeLoop
    split
    · exact ih _
    · simp
    · rename_i hp
      exact absurd hp (treeStep_no_panic t e)

/-! ## fs/reader `file.ReadAt` -/

/-- What is left to assume about a chunk triple since `chunkContains` (95288ee) checks the rest:
the numbers are `int64`s (they are, in Go) and the size is one the process is able to allocate. -/
structure ChunkSane (bound : Int) (c : Chunk) : Prop where
  co64 : I64 c.co
  cs64 : I64 c.cs
  grow : c.cs ≤ bound

theorem clampN_bounds (n len : Int) (h : 0 ≤ len) : 0 ≤ clampN n len ∧ clampN n len ≤ len := by
  unfold clampN; split
  · omega
  · split <;> omega

theorem clampN_pos (n len : Int) (hn : 0 < n) (hl : 0 < len) : 0 < clampN n len := by
  unfold clampN; split
  · omega
  · split <;> omega

theorem hitRes_spec (c : Chunk) (nr expected lenP : Int) (hnr : 0 ≤ nr) (he0 : 0 < expected)
    (he1 : expected ≤ lenP - nr) :
    hitRes c nr expected lenP ≠ Outcome.panic ∧ hitRes c nr expected lenP ≠ Outcome.err ∧
      ∀ n, hitRes c nr expected lenP = Outcome.ok (some n) → n = expected := by
  unfold hitRes
  split
  · simp
  · have h : slice? nr (nr + expected) lenP = Outcome.ok () := by
      unfold slice?; rw [if_pos]; omega
    rw [h]
    simp only []
    split
    · simp
    · simp

theorem chunkContains_true {co cs pos : Int} (h : ¬ (chunkContains co cs pos = false)) :
    cs > 0 ∧ co ≥ 0 ∧ cs ≤ 9223372036854775807 - co ∧ co ≤ pos ∧ pos - co < cs := by
  unfold chunkContains at h
  simpa using h

/-- Once the chunk contains the current position `off + nr` nothing in the discards wraps: they
have their mathematical values, whatever `int64`s the offset, the length and the chunk are. -/
theorem discards_exact (lenP off nr : Int) (c : Chunk) (hoff : I64 off) (hnr : 0 ≤ nr) (hnr2 : nr < lenP)
    (hl : lenP < 9223372036854775808)
    (hg : c.cs > 0 ∧ c.co ≥ 0 ∧ c.cs ≤ 9223372036854775807 - c.co ∧ c.co ≤ wrap64 (off + nr) ∧
      wrap64 (off + nr) - c.co < c.cs) :
    0 ≤ off + nr ∧ off + nr < 9223372036854775808 ∧
      lowerOf off c = positive (off - c.co) ∧
      upperOf lenP off c = positive (c.co + c.cs - (off + lenP)) ∧
      expectedOf c (lowerOf off c) (upperOf lenP off c) =
        c.cs - positive (c.co + c.cs - (off + lenP)) - positive (off - c.co) := by
  obtain ⟨ho1, ho2⟩ := hoff
  obtain ⟨g1, g2, g3, g4, g5⟩ := hg
  have hP : 0 ≤ off + nr ∧ off + nr < 9223372036854775808 := by
    unfold wrap64 at g4; omega
  have hwP : wrap64 (off + nr) = off + nr := wrap64_id _ (by omega) (by omega)
  rw [hwP] at g4 g5
  have hlo : lowerOf off c = positive (off - c.co) := by
    unfold lowerOf; rw [wrap64_id _ (by omega) (by omega)]
  have hup : upperOf lenP off c = positive (c.co + c.cs - (off + lenP)) := by
    unfold upperOf
    rw [wrap64_id (c.co + c.cs) (by omega) (by omega)]
    by_cases hq : off + lenP < 9223372036854775808
    · rw [wrap64_id (off + lenP) (by omega) hq, wrap64_id _ (by omega) (by omega)]
    · -- `offset + len(p)` wraps to a negative number; the difference wraps back below zero
      have e1 : wrap64 (off + lenP) = off + lenP - 18446744073709551616 := by unfold wrap64; omega
      rw [e1]
      have e2 : wrap64 (c.co + c.cs - (off + lenP - 18446744073709551616)) = c.co + c.cs - (off + lenP) := by
        unfold wrap64; omega
      rw [e2]
  refine ⟨hP.1, hP.2, hlo, hup, ?_⟩
  rw [hlo, hup]
  unfold expectedOf
  have hu0 : 0 ≤ positive (c.co + c.cs - (off + lenP)) := positive_nonneg _
  have hu1 : positive (c.co + c.cs - (off + lenP)) ≤ c.co + c.cs := by unfold positive; split <;> omega
  have hl0 : 0 ≤ positive (off - c.co) := positive_nonneg _
  have hl1 : positive (off - c.co) ≤ off + nr - c.co := by unfold positive; split <;> omega
  rw [wrap64_id (c.cs - positive (c.co + c.cs - (off + lenP))) (by omega) (by omega)]
  rw [wrap64_id _ (by omega) (by omega)]

theorem missPath_spec (bound lenP nr off : Int) (c : Chunk) (hoff : I64 off) (hl : lenP < 9223372036854775808)
    (hnr : 0 ≤ nr) (hnr2 : nr < lenP) (hc : ChunkSane bound c)
    (hg : ¬ (chunkContains c.co c.cs (wrap64 (off + nr)) = false))
    (he0 : 0 < expectedOf c (lowerOf off c) (upperOf lenP off c))
    (he1 : expectedOf c (lowerOf off c) (upperOf lenP off c) ≤ lenP - nr) :
    (missPath bound lenP nr c (lowerOf off c) (upperOf lenP off c)
        (expectedOf c (lowerOf off c) (upperOf lenP off c))).2 ≠ Outcome.panic ∧
      ∀ n, (missPath bound lenP nr c (lowerOf off c) (upperOf lenP off c)
        (expectedOf c (lowerOf off c) (upperOf lenP off c))).2 = Outcome.ok n →
        0 ≤ n ∧ n ≤ lenP - nr ∧ (0 < c.n → 0 < n) := by
  have hgg := chunkContains_true hg
  obtain ⟨_, _, hlo, hup, hexp⟩ := discards_exact lenP off nr c hoff hnr hnr2 hl hgg
  obtain ⟨hcs, hco, _, _, _⟩ := hgg
  have hlo0 : 0 ≤ lowerOf off c := by rw [hlo]; exact positive_nonneg _
  have hup0 : 0 ≤ upperOf lenP off c := by rw [hup]; exact positive_nonneg _
  have hexp' : expectedOf c (lowerOf off c) (upperOf lenP off c) = c.cs - upperOf lenP off c - lowerOf off c := by
    rw [hexp, hlo, hup]
  rw [hexp'] at he0 he1 ⊢
  have hgrow := hc.grow
  generalize lowerOf off c = lower at *
  generalize upperOf lenP off c = upper at *
  unfold missPath
  by_cases hz : lower = 0 ∧ upper = 0
  · rw [if_pos hz]
    obtain ⟨hz1, hz2⟩ := hz
    subst hz1 hz2
    have h : slice? nr (nr + c.cs) lenP = Outcome.ok () := by
      unfold slice?; rw [if_pos]; omega
    rw [h]
    refine ⟨by simp, ?_⟩
    intro n hn
    simp only [Outcome.ok.injEq] at hn
    subst hn
    have := clampN_bounds c.n c.cs (by omega)
    exact ⟨this.1, by omega, fun hp => clampN_pos _ _ hp hcs⟩
  · rw [if_neg hz]
    have hb : ¬ c.cs > bound := by omega
    rw [if_neg hb]
    have h1 : slice? 0 c.cs c.cs = Outcome.ok () := by unfold slice?; rw [if_pos]; omega
    have h2 : slice? lower (c.cs - upper) c.cs = Outcome.ok () := by unfold slice?; rw [if_pos]; omega
    have h3 : slice? nr lenP lenP = Outcome.ok () := by unfold slice?; rw [if_pos]; omega
    rw [h1, h2, h3]
    simp only []
    have hmin : (if lenP - nr < c.cs - upper - lower then lenP - nr else c.cs - upper - lower) = c.cs - upper - lower := by
      split <;> omega
    rw [hmin]
    simp only [ne_eq, not_true_eq_false, if_false]
    refine ⟨by simp, ?_⟩
    intro n hn
    simp only [Outcome.ok.injEq] at hn
    subst hn
    exact ⟨by omega, he1, fun _ => he0⟩

def isC : REv → Bool
  | REv.chunkAt _ => true
  | _ => false

/-- Number of loop iterations = number of `ChunkEntryForOffset` calls. -/
def countC (evs : List REv) : Nat := (evs.filter isC).length

theorem countC_append (a b : List REv) : countC (a ++ b) = countC a + countC b := by
  unfold countC; simp

theorem missPath_noC (bound lenP nr : Int) (c : Chunk) (lower upper expected : Int) :
    countC (missPath bound lenP nr c lower upper expected).1 = 0 := by
  unfold missPath
  split
  · split <;> simp [countC, isC]
  · split
    · simp [countC, isC]
    · split
      · simp only []
        split <;> split <;> simp [countC, isC]
      · simp [countC, isC]

theorem readLoop_spec (bound lenP off : Int) (script : List Chunk) (nr : Int) (evs : List REv)
    (hoff : I64 off) (hl : lenP < 9223372036854775808) (hnr : 0 ≤ nr)
    (hs : ∀ c ∈ script, ChunkSane bound c) :
    (readLoop bound lenP off script nr evs).2 ≠ Outcome.panic ∧
      ((∀ c ∈ script, 0 < c.n) →
        (countC (readLoop bound lenP off script nr evs).1 : Int) ≤ countC evs + (if nr < lenP then lenP - nr else 0) + 1) := by
  induction script generalizing nr evs with
  | nil =>
    unfold readLoop
    split
    · refine ⟨by simp, fun _ => ?_⟩
      show (countC evs : Int) ≤ _
      split <;> omega
    · refine ⟨by simp, fun _ => ?_⟩
      show (countC (evs ++ [REv.chunkAt (wrap64 (off + nr))]) : Int) ≤ _
      rw [countC_append]
      have : countC [REv.chunkAt (wrap64 (off + nr))] = 1 := rfl
      rw [this]
      split <;> omega
  | cons c rest ih =>
    have hc := hs c (List.mem_cons_self ..)
    have hrest : ∀ c' ∈ rest, ChunkSane bound c' := fun c' h' => hs c' (List.mem_cons_of_mem _ h')
    unfold readLoop
    by_cases hdone : nr ≥ lenP
    · rw [if_pos hdone]
      refine ⟨by simp, fun _ => ?_⟩
      show (countC evs : Int) ≤ _
      split <;> omega
    · rw [if_neg hdone]
      have hlt : nr < lenP := by omega
      simp only []
      have hcnt : countC (evs ++ [REv.chunkAt (wrap64 (off + nr))]) = countC evs + 1 := by
        rw [countC_append]; rfl
      by_cases hg : chunkContains c.co c.cs (wrap64 (off + nr)) = false ∨
          expectedOf c (lowerOf off c) (upperOf lenP off c) ≤ 0 ∨
          expectedOf c (lowerOf off c) (upperOf lenP off c) > lenP - nr
      · rw [if_pos hg]
        refine ⟨by simp, fun _ => ?_⟩
        simp only []
        rw [hcnt, if_pos hlt]; omega
      · rw [if_neg hg]
        have hgc : ¬ (chunkContains c.co c.cs (wrap64 (off + nr)) = false) := fun h => hg (Or.inl h)
        have he0 : 0 < expectedOf c (lowerOf off c) (upperOf lenP off c) := by
          rcases Int.lt_or_le 0 (expectedOf c (lowerOf off c) (upperOf lenP off c)) with h | h
          · exact h
          · exact absurd (Or.inr (Or.inl h)) hg
        have he1 : expectedOf c (lowerOf off c) (upperOf lenP off c) ≤ lenP - nr := by
          rcases Int.lt_or_le (lenP - nr) (expectedOf c (lowerOf off c) (upperOf lenP off c)) with h | h
          · exact absurd (Or.inr (Or.inr h)) hg
          · exact h
        obtain ⟨hh1, hh2, hh3⟩ := hitRes_spec c nr _ lenP hnr he0 he1
        -- bound shared by both continuing branches
        have step : ∀ (n : Int) (evs' : List REv), 0 ≤ n → n ≤ lenP - nr → countC evs' = countC evs + 1 →
            (readLoop bound lenP off rest (nr + n) evs').2 ≠ Outcome.panic ∧
            ((∀ c' ∈ c :: rest, 0 < c'.n) → 0 < n →
              (countC (readLoop bound lenP off rest (nr + n) evs').1 : Int) ≤
                countC evs + (if nr < lenP then lenP - nr else 0) + 1) := by
          intro n evs' hn0 hn1 hcev
          obtain ⟨i1, i2⟩ := ih (nr + n) evs' (by omega) hrest
          refine ⟨i1, fun hall hnpos => ?_⟩
          have := i2 (fun c' h' => hall c' (List.mem_cons_of_mem _ h'))
          rw [hcev] at this
          rw [if_pos hlt]
          split at this <;> omega
        cases hhit : hitRes c nr (expectedOf c (lowerOf off c) (upperOf lenP off c)) lenP with
        | panic => exact absurd hhit hh1
        | err => exact absurd hhit hh2
        | ok o =>
          cases o with
          | some n =>
            have hn := hh3 n hhit
            subst hn
            simp only []
            obtain ⟨s1, s2⟩ := step _ _ (by omega) he1 hcnt
            exact ⟨s1, fun hall => s2 hall he0⟩
          | none =>
            simp only []
            obtain ⟨m1, m2⟩ := missPath_spec bound lenP nr off c hoff hl hnr hlt hc hgc he0 he1
            have mC := missPath_noC bound lenP nr c (lowerOf off c) (upperOf lenP off c)
              (expectedOf c (lowerOf off c) (upperOf lenP off c))
            rcases hmp : missPath bound lenP nr c (lowerOf off c) (upperOf lenP off c)
              (expectedOf c (lowerOf off c) (upperOf lenP off c)) with ⟨e2, r⟩
            rw [hmp] at m1 m2 mC
            have hcev : countC (evs ++ [REv.chunkAt (wrap64 (off + nr))] ++ e2) = countC evs + 1 := by
              rw [countC_append, hcnt]; simp only [] at mC; omega
            cases r with
            | panic => exact absurd rfl m1
            | err =>
              refine ⟨by simp, fun _ => ?_⟩
              simp only []
              rw [hcev, if_pos hlt]; omega
            | ok n =>
              simp only []
              obtain ⟨n0, n1, n2⟩ := m2 n rfl
              obtain ⟨s1, s2⟩ := step n _ n0 n1 hcev
              exact ⟨s1, fun hall => s2 hall (n2 (hall c (List.mem_cons_self ..)))⟩

/-! ## Footers: an accepted gzip footer names a non-negative TOC offset (18babb7) -/

theorem parse_tail_nonneg (o : Option Int) (f : Footer)
    (h : (match o with
     | none => (Outcome.err : Outcome Footer)
     | some off => if off < 0 then Outcome.err else Outcome.ok ⟨off, off, 0⟩) = Outcome.ok f) : 0 ≤ f.tocOffset := by
  cases o with
  | none => simp at h
  | some off =>
    simp only [] at h
    split at h
    · simp at h
    · cases h; simp only []; omega

theorem legacyFooter_nonneg (len : Nat) (hdr : Option (List UInt8)) (f : Footer)
    (h : legacyFooter len hdr = Outcome.ok f) : 0 ≤ f.tocOffset := by
  unfold legacyFooter at h
  split at h
  · simp at h
  · split at h
    · simp at h
    · rename_i extra
      split at h
      · simp at h
      · rename_i h22
        have h22 : extra.length = 22 := by simpa using h22
        rw [sliceB_ok extra 16 extra.length (by omega) (Nat.le_refl _)] at h
        simp only [ok_bind] at h
        split at h
        · simp at h
        · rw [sliceB_ok extra 0 16 (by omega) (by omega)] at h
          simp only [ok_bind] at h
          exact parse_tail_nonneg _ f h

theorem gzipFooter_nonneg (len : Nat) (hdr : Option (List UInt8)) (f : Footer)
    (h : gzipFooter len hdr = Outcome.ok f) : 0 ≤ f.tocOffset := by
  unfold gzipFooter at h
  split at h
  · simp at h
  · split at h
    · simp at h
    · rename_i extra
      split at h
      · simp at h
      · rename_i h4
        have h4 : 4 ≤ extra.length := by omega
        rw [indexB_ok extra 0 (by omega), indexB_ok extra 1 (by omega),
          sliceB_ok extra 2 4 (by omega) h4, sliceB_ok extra 4 extra.length h4 (Nat.le_refl _)] at h
        simp only [ok_bind] at h
        split at h
        · simp at h
        · obtain ⟨n, hn⟩ := le16_ok ((extra.drop 2).take (4 - 2)) (by simp; omega)
          rw [hn] at h
          simp only [ok_bind] at h
          split at h
          · simp at h
          · split at h
            · simp at h
            · rename_i hlen
              have hlen : ((extra.drop 4).take (extra.length - 4)).length = 22 := by
                simpa using hlen
              rw [sliceB_ok _ 16 _ (by omega) (Nat.le_refl _)] at h
              simp only [ok_bind] at h
              split at h
              · simp at h
              · rw [sliceB_ok _ 0 16 (by omega) (by omega)] at h
                simp only [ok_bind] at h
                exact parse_tail_nonneg _ f h
