/-
Lemmas for the end-to-end composition (SV/Model/E2E.lean): commutation of the three models'
representations (member table <-> blob bytes, TOC groups <-> chunk tables, tar entries <-> file
ids) and the two-level histories.  Core-only.
-/
import SV.Model.E2E
import SV.Lemmas.Writer
import SV.Lemmas.Blob
import SV.Lemmas.LazyRead

namespace SV.E2E
open SV.Writer (Member TocEnt TarEnt Kind Forall2 EntryToc Group keep IndexOK AllPos UniqueRegNames
  sumClen findMember effSize expect specRead)

/-! ## The codec premise -/

/-- The codec premise: on the members the Writer emitted, `enc` produces exactly `clen` bytes (the
count the Writer's counting writer saw) and `dec` is its inverse. Nothing else is assumed. -/
structure CodecInverse (C : Codec) (ms : List Member) : Prop where
  len : ∀ m ∈ ms, (C.enc m).length = m.clen
  inv : ∀ m ∈ ms, C.dec (C.enc m) = some m.payload

theorem flatMap_enc_length (C : Codec) : ∀ (ms : List Member),
    (∀ m ∈ ms, (C.enc m).length = m.clen) → (ms.flatMap C.enc).length = sumClen ms
  | [], _ => rfl
  | m :: ms, h => by
    simp only [List.flatMap_cons, List.length_append, Writer.sumClen_cons]
    rw [h m (by simp), flatMap_enc_length C ms (fun x hx => h x (by simp [hx]))]

/-- The compressed bytes of a member sit in the blob at the member's offset. -/
theorem slice_member (L : Layer) (init rest : List Member) (m : Member)
    (hms : L.members = init ++ m :: rest) (hlen : ∀ m ∈ L.members, (L.codec.enc m).length = m.clen) :
    Blob.slice L.bytes (sumClen init) m.clen = L.codec.enc m ∧
      sumClen init + m.clen ≤ L.bytes.length := by
  have hi : (init.flatMap L.codec.enc).length = sumClen init :=
    flatMap_enc_length _ init (fun x hx => hlen x (by rw [hms]; simp [hx]))
  have hm : (L.codec.enc m).length = m.clen := hlen m (by rw [hms]; simp)
  have hb : L.bytes = init.flatMap L.codec.enc ++
      (L.codec.enc m ++ (rest.flatMap L.codec.enc ++ L.footer)) := by
    simp [Layer.bytes, hms, List.flatMap_append, List.append_assoc]
  refine ⟨?_, ?_⟩
  · rw [hb, Blob.slice, ← hi, List.drop_left, ← hm, List.take_left]
  · rw [hb]; simp only [List.length_append]; omega

theorem findMember_split : ∀ (ms : List Member) (s off : Nat) (m : Member),
    findMember ms s off = some m → ∃ init rest, ms = init ++ m :: rest ∧ s + sumClen init = off
  | [], _, _, _, h => by simp [findMember] at h
  | x :: xs, s, off, m, h => by
    simp only [findMember] at h
    split at h
    · cases h; rename_i he; exact ⟨[], xs, rfl, by simp [he]⟩
    · obtain ⟨init, rest, h1, h2⟩ := findMember_split xs _ off m h
      exact ⟨x :: init, rest, by simp [h1], by simp only [Writer.sumClen_cons]; omega⟩

/-- A full-range blob read that succeeds returns the blob's bytes (C06, for a remote cache that
may hold truncated entries). -/
theorem blobRange_exact (P : Blob.Params) (B : Bytes) (hc : 0 < P.chunk) (hB : B.length = P.size)
    (s : Blob.St) (hs : Blob.InvQ P (Blob.QPrefix P B) s) (reply : Blob.Reply)
    (hr : Blob.HonestReply B reply) (o n : Nat) (hin : o + n ≤ P.size) (cb : Bytes)
    (h : (blobRange P s reply o n).2 = some cb) : cb = Blob.slice B o n := by
  obtain ⟨_, _, h3⟩ := Blob.readAt_specQ P B _ (Blob.goodQ_prefix P B) hc hB s hs o n reply hr
  unfold blobRange at h
  rcases hra : Blob.readAt P s o n reply with ⟨s', r⟩
  rw [hra] at h h3
  have hmin : min n (P.size - o) = n := by omega
  rcases h3 with h3 | ⟨buf, h4, _, h5⟩
  · simp only at h3; subst h3; simp at h
  · simp only at h4; subst h4
    rw [hmin] at h h5
    simp only [if_true, Option.some.injEq] at h
    rw [← h, h5]

/-! ## TOC groups -/

theorem splitGo_chunks (t rest : List TocEnt) (ht : ∀ x ∈ t, x.typ = .chunk) :
    splitGo (t ++ rest) = (t ++ (splitGo rest).1, (splitGo rest).2) := by
  induction t with
  | nil => simp
  | cons x t ih =>
    have hx : x.typ = .chunk := ht x (by simp)
    simp only [List.cons_append, splitGo, hx, if_true]
    rw [ih (fun y hy => ht y (by simp [hy]))]

/-- A group: one non-`chunk` entry, then `chunk` entries. -/
def HeadGroup (g : List TocEnt) : Prop :=
  ∃ x t, g = x :: t ∧ x.typ ≠ .chunk ∧ ∀ y ∈ t, y.typ = .chunk

theorem splitGo_groups : ∀ (gs : List (List TocEnt)), (∀ g ∈ gs, HeadGroup g) →
    splitGo gs.flatten = ([], gs)
  | [], _ => rfl
  | g :: gs, h => by
    obtain ⟨x, t, rfl, hx, ht⟩ := h g (by simp)
    have ih := splitGo_groups gs (fun g' hg' => h g' (by simp [hg']))
    simp only [List.flatten_cons, List.cons_append, splitGo, hx, if_false]
    rw [splitGo_chunks t _ ht, ih]; simp

theorem group_false_chunks {name : String} {total : Nat} :
    ∀ {pos : Nat} {g : List TocEnt}, Group name total false pos g → ∀ y ∈ g, y.typ = .chunk := by
  intro pos g
  induction g generalizing pos with
  | nil => intro _ y hy; simp at hy
  | cons e es ih =>
    intro hg y hy
    simp only [Group] at hg
    rcases List.mem_cons.mp hy with rfl | hy
    · simpa using hg.2.1
    · exact ih hg.2.2.2.2.2.2 y hy

theorem entryToc_headGroup {e : TarEnt} {g : List TocEnt} (h : EntryToc e g) : HeadGroup g := by
  obtain ⟨hsup, h⟩ := h
  split at h
  · rename_i hc
    cases g with
    | nil =>
      simp only [Group] at h
      exact absurd (List.length_eq_zero_iff.mp h.symm) hc.2
    | cons x t =>
      simp only [Group] at h
      exact ⟨x, t, rfl, by rw [h.2.1]; simp, group_false_chunks h.2.2.2.2.2.2⟩
  · subst h
    refine ⟨_, [], rfl, ?_, by simp⟩
    intro hc
    simp only at hc
    rw [hc] at hsup
    simp [Writer.supported] at hsup

theorem forall2_all {α β : Type} {R : α → β → Prop} {Q : β → Prop} (hQ : ∀ a b, R a b → Q b) :
    ∀ {as : List α} {bs : List β}, Forall2 R as bs → ∀ b ∈ bs, Q b := by
  intro as bs h
  induction h with
  | nil => intro b hb; simp at hb
  | cons hr _ ih =>
    intro b hb
    rcases List.mem_cons.mp hb with rfl | hb
    · exact hQ _ _ hr
    · exact ih b hb

theorem forall2_get {α β : Type} {R : α → β → Prop} :
    ∀ {as : List α} {bs : List β}, Forall2 R as bs → ∀ j : Nat,
      (as[j]? = none ∧ bs[j]? = none) ∨ ∃ a b, as[j]? = some a ∧ bs[j]? = some b ∧ R a b := by
  intro as bs h
  induction h with
  | nil => intro j; left; simp
  | cons hr _ ih =>
    intro j
    cases j with
    | zero => right; exact ⟨_, _, by simp, by simp, hr⟩
    | succ j => simpa using ih j

theorem groupsOf_flatten {es : List TarEnt} {gs : List (List TocEnt)}
    (h : Forall2 EntryToc es gs) : groupsOf gs.flatten = gs := by
  unfold groupsOf
  rw [splitGo_groups gs (forall2_all (fun _ _ hr => entryToc_headGroup hr) h)]

theorem group_contig {name : String} {total : Nat} :
    ∀ {first : Bool} {pos : Nat} {g : List TocEnt}, Group name total first pos g →
      LazyRead.Contig pos (g.map (chunkOf total)) ∧
        pos + LazyRead.total (g.map (chunkOf total)) = total := by
  intro first pos g
  induction g generalizing first pos with
  | nil =>
    intro h
    have h' : pos = total := by simpa [Group] using h
    simp [LazyRead.Contig, LazyRead.total, h']
  | cons e es ih =>
    intro h
    simp only [Group] at h
    obtain ⟨_, _, _, h4, h5, _, h7⟩ := h
    obtain ⟨i1, i2⟩ := ih h7
    simp only [List.map_cons, LazyRead.Contig, LazyRead.total, chunkOf]
    exact ⟨⟨h4, h5, i1⟩, by omega⟩

/-! ## What the Writer theorems (C03) give about a built blob -/

/-- The facts about a built blob the composition uses; `built_of_build` / `built_of_writerRun`
(Props/C02e2e.lean) obtain them from C03's theorems. -/
structure Built (ents : List TarEnt) (ms : List Member) (toc : List TocEnt) : Prop where
  pos : AllPos ms
  index : IndexOK ms ents toc
  groups : ∃ gs, toc = gs.flatten ∧ Forall2 EntryToc (keep ents) gs
  uniq : UniqueRegNames ents

theorem content_eq (ents : List TarEnt) (j : Nat) :
    content ents j = match (keep ents)[j]? with
      | some e => if e.typ = .reg then e.data else []
      | none => [] := rfl

/-- File `j` is either "no data" on both sides, or a non-empty regular file whose TOC group is
its chunk list. -/
theorem fileGroup_spec {ents : List TarEnt} {ms : List Member} {toc : List TocEnt}
    (h : Built ents ms toc) (j : Nat) :
    (fileGroup toc j = [] ∧ content ents j = []) ∨
    (∃ e, (keep ents)[j]? = some e ∧ e.typ = .reg ∧ e.data ≠ [] ∧ content ents j = e.data ∧
      Group e.name e.data.length true 0 (fileGroup toc j) ∧ fileSize toc j = e.data.length ∧
      ∀ x ∈ fileGroup toc j, x ∈ toc) := by
  obtain ⟨gs, htoc, hfa⟩ := h.groups
  have hg : groupsOf toc = gs := by rw [htoc]; exact groupsOf_flatten hfa
  rcases forall2_get hfa j with ⟨h1, h2⟩ | ⟨e, g, h1, h2, hr⟩
  · left
    simp [fileGroup, hg, h2, content_eq, h1]
  · obtain ⟨hsup, hr⟩ := hr
    split at hr
    · rename_i hc
      right
      cases g with
      | nil =>
        simp only [Group] at hr
        exact absurd (List.length_eq_zero_iff.mp hr.symm) hc.2
      | cons x t =>
        have hr' := hr
        simp only [Group] at hr
        have hlen : 0 < e.data.length := List.length_pos_iff.mpr hc.2
        have hfg : fileGroup toc j = x :: t := by
          simp only [fileGroup, hg, h2]
          rw [if_pos]
          refine ⟨by rw [hr.2.1]; simp, ?_⟩
          rw [hr.2.2.1]; simpa using hlen
        refine ⟨e, h1, hc.1, hc.2, by simp [content_eq, h1, hc.1], by rw [hfg]; exact hr', ?_, ?_⟩
        · simp only [fileSize, hfg]; rw [hr.2.2.1]; simp
        · intro y hy
          rw [hfg] at hy
          rw [htoc]
          exact List.mem_flatten.mpr ⟨x :: t, List.mem_of_getElem? h2, hy⟩
    · rename_i hc
      left
      subst hr
      refine ⟨by simp [fileGroup, hg, h2], ?_⟩
      simp only [content_eq, h1]
      split
      · rename_i hreg
        by_cases hd : e.data = []
        · exact hd
        · exact absurd ⟨hreg, hd⟩ hc
      · rfl

/-- C03's tiling gives C02's `WF` (Contig, cover, size) for EVERY file id. -/
theorem wf_file {ents : List TarEnt} {ms : List Member} {toc : List TocEnt}
    (h : Built ents ms toc) (v : LazyRead.Variant) (j : Nat) :
    LazyRead.WF (content ents) (fileInfo v toc j) := by
  rcases fileGroup_spec h j with ⟨h1, h2⟩ | ⟨e, _, _, _, h4, h5, h6, _⟩
  · refine ⟨?_, ?_, ?_⟩
    · simp [fileInfo, fileTable, h1, LazyRead.Contig]
    · simp [fileInfo, fileTable, h1, LazyRead.total, h2]
    · simp [fileInfo, fileSize, h1, h2]
  · obtain ⟨i1, i2⟩ := group_contig h5
    refine ⟨?_, ?_, ?_⟩
    · simpa [fileInfo, fileTable, h6] using i1
    · simp only [fileInfo, fileTable, h6, h4]; omega
    · simp [fileInfo, h6, h4]

/-! ## The concrete `Under` delivers the genuine chunk -/

theorem under_exact {ents : List TarEnt} {L : Layer} (h : Built ents L.members L.toc)
    (hcodec : CodecInverse L.codec L.members) (hc : 0 < L.blobChunk)
    (s : Blob.St) (hs : Blob.InvQ L.params (Blob.QPrefix L.params L.bytes) s)
    (reply : Blob.Reply) (hr : Blob.HonestReply L.bytes reply)
    (id : LazyRead.ChunkId) (b : Bytes) (hu : under L s reply id = some b) :
    b = LazyRead.trueChunk (content ents) id := by
  unfold under underSt at hu
  cases hfe : findEnt L.toc id with
  | none => simp [hfe] at hu
  | some x =>
    simp only [hfe] at hu
    cases hfm : findMember L.members 0 x.offset with
    | none => simp [hfm] at hu
    | some m =>
      simp only [hfm] at hu
      -- the entry belongs to the group of file `id.file`
      have hxm : x ∈ fileGroup L.toc id.file := List.mem_of_find?_eq_some hfe
      have hxp := List.find?_some hfe
      simp only [Bool.and_eq_true, decide_eq_true_eq] at hxp
      rcases fileGroup_spec h id.file with ⟨h1, _⟩ | ⟨e, he, hreg, _, hcont, hgrp, hsz, htoc⟩
      · rw [h1] at hxm; simp at hxm
      · obtain ⟨hname, hdata, _, _⟩ := Writer.group_bounds hgrp x hxm
        have hek : e ∈ keep ents := List.mem_of_getElem? he
        have hek' := List.mem_filter.mp hek
        obtain ⟨e', he', ht', hr', hn', hsr, _⟩ := h.index x (htoc x hxm) hdata
        have hee : e' = e := h.uniq e' he' e hek'.1 ht' (by simpa using hek'.2) hr' hreg
          (by rw [hn', hname])
        subst hee
        -- the documented read of `x`
        unfold specRead at hsr
        rw [hfm] at hsr
        simp only [Option.some.injEq] at hsr
        -- the member's bytes out of the remote blob
        obtain ⟨init, rest, hms, hoff⟩ := findMember_split _ _ _ _ hfm
        simp only [Nat.zero_add] at hoff
        obtain ⟨hsl, hle⟩ := slice_member L init rest m hms hcodec.len
        have hmm : m ∈ L.members := by rw [hms]; simp
        rcases hbr : blobRange L.params s reply x.offset m.clen with ⟨s', r⟩
        rw [hbr] at hu
        cases r with
        | none => simp at hu
        | some cb =>
          simp only at hu
          have hcb := blobRange_exact L.params L.bytes hc rfl s hs reply hr x.offset m.clen
            (by rw [← hoff]; exact hle) cb (by rw [hbr])
          rw [← hoff, hsl] at hcb
          rw [hcb, hcodec.inv m hmm] at hu
          simp only [Option.some.injEq] at hu
          rw [← hu, ← hxp.2, hsz, hsr]
          unfold LazyRead.trueChunk LazyRead.slice expect
          rw [hcont, ← hxp.1, ← hxp.2, hsz]


/-! ## An honest server makes the concrete `Under` succeed -/

/-- The reply of a server that answers exactly the ranges `blob.ReadAt` requests when chunk `id` is
fetched with the remote cache in state `s` (multi-range or single-range mode). -/
def honestReplyFor (L : Layer) (s : Blob.St) (single : Bool) (id : LazyRead.ChunkId) : Blob.Reply :=
  match findEnt L.toc id with
  | none => .fail
  | some x =>
    match findMember L.members 0 x.offset with
    | none => .fail
    | some m =>
      match Blob.missingFor L.params s x.offset m.clen with
      | none => .fail
      | some ms => Blob.honestAnswer L.bytes (Blob.requestRanges single ms)

theorem honestReplyFor_honest (L : Layer) (s : Blob.St) (single : Bool) (id : LazyRead.ChunkId) :
    Blob.HonestReply L.bytes (honestReplyFor L s single id) := by
  unfold honestReplyFor
  split
  · trivial
  · split
    · trivial
    · split
      · trivial
      · exact Blob.honestAnswer_honest _ _

theorem blobRange_honest_ok (P : Blob.Params) (B : Bytes) (hc : 0 < P.chunk) (hB : B.length = P.size)
    (s : Blob.St) (hs : Blob.InvQ P (Blob.QPrefix P B) s) (single : Bool) (o n : Nat)
    (hin : o + n ≤ P.size) (ms : List Blob.Chunk) (hmiss : Blob.missingFor P s o n = some ms) :
    (blobRange P s (Blob.honestAnswer B (Blob.requestRanges single ms)) o n).2 =
      some (Blob.slice B o n) := by
  obtain ⟨ms', h1, hne⟩ := Blob.readAt_honest_ok P B hc hB s o n single
  rw [hmiss] at h1
  cases h1
  obtain ⟨_, _, h3⟩ := Blob.readAt_specQ P B _ (Blob.goodQ_prefix P B) hc hB s hs o n _
    (Blob.honestAnswer_honest B (Blob.requestRanges single ms))
  have hmin : min n (P.size - o) = n := by omega
  unfold blobRange
  rcases hra : Blob.readAt P s o n (Blob.honestAnswer B (Blob.requestRanges single ms)) with ⟨s', r⟩
  rw [hra] at h3 hne
  rcases h3 with h3 | ⟨buf, h4, _, h5⟩
  · exact absurd h3 hne
  · simp only at h4; subst h4
    rw [hmin] at h5 ⊢
    simp [h5]

/-- Against such a server the concrete `Under` delivers the genuine chunk, of the right length,
for every chunk of every file and from every state of the remote cache (truncated entries
included). -/
theorem under_honest_delivers {ents : List TarEnt} {L : Layer} (h : Built ents L.members L.toc)
    (hcodec : CodecInverse L.codec L.members) (hc : 0 < L.blobChunk)
    (s : Blob.St) (hs : Blob.InvQ L.params (Blob.QPrefix L.params L.bytes) s) (single : Bool)
    (j : Nat) (ch : LazyRead.Chunk) (hch : ch ∈ fileTable L.toc j) :
    under L s (honestReplyFor L s single ⟨j, ch.off, ch.size⟩) ⟨j, ch.off, ch.size⟩ =
      some (LazyRead.trueChunk (content ents) ⟨j, ch.off, ch.size⟩) := by
  obtain ⟨x0, hx0, hx0c⟩ := List.mem_map.mp hch
  cases hfe : findEnt L.toc ⟨j, ch.off, ch.size⟩ with
  | none =>
    have := List.find?_eq_none.mp hfe x0 hx0
    simp [← hx0c, chunkOf] at this
  | some x =>
    have hxm : x ∈ fileGroup L.toc j := List.mem_of_find?_eq_some hfe
    rcases fileGroup_spec h j with ⟨h1, _⟩ | ⟨e, he, hreg, _, hcont, hgrp, hsz, htoc⟩
    · rw [h1] at hxm; simp at hxm
    · obtain ⟨hname, hdata, _, _⟩ := Writer.group_bounds hgrp x hxm
      obtain ⟨e', he', ht', hr', hn', hsr, _⟩ := h.index x (htoc x hxm) hdata
      cases hfm : findMember L.members 0 x.offset with
      | none => simp [specRead, hfm] at hsr
      | some m =>
        obtain ⟨init, rest, hms, hoff⟩ := findMember_split _ _ _ _ hfm
        simp only [Nat.zero_add] at hoff
        obtain ⟨hsl, hle⟩ := slice_member L init rest m hms hcodec.len
        have hmm : m ∈ L.members := by rw [hms]; simp
        obtain ⟨ms, hmiss, _⟩ := Blob.readAt_honest_ok L.params L.bytes hc rfl s x.offset m.clen single
        have hrep : honestReplyFor L s single ⟨j, ch.off, ch.size⟩ =
            Blob.honestAnswer L.bytes (Blob.requestRanges single ms) := by
          simp [honestReplyFor, hfe, hfm, hmiss]
        have hbr := blobRange_honest_ok L.params L.bytes hc rfl s hs single x.offset m.clen
          (by rw [← hoff]; exact hle) ms hmiss
        rw [← hoff, hsl, hoff] at hbr
        have hsome : ∃ b, under L s (honestReplyFor L s single ⟨j, ch.off, ch.size⟩)
            ⟨j, ch.off, ch.size⟩ = some b := by
          rw [hrep]
          unfold under underSt
          simp only [hfe, hfm]
          rcases hb2 : blobRange L.params s (Blob.honestAnswer L.bytes (Blob.requestRanges single ms))
            x.offset m.clen with ⟨s', r⟩
          rw [hb2] at hbr
          simp only at hbr
          subst hbr
          simp [hcodec.inv m hmm]
        obtain ⟨b, hb⟩ := hsome
        rw [hb, under_exact h hcodec hc s hs _
          (by rw [hrep]; exact Blob.honestAnswer_honest _ _) _ b hb]

/-! ## Two-level histories -/

/-- The remote side as one lazy-read operation meets it: for every chunk fetch of the operation,
the history of the remote blob cache up to that fetch (reads, `Cache` calls, entry loss, entry
truncation, each with its own server reply) and the server's reply to the fetch itself. -/
structure Remote where
  hist : LazyRead.ChunkId → List Blob.Op
  reply : LazyRead.ChunkId → Blob.Reply

def Remote.env (L : Layer) (R : Remote) : LazyRead.ChunkId → Blob.St × Blob.Reply :=
  fun id => (Blob.runOps L.params {} (R.hist id), R.reply id)

/-- The server never sends wrong bytes (it may fail, or send short bodies). -/
def Remote.Honest (B : Bytes) (R : Remote) : Prop :=
  ∀ id, (∀ op ∈ R.hist id, op.Honest B) ∧ Blob.HonestReply B (R.reply id)

/-- One operation of an access history of the mounted layer, at BOTH cache levels: the FUSE-side
operation on the uncompressed chunk cache together with what the remote blob cache went through. -/
inductive Op
  | read (j : Nat) (v : LazyRead.Variant) (off n : Nat) (R : Remote)
  | store (id : LazyRead.ChunkId) (R : Remote)
  | cacheFiles (filter : Nat → Bool) (js : List (Nat × LazyRead.Variant)) (R : Remote)
  | evict (id : LazyRead.ChunkId)
  | truncate (id : LazyRead.ChunkId) (k : Nat)

/-- The same operation in the vocabulary of the lazy-read model, `Under` made concrete. -/
def Op.lower (L : Layer) : Op → LazyRead.Op
  | .read j v off n R => .read (fileInfo v L.toc j) off n (underOf L (R.env L))
  | .store id R => .store id (underOf L (R.env L))
  | .cacheFiles fl js R =>
    .cacheFiles fl (js.map fun jv => fileInfo jv.2 L.toc jv.1) (underOf L (R.env L))
  | .evict id => .evict id
  | .truncate id k => .truncate id k

def Op.Honest (B : Bytes) : Op → Prop
  | .read _ _ _ _ R => R.Honest B
  | .store _ R => R.Honest B
  | .cacheFiles _ _ R => R.Honest B
  | .evict _ => True
  | .truncate _ _ => True

/-- Every chunk the concrete `Under` delivers is the genuine one - whatever `verify` says. -/
theorem underOf_exact {ents : List TarEnt} {L : Layer} (h : Built ents L.members L.toc)
    (hcodec : CodecInverse L.codec L.members) (hc : 0 < L.blobChunk) (R : Remote)
    (hR : R.Honest L.bytes) (id : LazyRead.ChunkId) (b : Bytes)
    (hu : underOf L (R.env L) id = some b) : b = LazyRead.trueChunk (content ents) id := by
  obtain ⟨h1, _, _⟩ := Blob.runOps_specQ L.params L.bytes _ (Blob.goodQ_prefix _ _) hc rfl
    (R.hist id) {} (Blob.invQ_init _ _) (hR id).1 (Or.inr (Blob.truncClosed_prefix _ _))
  exact under_exact h hcodec hc _ h1 _ (hR id).2 id b hu

theorem underOf_honest {ents : List TarEnt} {L : Layer} (h : Built ents L.members L.toc)
    (hcodec : CodecInverse L.codec L.members) (hc : 0 < L.blobChunk) (E : LazyRead.Env)
    (R : Remote) (hR : R.Honest L.bytes) :
    LazyRead.Honest (content ents) E (underOf L (R.env L)) :=
  fun id b hu _ _ => underOf_exact h hcodec hc R hR id b hu

theorem lower_ok {ents : List TarEnt} {L : Layer} (h : Built ents L.members L.toc)
    (hcodec : CodecInverse L.codec L.members) (hc : 0 < L.blobChunk) (E : LazyRead.Env)
    (op : Op) (ho : op.Honest L.bytes) : LazyRead.OpOK (content ents) E (op.lower L) := by
  cases op with
  | read j v off n R => exact ⟨wf_file h v j, underOf_honest h hcodec hc E R ho⟩
  | store id R => exact underOf_honest h hcodec hc E R ho
  | cacheFiles fl js R => exact underOf_honest h hcodec hc E R ho
  | evict id => trivial
  | truncate id k => trivial

/-! ## Threading the remote state through the chunk fetches of one operation -/

/-- What a chunk fetch does to the remote blob cache, as a blob-level history: one `ReadAt` of the
member range (nothing when the chunk or its member is not found). -/
def fetchOps (L : Layer) (reply : Blob.Reply) (id : LazyRead.ChunkId) : List Blob.Op :=
  match findEnt L.toc id with
  | none => []
  | some x =>
    match findMember L.members 0 x.offset with
    | none => []
    | some m => [.read x.offset m.clen reply]

/-- The remote state `underSt` returns is the state after that history. -/
theorem underSt_state (L : Layer) (s : Blob.St) (reply : Blob.Reply) (id : LazyRead.ChunkId) :
    (underSt L s reply id).1 = Blob.runOps L.params s (fetchOps L reply id) := by
  unfold underSt fetchOps
  cases findEnt L.toc id with
  | none => rfl
  | some x =>
    simp only
    cases findMember L.members 0 x.offset with
    | none => rfl
    | some m =>
      simp only [Blob.runOps, List.foldl_cons, List.foldl_nil, Blob.stepOp, blobRange]
      rcases Blob.readAt L.params s x.offset m.clen reply with ⟨s', _ | ⟨k, buf⟩⟩
      · rfl
      · simp only
        by_cases hk : k = m.clen
        · rw [if_pos hk]
          simp only
          cases L.codec.dec (buf.take k) <;> rfl
        · rw [if_neg hk]

/-- The remote state the fetch of `id` meets when the operation fetches the chunks `order` one after
the other, each fetch leaving the remote cache as `underSt` says (the first occurrence of `id` in
`order` counts; an id not in `order` meets the state after all of them). -/
def threadState (L : Layer) (rs : LazyRead.ChunkId → Blob.Reply) :
    Blob.St → List LazyRead.ChunkId → LazyRead.ChunkId → Blob.St
  | s, [], _ => s
  | s, k :: ks, id => if k = id then s else threadState L rs (underSt L s (rs k) k).1 ks id

/-- The same as blob-level histories. -/
def threadHist (L : Layer) (rs : LazyRead.ChunkId → Blob.Reply) :
    List Blob.Op → List LazyRead.ChunkId → LazyRead.ChunkId → List Blob.Op
  | h, [], _ => h
  | h, k :: ks, id => if k = id then h else threadHist L rs (h ++ fetchOps L (rs k) k) ks id

/-- The remote side of an operation that starts after the remote history `h0` and threads the
remote state through its fetches in the order `order`. -/
def Remote.threaded (L : Layer) (h0 : List Blob.Op) (order : List LazyRead.ChunkId)
    (rs : LazyRead.ChunkId → Blob.Reply) : Remote :=
  ⟨threadHist L rs h0 order, rs⟩

theorem threadState_eq (L : Layer) (rs : LazyRead.ChunkId → Blob.Reply) :
    ∀ (order : List LazyRead.ChunkId) (h : List Blob.Op) (id : LazyRead.ChunkId),
      threadState L rs (Blob.runOps L.params {} h) order id =
        Blob.runOps L.params {} (threadHist L rs h order id) := by
  intro order
  induction order with
  | nil => intro h id; rfl
  | cons k ks ih =>
    intro h id
    simp only [threadState, threadHist]
    split
    · rfl
    · rw [underSt_state, ← ih]
      simp [Blob.runOps, List.foldl_append]

theorem fetchOps_honest (L : Layer) (reply : Blob.Reply) (hr : Blob.HonestReply L.bytes reply)
    (id : LazyRead.ChunkId) : ∀ op ∈ fetchOps L reply id, op.Honest L.bytes := by
  unfold fetchOps
  cases findEnt L.toc id with
  | none => intro op h; simp at h
  | some x =>
    simp only
    cases findMember L.members 0 x.offset with
    | none => intro op h; simp at h
    | some m => intro op h; simp only [List.mem_singleton] at h; subst h; exact hr

theorem threadHist_honest (L : Layer) (rs : LazyRead.ChunkId → Blob.Reply)
    (hrs : ∀ id, Blob.HonestReply L.bytes (rs id)) :
    ∀ (order : List LazyRead.ChunkId) (h : List Blob.Op) (id : LazyRead.ChunkId),
      (∀ op ∈ h, op.Honest L.bytes) → ∀ op ∈ threadHist L rs h order id, op.Honest L.bytes := by
  intro order
  induction order with
  | nil => intro h id hh; exact hh
  | cons k ks ih =>
    intro h id hh
    simp only [threadHist]
    split
    · exact hh
    · apply ih
      intro op hop
      rcases List.mem_append.mp hop with hop | hop
      · exact hh op hop
      · exact fetchOps_honest L (rs k) (hrs k) k op hop

theorem threaded_honest (L : Layer) (h0 : List Blob.Op) (order : List LazyRead.ChunkId)
    (rs : LazyRead.ChunkId → Blob.Reply) (hh : ∀ op ∈ h0, op.Honest L.bytes)
    (hrs : ∀ id, Blob.HonestReply L.bytes (rs id)) : (Remote.threaded L h0 order rs).Honest L.bytes :=
  fun id => ⟨threadHist_honest L rs hrs order h0 id hh, hrs id⟩

end SV.E2E
