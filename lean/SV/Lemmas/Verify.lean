import SV.Model.Verify
/-
Helper lemmas for C01: what the cache-level primitives preserve, the invariant of one layer
object, and its preservation by every operation.
-/
namespace SV.Verify
set_option linter.unusedSectionVars false

section
variable {β δ : Type} [DecidableEq δ] (H : β → δ)

/-- Every piece (chunk, bytes) satisfies `P`. -/
def PiecesGood (P : Nat → β → Prop) (ps : List (Nat × β)) : Prop := ∀ p ∈ ps, P p.1 p.2

/-- "The bytes hash to the digest TOC `t` records for the chunk." -/
def TocGood (t : Toc δ) : Nat → β → Prop := fun c b => t.dig c = some (H b)

/-- "The bytes hash to the digest that SOME TOC whose bytes hash to `D` records for the chunk."
`D` is all the trusted manifest pins; with an uninterpreted `H` this is the strongest statement that
needs no collision assumption (for an injective `H` it is `TocGood` of the TOC of the layer). -/
def Pinned (parse : β → Toc δ) (D : δ) : Nat → β → Prop :=
  fun c b => ∃ tb, H tb = D ∧ (parse tb).dig c = some (H b)

/-- The ghost bit is honest: the pieces of an entry marked "verified at insertion" satisfy `P`. -/
def CacheInv (P : Nat → β → Prop) (ca : Cache β) : Prop :=
  ∀ ke ∈ ca, ke.2.ver = true → PiecesGood P ke.2.pieces

/-- Every entry of the cache was verified at insertion. -/
def AllVer (ca : Cache β) : Prop := ∀ ke ∈ ca, ke.2.ver = true

/-- What a cache-level primitive working with `reader.verify = vf` preserves. -/
def Pres (P : Nat → β → Prop) (vf : Bool) (ca ca' : Cache β) : Prop :=
  (CacheInv P ca → CacheInv P ca') ∧ (vf = true → AllVer ca → AllVer ca')

theorem PiecesGood.nil (P : Nat → β → Prop) : PiecesGood P ([] : List (Nat × β)) := by
  intro p hp; cases hp

theorem PiecesGood.append {P : Nat → β → Prop} {ps qs : List (Nat × β)}
    (hp : PiecesGood P ps) (hq : PiecesGood P qs) : PiecesGood P (ps ++ qs) := by
  intro p h
  rcases List.mem_append.mp h with h | h
  · exact hp p h
  · exact hq p h

theorem PiecesGood.cons {P : Nat → β → Prop} {c : Nat} {b : β} {qs : List (Nat × β)}
    (hc : P c b) (hq : PiecesGood P qs) : PiecesGood P ((c, b) :: qs) := by
  intro p h
  rcases List.mem_cons.mp h with h | h
  · subst h; exact hc
  · exact hq p h

theorem digOk_iff (dg : Option δ) (b : β) : digOk H dg b = true ↔ dg = some (H b) := by
  unfold digOk
  cases dg with
  | none => simp
  | some d =>
    simp only [decide_eq_true_eq, Option.some.injEq]
    exact ⟨fun h => h.symm, fun h => h.symm⟩

theorem chunkOk_iff (t : Toc δ) (c : Nat) (b : β) :
    chunkOk H t c b = true ↔ t.dig c = some (H b) := digOk_iff H (t.dig c) b

theorem cget_mem {ca : Cache β} {k : Key} {e : Entry β} (h : cget ca k = some e) : (k, e) ∈ ca := by
  induction ca with
  | nil => simp [cget] at h
  | cons x rest ih =>
    obtain ⟨k', e'⟩ := x
    unfold cget at h
    split at h
    · rename_i hk
      simp only [Option.some.injEq] at h
      subst hk; subst h
      exact List.mem_cons_self ..
    · exact List.mem_cons_of_mem _ (ih h)

theorem Pres.refl (P : Nat → β → Prop) (vf : Bool) (ca : Cache β) : Pres P vf ca ca := ⟨id, fun _ h => h⟩

theorem Pres.trans {P : Nat → β → Prop} {vf : Bool} {a b c : Cache β}
    (h1 : Pres P vf a b) (h2 : Pres P vf b c) : Pres P vf a c :=
  ⟨fun h => h2.1 (h1.1 h), fun hv h => h2.2 hv (h1.2 hv h)⟩

theorem CacheInv.cput {P : Nat → β → Prop} {ca : Cache β} {k : Key} {e : Entry β}
    (h : CacheInv P ca) (he : e.ver = true → PiecesGood P e.pieces) :
    CacheInv P (cput ca k e) := by
  intro ke hke
  rcases List.mem_cons.mp hke with h1 | h1
  · subst h1; exact he
  · exact h ke h1

theorem AllVer.cput {ca : Cache β} {k : Key} {e : Entry β}
    (h : AllVer ca) (he : e.ver = true) : AllVer (cput ca k e) := by
  intro ke hke
  rcases List.mem_cons.mp hke with h1 | h1
  · subst h1; exact he
  · exact h ke h1

theorem AllVer.nil : AllVer ([] : Cache β) := by intro ke h; cases h
theorem CacheInv.nil (P : Nat → β → Prop) : CacheInv P ([] : Cache β) := by intro ke h; cases h

/-! ## cache-level primitives

`P` is any predicate implied by "matches the digest TOC `t` records" (`hP`). -/

theorem fetchOne_spec {P : Nat → β → Prop} {t : Toc δ} (hP : ∀ c b, t.dig c = some (H b) → P c b)
    {vf : Bool} {ca ca' : Cache β} {c : Nat} {reply : Option β} {b : β}
    (h : fetchOne H t vf ca c reply = some (ca', b)) :
    Pres P vf ca ca' ∧ (vf = true → t.dig c = some (H b)) := by
  unfold fetchOne at h
  cases reply with
  | none => simp at h
  | some b0 =>
    simp only at h
    split at h
    · simp at h
    · rename_i hc
      simp only [Option.some.injEq, Prod.mk.injEq] at h
      obtain ⟨rfl, rfl⟩ := h
      have hgood : vf = true → t.dig c = some (H b0) := by
        intro hv
        subst hv
        simp only [Bool.true_and, Bool.not_eq_true', Bool.not_eq_false] at hc
        cases hck : chunkOk H t c b0 with
        | true => exact (chunkOk_iff H t c b0).mp hck
        | false => simp [hck] at hc
      refine ⟨⟨fun hi => hi.cput (fun hv => ?_), fun hv ha => ha.cput hv⟩, hgood⟩
      intro p hp
      simp only [List.mem_singleton] at hp
      subst hp
      exact hP _ _ (hgood hv)

theorem preReads_spec {P : Nat → β → Prop} (t : Toc δ) (hP : ∀ c b, t.dig c = some (H b) → P c b)
    (vf : Bool) (l : List (Nat × Option β)) :
    ∀ (ca ca' : Cache β) (ok : Bool), preReads H t vf ca l = (ca', ok) → Pres P vf ca ca' := by
  induction l with
  | nil =>
    intro ca ca' ok h
    simp only [preReads, Prod.mk.injEq] at h
    rw [← h.1]; exact Pres.refl P vf ca
  | cons x rest ih =>
    intro ca ca' ok h
    obtain ⟨c, r⟩ := x
    unfold preReads at h
    split at h
    · exact ih ca ca' ok h
    · split at h
      · simp only [Prod.mk.injEq] at h
        rw [← h.1]; exact Pres.refl P vf ca
      · rename_i ca1 b1 hf
        exact (fetchOne_spec H hP hf).1.trans (ih ca1 ca' ok h)

theorem readChunk_spec {P : Nat → β → Prop} {t : Toc δ} (hP : ∀ c b, t.dig c = some (H b) → P c b)
    {vf : Bool} {ca ca' : Cache β} {st : Step β}
    {r : Option (List (Nat × β))} (h : readChunk H t vf ca st = (ca', r)) :
    Pres P vf ca ca' ∧
      ∀ ps, r = some ps → vf = true → AllVer ca → CacheInv P ca → PiecesGood P ps := by
  unfold readChunk at h
  split at h
  · rename_i e he
    simp only [Prod.mk.injEq] at h
    obtain ⟨rfl, rfl⟩ := h
    refine ⟨Pres.refl P vf ca, ?_⟩
    intro ps hps _ ha hi
    simp only [Option.some.injEq] at hps
    subst hps
    have hm := cget_mem he
    exact hi _ hm (ha _ hm)
  · split at h
    · rename_i ca1 hp
      simp only [Prod.mk.injEq] at h
      obtain ⟨rfl, rfl⟩ := h
      exact ⟨preReads_spec H t hP vf _ _ _ _ hp, by intro ps hps; cases hps⟩
    · rename_i ca1 hp
      have hpres := preReads_spec H t hP vf _ _ _ _ hp
      split at h
      · simp only [Prod.mk.injEq] at h
        obtain ⟨rfl, rfl⟩ := h
        exact ⟨hpres, by intro ps hps; cases hps⟩
      · rename_i ca2 b hf
        simp only [Prod.mk.injEq] at h
        obtain ⟨rfl, rfl⟩ := h
        obtain ⟨hp2, hg⟩ := fetchOne_spec H hP hf
        refine ⟨hpres.trans hp2, ?_⟩
        intro ps hps hv _ _
        simp only [Option.some.injEq] at hps
        subst hps
        exact PiecesGood.cons (hP _ _ (hg hv)) (PiecesGood.nil P)

theorem readSteps_spec {P : Nat → β → Prop} (t : Toc δ) (hP : ∀ c b, t.dig c = some (H b) → P c b)
    (vf : Bool) (steps : List (Step β)) :
    ∀ (ca ca' : Cache β) (r : Option (List (Nat × β))), readSteps H t vf ca steps = (ca', r) →
      Pres P vf ca ca' ∧
        ∀ ps, r = some ps → vf = true → AllVer ca → CacheInv P ca → PiecesGood P ps := by
  induction steps with
  | nil =>
    intro ca ca' r h
    simp only [readSteps, Prod.mk.injEq] at h
    obtain ⟨rfl, rfl⟩ := h
    refine ⟨Pres.refl P vf ca, ?_⟩
    intro ps hps _ _ _
    simp only [Option.some.injEq] at hps
    subst hps
    exact PiecesGood.nil P
  | cons st rest ih =>
    intro ca ca' r h
    unfold readSteps at h
    split at h
    · rename_i ca1 hc
      simp only [Prod.mk.injEq] at h
      obtain ⟨rfl, rfl⟩ := h
      exact ⟨(readChunk_spec H hP hc).1, by intro ps hps; cases hps⟩
    · rename_i ca1 ps1 hc
      obtain ⟨hp1, ho1⟩ := readChunk_spec H hP hc
      split at h
      · rename_i ca2 hr
        simp only [Prod.mk.injEq] at h
        obtain ⟨rfl, rfl⟩ := h
        exact ⟨hp1.trans (ih _ _ _ hr).1, by intro ps hps; cases hps⟩
      · rename_i ca2 qs hr
        simp only [Prod.mk.injEq] at h
        obtain ⟨rfl, rfl⟩ := h
        obtain ⟨hp2, ho2⟩ := ih _ _ _ hr
        refine ⟨hp1.trans hp2, ?_⟩
        intro ps hps hv ha hi
        simp only [Option.some.injEq] at hps
        subst hps
        exact PiecesGood.append (ho1 _ rfl hv ha hi) (ho2 _ rfl hv (hp1.2 hv ha) (hp1.1 hi))

theorem mergeChunks_spec {P : Nat → β → Prop} (t : Toc δ) (hP : ∀ c b, t.dig c = some (H b) → P c b)
    (vf : Bool) (adv : Nat → Option β)
    (pre : Nat → List (Nat × Option β)) (cs : List Nat) :
    ∀ (ca ca' : Cache β) (r : Option (Entry β)), mergeChunks H t vf adv pre ca cs = (ca', r) →
      Pres P vf ca ca' ∧
        ∀ e, r = some e →
          (CacheInv P ca → e.ver = true → PiecesGood P e.pieces) ∧
          (vf = true → AllVer ca → e.ver = true) := by
  induction cs with
  | nil =>
    intro ca ca' r h
    simp only [mergeChunks, Prod.mk.injEq] at h
    obtain ⟨rfl, rfl⟩ := h
    refine ⟨Pres.refl P vf ca, ?_⟩
    intro e he
    simp only [Option.some.injEq] at he
    subst he
    exact ⟨fun _ _ => PiecesGood.nil P, fun _ _ => rfl⟩
  | cons c rest ih =>
    intro ca ca' r h
    unfold mergeChunks at h
    split at h
    · -- cache hit
      rename_i e0 he0
      have hm := cget_mem he0
      split at h
      · rename_i ca1 hr
        simp only [Prod.mk.injEq] at h
        obtain ⟨rfl, rfl⟩ := h
        exact ⟨(ih _ _ _ hr).1, by intro e he; cases he⟩
      · rename_i ca1 e' hr
        simp only [Prod.mk.injEq] at h
        obtain ⟨rfl, rfl⟩ := h
        obtain ⟨hp, he'⟩ := ih _ _ _ hr
        refine ⟨hp, ?_⟩
        intro e he
        simp only [Option.some.injEq] at he
        subst he
        obtain ⟨h1, h2⟩ := he' e' rfl
        constructor
        · intro hi hv
          simp only [Bool.and_eq_true] at hv
          exact PiecesGood.append (hi _ hm hv.1) (h1 hi hv.2)
        · intro hv ha
          simp only [Bool.and_eq_true]
          exact ⟨ha _ hm, h2 hv ha⟩
    · -- miss
      split at h
      · rename_i ca1 hp
        simp only [Prod.mk.injEq] at h
        obtain ⟨rfl, rfl⟩ := h
        exact ⟨preReads_spec H t hP vf _ _ _ _ hp, by intro e he; cases he⟩
      · rename_i ca1 hp
        have hpres := preReads_spec H t hP vf _ _ _ _ hp
        split at h
        · simp only [Prod.mk.injEq] at h
          obtain ⟨rfl, rfl⟩ := h
          exact ⟨hpres, by intro e he; cases he⟩
        · rename_i b hb
          split at h
          · simp only [Prod.mk.injEq] at h
            obtain ⟨rfl, rfl⟩ := h
            exact ⟨hpres, by intro e he; cases he⟩
          · rename_i hc
            have hgood : vf = true → t.dig c = some (H b) := by
              intro hv
              subst hv
              simp only [Bool.true_and, Bool.not_eq_true', Bool.not_eq_false] at hc
              cases hck : chunkOk H t c b with
              | true => exact (chunkOk_iff H t c b).mp hck
              | false => simp [hck] at hc
            split at h
            · rename_i ca2 hr
              simp only [Prod.mk.injEq] at h
              obtain ⟨rfl, rfl⟩ := h
              exact ⟨hpres.trans (ih _ _ _ hr).1, by intro e he; cases he⟩
            · rename_i ca2 e' hr
              simp only [Prod.mk.injEq] at h
              obtain ⟨rfl, rfl⟩ := h
              obtain ⟨hp2, he'⟩ := ih _ _ _ hr
              refine ⟨hpres.trans hp2, ?_⟩
              intro e he
              simp only [Option.some.injEq] at he
              subst he
              obtain ⟨h1, h2⟩ := he' e' rfl
              constructor
              · intro hi hv
                simp only [Bool.and_eq_true] at hv
                exact PiecesGood.cons (hP _ _ (hgood hv.1)) (h1 (hpres.1 hi) hv.2)
              · intro hv ha
                simp only [Bool.and_eq_true]
                exact ⟨hv, h2 hv (hpres.2 hv ha)⟩

/-! ## one layer object -/

/-- The part of the invariant that holds whatever TOC a clone-based prefetch compares with. -/
structure InvF (s : St β δ) : Prop where
  /-- an unverified writer in flight has been recorded in `lastVerifyErr` -/
  pend : ∀ p ∈ s.pending, p.2.ver = false → s.lastVerifyErr = true
  /-- unless the layer was skip-verified or a failure is on record, every cache entry was compared
  with a digest before insertion -/
  clean : s.layerR ≠ .skipped → s.lastVerifyErr = false → AllVer s.cache
  /-- a verified layer verifies reads, aborts failing prefetches, and has no failure on record -/
  ver : s.layerR = .verified → s.verifyFlag = true ∧ s.prohibit = true ∧ s.lastVerifyErr = false

/-- What a verified entry of layer object `s` satisfies: its bytes hash to the digest recorded by a
TOC whose bytes hash to the TOC digest of `s`. -/
abbrev Pin (parse : β → Toc δ) (s : St β δ) : Nat → β → Prop := Pinned H parse (H s.tocBytes)

/-- The invariant of one layer object. -/
structure Inv (parse : β → Toc δ) (s : St β δ) : Prop extends InvF s where
  /-- the TOC in use is the one parsed from the bytes that were hashed -/
  tocEq : s.toc = parse s.tocBytes
  /-- the ghost bit of a cache entry is honest: "compared" means "pinned by the TOC digest" -/
  good : CacheInv (Pin H parse s) s.cache
  /-- ... and so is the ghost bit of a writer in flight -/
  pgood : ∀ p ∈ s.pending, p.2.ver = true → PiecesGood (Pin H parse s) p.2.pieces

/-- The TOC of the layer object pins what it records. -/
theorem Inv.hP {parse : β → Toc δ} {s : St β δ} (hi : Inv H parse s) :
    ∀ c b, s.toc.dig c = some (H b) → Pin H parse s c b := by
  intro c b h
  exact ⟨s.tocBytes, rfl, by rw [← hi.tocEq]; exact h⟩

theorem invF_init (parse : β → Toc δ) (cfg : Cfg) (tb : β) : InvF (init parse cfg tb) := by
  refine ⟨?_, fun _ _ => AllVer.nil, ?_⟩
  · intro p hp; cases hp
  · intro h; cases h

theorem inv_init (parse : β → Toc δ) (cfg : Cfg) (tb : β) : Inv H parse (init parse cfg tb) := by
  refine ⟨invF_init parse cfg tb, rfl, CacheInv.nil _, ?_⟩
  intro p hp; cases hp

theorem mem_removeNth {α : Type} {x : α} : ∀ {l : List α} {i : Nat}, x ∈ removeNth l i → x ∈ l
  | [], _, h => by simp [removeNth] at h
  | _ :: xs, 0, h => by simp only [removeNth] at h; exact List.mem_cons_of_mem _ h
  | y :: xs, n + 1, h => by
    simp only [removeNth] at h
    rcases List.mem_cons.mp h with h | h
    · subst h; exact List.mem_cons_self ..
    · exact List.mem_cons_of_mem _ (mem_removeNth h)

/-- The three outcomes of the critical section of `readAndCache`. -/
theorem prefetchDecideWith_cases (s : St β δ) (c : Nat) (reply : Option β) (dg : Option δ) :
    (∃ r, prefetchDecideWith H s c reply dg = (s, r, none) ∧ (r = .ok ∨ r = .err)) ∨
    (∃ b, reply = some b ∧ dg = some (H b) ∧ cget s.cache (.chunk c) = none ∧
      prefetchDecideWith H s c reply dg = (s, .ok, some ⟨[(c, b)], true⟩)) ∨
    (∃ b, reply = some b ∧ digOk H dg b = false ∧ s.prohibit = false ∧
      cget s.cache (.chunk c) = none ∧
      prefetchDecideWith H s c reply dg = ({ s with lastVerifyErr := true }, .ok, some ⟨[(c, b)], false⟩)) := by
  cases hg : cget s.cache (.chunk c) with
  | some e => exact Or.inl ⟨.ok, by simp [prefetchDecideWith, hg], Or.inl rfl⟩
  | none =>
    cases reply with
    | none => exact Or.inl ⟨.err, by simp [prefetchDecideWith, hg], Or.inr rfl⟩
    | some b =>
      cases hck : digOk H dg b with
      | true =>
        exact Or.inr (Or.inl ⟨b, rfl, (digOk_iff H _ _).mp hck, by first | assumption | rfl,
          by simp [prefetchDecideWith, hg, hck]⟩)
      | false =>
        cases hp : s.prohibit with
        | true => exact Or.inl ⟨.err, by simp [prefetchDecideWith, hg, hck, hp], Or.inr rfl⟩
        | false =>
          exact Or.inr (Or.inr ⟨b, rfl, by first | assumption | rfl, by first | assumption | rfl,
            by first | assumption | rfl, by simp [prefetchDecideWith, hg, hck, hp]⟩)

theorem prefetchBegin_eq (s : St β δ) (c : Nat) (reply : Option β) :
    prefetchBegin H s c reply = prefetchBeginWith H s c reply (s.toc.dig c) := rfl

theorem prefetch_eq (s : St β δ) (c : Nat) (reply : Option β) :
    prefetch H s c reply = prefetchWith H s c reply (s.toc.dig c) := rfl

/-- `Cache(WithReader)` over a clone: refused, or a prefetch against the digests of the clone's TOC,
which then hashes to the TOC digest of the layer object. -/
theorem prefetchBeginClone_cases (parse : β → Toc δ) (s : St β δ) (c : Nat) (reply : Option β) (tb' : β) :
    (H tb' ≠ H s.tocBytes ∧ prefetchBeginClone H parse s c reply tb' = (s, .err)) ∨
    (H tb' = H s.tocBytes ∧
      prefetchBeginClone H parse s c reply tb' = prefetchBeginWith H s c reply ((parse tb').dig c)) := by
  unfold prefetchBeginClone
  by_cases h : H tb' = H s.tocBytes
  · exact Or.inr ⟨h, by simp [h]⟩
  · exact Or.inl ⟨h, by simp [h]⟩

/-! ### the flag part of the invariant: every operation keeps it -/

theorem InvF.record {s : St β δ} (hi : InvF s) (hp : s.prohibit = false) :
    InvF { s with lastVerifyErr := true } := by
  refine ⟨fun _ _ _ => rfl, ?_, ?_⟩
  · intro _ h; cases h
  · intro hv
    have := (hi.ver hv).2.1
    rw [hp] at this; cases this

theorem InvF.addPending {s : St β δ} (hi : InvF s) {c : Nat} {e : Entry β}
    (hb : e.ver = false → s.lastVerifyErr = true) :
    InvF { s with pending := s.pending ++ [(c, e)] } := by
  refine ⟨?_, hi.clean, hi.ver⟩
  intro p hp
  rcases List.mem_append.mp hp with h | h
  · exact hi.pend p h
  · simp only [List.mem_singleton] at h; subst h; exact hb

theorem InvF.putChunk {s : St β δ} (hi : InvF s) {k : Key} {e : Entry β}
    (hb : e.ver = false → s.lastVerifyErr = true) :
    InvF { s with cache := cput s.cache k e } := by
  refine ⟨hi.pend, ?_, hi.ver⟩
  intro h1 h2
  refine (hi.clean h1 h2).cput ?_
  cases hv : e.ver with
  | true => rfl
  | false => have := hb hv; simp only at h2 this; rw [h2] at this; cases this

theorem invF_prefetchBeginWith {s : St β δ} (hi : InvF s) (c : Nat) (reply : Option β) (dg : Option δ) :
    InvF (prefetchBeginWith H s c reply dg).1 := by
  unfold prefetchBeginWith
  rcases prefetchDecideWith_cases H s c reply dg with ⟨r, h, _⟩ | ⟨b, _, _, _, h⟩ | ⟨b, _, _, hp, _, h⟩
  · rw [h]; exact hi
  · rw [h]; exact hi.addPending (fun hv => by cases hv)
  · rw [h]; exact (hi.record hp).addPending (fun _ => rfl)

theorem invF_prefetchWith {s : St β δ} (hi : InvF s) (c : Nat) (reply : Option β) (dg : Option δ) :
    InvF (prefetchWith H s c reply dg).1 := by
  unfold prefetchWith
  rcases prefetchDecideWith_cases H s c reply dg with ⟨r, h, _⟩ | ⟨b, _, _, _, h⟩ | ⟨b, _, _, hp, _, h⟩
  · rw [h]; exact hi
  · rw [h]; exact hi.putChunk (fun hv => by cases hv)
  · rw [h]; exact (hi.record hp).putChunk (fun _ => rfl)

theorem invF_prefetchCommit {s : St β δ} (hi : InvF s) (i : Nat) : InvF (prefetchCommit s i).1 := by
  unfold prefetchCommit
  cases hp : s.pending[i]? with
  | none => exact hi
  | some ce =>
    obtain ⟨c, e⟩ := ce
    have hm : (c, e) ∈ s.pending := List.mem_of_getElem? hp
    have h1 := hi.putChunk (k := .chunk c) (hi.pend _ hm)
    exact ⟨fun p hp => hi.pend p (mem_removeNth hp), h1.clean, h1.ver⟩

/-- The outcomes of `VerifiableReader.VerifyTOC`. -/
theorem verifyTOC_cases (s : St β δ) (D : δ) :
    (verifyTOC H s D = ({ s with prohibit := true }, .err) ∧ (s.lastVerifyErr = true ∨ H s.tocBytes ≠ D)) ∨
    (verifyTOC H s D = ({ s with prohibit := true, verifyFlag := true }, .ok) ∧
      s.lastVerifyErr = false ∧ H s.tocBytes = D) := by
  unfold verifyTOC
  cases hl : s.lastVerifyErr with
  | true => exact Or.inl ⟨by simp, Or.inl rfl⟩
  | false =>
    by_cases hd : H s.tocBytes = D
    · exact Or.inr ⟨by simp [hd], rfl, hd⟩
    · exact Or.inl ⟨by simp [hd], Or.inr hd⟩

/-- The outcomes of `layer.Verify` (current code). -/
theorem layerVerify_cases (s : St β δ) (D : δ) :
    (s.layerR = .skipped ∧ layerVerify H s D = (s, .err)) ∨
    (s.layerR ≠ .skipped ∧ layerVerify H s D = ({ s with prohibit := true }, .err) ∧
      (s.lastVerifyErr = true ∨ H s.tocBytes ≠ D)) ∨
    (s.layerR ≠ .skipped ∧
      layerVerify H s D = ({ s with prohibit := true, verifyFlag := true, layerR := .verified }, .ok) ∧
      s.lastVerifyErr = false ∧ H s.tocBytes = D) := by
  unfold layerVerify
  cases hr : s.layerR with
  | skipped => exact Or.inl ⟨rfl, rfl⟩
  | none =>
    rcases verifyTOC_cases H s D with ⟨h, hc⟩ | ⟨h, hl, hd⟩
    · exact Or.inr (Or.inl ⟨by simp, by simp [h, hr], hc⟩)
    · exact Or.inr (Or.inr ⟨by simp, by simp [h], hl, hd⟩)
  | verified =>
    rcases verifyTOC_cases H s D with ⟨h, hc⟩ | ⟨h, hl, hd⟩
    · exact Or.inr (Or.inl ⟨by simp, by simp [h, hr], hc⟩)
    · exact Or.inr (Or.inr ⟨by simp, by simp [h], hl, hd⟩)

theorem InvF.prohibit {s : St β δ} (hi : InvF s) : InvF { s with prohibit := true } :=
  ⟨hi.pend, hi.clean, fun hv => ⟨(hi.ver hv).1, rfl, (hi.ver hv).2.2⟩⟩

theorem invF_layerVerify {s : St β δ} (hi : InvF s) (D : δ) : InvF (layerVerify H s D).1 := by
  rcases layerVerify_cases H s D with ⟨_, h⟩ | ⟨_, h, _⟩ | ⟨hr, h, hl, _⟩
  · rw [h]; exact hi
  · rw [h]; exact hi.prohibit
  · rw [h]
    exact ⟨hi.pend, fun _ _ => hi.clean hr hl, fun _ => ⟨rfl, rfl, hl⟩⟩

theorem invF_layerSkip {s : St β δ} (hi : InvF s) : InvF (layerSkip s) := by
  unfold layerSkip
  cases hr : s.layerR with
  | none =>
    refine ⟨hi.pend, ?_, ?_⟩
    · intro h; exact absurd rfl h
    · intro h; cases h
  | verified => exact hi
  | skipped => exact hi

/-- Replacing the cache by what a cache-level primitive made of it keeps the invariant, provided
the layer has a reader (reads are impossible before). -/
theorem InvF.setCache {s : St β δ} (hi : InvF s) (hr : s.layerR ≠ .none) {ca : Cache β}
    (hp : s.verifyFlag = true → AllVer s.cache → AllVer ca) : InvF { s with cache := ca } := by
  refine ⟨hi.pend, ?_, hi.ver⟩
  intro h1 h2
  have hv : s.layerR = .verified := by
    cases hx : s.layerR with
    | none => exact absurd hx hr
    | skipped => exact absurd hx h1
    | verified => rfl
  exact hp (hi.ver hv).1 (hi.clean h1 h2)

theorem rawRead_pres {P : Nat → β → Prop} (s : St β δ) (hP : ∀ c b, s.toc.dig c = some (H b) → P c b)
    (steps : List (Step β)) :
    ∃ ca, (rawRead H s steps).1 = { s with cache := ca } ∧ Pres P s.verifyFlag s.cache ca := by
  unfold rawRead
  split
  · rename_i ca h
    exact ⟨ca, rfl, (readSteps_spec H _ hP _ _ _ _ _ h).1⟩
  · rename_i ca ps h
    exact ⟨ca, rfl, (readSteps_spec H _ hP _ _ _ _ _ h).1⟩

theorem rawPassthrough_pres {P : Nat → β → Prop} (s : St β δ)
    (hP : ∀ c b, s.toc.dig c = some (H b) → P c b) (f : Nat) (adv : Nat → Option β)
    (pre : Nat → List (Nat × Option β)) (fb : Bool) :
    ∃ ca, (rawPassthrough H s f adv pre fb).1 = { s with cache := ca } ∧
      Pres P s.verifyFlag s.cache ca := by
  unfold rawPassthrough
  simp only
  split
  · exact ⟨s.cache, rfl, Pres.refl P _ _⟩
  · split
    · rename_i ca h
      exact ⟨ca, rfl, (mergeChunks_spec H _ hP _ _ _ _ _ _ _ h).1⟩
    · rename_i ca e h
      obtain ⟨hp, he⟩ := mergeChunks_spec H _ hP _ _ _ _ _ _ _ h
      obtain ⟨h1, h2⟩ := he e rfl
      refine ⟨_, rfl, ?_, ?_⟩
      · intro hc; exact (hp.1 hc).cput (h1 hc)
      · intro hv ha; exact (hp.2 hv ha).cput (h2 hv ha)

theorem readFd_state (s : St β δ) (f : Nat) : (readFd s f).1 = s := by
  unfold readFd rawReadFd
  cases s.layerR <;> simp <;> split <;> rfl

theorem mount_state (s : St β δ) (l : Labels δ) :
    (mount H s l).1 = s ∨ (mount H s l).1 = layerSkip s ∨
      ∃ D, l.toc = some (some D) ∧ s.cfg.disableVerification = false ∧
        (mount H s l).1 = (layerVerify H s D).1 := by
  unfold mount
  cases hd : s.cfg.disableVerification with
  | true => exact Or.inr (Or.inl (by simp))
  | false =>
    simp only [Bool.false_eq_true, ↓reduceIte]
    cases ht : l.toc with
    | none =>
      simp only
      split
      · exact Or.inr (Or.inl rfl)
      · exact Or.inl rfl
    | some od =>
      cases od with
      | none => exact Or.inl rfl
      | some D =>
        refine Or.inr (Or.inr ⟨D, by simp, by simp, ?_⟩)
        simp only
        split <;> simp_all

theorem storeLookup_state (s : St β δ) (D : δ) : (storeLookup H s D).1 = (layerVerify H s D).1 := by
  unfold storeLookup
  split <;> simp_all

/-- Every operation keeps the flag part of the invariant — including a clone-based prefetch that
compares with a TOC of the adversary's choice. -/
theorem invF_step (parse : β → Toc δ) {s : St β δ} (hi : InvF s) (o : Op β δ) :
    InvF (step H parse s o).1 := by
  cases o with
  | prefetchBegin c r => exact invF_prefetchBeginWith H hi c r _
  | prefetchBeginClone c r tb' =>
    simp only [step]
    rcases prefetchBeginClone_cases H parse s c r tb' with ⟨_, h⟩ | ⟨_, h⟩
    · rw [h]; exact hi
    · rw [h]; exact invF_prefetchBeginWith H hi c r _
  | prefetchCommit i => exact invF_prefetchCommit hi i
  | layerVerify D => exact invF_layerVerify H hi D
  | layerSkip => exact invF_layerSkip hi
  | mount l =>
    simp only [step]
    rcases mount_state H s l with h | h | ⟨D, _, _, h⟩
    · rw [h]; exact hi
    · rw [h]; exact invF_layerSkip hi
    · rw [h]; exact invF_layerVerify H hi D
  | storeLookup D => simp only [step]; rw [storeLookup_state]; exact invF_layerVerify H hi D
  | read steps =>
    simp only [step, read]
    cases hr : s.layerR with
    | none => exact hi
    | verified =>
      obtain ⟨ca, h, hp⟩ := rawRead_pres H (P := fun _ _ => True) s (fun _ _ _ => trivial) steps
      simp only; rw [h]; exact hi.setCache (by simp [hr]) hp.2
    | skipped =>
      obtain ⟨ca, h, hp⟩ := rawRead_pres H (P := fun _ _ => True) s (fun _ _ _ => trivial) steps
      simp only; rw [h]; exact hi.setCache (by simp [hr]) hp.2
  | passthrough f adv pre fb =>
    simp only [step, passthrough]
    cases hr : s.layerR with
    | none => exact hi
    | verified =>
      obtain ⟨ca, h, hp⟩ := rawPassthrough_pres H (P := fun _ _ => True) s (fun _ _ _ => trivial) f adv pre fb
      simp only; rw [h]; exact hi.setCache (by simp [hr]) hp.2
    | skipped =>
      obtain ⟨ca, h, hp⟩ := rawPassthrough_pres H (P := fun _ _ => True) s (fun _ _ _ => trivial) f adv pre fb
      simp only; rw [h]; exact hi.setCache (by simp [hr]) hp.2
  | readFd f => simp only [step]; rw [readFd_state]; exact hi
  | evict tb => exact invF_init parse s.cfg tb

theorem invF_run (parse : β → Toc δ) (ops : List (Op β δ)) :
    ∀ {s : St β δ}, InvF s → InvF (run H parse s ops) := by
  induction ops with
  | nil => intro s hi; exact hi
  | cons o rest ih => intro s hi; exact ih (invF_step H parse hi o)

/-! ### the full invariant: kept by every operation -/

theorem inv_step (parse : β → Toc δ) {s : St β δ} (hi : Inv H parse s) (o : Op β δ) :
    Inv H parse (step H parse s o).1 := by
  have hF := invF_step H parse hi.toInvF o
  have hP := hi.hP H
  -- a prefetch against digest `dg`, where a match with `dg` means "pinned"
  have pb : ∀ (c : Nat) (r : Option β) (dg : Option δ),
      (∀ b, dg = some (H b) → Pin H parse s c b) →
      (prefetchBeginWith H s c r dg).1.toc = s.toc ∧
      (prefetchBeginWith H s c r dg).1.tocBytes = s.tocBytes ∧
      CacheInv (Pin H parse s) (prefetchBeginWith H s c r dg).1.cache ∧
      ∀ p ∈ (prefetchBeginWith H s c r dg).1.pending, p.2.ver = true →
        PiecesGood (Pin H parse s) p.2.pieces := by
    intro c r dg hdg
    unfold prefetchBeginWith
    rcases prefetchDecideWith_cases H s c r dg with ⟨r', h, _⟩ | ⟨b, _, hd, _, h⟩ | ⟨b, _, _, _, _, h⟩
    · rw [h]; exact ⟨rfl, rfl, hi.good, hi.pgood⟩
    · rw [h]
      refine ⟨rfl, rfl, hi.good, ?_⟩
      intro p hp hv
      rcases List.mem_append.mp hp with h1 | h1
      · exact hi.pgood p h1 hv
      · simp only [List.mem_singleton] at h1; subst h1
        exact PiecesGood.cons (hdg b hd) (PiecesGood.nil _)
    · rw [h]
      refine ⟨rfl, rfl, hi.good, ?_⟩
      intro p hp hv
      rcases List.mem_append.mp hp with h1 | h1
      · exact hi.pgood p h1 hv
      · simp only [List.mem_singleton] at h1; subst h1; cases hv
  -- the invariant from its parts, for a step that keeps `toc` and `tocBytes`
  have mk : ∀ (s' : St β δ), InvF s' → s'.toc = s.toc → s'.tocBytes = s.tocBytes →
      CacheInv (Pin H parse s) s'.cache →
      (∀ p ∈ s'.pending, p.2.ver = true → PiecesGood (Pin H parse s) p.2.pieces) → Inv H parse s' := by
    intro s' hf ht hb hg hpg
    have hpin : Pin H parse s' = Pin H parse s := by unfold Pin; rw [hb]
    exact ⟨hf, by rw [ht, hb]; exact hi.tocEq, by rw [hpin]; exact hg, by rw [hpin]; exact hpg⟩
  cases o with
  | prefetchBegin c r =>
    obtain ⟨h1, h2, h3, h4⟩ := pb c r (s.toc.dig c) (fun b hb => hP c b hb)
    exact mk _ hF h1 h2 h3 h4
  | prefetchBeginClone c r tb' =>
    simp only [step] at hF ⊢
    rcases prefetchBeginClone_cases H parse s c r tb' with ⟨_, h⟩ | ⟨heq, h⟩
    · rw [h]; exact hi
    · rw [h] at hF ⊢
      obtain ⟨h1, h2, h3, h4⟩ := pb c r ((parse tb').dig c) (fun b hb => ⟨tb', heq, hb⟩)
      exact mk _ hF h1 h2 h3 h4
  | prefetchCommit i =>
    simp only [step] at hF ⊢
    unfold prefetchCommit at hF ⊢
    cases hp : s.pending[i]? with
    | none => exact hi
    | some ce =>
      obtain ⟨c, e⟩ := ce
      rw [hp] at hF
      exact mk _ hF rfl rfl (hi.good.cput (hi.pgood _ (List.mem_of_getElem? hp)))
        (fun p hp' => hi.pgood p (mem_removeNth hp'))
  | layerVerify D =>
    simp only [step] at hF ⊢
    rcases layerVerify_cases H s D with ⟨_, h⟩ | ⟨_, h, _⟩ | ⟨_, h, _, _⟩ <;> rw [h] at hF ⊢ <;>
      exact mk _ hF rfl rfl hi.good hi.pgood
  | layerSkip =>
    simp only [step] at hF ⊢
    unfold layerSkip at hF ⊢
    cases hr : s.layerR <;> rw [hr] at hF <;> exact mk _ hF rfl rfl hi.good hi.pgood
  | mount l =>
    have hst : (mount H s l).1.toc = s.toc ∧ (mount H s l).1.tocBytes = s.tocBytes ∧
        (mount H s l).1.cache = s.cache ∧ (mount H s l).1.pending = s.pending := by
      rcases mount_state H s l with h | h | ⟨D, _, _, h⟩
      · rw [h]; exact ⟨rfl, rfl, rfl, rfl⟩
      · rw [h]; unfold layerSkip; cases s.layerR <;> exact ⟨rfl, rfl, rfl, rfl⟩
      · rw [h]
        rcases layerVerify_cases H s D with ⟨_, h2⟩ | ⟨_, h2, _⟩ | ⟨_, h2, _, _⟩ <;> rw [h2] <;>
          exact ⟨rfl, rfl, rfl, rfl⟩
    simp only [step] at hF ⊢
    exact mk _ hF hst.1 hst.2.1 (by rw [hst.2.2.1]; exact hi.good) (by rw [hst.2.2.2]; exact hi.pgood)
  | storeLookup D =>
    simp only [step] at hF ⊢
    rw [storeLookup_state] at hF ⊢
    rcases layerVerify_cases H s D with ⟨_, h⟩ | ⟨_, h, _⟩ | ⟨_, h, _, _⟩ <;> rw [h] at hF ⊢ <;>
      exact mk _ hF rfl rfl hi.good hi.pgood
  | read steps =>
    simp only [step, read] at hF ⊢
    cases hr : s.layerR <;> rw [hr] at hF <;> simp only at hF ⊢
    · exact hi
    all_goals
      obtain ⟨ca, h, hp⟩ := rawRead_pres H s hP steps
      rw [h] at hF ⊢
      exact mk _ hF rfl rfl (hp.1 hi.good) hi.pgood
  | passthrough f adv pre fb =>
    simp only [step, passthrough] at hF ⊢
    cases hr : s.layerR <;> rw [hr] at hF <;> simp only at hF ⊢
    · exact hi
    all_goals
      obtain ⟨ca, h, hp⟩ := rawPassthrough_pres H s hP f adv pre fb
      rw [h] at hF ⊢
      exact mk _ hF rfl rfl (hp.1 hi.good) hi.pgood
  | readFd f =>
    simp only [step] at hF ⊢
    rw [readFd_state] at hF ⊢
    exact hi
  | evict tb => exact inv_init H parse s.cfg tb

theorem inv_run (parse : β → Toc δ) (ops : List (Op β δ)) :
    ∀ {s : St β δ}, Inv H parse s → Inv H parse (run H parse s ops) := by
  induction ops with
  | nil => intro s hi; exact hi
  | cons o rest ih => intro s hi; exact ih (inv_step H parse hi o)

/-! ## what only `evict` can undo -/

def Op.isEvict : Op β δ → Bool
  | .evict _ => true
  | _ => false

/-- Relation between a state and a later state of the SAME layer object. -/
structure Frame (s s' : St β δ) : Prop where
  cfg : s'.cfg = s.cfg
  tocBytes : s'.tocBytes = s.tocBytes
  toc : s'.toc = s.toc
  lve : s.lastVerifyErr = true → s'.lastVerifyErr = true
  proh : s.prohibit = true → s'.prohibit = true
  verified : s.layerR = .verified → s'.layerR = .verified
  skipped : s.layerR = .skipped → s'.layerR = .skipped

theorem Frame.refl (s : St β δ) : Frame s s := ⟨rfl, rfl, rfl, id, id, id, id⟩

theorem Frame.trans {a b c : St β δ} (h1 : Frame a b) (h2 : Frame b c) : Frame a c :=
  ⟨h2.cfg.trans h1.cfg, h2.tocBytes.trans h1.tocBytes, h2.toc.trans h1.toc,
   fun h => h2.lve (h1.lve h), fun h => h2.proh (h1.proh h), fun h => h2.verified (h1.verified h),
   fun h => h2.skipped (h1.skipped h)⟩

theorem Frame.setCache (s : St β δ) (ca : Cache β) : Frame s { s with cache := ca } :=
  ⟨rfl, rfl, rfl, id, id, id, id⟩

theorem frame_prefetchBeginWith (s : St β δ) (c : Nat) (reply : Option β) (dg : Option δ) :
    Frame s (prefetchBeginWith H s c reply dg).1 := by
  unfold prefetchBeginWith
  rcases prefetchDecideWith_cases H s c reply dg with ⟨r, h, _⟩ | ⟨b, _, _, _, h⟩ | ⟨b, _, _, _, _, h⟩
  · rw [h]; exact Frame.refl s
  · rw [h]; exact ⟨rfl, rfl, rfl, id, id, id, id⟩
  · rw [h]; exact ⟨rfl, rfl, rfl, fun _ => rfl, id, id, id⟩

theorem frame_prefetchCommit (s : St β δ) (i : Nat) : Frame s (prefetchCommit s i).1 := by
  unfold prefetchCommit
  split
  · exact Frame.refl s
  · exact ⟨rfl, rfl, rfl, id, id, id, id⟩

theorem frame_layerVerify (s : St β δ) (D : δ) : Frame s (layerVerify H s D).1 := by
  rcases layerVerify_cases H s D with ⟨_, h⟩ | ⟨_, h, _⟩ | ⟨hr, h, _, _⟩
  · rw [h]; exact Frame.refl s
  · rw [h]; exact ⟨rfl, rfl, rfl, id, fun _ => rfl, id, id⟩
  · rw [h]; exact ⟨rfl, rfl, rfl, id, fun _ => rfl, fun _ => rfl, fun h => absurd h hr⟩

theorem frame_layerSkip (s : St β δ) : Frame s (layerSkip s) := by
  unfold layerSkip
  cases hr : s.layerR with
  | none =>
    refine ⟨rfl, rfl, rfl, id, id, ?_, ?_⟩
    · intro h; rw [hr] at h; cases h
    · intro _; rfl
  | verified => exact Frame.refl s
  | skipped => exact Frame.refl s

theorem frame_mount (s : St β δ) (l : Labels δ) : Frame s (mount H s l).1 := by
  rcases mount_state H s l with h | h | ⟨D, _, _, h⟩
  · rw [h]; exact Frame.refl s
  · rw [h]; exact frame_layerSkip s
  · rw [h]; exact frame_layerVerify H s D

theorem frame_step (parse : β → Toc δ) (s : St β δ) (o : Op β δ) (h : o.isEvict = false) :
    Frame s (step H parse s o).1 := by
  cases o with
  | prefetchBegin c r => exact frame_prefetchBeginWith H s c r _
  | prefetchBeginClone c r tb' =>
    simp only [step]
    rcases prefetchBeginClone_cases H parse s c r tb' with ⟨_, h⟩ | ⟨_, h⟩
    · rw [h]; exact Frame.refl s
    · rw [h]; exact frame_prefetchBeginWith H s c r _
  | prefetchCommit i => exact frame_prefetchCommit s i
  | layerVerify D => exact frame_layerVerify H s D
  | layerSkip => exact frame_layerSkip s
  | mount l => exact frame_mount H s l
  | storeLookup D => simp only [step]; rw [storeLookup_state]; exact frame_layerVerify H s D
  | read steps =>
    simp only [step, read]
    cases s.layerR
    · exact Frame.refl s
    · obtain ⟨ca, h, _⟩ := rawRead_pres H (P := fun _ _ => True) s (fun _ _ _ => trivial) steps; simp only; rw [h]; exact Frame.setCache s ca
    · obtain ⟨ca, h, _⟩ := rawRead_pres H (P := fun _ _ => True) s (fun _ _ _ => trivial) steps; simp only; rw [h]; exact Frame.setCache s ca
  | passthrough f adv pre fb =>
    simp only [step, passthrough]
    cases s.layerR
    · exact Frame.refl s
    · obtain ⟨ca, h, _⟩ := rawPassthrough_pres H (P := fun _ _ => True) s (fun _ _ _ => trivial) f adv pre fb; simp only; rw [h]; exact Frame.setCache s ca
    · obtain ⟨ca, h, _⟩ := rawPassthrough_pres H (P := fun _ _ => True) s (fun _ _ _ => trivial) f adv pre fb; simp only; rw [h]; exact Frame.setCache s ca
  | readFd f => simp only [step]; rw [readFd_state]; exact Frame.refl s
  | evict tb => simp [Op.isEvict] at h

/-- No `evict` in the list: the operations all reach the same layer object. -/
def NoEvict (ops : List (Op β δ)) : Prop := ∀ o ∈ ops, o.isEvict = false

theorem frame_run (parse : β → Toc δ) (ops : List (Op β δ)) :
    ∀ (s : St β δ), NoEvict ops → Frame s (run H parse s ops) := by
  induction ops with
  | nil => intro s _; exact Frame.refl s
  | cons o rest ih =>
    intro s hn
    exact (frame_step H parse s o (hn o (List.mem_cons_self ..))).trans
      (ih _ (fun o' ho' => hn o' (List.mem_cons_of_mem _ ho')))

theorem step_cfg (parse : β → Toc δ) (s : St β δ) (o : Op β δ) : (step H parse s o).1.cfg = s.cfg := by
  cases ho : o.isEvict with
  | false => exact (frame_step H parse s o ho).cfg
  | true =>
    cases o <;> simp [Op.isEvict] at ho
    rfl

theorem run_cfg (parse : β → Toc δ) (ops : List (Op β δ)) :
    ∀ (s : St β δ), (run H parse s ops).cfg = s.cfg := by
  induction ops with
  | nil => intro s; rfl
  | cons o rest ih => intro s; exact (ih _).trans (step_cfg H parse s o)

/-! ## what a layer hands out -/

theorem rawRead_out {parse : β → Toc δ} {s : St β δ} (hi : Inv H parse s) (hv : s.layerR = .verified)
    (steps : List (Step β)) (ps : List (Nat × β)) (h : (rawRead H s steps).2 = .data ps) :
    PiecesGood (Pin H parse s) ps := by
  unfold rawRead at h
  split at h
  · cases h
  · rename_i ca qs hr
    simp only [Res.data.injEq] at h
    subst h
    have hvf := hi.ver hv
    exact (readSteps_spec H _ (hi.hP H) _ _ _ _ _ hr).2 _ rfl hvf.1
      (hi.clean (by rw [hv]; simp) hvf.2.2) hi.good

theorem rawReadFd_out {parse : β → Toc δ} {s : St β δ} (hi : Inv H parse s) (hv : s.layerR = .verified)
    (f : Nat) (ps : List (Nat × β)) (h : (rawReadFd s f).2 = .data ps) : PiecesGood (Pin H parse s) ps := by
  unfold rawReadFd at h
  split at h
  · rename_i e he
    simp only [Res.data.injEq] at h
    subst h
    have hm := cget_mem he
    exact hi.good _ hm (hi.clean (by rw [hv]; simp) (hi.ver hv).2.2 _ hm)
  · cases h

theorem rootNode_ne_data (s : St β δ) (ps : List (Nat × β)) : rootNode s ≠ .data ps := by
  unfold rootNode; cases s.layerR <;> simp

theorem layerVerify_ne_data (s : St β δ) (D : δ) (ps : List (Nat × β)) :
    (layerVerify H s D).2 ≠ .data ps := by
  rcases layerVerify_cases H s D with ⟨_, h⟩ | ⟨_, h, _⟩ | ⟨_, h, _, _⟩ <;> rw [h] <;> simp

theorem prefetchBeginWith_ne_data (s : St β δ) (c : Nat) (r : Option β) (dg : Option δ)
    (ps : List (Nat × β)) : (prefetchBeginWith H s c r dg).2 ≠ .data ps := by
  unfold prefetchBeginWith
  rcases prefetchDecideWith_cases H s c r dg with ⟨r', h, hr⟩ | ⟨b, _, _, _, h⟩ | ⟨b, _, _, _, _, h⟩
  · rw [h]; rcases hr with rfl | rfl <;> simp
  · rw [h]; simp
  · rw [h]; simp

/-- Only `read` and `readFd` return data, and only for a layer that has a reader. -/
theorem step_data (parse : β → Toc δ) (s : St β δ) (o : Op β δ) (ps : List (Nat × β))
    (h : (step H parse s o).2 = .data ps) :
    s.layerR ≠ .none ∧ ((∃ steps, (rawRead H s steps).2 = .data ps) ∨ (∃ f, (rawReadFd s f).2 = .data ps)) := by
  cases o with
  | prefetchBegin c r => exact absurd h (prefetchBeginWith_ne_data H s c r _ ps)
  | prefetchBeginClone c r tb' =>
    exfalso
    simp only [step] at h
    rcases prefetchBeginClone_cases H parse s c r tb' with ⟨_, h'⟩ | ⟨_, h'⟩
    · rw [h'] at h; cases h
    · rw [h'] at h; exact prefetchBeginWith_ne_data H s c r _ ps h
  | prefetchCommit i =>
    exfalso
    simp only [step, prefetchCommit] at h
    split at h <;> cases h
  | layerVerify D => exact absurd h (layerVerify_ne_data H s D ps)
  | layerSkip => cases h
  | mount l =>
    exfalso
    simp only [step, mount] at h
    split at h
    · exact rootNode_ne_data _ ps h
    · split at h
      · cases h
      · split at h
        · exact rootNode_ne_data _ ps h
        · cases h
      · split at h
        · exact rootNode_ne_data _ ps h
        · cases h
  | storeLookup D =>
    exfalso
    simp only [step, storeLookup] at h
    split at h
    · exact rootNode_ne_data _ ps h
    · cases h
  | read steps =>
    simp only [step, read] at h
    cases hr : s.layerR with
    | none => rw [hr] at h; cases h
    | verified => rw [hr] at h; exact ⟨by simp, Or.inl ⟨steps, h⟩⟩
    | skipped => rw [hr] at h; exact ⟨by simp, Or.inl ⟨steps, h⟩⟩
  | passthrough f adv pre fb =>
    exfalso
    simp only [step, passthrough, rawPassthrough] at h
    cases hr : s.layerR <;> rw [hr] at h <;> simp only at h
    · cases h
    all_goals
      split at h
      · split at h <;> cases h
      · split at h
        · cases h
        · split at h <;> cases h
  | readFd f =>
    simp only [step, readFd] at h
    cases hr : s.layerR with
    | none => rw [hr] at h; cases h
    | verified => rw [hr] at h; exact ⟨by simp, Or.inr ⟨f, h⟩⟩
    | skipped => rw [hr] at h; exact ⟨by simp, Or.inr ⟨f, h⟩⟩
  | evict tb => cases h

/-- On a verified layer whatever an operation returns as data is digest-correct. -/
theorem step_out (parse : β → Toc δ) {s : St β δ} (hi : Inv H parse s) (hv : s.layerR = .verified)
    (o : Op β δ) (ps : List (Nat × β)) (h : (step H parse s o).2 = .data ps) :
    PiecesGood (Pin H parse s) ps := by
  rcases (step_data H parse s o ps h).2 with ⟨steps, h'⟩ | ⟨f, h'⟩
  · exact rawRead_out H hi hv steps ps h'
  · exact rawReadFd_out H hi hv f ps h'

/-! ## strict configuration: the layer is never skip-verified -/

def Op.isLayerSkip : Op β δ → Bool
  | .layerSkip => true
  | _ => false

theorem mount_strict_state (s : St β δ) (l : Labels δ) (hd : s.cfg.disableVerification = false)
    (ha : s.cfg.allowNoVerification = false) :
    (mount H s l).1 = s ∨ ∃ D, (mount H s l).1 = (layerVerify H s D).1 := by
  unfold mount
  simp only [hd, ha, Bool.false_eq_true, ↓reduceIte, Bool.and_false]
  cases l.toc with
  | none => exact Or.inl rfl
  | some od =>
    cases od with
    | none => exact Or.inl rfl
    | some D =>
      refine Or.inr ⟨D, ?_⟩
      simp only
      split <;> simp_all

theorem layerVerify_not_skipped (s : St β δ) (D : δ) (h : s.layerR ≠ .skipped) :
    (layerVerify H s D).1.layerR ≠ .skipped := by
  rcases layerVerify_cases H s D with ⟨hs, _⟩ | ⟨_, h3, _⟩ | ⟨_, h3, _, _⟩
  · exact absurd hs h
  · rw [h3]; exact h
  · rw [h3]; simp

theorem prefetchBeginWith_layerR (s : St β δ) (c : Nat) (reply : Option β) (dg : Option δ) :
    (prefetchBeginWith H s c reply dg).1.layerR = s.layerR := by
  unfold prefetchBeginWith
  rcases prefetchDecideWith_cases H s c reply dg with ⟨r, h, _⟩ | ⟨b, _, _, _, h⟩ | ⟨b, _, _, _, _, h⟩ <;> rw [h]

theorem prefetchCommit_layerR (s : St β δ) (i : Nat) : (prefetchCommit s i).1.layerR = s.layerR := by
  unfold prefetchCommit
  split <;> rfl

theorem strict_step (parse : β → Toc δ) (s : St β δ) (o : Op β δ)
    (hd : s.cfg.disableVerification = false) (ha : s.cfg.allowNoVerification = false)
    (ho : o.isLayerSkip = false) (h : s.layerR ≠ .skipped) :
    (step H parse s o).1.layerR ≠ .skipped := by
  cases o with
  | prefetchBegin c r => simp only [step]; rw [prefetchBegin_eq, prefetchBeginWith_layerR]; exact h
  | prefetchBeginClone c r tb' =>
    simp only [step]
    rcases prefetchBeginClone_cases H parse s c r tb' with ⟨_, h'⟩ | ⟨_, h'⟩
    · rw [h']; exact h
    · rw [h', prefetchBeginWith_layerR]; exact h
  | prefetchCommit i => simp only [step]; rw [prefetchCommit_layerR]; exact h
  | layerVerify D => exact layerVerify_not_skipped H s D h
  | layerSkip => simp [Op.isLayerSkip] at ho
  | mount l =>
    simp only [step]
    rcases mount_strict_state H s l hd ha with h1 | ⟨D, h1⟩
    · rw [h1]; exact h
    · rw [h1]; exact layerVerify_not_skipped H s D h
  | storeLookup D => simp only [step]; rw [storeLookup_state]; exact layerVerify_not_skipped H s D h
  | read steps =>
    simp only [step, read]
    cases hr : s.layerR with
    | none => simp [hr]
    | verified =>
      obtain ⟨ca, h2, _⟩ := rawRead_pres H (P := fun _ _ => True) s (fun _ _ _ => trivial) steps
      simp only; rw [h2]; simp [hr]
    | skipped => exact absurd hr h
  | passthrough f adv pre fb =>
    simp only [step, passthrough]
    cases hr : s.layerR with
    | none => simp [hr]
    | verified =>
      obtain ⟨ca, h2, _⟩ := rawPassthrough_pres H (P := fun _ _ => True) s (fun _ _ _ => trivial) f adv pre fb
      simp only; rw [h2]; simp [hr]
    | skipped => exact absurd hr h
  | readFd f => simp only [step]; rw [readFd_state]; exact h
  | evict tb => simp [step, evict, init]

theorem strict_run (parse : β → Toc δ) (ops : List (Op β δ)) :
    ∀ (s : St β δ), s.cfg.disableVerification = false → s.cfg.allowNoVerification = false →
      (∀ o ∈ ops, o.isLayerSkip = false) → s.layerR ≠ .skipped →
      (run H parse s ops).layerR ≠ .skipped := by
  induction ops with
  | nil => intro s _ _ _ h; exact h
  | cons o rest ih =>
    intro s hd ha hn h
    refine ih _ ?_ ?_ (fun x hx => hn x (List.mem_cons_of_mem _ hx))
      (strict_step H parse s o hd ha (hn o (List.mem_cons_self ..)) h)
    · rw [step_cfg]; exact hd
    · rw [step_cfg]; exact ha

end
end SV.Verify
