import SV.Lemmas.Refcount
/-
Helper lemmas for C10x: no operation of the TTL cache ever un-fires a `finalizeOnce` or forgets a
refCounter, so a value that has left the cache stays out for the rest of every history.
-/
namespace SV.Refcount

/-- Every refCounter of `l` is still in `l'` under the same index with its key and payload, and a
`finalizeOnce` that has fired stays fired. -/
def Mono (l l' : List RC) : Prop :=
  ∀ (j : Nat) (r : RC), l[j]? = some r →
    ∃ r' : RC, l'[j]? = some r' ∧ r'.key = r.key ∧ r'.val = r.val ∧ (r.finDone = true → r'.finDone = true)

theorem Mono.refl (l : List RC) : Mono l l := fun _ r h => ⟨r, h, rfl, rfl, id⟩

theorem Mono.trans {a b c : List RC} (h1 : Mono a b) (h2 : Mono b c) : Mono a c := by
  intro j r hr
  obtain ⟨r1, e1, k1, v1, f1⟩ := h1 j r hr
  obtain ⟨r2, e2, k2, v2, f2⟩ := h2 j r1 e1
  exact ⟨r2, e2, k2.trans k1, v2.trans v1, fun h => f2 (f1 h)⟩

theorem Mono.of_viewEq {l l' : List RC} (h : ViewEq l l') : Mono l l' := by
  intro j r hr
  obtain ⟨r', e, k, v, f⟩ := (h j).1 r hr
  exact ⟨r', e, k, v, fun h => f.trans h⟩

theorem Mono.append (l : List RC) (x : RC) : Mono l (l ++ [x]) := by
  intro j r hr
  have hj : j < l.length := by
    rcases Nat.lt_or_ge j l.length with h | h
    · exact h
    · have hn : l[j]? = none := List.getElem?_eq_none h
      rw [hn] at hr; cases hr
  exact ⟨r, by rw [List.getElem?_append_left hj]; exact hr, rfl, rfl, id⟩

theorem Mono.fin (c : Core) (id : Nat) : Mono c.rcs (c.fin id).rcs := by
  intro j r hr
  refine ⟨if id = j then r.finalize else r, by simp [fin_lookup, hr], ?_, ?_, ?_⟩
  · split <;> simp
  · split <;> simp
  · intro h; split <;> simp [h]

theorem Mono.newTok (c : Core) (id : Nat) : Mono c.rcs (c.newTok id).rcs :=
  Mono.of_viewEq (viewEq_newTok c id)

theorem Mono.release (c : Core) (tok : Nat) : Mono c.rcs (c.release tok).rcs :=
  Mono.of_viewEq (viewEq_release c tok)

theorem Mono.newRc (c : Core) (k v : Nat) : Mono c.rcs (c.newRc k v).rcs := Mono.append _ _

/-- Every operation of the TTL cache (incl. the timer function) is monotone on the refCounters. -/
theorem TTL.step_mono (s : TTL) (op : TOp) : Mono s.core.rcs (s.step op).1.core.rcs := by
  cases op with
  | add k v =>
    simp only [TTL.step, TTL.add]
    split
    · exact Mono.newTok _ _
    · exact (Mono.newRc _ _ _).trans (Mono.newTok _ _)
  | get k =>
    simp only [TTL.step, TTL.get]
    split
    · exact Mono.refl _
    · exact Mono.newTok _ _
  | remove k =>
    simp only [TTL.step, TTL.evictLocked]
    split
    · exact Mono.fin _ _
    · exact Mono.refl _
  | expire k =>
    simp only [TTL.step, TTL.evictLocked]
    split
    · exact Mono.fin _ _
    · exact Mono.refl _
  | done tok e =>
    simp only [TTL.step, TTL.done]
    split
    · exact Mono.refl _
    · rename_i t _
      split
      · have h := (Mono.release s.core tok).trans (Mono.fin (s.core.release tok) t.rc)
        split
        · exact h
        · split <;> exact h
      · exact Mono.release _ _

theorem TTL.foldl_mono (ops : List TOp) :
    ∀ s : TTL, Mono s.core.rcs (ops.foldl (fun s o => (s.step o).1) s).core.rcs := by
  induction ops with
  | nil => intro s; exact Mono.refl _
  | cons o os ih => intro s; exact (TTL.step_mono s o).trans (ih _)

theorem TTL.run_append (ops ops' : List TOp) :
    TTL.run (ops ++ ops') = ops'.foldl (fun s o => (s.step o).1) (TTL.run ops) := by
  simp [TTL.run, List.foldl_append]

end SV.Refcount
