import SV.Model.Refcount
/-
Helper lemmas for C10: the per-refCounter invariant, the token counting lemmas, the invariant of
the shared `Core` and of the two caches, preserved by every operation.
-/
namespace SV.Refcount

/-! ## refCounter level -/

@[simp] theorem RC.inc_key (r : RC) : r.inc.key = r.key := rfl
@[simp] theorem RC.inc_val (r : RC) : r.inc.val = r.val := rfl
@[simp] theorem RC.inc_finDone (r : RC) : r.inc.finDone = r.finDone := rfl
@[simp] theorem RC.dec_key (r : RC) : r.dec.key = r.key := by unfold RC.dec; split <;> rfl
@[simp] theorem RC.dec_val (r : RC) : r.dec.val = r.val := by unfold RC.dec; split <;> rfl
@[simp] theorem RC.dec_finDone (r : RC) : r.dec.finDone = r.finDone := by unfold RC.dec; split <;> rfl
@[simp] theorem RC.finalize_key (r : RC) : r.finalize.key = r.key := by
  unfold RC.finalize; split <;> simp
@[simp] theorem RC.finalize_val (r : RC) : r.finalize.val = r.val := by
  unfold RC.finalize; split <;> simp
@[simp] theorem RC.finalize_finDone (r : RC) : r.finalize.finDone = true := by
  unfold RC.finalize; split <;> simp_all

theorem RC.finalize_of_finDone (r : RC) (h : r.finDone = true) : r.finalize = r := by
  unfold RC.finalize; simp [h]

/-- The per-value invariant, `h` being the number of unreleased closures of the value:
one reference for the cache membership (dropped by `finalize`) plus one per holder; the callback
has run iff both are gone, and then exactly once. -/
def RCok (r : RC) (h : Nat) : Prop :=
  r.initDone = true ∧
  r.refs = (if r.finDone then 0 else 1) + (h : Int) ∧
  r.calls = if r.finDone = true ∧ h = 0 then 1 else 0

theorem RCok.inc {r : RC} {h : Nat} (ok : RCok r h) (nf : r.finDone = false) : RCok r.inc (h + 1) := by
  obtain ⟨key, val, refs, i, f, calls⟩ := r
  simp only [RCok, RC.inc] at *
  subst nf
  simp at *
  obtain ⟨h1, h2, h3⟩ := ok
  exact ⟨h1, by omega, h3⟩

theorem RCok.dec {r : RC} {h : Nat} (ok : RCok r (h + 1)) : RCok r.dec h := by
  obtain ⟨key, val, refs, i, f, calls⟩ := r
  simp only [RCok, RC.dec] at *
  obtain ⟨h1, h2, h3⟩ := ok
  cases f <;> simp at h2 h3 ⊢ <;> split <;> simp <;>
    first
    | omega
    | (refine ⟨h1, by omega, ?_⟩; split <;> omega)
    | exact ⟨h1, by omega, by omega⟩

theorem RCok.finalize {r : RC} {h : Nat} (ok : RCok r h) : RCok r.finalize h := by
  obtain ⟨key, val, refs, i, f, calls⟩ := r
  simp only [RCok, RC.finalize, RC.dec] at *
  obtain ⟨h1, h2, h3⟩ := ok
  cases f <;> simp at h2 h3 ⊢
  · split <;> simp <;> (refine ⟨h1, by omega, ?_⟩; split <;> omega)
  · exact ⟨h1, h2, h3⟩

theorem RCok.fresh (k v : Nat) : RCok (RC.initialize { key := k, val := v }) 0 := by
  simp [RCok, RC.initialize, RC.inc]

@[simp] theorem RC.fresh_key (k v : Nat) : (RC.initialize { key := k, val := v }).key = k := by
  simp [RC.initialize, RC.inc]
@[simp] theorem RC.fresh_val (k v : Nat) : (RC.initialize { key := k, val := v }).val = v := by
  simp [RC.initialize, RC.inc]
@[simp] theorem RC.fresh_finDone (k v : Nat) : (RC.initialize { key := k, val := v }).finDone = false := by
  simp [RC.initialize, RC.inc]

theorem RCok.calls_le_one {r : RC} {h : Nat} (ok : RCok r h) : r.calls ≤ 1 := by
  have := ok.2.2; split at this <;> omega

/-! ## counting holders -/

theorem held_append_one (toks : List Tok) (id id' : Nat) :
    held (toks ++ [{ rc := id' }]) id = held toks id + (if id' = id then 1 else 0) := by
  simp [held, List.countP_append, List.countP_cons]

theorem held_eq_zero_of_fresh (toks : List Tok) (id : Nat) (h : ∀ t ∈ toks, t.rc < id) :
    held toks id = 0 := by
  simp only [held, List.countP_eq_zero]
  intro t ht
  have := h t ht
  simp; intro e; omega

theorem held_pos_of_tok {toks : List Tok} {tok : Nat} {t : Tok} (ht : toks[tok]? = some t)
    (hn : t.once = false) : 0 < held toks t.rc := by
  simp only [held, List.countP_pos_iff]
  exact ⟨t, List.mem_of_getElem? ht, by simp [hn]⟩

theorem held_set_released {toks : List Tok} {tok : Nat} {t : Tok} (ht : toks[tok]? = some t)
    (hn : t.once = false) (id : Nat) :
    held (toks.set tok { t with once := true }) id = held toks id - (if t.rc = id then 1 else 0) := by
  obtain ⟨hlt, hget⟩ := List.getElem_of_getElem? ht
  simp only [held]
  rw [List.countP_set hlt]
  simp [hget, hn]

theorem held_zero_of_all_released {toks : List Tok} (h : ∀ t ∈ toks, t.once = true) (id : Nat) :
    held toks id = 0 := by
  simp only [held, List.countP_eq_zero]
  intro t ht
  simp [h t ht]

/-! ## `List.modify` lookups -/

theorem getElem?_modify_eq {α} (l : List α) (i j : Nat) (f : α → α) :
    (l.modify i f)[j]? = (l[j]?).map (fun a => if i = j then f a else a) := by
  rw [List.getElem?_modify]; rfl

/-! ## the shared core -/

structure CInv (c : Core) : Prop where
  ok : ∀ id r, c.rcs[id]? = some r → RCok r (held c.toks id)
  tokLt : ∀ t ∈ c.toks, t.rc < c.rcs.length

theorem CInv.init : CInv {} := ⟨by intro id r h; simp at h, by intro t h; simp at h⟩

theorem CInv.newTok {c : Core} (inv : CInv c) {id : Nat} {r : RC} (hr : c.rcs[id]? = some r)
    (nf : r.finDone = false) : CInv (c.newTok id) := by
  constructor
  · intro j r' h
    simp only [Core.newTok, getElem?_modify_eq] at h ⊢
    rw [held_append_one]
    cases hj : c.rcs[j]? with
    | none => simp [hj] at h
    | some r0 =>
      simp only [hj, Option.map_some, Option.some.injEq] at h
      have ok0 := inv.ok j r0 hj
      by_cases e : id = j
      · subst e
        simp only [if_true] at h ⊢
        rw [hr] at hj; cases hj
        subst h
        exact ok0.inc nf
      · simp only [e, if_false] at h ⊢
        subst h; exact ok0
  · intro t ht
    simp only [Core.newTok, List.mem_append, List.mem_singleton, List.length_modify] at ht ⊢
    rcases ht with ht | ht
    · exact inv.tokLt t ht
    · subst ht
      exact (List.getElem_of_getElem? hr).1

theorem CInv.newRc {c : Core} (inv : CInv c) (k v : Nat) : CInv (c.newRc k v) := by
  constructor
  · intro j r' h
    simp only [Core.newRc] at h ⊢
    rw [List.getElem?_append] at h
    split at h
    · exact inv.ok j r' h
    · rename_i hge
      have hj : j = c.rcs.length := by
        cases hj' : j - c.rcs.length with
        | zero => omega
        | succ n => simp [hj'] at h
      subst hj
      simp at h
      subst h
      rw [held_eq_zero_of_fresh _ _ inv.tokLt]
      exact RCok.fresh k v
  · intro t ht
    simp only [Core.newRc, List.length_append, List.length_singleton] at ht ⊢
    have := inv.tokLt t ht
    omega

theorem CInv.fin {c : Core} (inv : CInv c) (id : Nat) : CInv (c.fin id) := by
  constructor
  · intro j r' h
    simp only [Core.fin, getElem?_modify_eq] at h ⊢
    cases hj : c.rcs[j]? with
    | none => simp [hj] at h
    | some r0 =>
      simp only [hj, Option.map_some, Option.some.injEq] at h
      have ok0 := inv.ok j r0 hj
      by_cases e : id = j
      · simp only [e, if_true] at h; subst h; exact ok0.finalize
      · simp only [e, if_false] at h; subst h; exact ok0
  · intro t ht
    simp only [Core.fin, List.length_modify] at ht ⊢
    exact inv.tokLt t ht

theorem CInv.finOpt {c : Core} (inv : CInv c) (o : Option Nat) : CInv (c.finOpt o) := by
  cases o with
  | none => exact inv
  | some id => exact inv.fin id

theorem CInv.release {c : Core} (inv : CInv c) (tok : Nat) : CInv (c.release tok) := by
  unfold Core.release
  split
  · exact inv
  · rename_i t ht
    split
    · exact inv
    · rename_i hn
      have hn : t.once = false := by simpa using hn
      constructor
      · intro j r' h
        simp only [getElem?_modify_eq] at h ⊢
        rw [held_set_released ht hn]
        cases hj : c.rcs[j]? with
        | none => simp [hj] at h
        | some r0 =>
          simp only [hj, Option.map_some, Option.some.injEq] at h
          have ok0 := inv.ok j r0 hj
          by_cases e : t.rc = j
          · subst e
            simp only [if_true] at h ⊢
            subst h
            have hp := held_pos_of_tok ht hn
            have : held c.toks t.rc = (held c.toks t.rc - 1) + 1 := by omega
            rw [this] at ok0
            exact ok0.dec
          · simp only [e, if_false] at h ⊢
            subst h; simpa using ok0
      · intro t' ht'
        simp only [List.length_modify]
        rcases List.mem_or_eq_of_mem_set ht' with h | h
        · exact inv.tokLt t' h
        · subst h
          exact inv.tokLt t (List.mem_of_getElem? ht)

/-! ## what the core operations leave untouched -/

/-- key, payload and `finalizeOnce` state of every refCounter are the same in both lists. -/
def ViewEq (l l' : List RC) : Prop :=
  ∀ j : Nat,
    (∀ r : RC, l[j]? = some r →
      ∃ r' : RC, l'[j]? = some r' ∧ r'.key = r.key ∧ r'.val = r.val ∧ r'.finDone = r.finDone) ∧
    (∀ r' : RC, l'[j]? = some r' →
      ∃ r : RC, l[j]? = some r ∧ r'.key = r.key ∧ r'.val = r.val ∧ r'.finDone = r.finDone)

theorem ViewEq.refl (l : List RC) : ViewEq l l :=
  fun _ => ⟨fun r h => ⟨r, h, rfl, rfl, rfl⟩, fun r h => ⟨r, h, rfl, rfl, rfl⟩⟩

theorem ViewEq.trans {a b c : List RC} (h1 : ViewEq a b) (h2 : ViewEq b c) : ViewEq a c := by
  intro j
  constructor
  · intro r hr
    obtain ⟨r1, e1, k1, v1, f1⟩ := (h1 j).1 r hr
    obtain ⟨r2, e2, k2, v2, f2⟩ := (h2 j).1 r1 e1
    exact ⟨r2, e2, k2.trans k1, v2.trans v1, f2.trans f1⟩
  · intro r hr
    obtain ⟨r1, e1, k1, v1, f1⟩ := (h2 j).2 r hr
    obtain ⟨r2, e2, k2, v2, f2⟩ := (h1 j).2 r1 e1
    exact ⟨r2, e2, k1.trans k2, v1.trans v2, f1.trans f2⟩

theorem viewEq_modify (l : List RC) (i : Nat) (f : RC → RC)
    (hf : ∀ r, l[i]? = some r → (f r).key = r.key ∧ (f r).val = r.val ∧ (f r).finDone = r.finDone) :
    ViewEq l (l.modify i f) := by
  intro j
  simp only [getElem?_modify_eq]
  constructor
  · intro r hr
    simp only [hr, Option.map_some, Option.some.injEq, exists_eq_left']
    by_cases e : i = j
    · subst e; simpa using hf r hr
    · simp [e]
  · intro r' hr'
    cases hj : l[j]? with
    | none => simp [hj] at hr'
    | some r =>
      simp only [hj, Option.map_some, Option.some.injEq] at hr'
      refine ⟨r, rfl, ?_⟩
      subst hr'
      by_cases e : i = j
      · subst e; simpa using hf r hj
      · simp [e]

theorem viewEq_newTok (c : Core) (id : Nat) : ViewEq c.rcs (c.newTok id).rcs :=
  viewEq_modify _ _ _ (fun r _ => by simp)

theorem viewEq_release (c : Core) (tok : Nat) : ViewEq c.rcs (c.release tok).rcs := by
  unfold Core.release
  split
  · exact ViewEq.refl _
  · split
    · exact ViewEq.refl _
    · exact viewEq_modify _ _ _ (fun r _ => by simp)

theorem viewEq_fin_of_finDone (c : Core) (id : Nat)
    (h : ∀ r, c.rcs[id]? = some r → r.finDone = true) : ViewEq c.rcs (c.fin id).rcs :=
  viewEq_modify _ _ _ (fun r hr => by simp [h r hr])

/-- `finalize` on one refCounter: everything else keeps its view. -/
theorem fin_lookup (c : Core) (id j : Nat) :
    (c.fin id).rcs[j]? = (c.rcs[j]?).map (fun a => if id = j then a.finalize else a) := by
  simp [Core.fin, getElem?_modify_eq]

@[simp] theorem newTok_length (c : Core) (id : Nat) : (c.newTok id).rcs.length = c.rcs.length := by
  simp [Core.newTok]
@[simp] theorem fin_length (c : Core) (id : Nat) : (c.fin id).rcs.length = c.rcs.length := by
  simp [Core.fin]
@[simp] theorem fin_toks (c : Core) (id : Nat) : (c.fin id).toks = c.toks := rfl
@[simp] theorem finOpt_toks (c : Core) (o : Option Nat) : (c.finOpt o).toks = c.toks := by
  cases o <;> rfl
@[simp] theorem newRc_toks (c : Core) (k v : Nat) : (c.newRc k v).toks = c.toks := rfl
@[simp] theorem newTok_toks (c : Core) (id : Nat) : (c.newTok id).toks = c.toks ++ [{ rc := id }] := rfl

/-! ## TTLCache invariant -/

structure TInv (s : TTL) : Prop where
  core : CInv s.core
  mOk : ∀ k id, s.m k = some id → ∃ r, s.core.rcs[id]? = some r ∧ r.key = k ∧ r.finDone = false
  live : ∀ id r, s.core.rcs[id]? = some r → r.finDone = false → s.m r.key = some id

theorem TInv.init : TInv {} :=
  ⟨CInv.init, by intro k id h; simp at h, by intro id r h; simp at h⟩

/-- An operation that keeps the map and the view of every refCounter keeps the invariant. -/
theorem TInv.of_viewEq {s : TTL} (inv : TInv s) {c' : Core} (hc : CInv c')
    (hv : ViewEq s.core.rcs c'.rcs) : TInv { s with core := c' } := by
  refine ⟨hc, ?_, ?_⟩
  · intro k id hm
    obtain ⟨r, hr, hk, hf⟩ := inv.mOk k id hm
    obtain ⟨r', hr', k', _, f'⟩ := (hv id).1 r hr
    exact ⟨r', hr', k'.trans hk, f'.trans hf⟩
  · intro id r' hr' hf'
    obtain ⟨r, hr, k', _, f'⟩ := (hv id).2 r' hr'
    have := inv.live id r hr (f'.symm.trans hf')
    simpa [k'] using this

theorem TInv.evictLocked {s : TTL} (inv : TInv s) (k : Nat) : TInv (s.evictLocked k) := by
  unfold TTL.evictLocked
  split
  · rename_i id hm
    obtain ⟨r0, hr0, hk0, hf0⟩ := inv.mOk k id hm
    refine ⟨inv.core.fin id, ?_, ?_⟩
    · intro k' id' hm'
      simp only at hm'
      split at hm'
      · cases hm'
      · rename_i hne
        obtain ⟨r, hr, hk, hf⟩ := inv.mOk k' id' hm'
        have hid : id ≠ id' := by
          intro e; subst e
          rw [hr0] at hr; cases hr
          exact hne (hk.symm.trans hk0)
        exact ⟨r, by simp [fin_lookup, hr, hid], hk, hf⟩
    · intro j r' hr' hf'
      simp only [fin_lookup] at hr'
      cases hj : s.core.rcs[j]? with
      | none => simp [hj] at hr'
      | some r =>
        simp only [hj, Option.map_some, Option.some.injEq] at hr'
        by_cases e : id = j
        · simp only [e, if_true] at hr'; subst hr'; simp at hf'
        · simp only [e, if_false] at hr'; subst hr'
          have hm' := inv.live j r hj hf'
          have : r.key ≠ k := by
            intro ek; rw [ek, hm] at hm'; cases hm'; exact e rfl
          simpa [this] using hm'
  · exact inv

theorem TInv.add {s : TTL} (inv : TInv s) (k v : Nat) : TInv (s.add k v).1 := by
  unfold TTL.add
  split
  · rename_i id hm
    obtain ⟨r, hr, _, hf⟩ := inv.mOk k id hm
    exact inv.of_viewEq (inv.core.newTok hr hf) (viewEq_newTok _ _)
  · rename_i hm
    have hnew : (s.core.newRc k v).rcs[s.core.rcs.length]? = some (RC.initialize { key := k, val := v }) := by
      simp [Core.newRc]
    have hc : CInv ((s.core.newRc k v).newTok s.core.rcs.length) :=
      (inv.core.newRc k v).newTok hnew (by simp)
    have hv := viewEq_newTok (s.core.newRc k v) s.core.rcs.length
    refine ⟨hc, ?_, ?_⟩
    · intro k' id' hm'
      simp only at hm'
      split at hm'
      · rename_i e
        cases hm'
        obtain ⟨r', hr', k1, _, f1⟩ := (hv s.core.rcs.length).1 _ hnew
        exact ⟨r', hr', by simp [k1, e], by simp [f1]⟩
      · obtain ⟨r, hr, hk, hf⟩ := inv.mOk k' id' hm'
        have hlt := (List.getElem_of_getElem? hr).1
        have : (s.core.newRc k v).rcs[id']? = some r := by
          simp [Core.newRc, List.getElem?_append_left hlt, hr]
        obtain ⟨r', hr', k1, _, f1⟩ := (hv id').1 _ this
        exact ⟨r', hr', k1.trans hk, f1.trans hf⟩
    · intro j r' hr' hf'
      obtain ⟨r, hr, k1, _, f1⟩ := (hv j).2 r' hr'
      simp only [Core.newRc] at hr
      rw [List.getElem?_append] at hr
      split at hr
      · have hm' := inv.live j r hr (f1.symm.trans hf')
        have : r.key ≠ k := by
          intro ek; rw [ek, hm] at hm'; cases hm'
        simp only [k1, this, if_false]
        exact hm'
      · rename_i hge
        have hj : j = s.core.rcs.length := by
          cases hj' : j - s.core.rcs.length with
          | zero => omega
          | succ n => simp [hj'] at hr
        subst hj
        simp at hr
        subst hr
        simp [k1]

theorem TInv.get {s : TTL} (inv : TInv s) (k : Nat) : TInv (s.get k).1 := by
  unfold TTL.get
  split
  · exact inv
  · rename_i id hm
    obtain ⟨r, hr, _, hf⟩ := inv.mOk k id hm
    exact inv.of_viewEq (inv.core.newTok hr hf) (viewEq_newTok _ _)

theorem TTL.evictLocked_of_mem {s : TTL} {k id : Nat} (h : s.m k = some id) :
    s.evictLocked k = { m := fun k' => if k' = k then none else s.m k', core := s.core.fin id } := by
  simp [TTL.evictLocked, h]

theorem TInv.done {s : TTL} (inv : TInv s) (tok : Nat) (e : Bool) : TInv (s.done tok e).1 := by
  unfold TTL.done
  split
  · exact inv
  · rename_i t ht
    have inv1 : TInv { s with core := s.core.release tok } :=
      inv.of_viewEq (inv.core.release tok) (viewEq_release _ _)
    cases e with
    | false => exact inv1
    | true =>
      simp only [if_true]
      split
      · -- no such refCounter: finalize changes nothing
        rename_i hnone
        exact inv1.of_viewEq (inv1.core.fin t.rc) (viewEq_fin_of_finDone _ _ (by
          intro r hr
          have : ((s.core.release tok).fin t.rc).rcs[t.rc]? ≠ none := by
            simp [fin_lookup, hr]
          exact absurd hnone this))
      · rename_i r hr
        split
        · rename_i hm
          have := inv1.evictLocked r.key
          rw [TTL.evictLocked_of_mem (s := { s with core := s.core.release tok }) hm] at this
          exact this
        · rename_i hm
          refine inv1.of_viewEq (inv1.core.fin t.rc) (viewEq_fin_of_finDone _ _ ?_)
          intro r1 hr1
          cases hf : r1.finDone with
          | true => rfl
          | false =>
            exfalso
            have hl := inv1.live t.rc r1 hr1 hf
            have : r.key = r1.key := by
              simp [fin_lookup, hr1] at hr
              subst hr; simp
            exact hm (by rw [this]; exact hl)

theorem TInv.step {s : TTL} (inv : TInv s) (op : TOp) : TInv (s.step op).1 := by
  cases op with
  | add k v => exact inv.add k v
  | get k => exact inv.get k
  | remove k => exact inv.evictLocked k
  | expire k => exact inv.evictLocked k
  | done tok e => exact inv.done tok e

theorem TInv.foldl (ops : List TOp) : ∀ {s : TTL}, TInv s → TInv (ops.foldl (fun s o => (s.step o).1) s) := by
  induction ops with
  | nil => intro s h; exact h
  | cons o ops ih => intro s h; exact ih (h.step o)

theorem TInv.run (ops : List TOp) : TInv (TTL.run ops) := TInv.foldl ops TInv.init

/-! ## groupcache/lru list -/

theorem find_some_mem {k id : Nat} : ∀ {o : List (Nat × Nat)}, find k o = some id → (k, id) ∈ o := by
  intro o
  induction o with
  | nil => intro h; simp [find] at h
  | cons e o ih =>
    obtain ⟨k', id'⟩ := e
    intro h
    simp only [find] at h
    split at h
    · rename_i ek; cases h; subst ek; exact List.mem_cons_self
    · exact List.mem_cons_of_mem _ (ih h)

theorem find_none_not_mem {k : Nat} : ∀ {o : List (Nat × Nat)}, find k o = none → ∀ id, (k, id) ∉ o := by
  intro o
  induction o with
  | nil => intro _ id h; simp at h
  | cons e o ih =>
    obtain ⟨k', id'⟩ := e
    intro h id hm
    simp only [find] at h
    split at h
    · cases h
    · rename_i hne
      rcases List.mem_cons.mp hm with e | e
      · cases e; exact hne rfl
      · exact ih h id e

/-- keys of the list are pairwise distinct (`lru.Cache.cache` is a map). -/
def KeysNodup (o : List (Nat × Nat)) : Prop := o.Pairwise (fun a b => a.1 ≠ b.1)

theorem KeysNodup.unique {o : List (Nat × Nat)} (h : KeysNodup o) {k id id' : Nat}
    (h1 : (k, id) ∈ o) (h2 : (k, id') ∈ o) : id = id' := by
  induction o with
  | nil => simp at h1
  | cons e o ih =>
    have hp := List.pairwise_cons.mp h
    rcases List.mem_cons.mp h1 with e1 | e1 <;> rcases List.mem_cons.mp h2 with e2 | e2
    · rw [← e1] at e2; cases e2; rfl
    · subst e1; exact absurd rfl (hp.1 (k, id') e2)
    · subst e2; exact absurd rfl (hp.1 (k, id) e1)
    · exact ih hp.2 e1 e2

theorem find_of_mem {o : List (Nat × Nat)} (h : KeysNodup o) {k id : Nat} (hm : (k, id) ∈ o) :
    find k o = some id := by
  cases hf : find k o with
  | none => exact absurd hm (find_none_not_mem hf id)
  | some id' => rw [h.unique hm (find_some_mem hf)]

theorem mem_eraseKey {k : Nat} {o : List (Nat × Nat)} {e : Nat × Nat} :
    e ∈ eraseKey k o ↔ e ∈ o ∧ e.1 ≠ k := by
  simp [eraseKey, List.mem_filter]

theorem KeysNodup.eraseKey {o : List (Nat × Nat)} (h : KeysNodup o) (k : Nat) : KeysNodup (eraseKey k o) :=
  List.Pairwise.filter _ h

theorem eraseKey_length_le (k : Nat) (o : List (Nat × Nat)) : (eraseKey k o).length ≤ o.length :=
  List.length_filter_le _ _

theorem eraseKey_length_lt {k id : Nat} {o : List (Nat × Nat)} (h : (k, id) ∈ o) :
    (eraseKey k o).length < o.length := by
  unfold eraseKey
  rw [List.length_filter_lt_length_iff_exists]
  exact ⟨(k, id), h, by simp⟩

/-- `MoveToFront` keeps the set of entries, the distinctness of keys and the length. -/
theorem moveToFront_mem {o : List (Nat × Nat)} (hn : KeysNodup o) {k id : Nat} (hm : (k, id) ∈ o)
    (e : Nat × Nat) : e ∈ (k, id) :: eraseKey k o ↔ e ∈ o := by
  simp only [List.mem_cons, mem_eraseKey]
  constructor
  · rintro (h | h)
    · subst h; exact hm
    · exact h.1
  · intro h
    by_cases ek : e.1 = k
    · left
      obtain ⟨k', id'⟩ := e
      simp only at ek; subst ek
      rw [hn.unique h hm]
    · exact Or.inr ⟨h, ek⟩

theorem moveToFront_nodup {o : List (Nat × Nat)} (hn : KeysNodup o) (k id : Nat) :
    KeysNodup ((k, id) :: eraseKey k o) := by
  refine List.pairwise_cons.mpr ⟨?_, hn.eraseKey k⟩
  intro e he
  exact fun h => (mem_eraseKey.mp he).2 h.symm

theorem moveToFront_length {o : List (Nat × Nat)} {k id : Nat} (hm : (k, id) ∈ o) :
    ((k, id) :: eraseKey k o).length ≤ o.length := by
  have := eraseKey_length_lt hm
  simp only [List.length_cons]; omega

/-- With distinct keys, dropping the last entry is erasing its key. -/
theorem eraseKey_last {ys : List (Nat × Nat)} {a : Nat × Nat} (h : KeysNodup (ys ++ [a])) :
    eraseKey a.1 (ys ++ [a]) = ys := by
  have hp := List.pairwise_append.mp h
  unfold eraseKey
  rw [List.filter_append]
  have h1 : List.filter (fun e => e.1 != a.1) ys = ys := by
    rw [List.filter_eq_self]
    intro e he
    have := hp.2.2 e he a (by simp)
    simpa using this
  have h2 : List.filter (fun e => e.1 != a.1) [a] = [] := by simp
  rw [h1, h2, List.append_nil]

/-! ## LRUCache invariant -/

/-- The part of the invariant that does not mention the capacity. -/
structure LInv0 (o : List (Nat × Nat)) (c : Core) : Prop where
  core : CInv c
  nodup : KeysNodup o
  oOk : ∀ k id, (k, id) ∈ o → ∃ r, c.rcs[id]? = some r ∧ r.key = k ∧ r.finDone = false
  live : ∀ id r, c.rcs[id]? = some r → r.finDone = false → (r.key, id) ∈ o

structure LInv (s : LRU) : Prop where
  inv0 : LInv0 s.order s.core
  capOk : s.cap ≠ 0 → s.order.length ≤ s.cap

theorem LInv.init (cap : Nat) : LInv { cap := cap } :=
  ⟨⟨CInv.init, List.Pairwise.nil, by intro k id h; simp at h, by intro id r h; simp at h⟩, by simp⟩

theorem LInv0.reorder {o : List (Nat × Nat)} {c : Core} (inv : LInv0 o c) {o' : List (Nat × Nat)}
    {c' : Core} (hc : CInv c') (hv : ViewEq c.rcs c'.rcs) (hn : KeysNodup o')
    (hm : ∀ e, e ∈ o' ↔ e ∈ o) : LInv0 o' c' := by
  refine ⟨hc, hn, ?_, ?_⟩
  · intro k id hmem
    obtain ⟨r, hr, hk, hf⟩ := inv.oOk k id ((hm _).mp hmem)
    obtain ⟨r', hr', k', _, f'⟩ := (hv id).1 r hr
    exact ⟨r', hr', k'.trans hk, f'.trans hf⟩
  · intro id r' hr' hf'
    obtain ⟨r, hr, k', _, f'⟩ := (hv id).2 r' hr'
    have := inv.live id r hr (f'.symm.trans hf')
    exact (hm _).mpr (by simpa [k'] using this)

/-- `removeElement` of a present entry followed by `OnEvicted` (= `finalize`). -/
theorem LInv0.evict {o : List (Nat × Nat)} {c : Core} (inv : LInv0 o c) {k id : Nat}
    (hmem : (k, id) ∈ o) : LInv0 (eraseKey k o) (c.fin id) := by
  obtain ⟨r0, hr0, hk0, hf0⟩ := inv.oOk k id hmem
  refine ⟨inv.core.fin id, inv.nodup.eraseKey k, ?_, ?_⟩
  · intro k' id' hm'
    obtain ⟨hin, hne⟩ := mem_eraseKey.mp hm'
    simp only at hne
    obtain ⟨r, hr, hk, hf⟩ := inv.oOk k' id' hin
    have hid : id ≠ id' := by
      intro e; subst e
      rw [hr0] at hr; cases hr
      exact hne (hk.symm.trans hk0)
    exact ⟨r, by simp [fin_lookup, hr, hid], hk, hf⟩
  · intro j r' hr' hf'
    simp only [fin_lookup] at hr'
    cases hj : c.rcs[j]? with
    | none => simp [hj] at hr'
    | some r =>
      simp only [hj, Option.map_some, Option.some.injEq] at hr'
      by_cases e : id = j
      · simp only [e, if_true] at hr'; subst hr'; simp at hf'
      · simp only [e, if_false] at hr'; subst hr'
        have hm' := inv.live j r hj hf'
        refine mem_eraseKey.mpr ⟨hm', ?_⟩
        intro ek
        simp only at ek
        rw [ek] at hm'
        exact e (inv.nodup.unique hmem hm')

/-- `PushFront` of a fresh refCounter under a key that is not in the list. -/
theorem LInv0.push {o : List (Nat × Nat)} {c : Core} (inv : LInv0 o c) {k : Nat} (v : Nat)
    (hk : ∀ id, (k, id) ∉ o) :
    LInv0 ((k, c.rcs.length) :: o) ((c.newRc k v).newTok c.rcs.length) := by
  have hnew : (c.newRc k v).rcs[c.rcs.length]? = some (RC.initialize { key := k, val := v }) := by
    simp [Core.newRc]
  have hc : CInv ((c.newRc k v).newTok c.rcs.length) := (inv.core.newRc k v).newTok hnew (by simp)
  have hv := viewEq_newTok (c.newRc k v) c.rcs.length
  refine ⟨hc, ?_, ?_, ?_⟩
  · refine List.pairwise_cons.mpr ⟨?_, inv.nodup⟩
    intro e he ek
    obtain ⟨k', id'⟩ := e
    simp only at ek; subst ek
    exact hk id' he
  · intro k' id' hm'
    rcases List.mem_cons.mp hm' with e | e
    · cases e
      obtain ⟨r', hr', k1, _, f1⟩ := (hv c.rcs.length).1 _ hnew
      exact ⟨r', hr', by simp [k1], by simp [f1]⟩
    · obtain ⟨r, hr, hk', hf⟩ := inv.oOk k' id' e
      have hlt := (List.getElem_of_getElem? hr).1
      have : (c.newRc k v).rcs[id']? = some r := by
        simp [Core.newRc, List.getElem?_append_left hlt, hr]
      obtain ⟨r', hr', k1, _, f1⟩ := (hv id').1 _ this
      exact ⟨r', hr', k1.trans hk', f1.trans hf⟩
  · intro j r' hr' hf'
    obtain ⟨r, hr, k1, _, f1⟩ := (hv j).2 r' hr'
    simp only [Core.newRc] at hr
    rw [List.getElem?_append] at hr
    split at hr
    · have hm' := inv.live j r hr (f1.symm.trans hf')
      rw [k1]; exact List.mem_cons_of_mem _ hm'
    · rename_i hge
      have hj : j = c.rcs.length := by
        cases hj' : j - c.rcs.length with
        | zero => omega
        | succ n => simp [hj'] at hr
      subst hj
      simp at hr
      subst hr
      simp [k1]

theorem innerGet_of_find_some {o : List (Nat × Nat)} {k id : Nat} (h : find k o = some id) :
    innerGet o k = ((k, id) :: eraseKey k o, some id) := by simp [innerGet, h]

theorem innerGet_of_find_none {o : List (Nat × Nat)} {k : Nat} (h : find k o = none) :
    innerGet o k = (o, none) := by simp [innerGet, h]

theorem LInv.hit {s : LRU} (inv : LInv s) {k id : Nat} (h : find k s.order = some id) :
    LInv { s with order := (k, id) :: eraseKey k s.order, core := s.core.newTok id } := by
  have hmem := find_some_mem h
  obtain ⟨r, hr, _, hf⟩ := inv.inv0.oOk k id hmem
  refine ⟨inv.inv0.reorder (inv.inv0.core.newTok hr hf) (viewEq_newTok _ _)
    (moveToFront_nodup inv.inv0.nodup k id) (moveToFront_mem inv.inv0.nodup hmem), ?_⟩
  intro hc
  exact Nat.le_trans (moveToFront_length hmem) (inv.capOk hc)

theorem LInv.add {s : LRU} (inv : LInv s) (k v : Nat) : LInv (s.add k v).1 := by
  unfold LRU.add
  cases hf : find k s.order with
  | some id =>
    simp only [innerGet_of_find_some hf]
    exact inv.hit hf
  | none =>
    simp only [innerGet_of_find_none hf]
    have hk := find_none_not_mem hf
    have hpush := inv.inv0.push v hk
    simp only [innerAdd, hf]
    split
    · rename_i hcap
      -- RemoveOldest
      have hne : ((k, s.core.rcs.length) :: s.order) ≠ [] := by simp
      obtain ⟨a, ha⟩ : ∃ a, ((k, s.core.rcs.length) :: s.order).getLast? = some a := by
        cases hl : ((k, s.core.rcs.length) :: s.order).getLast? with
        | none => exact absurd (List.getLast?_eq_none_iff.mp hl) hne
        | some a => exact ⟨a, rfl⟩
      obtain ⟨ys, hys⟩ := List.getLast?_eq_some_iff.mp ha
      simp only [ha, Option.map_some, Core.finOpt]
      rw [hys, List.dropLast_concat]
      have hmem : (a.1, a.2) ∈ (k, s.core.rcs.length) :: s.order := by rw [hys]; simp
      have hev := hpush.evict hmem
      rw [hys, eraseKey_last (by rw [← hys]; exact hpush.nodup)] at hev
      refine ⟨hev, ?_⟩
      intro hc
      have hlen := congrArg List.length hys
      simp only [List.length_cons, List.length_append] at hlen
      have := inv.capOk hc
      simp only; omega
    · rename_i hcap
      refine ⟨hpush, ?_⟩
      intro hc
      have hc' : s.cap ≠ 0 := hc
      show (s.order.length + 1) ≤ s.cap
      simp only [List.length_cons] at hcap
      omega

theorem LInv.get {s : LRU} (inv : LInv s) (k : Nat) : LInv (s.get k).1 := by
  unfold LRU.get
  cases hf : find k s.order with
  | some id =>
    simp only [innerGet_of_find_some hf]
    exact inv.hit hf
  | none =>
    simp only [innerGet_of_find_none hf]
    exact inv

theorem LInv.remove {s : LRU} (inv : LInv s) (k : Nat) : LInv (s.remove k) := by
  unfold LRU.remove
  split
  · rename_i id hf
    refine ⟨inv.inv0.evict (find_some_mem hf), ?_⟩
    intro hc
    exact Nat.le_trans (eraseKey_length_le k s.order) (inv.capOk hc)
  · exact inv

theorem LInv.done {s : LRU} (inv : LInv s) (tok : Nat) : LInv (s.done tok).1 := by
  unfold LRU.done
  split
  · exact inv
  · exact ⟨inv.inv0.reorder (inv.inv0.core.release tok) (viewEq_release _ _) inv.inv0.nodup
      (fun _ => Iff.rfl), inv.capOk⟩

theorem LInv.step {s : LRU} (inv : LInv s) (op : LOp) : LInv (s.step op).1 := by
  cases op with
  | add k v => exact inv.add k v
  | get k => exact inv.get k
  | remove k => exact inv.remove k
  | done tok => exact inv.done tok

theorem LInv.foldl (ops : List LOp) : ∀ {s : LRU}, LInv s → LInv (ops.foldl (fun s o => (s.step o).1) s) := by
  induction ops with
  | nil => intro s h; exact h
  | cons o ops ih => intro s h; exact ih (h.step o)

theorem LInv.run (cap : Nat) (ops : List LOp) : LInv (LRU.run cap ops) := LInv.foldl ops (LInv.init cap)

/-! ## membership, as the property theorems phrase it -/

/-- value `id` (with refCounter `r`) is what the TTL cache stores under its key. -/
def TTL.member (s : TTL) (id : Nat) (r : RC) : Prop := s.m r.key = some id

/-- value `id` (with refCounter `r`) is an entry of the LRU list. -/
def LRU.member (s : LRU) (id : Nat) (r : RC) : Prop := (r.key, id) ∈ s.order

theorem TInv.member_iff {s : TTL} (inv : TInv s) {id : Nat} {r : RC} (hr : s.core.rcs[id]? = some r) :
    s.member id r ↔ r.finDone = false := by
  constructor
  · intro hm
    obtain ⟨r', hr', _, hf⟩ := inv.mOk _ _ hm
    rw [hr] at hr'; cases hr'; exact hf
  · exact inv.live id r hr

theorem LInv.member_iff {s : LRU} (inv : LInv s) {id : Nat} {r : RC} (hr : s.core.rcs[id]? = some r) :
    s.member id r ↔ r.finDone = false := by
  constructor
  · intro hm
    obtain ⟨r', hr', _, hf⟩ := inv.inv0.oOk _ _ hm
    rw [hr] at hr'; cases hr'; exact hf
  · exact inv.inv0.live id r hr

theorem RCok.calls_iff {r : RC} {h : Nat} (ok : RCok r h) : r.calls = 1 ↔ (r.finDone = true ∧ h = 0) := by
  have := ok.2.2
  constructor
  · intro h1; rw [h1] at this
    by_cases c : r.finDone = true ∧ h = 0
    · exact c
    · simp [c] at this
  · intro c; simpa [c] using this

theorem RCok.refs_eq {r : RC} {h : Nat} (ok : RCok r h) :
    r.refs = (if r.finDone = false then 1 else 0) + (h : Int) := by
  have := ok.2.1
  cases hf : r.finDone <;> simp [hf] at this ⊢ <;> exact this

/-! ## draining -/

theorem ViewEq.keys {l l' : List RC} (h : ViewEq l l') : l'.map (·.key) = l.map (·.key) := by
  apply List.ext_getElem?
  intro j
  simp only [List.getElem?_map]
  cases hj : l[j]? with
  | some r =>
    obtain ⟨r', hr', k, _, _⟩ := (h j).1 r hj
    simp [hr', k]
  | none =>
    cases hj' : l'[j]? with
    | none => rfl
    | some r' =>
      obtain ⟨r, hr, _⟩ := (h j).2 r' hj'
      rw [hj] at hr; cases hr

theorem fin_keys (c : Core) (id : Nat) : (c.fin id).rcs.map (·.key) = c.rcs.map (·.key) := by
  apply List.ext_getElem?
  intro j
  simp only [List.getElem?_map, fin_lookup]
  cases c.rcs[j]? with
  | none => rfl
  | some r => by_cases e : id = j <;> simp [e]

theorem RC.finalize_finalize (r : RC) : r.finalize.finalize = r.finalize :=
  RC.finalize_of_finDone _ (RC.finalize_finDone r)

theorem fin_fin (c : Core) (id : Nat) : (c.fin id).fin id = c.fin id := by
  have : ((c.fin id).fin id).rcs = (c.fin id).rcs := by
    apply List.ext_getElem?
    intro j
    rw [fin_lookup, fin_lookup]
    cases c.rcs[j]? with
    | none => rfl
    | some r => by_cases e : id = j <;> simp [e, RC.finalize_finalize]
  show ({ (c.fin id) with rcs := ((c.fin id).fin id).rcs } : Core) = c.fin id
  rw [this]

/-- `once` of closure `i` has fired (or there is no such closure). -/
def Released (c : Core) (i : Nat) : Prop := ∀ t, c.toks[i]? = some t → t.once = true

theorem release_toks_length (c : Core) (tok : Nat) : (c.release tok).toks.length = c.toks.length := by
  unfold Core.release
  split
  · rfl
  · split
    · rfl
    · simp

theorem release_released_self (c : Core) (tok : Nat) : Released (c.release tok) tok := by
  unfold Core.release
  intro t'
  split
  · rename_i hn; intro h; rw [hn] at h; cases h
  · rename_i t ht
    split
    · rename_i ho; intro h; rw [ht] at h; cases h; exact ho
    · intro h
      simp only [List.getElem?_set, if_true] at h
      split at h
      · cases h; rfl
      · cases h

theorem release_released_mono (c : Core) (tok i : Nat) (h : Released c i) : Released (c.release tok) i := by
  by_cases e : tok = i
  · subst e; exact release_released_self c tok
  · unfold Core.release
    split
    · exact h
    · split
      · exact h
      · intro t' ht'
        simp only [List.getElem?_set, e, if_false] at ht'
        exact h t' ht'

/-- the token keeps pointing at the same value; afterwards its `once` has fired. -/
theorem release_tok_lookup {c : Core} {tok : Nat} {t : Tok} (ht : c.toks[tok]? = some t) :
    (c.release tok).toks[tok]? = some { t with once := true } := by
  unfold Core.release
  rw [ht]
  simp only
  split
  · rename_i ho
    rw [ht]; congr 1
    cases t; simp_all
  · have := (List.getElem_of_getElem? ht).1
    simp [this]

theorem release_of_released {c : Core} {tok : Nat} {t : Tok} (ht : c.toks[tok]? = some t)
    (ho : t.once = true) : c.release tok = c := by
  simp [Core.release, ht, ho]

def Core.releaseAll (c : Core) (is : List Nat) : Core := is.foldl Core.release c

theorem releaseAll_inv (is : List Nat) : ∀ {c : Core}, CInv c →
    CInv (c.releaseAll is) ∧ ViewEq c.rcs (c.releaseAll is).rcs ∧
    (c.releaseAll is).toks.length = c.toks.length ∧
    ∀ i, (i ∈ is ∨ Released c i) → Released (c.releaseAll is) i := by
  induction is with
  | nil =>
    intro c h
    refine ⟨h, ViewEq.refl _, rfl, ?_⟩
    intro i hi
    rcases hi with hi | hi
    · simp at hi
    · exact hi
  | cons a is ih =>
    intro c h
    obtain ⟨h1, h2, h3, h4⟩ := ih (h.release a)
    refine ⟨h1, (viewEq_release c a).trans h2, by rw [← release_toks_length c a]; exact h3, ?_⟩
    intro i hi
    apply h4
    rcases hi with hi | hi
    · rcases List.mem_cons.mp hi with e | e
      · subst e; exact Or.inr (release_released_self c i)
      · exact Or.inl e
    · exact Or.inr (release_released_mono c a i hi)

theorem releaseAll_range {c : Core} (inv : CInv c) :
    ∀ t ∈ (c.releaseAll (List.range c.toks.length)).toks, t.once = true := by
  obtain ⟨_, _, h3, h4⟩ := releaseAll_inv (List.range c.toks.length) inv
  intro t ht
  obtain ⟨i, hi⟩ := List.mem_iff_getElem?.mp ht
  have hlt := (List.getElem_of_getElem? hi).1
  rw [h3] at hlt
  exact h4 i (Or.inl (List.mem_range.mpr hlt)) t hi

/-- a state in which every closure was called and the key of every value was removed has
finalised every value exactly once. -/
theorem drained_calls {c : Core} (inv : CInv c) (hrel : ∀ t ∈ c.toks, t.once = true)
    (hfin : ∀ (id : Nat) (r : RC), c.rcs[id]? = some r → r.finDone = true) :
    ∀ (id : Nat) (r : RC), c.rcs[id]? = some r → r.calls = 1 := by
  intro id r hr
  exact (inv.ok id r hr).calls_iff.mpr ⟨hfin id r hr, held_zero_of_all_released hrel id⟩

/-! ### TTL -/

theorem TTL.done_false_eq (s : TTL) (tok : Nat) :
    (s.done tok false).1 = { s with core := s.core.release tok } := by
  unfold TTL.done
  split
  · rename_i hn; simp [Core.release, hn]
  · rfl

theorem TTL.foldl_done_false (is : List Nat) : ∀ s : TTL,
    (is.map (fun t => TOp.done t false)).foldl (fun s o => (s.step o).1) s
      = { s with core := s.core.releaseAll is } := by
  induction is with
  | nil => intro s; rfl
  | cons a is ih =>
    intro s
    have h1 : (s.step (TOp.done a false)).1 = { s with core := s.core.release a } :=
      TTL.done_false_eq s a
    rw [List.map_cons, List.foldl_cons, h1, ih]
    rfl

theorem TTL.evictLocked_toks (s : TTL) (k : Nat) : (s.evictLocked k).core.toks = s.core.toks := by
  unfold TTL.evictLocked; split <;> rfl

theorem TTL.evictLocked_keys (s : TTL) (k : Nat) :
    (s.evictLocked k).core.rcs.map (·.key) = s.core.rcs.map (·.key) := by
  unfold TTL.evictLocked; split
  · exact fin_keys _ _
  · rfl

theorem TTL.evictLocked_none_self (s : TTL) (k : Nat) : (s.evictLocked k).m k = none := by
  unfold TTL.evictLocked; split
  · simp
  · rename_i h; exact h

theorem TTL.evictLocked_none_mono (s : TTL) (k k' : Nat) (h : s.m k' = none) :
    (s.evictLocked k).m k' = none := by
  unfold TTL.evictLocked; split
  · simp only; split <;> simp [h]
  · exact h

def TTL.evictAll (s : TTL) (ks : List Nat) : TTL := ks.foldl TTL.evictLocked s

theorem TTL.foldl_remove (ks : List Nat) : ∀ s : TTL,
    (ks.map TOp.remove).foldl (fun s o => (s.step o).1) s = s.evictAll ks := by
  induction ks with
  | nil => intro s; rfl
  | cons a ks ih =>
    intro s
    rw [List.map_cons, List.foldl_cons]
    exact ih _

theorem TTL.evictAll_spec (ks : List Nat) : ∀ s : TTL,
    (s.evictAll ks).core.toks = s.core.toks ∧
    (s.evictAll ks).core.rcs.map (·.key) = s.core.rcs.map (·.key) ∧
    ∀ k, (k ∈ ks ∨ s.m k = none) → (s.evictAll ks).m k = none := by
  induction ks with
  | nil => intro s; exact ⟨rfl, rfl, by intro k hk; simpa [TTL.evictAll] using hk⟩
  | cons a ks ih =>
    intro s
    obtain ⟨h1, h2, h3⟩ := ih (s.evictLocked a)
    refine ⟨h1.trans (TTL.evictLocked_toks s a), h2.trans (TTL.evictLocked_keys s a), ?_⟩
    intro k hk
    apply h3
    rcases hk with hk | hk
    · rcases List.mem_cons.mp hk with e | e
      · subst e; exact Or.inr (TTL.evictLocked_none_self s k)
      · exact Or.inl e
    · exact Or.inr (TTL.evictLocked_none_mono s a k hk)

theorem TInv.evictAll (ks : List Nat) : ∀ {s : TTL}, TInv s → TInv (s.evictAll ks) := by
  induction ks with
  | nil => intro s h; exact h
  | cons a ks ih => intro s h; exact ih (h.evictLocked a)

theorem TTL.foldl_drain (s : TTL) :
    s.drainOps.foldl (fun s o => (s.step o).1) s
      = TTL.evictAll { s with core := s.core.releaseAll (List.range s.core.toks.length) }
          (s.core.rcs.map (·.key)) := by
  unfold TTL.drainOps
  rw [List.foldl_append, TTL.foldl_done_false]
  have : s.core.rcs.map (fun r => TOp.remove r.key) = (s.core.rcs.map (·.key)).map TOp.remove := by
    simp [List.map_map]
  rw [this, TTL.foldl_remove]

theorem TInv.drained {s : TTL} (inv : TInv s) :
    let d := s.drainOps.foldl (fun s o => (s.step o).1) s
    d.core.rcs.length = s.core.rcs.length ∧ ∀ (id : Nat) (r : RC), d.core.rcs[id]? = some r → r.calls = 1 := by
  intro d
  have hd : d = _ := TTL.foldl_drain s
  obtain ⟨c1, v1, _, _⟩ := releaseAll_inv (List.range s.core.toks.length) inv.core
  have inv1 : TInv { s with core := s.core.releaseAll (List.range s.core.toks.length) } :=
    inv.of_viewEq c1 v1
  have inv2 := inv1.evictAll (s.core.rcs.map (·.key))
  obtain ⟨t2, k2, m2⟩ := TTL.evictAll_spec (s.core.rcs.map (·.key))
    { s with core := s.core.releaseAll (List.range s.core.toks.length) }
  rw [← hd] at inv2 t2 k2 m2
  simp only at t2 k2 m2
  have hkeys : d.core.rcs.map (·.key) = s.core.rcs.map (·.key) := k2.trans v1.keys
  refine ⟨by simpa using congrArg List.length hkeys, ?_⟩
  apply drained_calls inv2.core
  · rw [t2]; exact releaseAll_range inv.core
  · intro id r hr
    cases hf : r.finDone with
    | true => rfl
    | false =>
      exfalso
      have hl := inv2.live id r hr hf
      have hmem : r.key ∈ s.core.rcs.map (·.key) := by
        rw [← hkeys]
        exact List.mem_map.mpr ⟨r, List.mem_of_getElem? hr, rfl⟩
      rw [m2 r.key (Or.inl hmem)] at hl
      cases hl

/-! ### LRU -/

theorem LRU.done_eq (s : LRU) (tok : Nat) : (s.done tok).1 = { s with core := s.core.release tok } := by
  unfold LRU.done
  split
  · rename_i hn; simp [Core.release, hn]
  · rfl

theorem LRU.foldl_done (is : List Nat) : ∀ s : LRU,
    (is.map LOp.done).foldl (fun s o => (s.step o).1) s = { s with core := s.core.releaseAll is } := by
  induction is with
  | nil => intro s; rfl
  | cons a is ih =>
    intro s
    have h1 : (s.step (LOp.done a)).1 = { s with core := s.core.release a } := LRU.done_eq s a
    rw [List.map_cons, List.foldl_cons, h1, ih]
    rfl

/-- key `k` has no entry in the list. -/
def NoKey (o : List (Nat × Nat)) (k : Nat) : Prop := ∀ id, (k, id) ∉ o

theorem LRU.remove_toks (s : LRU) (k : Nat) : (s.remove k).core.toks = s.core.toks := by
  unfold LRU.remove; split <;> rfl

theorem LRU.remove_keys (s : LRU) (k : Nat) :
    (s.remove k).core.rcs.map (·.key) = s.core.rcs.map (·.key) := by
  unfold LRU.remove; split
  · exact fin_keys _ _
  · rfl

theorem LRU.remove_noKey_self (s : LRU) (k : Nat) : NoKey (s.remove k).order k := by
  unfold LRU.remove; split
  · intro id h; exact (mem_eraseKey.mp h).2 rfl
  · rename_i h; exact find_none_not_mem h

theorem LRU.remove_noKey_mono (s : LRU) (k k' : Nat) (h : NoKey s.order k') :
    NoKey (s.remove k).order k' := by
  unfold LRU.remove; split
  · intro id hm; exact h id (mem_eraseKey.mp hm).1
  · exact h

def LRU.removeAll (s : LRU) (ks : List Nat) : LRU := ks.foldl LRU.remove s

theorem LRU.foldl_remove (ks : List Nat) : ∀ s : LRU,
    (ks.map LOp.remove).foldl (fun s o => (s.step o).1) s = s.removeAll ks := by
  induction ks with
  | nil => intro s; rfl
  | cons a ks ih =>
    intro s
    rw [List.map_cons, List.foldl_cons]
    exact ih _

theorem LRU.removeAll_spec (ks : List Nat) : ∀ s : LRU,
    (s.removeAll ks).core.toks = s.core.toks ∧
    (s.removeAll ks).core.rcs.map (·.key) = s.core.rcs.map (·.key) ∧
    ∀ k, (k ∈ ks ∨ NoKey s.order k) → NoKey (s.removeAll ks).order k := by
  induction ks with
  | nil => intro s; exact ⟨rfl, rfl, by intro k hk; simpa [LRU.removeAll] using hk⟩
  | cons a ks ih =>
    intro s
    obtain ⟨h1, h2, h3⟩ := ih (s.remove a)
    refine ⟨h1.trans (LRU.remove_toks s a), h2.trans (LRU.remove_keys s a), ?_⟩
    intro k hk
    apply h3
    rcases hk with hk | hk
    · rcases List.mem_cons.mp hk with e | e
      · subst e; exact Or.inr (LRU.remove_noKey_self s k)
      · exact Or.inl e
    · exact Or.inr (LRU.remove_noKey_mono s a k hk)

theorem LInv.removeAll (ks : List Nat) : ∀ {s : LRU}, LInv s → LInv (s.removeAll ks) := by
  induction ks with
  | nil => intro s h; exact h
  | cons a ks ih => intro s h; exact ih (h.remove a)

theorem LRU.foldl_drain (s : LRU) :
    s.drainOps.foldl (fun s o => (s.step o).1) s
      = LRU.removeAll { s with core := s.core.releaseAll (List.range s.core.toks.length) }
          (s.core.rcs.map (·.key)) := by
  unfold LRU.drainOps
  rw [List.foldl_append, LRU.foldl_done]
  have : s.core.rcs.map (fun r => LOp.remove r.key) = (s.core.rcs.map (·.key)).map LOp.remove := by
    simp [List.map_map]
  rw [this, LRU.foldl_remove]

theorem LInv.drained {s : LRU} (inv : LInv s) :
    let d := s.drainOps.foldl (fun s o => (s.step o).1) s
    d.core.rcs.length = s.core.rcs.length ∧ ∀ (id : Nat) (r : RC), d.core.rcs[id]? = some r → r.calls = 1 := by
  intro d
  have hd : d = _ := LRU.foldl_drain s
  obtain ⟨c1, v1, _, _⟩ := releaseAll_inv (List.range s.core.toks.length) inv.inv0.core
  have inv1 : LInv { s with core := s.core.releaseAll (List.range s.core.toks.length) } :=
    ⟨inv.inv0.reorder c1 v1 inv.inv0.nodup (fun _ => Iff.rfl), inv.capOk⟩
  have inv2 := inv1.removeAll (s.core.rcs.map (·.key))
  obtain ⟨t2, k2, m2⟩ := LRU.removeAll_spec (s.core.rcs.map (·.key))
    { s with core := s.core.releaseAll (List.range s.core.toks.length) }
  rw [← hd] at inv2 t2 k2 m2
  simp only at t2 k2 m2
  have hkeys : d.core.rcs.map (·.key) = s.core.rcs.map (·.key) := k2.trans v1.keys
  refine ⟨by simpa using congrArg List.length hkeys, ?_⟩
  apply drained_calls inv2.inv0.core
  · rw [t2]; exact releaseAll_range inv.inv0.core
  · intro id r hr
    cases hf : r.finDone with
    | true => rfl
    | false =>
      exfalso
      have hl := inv2.inv0.live id r hr hf
      have hmem : r.key ∈ s.core.rcs.map (·.key) := by
        rw [← hkeys]
        exact List.mem_map.mpr ⟨r, List.mem_of_getElem? hr, rfl⟩
      exact m2 r.key (Or.inl hmem) id hl

/-! ### repeated evicting release -/

theorem TTL.done_true_core {s : TTL} {tok : Nat} {t : Tok} (ht : s.core.toks[tok]? = some t) :
    (s.done tok true).1.core = (s.core.release tok).fin t.rc := by
  unfold TTL.done
  simp only [ht, if_true]
  split
  · rfl
  · split <;> rfl

theorem TTL.done_true_m {s : TTL} {tok : Nat} {t : Tok} (ht : s.core.toks[tok]? = some t) {r : RC}
    (hr : ((s.core.release tok).fin t.rc).rcs[t.rc]? = some r) :
    (s.done tok true).1.m r.key ≠ some t.rc := by
  unfold TTL.done
  simp only [ht, if_true, hr]
  split
  · simp
  · assumption

/-- An evicting release whose decrement, finalize and map removal have all happened already is a
no-op. -/
theorem TTL.done_true_fix {s' : TTL} {tok : Nat} {t' : Tok} (ht : s'.core.toks[tok]? = some t')
    (ho : t'.once = true) (hfin : s'.core.fin t'.rc = s'.core)
    (hm : ∀ r, s'.core.rcs[t'.rc]? = some r → s'.m r.key ≠ some t'.rc) :
    (s'.done tok true).1 = s' := by
  unfold TTL.done
  simp only [ht, release_of_released ht ho, if_true, hfin]
  split
  · rfl
  · rename_i r hr
    simp [hm r hr]

/-! ### the capacity is a constant of the cache -/

theorem LRU.step_cap (s : LRU) (op : LOp) : (s.step op).1.cap = s.cap := by
  cases op with
  | add k v => simp only [LRU.step, LRU.add]; split <;> rfl
  | get k => simp only [LRU.step, LRU.get]; split <;> rfl
  | remove k => simp only [LRU.step, LRU.remove]; split <;> rfl
  | done tok => simp only [LRU.step, LRU.done]; split <;> rfl

theorem LRU.foldl_cap (ops : List LOp) : ∀ s : LRU,
    (ops.foldl (fun s o => (s.step o).1) s).cap = s.cap := by
  induction ops with
  | nil => intro s; rfl
  | cons o ops ih => intro s; rw [List.foldl_cons, ih, LRU.step_cap]

theorem LRU.run_cap (cap : Nat) (ops : List LOp) : (LRU.run cap ops).cap = cap :=
  LRU.foldl_cap ops { cap := cap }

/-- Equation lemmas of the model functions are generated lazily in whichever module first rewrites
with them.  Generate them here, so that `SV/Props/C10.lean` contains the property theorems only
(the audit counts every theorem of that module as a proof obligation). -/
theorem eqns_pregenerated : True := by
  have := @TTL.add.eq_1
  have := @TTL.get.eq_1
  have := @TTL.done.eq_1
  have := @TTL.evictLocked.eq_1
  have := @TTL.step.eq_1
  have := @TTL.step.eq_2
  have := @TTL.step.eq_3
  have := @TTL.step.eq_4
  have := @TTL.step.eq_5
  have := @TTL.run.eq_1
  have := @TTL.drainOps.eq_1
  have := @TTL.member.eq_1
  have := @LRU.add.eq_1
  have := @LRU.get.eq_1
  have := @LRU.done.eq_1
  have := @LRU.remove.eq_1
  have := @LRU.step.eq_1
  have := @LRU.step.eq_2
  have := @LRU.step.eq_3
  have := @LRU.step.eq_4
  have := @LRU.run.eq_1
  have := @LRU.drainOps.eq_1
  have := @LRU.member.eq_1
  have := @Core.valOf.eq_1
  have := @Core.release.eq_1
  have := @Core.newTok.eq_1
  have := @Core.newRc.eq_1
  have := @Core.fin.eq_1
  have := @held.eq_1
  have := @RC.dec.eq_1
  have := @RC.inc.eq_1
  have := @RC.finalize.eq_1
  have := @RC.initialize.eq_1
  trivial

end SV.Refcount
