/-
Helper lemmas for C02 / C15 (model: SV/Model/LazyRead.lean).  Core-only.
-/
import SV.Model.LazyRead

namespace SV.LazyRead

/-! ### slices -/

@[simp] theorem slice_length (b : Bytes) (lo len : Nat) :
    (slice b lo len).length = min len (b.length - lo) := by
  simp [slice]

theorem slice_append (b : Bytes) (lo a c : Nat) :
    slice b lo a ++ slice b (lo + a) c = slice b lo (a + c) := by
  unfold slice
  rw [List.take_add, List.drop_drop]

theorem slice_slice (b : Bytes) (lo len lo' len' : Nat) (h : lo' + len' ≤ len) :
    slice (slice b lo len) lo' len' = slice b (lo + lo') len' := by
  unfold slice
  rw [List.drop_take, List.take_take, List.drop_drop]
  congr 1
  omega

/-- A cache entry that lost its tail still serves every range it covers completely. -/
theorem slice_take_full (b : Bytes) (k lo len : Nat)
    (h : (slice (b.take k) lo len).length = len) : slice (b.take k) lo len = slice b lo len := by
  unfold slice at *
  rw [List.drop_take, List.take_take] at *
  simp only [List.length_take, List.length_drop] at h
  congr 1
  omega

theorem slice_all_of_short (b : Bytes) (lo a n : Nat) (h1 : b.length ≤ lo + a) (h2 : a ≤ n) :
    slice b lo a = slice b lo n := by
  unfold slice
  rw [List.take_of_length_le (by simp; omega), List.take_of_length_le (by simp; omega)]

/-! ### `sort.Search` -/

theorem searchLoop_spec (p : Nat → Bool) (n : Nat)
    (mono : ∀ a b, a ≤ b → b < n → p a = true → p b = true) :
    ∀ fuel i j, i ≤ j → j ≤ n → j - i ≤ fuel →
      (∀ k, k < i → p k = false) → (∀ k, j ≤ k → k < n → p k = true) →
      i ≤ searchLoop p fuel i j ∧ searchLoop p fuel i j ≤ j ∧
      (∀ k, k < searchLoop p fuel i j → p k = false) ∧
      (∀ k, searchLoop p fuel i j ≤ k → k < n → p k = true) := by
  intro fuel
  induction fuel with
  | zero =>
    intro i j hij _ hf hlo hhi
    have : i = j := by omega
    subst this
    simp [searchLoop]
    exact ⟨hlo, hhi⟩
  | succ fuel ih =>
    intro i j hij hjn hf hlo hhi
    unfold searchLoop
    by_cases hlt : i < j
    · simp only [hlt, if_true]
      have hh1 : i ≤ (i + j) / 2 := by omega
      have hh2 : (i + j) / 2 < j := by omega
      cases hp : p ((i + j) / 2) with
      | false =>
        simp only [Bool.not_false, if_true]
        have hlo' : ∀ k, k < (i + j) / 2 + 1 → p k = false := by
          intro k hk
          cases hpk : p k with
          | false => rfl
          | true =>
            have := mono k ((i + j) / 2) (by omega) (by omega) hpk
            rw [hp] at this; exact absurd this (by simp)
        have := ih ((i + j) / 2 + 1) j (by omega) hjn (by omega) hlo' hhi
        exact ⟨by omega, this.2.1, this.2.2.1, this.2.2.2⟩
      | true =>
        simp only [Bool.not_true, Bool.false_eq_true, if_false]
        have hhi' : ∀ k, (i + j) / 2 ≤ k → k < n → p k = true := by
          intro k hk hkn
          exact mono ((i + j) / 2) k hk hkn hp
        have := ih i ((i + j) / 2) hh1 (by omega) (by omega) hlo hhi'
        exact ⟨this.1, by omega, this.2.2.1, this.2.2.2⟩
    · simp only [hlt, if_false]
      have : i = j := by omega
      subst this
      exact ⟨Nat.le_refl _, Nat.le_refl _, hlo, hhi⟩

/-- `sort.Search` on a monotone predicate returns the first index satisfying it (or `n`). -/
theorem searchFirst_spec (p : Nat → Bool) (n : Nat)
    (mono : ∀ a b, a ≤ b → b < n → p a = true → p b = true) :
    searchFirst n p ≤ n ∧ (∀ k, k < searchFirst n p → p k = false) ∧
      (searchFirst n p < n → p (searchFirst n p) = true) := by
  have := searchLoop_spec p n mono n 0 n (Nat.zero_le _) (Nat.le_refl _) (by omega)
    (by intro k hk; omega) (by intro k h1 h2; omega)
  unfold searchFirst
  exact ⟨this.2.1, this.2.2.1, fun h => this.2.2.2 _ (Nat.le_refl _) h⟩

/-- `sort.Search` never leaves `[0, n]`, whatever the predicate (no out-of-range index even for a
non-conforming chunk table). -/
theorem searchLoop_range (p : Nat → Bool) : ∀ fuel i j, i ≤ j → i ≤ searchLoop p fuel i j ∧ searchLoop p fuel i j ≤ j := by
  intro fuel
  induction fuel with
  | zero => intro i j h; simp [searchLoop]; exact h
  | succ fuel ih =>
    intro i j h
    unfold searchLoop
    by_cases hlt : i < j
    · simp only [hlt, if_true]
      cases p ((i + j) / 2) with
      | false =>
        simp only [Bool.not_false, if_true]
        have := ih ((i + j) / 2 + 1) j (by omega)
        exact ⟨by omega, this.2⟩
      | true =>
        simp only [Bool.not_true, Bool.false_eq_true, if_false]
        have := ih i ((i + j) / 2) (by omega)
        exact ⟨this.1, by omega⟩
    · simp only [hlt, if_false]; exact ⟨Nat.le_refl _, h⟩

/-! ### contiguous chunk tables -/

theorem contigB_iff (s : Nat) (t : List Chunk) : contigB s t = true ↔ Contig s t := by
  induction t generalizing s with
  | nil => simp [contigB, Contig]
  | cons c cs ih =>
    simp only [contigB, Contig, Bool.and_eq_true, beq_iff_eq, decide_eq_true_eq, ih]
    constructor
    · rintro ⟨⟨h1, h2⟩, h3⟩; exact ⟨h1, h2, h3⟩
    · rintro ⟨h1, h2, h3⟩; exact ⟨⟨h1, h2⟩, h3⟩

instance (s : Nat) (t : List Chunk) : Decidable (Contig s t) :=
  decidable_of_iff _ (contigB_iff s t)

theorem contig_ge {s : Nat} {t : List Chunk} (h : Contig s t) :
    ∀ (i : Nat) (e : Chunk), t[i]? = some e → s ≤ e.off ∧ 0 < e.size ∧ e.off + e.size ≤ s + total t := by
  induction t generalizing s with
  | nil => intro i e he; simp at he
  | cons c cs ih =>
    intro i e he
    obtain ⟨h1, h2, h3⟩ := h
    cases i with
    | zero =>
      simp at he; subst he
      simp only [total]; omega
    | succ i =>
      simp at he
      have := ih h3 i e he
      simp only [total]; omega

theorem contig_head {s : Nat} {t : List Chunk} (h : Contig s t) (e : Chunk) (he : t[0]? = some e) :
    e.off = s := by
  cases t with
  | nil => simp at he
  | cons c cs => simp at he; subst he; exact h.1

theorem contig_next {s : Nat} {t : List Chunk} (h : Contig s t) :
    ∀ (i : Nat) (e e' : Chunk), t[i]? = some e → t[i + 1]? = some e' → e'.off = e.off + e.size := by
  induction t generalizing s with
  | nil => intro i e e' he; simp at he
  | cons c cs ih =>
    intro i e e' he he'
    obtain ⟨h1, _, h3⟩ := h
    cases i with
    | zero =>
      simp at he he'; subst he
      have := contig_head h3 e' he'
      omega
    | succ i =>
      simp at he he'
      exact ih h3 i e e' he he'

theorem contig_last {s : Nat} {t : List Chunk} (h : Contig s t) :
    ∀ (i : Nat) (e : Chunk), t[i]? = some e → t[i + 1]? = none → e.off + e.size = s + total t := by
  induction t generalizing s with
  | nil => intro i e he; simp at he
  | cons c cs ih =>
    intro i e he hn
    obtain ⟨h1, _, h3⟩ := h
    cases i with
    | zero =>
      simp at he hn; subst he
      cases cs with
      | nil => simp [total]; omega
      | cons d ds => simp at hn
    | succ i =>
      rw [List.getElem?_cons_succ] at he hn
      have := ih h3 i e he hn
      simp only [total]; omega

theorem contig_mono {s : Nat} {t : List Chunk} (h : Contig s t) :
    ∀ (a b : Nat) (ea eb : Chunk), t[a]? = some ea → t[b]? = some eb → a < b → ea.off + ea.size ≤ eb.off := by
  induction t generalizing s with
  | nil => intro a b ea eb he; simp at he
  | cons c cs ih =>
    intro a b ea eb hea heb hab
    obtain ⟨h1, _, h3⟩ := h
    cases b with
    | zero => omega
    | succ b =>
      simp at heb
      cases a with
      | zero =>
        simp at hea; subst hea
        have := (contig_ge h3 b eb heb).1
        omega
      | succ a =>
        simp at hea
        exact ih h3 a b ea eb hea heb (by omega)

/-- In a contiguous table the search predicate is "the offset lies before the end of chunk `i`". -/
theorem chunkPred_iff {s : Nat} {t : List Chunk} (h : Contig s t) (x i : Nat) (e : Chunk)
    (he : t[i]? = some e) : chunkPred t x i = true ↔ x < e.off + e.size := by
  have := (contig_ge h i e he).2.1
  simp only [chunkPred, he, Bool.or_eq_true, Bool.and_eq_true, decide_eq_true_eq]
  omega

theorem chunkPred_mono {s : Nat} {t : List Chunk} (h : Contig s t) (x : Nat) :
    ∀ a b, a ≤ b → b < t.length → chunkPred t x a = true → chunkPred t x b = true := by
  intro a b hab hb hpa
  by_cases heq : a = b
  · subst heq; exact hpa
  · have ha : a < t.length := by omega
    have hea : t[a]? = some t[a] := List.getElem?_eq_getElem ha
    have heb : t[b]? = some t[b] := List.getElem?_eq_getElem hb
    rw [chunkPred_iff h x a _ hea] at hpa
    rw [chunkPred_iff h x b _ heb]
    have := contig_mono h a b _ _ hea heb (by omega)
    have := (contig_ge h b _ heb).2.1
    omega

/-- What the binary search of `ChunkEntryForOffset` returns on a contiguous table. -/
theorem search_lookup {t : List Chunk} (h : Contig 0 t) (x : Nat) :
    (x < total t → ∃ c, t[searchFirst t.length (chunkPred t x)]? = some c ∧ c.off ≤ x ∧ x < c.off + c.size) ∧
    (total t ≤ x → t[searchFirst t.length (chunkPred t x)]? = none) := by
  obtain ⟨hle, hlo, hhi⟩ := searchFirst_spec (chunkPred t x) t.length (chunkPred_mono h x)
  generalize hr : searchFirst t.length (chunkPred t x) = r at *
  constructor
  · intro hx
    have hrn : r < t.length := by
      by_cases hn : t.length = 0
      · have : t = [] := List.eq_nil_of_length_eq_zero hn
        subst this; simp [total] at hx
      · by_cases hlt : r < t.length
        · exact hlt
        · exfalso
          have hk : t.length - 1 < t.length := by omega
          have hek : t[t.length - 1]? = some t[t.length - 1] := List.getElem?_eq_getElem hk
          have hnone : t[t.length - 1 + 1]? = none := List.getElem?_eq_none (by omega)
          have hend := contig_last h _ _ hek hnone
          have hf := hlo (t.length - 1) (by omega)
          have : ¬ x < t[t.length - 1].off + t[t.length - 1].size := fun hc => by
            have := (chunkPred_iff h x _ _ hek).mpr hc; rw [hf] at this; cases this
          omega
    have her : t[r]? = some t[r] := List.getElem?_eq_getElem hrn
    refine ⟨t[r], her, ?_, ?_⟩
    · cases r with
      | zero => have := contig_head h _ her; omega
      | succ r =>
        have hr' : r < t.length := by omega
        have her' : t[r]? = some t[r] := List.getElem?_eq_getElem hr'
        have hf := hlo r (by omega)
        have h1 : ¬ x < t[r].off + t[r].size := fun hc => by
          have := (chunkPred_iff h x _ _ her').mpr hc; rw [hf] at this; cases this
        have h2 := contig_next h r _ _ her' her
        omega
    · exact (chunkPred_iff h x _ _ her).mp (hhi hrn)
  · intro hx
    by_cases hlt : r < t.length
    · exfalso
      have her : t[r]? = some t[r] := List.getElem?_eq_getElem hlt
      have h1 := (chunkPred_iff h x _ _ her).mp (hhi hlt)
      have h2 := (contig_ge h r _ her).2.2
      omega
    · exact List.getElem?_eq_none (by omega)

/-- `ChunkEntryForOffset` (both stores) on a contiguous table: the chunk containing the offset,
`none` at and after EOF. -/
theorem lookup_spec (v : Variant) {t : List Chunk} (h : Contig 0 t) (x : Nat) :
    (x < total t → ∃ c, chunkEntryForOffset v t x = some c ∧ c ∈ t ∧ c.off ≤ x ∧ x < c.off + c.size) ∧
    (total t ≤ x → chunkEntryForOffset v t x = none) := by
  have hs := search_lookup h x
  have key : (x < total t → ∃ c, t[searchFirst t.length (chunkPred t x)]? = some c ∧ c ∈ t ∧ c.off ≤ x ∧ x < c.off + c.size) := by
    intro hx
    obtain ⟨c, hc, h1, h2⟩ := hs.1 hx
    exact ⟨c, hc, List.mem_of_getElem? hc, h1, h2⟩
  cases v with
  | db => exact ⟨key, hs.2⟩
  | mem =>
    unfold chunkEntryForOffset
    by_cases hl : t.length < 2
    · simp only [hl, if_true]
      match t, h, hl with
      | [], _, _ => simp [total]
      | [e], h, _ =>
        obtain ⟨h1, h2, _⟩ := h
        simp only [total, Nat.add_zero]
        constructor
        · intro hx
          refine ⟨e, ?_, by simp, by omega, by omega⟩
          simp; omega
        · intro hx; simp; omega
      | _ :: _ :: _, _, hl => simp at hl; omega
    · simp only [hl, if_false]
      exact ⟨key, hs.2⟩

/-- Two chunks of a contiguous table that contain the same offset are the same chunk. -/
theorem contig_unique {s : Nat} {t : List Chunk} (h : Contig s t) (x : Nat) (c c' : Chunk)
    (hc : c ∈ t) (hc' : c' ∈ t) (h1 : c.off ≤ x) (h2 : x < c.off + c.size)
    (h1' : c'.off ≤ x) (h2' : x < c'.off + c'.size) : c' = c := by
  obtain ⟨i, hi⟩ := List.getElem?_of_mem hc
  obtain ⟨j, hj⟩ := List.getElem?_of_mem hc'
  rcases Nat.lt_trichotomy i j with hlt | heq | hgt
  · have := contig_mono h i j _ _ hi hj hlt; omega
  · subst heq; rw [hi] at hj; exact (Option.some.inj hj).symm
  · have := contig_mono h j i _ _ hj hi hgt; omega

/-- The end of a chunk is never strictly inside another chunk. -/
theorem contig_end_not_inside {s : Nat} {t : List Chunk} (h : Contig s t) (c c' : Chunk)
    (hc : c ∈ t) (hc' : c' ∈ t) : ¬ (c'.off < c.off + c.size ∧ c.off + c.size < c'.off + c'.size) := by
  obtain ⟨i, hi⟩ := List.getElem?_of_mem hc
  obtain ⟨j, hj⟩ := List.getElem?_of_mem hc'
  have hsz := (contig_ge h i c hi).2.1
  rcases Nat.lt_trichotomy i j with hlt | heq | hgt
  · have := contig_mono h i j _ _ hi hj hlt; omega
  · subst heq; rw [hi] at hj; cases hj; omega
  · have := contig_mono h j i _ _ hj hi hgt; omega

theorem contig_mem_bounds {s : Nat} {t : List Chunk} (h : Contig s t) (c : Chunk) (hc : c ∈ t) :
    s ≤ c.off ∧ 0 < c.size ∧ c.off + c.size ≤ s + total t := by
  obtain ⟨i, hi⟩ := List.getElem?_of_mem hc
  exact contig_ge h i c hi


/-! ### the cache invariant and the read loop -/

/-- The bytes the tar payload has for a chunk. -/
def trueChunk (content : Nat → Bytes) (id : ChunkId) : Bytes := slice (content id.file) id.off id.size

/-- `CacheOK`: every cached entry is a prefix of the genuine chunk (an entry may have lost its tail,
it never holds foreign bytes). -/
def CacheOK (content : Nat → Bytes) (c : Cache) : Prop :=
  ∀ id d, c id = some d → ∃ k, d = (trueChunk content id).take k

/-- every cached entry is the complete genuine chunk -/
def CacheExact (content : Nat → Bytes) (c : Cache) : Prop :=
  ∀ id d, c id = some d → d = trueChunk content id

/-- What is accepted from below is genuine: with verification on this is collision resistance of the
digest plus "the TOC records the digests of the tar payload" (C01/C03); with verification off it
says the blob bytes are the built ones. -/
def Honest (content : Nat → Bytes) (E : Env) (u : Under) : Prop :=
  ∀ id b, u id = some b → b.length = id.size → E.verify id b = true → b = trueChunk content id

/-- The chunk table of a file tiles its payload (`FromTar`, established per blob by C03). -/
structure WF (content : Nat → Bytes) (f : FileInfo) : Prop where
  contig : Contig 0 f.table
  cover : total f.table = (content f.id).length
  size : f.size = (content f.id).length

theorem CacheExact.ok {content : Nat → Bytes} {c : Cache} (h : CacheExact content c) : CacheOK content c := by
  intro id d hd
  exact ⟨(trueChunk content id).length, by rw [h id d hd, List.take_length]⟩

theorem cacheOK_empty (content : Nat → Bytes) : CacheOK content Cache.empty := by
  intro id d h; simp [Cache.empty] at h

theorem cacheExact_empty (content : Nat → Bytes) : CacheExact content Cache.empty := by
  intro id d h; simp [Cache.empty] at h

theorem cacheOK_put {content : Nat → Bytes} {c : Cache} (h : CacheOK content c) (id : ChunkId) :
    CacheOK content (c.put id (trueChunk content id)) := by
  intro k d hd
  unfold Cache.put at hd
  by_cases hk : k = id
  · simp only [hk, if_true] at hd
    cases hd
    subst hk
    exact ⟨(trueChunk content k).length, by rw [List.take_length]⟩
  · simp only [hk, if_false] at hd; exact h k d hd

theorem cacheExact_put {content : Nat → Bytes} {c : Cache} (h : CacheExact content c) (id : ChunkId) :
    CacheExact content (c.put id (trueChunk content id)) := by
  intro k d hd
  unfold Cache.put at hd
  by_cases hk : k = id
  · simp only [hk, if_true] at hd; cases hd; subst hk; rfl
  · simp only [hk, if_false] at hd; exact h k d hd

theorem cacheOK_evict {content : Nat → Bytes} {c : Cache} (h : CacheOK content c) (id : ChunkId) :
    CacheOK content (c.evict id) := by
  intro k d hd
  unfold Cache.evict at hd
  by_cases hk : k = id
  · simp [hk] at hd
  · simp only [hk, if_false] at hd; exact h k d hd

theorem cacheExact_evict {content : Nat → Bytes} {c : Cache} (h : CacheExact content c) (id : ChunkId) :
    CacheExact content (c.evict id) := by
  intro k d hd
  unfold Cache.evict at hd
  by_cases hk : k = id
  · simp [hk] at hd
  · simp only [hk, if_false] at hd; exact h k d hd

theorem cacheOK_truncate {content : Nat → Bytes} {c : Cache} (h : CacheOK content c) (id : ChunkId) (n : Nat) :
    CacheOK content (c.truncate id n) := by
  intro k d hd
  unfold Cache.truncate at hd
  by_cases hk : k = id
  · simp only [hk, if_true] at hd
    cases hc : c id with
    | none => simp [hc] at hd
    | some d0 =>
      simp [hc] at hd
      obtain ⟨m, hm⟩ := h id d0 hc
      subst hk
      exact ⟨min n m, by rw [← hd, hm, List.take_take]⟩
  · simp only [hk, if_false] at hd; exact h k d hd

theorem preStore_ok {content : Nat → Bytes} {E : Env} {u : Under} (hu : Honest content E u) :
    ∀ (l : List ChunkId) (c : Cache), CacheOK content c → CacheOK content (preStore E u c l).1 := by
  intro l
  induction l with
  | nil => intro c h; exact h
  | cons e es ih =>
    intro c h
    unfold preStore
    cases hc : c e with
    | some d => simp only []; exact ih c h
    | none =>
      simp only []
      cases hue : u e with
      | none => exact h
      | some b =>
        simp only []
        by_cases hv : b.length = e.size ∧ E.verify e b = true
        · simp only [hv, and_self, if_true]
          have := hu e b hue hv.1 hv.2
          subst this
          exact ih _ (cacheOK_put h e)
        · simp only [hv, if_false]; exact h

theorem preStore_exact {content : Nat → Bytes} {E : Env} {u : Under} (hu : Honest content E u) :
    ∀ (l : List ChunkId) (c : Cache), CacheExact content c → CacheExact content (preStore E u c l).1 := by
  intro l
  induction l with
  | nil => intro c h; exact h
  | cons e es ih =>
    intro c h
    unfold preStore
    cases hc : c e with
    | some d => simp only []; exact ih c h
    | none =>
      simp only []
      cases hue : u e with
      | none => exact h
      | some b =>
        simp only []
        by_cases hv : b.length = e.size ∧ E.verify e b = true
        · simp only [hv, and_self, if_true]
          have := hu e b hue hv.1 hv.2
          subst this
          exact ih _ (cacheExact_put h e)
        · simp only [hv, if_false]; exact h

/-- entries never disappear in `preStore` -/
theorem preStore_keeps {E : Env} {u : Under} :
    ∀ (l : List ChunkId) (c : Cache) (k : ChunkId), c k ≠ none → (preStore E u c l).1 k ≠ none := by
  intro l
  induction l with
  | nil => intro c k h; exact h
  | cons e es ih =>
    intro c k h
    unfold preStore
    cases hc : c e with
    | some d => simp only []; exact ih c k h
    | none =>
      simp only []
      cases hue : u e with
      | none => exact h
      | some b =>
        simp only []
        by_cases hv : b.length = e.size ∧ E.verify e b = true
        · simp only [hv, and_self, if_true]
          apply ih
          unfold Cache.put
          by_cases hk : k = e
          · simp [hk]
          · simp only [hk, if_false]; exact h
        · simp only [hv, if_false]; exact h

/-- `fetchChunk`: the cache invariant survives (also on failure), and a delivered chunk is the genuine,
complete one. -/
theorem fetchChunk_ok {content : Nat → Bytes} {E : Env} {u : Under} (hu : Honest content E u)
    (c : Cache) (id : ChunkId) (h : CacheOK content c) :
    CacheOK content (fetchChunk E u c id).1 ∧
      ∀ b, (fetchChunk E u c id).2 = some b → b = trueChunk content id ∧ b.length = id.size := by
  unfold fetchChunk
  cases hco : E.co id with
  | none => exact ⟨h, by intro b hb; simp at hb⟩
  | some others =>
    simp only []
    have hp := preStore_ok hu others c h
    rcases hps : preStore E u c others with ⟨c1, ok⟩
    rw [hps] at hp
    cases ok with
    | false => exact ⟨hp, by intro b hb; simp at hb⟩
    | true =>
      simp only []
      cases hui : u id with
      | none => exact ⟨hp, by intro b hb; simp at hb⟩
      | some b =>
        simp only []
        by_cases hv : b.length = id.size ∧ E.verify id b = true
        · simp only [hv, and_self, if_true]
          have hb := hu id b hui hv.1 hv.2
          subst hb
          exact ⟨cacheOK_put hp id, by intro b' hb'; cases hb'; exact ⟨rfl, hv.1⟩⟩
        · simp only [hv, if_false]; exact ⟨hp, by intro b' hb'; simp at hb'⟩

theorem fetchChunk_exact {content : Nat → Bytes} {E : Env} {u : Under} (hu : Honest content E u)
    (c : Cache) (id : ChunkId) (h : CacheExact content c) :
    CacheExact content (fetchChunk E u c id).1 := by
  unfold fetchChunk
  cases hco : E.co id with
  | none => exact h
  | some others =>
    simp only []
    have hp := preStore_exact hu others c h
    rcases hps : preStore E u c others with ⟨c1, ok⟩
    rw [hps] at hp
    cases ok with
    | false => exact hp
    | true =>
      simp only []
      cases hui : u id with
      | none => exact hp
      | some b =>
        simp only []
        by_cases hv : b.length = id.size ∧ E.verify id b = true
        · simp only [hv, and_self, if_true]
          have hb := hu id b hui hv.1 hv.2
          subst hb
          exact cacheExact_put hp id
        · simp only [hv, if_false]; exact hp

theorem fetchChunk_keeps {E : Env} {u : Under} (c : Cache) (id k : ChunkId) (h : c k ≠ none) :
    (fetchChunk E u c id).1 k ≠ none := by
  unfold fetchChunk
  cases hco : E.co id with
  | none => exact h
  | some others =>
    simp only []
    have hp := preStore_keeps (E := E) (u := u) others c k h
    rcases hps : preStore E u c others with ⟨c1, ok⟩
    rw [hps] at hp
    cases ok with
    | false => exact hp
    | true =>
      simp only []
      cases hui : u id with
      | none => exact hp
      | some b =>
        simp only []
        by_cases hv : b.length = id.size ∧ E.verify id b = true
        · simp only [hv, and_self, if_true]
          unfold Cache.put
          by_cases hk : k = id
          · simp [hk]
          · simp only [hk, if_false]; exact hp
        · simp only [hv, if_false]; exact hp

/-- a successful `fetchChunk` leaves the chunk in the cache -/
theorem fetchChunk_stores {E : Env} {u : Under} (c : Cache) (id : ChunkId) (b : Bytes)
    (h : (fetchChunk E u c id).2 = some b) : (fetchChunk E u c id).1 id ≠ none := by
  unfold fetchChunk at *
  cases hco : E.co id with
  | none => simp [hco] at h
  | some others =>
    simp only [hco] at h ⊢
    rcases hps : preStore E u c others with ⟨c1, ok⟩
    rw [hps] at h ⊢
    cases ok with
    | false => simp at h
    | true =>
      simp only [] at h ⊢
      cases hui : u id with
      | none => simp [hui] at h
      | some b0 =>
        simp only [hui] at h ⊢
        by_cases hv : b0.length = id.size ∧ E.verify id b0 = true
        · simp only [hv, and_self, if_true] at h ⊢
          simp [Cache.put]
        · simp [hv] at h

/-- Position `y` is not strictly inside any chunk. -/
def NotInside (t : List Chunk) (y : Nat) : Prop := ∀ c ∈ t, ¬ (c.off < y ∧ y < c.off + c.size)

theorem trueChunk_length {content : Nat → Bytes} {f : FileInfo} (hf : WF content f) (ch : Chunk)
    (hc : ch ∈ f.table) : (trueChunk content ⟨f.id, ch.off, ch.size⟩).length = ch.size := by
  have := contig_mem_bounds hf.contig ch hc
  have := hf.cover
  simp [trueChunk]; omega

/-- One round of the loop appends the right bytes: used by both loop theorems. -/
theorem round_facts {content : Nat → Bytes} {f : FileInfo} (hf : WF content f) (off n nr : Nat)
    (hnr : nr < n) (hinv : nr = 0 ∨ NotInside f.table (off + nr)) (ch : Chunk) (hc : ch ∈ f.table)
    (h1 : ch.off ≤ off + nr) (h2 : off + nr < ch.off + ch.size) :
    let lower := off - ch.off
    let upper := ch.off + ch.size - (off + n)
    let expected := ch.size - upper - lower
    ch.off + lower = off + nr ∧ lower + expected ≤ ch.size ∧
    (expected ≤ n - nr → (nr + expected = n ∨ NotInside f.table (off + (nr + expected)))) ∧
    (0 < expected) ∧ ((upper = 0 → expected ≤ n - nr) ∧ (0 < upper → expected = n - nr)) := by
  intro lower upper expected
  have hb := contig_mem_bounds hf.contig ch hc
  have hstart : ch.off + lower = off + nr := by
    rcases hinv with h0 | hni
    · subst h0; simp only [lower]; omega
    · have := hni ch hc
      simp only [lower]; omega
  refine ⟨hstart, by simp only [expected, lower, upper]; omega, ?_, by simp only [expected, lower, upper] at *; omega,
    by simp only [expected, lower, upper] at *; omega, by simp only [expected, lower, upper] at *; omega⟩
  intro hle
  by_cases hup : upper = 0
  · right
    have : off + (nr + expected) = ch.off + ch.size := by simp only [expected, lower, upper] at *; omega
    rw [this]
    intro c' hc'
    exact contig_end_not_inside hf.contig ch c' hc hc'
  · left; simp only [expected, lower, upper] at *; omega

/-- Exactness of the loop: whatever the cache holds (within `CacheOK`) and whatever comes from below
(within `Honest`), an `.ok` result is the slice of the tar payload, and `CacheOK` is kept. -/
theorem readLoop_exact {content : Nat → Bytes} {E : Env} {u : Under} {f : FileInfo}
    (hf : WF content f) (hu : Honest content E u) (off n : Nat) :
    ∀ (fuel : Nat) (c : Cache) (acc : Bytes), CacheOK content c →
      acc = slice (content f.id) off acc.length → acc.length ≤ n →
      (acc.length = 0 ∨ acc.length = n ∨ NotInside f.table (off + acc.length)) →
      CacheOK content (readLoop E u f off n fuel c acc).1 ∧
        ∀ b, (readLoop E u f off n fuel c acc).2 = .ok b → b = slice (content f.id) off n := by
  intro fuel
  induction fuel with
  | zero => intro c acc hc _ _ _; exact ⟨hc, by intro b hb; simp [readLoop] at hb⟩
  | succ fuel ih =>
    intro c acc hc hacc hle hinv
    unfold readLoop
    simp only []
    by_cases hlt : acc.length < n
    · simp only [hlt, if_true]
      have hl := lookup_spec f.variant hf.contig (off + acc.length)
      cases hlk : chunkEntryForOffset f.variant f.table (off + acc.length) with
      | none =>
        simp only []
        refine ⟨hc, ?_⟩
        intro b hb; cases hb
        have : total f.table ≤ off + acc.length := by
          by_cases hx : off + acc.length < total f.table
          · obtain ⟨c0, hc0, _⟩ := hl.1 hx; rw [hlk] at hc0; cases hc0
          · omega
        rw [hacc]
        simp only [slice_length]
        have hcov := hf.cover
        rw [show min acc.length ((content f.id).length - off) = min acc.length ((content f.id).length - off) from rfl]
        have hlen : acc.length = min acc.length ((content f.id).length - off) := by
          have := congrArg List.length hacc; simpa using this
        rw [← hlen]
        exact slice_all_of_short _ _ _ _ (by omega) hle
      | some ch =>
        simp only []
        have hx : off + acc.length < total f.table := by
          by_cases hx : off + acc.length < total f.table
          · exact hx
          · have := hl.2 (by omega); rw [hlk] at this; cases this
        obtain ⟨c0, hc0, hmem, hb1, hb2⟩ := hl.1 hx
        rw [hlk] at hc0; cases hc0
        have hinv' : acc.length = 0 ∨ NotInside f.table (off + acc.length) := by
          rcases hinv with h | h | h
          · exact Or.inl h
          · omega
          · exact Or.inr h
        have hr := round_facts hf off n acc.length hlt hinv' ch hmem hb1 hb2
        simp only [] at hr
        obtain ⟨hstart, hfit, hnext, hpos, _⟩ := hr
        by_cases hg : ch.size = 0 ∨ ch.size - (ch.off + ch.size - (off + n)) - (off - ch.off) = 0 ∨
            ch.size - (ch.off + ch.size - (off + n)) - (off - ch.off) > n - acc.length
        · simp only [hg, if_true]; exact ⟨hc, by intro b hb; cases hb⟩
        · simp only [hg, if_false]
          have hexp : ch.size - (ch.off + ch.size - (off + n)) - (off - ch.off) ≤ n - acc.length := by omega
          -- what is appended in every successful branch
          have happ : ∀ s : Bytes,
              s = slice (trueChunk content ⟨f.id, ch.off, ch.size⟩) (off - ch.off)
                    (ch.size - (ch.off + ch.size - (off + n)) - (off - ch.off)) →
              s.length = ch.size - (ch.off + ch.size - (off + n)) - (off - ch.off) →
              (acc ++ s = slice (content f.id) off (acc ++ s).length) ∧ (acc ++ s).length ≤ n ∧
              ((acc ++ s).length = 0 ∨ (acc ++ s).length = n ∨ NotInside f.table (off + (acc ++ s).length)) := by
            intro s hs hslen
            have h1 : s = slice (content f.id) (off + acc.length)
                (ch.size - (ch.off + ch.size - (off + n)) - (off - ch.off)) := by
              rw [hs]; unfold trueChunk; simp only []
              rw [slice_slice _ _ _ _ _ hfit, hstart]
            have hl2 : (acc ++ s).length = acc.length + (ch.size - (ch.off + ch.size - (off + n)) - (off - ch.off)) := by
              simp [hslen]
            refine ⟨?_, by omega, ?_⟩
            · rw [hl2, ← slice_append, ← hacc, ← h1]
            · rw [hl2]
              rcases hnext hexp with h | h
              · exact Or.inr (Or.inl h)
              · exact Or.inr (Or.inr h)
          -- the hit test
          cases hcid : c ⟨f.id, ch.off, ch.size⟩ with
          | some d =>
            simp only []
            by_cases hfull : (slice d (off - ch.off) (ch.size - (ch.off + ch.size - (off + n)) - (off - ch.off))).length =
                ch.size - (ch.off + ch.size - (off + n)) - (off - ch.off)
            · simp only [hfull, if_true]
              obtain ⟨k, hk⟩ := hc _ d hcid
              have hs := slice_take_full (trueChunk content ⟨f.id, ch.off, ch.size⟩) k _ _ (by rw [← hk]; exact hfull)
              rw [← hk] at hs
              obtain ⟨a1, a2, a3⟩ := happ _ hs hfull
              exact ih c _ hc a1 a2 a3
            · simp only [hfull, if_false]
              -- falls through to the miss path
              have hfc := fetchChunk_ok hu c ⟨f.id, ch.off, ch.size⟩ hc
              rcases hfe : fetchChunk E u c ⟨f.id, ch.off, ch.size⟩ with ⟨c1, r⟩
              rw [hfe] at hfc
              cases r with
              | none => exact ⟨hfc.1, by intro b hb; cases hb⟩
              | some b =>
                simp only []
                obtain ⟨hbt, hbl⟩ := hfc.2 b rfl
                simp only [] at hbl
                by_cases hz : off - ch.off = 0 ∧ ch.off + ch.size - (off + n) = 0
                · simp only [hz, and_self, if_true]
                  have hs : b = slice (trueChunk content ⟨f.id, ch.off, ch.size⟩) (off - ch.off)
                      (ch.size - (ch.off + ch.size - (off + n)) - (off - ch.off)) := by
                    rw [hz.1, hz.2, ← hbt]; unfold slice; simp [hbl]
                  obtain ⟨a1, a2, a3⟩ := happ b hs (by rw [hbl, hz.1, hz.2]; simp)
                  exact ih c1 _ hfc.1 a1 a2 a3
                · simp only [hz, if_false]
                  by_cases hsl : (slice b (off - ch.off) (ch.size - (ch.off + ch.size - (off + n)) - (off - ch.off))).length ≠
                      ch.size - (ch.off + ch.size - (off + n)) - (off - ch.off)
                  · simp only [hsl, if_true]; exact ⟨hfc.1, by intro b hb; cases hb⟩
                  · simp only [hsl, if_false]
                    obtain ⟨a1, a2, a3⟩ := happ _ (by rw [hbt]) (by simpa using hsl)
                    exact ih c1 _ hfc.1 a1 a2 a3
          | none =>
            simp only []
            have hfc := fetchChunk_ok hu c ⟨f.id, ch.off, ch.size⟩ hc
            rcases hfe : fetchChunk E u c ⟨f.id, ch.off, ch.size⟩ with ⟨c1, r⟩
            rw [hfe] at hfc
            cases r with
            | none => exact ⟨hfc.1, by intro b hb; cases hb⟩
            | some b =>
              simp only []
              obtain ⟨hbt, hbl⟩ := hfc.2 b rfl
              simp only [] at hbl
              by_cases hz : off - ch.off = 0 ∧ ch.off + ch.size - (off + n) = 0
              · simp only [hz, and_self, if_true]
                have hs : b = slice (trueChunk content ⟨f.id, ch.off, ch.size⟩) (off - ch.off)
                    (ch.size - (ch.off + ch.size - (off + n)) - (off - ch.off)) := by
                  rw [hz.1, hz.2, ← hbt]; unfold slice; simp [hbl]
                obtain ⟨a1, a2, a3⟩ := happ b hs (by rw [hbl, hz.1, hz.2]; simp)
                exact ih c1 _ hfc.1 a1 a2 a3
              · simp only [hz, if_false]
                by_cases hsl : (slice b (off - ch.off) (ch.size - (ch.off + ch.size - (off + n)) - (off - ch.off))).length ≠
                    ch.size - (ch.off + ch.size - (off + n)) - (off - ch.off)
                · simp only [hsl, if_true]; exact ⟨hfc.1, by intro b hb; cases hb⟩
                · simp only [hsl, if_false]
                  obtain ⟨a1, a2, a3⟩ := happ _ (by rw [hbt]) (by simpa using hsl)
                  exact ih c1 _ hfc.1 a1 a2 a3
    · simp only [hlt, if_false]
      refine ⟨hc, ?_⟩
      intro b hb; cases hb
      have : acc.length = n := by omega
      rw [← this]; exact hacc

end SV.LazyRead
