/-
Helper lemmas for C02 / C15 (model: SV/Model/LazyRead.lean).  Core-only.
-/
import SV.Model.LazyRead

namespace SV.LazyRead

/-! ### slices -/

@[simp] theorem slice_length (b : Bytes) (lo len : Nat) :
    (slice b lo len).length = min len (b.length - lo) := by
  simp [slice]

theorem slice_append (b : Bytes) (lo a c : Nat) :
    slice b lo a ++ slice b (lo + a) c = slice b lo (a + c) := by
  unfold slice
  rw [List.take_add, List.drop_drop]

theorem slice_slice (b : Bytes) (lo len lo' len' : Nat) (h : lo' + len' ≤ len) :
    slice (slice b lo len) lo' len' = slice b (lo + lo') len' := by
  unfold slice
  rw [List.drop_take, List.take_take, List.drop_drop]
  congr 1
  omega

/-- A cache entry that lost its tail still serves every range it covers completely. -/
theorem slice_take_full (b : Bytes) (k lo len : Nat)
    (h : (slice (b.take k) lo len).length = len) : slice (b.take k) lo len = slice b lo len := by
  unfold slice at *
  rw [List.drop_take, List.take_take] at *
  simp only [List.length_take, List.length_drop] at h
  congr 1
  omega

theorem slice_all_of_short (b : Bytes) (lo a n : Nat) (h1 : b.length ≤ lo + a) (h2 : a ≤ n) :
    slice b lo a = slice b lo n := by
  unfold slice
  rw [List.take_of_length_le (by simp; omega), List.take_of_length_le (by simp; omega)]

/-! ### `sort.Search` -/

theorem searchLoop_spec (p : Nat → Bool) (n : Nat)
    (mono : ∀ a b, a ≤ b → b < n → p a = true → p b = true) :
    ∀ fuel i j, i ≤ j → j ≤ n → j - i ≤ fuel →
      (∀ k, k < i → p k = false) → (∀ k, j ≤ k → k < n → p k = true) →
      i ≤ searchLoop p fuel i j ∧ searchLoop p fuel i j ≤ j ∧
      (∀ k, k < searchLoop p fuel i j → p k = false) ∧
      (∀ k, searchLoop p fuel i j ≤ k → k < n → p k = true) := by
  intro fuel
  induction fuel with
  | zero =>
    intro i j hij _ hf hlo hhi
    have : i = j := by omega
    subst this
    simp [searchLoop]
    exact ⟨hlo, hhi⟩
  | succ fuel ih =>
    intro i j hij hjn hf hlo hhi
    unfold searchLoop
    by_cases hlt : i < j
    · simp only [hlt, if_true]
      have hh1 : i ≤ (i + j) / 2 := by omega
      have hh2 : (i + j) / 2 < j := by omega
      cases hp : p ((i + j) / 2) with
      | false =>
        simp only [Bool.not_false, if_true]
        have hlo' : ∀ k, k < (i + j) / 2 + 1 → p k = false := by
          intro k hk
          cases hpk : p k with
          | false => rfl
          | true =>
            have := mono k ((i + j) / 2) (by omega) (by omega) hpk
            rw [hp] at this; exact absurd this (by simp)
        have := ih ((i + j) / 2 + 1) j (by omega) hjn (by omega) hlo' hhi
        exact ⟨by omega, this.2.1, this.2.2.1, this.2.2.2⟩
      | true =>
        simp only [Bool.not_true, Bool.false_eq_true, if_false]
        have hhi' : ∀ k, (i + j) / 2 ≤ k → k < n → p k = true := by
          intro k hk hkn
          exact mono ((i + j) / 2) k hk hkn hp
        have := ih i ((i + j) / 2) hh1 (by omega) (by omega) hlo hhi'
        exact ⟨this.1, by omega, this.2.2.1, this.2.2.2⟩
    · simp only [hlt, if_false]
      have : i = j := by omega
      subst this
      exact ⟨Nat.le_refl _, Nat.le_refl _, hlo, hhi⟩

/-- `sort.Search` on a monotone predicate returns the first index satisfying it (or `n`). -/
theorem searchFirst_spec (p : Nat → Bool) (n : Nat)
    (mono : ∀ a b, a ≤ b → b < n → p a = true → p b = true) :
    searchFirst n p ≤ n ∧ (∀ k, k < searchFirst n p → p k = false) ∧
      (searchFirst n p < n → p (searchFirst n p) = true) := by
  have := searchLoop_spec p n mono n 0 n (Nat.zero_le _) (Nat.le_refl _) (by omega)
    (by intro k hk; omega) (by intro k h1 h2; omega)
  unfold searchFirst
  exact ⟨this.2.1, this.2.2.1, fun h => this.2.2.2 _ (Nat.le_refl _) h⟩

/-- `sort.Search` never leaves `[0, n]`, whatever the predicate (no out-of-range index even for a
non-conforming chunk table). -/
theorem searchLoop_range (p : Nat → Bool) : ∀ fuel i j, i ≤ j → i ≤ searchLoop p fuel i j ∧ searchLoop p fuel i j ≤ j := by
  intro fuel
  induction fuel with
  | zero => intro i j h; simp [searchLoop]; exact h
  | succ fuel ih =>
    intro i j h
    unfold searchLoop
    by_cases hlt : i < j
    · simp only [hlt, if_true]
      cases p ((i + j) / 2) with
      | false =>
        simp only [Bool.not_false, if_true]
        have := ih ((i + j) / 2 + 1) j (by omega)
        exact ⟨by omega, this.2⟩
      | true =>
        simp only [Bool.not_true, Bool.false_eq_true, if_false]
        have := ih i ((i + j) / 2) (by omega)
        exact ⟨this.1, by omega⟩
    · simp only [hlt, if_false]; exact ⟨Nat.le_refl _, h⟩

/-! ### contiguous chunk tables -/

theorem contigB_iff (s : Nat) (t : List Chunk) : contigB s t = true ↔ Contig s t := by
  induction t generalizing s with
  | nil => simp [contigB, Contig]
  | cons c cs ih =>
    simp only [contigB, Contig, Bool.and_eq_true, beq_iff_eq, decide_eq_true_eq, ih]
    constructor
    · rintro ⟨⟨h1, h2⟩, h3⟩; exact ⟨h1, h2, h3⟩
    · rintro ⟨h1, h2, h3⟩; exact ⟨⟨h1, h2⟩, h3⟩

instance (s : Nat) (t : List Chunk) : Decidable (Contig s t) :=
  decidable_of_iff _ (contigB_iff s t)

theorem contig_ge {s : Nat} {t : List Chunk} (h : Contig s t) :
    ∀ i e, t[i]? = some e → s ≤ e.off ∧ 0 < e.size ∧ e.off + e.size ≤ s + total t := by
  induction t generalizing s with
  | nil => intro i e he; simp at he
  | cons c cs ih =>
    intro i e he
    obtain ⟨h1, h2, h3⟩ := h
    cases i with
    | zero =>
      simp at he; subst he
      simp only [total]; omega
    | succ i =>
      simp at he
      have := ih h3 i e he
      simp only [total]; omega

theorem contig_head {s : Nat} {t : List Chunk} (h : Contig s t) (e : Chunk) (he : t[0]? = some e) :
    e.off = s := by
  cases t with
  | nil => simp at he
  | cons c cs => simp at he; subst he; exact h.1

theorem contig_next {s : Nat} {t : List Chunk} (h : Contig s t) :
    ∀ i e e', t[i]? = some e → t[i + 1]? = some e' → e'.off = e.off + e.size := by
  induction t generalizing s with
  | nil => intro i e e' he; simp at he
  | cons c cs ih =>
    intro i e e' he he'
    obtain ⟨h1, _, h3⟩ := h
    cases i with
    | zero =>
      simp at he he'; subst he
      have := contig_head h3 e' he'
      omega
    | succ i =>
      simp at he he'
      exact ih h3 i e e' he he'

theorem contig_last {s : Nat} {t : List Chunk} (h : Contig s t) :
    ∀ i e, t[i]? = some e → t[i + 1]? = none → e.off + e.size = s + total t := by
  induction t generalizing s with
  | nil => intro i e he; simp at he
  | cons c cs ih =>
    intro i e he hn
    obtain ⟨h1, _, h3⟩ := h
    cases i with
    | zero =>
      simp at he hn; subst he
      cases cs with
      | nil => simp [total]; omega
      | cons d ds => simp at hn
    | succ i =>
      simp at he hn
      have := ih h3 i e he hn
      simp only [total]; omega

theorem contig_mono {s : Nat} {t : List Chunk} (h : Contig s t) :
    ∀ a b ea eb, t[a]? = some ea → t[b]? = some eb → a < b → ea.off + ea.size ≤ eb.off := by
  induction t generalizing s with
  | nil => intro a b ea eb he; simp at he
  | cons c cs ih =>
    intro a b ea eb hea heb hab
    obtain ⟨h1, _, h3⟩ := h
    cases b with
    | zero => omega
    | succ b =>
      simp at heb
      cases a with
      | zero =>
        simp at hea; subst hea
        have := (contig_ge h3 b eb heb).1
        omega
      | succ a =>
        simp at hea
        exact ih h3 a b ea eb hea heb (by omega)

/-- In a contiguous table the search predicate is "the offset lies before the end of chunk `i`". -/
theorem chunkPred_iff {s : Nat} {t : List Chunk} (h : Contig s t) (x i : Nat) (e : Chunk)
    (he : t[i]? = some e) : chunkPred t x i = true ↔ x < e.off + e.size := by
  have := (contig_ge h i e he).2.1
  simp only [chunkPred, he, Bool.or_eq_true, Bool.and_eq_true, decide_eq_true_eq]
  omega

theorem chunkPred_mono {s : Nat} {t : List Chunk} (h : Contig s t) (x : Nat) :
    ∀ a b, a ≤ b → b < t.length → chunkPred t x a = true → chunkPred t x b = true := by
  intro a b hab hb hpa
  by_cases heq : a = b
  · subst heq; exact hpa
  · have ha : a < t.length := by omega
    have hea : t[a]? = some t[a] := List.getElem?_eq_getElem ha
    have heb : t[b]? = some t[b] := List.getElem?_eq_getElem hb
    rw [chunkPred_iff h x a _ hea] at hpa
    rw [chunkPred_iff h x b _ heb]
    have := contig_mono h a b _ _ hea heb (by omega)
    have := (contig_ge h b _ heb).2.1
    omega

/-- What the binary search of `ChunkEntryForOffset` returns on a contiguous table. -/
theorem search_lookup {t : List Chunk} (h : Contig 0 t) (x : Nat) :
    (x < total t → ∃ c, t[searchFirst t.length (chunkPred t x)]? = some c ∧ c.off ≤ x ∧ x < c.off + c.size) ∧
    (total t ≤ x → t[searchFirst t.length (chunkPred t x)]? = none) := by
  obtain ⟨hle, hlo, hhi⟩ := searchFirst_spec (chunkPred t x) t.length (chunkPred_mono h x)
  generalize hr : searchFirst t.length (chunkPred t x) = r at *
  constructor
  · intro hx
    have hrn : r < t.length := by
      by_cases hn : t.length = 0
      · have : t = [] := List.eq_nil_of_length_eq_zero hn
        subst this; simp [total] at hx
      · by_cases hlt : r < t.length
        · exact hlt
        · exfalso
          have hk : t.length - 1 < t.length := by omega
          have hek : t[t.length - 1]? = some t[t.length - 1] := List.getElem?_eq_getElem hk
          have hnone : t[t.length - 1 + 1]? = none := List.getElem?_eq_none (by omega)
          have hend := contig_last h _ _ hek hnone
          have hf := hlo (t.length - 1) (by omega)
          have := (chunkPred_iff h x _ _ hek).not.mp (by rw [hf]; simp)
          omega
    have her : t[r]? = some t[r] := List.getElem?_eq_getElem hrn
    refine ⟨t[r], her, ?_, ?_⟩
    · cases r with
      | zero => have := contig_head h _ her; omega
      | succ r =>
        have hr' : r < t.length := by omega
        have her' : t[r]? = some t[r] := List.getElem?_eq_getElem hr'
        have hf := hlo r (by omega)
        have h1 := (chunkPred_iff h x _ _ her').not.mp (by rw [hf]; simp)
        have h2 := contig_next h r _ _ her' her
        omega
    · exact (chunkPred_iff h x _ _ her).mp (hhi hrn)
  · intro hx
    by_cases hlt : r < t.length
    · exfalso
      have her : t[r]? = some t[r] := List.getElem?_eq_getElem hlt
      have h1 := (chunkPred_iff h x _ _ her).mp (hhi hlt)
      have h2 := (contig_ge h r _ her).2.2
      omega
    · exact List.getElem?_eq_none (by omega)

/-- `ChunkEntryForOffset` (both stores) on a contiguous table: the chunk containing the offset,
`none` at and after EOF. -/
theorem lookup_spec (v : Variant) {t : List Chunk} (h : Contig 0 t) (x : Nat) :
    (x < total t → ∃ c, chunkEntryForOffset v t x = some c ∧ c ∈ t ∧ c.off ≤ x ∧ x < c.off + c.size) ∧
    (total t ≤ x → chunkEntryForOffset v t x = none) := by
  have hs := search_lookup h x
  have key : (x < total t → ∃ c, t[searchFirst t.length (chunkPred t x)]? = some c ∧ c ∈ t ∧ c.off ≤ x ∧ x < c.off + c.size) := by
    intro hx
    obtain ⟨c, hc, h1, h2⟩ := hs.1 hx
    exact ⟨c, hc, List.mem_of_getElem? hc, h1, h2⟩
  cases v with
  | db => exact ⟨key, hs.2⟩
  | mem =>
    unfold chunkEntryForOffset
    by_cases hl : t.length < 2
    · simp only [hl, if_true]
      match t, h, hl with
      | [], _, _ => simp [total]
      | [e], h, _ =>
        obtain ⟨h1, h2, _⟩ := h
        simp only [total, Nat.add_zero]
        constructor
        · intro hx
          refine ⟨e, ?_, by simp, by omega, by omega⟩
          simp; omega
        · intro hx; simp; omega
      | _ :: _ :: _, _, hl => simp at hl; omega
    · simp only [hl, if_false]
      exact ⟨key, hs.2⟩

/-- Two chunks of a contiguous table that contain the same offset are the same chunk. -/
theorem contig_unique {s : Nat} {t : List Chunk} (h : Contig s t) (x : Nat) (c c' : Chunk)
    (hc : c ∈ t) (hc' : c' ∈ t) (h1 : c.off ≤ x) (h2 : x < c.off + c.size)
    (h1' : c'.off ≤ x) (h2' : x < c'.off + c'.size) : c' = c := by
  obtain ⟨i, hi⟩ := List.getElem?_of_mem hc
  obtain ⟨j, hj⟩ := List.getElem?_of_mem hc'
  rcases Nat.lt_trichotomy i j with hlt | heq | hgt
  · have := contig_mono h i j _ _ hi hj hlt; omega
  · subst heq; rw [hi] at hj; exact (Option.some.inj hj).symm
  · have := contig_mono h j i _ _ hj hi hgt; omega

/-- The end of a chunk is never strictly inside another chunk. -/
theorem contig_end_not_inside {s : Nat} {t : List Chunk} (h : Contig s t) (c c' : Chunk)
    (hc : c ∈ t) (hc' : c' ∈ t) : ¬ (c'.off < c.off + c.size ∧ c.off + c.size < c'.off + c'.size) := by
  obtain ⟨i, hi⟩ := List.getElem?_of_mem hc
  obtain ⟨j, hj⟩ := List.getElem?_of_mem hc'
  have hsz := (contig_ge h i c hi).2.1
  rcases Nat.lt_trichotomy i j with hlt | heq | hgt
  · have := contig_mono h i j _ _ hi hj hlt; omega
  · subst heq; rw [hi] at hj; cases hj; omega
  · have := contig_mono h j i _ _ hj hi hgt; omega

theorem contig_mem_bounds {s : Nat} {t : List Chunk} (h : Contig s t) (c : Chunk) (hc : c ∈ t) :
    s ≤ c.off ∧ 0 < c.size ∧ c.off + c.size ≤ s + total t := by
  obtain ⟨i, hi⟩ := List.getElem?_of_mem hc
  exact contig_ge h i c hi

end SV.LazyRead
