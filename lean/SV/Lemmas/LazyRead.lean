/-
Helper lemmas for C02 / C15 (model: SV/Model/LazyRead.lean).  Core-only.
-/
import SV.Model.LazyRead

namespace SV.LazyRead

/-! ### slices -/

@[simp] theorem slice_length (b : Bytes) (lo len : Nat) :
    (slice b lo len).length = min len (b.length - lo) := by
  simp [slice]

theorem slice_append (b : Bytes) (lo a c : Nat) :
    slice b lo a ++ slice b (lo + a) c = slice b lo (a + c) := by
  unfold slice
  rw [List.take_add, List.drop_drop]

theorem slice_slice (b : Bytes) (lo len lo' len' : Nat) (h : lo' + len' ≤ len) :
    slice (slice b lo len) lo' len' = slice b (lo + lo') len' := by
  unfold slice
  rw [List.drop_take, List.take_take, List.drop_drop]
  congr 1
  omega

/-- A cache entry that lost its tail still serves every range it covers completely. -/
theorem slice_take_full (b : Bytes) (k lo len : Nat)
    (h : (slice (b.take k) lo len).length = len) : slice (b.take k) lo len = slice b lo len := by
  unfold slice at *
  rw [List.drop_take, List.take_take] at *
  simp only [List.length_take, List.length_drop] at h
  congr 1
  omega

theorem slice_all_of_short (b : Bytes) (lo a n : Nat) (h1 : b.length ≤ lo + a) (h2 : a ≤ n) :
    slice b lo a = slice b lo n := by
  unfold slice
  rw [List.take_of_length_le (by simp; omega), List.take_of_length_le (by simp; omega)]

/-! ### `sort.Search` -/

theorem searchLoop_spec (p : Nat → Bool) (n : Nat)
    (mono : ∀ a b, a ≤ b → b < n → p a = true → p b = true) :
    ∀ fuel i j, i ≤ j → j ≤ n → j - i ≤ fuel →
      (∀ k, k < i → p k = false) → (∀ k, j ≤ k → k < n → p k = true) →
      i ≤ searchLoop p fuel i j ∧ searchLoop p fuel i j ≤ j ∧
      (∀ k, k < searchLoop p fuel i j → p k = false) ∧
      (∀ k, searchLoop p fuel i j ≤ k → k < n → p k = true) := by
  intro fuel
  induction fuel with
  | zero =>
    intro i j hij _ hf hlo hhi
    have : i = j := by omega
    subst this
    simp [searchLoop]
    exact ⟨hlo, hhi⟩
  | succ fuel ih =>
    intro i j hij hjn hf hlo hhi
    unfold searchLoop
    by_cases hlt : i < j
    · simp only [hlt, if_true]
      have hh1 : i ≤ (i + j) / 2 := by omega
      have hh2 : (i + j) / 2 < j := by omega
      cases hp : p ((i + j) / 2) with
      | false =>
        simp only [Bool.not_false, if_true]
        have hlo' : ∀ k, k < (i + j) / 2 + 1 → p k = false := by
          intro k hk
          cases hpk : p k with
          | false => rfl
          | true =>
            have := mono k ((i + j) / 2) (by omega) (by omega) hpk
            rw [hp] at this; exact absurd this (by simp)
        have := ih ((i + j) / 2 + 1) j (by omega) hjn (by omega) hlo' hhi
        exact ⟨by omega, this.2.1, this.2.2.1, this.2.2.2⟩
      | true =>
        simp only [Bool.not_true, Bool.false_eq_true, if_false]
        have hhi' : ∀ k, (i + j) / 2 ≤ k → k < n → p k = true := by
          intro k hk hkn
          exact mono ((i + j) / 2) k hk hkn hp
        have := ih i ((i + j) / 2) hh1 (by omega) (by omega) hlo hhi'
        exact ⟨this.1, by omega, this.2.2.1, this.2.2.2⟩
    · simp only [hlt, if_false]
      have : i = j := by omega
      subst this
      exact ⟨Nat.le_refl _, Nat.le_refl _, hlo, hhi⟩

/-- `sort.Search` on a monotone predicate returns the first index satisfying it (or `n`). -/
theorem searchFirst_spec (p : Nat → Bool) (n : Nat)
    (mono : ∀ a b, a ≤ b → b < n → p a = true → p b = true) :
    searchFirst n p ≤ n ∧ (∀ k, k < searchFirst n p → p k = false) ∧
      (searchFirst n p < n → p (searchFirst n p) = true) := by
  have := searchLoop_spec p n mono n 0 n (Nat.zero_le _) (Nat.le_refl _) (by omega)
    (by intro k hk; omega) (by intro k h1 h2; omega)
  unfold searchFirst
  exact ⟨this.2.1, this.2.2.1, fun h => this.2.2.2 _ (Nat.le_refl _) h⟩

/-- `sort.Search` never leaves `[0, n]`, whatever the predicate (no out-of-range index even for a
non-conforming chunk table). -/
theorem searchLoop_range (p : Nat → Bool) : ∀ fuel i j, i ≤ j → i ≤ searchLoop p fuel i j ∧ searchLoop p fuel i j ≤ j := by
  intro fuel
  induction fuel with
  | zero => intro i j h; simp [searchLoop]; exact h
  | succ fuel ih =>
    intro i j h
    unfold searchLoop
    by_cases hlt : i < j
    · simp only [hlt, if_true]
      cases p ((i + j) / 2) with
      | false =>
        simp only [Bool.not_false, if_true]
        have := ih ((i + j) / 2 + 1) j (by omega)
        exact ⟨by omega, this.2⟩
      | true =>
        simp only [Bool.not_true, Bool.false_eq_true, if_false]
        have := ih i ((i + j) / 2) (by omega)
        exact ⟨this.1, by omega⟩
    · simp only [hlt, if_false]; exact ⟨Nat.le_refl _, h⟩

/-! ### contiguous chunk tables -/

theorem contigB_iff (s : Nat) (t : List Chunk) : contigB s t = true ↔ Contig s t := by
  induction t generalizing s with
  | nil => simp [contigB, Contig]
  | cons c cs ih =>
    simp only [contigB, Contig, Bool.and_eq_true, beq_iff_eq, decide_eq_true_eq, ih]
    constructor
    · rintro ⟨⟨h1, h2⟩, h3⟩; exact ⟨h1, h2, h3⟩
    · rintro ⟨h1, h2, h3⟩; exact ⟨⟨h1, h2⟩, h3⟩

instance (s : Nat) (t : List Chunk) : Decidable (Contig s t) :=
  decidable_of_iff _ (contigB_iff s t)

theorem contig_ge {s : Nat} {t : List Chunk} (h : Contig s t) :
    ∀ (i : Nat) (e : Chunk), t[i]? = some e → s ≤ e.off ∧ 0 < e.size ∧ e.off + e.size ≤ s + total t := by
  induction t generalizing s with
  | nil => intro i e he; simp at he
  | cons c cs ih =>
    intro i e he
    obtain ⟨h1, h2, h3⟩ := h
    cases i with
    | zero =>
      simp at he; subst he
      simp only [total]; omega
    | succ i =>
      simp at he
      have := ih h3 i e he
      simp only [total]; omega

theorem contig_head {s : Nat} {t : List Chunk} (h : Contig s t) (e : Chunk) (he : t[0]? = some e) :
    e.off = s := by
  cases t with
  | nil => simp at he
  | cons c cs => simp at he; subst he; exact h.1

theorem contig_next {s : Nat} {t : List Chunk} (h : Contig s t) :
    ∀ (i : Nat) (e e' : Chunk), t[i]? = some e → t[i + 1]? = some e' → e'.off = e.off + e.size := by
  induction t generalizing s with
  | nil => intro i e e' he; simp at he
  | cons c cs ih =>
    intro i e e' he he'
    obtain ⟨h1, _, h3⟩ := h
    cases i with
    | zero =>
      simp at he he'; subst he
      have := contig_head h3 e' he'
      omega
    | succ i =>
      simp at he he'
      exact ih h3 i e e' he he'

theorem contig_last {s : Nat} {t : List Chunk} (h : Contig s t) :
    ∀ (i : Nat) (e : Chunk), t[i]? = some e → t[i + 1]? = none → e.off + e.size = s + total t := by
  induction t generalizing s with
  | nil => intro i e he; simp at he
  | cons c cs ih =>
    intro i e he hn
    obtain ⟨h1, _, h3⟩ := h
    cases i with
    | zero =>
      simp at he hn; subst he
      cases cs with
      | nil => simp [total]; omega
      | cons d ds => simp at hn
    | succ i =>
      rw [List.getElem?_cons_succ] at he hn
      have := ih h3 i e he hn
      simp only [total]; omega

theorem contig_mono {s : Nat} {t : List Chunk} (h : Contig s t) :
    ∀ (a b : Nat) (ea eb : Chunk), t[a]? = some ea → t[b]? = some eb → a < b → ea.off + ea.size ≤ eb.off := by
  induction t generalizing s with
  | nil => intro a b ea eb he; simp at he
  | cons c cs ih =>
    intro a b ea eb hea heb hab
    obtain ⟨h1, _, h3⟩ := h
    cases b with
    | zero => omega
    | succ b =>
      simp at heb
      cases a with
      | zero =>
        simp at hea; subst hea
        have := (contig_ge h3 b eb heb).1
        omega
      | succ a =>
        simp at hea
        exact ih h3 a b ea eb hea heb (by omega)

/-- In a contiguous table the search predicate is "the offset lies before the end of chunk `i`". -/
theorem chunkPred_iff {s : Nat} {t : List Chunk} (h : Contig s t) (x i : Nat) (e : Chunk)
    (he : t[i]? = some e) : chunkPred t x i = true ↔ x < e.off + e.size := by
  have := (contig_ge h i e he).2.1
  simp only [chunkPred, he, Bool.or_eq_true, Bool.and_eq_true, decide_eq_true_eq]
  omega

theorem chunkPred_mono {s : Nat} {t : List Chunk} (h : Contig s t) (x : Nat) :
    ∀ a b, a ≤ b → b < t.length → chunkPred t x a = true → chunkPred t x b = true := by
  intro a b hab hb hpa
  by_cases heq : a = b
  · subst heq; exact hpa
  · have ha : a < t.length := by omega
    have hea : t[a]? = some t[a] := List.getElem?_eq_getElem ha
    have heb : t[b]? = some t[b] := List.getElem?_eq_getElem hb
    rw [chunkPred_iff h x a _ hea] at hpa
    rw [chunkPred_iff h x b _ heb]
    have := contig_mono h a b _ _ hea heb (by omega)
    have := (contig_ge h b _ heb).2.1
    omega

/-- What the binary search of `ChunkEntryForOffset` returns on a contiguous table. -/
theorem search_lookup {t : List Chunk} (h : Contig 0 t) (x : Nat) :
    (x < total t → ∃ c, t[searchFirst t.length (chunkPred t x)]? = some c ∧ c.off ≤ x ∧ x < c.off + c.size) ∧
    (total t ≤ x → t[searchFirst t.length (chunkPred t x)]? = none) := by
  obtain ⟨hle, hlo, hhi⟩ := searchFirst_spec (chunkPred t x) t.length (chunkPred_mono h x)
  generalize hr : searchFirst t.length (chunkPred t x) = r at *
  constructor
  · intro hx
    have hrn : r < t.length := by
      by_cases hn : t.length = 0
      · have : t = [] := List.eq_nil_of_length_eq_zero hn
        subst this; simp [total] at hx
      · by_cases hlt : r < t.length
        · exact hlt
        · exfalso
          have hk : t.length - 1 < t.length := by omega
          have hek : t[t.length - 1]? = some t[t.length - 1] := List.getElem?_eq_getElem hk
          have hnone : t[t.length - 1 + 1]? = none := List.getElem?_eq_none (by omega)
          have hend := contig_last h _ _ hek hnone
          have hf := hlo (t.length - 1) (by omega)
          have : ¬ x < t[t.length - 1].off + t[t.length - 1].size := fun hc => by
            have := (chunkPred_iff h x _ _ hek).mpr hc; rw [hf] at this; cases this
          omega
    have her : t[r]? = some t[r] := List.getElem?_eq_getElem hrn
    refine ⟨t[r], her, ?_, ?_⟩
    · cases r with
      | zero => have := contig_head h _ her; omega
      | succ r =>
        have hr' : r < t.length := by omega
        have her' : t[r]? = some t[r] := List.getElem?_eq_getElem hr'
        have hf := hlo r (by omega)
        have h1 : ¬ x < t[r].off + t[r].size := fun hc => by
          have := (chunkPred_iff h x _ _ her').mpr hc; rw [hf] at this; cases this
        have h2 := contig_next h r _ _ her' her
        omega
    · exact (chunkPred_iff h x _ _ her).mp (hhi hrn)
  · intro hx
    by_cases hlt : r < t.length
    · exfalso
      have her : t[r]? = some t[r] := List.getElem?_eq_getElem hlt
      have h1 := (chunkPred_iff h x _ _ her).mp (hhi hlt)
      have h2 := (contig_ge h r _ her).2.2
      omega
    · exact List.getElem?_eq_none (by omega)

/-- `ChunkEntryForOffset` (both stores) on a contiguous table: the chunk containing the offset,
`none` at and after EOF. -/
theorem lookup_spec (v : Variant) {t : List Chunk} (h : Contig 0 t) (x : Nat) :
    (x < total t → ∃ c, chunkEntryForOffset v t x = some c ∧ c ∈ t ∧ c.off ≤ x ∧ x < c.off + c.size) ∧
    (total t ≤ x → chunkEntryForOffset v t x = none) := by
  have hs := search_lookup h x
  have key : (x < total t → ∃ c, t[searchFirst t.length (chunkPred t x)]? = some c ∧ c ∈ t ∧ c.off ≤ x ∧ x < c.off + c.size) := by
    intro hx
    obtain ⟨c, hc, h1, h2⟩ := hs.1 hx
    exact ⟨c, hc, List.mem_of_getElem? hc, h1, h2⟩
  cases v with
  | db => exact ⟨key, hs.2⟩
  | mem =>
    unfold chunkEntryForOffset
    by_cases hl : t.length < 2
    · simp only [hl, if_true]
      match t, h, hl with
      | [], _, _ => simp [total]
      | [e], h, _ =>
        obtain ⟨h1, h2, _⟩ := h
        simp only [total, Nat.add_zero]
        constructor
        · intro hx
          refine ⟨e, ?_, by simp, by omega, by omega⟩
          simp; omega
        · intro hx; simp; omega
      | _ :: _ :: _, _, hl => simp at hl; omega
    · simp only [hl, if_false]
      exact ⟨key, hs.2⟩

/-- Two chunks of a contiguous table that contain the same offset are the same chunk. -/
theorem contig_unique {s : Nat} {t : List Chunk} (h : Contig s t) (x : Nat) (c c' : Chunk)
    (hc : c ∈ t) (hc' : c' ∈ t) (h1 : c.off ≤ x) (h2 : x < c.off + c.size)
    (h1' : c'.off ≤ x) (h2' : x < c'.off + c'.size) : c' = c := by
  obtain ⟨i, hi⟩ := List.getElem?_of_mem hc
  obtain ⟨j, hj⟩ := List.getElem?_of_mem hc'
  rcases Nat.lt_trichotomy i j with hlt | heq | hgt
  · have := contig_mono h i j _ _ hi hj hlt; omega
  · subst heq; rw [hi] at hj; exact (Option.some.inj hj).symm
  · have := contig_mono h j i _ _ hj hi hgt; omega

/-- The end of a chunk is never strictly inside another chunk. -/
theorem contig_end_not_inside {s : Nat} {t : List Chunk} (h : Contig s t) (c c' : Chunk)
    (hc : c ∈ t) (hc' : c' ∈ t) : ¬ (c'.off < c.off + c.size ∧ c.off + c.size < c'.off + c'.size) := by
  obtain ⟨i, hi⟩ := List.getElem?_of_mem hc
  obtain ⟨j, hj⟩ := List.getElem?_of_mem hc'
  have hsz := (contig_ge h i c hi).2.1
  rcases Nat.lt_trichotomy i j with hlt | heq | hgt
  · have := contig_mono h i j _ _ hi hj hlt; omega
  · subst heq; rw [hi] at hj; cases hj; omega
  · have := contig_mono h j i _ _ hj hi hgt; omega

theorem contig_mem_bounds {s : Nat} {t : List Chunk} (h : Contig s t) (c : Chunk) (hc : c ∈ t) :
    s ≤ c.off ∧ 0 < c.size ∧ c.off + c.size ≤ s + total t := by
  obtain ⟨i, hi⟩ := List.getElem?_of_mem hc
  exact contig_ge h i c hi


/-! ### the cache invariant and the read loop -/

/-- The bytes the tar payload has for a chunk. -/
def trueChunk (content : Nat → Bytes) (id : ChunkId) : Bytes := slice (content id.file) id.off id.size

/-- `CacheOK`: every cached entry is a prefix of the genuine chunk (an entry may have lost its tail,
it never holds foreign bytes). -/
def CacheOK (content : Nat → Bytes) (c : Cache) : Prop :=
  ∀ id d, c id = some d → ∃ k, d = (trueChunk content id).take k

/-- every cached entry is the complete genuine chunk -/
def CacheExact (content : Nat → Bytes) (c : Cache) : Prop :=
  ∀ id d, c id = some d → d = trueChunk content id

/-- What is accepted from below is genuine: with verification on this is collision resistance of the
digest plus "the TOC records the digests of the tar payload" (C01/C03); with verification off it
says the blob bytes are the built ones. -/
def Honest (content : Nat → Bytes) (E : Env) (u : Under) : Prop :=
  ∀ id b, u id = some b → b.length = id.size → E.verify id b = true → b = trueChunk content id

/-- The chunk table of a file tiles its payload (`FromTar`, established per blob by C03). -/
structure WF (content : Nat → Bytes) (f : FileInfo) : Prop where
  contig : Contig 0 f.table
  cover : total f.table = (content f.id).length
  size : f.size = (content f.id).length

theorem CacheExact.ok {content : Nat → Bytes} {c : Cache} (h : CacheExact content c) : CacheOK content c := by
  intro id d hd
  exact ⟨(trueChunk content id).length, by rw [h id d hd, List.take_length]⟩

theorem cacheOK_empty (content : Nat → Bytes) : CacheOK content Cache.empty := by
  intro id d h; simp [Cache.empty] at h

theorem cacheExact_empty (content : Nat → Bytes) : CacheExact content Cache.empty := by
  intro id d h; simp [Cache.empty] at h

theorem cacheOK_put {content : Nat → Bytes} {c : Cache} (h : CacheOK content c) (id : ChunkId) :
    CacheOK content (c.put id (trueChunk content id)) := by
  intro k d hd
  unfold Cache.put at hd
  by_cases hk : k = id
  · simp only [hk, if_true] at hd
    cases hd
    subst hk
    exact ⟨(trueChunk content k).length, by rw [List.take_length]⟩
  · simp only [hk, if_false] at hd; exact h k d hd

theorem cacheExact_put {content : Nat → Bytes} {c : Cache} (h : CacheExact content c) (id : ChunkId) :
    CacheExact content (c.put id (trueChunk content id)) := by
  intro k d hd
  unfold Cache.put at hd
  by_cases hk : k = id
  · simp only [hk, if_true] at hd; cases hd; subst hk; rfl
  · simp only [hk, if_false] at hd; exact h k d hd

theorem cacheOK_evict {content : Nat → Bytes} {c : Cache} (h : CacheOK content c) (id : ChunkId) :
    CacheOK content (c.evict id) := by
  intro k d hd
  unfold Cache.evict at hd
  by_cases hk : k = id
  · simp [hk] at hd
  · simp only [hk, if_false] at hd; exact h k d hd

theorem cacheExact_evict {content : Nat → Bytes} {c : Cache} (h : CacheExact content c) (id : ChunkId) :
    CacheExact content (c.evict id) := by
  intro k d hd
  unfold Cache.evict at hd
  by_cases hk : k = id
  · simp [hk] at hd
  · simp only [hk, if_false] at hd; exact h k d hd

theorem cacheOK_truncate {content : Nat → Bytes} {c : Cache} (h : CacheOK content c) (id : ChunkId) (n : Nat) :
    CacheOK content (c.truncate id n) := by
  intro k d hd
  unfold Cache.truncate at hd
  by_cases hk : k = id
  · simp only [hk, if_true] at hd
    cases hc : c id with
    | none => simp [hc] at hd
    | some d0 =>
      simp [hc] at hd
      obtain ⟨m, hm⟩ := h id d0 hc
      subst hk
      exact ⟨min n m, by rw [← hd, hm, List.take_take]⟩
  · simp only [hk, if_false] at hd; exact h k d hd

theorem preStore_ok {content : Nat → Bytes} {E : Env} {u : Under} (hu : Honest content E u) :
    ∀ (l : List ChunkId) (c : Cache), CacheOK content c → CacheOK content (preStore E u c l).1 := by
  intro l
  induction l with
  | nil => intro c h; exact h
  | cons e es ih =>
    intro c h
    unfold preStore
    cases hc : c e with
    | some d => simp only []; exact ih c h
    | none =>
      simp only []
      cases hue : u e with
      | none => exact h
      | some b =>
        simp only []
        by_cases hv : b.length = e.size ∧ E.verify e b = true
        · simp only [hv, and_self, if_true]
          have := hu e b hue hv.1 hv.2
          subst this
          exact ih _ (cacheOK_put h e)
        · simp only [hv, if_false]; exact h

theorem preStore_exact {content : Nat → Bytes} {E : Env} {u : Under} (hu : Honest content E u) :
    ∀ (l : List ChunkId) (c : Cache), CacheExact content c → CacheExact content (preStore E u c l).1 := by
  intro l
  induction l with
  | nil => intro c h; exact h
  | cons e es ih =>
    intro c h
    unfold preStore
    cases hc : c e with
    | some d => simp only []; exact ih c h
    | none =>
      simp only []
      cases hue : u e with
      | none => exact h
      | some b =>
        simp only []
        by_cases hv : b.length = e.size ∧ E.verify e b = true
        · simp only [hv, and_self, if_true]
          have := hu e b hue hv.1 hv.2
          subst this
          exact ih _ (cacheExact_put h e)
        · simp only [hv, if_false]; exact h

/-- entries never disappear in `preStore` -/
theorem preStore_keeps {E : Env} {u : Under} :
    ∀ (l : List ChunkId) (c : Cache) (k : ChunkId), c k ≠ none → (preStore E u c l).1 k ≠ none := by
  intro l
  induction l with
  | nil => intro c k h; exact h
  | cons e es ih =>
    intro c k h
    unfold preStore
    cases hc : c e with
    | some d => simp only []; exact ih c k h
    | none =>
      simp only []
      cases hue : u e with
      | none => exact h
      | some b =>
        simp only []
        by_cases hv : b.length = e.size ∧ E.verify e b = true
        · simp only [hv, and_self, if_true]
          apply ih
          unfold Cache.put
          by_cases hk : k = e
          · simp [hk]
          · simp only [hk, if_false]; exact h
        · simp only [hv, if_false]; exact h

/-- `fetchChunk`: the cache invariant survives (also on failure), and a delivered chunk is the genuine,
complete one. -/
theorem fetchChunk_ok {content : Nat → Bytes} {E : Env} {u : Under} (hu : Honest content E u)
    (c : Cache) (id : ChunkId) (h : CacheOK content c) :
    CacheOK content (fetchChunk E u c id).1 ∧
      ∀ b, (fetchChunk E u c id).2 = some b → b = trueChunk content id ∧ b.length = id.size := by
  unfold fetchChunk
  cases hco : E.co id with
  | none => exact ⟨h, by intro b hb; simp at hb⟩
  | some others =>
    simp only []
    have hp := preStore_ok hu others c h
    rcases hps : preStore E u c others with ⟨c1, ok⟩
    rw [hps] at hp
    cases ok with
    | false => exact ⟨hp, by intro b hb; simp at hb⟩
    | true =>
      simp only []
      cases hui : u id with
      | none => exact ⟨hp, by intro b hb; simp at hb⟩
      | some b =>
        simp only []
        by_cases hv : b.length = id.size ∧ E.verify id b = true
        · simp only [hv, and_self, if_true]
          have hb := hu id b hui hv.1 hv.2
          subst hb
          exact ⟨cacheOK_put hp id, by intro b' hb'; cases hb'; exact ⟨rfl, hv.1⟩⟩
        · simp only [hv, if_false]; exact ⟨hp, by intro b' hb'; simp at hb'⟩

theorem fetchChunk_exact {content : Nat → Bytes} {E : Env} {u : Under} (hu : Honest content E u)
    (c : Cache) (id : ChunkId) (h : CacheExact content c) :
    CacheExact content (fetchChunk E u c id).1 := by
  unfold fetchChunk
  cases hco : E.co id with
  | none => exact h
  | some others =>
    simp only []
    have hp := preStore_exact hu others c h
    rcases hps : preStore E u c others with ⟨c1, ok⟩
    rw [hps] at hp
    cases ok with
    | false => exact hp
    | true =>
      simp only []
      cases hui : u id with
      | none => exact hp
      | some b =>
        simp only []
        by_cases hv : b.length = id.size ∧ E.verify id b = true
        · simp only [hv, and_self, if_true]
          have hb := hu id b hui hv.1 hv.2
          subst hb
          exact cacheExact_put hp id
        · simp only [hv, if_false]; exact hp

theorem fetchChunk_keeps {E : Env} {u : Under} (c : Cache) (id k : ChunkId) (h : c k ≠ none) :
    (fetchChunk E u c id).1 k ≠ none := by
  unfold fetchChunk
  cases hco : E.co id with
  | none => exact h
  | some others =>
    simp only []
    have hp := preStore_keeps (E := E) (u := u) others c k h
    rcases hps : preStore E u c others with ⟨c1, ok⟩
    rw [hps] at hp
    cases ok with
    | false => exact hp
    | true =>
      simp only []
      cases hui : u id with
      | none => exact hp
      | some b =>
        simp only []
        by_cases hv : b.length = id.size ∧ E.verify id b = true
        · simp only [hv, and_self, if_true]
          unfold Cache.put
          by_cases hk : k = id
          · simp [hk]
          · simp only [hk, if_false]; exact hp
        · simp only [hv, if_false]; exact hp

/-- a successful `fetchChunk` leaves the chunk in the cache -/
theorem fetchChunk_stores {E : Env} {u : Under} (c : Cache) (id : ChunkId) (b : Bytes)
    (h : (fetchChunk E u c id).2 = some b) : (fetchChunk E u c id).1 id ≠ none := by
  cases hco : E.co id with
  | none => simp [fetchChunk, hco] at h
  | some others =>
    rcases hps : preStore E u c others with ⟨c1, ok⟩
    cases ok with
    | false => simp [fetchChunk, hco, hps] at h
    | true =>
      cases hui : u id with
      | none => simp [fetchChunk, hco, hps, hui] at h
      | some b0 =>
        by_cases hv : b0.length = id.size ∧ E.verify id b0 = true
        · simp only [fetchChunk, hco, hps, hui, if_pos hv]
          simp [Cache.put]
        · simp only [fetchChunk, hco, hps, hui, if_neg hv] at h
          cases h

/-- Position `y` is not strictly inside any chunk. -/
def NotInside (t : List Chunk) (y : Nat) : Prop := ∀ c ∈ t, ¬ (c.off < y ∧ y < c.off + c.size)

theorem trueChunk_length {content : Nat → Bytes} {f : FileInfo} (hf : WF content f) (ch : Chunk)
    (hc : ch ∈ f.table) : (trueChunk content ⟨f.id, ch.off, ch.size⟩).length = ch.size := by
  have := contig_mem_bounds hf.contig ch hc
  have := hf.cover
  simp [trueChunk]; omega

/-- One round of the loop appends the right bytes: used by both loop theorems. -/
theorem round_facts {content : Nat → Bytes} {f : FileInfo} (hf : WF content f) (off n nr : Nat)
    (hnr : nr < n) (hinv : nr = 0 ∨ NotInside f.table (off + nr)) (ch : Chunk) (hc : ch ∈ f.table)
    (h1 : ch.off ≤ off + nr) (h2 : off + nr < ch.off + ch.size) :
    let lower := off - ch.off
    let upper := ch.off + ch.size - (off + n)
    let expected := ch.size - upper - lower
    ch.off + lower = off + nr ∧ lower + expected ≤ ch.size ∧
    (expected ≤ n - nr → (nr + expected = n ∨ NotInside f.table (off + (nr + expected)))) ∧
    (0 < expected) ∧ ((upper = 0 → expected ≤ n - nr) ∧ (0 < upper → expected = n - nr)) := by
  intro lower upper expected
  have hb := contig_mem_bounds hf.contig ch hc
  have hstart : ch.off + lower = off + nr := by
    rcases hinv with h0 | hni
    · subst h0; simp only [lower]; omega
    · have := hni ch hc
      simp only [lower]; omega
  refine ⟨hstart, by simp only [expected, lower, upper]; omega, ?_, by simp only [expected, lower, upper] at *; omega,
    by simp only [expected, lower, upper] at *; omega, by simp only [expected, lower, upper] at *; omega⟩
  intro hle
  by_cases hup : upper = 0
  · right
    have : off + (nr + expected) = ch.off + ch.size := by simp only [expected, lower, upper] at *; omega
    rw [this]
    intro c' hc'
    exact contig_end_not_inside hf.contig ch c' hc hc'
  · left; simp only [expected, lower, upper] at *; omega

/-- Exactness of the loop: whatever the cache holds (within `CacheOK`) and whatever comes from below
(within `Honest`), an `.ok` result is the slice of the tar payload, and `CacheOK` is kept. -/
theorem readLoop_exact {content : Nat → Bytes} {E : Env} {u : Under} {f : FileInfo}
    (hf : WF content f) (hu : Honest content E u) (off n : Nat) :
    ∀ (fuel : Nat) (c : Cache) (acc : Bytes), CacheOK content c →
      acc = slice (content f.id) off acc.length → acc.length ≤ n →
      (acc.length = 0 ∨ acc.length = n ∨ NotInside f.table (off + acc.length)) →
      CacheOK content (readLoop E u f off n fuel c acc).1 ∧
        ∀ b, (readLoop E u f off n fuel c acc).2 = .ok b → b = slice (content f.id) off n := by
  intro fuel
  induction fuel with
  | zero => intro c acc hc _ _ _; exact ⟨hc, by intro b hb; simp [readLoop] at hb⟩
  | succ fuel ih =>
    intro c acc hc hacc hle hinv
    unfold readLoop
    simp only []
    by_cases hlt : acc.length < n
    · simp only [hlt, if_true]
      have hl := lookup_spec f.variant hf.contig (off + acc.length)
      cases hlk : chunkEntryForOffset f.variant f.table (off + acc.length) with
      | none =>
        simp only []
        refine ⟨hc, ?_⟩
        intro b hb; cases hb
        have : total f.table ≤ off + acc.length := by
          by_cases hx : off + acc.length < total f.table
          · obtain ⟨c0, hc0, _⟩ := hl.1 hx; rw [hlk] at hc0; cases hc0
          · omega
        rw [hacc]
        exact slice_all_of_short _ _ _ _ (by have := hf.cover; omega) hle
      | some ch =>
        simp only []
        have hx : off + acc.length < total f.table := by
          by_cases hx : off + acc.length < total f.table
          · exact hx
          · have := hl.2 (by omega); rw [hlk] at this; cases this
        have hch : ch ∈ f.table ∧ ch.off ≤ off + acc.length ∧ off + acc.length < ch.off + ch.size := by
          obtain ⟨c0, hc0, hmem, hb1, hb2⟩ := hl.1 hx
          rw [hlk] at hc0; cases hc0; exact ⟨hmem, hb1, hb2⟩
        obtain ⟨hmem, hb1, hb2⟩ := hch
        have hinv' : acc.length = 0 ∨ NotInside f.table (off + acc.length) := by
          rcases hinv with h | h | h
          · exact Or.inl h
          · omega
          · exact Or.inr h
        have hr := round_facts hf off n acc.length hlt hinv' ch hmem hb1 hb2
        obtain ⟨hstart, hfit, hnext, hpos, _⟩ := hr
        by_cases hg : ch.size = 0 ∨ ch.size - (ch.off + ch.size - (off + n)) - (off - ch.off) = 0 ∨
            ch.size - (ch.off + ch.size - (off + n)) - (off - ch.off) > n - acc.length
        · simp only [hg, if_true]; exact ⟨hc, by intro b hb; cases hb⟩
        · simp only [hg, if_false]
          have hexp : ch.size - (ch.off + ch.size - (off + n)) - (off - ch.off) ≤ n - acc.length := by omega
          -- what is appended in every successful branch
          have happ : ∀ s : Bytes,
              s = slice (trueChunk content ⟨f.id, ch.off, ch.size⟩) (off - ch.off)
                    (ch.size - (ch.off + ch.size - (off + n)) - (off - ch.off)) →
              s.length = ch.size - (ch.off + ch.size - (off + n)) - (off - ch.off) →
              (acc ++ s = slice (content f.id) off (acc ++ s).length) ∧ (acc ++ s).length ≤ n ∧
              ((acc ++ s).length = 0 ∨ (acc ++ s).length = n ∨ NotInside f.table (off + (acc ++ s).length)) := by
            intro s hs hslen
            have h1 : s = slice (content f.id) (off + acc.length)
                (ch.size - (ch.off + ch.size - (off + n)) - (off - ch.off)) := by
              rw [hs]; unfold trueChunk; simp only []
              rw [slice_slice _ _ _ _ _ hfit, hstart]
            have hl2 : (acc ++ s).length = acc.length + (ch.size - (ch.off + ch.size - (off + n)) - (off - ch.off)) := by
              simp [hslen]
            refine ⟨?_, by omega, ?_⟩
            · rw [hl2, ← slice_append, ← hacc, ← h1]
            · rw [hl2]
              rcases hnext hexp with h | h
              · exact Or.inr (Or.inl h)
              · exact Or.inr (Or.inr h)
          -- the hit test
          cases hcid : c ⟨f.id, ch.off, ch.size⟩ with
          | some d =>
            simp only []
            by_cases hfull : (slice d (off - ch.off) (ch.size - (ch.off + ch.size - (off + n)) - (off - ch.off))).length =
                ch.size - (ch.off + ch.size - (off + n)) - (off - ch.off)
            · simp only [hfull, if_true]
              obtain ⟨k, hk⟩ := hc _ d hcid
              have hs := slice_take_full (trueChunk content ⟨f.id, ch.off, ch.size⟩) k _ _ (by rw [← hk]; exact hfull)
              rw [← hk] at hs
              obtain ⟨a1, a2, a3⟩ := happ _ hs hfull
              exact ih c _ hc a1 a2 a3
            · simp only [hfull, if_false]
              -- falls through to the miss path
              have hfc := fetchChunk_ok hu c ⟨f.id, ch.off, ch.size⟩ hc
              rcases hfe : fetchChunk E u c ⟨f.id, ch.off, ch.size⟩ with ⟨c1, r⟩
              rw [hfe] at hfc
              cases r with
              | none => exact ⟨hfc.1, by intro b hb; cases hb⟩
              | some b =>
                simp only []
                obtain ⟨hbt, hbl⟩ := hfc.2 b rfl
                simp only [] at hbl
                by_cases hz : off - ch.off = 0 ∧ ch.off + ch.size - (off + n) = 0
                · simp only [hz, and_self, if_true]
                  have hs : b = slice (trueChunk content ⟨f.id, ch.off, ch.size⟩) (off - ch.off)
                      (ch.size - (ch.off + ch.size - (off + n)) - (off - ch.off)) := by
                    rw [hz.1, hz.2, ← hbt]; simp [slice, ← hbl]
                  obtain ⟨a1, a2, a3⟩ := happ b hs (by rw [hbl, hz.1, hz.2]; simp)
                  exact ih c1 _ hfc.1 a1 a2 a3
                · simp only [hz, if_false]
                  by_cases hsl : (slice b (off - ch.off) (ch.size - (ch.off + ch.size - (off + n)) - (off - ch.off))).length =
                      ch.size - (ch.off + ch.size - (off + n)) - (off - ch.off)
                  · rw [if_neg (not_not_intro hsl)]
                    obtain ⟨a1, a2, a3⟩ := happ _ (by rw [hbt]) hsl
                    exact ih c1 _ hfc.1 a1 a2 a3
                  · rw [if_pos hsl]; exact ⟨hfc.1, by intro b hb; cases hb⟩
          | none =>
            simp only []
            have hfc := fetchChunk_ok hu c ⟨f.id, ch.off, ch.size⟩ hc
            rcases hfe : fetchChunk E u c ⟨f.id, ch.off, ch.size⟩ with ⟨c1, r⟩
            rw [hfe] at hfc
            cases r with
            | none => exact ⟨hfc.1, by intro b hb; cases hb⟩
            | some b =>
              simp only []
              obtain ⟨hbt, hbl⟩ := hfc.2 b rfl
              simp only [] at hbl
              by_cases hz : off - ch.off = 0 ∧ ch.off + ch.size - (off + n) = 0
              · simp only [hz, and_self, if_true]
                have hs : b = slice (trueChunk content ⟨f.id, ch.off, ch.size⟩) (off - ch.off)
                    (ch.size - (ch.off + ch.size - (off + n)) - (off - ch.off)) := by
                  rw [hz.1, hz.2, ← hbt]; simp [slice, ← hbl]
                obtain ⟨a1, a2, a3⟩ := happ b hs (by rw [hbl, hz.1, hz.2]; simp)
                exact ih c1 _ hfc.1 a1 a2 a3
              · simp only [hz, if_false]
                by_cases hsl : (slice b (off - ch.off) (ch.size - (ch.off + ch.size - (off + n)) - (off - ch.off))).length =
                    ch.size - (ch.off + ch.size - (off + n)) - (off - ch.off)
                · rw [if_neg (not_not_intro hsl)]
                  obtain ⟨a1, a2, a3⟩ := happ _ (by rw [hbt]) hsl
                  exact ih c1 _ hfc.1 a1 a2 a3
                · rw [if_pos hsl]; exact ⟨hfc.1, by intro b hb; cases hb⟩
    · simp only [hlt, if_false]
      refine ⟨hc, ?_⟩
      intro b hb; cases hb
      have : acc.length = n := by omega
      rw [← this]; exact hacc


theorem fetchChunk_len {E : Env} {u : Under} (c : Cache) (id : ChunkId) (b : Bytes)
    (h : (fetchChunk E u c id).2 = some b) : b.length = id.size := by
  cases hco : E.co id with
  | none => simp [fetchChunk, hco] at h
  | some others =>
    rcases hps : preStore E u c others with ⟨c1, ok⟩
    cases ok with
    | false => simp [fetchChunk, hco, hps] at h
    | true =>
      cases hui : u id with
      | none => simp [fetchChunk, hco, hps, hui] at h
      | some b0 =>
        by_cases hv : b0.length = id.size ∧ E.verify id b0 = true
        · simp only [fetchChunk, hco, hps, hui, if_pos hv] at h
          cases h; exact hv.1
        · simp only [fetchChunk, hco, hps, hui, if_neg hv] at h
          cases h

/-- The Go loop terminates: every round appends at least one byte, so `n + 1` rounds suffice for
ANY chunk table, cache and lower layer (no hypothesis). -/
theorem readLoop_ne_diverge (E : Env) (u : Under) (f : FileInfo) (off n : Nat) :
    ∀ (fuel : Nat) (c : Cache) (acc : Bytes), n - acc.length < fuel →
      (readLoop E u f off n fuel c acc).2 ≠ .diverge := by
  intro fuel
  induction fuel with
  | zero => intro c acc h; omega
  | succ fuel ih =>
    intro c acc hfuel
    unfold readLoop
    simp only []
    by_cases hlt : acc.length < n
    · simp only [hlt, if_true]
      cases hlk : chunkEntryForOffset f.variant f.table (off + acc.length) with
      | none => simp
      | some ch =>
        simp only []
        by_cases hg : ch.size = 0 ∨ ch.size - (ch.off + ch.size - (off + n)) - (off - ch.off) = 0 ∨
            ch.size - (ch.off + ch.size - (off + n)) - (off - ch.off) > n - acc.length
        · simp only [hg, if_true]; simp
        · simp only [hg, if_false]
          have hstep : ∀ (c' : Cache) (s : Bytes), 0 < s.length →
              (readLoop E u f off n fuel c' (acc ++ s)).2 ≠ .diverge := by
            intro c' s hs
            apply ih
            simp; omega
          have hmiss : (match fetchChunk E u c ⟨f.id, ch.off, ch.size⟩ with
              | (c1, none) => (c1, Outcome.err)
              | (c1, some b) =>
                if off - ch.off = 0 ∧ ch.off + ch.size - (off + n) = 0 then
                  readLoop E u f off n fuel c1 (acc ++ b)
                else
                  if (slice b (off - ch.off) (ch.size - (ch.off + ch.size - (off + n)) - (off - ch.off))).length ≠
                      ch.size - (ch.off + ch.size - (off + n)) - (off - ch.off) then (c1, Outcome.err)
                  else readLoop E u f off n fuel c1
                    (acc ++ slice b (off - ch.off) (ch.size - (ch.off + ch.size - (off + n)) - (off - ch.off)))).2
              ≠ .diverge := by
            have hlen := fetchChunk_len (E := E) (u := u) c ⟨f.id, ch.off, ch.size⟩
            rcases hfe : fetchChunk E u c ⟨f.id, ch.off, ch.size⟩ with ⟨c1, r⟩
            rw [hfe] at hlen
            cases r with
            | none => simp
            | some b =>
              simp only []
              have hbl := hlen b rfl
              simp only [] at hbl
              by_cases hz : off - ch.off = 0 ∧ ch.off + ch.size - (off + n) = 0
              · rw [if_pos hz]; exact hstep c1 b (by omega)
              · rw [if_neg hz]
                by_cases hsl : (slice b (off - ch.off) (ch.size - (ch.off + ch.size - (off + n)) - (off - ch.off))).length =
                    ch.size - (ch.off + ch.size - (off + n)) - (off - ch.off)
                · rw [if_neg (not_not_intro hsl)]; exact hstep c1 _ (by omega)
                · rw [if_pos hsl]; simp
          cases hcid : c ⟨f.id, ch.off, ch.size⟩ with
          | some d =>
            simp only []
            by_cases hfull : (slice d (off - ch.off) (ch.size - (ch.off + ch.size - (off + n)) - (off - ch.off))).length =
                ch.size - (ch.off + ch.size - (off + n)) - (off - ch.off)
            · simp only [hfull, if_true]; exact hstep c _ (by omega)
            · simp only [hfull, if_false]; exact hmiss
          | none => simp only []; exact hmiss
    · simp only [hlt, if_false]; simp

theorem fileReadAt_ne_diverge (E : Env) (u : Under) (f : FileInfo) (c : Cache) (off n : Nat) :
    (fileReadAt E u f c off n).2 ≠ .diverge := by
  unfold fileReadAt
  exact readLoop_ne_diverge E u f off n (n + 1) c [] (by simp)

/-- Every chunk of the file is in the cache. -/
def AllCached (f : FileInfo) (c : Cache) : Prop := ∀ ch ∈ f.table, c ⟨f.id, ch.off, ch.size⟩ ≠ none

/-- With every chunk of the file cached (exactly), the loop never asks the lower layer: for ANY `u`
(in particular the always-failing one) the read succeeds with the right bytes and leaves the cache
alone. -/
theorem readLoop_cached {content : Nat → Bytes} {E : Env} (u : Under) {f : FileInfo}
    (hf : WF content f) (c : Cache) (hc : CacheExact content c) (hall : AllCached f c) (off n : Nat) :
    ∀ (fuel : Nat) (acc : Bytes), n - acc.length < fuel →
      acc = slice (content f.id) off acc.length → acc.length ≤ n →
      (acc.length = 0 ∨ acc.length = n ∨ NotInside f.table (off + acc.length)) →
      readLoop E u f off n fuel c acc = (c, .ok (slice (content f.id) off n)) := by
  intro fuel
  induction fuel with
  | zero => intro acc h; omega
  | succ fuel ih =>
    intro acc hfuel hacc hle hinv
    unfold readLoop
    simp only []
    by_cases hlt : acc.length < n
    · simp only [hlt, if_true]
      have hl := lookup_spec f.variant hf.contig (off + acc.length)
      cases hlk : chunkEntryForOffset f.variant f.table (off + acc.length) with
      | none =>
        simp only []
        have : total f.table ≤ off + acc.length := by
          by_cases hx : off + acc.length < total f.table
          · obtain ⟨c0, hc0, _⟩ := hl.1 hx; rw [hlk] at hc0; cases hc0
          · omega
        congr 2
        rw [hacc]
        exact slice_all_of_short _ _ _ _ (by have := hf.cover; omega) hle
      | some ch =>
        simp only []
        have hx : off + acc.length < total f.table := by
          by_cases hx : off + acc.length < total f.table
          · exact hx
          · have := hl.2 (by omega); rw [hlk] at this; cases this
        have hch : ch ∈ f.table ∧ ch.off ≤ off + acc.length ∧ off + acc.length < ch.off + ch.size := by
          obtain ⟨c0, hc0, hmem, hb1, hb2⟩ := hl.1 hx
          rw [hlk] at hc0; cases hc0; exact ⟨hmem, hb1, hb2⟩
        obtain ⟨hmem, hb1, hb2⟩ := hch
        have hinv' : acc.length = 0 ∨ NotInside f.table (off + acc.length) := by
          rcases hinv with h | h | h
          · exact Or.inl h
          · omega
          · exact Or.inr h
        have hr := round_facts hf off n acc.length hlt hinv' ch hmem hb1 hb2
        obtain ⟨hstart, hfit, hnext, hpos, hup0, hup1⟩ := hr
        have hbnd := contig_mem_bounds hf.contig ch hmem
        have hexp : ch.size - (ch.off + ch.size - (off + n)) - (off - ch.off) ≤ n - acc.length := by
          by_cases h0 : ch.off + ch.size - (off + n) = 0
          · exact hup0 h0
          · have := hup1 (by omega); omega
        have hg : ¬ (ch.size = 0 ∨ ch.size - (ch.off + ch.size - (off + n)) - (off - ch.off) = 0 ∨
            ch.size - (ch.off + ch.size - (off + n)) - (off - ch.off) > n - acc.length) := by omega
        simp only [hg, if_false]
        cases hcid : c ⟨f.id, ch.off, ch.size⟩ with
        | none => exact absurd hcid (hall ch hmem)
        | some d =>
          simp only []
          have hd := hc _ d hcid
          have hdl : d.length = ch.size := by rw [hd]; exact trueChunk_length hf ch hmem
          have hfull : (slice d (off - ch.off) (ch.size - (ch.off + ch.size - (off + n)) - (off - ch.off))).length =
              ch.size - (ch.off + ch.size - (off + n)) - (off - ch.off) := by
            simp only [slice_length, hdl]; omega
          simp only [hfull, if_true]
          have h1 : slice d (off - ch.off) (ch.size - (ch.off + ch.size - (off + n)) - (off - ch.off)) =
              slice (content f.id) (off + acc.length)
                (ch.size - (ch.off + ch.size - (off + n)) - (off - ch.off)) := by
            rw [hd]; unfold trueChunk; simp only []
            rw [slice_slice _ _ _ _ _ hfit, hstart]
          have hl2 : (acc ++ slice d (off - ch.off) (ch.size - (ch.off + ch.size - (off + n)) - (off - ch.off))).length =
              acc.length + (ch.size - (ch.off + ch.size - (off + n)) - (off - ch.off)) := by
            simp only [List.length_append, hfull]
          clear hl
          apply ih
          · rw [hl2]; omega
          · rw [hl2, ← slice_append, ← hacc, ← h1]
          · rw [hl2]; omega
          · rw [hl2]
            rcases hnext hexp with h | h
            · exact Or.inr (Or.inl h)
            · exact Or.inr (Or.inr h)
    · simp only [hlt, if_false]
      have : acc.length = n := by omega
      rw [← this, ← hacc]

theorem fileReadAt_cached {content : Nat → Bytes} {E : Env} (u : Under) {f : FileInfo}
    (hf : WF content f) (c : Cache) (hc : CacheExact content c) (hall : AllCached f c) (off n : Nat) :
    fileReadAt E u f c off n = (c, .ok (slice (content f.id) off n)) := by
  unfold fileReadAt
  exact readLoop_cached u hf c hc hall off n (n + 1) [] (by simp) (by simp [slice]) (by simp) (Or.inl rfl)

theorem fileReadAt_exact {content : Nat → Bytes} {E : Env} {u : Under} {f : FileInfo}
    (hf : WF content f) (hu : Honest content E u) (c : Cache) (hc : CacheOK content c) (off n : Nat) :
    CacheOK content (fileReadAt E u f c off n).1 ∧
      ∀ b, (fileReadAt E u f c off n).2 = .ok b → b = slice (content f.id) off n := by
  unfold fileReadAt
  exact readLoop_exact hf hu off n (n + 1) c [] hc (by simp [slice]) (by simp) (Or.inl rfl)

/-! ### prefetch-stores -/

theorem storeChunk_ok {content : Nat → Bytes} {E : Env} {u : Under} (hu : Honest content E u)
    (c : Cache) (id : ChunkId) (h : CacheOK content c) : CacheOK content (storeChunk E u c id).1 := by
  unfold storeChunk
  cases hc : c id with
  | some d => exact h
  | none =>
    simp only []
    have := (fetchChunk_ok hu c id h).1
    rcases hfe : fetchChunk E u c id with ⟨c1, r⟩
    rw [hfe] at this
    cases r <;> exact this

theorem storeChunk_exact {content : Nat → Bytes} {E : Env} {u : Under} (hu : Honest content E u)
    (c : Cache) (id : ChunkId) (h : CacheExact content c) : CacheExact content (storeChunk E u c id).1 := by
  unfold storeChunk
  cases hc : c id with
  | some d => exact h
  | none =>
    simp only []
    have := fetchChunk_exact hu c id h
    rcases hfe : fetchChunk E u c id with ⟨c1, r⟩
    rw [hfe] at this
    cases r <;> exact this

theorem storeChunk_keeps {E : Env} {u : Under} (c : Cache) (id k : ChunkId) (h : c k ≠ none) :
    (storeChunk E u c id).1 k ≠ none := by
  unfold storeChunk
  cases hc : c id with
  | some d => exact h
  | none =>
    simp only []
    have := fetchChunk_keeps (E := E) (u := u) c id k h
    rcases hfe : fetchChunk E u c id with ⟨c1, r⟩
    rw [hfe] at this
    cases r <;> exact this

theorem storeChunk_stores {E : Env} {u : Under} (c : Cache) (id : ChunkId)
    (h : (storeChunk E u c id).2 = true) : (storeChunk E u c id).1 id ≠ none := by
  unfold storeChunk at *
  cases hc : c id with
  | some d => simp [hc]
  | none =>
    simp only [hc] at h ⊢
    have := fetchChunk_stores (E := E) (u := u) c id
    rcases hfe : fetchChunk E u c id with ⟨c1, r⟩
    rw [hfe] at this h
    cases r with
    | none => simp at h
    | some b => exact this b rfl

theorem cacheFileLoop_inv {content : Nat → Bytes} {E : Env} {u : Under} (hu : Honest content E u) (f : FileInfo) :
    ∀ (fuel nr : Nat) (c : Cache),
      (CacheOK content c → CacheOK content (cacheFileLoop E u f fuel nr c).1) ∧
      (CacheExact content c → CacheExact content (cacheFileLoop E u f fuel nr c).1) ∧
      (∀ k, c k ≠ none → (cacheFileLoop E u f fuel nr c).1 k ≠ none) := by
  intro fuel
  induction fuel with
  | zero => intro nr c; exact ⟨id, id, fun _ h => h⟩
  | succ fuel ih =>
    intro nr c
    unfold cacheFileLoop
    by_cases hlt : nr < f.size
    · simp only [hlt, if_true]
      cases hlk : chunkEntryForOffset f.variant f.table nr with
      | none => exact ⟨id, id, fun _ h => h⟩
      | some ch =>
        simp only []
        have h1 := storeChunk_ok hu c ⟨f.id, ch.off, ch.size⟩
        have h2 := storeChunk_exact hu c ⟨f.id, ch.off, ch.size⟩
        have h3 := storeChunk_keeps (E := E) (u := u) c ⟨f.id, ch.off, ch.size⟩
        rcases hst : storeChunk E u c ⟨f.id, ch.off, ch.size⟩ with ⟨c1, ok⟩
        rw [hst] at h1 h2 h3
        cases ok with
        | false => exact ⟨h1, h2, h3⟩
        | true =>
          simp only []
          have := ih (nr + ch.size) c1
          exact ⟨fun h => this.1 (h1 h), fun h => this.2.1 (h2 h), fun k h => this.2.2 k (h3 k h)⟩
    · simp only [hlt, if_false]; exact ⟨id, id, fun _ h => h⟩

/-- A successful walk over a file leaves every chunk of it in the cache. -/
theorem cacheFileLoop_all {content : Nat → Bytes} {E : Env} {u : Under} {f : FileInfo} (hf : WF content f) :
    ∀ (fuel nr : Nat) (c : Cache), NotInside f.table nr →
      (∀ ch ∈ f.table, ch.off < nr → c ⟨f.id, ch.off, ch.size⟩ ≠ none) →
      (cacheFileLoop E u f fuel nr c).2 = true → AllCached f (cacheFileLoop E u f fuel nr c).1 := by
  intro fuel
  induction fuel with
  | zero => intro nr c _ _ h; simp [cacheFileLoop] at h
  | succ fuel ih =>
    intro nr c hni hdone hok
    unfold cacheFileLoop at hok ⊢
    have hl := lookup_spec f.variant hf.contig nr
    have hsz : f.size = total f.table := by rw [hf.size, hf.cover]
    have hfin : total f.table ≤ nr → AllCached f c := by
      intro hge ch hch
      have := contig_mem_bounds hf.contig ch hch
      exact hdone ch hch (by omega)
    by_cases hlt : nr < f.size
    · simp only [hlt, if_true] at hok ⊢
      cases hlk : chunkEntryForOffset f.variant f.table nr with
      | none =>
        simp only []
        by_cases hx : nr < total f.table
        · obtain ⟨c0, hc0, _⟩ := hl.1 hx; rw [hlk] at hc0; cases hc0
        · exact hfin (by omega)
      | some ch =>
        rw [hlk] at hok
        simp only [] at hok ⊢
        have hch : ch ∈ f.table ∧ ch.off ≤ nr ∧ nr < ch.off + ch.size := by
          obtain ⟨c0, hc0, hmem, hb1, hb2⟩ := hl.1 (by omega)
          rw [hlk] at hc0; cases hc0; exact ⟨hmem, hb1, hb2⟩
        obtain ⟨hmem, hb1, hb2⟩ := hch
        have hoff : ch.off = nr := by
          have := hni ch hmem; omega
        have h3 := storeChunk_keeps (E := E) (u := u) c ⟨f.id, ch.off, ch.size⟩
        have h4 := storeChunk_stores (E := E) (u := u) c ⟨f.id, ch.off, ch.size⟩
        rcases hst : storeChunk E u c ⟨f.id, ch.off, ch.size⟩ with ⟨c1, ok⟩
        rw [hst] at h3 h4 hok
        cases ok with
        | false => simp at hok
        | true =>
          simp only [] at hok ⊢
          apply ih (nr + ch.size) c1
          · intro c' hc'
            rw [← hoff]
            exact contig_end_not_inside hf.contig ch c' hmem hc'
          · intro ch' hch' hlt'
            by_cases hbefore : ch'.off < nr
            · exact h3 _ (hdone ch' hch' hbefore)
            · have hb' := contig_mem_bounds hf.contig ch' hch'
              have : ch' = ch := contig_unique hf.contig ch'.off ch ch' hmem hch' (by omega) (by omega)
                (Nat.le_refl _) (by omega)
              subst this
              exact h4 rfl
          · exact hok
    · simp only [hlt, if_false]
      exact hfin (by omega)

theorem cacheFile_all {content : Nat → Bytes} {E : Env} {u : Under} {f : FileInfo} (hf : WF content f)
    (c : Cache) (hok : (cacheFile E u f c).2 = true) : AllCached f (cacheFile E u f c).1 := by
  unfold cacheFile at *
  apply cacheFileLoop_all hf
  · intro ch _ h; omega
  · intro ch _ h; omega
  · exact hok

theorem cacheFiltered_inv {content : Nat → Bytes} {E : Env} {u : Under} (hu : Honest content E u)
    (filter : Nat → Bool) :
    ∀ (fs : List FileInfo) (c : Cache),
      (CacheOK content c → CacheOK content (cacheFiltered E u filter fs c).1) ∧
      (CacheExact content c → CacheExact content (cacheFiltered E u filter fs c).1) ∧
      (∀ k, c k ≠ none → (cacheFiltered E u filter fs c).1 k ≠ none) := by
  intro fs
  induction fs with
  | nil => intro c; exact ⟨id, id, fun _ h => h⟩
  | cons f fs ih =>
    intro c
    unfold cacheFiltered
    by_cases hfl : filter f.firstOff = true
    · simp only [hfl, if_true]
      have h := cacheFileLoop_inv hu f (f.size + 1) 0 c
      unfold cacheFile
      rcases hst : cacheFileLoop E u f (f.size + 1) 0 c with ⟨c1, ok⟩
      rw [hst] at h
      cases ok with
      | false => exact h
      | true =>
        simp only []
        have := ih c1
        exact ⟨fun x => this.1 (h.1 x), fun x => this.2.1 (h.2.1 x), fun k x => this.2.2 k (h.2.2 k x)⟩
    · simp only [hfl]
      exact ih c

/-- After a successful `cacheWithReader` every chunk of every file that passes the filter is cached. -/
theorem cacheFiltered_all {content : Nat → Bytes} {E : Env} {u : Under} (hu : Honest content E u)
    (filter : Nat → Bool) :
    ∀ (fs : List FileInfo) (c : Cache), (∀ f ∈ fs, WF content f) →
      (cacheFiltered E u filter fs c).2 = true →
      ∀ f ∈ fs, filter f.firstOff = true → AllCached f (cacheFiltered E u filter fs c).1 := by
  intro fs
  induction fs with
  | nil => intro c _ _ f hf; cases hf
  | cons g gs ih =>
    intro c hwf hok f hfm hflt
    unfold cacheFiltered at hok ⊢
    by_cases hfl : filter g.firstOff = true
    · simp only [hfl, if_true] at hok ⊢
      have hall := cacheFile_all (E := E) (u := u) (hwf g (by simp)) c
      rcases hst : cacheFile E u g c with ⟨c1, ok⟩
      rw [hst] at hok hall
      cases ok with
      | false => simp at hok
      | true =>
        simp only [] at hok ⊢
        rcases List.mem_cons.mp hfm with heq | hin
        · subst heq
          intro ch hch
          exact (cacheFiltered_inv hu filter gs c1).2.2 _ (hall rfl ch hch)
        · exact ih c1 (fun x hx => hwf x (by simp [hx])) hok f hin hflt
    · simp only [hfl] at hok ⊢
      rcases List.mem_cons.mp hfm with heq | hin
      · subst heq; exact absurd hflt hfl
      · exact ih c (fun x hx => hwf x (by simp [hx])) hok f hin hflt

/-! ### histories -/

/-- What a history may contain: reads of well-formed files, stores; everything from below honest. -/
def OpOK (content : Nat → Bytes) (E : Env) : Op → Prop
  | .read f _ _ u => WF content f ∧ Honest content E u
  | .store _ u => Honest content E u
  | .cacheFiles _ _ u => Honest content E u
  | .evict _ => True
  | .truncate _ _ => True

theorem step_ok {content : Nat → Bytes} {E : Env} (c : Cache) (op : Op) (hop : OpOK content E op)
    (hc : CacheOK content c) : CacheOK content (step E c op).1 := by
  cases op with
  | read f off n u => exact (fileReadAt_exact hop.1 hop.2 c hc off n).1
  | store id u => exact storeChunk_ok hop c id hc
  | cacheFiles fl fs u => exact (cacheFiltered_inv hop fl fs c).1 hc
  | evict id => exact cacheOK_evict hc id
  | truncate id k => exact cacheOK_truncate hc id k

theorem runOps_ok {content : Nat → Bytes} {E : Env} :
    ∀ (ops : List Op) (c : Cache), (∀ op ∈ ops, OpOK content E op) → CacheOK content c →
      CacheOK content (runOps E ops c) := by
  intro ops
  induction ops with
  | nil => intro c _ h; exact h
  | cons op ops ih =>
    intro c hops hc
    unfold runOps
    exact ih _ (fun o ho => hops o (by simp [ho])) (step_ok c op (hops op (by simp)) hc)

/-- histories without truncation keep entries exact -/
def NoTrunc : Op → Prop
  | .truncate _ _ => False
  | _ => True

theorem step_exact {content : Nat → Bytes} {E : Env} (c : Cache) (op : Op) (hop : OpOK content E op)
    (hnt : NoTrunc op) (hc : CacheExact content c) : CacheExact content (step E c op).1 := by
  cases op with
  | read f off n u =>
    -- the read loop only changes the cache through fetchChunk
    show CacheExact content (fileReadAt E u f c off n).1
    unfold fileReadAt
    have : ∀ (fuel : Nat) (c : Cache) (acc : Bytes), CacheExact content c →
        CacheExact content (readLoop E u f off n fuel c acc).1 := by
      intro fuel
      induction fuel with
      | zero => intro c acc h; exact h
      | succ fuel ih =>
        intro c acc h
        unfold readLoop
        simp only []
        split
        · split
          · exact h
          · rename_i ch _
            split
            · exact h
            · have hfe := fetchChunk_exact hop.2 c ⟨f.id, ch.off, ch.size⟩ h
              split
              · exact ih _ _ h
              · split
                · rename_i c1 heq; rw [heq] at hfe; exact hfe
                · rename_i c1 b heq; rw [heq] at hfe
                  split
                  · exact ih _ _ hfe
                  · split
                    · exact hfe
                    · exact ih _ _ hfe
        · exact h
    exact this _ _ _ hc
  | store id u => exact storeChunk_exact hop c id hc
  | cacheFiles fl fs u => exact (cacheFiltered_inv hop fl fs c).2.1 hc
  | evict id => exact cacheExact_evict hc id
  | truncate id k => exact absurd hnt (by simp [NoTrunc])

theorem runOps_exact {content : Nat → Bytes} {E : Env} :
    ∀ (ops : List Op) (c : Cache), (∀ op ∈ ops, OpOK content E op ∧ NoTrunc op) → CacheExact content c →
      CacheExact content (runOps E ops c) := by
  intro ops
  induction ops with
  | nil => intro c _ h; exact h
  | cons op ops ih =>
    intro c hops hc
    unfold runOps
    exact ih _ (fun o ho => hops o (by simp [ho]))
      (step_exact c op (hops op (by simp)).1 (hops op (by simp)).2 hc)

end SV.LazyRead
