/-
Lemmas about the eStargz writer model (C03).  Core-only.
-/
import SV.Model.Writer

namespace SV.Writer

/-! ## Member lists -/

@[simp] theorem sumClen_nil : sumClen [] = 0 := rfl
@[simp] theorem sumClen_cons (m : Member) (ms : List Member) : sumClen (m :: ms) = m.clen + sumClen ms := rfl

@[simp] theorem sumClen_append (a b : List Member) : sumClen (a ++ b) = sumClen a + sumClen b := by
  induction a with
  | nil => simp
  | cons m a ih => simp [ih, Nat.add_assoc]

@[simp] theorem streamOf_nil : streamOf [] = [] := rfl
@[simp] theorem streamOf_cons (m : Member) (ms : List Member) : streamOf (m :: ms) = m.payload ++ streamOf ms := rfl

@[simp] theorem streamOf_append (a b : List Member) : streamOf (a ++ b) = streamOf a ++ streamOf b := by
  induction a with
  | nil => simp
  | cons m a ih => simp [ih]

def AllPos (ms : List Member) : Prop := ∀ m ∈ ms, 0 < m.clen

theorem findMember_at (init : List Member) (m : Member) (rest : List Member) (s : Nat)
    (h : AllPos init) : findMember (init ++ m :: rest) s (s + sumClen init) = some m := by
  induction init generalizing s with
  | nil => simp [findMember]
  | cons x init ih =>
    have hx : 0 < x.clen := h x (by simp)
    have h' : AllPos init := fun y hy => h y (by simp [hy])
    have hne : ¬ (s + sumClen (x :: init) = s) := by simp; omega
    simp only [List.cons_append, findMember, hne, if_false]
    have := ih (s + x.clen) h'
    rw [show s + sumClen (x :: init) = s + x.clen + sumClen init by simp; omega]
    exact this

/-- `e` reads `d` from the member list: some member starts exactly at `e.offset` and its payload
continues with `d` after `e.innerOffset` bytes. -/
def Good (ms : List Member) (e : TocEnt) (d : Bytes) : Prop :=
  ∃ init m rest, ms = init ++ m :: rest ∧ sumClen init = e.offset ∧ d <+: m.payload.drop e.innerOffset

/-- `b` extends `a`: every member of `a` is still there, at the same compressed offset, with a
payload that only grew. -/
def Ext (a b : List Member) : Prop :=
  ∀ init m rest, a = init ++ m :: rest →
    ∃ m' rest', b = init ++ m' :: rest' ∧ m.payload <+: m'.payload

theorem Ext.refl (a : List Member) : Ext a a :=
  fun init m rest h => ⟨m, rest, h, List.prefix_refl _⟩

theorem Ext.trans {a b c : List Member} (h1 : Ext a b) (h2 : Ext b c) : Ext a c := by
  intro init m rest h
  obtain ⟨m', rest', hb, hp⟩ := h1 init m rest h
  obtain ⟨m'', rest'', hc, hp'⟩ := h2 init m' rest' hb
  exact ⟨m'', rest'', hc, List.IsPrefix.trans hp hp'⟩

theorem Ext.append (a x : List Member) : Ext a (a ++ x) := by
  intro init m rest h
  exact ⟨m, rest ++ x, by simp [h], List.prefix_refl _⟩

theorem snoc_eq_split {α : Type} (c : List α) (m : α) (init : List α) (x : α) (rest : List α)
    (h : c ++ [m] = init ++ x :: rest) :
    (rest = [] ∧ init = c ∧ x = m) ∨ (∃ r0, rest = r0 ++ [m] ∧ c = init ++ x :: r0) := by
  induction c generalizing init with
  | nil =>
    cases init with
    | nil => simp at h; left; simp [h]
    | cons y init => simp at h
  | cons y c ih =>
    cases init with
    | nil =>
      simp at h
      right
      obtain ⟨h1, h2⟩ := h
      subst h1
      cases rest with
      | nil => simp at h2
      | cons z rest =>
        -- c ++ [m] = z :: rest  : rest' = dropLast ...
        have : ∃ r0, z :: rest = r0 ++ [m] ∧ c = r0 := ⟨c, h2.symm, rfl⟩
        obtain ⟨r0, hr, hc⟩ := this
        exact ⟨r0, hr, by simp [hc]⟩
    | cons z init =>
      simp at h
      obtain ⟨h1, h2⟩ := h
      subst h1
      rcases ih init h2 with ⟨hr, hi, hx⟩ | ⟨r0, hr, hc⟩
      · left; simp [hr, hi, hx]
      · right; exact ⟨r0, hr, by simp [hc]⟩

theorem Ext.snoc (c : List Member) (m m' : Member) (hp : m.payload <+: m'.payload) :
    Ext (c ++ [m]) (c ++ [m']) := by
  intro init x rest h
  rcases snoc_eq_split c m init x rest h with ⟨hr, hi, hx⟩ | ⟨r0, hr, hc⟩
  · subst hr hi hx
    exact ⟨m', [], rfl, hp⟩
  · subst hr hc
    exact ⟨x, r0 ++ [m'], by simp, List.prefix_refl _⟩

theorem prefix_drop {α} {a b : List α} (h : a <+: b) (n : Nat) : a.drop n <+: b.drop n := by
  obtain ⟨t, rfl⟩ := h
  rw [List.drop_append]
  exact List.prefix_append _ _

theorem Good.mono {a b : List Member} {e : TocEnt} {d : Bytes} (hg : Good a e d) (hx : Ext a b) :
    Good b e d := by
  obtain ⟨init, m, rest, ha, hs, hp⟩ := hg
  obtain ⟨m', rest', hb, hpp⟩ := hx init m rest ha
  exact ⟨init, m', rest', hb, hs, List.IsPrefix.trans hp (prefix_drop hpp _)⟩

theorem Good.shift {ms : List Member} {e : TocEnt} {d : Bytes} (hg : Good ms e d)
    (pre post : List Member) :
    Good (pre ++ ms ++ post) { e with offset := e.offset + sumClen pre } d := by
  obtain ⟨init, m, rest, ha, hs, hp⟩ := hg
  refine ⟨pre ++ init, m, rest ++ post, by simp [ha], ?_, hp⟩
  simp [hs]; omega

theorem take_of_prefix {d l : Bytes} (h : d <+: l) : l.take d.length = d := by
  obtain ⟨t, rfl⟩ := h
  simp

/-- From the invariant form to the executable reading rule. -/
theorem Good.specRead {ms : List Member} {e : TocEnt} {d : Bytes} {fs : Nat}
    (hg : Good ms e d) (hpos : AllPos ms) (hlen : d.length = effSize e fs) :
    specRead ms e fs = some d := by
  obtain ⟨init, m, rest, ha, hs, hp⟩ := hg
  have hpi : AllPos init := fun y hy => hpos y (by simp [ha, hy])
  have := findMember_at init m rest 0 hpi
  simp only [Nat.zero_add, hs] at this
  unfold SV.Writer.specRead
  rw [ha, this]
  simp only
  rw [← hlen, take_of_prefix hp]


/-! ## Writer invariants and single operations -/

/-- Bookkeeping invariant of a Writer that started empty. -/
structure Inv (w : W) : Prop where
  cw : w.cwN = sumClen w.view
  unc : w.uncN = (streamOf w.view).length
  pos : AllPos w.closed
  hash : w.hashed = streamOf w.view

/-- What `prevOffset` / `prevOffsetUncompressed` mean: the open stream starts at compressed offset
`prevOff` and `prevOffUnc` uncompressed bytes precede it - unless `MinChunkSize = 0`, where the two
locals are never read. -/
def LInv (P : Params) (w : W) (loc : Loc) : Prop :=
  P.minChunk = 0 ∨
    match w.cur with
    | some m => sumClen w.closed = loc.prevOff ∧ m.payload.length + loc.prevOffUnc = w.uncN
    | none => w.cwN = loc.prevOff ∧ w.uncN = loc.prevOffUnc

theorem inv_fresh (f c : List Nat) : Inv { orcF := f, orcC := c } := by
  constructor <;> simp [W.view, AllPos]

theorem linv_fresh (P : Params) (f c : List Nat) :
    LInv P { orcF := f, orcC := c } ⟨0, 0⟩ := by
  right; simp

/-- `w'` is reached from `w` by writing `bs` (plus flushes, closes, opens). -/
structure Tr (w w' : W) (bs : Bytes) : Prop where
  inv : Inv w'
  ext : Ext w.view w'.view
  stream : streamOf w'.view = streamOf w.view ++ bs

theorem Tr.rfl' {w : W} (h : Inv w) : Tr w w [] := ⟨h, Ext.refl _, by simp⟩

theorem Tr.trans {w w' w'' : W} {a b : Bytes} (h1 : Tr w w' a) (h2 : Tr w' w'' b) :
    Tr w w'' (a ++ b) :=
  ⟨h2.inv, Ext.trans h1.ext h2.ext, by rw [h2.stream, h1.stream, List.append_assoc]⟩

theorem condOpenGz_tr {w : W} (h : Inv w) : Tr w (condOpenGz w) [] := by
  obtain ⟨closed, cur, cwN, uncN, toc, hashed, orcF, orcC⟩ := w
  obtain ⟨h1, h2, h3, h4⟩ := h
  cases cur with
  | none =>
    simp [W.view] at h1 h2 h3 h4
    refine ⟨⟨?_, ?_, ?_, ?_⟩, ?_, ?_⟩ <;> simp [W.view, condOpenGz, *]
    exact Ext.append _ _
  | some m =>
    exact Tr.rfl' ⟨h1, h2, h3, h4⟩

theorem write_tr {w : W} (h : Inv w) (p : Bytes) : Tr w (write w p) p := by
  obtain ⟨closed, cur, cwN, uncN, toc, hashed, orcF, orcC⟩ := w
  obtain ⟨h1, h2, h3, h4⟩ := h
  cases cur with
  | none =>
    simp [W.view] at h1 h2 h3 h4
    refine ⟨⟨?_, ?_, ?_, ?_⟩, ?_, ?_⟩ <;> simp [W.view, write, *]
    exact Ext.append _ _
  | some m =>
    simp [W.view] at h1 h2 h3 h4
    refine ⟨⟨?_, ?_, ?_, ?_⟩, ?_, ?_⟩ <;> simp [W.view, write, *]
    · omega
    · exact Ext.snoc _ _ _ (List.prefix_append _ _)

theorem flushGz_tr {w : W} (h : Inv w) : Tr w (flushGz w) [] := by
  obtain ⟨closed, cur, cwN, uncN, toc, hashed, orcF, orcC⟩ := w
  obtain ⟨h1, h2, h3, h4⟩ := h
  cases cur with
  | none => exact Tr.rfl' ⟨h1, h2, h3, h4⟩
  | some m =>
    simp [W.view] at h1 h2 h3 h4
    refine ⟨⟨?_, ?_, ?_, ?_⟩, ?_, ?_⟩ <;> simp [W.view, flushGz, *]
    · omega
    · exact Ext.snoc _ _ _ (List.prefix_refl _)

theorem closeGz_tr {w : W} (h : Inv w) : Tr w (closeGz w) [] := by
  obtain ⟨closed, cur, cwN, uncN, toc, hashed, orcF, orcC⟩ := w
  obtain ⟨h1, h2, h3, h4⟩ := h
  cases cur with
  | none => exact Tr.rfl' ⟨h1, h2, h3, h4⟩
  | some m =>
    simp [W.view] at h1 h2 h3 h4
    refine ⟨⟨?_, ?_, ?_, ?_⟩, ?_, ?_⟩ <;> simp [W.view, closeGz, *]
    · omega
    · intro x hx
      simp at hx
      rcases hx with hx | hx
      · exact h3 x hx
      · subst hx; simp
    · exact Ext.snoc _ _ _ (List.prefix_refl _)

/-! ## The chunk loop -/

/-- The stream-boundary condition of the chunk loop. -/
def bndCond (P : Params) (name : String) (first : Bool) (w : W) (loc : Loc) : Bool :=
  (first && P.needsOpen.contains name) || decide (P.minChunk ≤ (flushGz w).cwN - loc.prevOff)

def mkEnt (P : Params) (name : String) (total : Nat) (first : Bool) (written off inner : Nat) : TocEnt :=
  ⟨name, if first then Kind.reg else Kind.chunk, if first then total else 0, off, inner, written,
   if total - written < P.chunk then 0 else P.chunk⟩

theorem chunkStep_bnd {P : Params} {name : String} {total : Nat} {first : Bool} {written : Nat}
    {ch : Bytes} {w : W} {loc : Loc} (h : bndCond P name first w loc = true) :
    chunkStep P name total first written ch w loc =
      (pushToc (write (condOpenGz (closeGz (flushGz w))) ch)
        (mkEnt P name total first written (closeGz (flushGz w)).cwN 0),
       ⟨(closeGz (flushGz w)).cwN, (closeGz (flushGz w)).uncN⟩) := by
  unfold bndCond at h
  simp only [chunkStep, h, if_true, mkEnt]

theorem chunkStep_same {P : Params} {name : String} {total : Nat} {first : Bool} {written : Nat}
    {ch : Bytes} {w : W} {loc : Loc} (h : bndCond P name first w loc = false) :
    chunkStep P name total first written ch w loc =
      (pushToc (write (condOpenGz (flushGz w)) ch)
        (mkEnt P name total first written loc.prevOff ((flushGz w).uncN - loc.prevOffUnc)), loc) := by
  unfold bndCond at h
  simp only [chunkStep, h, Bool.false_eq_true, if_false, mkEnt]

theorem chunkStep_spec (P : Params) (name : String) (total : Nat) (first : Bool) (written : Nat)
    (ch : Bytes) (w : W) (loc : Loc) (hinv : Inv w) (hl : LInv P w loc) (hopen : w.cur.isSome) :
    ∃ w' loc' e, chunkStep P name total first written ch w loc = (w', loc') ∧
      Tr w w' ch ∧ LInv P w' loc' ∧ w'.cur.isSome ∧
      w'.toc = w.toc ++ [e] ∧ e.name = name ∧
      e.typ = (if first then Kind.reg else Kind.chunk) ∧ e.size = (if first then total else 0) ∧
      e.chunkOffset = written ∧ e.chunkSize = (if total - written < P.chunk then 0 else P.chunk) ∧
      Good w'.view e ch := by
  cases hb : bndCond P name first w loc with
  | true =>
    rw [chunkStep_bnd hb]
    refine ⟨_, _, mkEnt P name total first written (closeGz (flushGz w)).cwN 0, rfl, ?_⟩
    obtain ⟨closed, cur, cwN, uncN, toc, hashed, orcF, orcC⟩ := w
    cases cur with
    | none => simp at hopen
    | some m =>
      obtain ⟨h1, h2, h3, h4⟩ := hinv
      simp [W.view] at h1 h2 h3 h4
      refine ⟨⟨⟨?_, ?_, ?_, ?_⟩, ?_, ?_⟩, ?_, ?_, ?_, rfl, rfl, rfl, rfl, rfl, ?_⟩
      · simp [W.view, flushGz, closeGz, condOpenGz, write, pushToc, *]; omega
      · simp [W.view, flushGz, closeGz, condOpenGz, write, pushToc, *]; omega
      · intro x hx
        simp [flushGz, closeGz, condOpenGz, write, pushToc] at hx
        rcases hx with hx | hx
        · exact h3 x hx
        · subst hx; simp
      · simp [W.view, flushGz, closeGz, condOpenGz, write, pushToc, *]
      · simp only [W.view, flushGz, closeGz, condOpenGz, write, pushToc, Option.toList_some]
        exact Ext.trans (Ext.snoc closed m ⟨m.payload, m.clen + orcF.headD 0 + orcC.headD 0 + 1⟩ (List.prefix_refl _)) (Ext.append _ _)
      · simp [W.view, flushGz, closeGz, condOpenGz, write, pushToc]
      · right
        simp [flushGz, closeGz, condOpenGz, write, pushToc]
        omega
      · simp [flushGz, closeGz, condOpenGz, write, pushToc]
      · simp [flushGz, closeGz, condOpenGz, write, pushToc]
      · simp only [W.view, flushGz, closeGz, condOpenGz, write, pushToc, Option.toList_some, mkEnt]
        refine ⟨closed ++ [⟨m.payload, m.clen + orcF.headD 0 + orcC.headD 0 + 1⟩], ⟨[] ++ ch, 0⟩, [], by simp, ?_, by simp⟩
        simp [h1]; omega
  | false =>
    rw [chunkStep_same hb]
    refine ⟨_, _, mkEnt P name total first written loc.prevOff ((flushGz w).uncN - loc.prevOffUnc), rfl, ?_⟩
    obtain ⟨closed, cur, cwN, uncN, toc, hashed, orcF, orcC⟩ := w
    cases cur with
    | none => simp at hopen
    | some m =>
      obtain ⟨h1, h2, h3, h4⟩ := hinv
      simp [W.view] at h1 h2 h3 h4
      have hmin : P.minChunk ≠ 0 := by
        intro h0
        simp [bndCond, h0] at hb
      have hl' : sumClen closed = loc.prevOff ∧ m.payload.length + loc.prevOffUnc = uncN := by
        rcases hl with hl | hl
        · exact absurd hl hmin
        · simpa using hl
      refine ⟨⟨⟨?_, ?_, ?_, ?_⟩, ?_, ?_⟩, ?_, ?_, ?_, rfl, rfl, rfl, rfl, rfl, ?_⟩
      · simp [W.view, flushGz, closeGz, condOpenGz, write, pushToc, *]; omega
      · simp [W.view, flushGz, closeGz, condOpenGz, write, pushToc, *]; omega
      · simpa [flushGz, closeGz, condOpenGz, write, pushToc] using h3
      · simp [W.view, flushGz, closeGz, condOpenGz, write, pushToc, *]
      · simp only [W.view, flushGz, closeGz, condOpenGz, write, pushToc, Option.toList_some]
        exact Ext.snoc _ _ _ (List.prefix_append _ _)
      · simp [W.view, flushGz, closeGz, condOpenGz, write, pushToc]
      · right
        simp [flushGz, closeGz, condOpenGz, write, pushToc]
        omega
      · simp [flushGz, closeGz, condOpenGz, write, pushToc]
      · simp [flushGz, closeGz, condOpenGz, write, pushToc]
      · simp only [W.view, flushGz, closeGz, condOpenGz, write, pushToc, Option.toList_some, mkEnt]
        refine ⟨closed, ⟨m.payload ++ ch, _⟩, [], rfl, hl'.1, ?_⟩
        have : uncN - loc.prevOffUnc = m.payload.length := by omega
        simp [this]

end SV.Writer
