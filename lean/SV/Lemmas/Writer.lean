/-
Lemmas about the eStargz writer model (C03).  Core-only.
-/
import SV.Model.Writer

namespace SV.Writer

/-! ## Member lists -/

@[simp] theorem sumClen_nil : sumClen [] = 0 := rfl
@[simp] theorem sumClen_cons (m : Member) (ms : List Member) : sumClen (m :: ms) = m.clen + sumClen ms := rfl

@[simp] theorem sumClen_append (a b : List Member) : sumClen (a ++ b) = sumClen a + sumClen b := by
  induction a with
  | nil => simp
  | cons m a ih => simp [ih, Nat.add_assoc]

@[simp] theorem streamOf_nil : streamOf [] = [] := rfl
@[simp] theorem streamOf_cons (m : Member) (ms : List Member) : streamOf (m :: ms) = m.payload ++ streamOf ms := rfl

@[simp] theorem streamOf_append (a b : List Member) : streamOf (a ++ b) = streamOf a ++ streamOf b := by
  induction a with
  | nil => simp
  | cons m a ih => simp [ih]

def AllPos (ms : List Member) : Prop := ∀ m ∈ ms, 0 < m.clen

theorem findMember_at (init : List Member) (m : Member) (rest : List Member) (s : Nat)
    (h : AllPos init) : findMember (init ++ m :: rest) s (s + sumClen init) = some m := by
  induction init generalizing s with
  | nil => simp [findMember]
  | cons x init ih =>
    have hx : 0 < x.clen := h x (by simp)
    have h' : AllPos init := fun y hy => h y (by simp [hy])
    have hne : ¬ (s + sumClen (x :: init) = s) := by simp; omega
    simp only [List.cons_append, findMember, hne, if_false]
    have := ih (s + x.clen) h'
    rw [show s + sumClen (x :: init) = s + x.clen + sumClen init by simp; omega]
    exact this

/-- `e` reads `d` from the member list: some member starts exactly at `e.offset` and its payload
continues with `d` after `e.innerOffset` bytes. -/
def Good (ms : List Member) (e : TocEnt) (d : Bytes) : Prop :=
  ∃ init m rest, ms = init ++ m :: rest ∧ sumClen init = e.offset ∧ d <+: m.payload.drop e.innerOffset

/-- `b` extends `a`: every member of `a` is still there, at the same compressed offset, with a
payload that only grew. -/
def Ext (a b : List Member) : Prop :=
  ∀ init m rest, a = init ++ m :: rest →
    ∃ m' rest', b = init ++ m' :: rest' ∧ m.payload <+: m'.payload

theorem Ext.refl (a : List Member) : Ext a a :=
  fun init m rest h => ⟨m, rest, h, List.prefix_refl _⟩

theorem Ext.trans {a b c : List Member} (h1 : Ext a b) (h2 : Ext b c) : Ext a c := by
  intro init m rest h
  obtain ⟨m', rest', hb, hp⟩ := h1 init m rest h
  obtain ⟨m'', rest'', hc, hp'⟩ := h2 init m' rest' hb
  exact ⟨m'', rest'', hc, List.IsPrefix.trans hp hp'⟩

theorem Ext.append (a x : List Member) : Ext a (a ++ x) := by
  intro init m rest h
  exact ⟨m, rest ++ x, by simp [h], List.prefix_refl _⟩

theorem snoc_eq_split {α : Type} (c : List α) (m : α) (init : List α) (x : α) (rest : List α)
    (h : c ++ [m] = init ++ x :: rest) :
    (rest = [] ∧ init = c ∧ x = m) ∨ (∃ r0, rest = r0 ++ [m] ∧ c = init ++ x :: r0) := by
  induction c generalizing init with
  | nil =>
    cases init with
    | nil => simp at h; left; simp [h]
    | cons y init => simp at h
  | cons y c ih =>
    cases init with
    | nil =>
      simp at h
      right
      obtain ⟨h1, h2⟩ := h
      subst h1
      cases rest with
      | nil => simp at h2
      | cons z rest =>
        -- c ++ [m] = z :: rest  : rest' = dropLast ...
        have : ∃ r0, z :: rest = r0 ++ [m] ∧ c = r0 := ⟨c, h2.symm, rfl⟩
        obtain ⟨r0, hr, hc⟩ := this
        exact ⟨r0, hr, by simp [hc]⟩
    | cons z init =>
      simp at h
      obtain ⟨h1, h2⟩ := h
      subst h1
      rcases ih init h2 with ⟨hr, hi, hx⟩ | ⟨r0, hr, hc⟩
      · left; simp [hr, hi, hx]
      · right; exact ⟨r0, hr, by simp [hc]⟩

theorem Ext.snoc (c : List Member) (m m' : Member) (hp : m.payload <+: m'.payload) :
    Ext (c ++ [m]) (c ++ [m']) := by
  intro init x rest h
  rcases snoc_eq_split c m init x rest h with ⟨hr, hi, hx⟩ | ⟨r0, hr, hc⟩
  · subst hr hi hx
    exact ⟨m', [], rfl, hp⟩
  · subst hr hc
    exact ⟨x, r0 ++ [m'], by simp, List.prefix_refl _⟩

theorem prefix_drop {α} {a b : List α} (h : a <+: b) (n : Nat) : a.drop n <+: b.drop n := by
  obtain ⟨t, rfl⟩ := h
  rw [List.drop_append]
  exact List.prefix_append _ _

theorem Good.mono {a b : List Member} {e : TocEnt} {d : Bytes} (hg : Good a e d) (hx : Ext a b) :
    Good b e d := by
  obtain ⟨init, m, rest, ha, hs, hp⟩ := hg
  obtain ⟨m', rest', hb, hpp⟩ := hx init m rest ha
  exact ⟨init, m', rest', hb, hs, List.IsPrefix.trans hp (prefix_drop hpp _)⟩

theorem Good.shift {ms : List Member} {e : TocEnt} {d : Bytes} (hg : Good ms e d)
    (pre post : List Member) :
    Good (pre ++ ms ++ post) { e with offset := e.offset + sumClen pre } d := by
  obtain ⟨init, m, rest, ha, hs, hp⟩ := hg
  refine ⟨pre ++ init, m, rest ++ post, by simp [ha], ?_, hp⟩
  simp [hs]; omega

theorem take_of_prefix {d l : Bytes} (h : d <+: l) : l.take d.length = d := by
  obtain ⟨t, rfl⟩ := h
  simp

/-- From the invariant form to the executable reading rule. -/
theorem Good.specRead {ms : List Member} {e : TocEnt} {d : Bytes} {fs : Nat}
    (hg : Good ms e d) (hpos : AllPos ms) (hlen : d.length = effSize e fs) :
    specRead ms e fs = some d := by
  obtain ⟨init, m, rest, ha, hs, hp⟩ := hg
  have hpi : AllPos init := fun y hy => hpos y (by simp [ha, hy])
  have := findMember_at init m rest 0 hpi
  simp only [Nat.zero_add, hs] at this
  unfold SV.Writer.specRead
  rw [ha, this]
  simp only
  rw [← hlen, take_of_prefix hp]


/-! ## Writer invariants and single operations -/

/-- Bookkeeping invariant of a Writer that started empty. -/
structure Inv (w : W) : Prop where
  cw : w.cwN = sumClen w.view
  unc : w.uncN = (streamOf w.view).length
  pos : AllPos w.closed
  hash : w.hashed = streamOf w.view

/-- What `prevOffset` / `prevOffsetUncompressed` mean: the open stream starts at compressed offset
`prevOff` and `prevOffUnc` uncompressed bytes precede it - unless `MinChunkSize = 0`, where the two
locals are never read. -/
def LInv (P : Params) (w : W) (loc : Loc) : Prop :=
  P.minChunk = 0 ∨
    match w.cur with
    | some m => sumClen w.closed = loc.prevOff ∧ m.payload.length + loc.prevOffUnc = w.uncN
    | none => w.cwN = loc.prevOff ∧ w.uncN = loc.prevOffUnc

theorem inv_fresh (f c : List Nat) : Inv { orcF := f, orcC := c } := by
  constructor <;> simp [W.view, AllPos]

theorem linv_fresh (P : Params) (f c : List Nat) :
    LInv P { orcF := f, orcC := c } ⟨0, 0⟩ := by
  right; simp

/-- `w'` is reached from `w` by writing `bs` (plus flushes, closes, opens). -/
structure Tr (w w' : W) (bs : Bytes) : Prop where
  inv : Inv w'
  ext : Ext w.view w'.view
  stream : streamOf w'.view = streamOf w.view ++ bs

theorem Tr.rfl' {w : W} (h : Inv w) : Tr w w [] := ⟨h, Ext.refl _, by simp⟩

theorem Tr.trans {w w' w'' : W} {a b : Bytes} (h1 : Tr w w' a) (h2 : Tr w' w'' b) :
    Tr w w'' (a ++ b) :=
  ⟨h2.inv, Ext.trans h1.ext h2.ext, by rw [h2.stream, h1.stream, List.append_assoc]⟩

theorem condOpenGz_tr {w : W} (h : Inv w) : Tr w (condOpenGz w) [] := by
  obtain ⟨closed, cur, cwN, uncN, toc, hashed, orcF, orcC⟩ := w
  obtain ⟨h1, h2, h3, h4⟩ := h
  cases cur with
  | none =>
    simp [W.view] at h1 h2 h3 h4
    refine ⟨⟨?_, ?_, ?_, ?_⟩, ?_, ?_⟩ <;> simp [W.view, condOpenGz, *]
    exact Ext.append _ _
  | some m =>
    exact Tr.rfl' ⟨h1, h2, h3, h4⟩

theorem write_tr {w : W} (h : Inv w) (p : Bytes) : Tr w (write w p) p := by
  obtain ⟨closed, cur, cwN, uncN, toc, hashed, orcF, orcC⟩ := w
  obtain ⟨h1, h2, h3, h4⟩ := h
  cases cur with
  | none =>
    simp [W.view] at h1 h2 h3 h4
    refine ⟨⟨?_, ?_, ?_, ?_⟩, ?_, ?_⟩ <;> simp [W.view, write, *]
    exact Ext.append _ _
  | some m =>
    simp [W.view] at h1 h2 h3 h4
    refine ⟨⟨?_, ?_, ?_, ?_⟩, ?_, ?_⟩ <;> simp [W.view, write, *]
    · omega
    · exact Ext.snoc _ _ _ (List.prefix_append _ _)

theorem flushGz_tr {w : W} (h : Inv w) : Tr w (flushGz w) [] := by
  obtain ⟨closed, cur, cwN, uncN, toc, hashed, orcF, orcC⟩ := w
  obtain ⟨h1, h2, h3, h4⟩ := h
  cases cur with
  | none => exact Tr.rfl' ⟨h1, h2, h3, h4⟩
  | some m =>
    simp [W.view] at h1 h2 h3 h4
    refine ⟨⟨?_, ?_, ?_, ?_⟩, ?_, ?_⟩ <;> simp [W.view, flushGz, *]
    · omega
    · exact Ext.snoc _ _ _ (List.prefix_refl _)

theorem closeGz_tr {w : W} (h : Inv w) : Tr w (closeGz w) [] := by
  obtain ⟨closed, cur, cwN, uncN, toc, hashed, orcF, orcC⟩ := w
  obtain ⟨h1, h2, h3, h4⟩ := h
  cases cur with
  | none => exact Tr.rfl' ⟨h1, h2, h3, h4⟩
  | some m =>
    simp [W.view] at h1 h2 h3 h4
    refine ⟨⟨?_, ?_, ?_, ?_⟩, ?_, ?_⟩ <;> simp [W.view, closeGz, *]
    · omega
    · intro x hx
      simp at hx
      rcases hx with hx | hx
      · exact h3 x hx
      · subst hx; simp
    · exact Ext.snoc _ _ _ (List.prefix_refl _)

/-! ## The chunk loop -/

/-- The stream-boundary condition of the chunk loop. -/
def bndCond (P : Params) (name : String) (first : Bool) (w : W) (loc : Loc) : Bool :=
  (first && P.needsOpen.contains name) || decide (P.minChunk ≤ (flushGz w).cwN - loc.prevOff)

def mkEnt (P : Params) (name : String) (total : Nat) (first : Bool) (written off inner : Nat) : TocEnt :=
  ⟨name, if first then Kind.reg else Kind.chunk, if first then total else 0, off, inner, written,
   if total - written < P.chunk then 0 else P.chunk⟩

theorem chunkStep_bnd {P : Params} {name : String} {total : Nat} {first : Bool} {written : Nat}
    {ch : Bytes} {w : W} {loc : Loc} (h : bndCond P name first w loc = true) :
    chunkStep P name total first written ch w loc =
      (pushToc (write (condOpenGz (closeGz (flushGz w))) ch)
        (mkEnt P name total first written (closeGz (flushGz w)).cwN 0),
       ⟨(closeGz (flushGz w)).cwN, (closeGz (flushGz w)).uncN⟩) := by
  unfold bndCond at h
  simp only [chunkStep, h, if_true, mkEnt]

theorem chunkStep_same {P : Params} {name : String} {total : Nat} {first : Bool} {written : Nat}
    {ch : Bytes} {w : W} {loc : Loc} (h : bndCond P name first w loc = false) :
    chunkStep P name total first written ch w loc =
      (pushToc (write (condOpenGz (flushGz w)) ch)
        (mkEnt P name total first written loc.prevOff ((flushGz w).uncN - loc.prevOffUnc)), loc) := by
  unfold bndCond at h
  simp only [chunkStep, h, Bool.false_eq_true, if_false, mkEnt]

theorem chunkStep_spec (P : Params) (name : String) (total : Nat) (first : Bool) (written : Nat)
    (ch : Bytes) (w : W) (loc : Loc) (s : Prop) (hinv : Inv w) (hl : s → LInv P w loc)
    (hopen : w.cur.isSome) :
    ∃ w' loc' e, chunkStep P name total first written ch w loc = (w', loc') ∧
      Tr w w' ch ∧ (s → LInv P w' loc') ∧ w'.cur.isSome ∧
      w'.toc = w.toc ++ [e] ∧ e.name = name ∧
      e.typ = (if first then Kind.reg else Kind.chunk) ∧ e.size = (if first then total else 0) ∧
      e.chunkOffset = written ∧ e.chunkSize = (if total - written < P.chunk then 0 else P.chunk) ∧
      (s → Good w'.view e ch) := by
  cases hb : bndCond P name first w loc with
  | true =>
    rw [chunkStep_bnd hb]
    refine ⟨_, _, mkEnt P name total first written (closeGz (flushGz w)).cwN 0, rfl, ?_⟩
    obtain ⟨closed, cur, cwN, uncN, toc, hashed, orcF, orcC⟩ := w
    cases cur with
    | none => simp at hopen
    | some m =>
      obtain ⟨h1, h2, h3, h4⟩ := hinv
      simp [W.view] at h1 h2 h3 h4
      refine ⟨⟨⟨?_, ?_, ?_, ?_⟩, ?_, ?_⟩, ?_, ?_, ?_, rfl, rfl, rfl, rfl, rfl, ?_⟩
      · simp [W.view, flushGz, closeGz, condOpenGz, write, pushToc, *]; omega
      · simp [W.view, flushGz, closeGz, condOpenGz, write, pushToc, *]; omega
      · intro x hx
        simp [flushGz, closeGz, condOpenGz, write, pushToc] at hx
        rcases hx with hx | hx
        · exact h3 x hx
        · subst hx; simp
      · simp [W.view, flushGz, closeGz, condOpenGz, write, pushToc, *]
      · simp only [W.view, flushGz, closeGz, condOpenGz, write, pushToc, Option.toList_some]
        exact Ext.trans (Ext.snoc closed m ⟨m.payload, m.clen + orcF.headD 0 + orcC.headD 0 + 1⟩ (List.prefix_refl _)) (Ext.append _ _)
      · simp [W.view, flushGz, closeGz, condOpenGz, write, pushToc]
      · intro _
        right
        simp [flushGz, closeGz, condOpenGz, write, pushToc]
        omega
      · simp [flushGz, closeGz, condOpenGz, write, pushToc]
      · simp [flushGz, closeGz, condOpenGz, write, pushToc]
      · intro _
        simp only [W.view, flushGz, closeGz, condOpenGz, write, pushToc, Option.toList_some, mkEnt]
        refine ⟨closed ++ [⟨m.payload, m.clen + orcF.headD 0 + orcC.headD 0 + 1⟩], ⟨[] ++ ch, 0⟩, [], by simp, ?_, by simp⟩
        simp [h1]; omega
  | false =>
    rw [chunkStep_same hb]
    refine ⟨_, _, mkEnt P name total first written loc.prevOff ((flushGz w).uncN - loc.prevOffUnc), rfl, ?_⟩
    obtain ⟨closed, cur, cwN, uncN, toc, hashed, orcF, orcC⟩ := w
    cases cur with
    | none => simp at hopen
    | some m =>
      obtain ⟨h1, h2, h3, h4⟩ := hinv
      simp [W.view] at h1 h2 h3 h4
      have hmin : P.minChunk ≠ 0 := by
        intro h0
        simp [bndCond, h0] at hb
      have hl' : s → sumClen closed = loc.prevOff ∧ m.payload.length + loc.prevOffUnc = uncN := by
        intro hs
        rcases hl hs with hl | hl
        · exact absurd hl hmin
        · simpa using hl
      refine ⟨⟨⟨?_, ?_, ?_, ?_⟩, ?_, ?_⟩, ?_, ?_, ?_, rfl, rfl, rfl, rfl, rfl, ?_⟩
      · simp [W.view, flushGz, closeGz, condOpenGz, write, pushToc, *]; omega
      · simp [W.view, flushGz, closeGz, condOpenGz, write, pushToc, *]; omega
      · simpa [flushGz, closeGz, condOpenGz, write, pushToc] using h3
      · simp [W.view, flushGz, closeGz, condOpenGz, write, pushToc, *]
      · simp only [W.view, flushGz, closeGz, condOpenGz, write, pushToc, Option.toList_some]
        exact Ext.snoc _ _ _ (List.prefix_append _ _)
      · simp [W.view, flushGz, closeGz, condOpenGz, write, pushToc]
      · intro hs
        have hl' := hl' hs
        right
        simp [flushGz, closeGz, condOpenGz, write, pushToc]
        omega
      · simp [flushGz, closeGz, condOpenGz, write, pushToc]
      · simp [flushGz, closeGz, condOpenGz, write, pushToc]
      · intro hs
        have hl' := hl' hs
        simp only [W.view, flushGz, closeGz, condOpenGz, write, pushToc, Option.toList_some, mkEnt]
        refine ⟨closed, ⟨m.payload ++ ch, _⟩, [], rfl, hl'.1, ?_⟩
        have : uncN - loc.prevOffUnc = m.payload.length := by omega
        simp [this]


/-- The TOC entries of one regular file: a `reg` entry first, then `chunk`s, all with the file's
name, contiguous from `pos`, none empty, ending exactly at `total`. -/
def Group (name : String) (total : Nat) : Bool → Nat → List TocEnt → Prop
  | _, pos, [] => pos = total
  | first, pos, e :: es =>
    e.name = name ∧ e.typ = (if first then Kind.reg else Kind.chunk) ∧
    e.size = (if first then total else 0) ∧ e.chunkOffset = pos ∧ 0 < effSize e total ∧
    pos + effSize e total ≤ total ∧ Group name total false (pos + effSize e total) es

theorem chunkLoop_spec (P : Params) (hc : 0 < P.chunk) (name : String) (data : Bytes) (s : Prop) :
    ∀ (fuel : Nat) (rest : Bytes) (written : Nat) (first : Bool) (w : W) (loc : Loc),
      Inv w → (s → LInv P w loc) → w.cur.isSome → rest = data.drop written → written ≤ data.length →
      data.length - written ≤ fuel →
      ∃ w' loc' g, chunkLoop P name data.length fuel rest written first w loc = (w', loc') ∧
        Tr w w' rest ∧ (s → LInv P w' loc') ∧ w'.cur.isSome ∧ w'.toc = w.toc ++ g ∧
        Group name data.length first written g ∧ ∀ e ∈ g, s → Good w'.view e (expect data e) := by
  intro fuel
  induction fuel with
  | zero =>
    intro rest written first w loc hinv hl hopen hrest hle hfuel
    have hw : written = data.length := by omega
    refine ⟨w, loc, [], rfl, ?_, hl, hopen, by simp, by simp [Group, hw], by simp⟩
    subst hrest; rw [hw]; simpa using Tr.rfl' hinv
  | succ fuel ih =>
    intro rest written first w loc hinv hl hopen hrest hle hfuel
    unfold chunkLoop
    by_cases hlt : written < data.length
    · simp only [hlt, if_true]
      generalize hn : (if data.length - written < P.chunk then data.length - written else P.chunk) = n
      have hn0 : 0 < n := by subst hn; split <;> omega
      have hnle : written + n ≤ data.length := by subst hn; split <;> omega
      obtain ⟨w1, loc1, e, hstep, htr1, hl1, hopen1, htoc1, hname, htyp, hsize, hco, hcs, hgood⟩ :=
        chunkStep_spec P name data.length first written (rest.take n) w loc s hinv hl hopen
      rw [hstep]
      have hrest' : rest.drop n = data.drop (written + n) := by
        subst hrest; rw [List.drop_drop]
      obtain ⟨w', loc', g, hloop, htr, hl', hopen', htoc', hgrp, hgoods⟩ :=
        ih (rest.drop n) (written + n) false w1 loc1 htr1.inv hl1 hopen1 hrest' hnle (by omega)
      have heff : effSize e data.length = n := by
        unfold effSize
        rw [hcs, hco]
        subst hn
        by_cases h1 : data.length - written < P.chunk
        · simp [h1]
        · simp only [h1, if_false]
          have : P.chunk ≠ 0 := by omega
          simp [this]
      refine ⟨w', loc', e :: g, hloop, ?_, hl', hopen', ?_, ?_, ?_⟩
      · have := Tr.trans htr1 htr
        rwa [List.take_append_drop] at this
      · rw [htoc', htoc1]; simp
      · simp only [Group]
        refine ⟨hname, htyp, hsize, hco, ?_, ?_, ?_⟩
        · omega
        · omega
        · rw [heff]; exact hgrp
      · intro e' he' hs
        simp at he'
        rcases he' with rfl | he'
        · have hexp : expect data e' = rest.take n := by
            unfold expect
            rw [heff, hco, hrest]
          rw [hexp]
          exact Good.mono (hgood hs) htr.ext
        · exact hgoods e' he' hs
    · simp only [hlt, if_false]
      have hw : written = data.length := by omega
      refine ⟨w, loc, [], rfl, ?_, hl, hopen, by simp, by simp [Group, hw], by simp⟩
      subst hrest; rw [hw]; simpa using Tr.rfl' hinv


/-! ## Entries -/

theorem linv_write {P : Params} {w : W} {loc : Loc} (hinv : Inv w) (hl : LInv P w loc) (p : Bytes) :
    LInv P (write w p) loc := by
  rcases hl with hl | hl
  · exact Or.inl hl
  · right
    obtain ⟨closed, cur, cwN, uncN, toc, hashed, orcF, orcC⟩ := w
    obtain ⟨h1, h2, h3, h4⟩ := hinv
    cases cur with
    | none =>
      simp [W.view] at h1 h2 h3 h4 hl
      simp [write]
      omega
    | some m =>
      simp [W.view] at h1 h2 h3 h4 hl
      simp [write]
      omega

theorem linv_condOpenGz {P : Params} {w : W} {loc : Loc} (hinv : Inv w) (hl : LInv P w loc) :
    LInv P (condOpenGz w) loc := by
  rcases hl with hl | hl
  · exact Or.inl hl
  · right
    obtain ⟨closed, cur, cwN, uncN, toc, hashed, orcF, orcC⟩ := w
    obtain ⟨h1, h2, h3, h4⟩ := hinv
    cases cur with
    | none =>
      simp [W.view] at h1 h2 h3 h4 hl
      simp [condOpenGz]
      omega
    | some m => simpa [condOpenGz] using hl

theorem linv_pushToc {P : Params} {w : W} {loc : Loc} (hl : LInv P w loc) (e : TocEnt) :
    LInv P (pushToc w e) loc := hl

theorem write_cur (w : W) (p : Bytes) : (write w p).cur.isSome := by
  unfold write
  cases hc : w.cur <;> simp

theorem write_toc (w : W) (p : Bytes) : (write w p).toc = w.toc := by
  unfold write
  cases hc : w.cur <;> simp

theorem condOpenGz_toc (w : W) : (condOpenGz w).toc = w.toc := by
  unfold condOpenGz
  cases hc : w.cur <;> simp

theorem pushToc_tr {w w' : W} {bs : Bytes} (h : Tr w w' bs) (e : TocEnt) : Tr w (pushToc w' e) bs :=
  ⟨⟨h.inv.cw, h.inv.unc, h.inv.pos, h.inv.hash⟩, h.ext, h.stream⟩

/-- The bytes one (non-skipped) entry contributes to the uncompressed stream. -/
def entBytes (e : TarEnt) : Bytes := e.pre ++ ((if e.typ = .reg then e.data else []) ++ e.post)

/-- The TOC entries one (non-skipped) tar entry produces. -/
def EntryToc (e : TarEnt) (g : List TocEnt) : Prop :=
  supported e.typ = true ∧
  if e.typ = .reg ∧ e.data ≠ [] then Group e.name e.data.length true 0 g
  else g = [⟨e.name, e.typ, 0, 0, 0, 0, 0⟩]

theorem group_bounds {name : String} {total : Nat} :
    ∀ {first : Bool} {pos : Nat} {g : List TocEnt}, Group name total first pos g →
      ∀ x ∈ g, x.name = name ∧ x.isData = true ∧ 0 < effSize x total ∧ x.chunkOffset + effSize x total ≤ total := by
  intro first pos g
  induction g generalizing first pos with
  | nil => intro _ x hx; simp at hx
  | cons e es ih =>
    intro hg x hx
    simp only [Group] at hg
    obtain ⟨h1, h2, h3, h4, h5, h6, h7⟩ := hg
    simp at hx
    rcases hx with rfl | hx
    · refine ⟨h1, ?_, h5, by omega⟩
      unfold TocEnt.isData
      cases first
      · simp at h2; simp [h2]
      · simp at h2 h3
        have : 0 < total := by omega
        simp [h2, h3, this]
    · exact ih h7 x hx

theorem appendEntry_spec (P : Params) (hc : 0 < P.chunk) (w : W) (loc : Loc) (e : TarEnt)
    (w' : W) (loc' : Loc) (s : Prop) (hinv : Inv w) (hl : s → LInv P w loc)
    (h : appendEntry P (w, loc) e = some (w', loc')) :
    (e.isToc = true ∧ w' = w ∧ loc' = loc ∧ P.lossless = false) ∨
    (e.isToc = false ∧ supported e.typ = true ∧ Tr w w' (entBytes e) ∧ (s → LInv P w' loc') ∧
      ∃ g, w'.toc = w.toc ++ g ∧ EntryToc e g ∧
        ∀ x ∈ g, x.isData = true → e.typ = .reg ∧ x.name = e.name ∧ (s → Good w'.view x (expect e.data x)) ∧
          0 < effSize x e.data.length ∧ x.chunkOffset + effSize x e.data.length ≤ e.data.length) := by
  unfold appendEntry at h
  by_cases htoc : e.isToc = true
  · left
    simp only [htoc, if_true] at h
    by_cases hll : P.lossless = true
    · simp [hll] at h
    · simp only [hll] at h
      simp at h
      simp at hll
      exact ⟨htoc, h.1.symm, h.2.symm, hll⟩
  · right
    simp only [htoc] at h
    simp only [Bool.false_eq_true, if_false] at h
    by_cases hsup : supported e.typ = false
    · simp [hsup] at h
    · simp only [hsup, if_false] at h
      have htr0 : Tr w (write (condOpenGz w) e.pre) e.pre := by
        have := Tr.trans (condOpenGz_tr hinv) (write_tr (condOpenGz_tr hinv).inv e.pre)
        simpa using this
      have hl0 : s → LInv P (write (condOpenGz w) e.pre) loc :=
        fun hs => linv_write (condOpenGz_tr hinv).inv (linv_condOpenGz hinv (hl hs)) e.pre
      have hopen0 := write_cur (condOpenGz w) e.pre
      refine ⟨by simpa using htoc, by simpa using hsup, ?_⟩
      by_cases hreg : e.typ = .reg ∧ e.data ≠ []
      · simp only [hreg, ne_eq, not_false_eq_true, and_self, if_true] at h
        obtain ⟨w2, loc2, g, hloop, htr, hl2, hopen2, htoc2, hgrp, hgoods⟩ :=
          chunkLoop_spec P hc e.name e.data s (e.data.length + 1) e.data 0 true _ loc htr0.inv hl0 hopen0
            (by simp) (by omega) (by omega)
        rw [hloop] at h
        simp at h
        obtain ⟨hw', hloc'⟩ := h
        subst hw' hloc'
        have htr3 := write_tr htr.inv e.post
        refine ⟨?_, fun hs => linv_write htr.inv (hl2 hs) e.post, g, ?_, ?_, ?_⟩
        · have := Tr.trans (Tr.trans htr0 htr) htr3
          simpa [entBytes, hreg.1] using this
        · rw [write_toc, htoc2, write_toc, condOpenGz_toc]
        · exact ⟨by simpa using hsup, by simp [hreg, hgrp]⟩
        · intro x hx _
          obtain ⟨hn, _, hp, hb⟩ := group_bounds hgrp x hx
          exact ⟨hreg.1, hn, fun hs => Good.mono (hgoods x hx hs) htr3.ext, hp, by simpa using hb⟩
      · simp only [hreg, if_false] at h
        simp at h
        obtain ⟨hw', hloc'⟩ := h
        subst hw' hloc'
        have htr1 := pushToc_tr htr0 ⟨e.name, e.typ, 0, 0, 0, 0, 0⟩
        have htr3 := write_tr htr1.inv e.post
        refine ⟨?_, fun hs => linv_write htr1.inv (linv_pushToc (hl0 hs) _) e.post, [⟨e.name, e.typ, 0, 0, 0, 0, 0⟩], ?_, ?_, ?_⟩
        · have := Tr.trans htr1 htr3
          have hd : (if e.typ = .reg then e.data else []) = [] := by
            by_cases h1 : e.typ = .reg
            · have : e.data = [] := by
                by_cases h2 : e.data = []
                · exact h2
                · exact absurd ⟨h1, h2⟩ hreg
              simp [h1, this]
            · simp [h1]
          simpa [entBytes, hd] using this
        · rw [write_toc]; simp [pushToc, write_toc, condOpenGz_toc]
        · exact ⟨by simpa using hsup, by simp [hreg]⟩
        · intro x hx hd
          simp at hx
          subst hx
          exfalso
          unfold TocEnt.isData at hd
          simp at hd
          cases hk : e.typ <;> simp_all [supported]


/-- Entries that reach the output (an input entry named like the TOC is dropped). -/
def keep (es : List TarEnt) : List TarEnt := es.filter (fun e => !e.isToc)

/-- The uncompressed stream the entries produce. -/
def tarStream (es : List TarEnt) : Bytes := (keep es).flatMap entBytes

@[simp] theorem keep_nil : keep [] = [] := rfl
theorem keep_cons_toc {e : TarEnt} {es : List TarEnt} (h : e.isToc = true) : keep (e :: es) = keep es := by
  simp [keep, h]
theorem keep_cons_keep {e : TarEnt} {es : List TarEnt} (h : e.isToc = false) : keep (e :: es) = e :: keep es := by
  simp [keep, h]
theorem keep_append (a b : List TarEnt) : keep (a ++ b) = keep a ++ keep b := by simp [keep]
theorem tarStream_append (a b : List TarEnt) : tarStream (a ++ b) = tarStream a ++ tarStream b := by
  simp [tarStream, keep_append]

/-- Pointwise relation between two lists of the same length (core has no `Forall₂`). -/
inductive Forall2 {α β : Type} (R : α → β → Prop) : List α → List β → Prop
  | nil : Forall2 R [] []
  | cons {a b as bs} : R a b → Forall2 R as bs → Forall2 R (a :: as) (b :: bs)

/-- Every data entry of `toc` reads, by the documented rule, its range of the content of a
regular file among `src` carrying its name. -/
def AllGood (ms : List Member) (src : List TarEnt) (toc : List TocEnt) : Prop :=
  ∀ x ∈ toc, x.isData = true → ∃ e ∈ src, e.isToc = false ∧ e.typ = .reg ∧ x.name = e.name ∧
    Good ms x (expect e.data x) ∧ 0 < effSize x e.data.length ∧
    x.chunkOffset + effSize x e.data.length ≤ e.data.length

theorem AllGood.mono {ms ms' : List Member} {src src' : List TarEnt} {toc : List TocEnt}
    (h : AllGood ms src toc) (hx : Ext ms ms') (hs : ∀ e ∈ src, e ∈ src') : AllGood ms' src' toc := by
  intro x hx' hd
  obtain ⟨e, he, h1, h2, h3, h4, h5⟩ := h x hx' hd
  exact ⟨e, hs e he, h1, h2, h3, Good.mono h4 hx, h5⟩

theorem AllGood.append {ms : List Member} {src : List TarEnt} {a b : List TocEnt}
    (ha : AllGood ms src a) (hb : AllGood ms src b) : AllGood ms src (a ++ b) := by
  intro x hx hd
  simp at hx
  rcases hx with hx | hx
  · exact ha x hx hd
  · exact hb x hx hd

theorem appendEntries_spec (P : Params) (hc : 0 < P.chunk) (s : Prop) :
    ∀ (es : List TarEnt) (w : W) (loc : Loc) (w' : W) (loc' : Loc), Inv w → (s → LInv P w loc) →
      appendEntries P (w, loc) es = some (w', loc') →
      Tr w w' (tarStream es) ∧ (s → LInv P w' loc') ∧
      (P.lossless = true → ∀ e ∈ es, e.isToc = false) ∧
      ∃ gs, w'.toc = w.toc ++ gs.flatten ∧ Forall2 EntryToc (keep es) gs ∧
        (s → AllGood w'.view es gs.flatten) := by
  intro es
  induction es with
  | nil =>
    intro w loc w' loc' hinv hl h
    simp [appendEntries] at h
    obtain ⟨rfl, rfl⟩ := h
    refine ⟨by simpa [tarStream] using Tr.rfl' hinv, hl, by simp, [], by simp, Forall2.nil, ?_⟩
    intro _ x hx; simp at hx
  | cons e es ih =>
    intro w loc w' loc' hinv hl h
    simp only [appendEntries] at h
    cases h1 : appendEntry P (w, loc) e with
    | none => simp [h1] at h
    | some st1 =>
      obtain ⟨w1, loc1⟩ := st1
      simp only [h1] at h
      rcases appendEntry_spec P hc w loc e w1 loc1 s hinv hl h1 with
        ⟨htoc, rfl, rfl, hll⟩ | ⟨htoc, _, htr1, hl1, g, htoc1, hent, hgood1⟩
      · obtain ⟨htr, hl', hlos, gs, htoc', hfa, hag⟩ := ih w1 loc1 w' loc' hinv hl h
        refine ⟨?_, hl', ?_, gs, htoc', ?_, ?_⟩
        · simpa [tarStream, keep_cons_toc htoc] using htr
        · intro h; simp [hll] at h
        · simpa [keep_cons_toc htoc] using hfa
        · exact fun hs => (hag hs).mono (Ext.refl _) (fun x hx => List.mem_cons_of_mem _ hx)
      · obtain ⟨htr, hl', hlos, gs, htoc', hfa, hag⟩ := ih w1 loc1 w' loc' htr1.inv hl1 h
        refine ⟨?_, hl', ?_, g :: gs, ?_, ?_, ?_⟩
        · have := Tr.trans htr1 htr
          simpa [tarStream, keep_cons_keep htoc] using this
        · intro h x hx
          simp at hx
          rcases hx with rfl | hx
          · exact htoc
          · exact hlos h x hx
        · rw [htoc', htoc1]; simp
        · rw [keep_cons_keep htoc]
          exact Forall2.cons hent hfa
        · intro hs
          simp only [List.flatten_cons]
          apply AllGood.append
          · intro x hx hd
            obtain ⟨a1, a2, a3, a4, a5⟩ := hgood1 x hx hd
            exact ⟨e, by simp, htoc, a1, a2, Good.mono (a3 hs) htr.ext, a4, a5⟩
          · exact (hag hs).mono (Ext.refl _) (fun x hx => List.mem_cons_of_mem _ hx)


/-! ## appendTar, Close -/

def lossTail (P : Params) (tail : Bytes) : Bytes := if P.lossless then tail else []

theorem linv_closeGz (P : Params) (w : W) :
    LInv P (closeGz w) ⟨(closeGz w).cwN, (closeGz w).uncN⟩ := by
  right
  have hc : (closeGz w).cur = none := by
    unfold closeGz
    cases h : w.cur <;> simp [h]
  rw [hc]
  exact ⟨rfl, rfl⟩

theorem appendTar_spec (P : Params) (hc : 0 < P.chunk) (w w' : W) (ents : List TarEnt) (tail : Bytes)
    (s : Prop) (hinv : Inv w) (h : appendTar P w ents tail = some w') :
    Tr w w' (tarStream ents ++ lossTail P tail) ∧
    (P.lossless = true → ∀ e ∈ ents, e.isToc = false) ∧
    ∃ gs, w'.toc = w.toc ++ gs.flatten ∧ Forall2 EntryToc (keep ents) gs ∧
      (s → AllGood w'.view ents gs.flatten) := by
  unfold appendTar at h
  have hsp : Tr w (closeGz w) [] := closeGz_tr hinv
  have hct : (closeGz w).toc = w.toc := by
    unfold closeGz
    cases hcur : w.cur <;> simp
  cases h1 : appendEntries P (closeGz w, ⟨(closeGz w).cwN, (closeGz w).uncN⟩) ents with
  | none => simp [h1] at h
  | some st =>
    obtain ⟨w1, loc1⟩ := st
    simp only [h1] at h
    obtain ⟨htr, _, hlos, gs, htoc, hfa, hag⟩ :=
      appendEntries_spec P hc s ents (closeGz w) _ w1 loc1 hsp.inv
        (fun _ => linv_closeGz P w) h1
    rw [hct] at htoc
    have htr : Tr w w1 (tarStream ents) := by simpa using Tr.trans hsp htr
    by_cases hw : P.lossless = true ∧ tail ≠ []
    · simp only [hw, ne_eq, not_false_eq_true, and_self, if_true] at h
      simp at h
      subst h
      have htr2 := write_tr htr.inv tail
      refine ⟨?_, hlos, gs, by rw [write_toc, htoc], hfa, fun h => (hag h).mono htr2.ext (fun _ h => h)⟩
      simpa [lossTail, hw.1] using Tr.trans htr htr2
    · simp only [hw, if_false] at h
      simp at h
      subst h
      refine ⟨?_, hlos, gs, htoc, hfa, hag⟩
      have : lossTail P tail = [] := by
        unfold lossTail
        by_cases hl : P.lossless = true
        · have : tail = [] := by
            by_cases ht : tail = []
            · exact ht
            · exact absurd ⟨hl, ht⟩ hw
          simp [this]
        · simp [hl]
      simpa [this] using htr

/-- All entries of a list of `AppendTar` calls. -/
def callEnts : List (List TarEnt × Bytes) → List TarEnt
  | [] => []
  | c :: cs => c.1 ++ callEnts cs

/-- The uncompressed bytes a list of `AppendTar` calls produces. -/
def callStream (P : Params) : List (List TarEnt × Bytes) → Bytes
  | [] => []
  | c :: cs => tarStream c.1 ++ lossTail P c.2 ++ callStream P cs

theorem forall2_append {α β : Type} {R : α → β → Prop} {a a' : List α} {b b' : List β}
    (h1 : Forall2 R a b) (h2 : Forall2 R a' b') : Forall2 R (a ++ a') (b ++ b') := by
  induction h1 with
  | nil => simpa using h2
  | cons hr _ ih => exact Forall2.cons hr ih

theorem appendTars_spec (P : Params) (hc : 0 < P.chunk) (s : Prop) :
    ∀ (calls : List (List TarEnt × Bytes)) (w w' : W), Inv w → appendTars P w calls = some w' →
      Tr w w' (callStream P calls) ∧
      (P.lossless = true → ∀ e ∈ callEnts calls, e.isToc = false) ∧
      ∃ gs, w'.toc = w.toc ++ gs.flatten ∧ Forall2 EntryToc (keep (callEnts calls)) gs ∧
        (s → AllGood w'.view (callEnts calls) gs.flatten) := by
  intro calls
  induction calls with
  | nil =>
    intro w w' hinv h
    simp [appendTars] at h
    subst h
    refine ⟨by simpa [callStream] using Tr.rfl' hinv, by simp [callEnts], [], by simp, ?_, ?_⟩
    · simpa [callEnts] using Forall2.nil
    · intro _ x hx; simp at hx
  | cons c cs ih =>
    intro w w' hinv h
    obtain ⟨ents, tail⟩ := c
    simp only [appendTars] at h
    cases h1 : appendTar P w ents tail with
    | none => simp [h1] at h
    | some w1 =>
      simp only [h1] at h
      obtain ⟨htr1, hlos1, gs1, htoc1, hfa1, hag1⟩ := appendTar_spec P hc w w1 ents tail s hinv h1
      obtain ⟨htr, hlos, gs, htoc, hfa, hag⟩ := ih w1 w' htr1.inv h
      refine ⟨?_, ?_, gs1 ++ gs, ?_, ?_, ?_⟩
      · simpa [callStream] using Tr.trans htr1 htr
      · intro hl e he
        simp [callEnts] at he
        rcases he with he | he
        · exact hlos1 hl e he
        · exact hlos hl e he
      · rw [htoc, htoc1]; simp
      · simp only [callEnts, keep_append]
        exact forall2_append hfa1 hfa
      · intro h
        simp only [List.flatten_append, callEnts]
        apply AllGood.append
        · exact (hag1 h).mono htr.ext (fun x hx => by simp [hx])
        · exact (hag h).mono (Ext.refl _) (fun x hx => by simp [hx])

theorem length_expect {data : Bytes} {x : TocEnt}
    (h : x.chunkOffset + effSize x data.length ≤ data.length) :
    (expect data x).length = effSize x data.length := by
  unfold expect
  simp
  omega

/-- `off` is the first compressed byte of some member. -/
def IsBoundary (ms : List Member) (off : Nat) : Prop :=
  ∃ init m rest, ms = init ++ m :: rest ∧ sumClen init = off

/-- The statement of `index_consistent` for a member list and a TOC. -/
def IndexOK (ms : List Member) (src : List TarEnt) (toc : List TocEnt) : Prop :=
  ∀ x ∈ toc, x.isData = true → ∃ e ∈ src, e.isToc = false ∧ e.typ = .reg ∧ e.name = x.name ∧
    specRead ms x e.data.length = some (expect e.data x) ∧ IsBoundary ms x.offset

theorem AllGood.indexOK {ms : List Member} {src : List TarEnt} {toc : List TocEnt}
    (h : AllGood ms src toc) (hpos : AllPos ms) : IndexOK ms src toc := by
  intro x hx hd
  obtain ⟨e, he, h1, h2, h3, h4, _, h6⟩ := h x hx hd
  refine ⟨e, he, h1, h2, h3.symm, Good.specRead h4 hpos (length_expect h6), ?_⟩
  obtain ⟨init, m, rest, ha, hs, _⟩ := h4
  exact ⟨init, m, rest, ha, hs⟩

theorem closeGz_cur (w : W) : (closeGz w).cur = none := by
  unfold closeGz
  cases hc : w.cur <;> simp [hc]

theorem closeGz_view_closed (w : W) : (closeGz w).view = (closeGz w).closed := by
  simp [W.view, closeGz_cur]

theorem closeGz_toc (w : W) : (closeGz w).toc = w.toc := by
  unfold closeGz
  cases hc : w.cur <;> simp


/-! ## TOC + footer -/

theorem wtf_toc (F : Fmt) (ms : List Member) (off : Nat) (toc : List TocEnt) (tt : Bytes) (a : Nat)
    (h : Bytes) : (writeTocAndFooter F ms off toc tt a h).toc = toc := by
  cases F <;> rfl

theorem wtf_ext (F : Fmt) (ms : List Member) (off : Nat) (toc : List TocEnt) (tt : Bytes) (a : Nat)
    (h : Bytes) : Ext ms (writeTocAndFooter F ms off toc tt a h).members := by
  cases F
  · exact Ext.append _ _
  · exact Ext.append _ _
  · exact Ext.refl _

theorem wtf_pos (F : Fmt) (ms : List Member) (off : Nat) (toc : List TocEnt) (tt : Bytes) (a : Nat)
    (h : Bytes) (hp : AllPos ms) : AllPos (writeTocAndFooter F ms off toc tt a h).members := by
  cases F
  · intro m hm
    simp [writeTocAndFooter] at hm
    rcases hm with hm | hm
    · exact hp m hm
    · subst hm; simp
  · intro m hm
    simp [writeTocAndFooter] at hm
    rcases hm with hm | hm
    · exact hp m hm
    · subst hm; simp; omega
  · exact hp

/-- What the TOC adds to the decompressed stream: the TOC tar entry for gzip, nothing otherwise. -/
def tocAddition (F : Fmt) (tt : Bytes) : Bytes :=
  match F with
  | .gzip => tt
  | _ => []

theorem wtf_stream (F : Fmt) (ms : List Member) (off : Nat) (toc : List TocEnt) (tt : Bytes) (a : Nat)
    (h : Bytes) : streamOf (writeTocAndFooter F ms off toc tt a h).members = streamOf ms ++ tocAddition F tt := by
  cases F <;> simp [writeTocAndFooter, tocAddition]

theorem wtf_hashed (F : Fmt) (ms : List Member) (off : Nat) (toc : List TocEnt) (tt : Bytes) (a : Nat)
    (h : Bytes) : (writeTocAndFooter F ms off toc tt a h).hashed = h ++ tocAddition F tt := by
  cases F <;> simp [writeTocAndFooter, tocAddition]

/-- The footer's TOC offset is where the data members end (zstd: plus the 8-byte frame header),
and the blob is the members followed by a footer of the format's fixed size. -/
theorem wtf_layout (F : Fmt) (ms : List Member) (toc : List TocEnt) (tt : Bytes) (a : Nat) (h : Bytes) :
    let b := writeTocAndFooter F ms (sumClen ms) toc tt a h
    b.size = sumClen b.members + F.footerLen ∧
    (F ≠ .external → b.tocOff = some (sumClen ms + F.tocSkip)) ∧ (F = .external → b.tocOff = none) := by
  cases F <;> simp [writeTocAndFooter, Fmt.footerLen, Fmt.tocSkip]

/-! ## combine -/

theorem rebase_name (off : Nat) (x : TocEnt) : (rebase off x).name = x.name := by
  unfold rebase; split <;> rfl
theorem rebase_typ (off : Nat) (x : TocEnt) : (rebase off x).typ = x.typ := by
  unfold rebase; split <;> rfl
theorem rebase_size (off : Nat) (x : TocEnt) : (rebase off x).size = x.size := by
  unfold rebase; split <;> rfl
theorem rebase_chunkOffset (off : Nat) (x : TocEnt) : (rebase off x).chunkOffset = x.chunkOffset := by
  unfold rebase; split <;> rfl
theorem rebase_chunkSize (off : Nat) (x : TocEnt) : (rebase off x).chunkSize = x.chunkSize := by
  unfold rebase; split <;> rfl
theorem rebase_innerOffset (off : Nat) (x : TocEnt) : (rebase off x).innerOffset = x.innerOffset := by
  unfold rebase; split <;> rfl
theorem rebase_effSize (off : Nat) (x : TocEnt) (t : Nat) : effSize (rebase off x) t = effSize x t := by
  simp [effSize, rebase_chunkSize, rebase_chunkOffset]
theorem rebase_isData (off : Nat) (x : TocEnt) : (rebase off x).isData = x.isData := by
  simp [TocEnt.isData, rebase_typ, rebase_size]
theorem rebase_expect (off : Nat) (x : TocEnt) (d : Bytes) : expect d (rebase off x) = expect d x := by
  simp [expect, rebase_effSize, rebase_chunkOffset]

theorem rebase_data {off : Nat} {x : TocEnt} (h : x.isData = true) :
    rebase off x = { x with offset := x.offset + off } := by
  unfold rebase
  have : (x.typ = .reg ∧ 0 < x.size) ∨ x.typ = .chunk := by
    simpa [TocEnt.isData] using h
  simp [this]

theorem rebase_nodata {off : Nat} {x : TocEnt} (h : x.isData = false) : rebase off x = x := by
  unfold rebase
  have : ¬ ((x.typ = .reg ∧ 0 < x.size) ∨ x.typ = .chunk) := by
    intro hc
    have : x.isData = true := by simpa [TocEnt.isData] using hc
    simp [h] at this
  simp [this]

theorem group_rebase (off : Nat) {name : String} {total : Nat} :
    ∀ {first : Bool} {pos : Nat} {g : List TocEnt}, Group name total first pos g →
      Group name total first pos (g.map (rebase off)) := by
  intro first pos g
  induction g generalizing first pos with
  | nil => intro h; simpa [Group] using h
  | cons e es ih =>
    intro h
    simp only [Group] at h
    obtain ⟨h1, h2, h3, h4, h5, h6, h7⟩ := h
    simp only [List.map_cons, Group, rebase_name, rebase_typ, rebase_size, rebase_chunkOffset, rebase_effSize]
    exact ⟨h1, h2, h3, h4, h5, h6, ih h7⟩

theorem entryToc_rebase (off : Nat) {e : TarEnt} {g : List TocEnt} (h : EntryToc e g) :
    EntryToc e (g.map (rebase off)) := by
  obtain ⟨hs, h⟩ := h
  refine ⟨hs, ?_⟩
  by_cases hr : e.typ = .reg ∧ e.data ≠ []
  · simp only [hr, ne_eq, not_false_eq_true, and_self, if_true] at h ⊢
    exact group_rebase off h
  · simp only [hr, if_false] at h ⊢
    subst h
    have : (⟨e.name, e.typ, 0, 0, 0, 0, 0⟩ : TocEnt).isData = false := by
      cases hk : e.typ <;> simp_all [TocEnt.isData, supported]
    simp [rebase_nodata this]

theorem forall2_entryToc_rebase (off : Nat) {es : List TarEnt} {gs : List (List TocEnt)}
    (h : Forall2 EntryToc es gs) : Forall2 EntryToc es (gs.map (List.map (rebase off))) := by
  induction h with
  | nil => exact Forall2.nil
  | cons hr _ ih => exact Forall2.cons (entryToc_rebase off hr) ih

/-- What a sub-blob writer handed to `closeWithCombine` must satisfy, relative to its own part. -/
structure PartOK (w : W) (p : List TarEnt) : Prop where
  inv : Inv w
  stream : streamOf w.view = tarStream p
  groups : ∃ gs, w.toc = gs.flatten ∧ Forall2 EntryToc (keep p) gs
  good : AllGood w.view p w.toc

theorem combineGo_spec :
    ∀ (ws : List W) (parts : List (List TarEnt)) (off : Nat) (pre : List Member),
      Forall2 PartOK ws parts → sumClen pre = off →
      AllPos (combineGo ws off).1 ∧
      (combineGo ws off).2.2 = off + sumClen (combineGo ws off).1 ∧
      streamOf (combineGo ws off).1 = tarStream parts.flatten ∧
      (∃ gs, (combineGo ws off).2.1 = gs.flatten ∧ Forall2 EntryToc (keep parts.flatten) gs) ∧
      AllGood (pre ++ (combineGo ws off).1) parts.flatten (combineGo ws off).2.1 := by
  intro ws parts off pre h
  induction h generalizing off pre with
  | nil =>
    intro _
    refine ⟨by intro m hm; simp [combineGo] at hm, by simp [combineGo], by simp [combineGo, tarStream],
      ⟨[], by simp [combineGo], by simpa using Forall2.nil⟩, ?_⟩
    intro x hx; simp [combineGo] at hx
  | @cons w p ws parts hw _ ih =>
    intro hpre
    have hcl := closeGz_tr hw.inv
    have hview := closeGz_view_closed w
    have hcw : (closeGz w).cwN = sumClen (closeGz w).closed := by rw [hcl.inv.cw, hview]
    obtain ⟨ih1, ih2, ih3, ⟨gs', ih4, ih5⟩, ih6⟩ :=
      ih (off + (closeGz w).cwN) (pre ++ (closeGz w).closed) (by simp [hpre, hcw])
    obtain ⟨gs, hgs, hfa⟩ := hw.groups
    simp only [combineGo]
    refine ⟨?_, ?_, ?_, ?_, ?_⟩
    · intro m hm
      simp at hm
      rcases hm with hm | hm
      · exact hcl.inv.pos m hm
      · exact ih1 m hm
    · rw [ih2]; simp [hcw]; omega
    · have : streamOf (closeGz w).closed = tarStream p := by
        rw [← hview, hcl.stream, hw.stream]; simp
      simp [this, ih3, tarStream_append]
    · refine ⟨gs.map (List.map (rebase off)) ++ gs', ?_, ?_⟩
      · rw [closeGz_toc, hgs, ih4]; simp [List.map_flatten]
      · simp only [List.flatten_cons, keep_append]
        exact forall2_append (forall2_entryToc_rebase off hfa) ih5
    · apply AllGood.append
      · intro x hx hd
        simp [closeGz_toc] at hx
        obtain ⟨x0, hx0, rfl⟩ := hx
        rw [rebase_isData] at hd
        obtain ⟨e, he, h1, h2, h3, h4, h5, h6⟩ := hw.good x0 hx0 hd
        have h4' : Good (closeGz w).closed x0 (expect e.data x0) := by
          rw [← hview]; exact Good.mono h4 hcl.ext
        have := Good.shift h4' pre (combineGo ws (off + (closeGz w).cwN)).1
        refine ⟨e, by simp [he], h1, h2, by rw [rebase_name]; exact h3, ?_, ?_, ?_⟩
        · rw [rebase_expect, rebase_data hd]
          subst hpre
          simpa [List.append_assoc] using this
        · rw [rebase_effSize]; exact h5
        · rw [rebase_effSize, rebase_chunkOffset]; exact h6
      · have := ih6
        rw [List.append_assoc] at this
        exact this.mono (Ext.refl _) (fun x hx => by simp [hx])

/-! ## divideEntries -/

theorem divideGo_flatten (unit : Nat) :
    ∀ (es cur : List TarEnt) (o n : Nat), (divideGo unit es cur o n).flatten = cur ++ es := by
  intro es
  induction es with
  | nil => intro cur o n; simp [divideGo]
  | cons e es ih =>
    intro cur o n
    simp only [divideGo]
    split
    · simp [ih]
    · simp [ih]

theorem divideGo_ne_nil (unit : Nat) :
    ∀ (es cur : List TarEnt) (o n : Nat), divideGo unit es cur o n ≠ [] := by
  intro es
  induction es with
  | nil => intro cur o n; simp [divideGo]
  | cons e es ih =>
    intro cur o n
    simp only [divideGo]
    split
    · simp
    · exact ih _ _ _

/-! ## Build -/

theorem partOK_of_appendTar (P : Params) (hc : 0 < P.chunk) (f c : List Nat) (p : List TarEnt) (w : W)
    (h : appendTar P { orcF := f, orcC := c } p [] = some w) : PartOK w p := by
  have hinv := inv_fresh f c
  obtain ⟨htr, _, gs, htoc, hfa, hag⟩ :=
    appendTar_spec P hc _ w p [] True hinv h
  refine ⟨htr.inv, ?_, ⟨gs, by simpa using htoc, hfa⟩, ?_⟩
  · have := htr.stream
    simpa [W.view, lossTail] using this
  · have : w.toc = gs.flatten := by simpa using htoc
    rw [this]; exact hag trivial

theorem buildParts_spec (P : Params) (hc : 0 < P.chunk) :
    ∀ (parts : List (List TarEnt)) (f c : List Nat) (ws : List W),
      buildParts P parts f c = some ws → Forall2 PartOK ws parts := by
  intro parts
  induction parts with
  | nil =>
    intro f c ws h
    simp [buildParts] at h
    subst h
    exact Forall2.nil
  | cons p ps ih =>
    intro f c ws h
    simp only [buildParts] at h
    cases h1 : appendTar P { orcF := f, orcC := c } p [] with
    | none => simp [h1] at h
    | some w =>
      simp only [h1] at h
      cases h2 : buildParts P ps (closeGz w).orcF (closeGz w).orcC with
      | none => simp [h2] at h
      | some ws' =>
        simp only [h2] at h
        simp at h
        subst h
        exact Forall2.cons (partOK_of_appendTar P hc f c p w h1) (ih _ _ _ h2)


/-! ## The checker -/

theorem checkChunk_true {ms : List Member} {e : TocEnt} {f : FileC} {pos : Nat}
    (h : checkChunk ms e f pos = true) :
    e.name = f.name ∧ e.chunkOffset = pos ∧ 0 < effSize e f.content.length ∧
    pos + effSize e f.content.length ≤ f.content.length ∧
    specRead ms e f.content.length = some (expect f.content e) := by
  simpa [checkChunk, and_assoc] using h

/-- The files the remaining TOC may still refer to. -/
def curFiles (files : List FileC) (cur : Option (FileC × Nat)) : List FileC :=
  match cur with
  | none => files
  | some (f, _) => f :: files

theorem checkGo_sound (ms : List Member) :
    ∀ (toc : List TocEnt) (files : List FileC) (cur : Option (FileC × Nat)),
      checkGo ms toc files cur = true →
      ∀ e ∈ toc, e.isData = true → ∃ f ∈ curFiles files cur, f.name = e.name ∧
        specRead ms e f.content.length = some (expect f.content e) ∧
        e.chunkOffset + effSize e f.content.length ≤ f.content.length := by
  intro toc
  induction toc with
  | nil => intro files cur _ e he; simp at he
  | cons x es ih =>
    intro files cur h e he hd
    unfold checkGo at h
    by_cases hreg : x.typ = .reg
    · simp only [hreg, if_true] at h
      cases files with
      | nil => simp at h
      | cons f fs =>
        simp only [Bool.and_eq_true, decide_eq_true_eq] at h
        obtain ⟨⟨⟨_, hname⟩, hsize⟩, hrest⟩ := h
        by_cases hz : x.size = 0
        · simp only [hz, if_true] at hrest
          simp at he
          rcases he with rfl | he
          · simp [TocEnt.isData, hreg, hz] at hd
          · obtain ⟨f', hf', r⟩ := ih fs none hrest e he hd
            refine ⟨f', ?_, r⟩
            cases cur with
            | none => simp [curFiles] at hf' ⊢; exact Or.inr hf'
            | some c => simp [curFiles] at hf' ⊢; exact Or.inr (Or.inr hf')
        · simp only [hz, if_false, Bool.and_eq_true] at hrest
          obtain ⟨hck, hrest⟩ := hrest
          obtain ⟨c1, c2, c3, c4, c5⟩ := checkChunk_true hck
          simp at he
          rcases he with rfl | he
          · refine ⟨f, ?_, c1.symm, c5, by omega⟩
            cases cur with
            | none => simp [curFiles]
            | some c => simp [curFiles]
          · obtain ⟨f', hf', r⟩ := ih fs _ hrest e he hd
            refine ⟨f', ?_, r⟩
            cases cur with
            | none => simp [curFiles] at hf' ⊢; exact hf'
            | some c =>
              simp [curFiles] at hf' ⊢
              rcases hf' with hf' | hf'
              · exact Or.inr (Or.inl hf')
              · exact Or.inr (Or.inr hf')
    · simp only [hreg, if_false] at h
      by_cases hch : x.typ = .chunk
      · simp only [hch, if_true] at h
        cases cur with
        | none => simp at h
        | some c =>
          obtain ⟨f, pos⟩ := c
          simp only [Bool.and_eq_true] at h
          obtain ⟨hck, hrest⟩ := h
          obtain ⟨c1, c2, c3, c4, c5⟩ := checkChunk_true hck
          simp at he
          rcases he with rfl | he
          · exact ⟨f, by simp [curFiles], c1.symm, c5, by omega⟩
          · obtain ⟨f', hf', r⟩ := ih files _ hrest e he hd
            exact ⟨f', by simpa [curFiles] using hf', r⟩
      · simp only [hch, if_false, Bool.and_eq_true] at h
        simp at he
        rcases he with rfl | he
        · simp [TocEnt.isData, hreg, hch] at hd
        · obtain ⟨f', hf', r⟩ := ih files none h.2 e he hd
          refine ⟨f', ?_, r⟩
          cases cur with
          | none => simpa [curFiles] using hf'
          | some c => simp [curFiles] at hf' ⊢; exact Or.inr hf'


/-! ## Whole runs -/

theorem effChunk_pos (c : Int) : 0 < effChunk c := by
  unfold effChunk
  split
  · omega
  · omega

theorem divideEntries_spec {n : Nat} {es : List TarEnt} {parts : List (List TarEnt)}
    (h : divideEntries n es = some parts) : n ≠ 0 ∧ parts.flatten = es ∧ parts ≠ [] := by
  unfold divideEntries at h
  by_cases hn : n = 0
  · simp [hn] at h
  · simp only [hn, if_false] at h
    simp at h
    subst h
    exact ⟨hn, by simp [divideGo_flatten], divideGo_ne_nil _ _ _ _ _⟩

/-- Everything `Build` does after sorting, in one statement. -/
theorem build_spec {F : Fmt} {chunk minChunk workers : Nat} {ents : List TarEnt}
    {tocTar : List TocEnt → Bytes} {orcF orcC : List Nat} {a : Nat} {b : Blob} (hc : 0 < chunk)
    (h : build F chunk minChunk workers ents tocTar orcF orcC a = some b) :
    ∃ parts ws, parts.flatten = ents ∧ Forall2 PartOK ws parts ∧
      (0 < minChunk → parts = [ents]) ∧ (minChunk = 0 → divideEntries workers ents = some parts) ∧
      b = writeTocAndFooter F (combineGo ws 0).1 (combineGo ws 0).2.2 (combineGo ws 0).2.1
            (tocTar (combineGo ws 0).2.1) a [] := by
  unfold build at h
  simp only at h
  cases hp : (if 0 < minChunk then some [ents] else divideEntries workers ents) with
  | none => simp [hp] at h
  | some parts =>
    simp only [hp] at h
    cases hw : buildParts ⟨chunk, minChunk, landmarks, false⟩ parts orcF orcC with
    | none => simp [hw] at h
    | some ws =>
      simp only [hw] at h
      simp at h
      have hok := buildParts_spec ⟨chunk, minChunk, landmarks, false⟩ hc parts orcF orcC ws hw
      refine ⟨parts, ws, ?_, hok, ?_, ?_, h.symm⟩
      · by_cases hm : 0 < minChunk
        · simp [hm] at hp; subst hp; simp
        · simp [hm] at hp; exact (divideEntries_spec hp).2.1
      · intro hm; simp [hm] at hp; exact hp.symm
      · intro hm; simp [hm] at hp; exact hp

/-- Everything a Writer run does, for any number of `AppendTar` calls and any `MinChunkSize`. -/
theorem writerRun_spec {P : Params} {F : Fmt} {calls : List (List TarEnt × Bytes)}
    {tocTar : List TocEnt → Bytes} {orcF orcC : List Nat} {a : Nat} {b : Blob} (hc : 0 < P.chunk)
    (s : Prop)
    (h : writerRun P F calls tocTar orcF orcC a = some b) :
    ∃ ms, AllPos ms ∧ streamOf ms = callStream P calls ∧
      b = writeTocAndFooter F ms (sumClen ms) b.toc (tocTar b.toc) a (streamOf ms) ∧
      (P.lossless = true → ∀ e ∈ callEnts calls, e.isToc = false) ∧
      (∃ gs, b.toc = gs.flatten ∧ Forall2 EntryToc (keep (callEnts calls)) gs) ∧
      (s → AllGood ms (callEnts calls) b.toc) := by
  unfold writerRun at h
  cases hw : appendTars P { orcF := orcF, orcC := orcC } calls with
  | none => simp [hw] at h
  | some w =>
    simp only [hw] at h
    simp at h
    obtain ⟨htr, hlos, gs, htoc, hfa, hag⟩ :=
      appendTars_spec P hc s calls _ w (inv_fresh orcF orcC) hw
    have hcl := closeGz_tr htr.inv
    have hview := closeGz_view_closed w
    have htoc' : w.toc = gs.flatten := by simpa using htoc
    have hbtoc : b.toc = w.toc := by rw [← h]; simp [close, wtf_toc, closeGz_toc]
    refine ⟨(closeGz w).closed, hcl.inv.pos, ?_, ?_, hlos, ⟨gs, by rw [hbtoc, htoc'], hfa⟩, ?_⟩
    · rw [← hview, hcl.stream, htr.stream]; simp [W.view]
    · have hct : (close F w tocTar a).toc = w.toc := by simp [close, wtf_toc, closeGz_toc]
      rw [← h, hct]
      simp only [close, closeGz_toc]
      rw [hcl.inv.cw, hcl.inv.hash, hview]
    · intro hh
      rw [hbtoc, htoc', ← hview]
      exact (hag hh).mono hcl.ext (fun _ h => h)


/-- The source bytes of a list of calls: every entry's raw bytes and data, then the tail. -/
def inputBytes : List (List TarEnt × Bytes) → Bytes
  | [] => []
  | c :: cs => c.1.flatMap entBytes ++ c.2 ++ inputBytes cs

theorem callStream_lossless (P : Params) (hl : P.lossless = true) :
    ∀ (calls : List (List TarEnt × Bytes)), (∀ e ∈ callEnts calls, e.isToc = false) →
      callStream P calls = inputBytes calls := by
  intro calls
  induction calls with
  | nil => intro _; rfl
  | cons c cs ih =>
    intro hlos
    have h1 : keep c.1 = c.1 := by
      simp only [keep, List.filter_eq_self]
      intro e he
      simp [hlos e (by simp [callEnts, he])]
    have h2 := ih (fun e he => hlos e (by simp [callEnts, he]))
    simp [callStream, inputBytes, tarStream, h1, lossTail, hl, h2]


/-- `content(name)`: the data of the regular file entry called `name` that reaches the output. -/
def contentOf (ents : List TarEnt) (name : String) : Option Bytes :=
  (ents.find? (fun e => !e.isToc && (e.typ == Kind.reg && e.name == name))).map (·.data)

/-- No two regular files of the (kept) entries share a name - what `importTar`'s "last duplicate
wins" establishes for `Build`. -/
def UniqueRegNames (ents : List TarEnt) : Prop :=
  ∀ a ∈ ents, ∀ b ∈ ents, a.isToc = false → b.isToc = false → a.typ = .reg → b.typ = .reg →
    a.name = b.name → a = b

theorem contentOf_eq {ents : List TarEnt} {e : TarEnt} (hu : UniqueRegNames ents) (he : e ∈ ents)
    (h1 : e.isToc = false) (h2 : e.typ = .reg) : contentOf ents e.name = some e.data := by
  unfold contentOf
  cases h : ents.find? (fun a => !a.isToc && (a.typ == Kind.reg && a.name == e.name)) with
  | none =>
    have := List.find?_eq_none.mp h e he
    simp [h1, h2] at this
  | some e' =>
    have hp := List.find?_some h
    have hm := List.mem_of_find?_eq_some h
    simp at hp
    have : e' = e := hu e' hm e he hp.1 h1 hp.2.1 h2 hp.2.2
    simp [this]

end SV.Writer
