/-
Lemmas for the chunk-cache model (C11), part A: the refcounted LRU (`LRU.get/add/dec/finalize`).
-/
import SV.Model.ChunkCache

namespace SV.ChunkCache

/-! ### list helpers -/

theorem set_some_iff {α : Type} {l : List α} {i j : Nat} {a b : α} :
    (l.set i a)[j]? = some b ↔ (j = i ∧ i < l.length ∧ a = b) ∨ (j ≠ i ∧ l[j]? = some b) := by
  rw [List.getElem?_set]
  by_cases hij : i = j
  · subst hij
    by_cases hlt : i < l.length
    · simp [hlt]
    · simp [hlt]
  · have : j ≠ i := fun h => hij h.symm
    simp [hij, this]

theorem set_get_self {α : Type} {l : List α} {i : Nat} {a : α} (h : i < l.length) :
    (l.set i a)[i]? = some a := by simp [h]

theorem set_get_ne {α : Type} {l : List α} {i j : Nat} {a : α} (h : j ≠ i) :
    (l.set i a)[j]? = l[j]? := by
  rw [List.getElem?_set, if_neg (fun e => h e.symm)]

theorem lt_of_get_some {α : Type} {l : List α} {i : Nat} {a : α} (h : l[i]? = some a) : i < l.length :=
  (List.getElem?_eq_some_iff.mp h).1

theorem append_some_iff {α : Type} {l : List α} {j : Nat} {a b : α} :
    (l ++ [a])[j]? = some b ↔ l[j]? = some b ∨ (j = l.length ∧ a = b) := by
  rw [List.getElem?_append]
  by_cases hlt : j < l.length
  · simp [hlt]; intro h; omega
  · simp only [hlt, if_false]
    have hn : l[j]? = none := List.getElem?_eq_none (by omega)
    by_cases he : j = l.length
    · subst he; simp
    · have : j - l.length ≠ 0 := by omega
      obtain ⟨m, hm⟩ : ∃ m, j - l.length = m + 1 := ⟨j - l.length - 1, by omega⟩
      simp [hn, he, hm]

theorem append_get_old {α : Type} {l : List α} {j : Nat} {a b : α} (h : l[j]? = some b) :
    (l ++ [a])[j]? = some b := append_some_iff.mpr (Or.inl h)

theorem append_get_new {α : Type} {l : List α} {a : α} : (l ++ [a])[l.length]? = some a := by simp

/-! ### refCounter facts -/

/-- The `OnEvicted` callback of a refCounter has not run yet. -/
def RC.alive (r : RC) : Prop := 0 < r.refs

theorem find_some_mem {k i : Nat} : ∀ {o : List (Nat × Nat)}, find k o = some i → (k, i) ∈ o
  | [], h => by simp [find] at h
  | (k', i') :: rest, h => by
    simp only [find] at h
    split at h
    · simp_all
    · exact List.mem_cons_of_mem _ (find_some_mem h)

theorem popLast_eq {α : Type} : ∀ {l l' : List α} {z : α}, popLast l = some (l', z) → l = l' ++ [z]
  | [], _, _, h => by simp [popLast] at h
  | [x], _, _, h => by simp [popLast] at h; obtain ⟨rfl, rfl⟩ := h; rfl
  | x :: y :: t, l', z, h => by
    simp only [popLast] at h
    split at h
    · rename_i l0 z0 heq
      simp at h
      obtain ⟨rfl, rfl⟩ := h
      have := popLast_eq heq
      simp [this]
    · simp at h

/-- `h i` = number of `done` closures of refCounter `i` that were handed out and not yet called. -/
structure LRU.Inv (l : LRU) (h : Nat → Nat) : Prop where
  refs : ∀ (i : Nat) (r : RC), l.rcs[i]? = some r → r.refs = (if r.fin then 0 else 1) + (h i : Int)
  ord : ∀ e ∈ l.order, ∃ r : RC, l.rcs[e.2]? = some r ∧ r.fin = false ∧ r.key = e.1
  nodup : (l.order.map Prod.snd).Nodup
  bound : ∀ j, l.rcs.length ≤ j → h j = 0

/-- What an LRU operation may do to the refCounters: keys and values never change, nothing comes back
to life, and the only counter that dies is the one whose value was handed to `OnEvicted`. -/
structure LRU.Eff (l l' : LRU) (fired : Option Nat) : Prop where
  len : l.rcs.length ≤ l'.rcs.length
  old : ∀ (j : Nat) (r : RC), l.rcs[j]? = some r → ∃ r' : RC, l'.rcs[j]? = some r' ∧ r'.key = r.key ∧
          r'.val = r.val ∧ (r'.alive → r.alive) ∧ (r.alive → ¬ r'.alive → fired = some r.val)
  fired_some : ∀ v, fired = some v →
          ∃ (j : Nat) (r r' : RC), l.rcs[j]? = some r ∧ l'.rcs[j]? = some r' ∧ r.val = v ∧ r.alive ∧ ¬ r'.alive
  cap : l'.cap = l.cap

theorem LRU.Eff.refl (l : LRU) : LRU.Eff l l none :=
  ⟨Nat.le_refl _, fun _ r h => ⟨r, h, rfl, rfl, fun x => x, fun a b => absurd a b⟩,
   fun _ h => by simp at h, rfl⟩

theorem LRU.Inv.alive_of_not_fin {l : LRU} {h : Nat → Nat} (hi : l.Inv h) {i : Nat} {r : RC}
    (hr : l.rcs[i]? = some r) (hf : r.fin = false) : r.alive := by
  have := hi.refs i r hr
  simp [hf] at this
  unfold RC.alive; omega

theorem LRU.Inv.alive_of_held {l : LRU} {h : Nat → Nat} (hi : l.Inv h) {i : Nat} {r : RC}
    (hr : l.rcs[i]? = some r) (hh : 1 ≤ h i) : r.alive := by
  have := hi.refs i r hr
  unfold RC.alive
  split at this <;> omega

theorem LRU.Inv.lt_of_held {l : LRU} {h : Nat → Nat} (hi : l.Inv h) {i : Nat}
    (hh : 1 ≤ h i) : i < l.rcs.length := by
  false_or_by_contra
  have := hi.bound i (by omega)
  omega

theorem LRU.Inv.get_of_held {l : LRU} {h : Nat → Nat} (hi : l.Inv h) {i : Nat}
    (hh : 1 ≤ h i) : ∃ r : RC, l.rcs[i]? = some r ∧ r.alive := by
  have hlt := hi.lt_of_held hh
  exact ⟨l.rcs[i], by simp [hlt], hi.alive_of_held (by simp [hlt]) hh⟩

/-! ### replacing one refCounter -/

/-- Replace refCounter `i` (`r ↦ r'`, same key) and shrink/permute the order. -/
theorem LRU.Inv.set {l : LRU} {h h' : Nat → Nat} (hi : l.Inv h) {i : Nat} {r r' : RC} {o' : List (Nat × Nat)}
    {c : Nat}
    (hr : l.rcs[i]? = some r) (hkey : r'.key = r.key)
    (hrefs : r'.refs = (if r'.fin then 0 else 1) + (h' i : Int))
    (hne : ∀ j, j ≠ i → h' j = h j)
    (hsub : ∀ e ∈ o', e ∈ l.order) (hnd : (o'.map Prod.snd).Nodup)
    (hfin : r'.fin = true → ∀ e ∈ o', e.2 ≠ i) (hfin' : r'.fin = false → r.fin = false ∨ ∀ e ∈ o', e.2 ≠ i) :
    LRU.Inv { cap := c, order := o', rcs := l.rcs.set i r' } h' := by
  have hlt := lt_of_get_some hr
  refine ⟨?_, ?_, hnd, ?_⟩
  · intro j rj hj
    simp only [set_some_iff] at hj
    rcases hj with ⟨rfl, _, rfl⟩ | ⟨hji, hj⟩
    · exact hrefs
    · rw [hne j hji]; exact hi.refs j rj hj
  · intro e he
    obtain ⟨re, hre, hf1, hk1⟩ := hi.ord e (hsub e he)
    by_cases hc : e.2 = i
    · refine ⟨r', by simp only [hc]; exact set_get_self hlt, ?_, ?_⟩
      · cases hf : r'.fin
        · rfl
        · exact absurd hc (hfin hf e he)
      · rw [hc, hr] at hre
        simp at hre; subst hre
        rw [hkey]; exact hk1
    · exact ⟨re, by simp only; rw [set_get_ne hc]; exact hre, hf1, hk1⟩
  · intro j hj
    simp only [List.length_set] at hj
    have : j ≠ i := by omega
    rw [hne j this]; exact hi.bound j hj

theorem LRU.Eff.set {l : LRU} {i : Nat} {r r' : RC} {o' : List (Nat × Nat)}
    (hr : l.rcs[i]? = some r) (hkey : r'.key = r.key) (hval : r'.val = r.val)
    (ha : r.alive) :
    LRU.Eff l { cap := l.cap, order := o', rcs := l.rcs.set i r' } (if r'.refs ≤ 0 then some r.val else none) := by
  have hlt := lt_of_get_some hr
  refine ⟨by simp, ?_, ?_, rfl⟩
  · intro j rj hj
    by_cases hc : j = i
    · subst hc
      rw [hr] at hj; simp at hj; subst hj
      refine ⟨r', set_get_self hlt, hkey, hval, fun _ => ha, ?_⟩
      intro _ hn
      unfold RC.alive at hn
      have : r'.refs ≤ 0 := by omega
      simp [this]
    · exact ⟨rj, by simp only; rw [set_get_ne hc]; exact hj, rfl, rfl, fun x => x, fun a b => absurd a b⟩
  · intro v hv
    split at hv
    · rename_i hle
      simp at hv; subst hv
      exact ⟨i, r, r', hr, set_get_self hlt, rfl, ha, by unfold RC.alive; omega⟩
    · simp at hv

/-! ### touch -/

theorem touch_mem {o : List (Nat × Nat)} {k i : Nat} (hm : (k, i) ∈ o) :
    ∀ e, e ∈ touch o k i → e ∈ o := by
  intro e he
  simp only [touch, List.mem_cons, List.mem_filter] at he
  rcases he with rfl | ⟨h, _⟩
  · exact hm
  · exact h

theorem touch_nodup {o : List (Nat × Nat)} {k i : Nat} (hn : (o.map Prod.snd).Nodup) :
    ((touch o k i).map Prod.snd).Nodup := by
  simp only [touch, List.map_cons, List.nodup_cons]
  constructor
  · intro hmem
    simp only [List.mem_map, List.mem_filter] at hmem
    obtain ⟨e, ⟨_, hne⟩, rfl⟩ := hmem
    simp at hne
  · exact List.Nodup.sublist (List.Sublist.map _ List.filter_sublist) hn

theorem find_touch {o : List (Nat × Nat)} {k i : Nat} : find k (touch o k i) = some i := by
  simp [touch, find]

/-! ### Get / Add of a cached key -/

theorem LRU.get_spec {l l' : LRU} {h h' : Nat → Nat} {k i : Nat} (hi : l.Inv h)
    (hg : l.get k = some (l', i))
    (hh1 : h' i = h i + 1) (hh2 : ∀ j, j ≠ i → h' j = h j) :
    l'.Inv h' ∧ l.Eff l' none ∧ l'.rcs.length = l.rcs.length ∧
      ∃ r r' : RC, l.rcs[i]? = some r ∧ l'.rcs[i]? = some r' ∧ r.key = k ∧ r.alive ∧ r'.alive ∧
        r'.val = r.val ∧ r'.key = r.key ∧ find k l.order = some i ∧ find k l'.order = some i := by
  unfold LRU.get at hg
  split at hg
  · rename_i i0 hf
    simp only [Option.some.injEq, Prod.mk.injEq] at hg
    obtain ⟨rfl, rfl⟩ := hg
    have hm := find_some_mem hf
    obtain ⟨r, hr, hfin, hkey⟩ := hi.ord _ hm
    simp only at hr hkey
    have halive := hi.alive_of_not_fin hr hfin
    have hlt := lt_of_get_some hr
    have hr0 := hi.refs _ r hr
    simp only [LRU.inc, hr]
    have hal' : RC.alive { r with refs := r.refs + 1 } := by unfold RC.alive at *; simp; omega
    refine ⟨?_, ?_, by simp, ⟨r, { r with refs := r.refs + 1 }, rfl, set_get_self hlt, hkey, halive, hal',
      rfl, rfl, hf, find_touch⟩⟩
    · refine hi.set hr rfl ?_ hh2 (touch_mem hm) (touch_nodup hi.nodup) ?_ ?_
      · simp only [hfin] at hr0 ⊢
        rw [hh1]; simp at hr0 ⊢; omega
      · intro hc; simp [hfin] at hc
      · intro _; exact Or.inl hfin
    · have := LRU.Eff.set (o' := touch l.order k i0) (r' := { r with refs := r.refs + 1 }) hr rfl rfl halive
      have hpos : ¬ (r.refs + 1 ≤ 0) := by unfold RC.alive at halive; omega
      simpa [hpos] using this
  · simp at hg

/-! ### `done` closure -/

theorem LRU.dec_spec {l : LRU} {h h' : Nat → Nat} {i : Nat} (hi : l.Inv h)
    (hheld : 1 ≤ h i)
    (hh1 : h' i + 1 = h i) (hh2 : ∀ j, j ≠ i → h' j = h j) :
    (l.dec i).1.Inv h' ∧ l.Eff (l.dec i).1 (l.dec i).2 ∧ (l.dec i).1.rcs.length = l.rcs.length ∧
      (l.dec i).1.order = l.order := by
  obtain ⟨r, hr, halive⟩ := hi.get_of_held hheld
  have hr0 := hi.refs i r hr
  simp only [LRU.dec, hr]
  refine ⟨?_, ?_, by simp, by simp⟩
  · refine hi.set hr rfl ?_ hh2 (fun _ h => h) hi.nodup ?_ ?_
    · simp only; rw [hr0]
      have : (h i : Int) = h' i + 1 := by omega
      rw [this]; omega
    · intro hc e he hei
      obtain ⟨re, hre, hf1, _⟩ := hi.ord e he
      rw [hei, hr] at hre; simp at hre; subst hre
      simp at hc; simp [hc] at hf1
    · intro hc; exact Or.inl hc
  · exact LRU.Eff.set (o' := l.order) (r' := { r with refs := r.refs - 1 }) hr rfl rfl halive

/-! ### `finalize` (capacity eviction): needs the evicted counter to be out of the order already -/

theorem LRU.finalize_spec {l : LRU} {h : Nat → Nat} {i : Nat} (hi : l.Inv h)
    (hout : ∀ e ∈ l.order, e.2 ≠ i) :
    (l.finalize i).1.Inv h ∧ l.Eff (l.finalize i).1 (l.finalize i).2 ∧
      (l.finalize i).1.rcs.length = l.rcs.length ∧ (l.finalize i).1.order = l.order ∧
      (∀ j, j ≠ i → (l.finalize i).1.rcs[j]? = l.rcs[j]?) := by
  unfold LRU.finalize
  split
  · rename_i r hr
    have hr0 := hi.refs i r hr
    split
    · exact ⟨hi, LRU.Eff.refl l, rfl, rfl, fun _ _ => rfl⟩
    · rename_i hfin
      simp only [Bool.not_eq_true] at hfin
      have halive : r.alive := hi.alive_of_not_fin hr hfin
      refine ⟨?_, ?_, by simp, rfl, fun j hj => set_get_ne hj⟩
      · refine hi.set hr rfl ?_ (fun _ _ => rfl) (fun _ h => h) hi.nodup (fun _ => hout) (fun hc => ?_)
        · simp only [hfin] at hr0; simp at hr0 ⊢; omega
        · simp at hc
      · exact LRU.Eff.set (o' := l.order) (r' := { r with refs := r.refs - 1, fin := true }) hr rfl rfl halive
  · exact ⟨hi, LRU.Eff.refl l, rfl, rfl, fun _ _ => rfl⟩

/-! ### `LRUCache.Add` -/

/-- Appending a fresh refCounter with two references (the cache's and the caller's). -/
theorem LRU.Inv.push {l : LRU} {h h' : Nat → Nat} (hi : l.Inv h) {k v : Nat} {o' : List (Nat × Nat)}
    (hh1 : h' l.rcs.length = 1) (hh2 : ∀ j, j ≠ l.rcs.length → h' j = h j)
    (hsub : ∀ e ∈ o', e ∈ (k, l.rcs.length) :: l.order) (hnd : (o'.map Prod.snd).Nodup) :
    LRU.Inv { cap := l.cap, order := o', rcs := l.rcs ++ [{ key := k, val := v, refs := 2, fin := false }] } h' := by
  refine ⟨?_, ?_, hnd, ?_⟩
  · intro j rj hj
    simp only [append_some_iff] at hj
    rcases hj with hj | ⟨rfl, rfl⟩
    · have hlt := lt_of_get_some hj
      rw [hh2 j (by omega)]; exact hi.refs j rj hj
    · simp [hh1]
  · intro e he
    have := hsub e he
    simp only [List.mem_cons] at this
    rcases this with rfl | hmem
    · exact ⟨_, append_get_new, rfl, rfl⟩
    · obtain ⟨re, hre, hf1, hk1⟩ := hi.ord e hmem
      exact ⟨re, append_get_old hre, hf1, hk1⟩
  · intro j hj
    simp only [List.length_append, List.length_singleton] at hj
    rw [hh2 j (by omega)]; exact hi.bound j (by omega)

theorem LRU.Eff.push {l : LRU} {k v : Nat} {o' : List (Nat × Nat)} :
    LRU.Eff l { cap := l.cap, order := o', rcs := l.rcs ++ [{ key := k, val := v, refs := 2, fin := false }] } none :=
  ⟨by simp, fun _ r h => ⟨r, append_get_old h, rfl, rfl, fun x => x, fun a b => absurd a b⟩,
   fun _ h => by simp at h, rfl⟩

theorem LRU.Eff.trans {l1 l2 l3 : LRU} {f : Option Nat} (h12 : LRU.Eff l1 l2 none) (h23 : LRU.Eff l2 l3 f)
    (hnew : ∀ (j : Nat) (r2 r3 : RC), l1.rcs.length ≤ j → l2.rcs[j]? = some r2 → l3.rcs[j]? = some r3 →
      r2.alive → r3.alive) :
    LRU.Eff l1 l3 f := by
  refine ⟨Nat.le_trans h12.len h23.len, ?_, ?_, by rw [h23.cap, h12.cap]⟩
  · intro j r hj
    obtain ⟨r2, h2, hk2, hv2, ha2, hd2⟩ := h12.old j r hj
    obtain ⟨r3, h3, hk3, hv3, ha3, hd3⟩ := h23.old j r2 h2
    refine ⟨r3, h3, by rw [hk3, hk2], by rw [hv3, hv2], fun a => ha2 (ha3 a), ?_⟩
    intro ha hn
    have h2a : r2.alive := by
      false_or_by_contra
      rename_i hc
      have := hd2 ha hc
      simp at this
    rw [← hv2]; exact hd3 h2a hn
  · intro v hv
    obtain ⟨j, r2, r3, h2, h3, hval, ha, hn⟩ := h23.fired_some v hv
    have hlt2 := lt_of_get_some h2
    by_cases hlt : j < l1.rcs.length
    · obtain ⟨r2', h2', _, hv2, ha2, _⟩ := h12.old j l1.rcs[j] (by simp [hlt])
      rw [h2] at h2'; simp at h2'; subst h2'
      exact ⟨j, l1.rcs[j], r3, by simp [hlt], h3, by rw [← hval, hv2], ha2 ha, hn⟩
    · exact absurd (hnew j r2 r3 (by omega) h2 h3 ha) hn

theorem LRU.Inv.ids_lt {l : LRU} {h : Nat → Nat} (hi : l.Inv h) : ∀ e ∈ l.order, e.2 < l.rcs.length := by
  intro e he
  obtain ⟨r, hr, _, _⟩ := hi.ord e he
  exact lt_of_get_some hr

theorem LRU.Inv.fresh_not_mem {l : LRU} {h : Nat → Nat} (hi : l.Inv h) {o : List (Nat × Nat)}
    (hsub : ∀ e ∈ o, e ∈ l.order) : l.rcs.length ∉ o.map Prod.snd := by
  intro hm
  simp only [List.mem_map] at hm
  obtain ⟨e, he, heq⟩ := hm
  have := hi.ids_lt e (hsub e he)
  omega

theorem popLast_cons {α : Type} {x : α} {t o' : List α} {e : α} (hp : popLast (x :: t) = some (o', e))
    (hne : t ≠ []) : ∃ t', o' = x :: t' ∧ t = t' ++ [e] := by
  cases t with
  | nil => exact absurd rfl hne
  | cons y t2 =>
    simp only [popLast] at hp
    split at hp
    · rename_i l0 z heq
      simp at hp
      obtain ⟨rfl, rfl⟩ := hp
      exact ⟨l0, rfl, popLast_eq heq⟩
    · simp at hp

/-- The result of `LRUCache.Add`. -/
structure LRU.AddSpec (l : LRU) (k v : Nat) (l' : LRU) (i : Nat) (added : Bool) (fired : Option Nat) : Prop where
  eff : l.Eff l' fired
  existing : added = false → fired = none ∧ l'.rcs.length = l.rcs.length ∧ find k l.order = some i ∧
    ∃ r r' : RC, l.rcs[i]? = some r ∧ l'.rcs[i]? = some r' ∧ r.key = k ∧ r.alive ∧ r'.alive ∧
      r'.val = r.val ∧ r'.key = r.key ∧ find k l'.order = some i
  fresh : added = true → find k l.order = none ∧ i = l.rcs.length ∧ l'.rcs.length = l.rcs.length + 1 ∧
    (∃ r' : RC, l'.rcs[i]? = some r' ∧ r'.key = k ∧ r'.val = v ∧ r'.alive) ∧ find k l'.order = some i

theorem LRU.add_spec {l l' : LRU} {h h' : Nat → Nat} {k v i : Nat} {added : Bool} {fired : Option Nat}
    (hi : l.Inv h) (ha : l.add k v = (l', i, added, fired))
    (hh1 : h' i = h i + 1) (hh2 : ∀ j, j ≠ i → h' j = h j) :
    l'.Inv h' ∧ l.AddSpec k v l' i added fired := by
  unfold LRU.add at ha
  split at ha
  · rename_i l0 i0 hg
    simp only [Prod.mk.injEq] at ha
    obtain ⟨rfl, rfl, rfl, rfl⟩ := ha
    obtain ⟨h1, h2, h3, r, r', h4⟩ := LRU.get_spec hi hg hh1 hh2
    exact ⟨h1, h2, fun _ => ⟨rfl, h3, h4.2.2.2.2.2.2.2.1, r, r', h4.1, h4.2.1, h4.2.2.1, h4.2.2.2.1, h4.2.2.2.2.1,
      h4.2.2.2.2.2.1, h4.2.2.2.2.2.2.1, h4.2.2.2.2.2.2.2.2⟩, fun hc => by simp at hc⟩
  · rename_i hg
    have hfind : find k l.order = none := by
      unfold LRU.get at hg
      split at hg
      · simp at hg
      · assumption
    have hb := hi.bound l.rcs.length (Nat.le_refl _)
    have hnew : RC.alive { key := k, val := v, refs := 2, fin := false } := by unfold RC.alive; simp
    simp only at ha
    split at ha
    · rename_i hcap
      split at ha
      · rename_i o' e hp
        simp only [Prod.mk.injEq] at ha
        obtain ⟨rfl, rfl, rfl, rfl⟩ := ha
        have hne : l.order ≠ [] := by
          intro hc
          simp [hc] at hcap
        obtain ⟨t', rfl, ht⟩ := popLast_cons hp hne
        have hsub : ∀ x ∈ (k, l.rcs.length) :: t', x ∈ (k, l.rcs.length) :: l.order := by
          intro x hx
          simp only [List.mem_cons] at hx ⊢
          rcases hx with rfl | hx
          · exact Or.inl rfl
          · exact Or.inr (by rw [ht]; exact List.mem_append_left _ hx)
        have hsub' : ∀ x ∈ t', x ∈ l.order := fun x hx => by rw [ht]; exact List.mem_append_left _ hx
        have hnd0 := hi.nodup
        rw [ht, List.map_append, List.nodup_append] at hnd0
        have hnd : (((k, l.rcs.length) :: t').map Prod.snd).Nodup := by
          simp only [List.map_cons, List.nodup_cons]
          exact ⟨hi.fresh_not_mem hsub', hnd0.1⟩
        have he_lt : e.2 < l.rcs.length := hi.ids_lt e (by rw [ht]; simp)
        have hi2 := hi.push (k := k) (v := v) (h' := h') (o' := (k, l.rcs.length) :: t')
          (by rw [hh1, hb]) hh2 hsub hnd
        have hout : ∀ x ∈ (k, l.rcs.length) :: t', x.2 ≠ e.2 := by
          intro x hx
          simp only [List.mem_cons] at hx
          rcases hx with rfl | hx
          · simp; omega
          · exact hnd0.2.2 x.2 (List.mem_map.mpr ⟨x, hx, rfl⟩) e.2 (by simp)
        obtain ⟨f1, f2, f3, f4, f5⟩ := LRU.finalize_spec (i := e.2) hi2 hout
        refine ⟨f1, ⟨LRU.Eff.trans LRU.Eff.push f2 ?_, fun hc => by simp at hc,
          fun _ => ⟨hfind, rfl, ?_, ?_, by rw [f4]; simp [find]⟩⟩⟩
        · intro j r2 r3 hj h2 h3 ha
          have hjlt := lt_of_get_some h2
          simp only [List.length_append, List.length_singleton] at hjlt
          have hje : j = l.rcs.length := by omega
          subst hje
          rw [f5 _ (by omega), h2] at h3
          simp at h3; subst h3; exact ha
        · rw [f3]; simp
        · refine ⟨_, ?_, rfl, rfl, hnew⟩
          rw [f5 _ (by omega)]; exact append_get_new
      · simp only [Prod.mk.injEq] at ha
        obtain ⟨rfl, rfl, rfl, rfl⟩ := ha
        refine ⟨hi.push (by rw [hh1, hb]) hh2 (fun _ h => h) ?_, ⟨LRU.Eff.push, fun hc => by simp at hc,
          fun _ => ⟨hfind, rfl, by simp, ⟨_, append_get_new, rfl, rfl, hnew⟩, by simp [find]⟩⟩⟩
        simp only [List.map_cons, List.nodup_cons]
        exact ⟨hi.fresh_not_mem (fun _ h => h), hi.nodup⟩
    · simp only [Prod.mk.injEq] at ha
      obtain ⟨rfl, rfl, rfl, rfl⟩ := ha
      refine ⟨hi.push (by rw [hh1, hb]) hh2 (fun _ h => h) ?_, ⟨LRU.Eff.push, fun hc => by simp at hc,
        fun _ => ⟨hfind, rfl, by simp, ⟨_, append_get_new, rfl, rfl, hnew⟩, by simp [find]⟩⟩⟩
      simp only [List.map_cons, List.nodup_cons]
      exact ⟨hi.fresh_not_mem (fun _ h => h), hi.nodup⟩

end SV.ChunkCache
