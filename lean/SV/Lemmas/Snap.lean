/-
Helper lemmas for the snapshotter model (`SV/Model/Snap.lean`): list facts about the metadata
operations, the step-inductive invariant `Inv` with the per-step side conditions `StepOk`,
and the proof that every plan only issues steps whose side condition holds.
-/
import SV.Model.Snap

namespace SV.Snap

/-! ### metadata list facts -/

theorem insertSnap_perm (sn : Snap) (l : List Snap) : (insertSnap sn l).Perm (sn :: l) := by
  induction l with
  | nil => simp [insertSnap]
  | cons y ys ih =>
    unfold insertSnap
    split
    · exact List.Perm.refl _
    · exact (List.Perm.cons y ih).trans (List.Perm.swap sn y ys)

theorem mem_insertSnap {sn x : Snap} {l : List Snap} : x ∈ insertSnap sn l ↔ x = sn ∨ x ∈ l := by
  rw [(insertSnap_perm sn l).mem_iff]; simp

theorem findKey_some {l : List Snap} {k : String} {s : Snap} (h : findKey l k = some s) :
    s ∈ l ∧ s.key = k := by
  unfold findKey at h
  have h1 := List.mem_of_find?_eq_some h
  have h2 := List.find?_some h
  simp at h2
  exact ⟨h1, h2⟩

theorem findKey_none {l : List Snap} {k : String} : findKey l k = none ↔ ∀ s ∈ l, s.key ≠ k := by
  unfold findKey; simp

theorem hasKey_false {l : List Snap} {k : String} : hasKey l k = false ↔ ∀ s ∈ l, s.key ≠ k := by
  unfold hasKey
  rw [← findKey_none]
  cases findKey l k <;> simp

theorem hasKey_true {l : List Snap} {k : String} : hasKey l k = true ↔ ∃ s, findKey l k = some s := by
  unfold hasKey
  cases findKey l k <;> simp

theorem mem_removeKey {l : List Snap} {k : String} {x : Snap} :
    x ∈ removeKey l k ↔ x ∈ l ∧ x.key ≠ k := by
  unfold removeKey; simp

theorem mem_updateLabels {l : List Snap} {k : String} {lb : Labels} {x : Snap} :
    x ∈ updateLabels l k lb ↔ ∃ y ∈ l, x = if y.key == k then { y with labels := lb } else y := by
  unfold updateLabels
  simp only [List.mem_map]
  constructor
  · rintro ⟨y, hy, rfl⟩; exact ⟨y, hy, rfl⟩
  · rintro ⟨y, hy, rfl⟩; exact ⟨y, hy, rfl⟩

/-- two distinct buckets differ in key and in id -/
def Distinct (a b : Snap) : Prop := a.key ≠ b.key ∧ a.id ≠ b.id

theorem Distinct.symm {a b : Snap} (h : Distinct a b) : Distinct b a := ⟨Ne.symm h.1, Ne.symm h.2⟩

theorem pairwise_mem {l : List Snap} (h : l.Pairwise Distinct) {a b : Snap} (ha : a ∈ l) (hb : b ∈ l) :
    a = b ∨ Distinct a b := by
  induction l with
  | nil => cases ha
  | cons x xs ih =>
    rw [List.pairwise_cons] at h
    rcases List.mem_cons.mp ha with rfl | ha' <;> rcases List.mem_cons.mp hb with rfl | hb'
    · exact Or.inl rfl
    · exact Or.inr (h.1 b hb')
    · exact Or.inr (h.1 a ha').symm
    · exact ih h.2 ha' hb'

/-! ### the invariant of all small-step states -/

structure Inv (s : State) : Prop where
  keyNe : ∀ a ∈ s.snaps, a.key ≠ ""
  distinct : s.snaps.Pairwise Distinct
  idBound : ∀ a ∈ s.snaps, 1 ≤ a.id ∧ a.id ≤ s.seq
  parentOk : ∀ a ∈ s.snaps, a.parent ≠ "" →
    ∃ p ∈ s.snaps, p.key = a.parent ∧ p.kind = .committed ∧ p.id < a.id
  mountDir : ∀ n ∈ s.mounts, Dir.id n ∈ s.dirs
  mountNodup : s.mounts.Nodup
  mountBound : ∀ n ∈ s.mounts, n ≤ s.seq
  uninit : s.init = false → s.snaps = []

theorem Inv.keyInj {s : State} (h : Inv s) {a b : Snap} (ha : a ∈ s.snaps) (hb : b ∈ s.snaps)
    (hk : a.key = b.key) : a = b := by
  rcases pairwise_mem h.distinct ha hb with e | d
  · exact e
  · exact absurd hk d.1

theorem Inv.idInj {s : State} (h : Inv s) {a b : Snap} (ha : a ∈ s.snaps) (hb : b ∈ s.snaps)
    (hk : a.id = b.id) : a = b := by
  rcases pairwise_mem h.distinct ha hb with e | d
  · exact e
  · exact absurd hk d.2

theorem Inv.findKey_of_mem {s : State} (h : Inv s) {a : Snap} (ha : a ∈ s.snaps) :
    findKey s.snaps a.key = some a := by
  cases hf : findKey s.snaps a.key with
  | none => exact absurd rfl (findKey_none.mp hf a ha)
  | some b =>
    have := findKey_some hf
    rw [h.keyInj this.1 ha this.2]

/-- side condition under which a step keeps the invariant; every plan establishes it from the
checks the Go code performs before issuing the step. -/
def StepOk (s : State) : Step → Prop
  | .txCreate sn => sn.key ≠ "" ∧ hasKey s.snaps sn.key = false ∧ sn.id = s.seq + 1 ∧
      (sn.parent ≠ "" → ∃ p ∈ s.snaps, p.key = sn.parent ∧ p.kind = .committed)
  | .fsMount id _ ok => ok = true → Dir.id id ∈ s.dirs ∧ id ∉ s.mounts ∧ id ≤ s.seq
  | .txCommitActive key name _ => name ≠ "" ∧ hasKey s.snaps name = false ∧
      ∃ sn, findKey s.snaps key = some sn ∧ sn.kind = .active
  | .txRemove key => ∀ a ∈ s.snaps, a.parent ≠ key
  | .rmdir d => ∀ n, d = Dir.id n → n ∉ s.mounts
  | _ => True

def StepsOk (s : State) : List Step → Prop
  | [] => True
  | st :: r => StepOk s st ∧ StepsOk (applyStep s st) r

theorem applySteps_append (s : State) (a b : List Step) :
    applySteps s (a ++ b) = applySteps (applySteps s a) b := by
  simp [applySteps, List.foldl_append]

theorem applySteps_cons (s : State) (a : Step) (b : List Step) :
    applySteps s (a :: b) = applySteps (applyStep s a) b := rfl

theorem applySteps_nil (s : State) : applySteps s [] = s := rfl

theorem stepsOk_append {s : State} {a b : List Step} :
    StepsOk s (a ++ b) ↔ StepsOk s a ∧ StepsOk (applySteps s a) b := by
  induction a generalizing s with
  | nil => simp [StepsOk, applySteps]
  | cons x xs ih =>
    simp only [List.cons_append, StepsOk, applySteps_cons, ih, and_assoc]

theorem inv_insert {s : State} (h : Inv s) (sn : Snap)
    (hk : sn.key ≠ "") (hn : hasKey s.snaps sn.key = false) (hid : sn.id = s.seq + 1)
    (hp : sn.parent ≠ "" → ∃ p ∈ s.snaps, p.key = sn.parent ∧ p.kind = .committed) :
    Inv { s with init := true, snaps := insertSnap sn s.snaps, seq := sn.id } := by
  have hn' := hasKey_false.mp hn
  refine ⟨?_, ?_, ?_, ?_, h.mountDir, h.mountNodup, ?_, ?_⟩
  · intro a ha
    rcases mem_insertSnap.mp ha with rfl | ha
    · exact hk
    · exact h.keyNe a ha
  · show (insertSnap sn s.snaps).Pairwise Distinct
    rw [(insertSnap_perm sn s.snaps).pairwise_iff (fun h => Distinct.symm h)]
    rw [List.pairwise_cons]
    refine ⟨?_, h.distinct⟩
    intro b hb
    refine ⟨fun e => hn' b hb e.symm, ?_⟩
    have := (h.idBound b hb).2
    omega
  · intro a ha
    show 1 ≤ a.id ∧ a.id ≤ sn.id
    rcases mem_insertSnap.mp ha with rfl | ha
    · omega
    · have := h.idBound a ha; omega
  · intro a ha hpa
    show ∃ p ∈ insertSnap sn s.snaps, _
    rcases mem_insertSnap.mp ha with rfl | ha
    · obtain ⟨p, hp1, hp2, hp3⟩ := hp hpa
      refine ⟨p, mem_insertSnap.mpr (Or.inr hp1), hp2, hp3, ?_⟩
      have := (h.idBound p hp1).2
      omega
    · obtain ⟨p, hp1, hp2⟩ := h.parentOk a ha hpa
      exact ⟨p, mem_insertSnap.mpr (Or.inr hp1), hp2⟩
  · intro n hnm
    show n ≤ sn.id
    have := h.mountBound n hnm
    omega
  · intro hi; simp at hi

theorem filter_ne_mem {α} [BEq α] [LawfulBEq α] {l : List α} {d x : α} :
    x ∈ l.filter (fun y => y != d) ↔ x ∈ l ∧ x ≠ d := by
  simp

theorem inv_step {s : State} (h : Inv s) {st : Step} (hok : StepOk s st) : Inv (applyStep s st) := by
  cases st with
  | mkTemp t =>
    exact ⟨h.keyNe, h.distinct, h.idBound, h.parentOk,
      fun n hn => List.mem_append_left _ (h.mountDir n hn), h.mountNodup, h.mountBound, h.uninit⟩
  | rename t id =>
    refine ⟨h.keyNe, h.distinct, h.idBound, h.parentOk, ?_, h.mountNodup, h.mountBound, h.uninit⟩
    intro n hn
    show Dir.id n ∈ (s.dirs.filter (fun d => d != Dir.temp t)) ++ [Dir.id id]
    apply List.mem_append_left
    rw [filter_ne_mem]
    exact ⟨h.mountDir n hn, by simp⟩
  | txCreate sn =>
    obtain ⟨h1, h2, h3, h4⟩ := hok
    exact inv_insert h sn h1 h2 h3 h4
  | fsMount id l ok =>
    cases ok with
    | false => simpa [applyStep] using h
    | true =>
      obtain ⟨h1, h2, h3⟩ := hok rfl
      simp only [applyStep, if_true]
      refine ⟨h.keyNe, h.distinct, h.idBound, h.parentOk, ?_, ?_, ?_, h.uninit⟩
      · intro n hn
        rcases List.mem_cons.mp hn with rfl | hn
        · exact h1
        · exact h.mountDir n hn
      · exact List.nodup_cons.mpr ⟨h2, h.mountNodup⟩
      · intro n hn
        rcases List.mem_cons.mp hn with rfl | hn
        · exact h3
        · exact h.mountBound n hn
  | txCommitActive key name lb =>
    obtain ⟨hne, hnk, sn, hf, hkind⟩ := hok
    have hsn := findKey_some hf
    have hnk' := hasKey_false.mp hnk
    simp only [applyStep, commitActive, hf]
    -- no snapshot has the active `key` as parent
    have nochild : ∀ a ∈ s.snaps, a.parent ≠ key := by
      intro a ha hpa
      have hne' : a.parent ≠ "" := by rw [hpa, ← hsn.2]; exact h.keyNe sn hsn.1
      obtain ⟨p, hp1, hp2, hp3, _⟩ := h.parentOk a ha hne'
      have : p = sn := h.keyInj hp1 hsn.1 (by rw [hp2, hpa, hsn.2])
      rw [this, hkind] at hp3
      cases hp3
    refine ⟨?_, ?_, ?_, ?_, h.mountDir, h.mountNodup, h.mountBound, ?_⟩
    · intro a ha
      rcases mem_insertSnap.mp ha with rfl | ha
      · exact hne
      · exact h.keyNe a (mem_removeKey.mp ha).1
    · show (insertSnap _ (removeKey s.snaps key)).Pairwise Distinct
      rw [(insertSnap_perm _ _).pairwise_iff (fun h => Distinct.symm h), List.pairwise_cons]
      refine ⟨?_, ?_⟩
      · intro b hb
        obtain ⟨hb1, hb2⟩ := mem_removeKey.mp hb
        refine ⟨fun e => hnk' b hb1 e.symm, ?_⟩
        intro e
        have : sn = b := h.idInj hsn.1 hb1 e
        rw [← this] at hb2
        exact hb2 hsn.2
      · unfold removeKey
        exact h.distinct.filter _
    · intro a ha
      rcases mem_insertSnap.mp ha with rfl | ha
      · exact h.idBound sn hsn.1
      · exact h.idBound a (mem_removeKey.mp ha).1
    · intro a ha hpa
      have key_parent : ∀ a ∈ s.snaps, a.parent ≠ "" →
          ∃ p ∈ insertSnap { sn with key := name, kind := .committed, labels := lb } (removeKey s.snaps key),
            p.key = a.parent ∧ p.kind = .committed ∧ p.id < a.id := by
        intro a ha hpa
        obtain ⟨p, hp1, hp2, hp3⟩ := h.parentOk a ha hpa
        refine ⟨p, mem_insertSnap.mpr (Or.inr (mem_removeKey.mpr ⟨hp1, ?_⟩)), hp2, hp3⟩
        rw [hp2]; exact nochild a ha
      rcases mem_insertSnap.mp ha with rfl | ha
      · exact key_parent sn hsn.1 hpa
      · exact key_parent a (mem_removeKey.mp ha).1 hpa
    · intro hi
      have := h.uninit hi
      rw [this] at hsn
      cases hsn.1
  | txRemove key =>
    simp only [applyStep]
    refine ⟨?_, ?_, ?_, ?_, h.mountDir, h.mountNodup, h.mountBound, ?_⟩
    · intro a ha; exact h.keyNe a (mem_removeKey.mp ha).1
    · unfold removeKey; exact h.distinct.filter _
    · intro a ha; exact h.idBound a (mem_removeKey.mp ha).1
    · intro a ha hpa
      have ha' := (mem_removeKey.mp ha).1
      obtain ⟨p, hp1, hp2, hp3⟩ := h.parentOk a ha' hpa
      refine ⟨p, mem_removeKey.mpr ⟨hp1, ?_⟩, hp2, hp3⟩
      rw [hp2]; exact hok a ha'
    · intro hi
      show removeKey s.snaps key = []
      rw [h.uninit hi]; rfl
  | txUpdate key lb =>
    simp only [applyStep]
    refine ⟨?_, ?_, ?_, ?_, h.mountDir, h.mountNodup, h.mountBound, ?_⟩
    · intro a ha
      obtain ⟨y, hy, rfl⟩ := mem_updateLabels.mp ha
      have := h.keyNe y hy
      split <;> simpa using this
    · show (updateLabels s.snaps key lb).Pairwise Distinct
      unfold updateLabels
      rw [List.pairwise_map]
      refine h.distinct.imp ?_
      intro a b hab
      unfold Distinct at *
      split <;> split <;> simpa using hab
    · intro a ha
      obtain ⟨y, hy, rfl⟩ := mem_updateLabels.mp ha
      have := h.idBound y hy
      split <;> simpa using this
    · intro a ha hpa
      obtain ⟨y, hy, rfl⟩ := mem_updateLabels.mp ha
      have hpy : y.parent ≠ "" := by
        revert hpa; split <;> simp
      obtain ⟨p, hp1, hp2, hp3, hp4⟩ := h.parentOk y hy hpy
      refine ⟨if p.key == key then { p with labels := lb } else p, mem_updateLabels.mpr ⟨p, hp1, rfl⟩, ?_⟩
      split <;> split <;> simp [hp2, hp3, hp4]
    · intro hi
      show updateLabels s.snaps key lb = []
      rw [h.uninit hi]; rfl
  | fsUnmount d ok =>
    cases d with
    | temp t => simpa [applyStep] using h
    | id n =>
      simp only [applyStep]
      refine ⟨h.keyNe, h.distinct, h.idBound, h.parentOk, ?_, ?_, ?_, h.uninit⟩
      · intro m hm; exact h.mountDir m (List.mem_filter.mp hm).1
      · exact h.mountNodup.filter _
      · intro m hm; exact h.mountBound m (List.mem_filter.mp hm).1
  | rmdir d =>
    simp only [applyStep]
    refine ⟨h.keyNe, h.distinct, h.idBound, h.parentOk, ?_, h.mountNodup, h.mountBound, h.uninit⟩
    intro n hn
    rw [filter_ne_mem]
    refine ⟨h.mountDir n hn, ?_⟩
    intro e
    exact hok n e.symm hn
  | fsCheck id ok => simpa [applyStep] using h
  | mkdirId id =>
    simp only [applyStep]
    split
    · exact h
    · exact ⟨h.keyNe, h.distinct, h.idBound, h.parentOk,
        fun n hn => List.mem_append_left _ (h.mountDir n hn), h.mountNodup, h.mountBound, h.uninit⟩
  | mkdirFs id => exact ⟨h.keyNe, h.distinct, h.idBound, h.parentOk, h.mountDir, h.mountNodup, h.mountBound, h.uninit⟩
  | dbClose => exact ⟨h.keyNe, h.distinct, h.idBound, h.parentOk, h.mountDir, h.mountNodup, h.mountBound, h.uninit⟩
  | crash cfg =>
    exact ⟨h.keyNe, h.distinct, h.idBound, h.parentOk, (fun n hn => nomatch hn), List.nodup_nil,
      (fun n hn => nomatch hn), h.uninit⟩
  | opened => exact ⟨h.keyNe, h.distinct, h.idBound, h.parentOk, h.mountDir, h.mountNodup, h.mountBound, h.uninit⟩
  | marker m => exact h

theorem inv_steps {s : State} (h : Inv s) {steps : List Step} (hok : StepsOk s steps) :
    Inv (applySteps s steps) := by
  induction steps generalizing s with
  | nil => exact h
  | cons st r ih => exact ih (inv_step h hok.1) hok.2

theorem stepsOk_take {s : State} {steps : List Step} (hok : StepsOk s steps) (k : Nat) :
    StepsOk s (steps.take k) := by
  induction steps generalizing s k with
  | nil => simp [StepsOk]
  | cons st r ih =>
    cases k with
    | zero => simp [StepsOk]
    | succ k => exact ⟨hok.1, ih hok.2 k⟩

/-! ### every plan only issues steps whose side condition holds -/

theorem stepsOk_cleanupDir (s : State) (orc : Oracle) (d : Dir) : StepsOk s (cleanupDir orc d) := by
  unfold cleanupDir
  refine ⟨trivial, trivial, ?_, trivial, trivial⟩
  intro n hn
  subst hn
  simp [applyStep]

theorem stepsOk_cleanupSteps (s : State) (orc : Oracle) (ds : List Dir) : StepsOk s (cleanupSteps orc ds) := by
  induction ds generalizing s with
  | nil => simp [cleanupSteps, StepsOk]
  | cons d r ih =>
    unfold cleanupSteps at *
    rw [List.flatMap_cons, stepsOk_append]
    exact ⟨stepsOk_cleanupDir s orc d, ih _⟩

theorem parentErr_none {l : List Snap} {parent : String} (h : parentErr l parent = none) :
    parent ≠ "" → ∃ p ∈ l, p.key = parent ∧ p.kind = .committed := by
  intro hp
  unfold parentErr at h
  rw [if_neg hp] at h
  split at h
  · cases h
  · rename_i p hf
    split at h
    · rename_i hk
      exact ⟨p, (findKey_some hf).1, (findKey_some hf).2, hk⟩
    · cases h

theorem createChecks_ok {s : State} {key parent : String} {ps : List Snap}
    (h : createChecks s key parent = .ok ps) :
    parentErr s.snaps parent = none ∧ key ≠ "" ∧ hasKey s.snaps key = false ∧ chainOf s parent = some ps := by
  unfold createChecks at h
  split at h
  · cases h
  · rename_i hpe
    split at h
    · cases h
    · rename_i hk
      split at h
      · cases h
      · rename_i hh
        split at h
        · cases h
        · rename_i hc
          cases h
          exact ⟨hpe, hk, by simpa using hh, hc⟩

theorem createPlan_stepsOk {s : State} (_h : Inv s) (orc : Oracle) (kind : Kind) (key parent : String) (labels : Labels) :
    StepsOk s (createPlan s orc kind key parent labels).1 := by
  unfold createPlan
  simp only []
  split
  · exact ⟨trivial, trivial, stepsOk_cleanupDir _ _ _⟩
  · rename_i ps hc
    obtain ⟨hpe, hkey, hhas, _⟩ := createChecks_ok hc
    split
    · exact ⟨trivial, trivial, trivial, stepsOk_cleanupDir _ _ _⟩
    · split
      · refine ⟨trivial, trivial, trivial, ?_⟩
        rw [stepsOk_append]
        exact ⟨stepsOk_cleanupDir _ _ _, stepsOk_cleanupDir _ _ _⟩
      · refine ⟨trivial, trivial, trivial, trivial, trivial, ?_, trivial, trivial⟩
        refine ⟨hkey, ?_, rfl, ?_⟩
        · simpa [applyStep] using hhas
        · intro hp
          simpa [applyStep] using parentErr_none hpe hp

theorem applySteps_checks (s : State) (l : List Snap) (f : Snap → Bool) :
    applySteps s (l.map (fun c => Step.fsCheck c.id (f c))) = s := by
  induction l with
  | nil => rfl
  | cons x xs ih => simpa [applySteps_cons, applyStep] using ih

theorem stepsOk_checks (s : State) (l : List Snap) (f : Snap → Bool) :
    StepsOk s (l.map (fun c => Step.fsCheck c.id (f c))) := by
  induction l with
  | nil => trivial
  | cons x xs ih => exact ⟨trivial, by simpa [applyStep] using ih⟩

theorem mountsPlan_state (s : State) (orc : Oracle) (sn : Snap) (pids : List Nat) (ck : String) :
    applySteps s (mountsPlan s orc sn pids ck).1 = s := by
  unfold mountsPlan
  split
  · rfl
  · split
    · rfl
    · simp only []
      split <;> exact applySteps_checks _ _ _

theorem mountsPlan_stepsOk (s s' : State) (orc : Oracle) (sn : Snap) (pids : List Nat) (ck : String) :
    StepsOk s' (mountsPlan s orc sn pids ck).1 := by
  unfold mountsPlan
  split
  · trivial
  · split
    · trivial
    · simp only []
      split <;> exact stepsOk_checks _ _ _

theorem freshTemp_gt (dirs : List Dir) : ∀ n, Dir.temp n ∈ dirs → n < freshTemp dirs := by
  unfold freshTemp
  suffices h : ∀ (m : Nat) n, (Dir.temp n ∈ dirs ∨ n < m) →
      n < dirs.foldl (fun m d => match d with | .temp n => max m (n + 1) | .id _ => m) m by
    intro n hn; exact h 0 n (Or.inl hn)
  induction dirs with
  | nil => intro m n h; simpa using h
  | cons d r ih =>
    intro m n h
    simp only [List.foldl_cons]
    apply ih
    rcases h with h | h
    · rcases List.mem_cons.mp h with rfl | h
      · right; simp; omega
      · left; exact h
    · right
      cases d <;> simp <;> omega

theorem freshTemp_not_mem (dirs : List Dir) : Dir.temp (freshTemp dirs) ∉ dirs := by
  intro h
  exact Nat.lt_irrefl _ (freshTemp_gt dirs _ h)

/-- the state after a successful `createSnapshot`. -/
def created (s : State) (sn : Snap) : State :=
  { s with init := true, snaps := insertSnap sn s.snaps, seq := s.seq + 1,
           dirs := (s.dirs ++ [Dir.temp (freshTemp s.dirs)]).filter (fun d => d != Dir.temp (freshTemp s.dirs))
                     ++ [Dir.id (s.seq + 1)] }

theorem createPlan_ok {s : State} {orc : Oracle} {kind : Kind} {key parent : String} {labels : Labels}
    {st : List Step} {sn : Snap} {pids : List Nat}
    (h : createPlan s orc kind key parent labels = (st, .ok (sn, pids))) :
    ∃ ps, createChecks s key parent = .ok ps ∧ pids = ps.map (·.id) ∧ parentDirMissing s ps = false ∧
      s.dirs.contains (.id (s.seq + 1)) = false ∧ sn = ⟨key, s.seq + 1, kind, parent, labels⟩ ∧
      applySteps s st = created s sn := by
  unfold createPlan at h
  simp only [] at h
  split at h
  · cases h
  · rename_i ps hc
    split at h
    · cases h
    · rename_i hpd
      split at h
      · cases h
      · rename_i hcont
        simp only [Prod.mk.injEq, Except.ok.injEq] at h
        obtain ⟨rfl, rfl, rfl⟩ := h
        refine ⟨ps, hc, rfl, by simpa using hpd, by simpa using hcont, rfl, ?_⟩
        simp [applySteps, applyStep, created]

theorem createPlan_err {s : State} {orc : Oracle} {kind : Kind} {key parent : String} {labels : Labels}
    {st : List Step} {e : Err}
    (h : createPlan s orc kind key parent labels = (st, .error e)) :
    (applySteps s st).snaps = s.snaps ∧ (applySteps s st).seq = s.seq ∧ (applySteps s st).init = s.init ∧
    (applySteps s st).cfg = s.cfg ∧ (applySteps s st).closed = s.closed ∧
    (∀ n, n ∈ (applySteps s st).mounts → n ∈ s.mounts) ∧
    (∀ d, d ∈ (applySteps s st).dirs → d ∈ s.dirs) := by
  unfold createPlan at h
  simp only [] at h
  split at h
  · simp only [Prod.mk.injEq] at h
    obtain ⟨rfl, _⟩ := h
    simp [applySteps, applyStep, cleanupDir]
    intro d hd _; exact hd
  · split at h
    · simp only [Prod.mk.injEq] at h
      obtain ⟨rfl, _⟩ := h
      simp [applySteps, applyStep, cleanupDir]
      intro d hd _; exact hd
    · split at h
      · simp only [Prod.mk.injEq] at h
        obtain ⟨rfl, _⟩ := h
        simp [applySteps, applyStep, cleanupDir]
        refine ⟨?_, ?_⟩
        · intro n hn _; exact hn
        · intro d hd _ _; exact hd
      · simp at h


theorem created_facts {s : State} (h : Inv s) {sn : Snap} (hid : sn.id = s.seq + 1) :
    Dir.id sn.id ∈ (created s sn).dirs ∧ sn.id ∉ (created s sn).mounts ∧ sn.id ≤ (created s sn).seq := by
  refine ⟨?_, ?_, ?_⟩
  · simp [created, hid]
  · intro hm
    have := h.mountBound sn.id hm
    omega
  · simp [created, hid]

theorem preparePlan_stepsOk {s : State} (h : Inv s) (orc : Oracle) (key parent : String) (labels : Labels) :
    StepsOk s (preparePlan s orc key parent labels).1 := by
  have hc := createPlan_stepsOk h orc .active key parent labels
  unfold preparePlan
  split
  · rename_i st1 e heq
    rw [heq] at hc; exact hc
  · rename_i st1 sn pids heq
    rw [heq] at hc
    obtain ⟨ps, hchk, _, _, _, hsn, hst⟩ := createPlan_ok heq
    have hinv1 : Inv (applySteps s st1) := inv_steps h hc
    have hid : sn.id = s.seq + 1 := by rw [hsn]
    have hmem : sn ∈ (applySteps s st1).snaps := by
      rw [hst]; exact mem_insertSnap.mpr (Or.inl rfl)
    have hfk : findKey (applySteps s st1).snaps key = some sn := by
      have hk : sn.key = key := by rw [hsn]
      rw [← hk]; exact hinv1.findKey_of_mem hmem
    simp only []
    split
    · rw [stepsOk_append]
      exact ⟨hc, mountsPlan_stepsOk _ _ orc sn pids parent⟩
    · rename_i target htl
      split
      · have hm := created_facts h hid
        rw [← hst] at hm
        split
        · rw [stepsOk_append]
          exact ⟨hc, fun _ => hm, trivial, trivial⟩
        · split
          · rw [stepsOk_append, stepsOk_append]
            exact ⟨⟨hc, fun _ => hm, trivial, trivial⟩, trivial, trivial⟩
          · rename_i hne hhas
            rw [stepsOk_append, stepsOk_append]
            refine ⟨⟨hc, fun _ => hm, trivial, trivial⟩, trivial, ?_, trivial, trivial⟩
            refine ⟨hne, ?_, sn, ?_, ?_⟩
            · simpa [applySteps, applyStep] using hhas
            · simpa [applySteps, applyStep] using hfk
            · rw [hsn]
      · rw [stepsOk_append]
        exact ⟨hc, (fun hf => nomatch hf), mountsPlan_stepsOk _ _ orc sn pids parent⟩


theorem viewPlan_stepsOk {s : State} (h : Inv s) (orc : Oracle) (key parent : String) (labels : Labels) :
    StepsOk s (viewPlan s orc key parent labels).1 := by
  have hc := createPlan_stepsOk h orc .view key parent labels
  unfold viewPlan
  split
  · rename_i st1 e heq
    rw [heq] at hc; exact hc
  · rename_i st1 sn pids heq
    rw [heq] at hc
    rw [stepsOk_append]
    exact ⟨hc, mountsPlan_stepsOk _ _ orc sn pids parent⟩

theorem commitPlan_stepsOk {s : State} (_h : Inv s) (name key : String) (labels : Labels) :
    StepsOk s (commitPlan s name key labels).1 := by
  unfold commitPlan
  split
  · trivial
  · rename_i sn hf
    split
    · trivial
    · split
      · trivial
      · rename_i hne
        split
        · trivial
        · rename_i hhas
          split
          · trivial
          · rename_i hk
            refine ⟨trivial, ?_, trivial⟩
            refine ⟨hne, by simpa [applyStep] using hhas, sn, by simpa [applyStep] using hf, ?_⟩
            simpa using hk

theorem mountsOpPlan_stepsOk (s : State) (orc : Oracle) (key : String) :
    StepsOk s (mountsOpPlan s orc key).1 := by
  unfold mountsOpPlan
  split
  · trivial
  · split
    · trivial
    · split
      · trivial
      · exact mountsPlan_stepsOk _ _ _ _ _ _

theorem removePlan_stepsOk (s : State) (orc : Oracle) (key : String) (order : List Dir) :
    StepsOk s (removePlan s orc key order).1 := by
  unfold removePlan
  split
  · trivial
  · split
    · trivial
    · rename_i hany
      have hnc : ∀ a ∈ s.snaps, a.parent ≠ key := by
        intro a ha e
        apply hany
        simp only [List.any_eq_true]
        exact ⟨a, ha, by simp [e]⟩
      split
      · exact ⟨hnc, trivial⟩
      · exact ⟨hnc, trivial, stepsOk_cleanupSteps _ _ _⟩

theorem closePlan_stepsOk (s : State) (orc : Oracle) (order : List Dir) :
    StepsOk s (closePlan s orc order).1 := by
  unfold closePlan
  rw [stepsOk_append]
  exact ⟨stepsOk_cleanupSteps _ _ _, trivial, trivial, trivial⟩

theorem updatePlan_stepsOk (s : State) (key lk lv : String) : StepsOk s (updatePlan s key lk lv).1 := by
  unfold updatePlan
  split
  · trivial
  · exact ⟨trivial, trivial⟩

theorem mkdirId_facts (s : State) (id : Nat) :
    Dir.id id ∈ (applyStep s (.mkdirId id)).dirs ∧ (applyStep s (.mkdirId id)).mounts = s.mounts ∧
    (applyStep s (.mkdirId id)).seq = s.seq ∧ (applyStep s (.mkdirId id)).snaps = s.snaps ∧
    (∀ d, d ∈ (applyStep s (.mkdirId id)).dirs ↔ d ∈ s.dirs ∨ d = Dir.id id) := by
  simp only [applyStep]
  split
  · rename_i h
    refine ⟨h, rfl, rfl, rfl, ?_⟩
    intro d; constructor
    · exact Or.inl
    · rintro (h' | rfl)
      · exact h'
      · exact h
  · refine ⟨by simp, rfl, rfl, rfl, ?_⟩
    intro d; simp

theorem restoreSteps_stepsOk (allow : Bool) (orc : Oracle) (tasks : List Snap) :
    ∀ (s : State), tasks.Pairwise Distinct → (∀ t ∈ tasks, t.id ≤ s.seq ∧ t.id ∉ s.mounts) →
      StepsOk s (restoreSteps allow orc tasks).1 := by
  induction tasks with
  | nil => intro s _ _; trivial
  | cons sn rest ih =>
    intro s hp hb
    rw [List.pairwise_cons] at hp
    have hsn := hb sn (List.mem_cons_self ..)
    obtain ⟨hdir, hm, hs, _, _⟩ := mkdirId_facts s sn.id
    have hb1 : ∀ t ∈ rest, t.id ≤ (applyStep s (.mkdirId sn.id)).seq ∧ t.id ∉ (applyStep s (.mkdirId sn.id)).mounts ∧ t.id ≠ sn.id := by
      intro t ht
      have := hb t (List.mem_cons_of_mem _ ht)
      rw [hs, hm]
      exact ⟨this.1, this.2, fun e => (hp.1 t ht).2 e.symm⟩
    rw [← hm, ← hs] at hsn
    unfold restoreSteps
    split
    · refine ⟨trivial, ?_⟩
      generalize applyStep s (.mkdirId sn.id) = s1 at hdir hsn hb1 ⊢
      refine ⟨trivial, trivial, fun _ => ⟨hdir, hsn.2, hsn.1⟩, trivial, ?_⟩
      apply ih _ hp.2
      intro t ht
      obtain ⟨h1, h2, h3⟩ := hb1 t ht
      show t.id ≤ s1.seq ∧ t.id ∉ sn.id :: s1.mounts
      exact ⟨h1, fun hmem => by
        rcases List.mem_cons.mp hmem with e | hmem
        · exact h3 e
        · exact h2 hmem⟩
    · split
      · refine ⟨trivial, ?_⟩
        generalize applyStep s (.mkdirId sn.id) = s1 at hdir hsn hb1 ⊢
        refine ⟨trivial, trivial, (fun hf => nomatch hf), ?_⟩
        apply ih _ hp.2
        intro t ht
        obtain ⟨h1, h2, _⟩ := hb1 t ht
        exact ⟨h1, h2⟩
      · exact ⟨trivial, trivial, trivial, (fun hf => nomatch hf), trivial⟩

theorem restartPlan_stepsOk {s : State} (h : Inv s) (orc : Oracle) (cfg : Config) :
    StepsOk s (restartPlan s orc cfg).1 := by
  have key : StepsOk (applyStep s (.crash cfg)) (restoreSteps cfg.allowInvalid orc (remoteOf s.snaps)).1 := by
    apply restoreSteps_stepsOk
    · unfold remoteOf; exact h.distinct.filter _
    · intro t ht
      have ht' : t ∈ s.snaps := (List.mem_filter.mp ht).1
      exact ⟨(h.idBound t ht').2, by simp [applyStep]⟩
  unfold restartPlan
  split
  · exact ⟨trivial, trivial, trivial⟩
  · split
    · refine ⟨trivial, ?_⟩
      rw [stepsOk_append]
      exact ⟨key, trivial, trivial⟩
    · exact ⟨trivial, key⟩

theorem plan_stepsOk {s : State} (h : Inv s) (orc : Oracle) (op : Op) : StepsOk s (plan s orc op).1 := by
  cases op with
  | restart cfg => exact restartPlan_stepsOk h orc cfg
  | prepare key parent labels =>
    simp only [plan]; split
    · trivial
    · exact preparePlan_stepsOk h orc key parent labels
  | view key parent labels =>
    simp only [plan]; split
    · trivial
    · exact viewPlan_stepsOk h orc key parent labels
  | commit name key labels =>
    simp only [plan]; split
    · trivial
    · exact commitPlan_stepsOk h name key labels
  | mounts key =>
    simp only [plan]; split
    · trivial
    · exact mountsOpPlan_stepsOk s orc key
  | remove key order =>
    simp only [plan]; split
    · trivial
    · exact removePlan_stepsOk s orc key order
  | cleanup order =>
    simp only [plan]; split
    · trivial
    · exact stepsOk_cleanupSteps _ _ _
  | walk =>
    simp only [plan]; split
    · trivial
    · split <;> trivial
  | stat key =>
    simp only [plan]; split
    · trivial
    · split <;> trivial
  | update key lk lv =>
    simp only [plan]; split
    · trivial
    · exact updatePlan_stepsOk s key lk lv
  | close order =>
    simp only [plan]; split
    · trivial
    · exact closePlan_stepsOk s orc order

theorem inv_init (cfg : Config) : Inv (init cfg) := by
  refine ⟨?_, List.Pairwise.nil, ?_, ?_, ?_, List.nodup_nil, ?_, fun _ => rfl⟩ <;>
    intro a ha <;> simp [init] at ha

theorem inv_runOp {s : State} (h : Inv s) (orc : Oracle) (op : Op) : Inv (runOp s orc op).1 :=
  inv_steps h (plan_stepsOk h orc op)

theorem inv_runOps {s : State} (h : Inv s) (hist : List (Op × Oracle)) : Inv (runOps s hist) := by
  induction hist generalizing s with
  | nil => exact h
  | cons x r ih => exact ih (inv_runOp h x.2 x.1)

/-- the invariant holds in every state a crash can expose. -/
theorem inv_reachable {cfg0 : Config} {s : State} (h : Reachable cfg0 s) : Inv s := by
  obtain ⟨hist, op, orc, k, rfl⟩ := h
  exact inv_steps (inv_runOps (inv_init cfg0) hist) (stepsOk_take (plan_stepsOk (inv_runOps (inv_init cfg0) hist) orc op) k)

/-! ### generic "every step satisfies P in the state it is applied to" -/

def AllSteps (P : State → Step → Prop) (s : State) : List Step → Prop
  | [] => True
  | st :: r => P s st ∧ AllSteps P (applyStep s st) r

theorem allSteps_append {P : State → Step → Prop} {s : State} {a b : List Step} :
    AllSteps P s (a ++ b) ↔ AllSteps P s a ∧ AllSteps P (applySteps s a) b := by
  induction a generalizing s with
  | nil => simp [AllSteps, applySteps]
  | cons x xs ih => simp only [List.cons_append, AllSteps, applySteps_cons, ih, and_assoc]

theorem allSteps_split {P : State → Step → Prop} {s : State} {pre post : List Step} {st : Step}
    (h : AllSteps P s (pre ++ st :: post)) : P (applySteps s pre) st :=
  (allSteps_append.mp h).2.1

theorem stepsOk_split {s : State} {pre post : List Step} {st : Step}
    (h : StepsOk s (pre ++ st :: post)) : StepOk (applySteps s pre) st :=
  (stepsOk_append.mp h).2.1

theorem allSteps_of_forall {P : State → Step → Prop} {l : List Step} (h : ∀ st ∈ l, ∀ s, P s st) (s : State) :
    AllSteps P s l := by
  induction l generalizing s with
  | nil => trivial
  | cons x xs ih =>
    exact ⟨h x (List.mem_cons_self ..) s, ih (fun st hst => h st (List.mem_cons_of_mem _ hst)) _⟩

/-- steps that neither release a mount, delete a directory nor create a snapshot record -/
def Step.isPlain : Step → Bool
  | .fsUnmount _ _ => false
  | .rmdir _ => false
  | .txCreate _ => false
  | _ => true

/-- Side conditions about directories (`closing` = the call is `Close`):
an Unmount of an id-named directory is issued only when no live snapshot owns it (or while closing);
a directory is deleted only when no live snapshot owns it (or, while closing, when it belongs to a
remote snapshot); a snapshot record is committed only when its directory exists. -/
def Safe (closing : Bool) (s : State) : Step → Prop
  | .fsUnmount (.id n) _ => closing = true ∨ ∀ a ∈ s.snaps, a.id ≠ n
  | .rmdir d => liveDir s.snaps d = false ∨ (closing = true ∧ remoteDir s.snaps d = true)
  | .txCreate sn => Dir.id sn.id ∈ s.dirs
  | _ => True

theorem safe_of_plain {c : Bool} {s : State} {st : Step} (h : st.isPlain = true) : Safe c s st := by
  cases st <;> first | trivial | (simp [Step.isPlain] at h)

theorem allSteps_plain {c : Bool} {l : List Step} (h : ∀ st ∈ l, st.isPlain = true) (s : State) :
    AllSteps (Safe c) s l :=
  allSteps_of_forall (fun st hst _ => safe_of_plain (h st hst)) s

theorem cleanupDir_snaps (s : State) (orc : Oracle) (d : Dir) :
    (applySteps s (cleanupDir orc d)).snaps = s.snaps := by
  cases d <;> simp [applySteps, applyStep, cleanupDir]

theorem cleanupDir_safe (c : Bool) (s : State) (orc : Oracle) (d : Dir)
    (h : liveDir s.snaps d = false ∨ (c = true ∧ remoteDir s.snaps d = true)) :
    AllSteps (Safe c) s (cleanupDir orc d) := by
  unfold cleanupDir
  refine ⟨?_, trivial, ?_, trivial, trivial⟩
  · cases d with
    | temp t => trivial
    | id n =>
      rcases h with h | ⟨hc, _⟩
      · right
        intro a ha e
        simp only [liveDir, List.any_eq_false] at h
        exact h a ha (by simp [e])
      · exact Or.inl hc
  · cases d <;> exact h

theorem cleanupSteps_safe (c : Bool) (orc : Oracle) (ds : List Dir) :
    ∀ (s : State), (∀ d ∈ ds, liveDir s.snaps d = false ∨ (c = true ∧ remoteDir s.snaps d = true)) →
      AllSteps (Safe c) s (cleanupSteps orc ds) := by
  induction ds with
  | nil => intro s _; trivial
  | cons d r ih =>
    intro s h
    unfold cleanupSteps
    rw [List.flatMap_cons, allSteps_append]
    refine ⟨cleanupDir_safe c s orc d (h d (List.mem_cons_self ..)), ?_⟩
    apply ih
    intro d' hd'
    rw [cleanupDir_snaps]
    exact h d' (List.mem_cons_of_mem _ hd')

theorem mem_arrange {order set : List Dir} {d : Dir} : d ∈ arrange order set ↔ d ∈ set := by
  unfold arrange
  simp only [List.mem_append, List.mem_filter, List.contains_eq_mem, decide_eq_true_eq, Bool.not_eq_eq_eq_not,
    Bool.not_true, decide_eq_false_iff_not]
  constructor
  · rintro (⟨_, h⟩ | ⟨h, _⟩) <;> exact h
  · intro h
    by_cases ho : d ∈ order
    · exact Or.inl ⟨ho, h⟩
    · exact Or.inr ⟨h, ho⟩

theorem createPlan_safe {s : State} (h : Inv s) (orc : Oracle) (kind : Kind) (key parent : String) (labels : Labels) :
    AllSteps (Safe false) s (createPlan s orc kind key parent labels).1 := by
  unfold createPlan
  simp only []
  split
  · exact ⟨trivial, trivial, cleanupDir_safe _ _ _ _ (Or.inl rfl)⟩
  · split
    · exact ⟨trivial, trivial, trivial, cleanupDir_safe _ _ _ _ (Or.inl rfl)⟩
    · split
      · refine ⟨trivial, trivial, trivial, ?_⟩
        rw [allSteps_append]
        refine ⟨cleanupDir_safe _ _ _ _ (Or.inl rfl), ?_⟩
        apply cleanupDir_safe
        left
        rw [cleanupDir_snaps]
        simp only [liveDir, List.any_eq_false]
        intro a ha
        have := (h.idBound a (by simpa [applyStep] using ha)).2
        simp at this ⊢
        omega
      · refine ⟨trivial, trivial, trivial, trivial, trivial, ?_, trivial, trivial⟩
        simp [Safe, applyStep]

theorem mountsPlan_plain (s : State) (orc : Oracle) (sn : Snap) (pids : List Nat) (ck : String) :
    ∀ st ∈ (mountsPlan s orc sn pids ck).1, st.isPlain = true := by
  unfold mountsPlan
  split
  · simp
  · split
    · simp
    · simp only []
      split <;> (intro st hst; simp only [List.mem_map] at hst; obtain ⟨c, _, rfl⟩ := hst; rfl)

theorem restoreSteps_plain (allow : Bool) (orc : Oracle) (tasks : List Snap) :
    ∀ st ∈ (restoreSteps allow orc tasks).1, st.isPlain = true := by
  induction tasks with
  | nil => simp [restoreSteps]
  | cons sn rest ih =>
    unfold restoreSteps
    split
    · intro st hst
      simp only [List.mem_cons] at hst
      rcases hst with rfl | rfl | rfl | rfl | rfl | hst <;> first | rfl | exact ih st hst
    · split
      · intro st hst
        simp only [List.mem_cons] at hst
        rcases hst with rfl | rfl | rfl | rfl | hst <;> first | rfl | exact ih st hst
      · simp [Step.isPlain]

theorem restartPlan_plain (s : State) (orc : Oracle) (cfg : Config) :
    ∀ st ∈ (restartPlan s orc cfg).1, st.isPlain = true := by
  unfold restartPlan
  split
  · simp [Step.isPlain]
  · split
    · intro st hst
      simp only [List.mem_cons, List.mem_append, List.not_mem_nil, or_false] at hst
      rcases hst with rfl | hst | rfl
      · rfl
      · exact restoreSteps_plain _ _ _ st hst
      · rfl
    · intro st hst
      simp only [List.mem_cons] at hst
      rcases hst with rfl | hst
      · rfl
      · exact restoreSteps_plain _ _ _ st hst

theorem closePlan_safe (s : State) (orc : Oracle) (order : List Dir) :
    AllSteps (Safe true) s (closePlan s orc order).1 := by
  unfold closePlan
  rw [allSteps_append]
  refine ⟨?_, trivial, trivial, trivial⟩
  apply cleanupSteps_safe
  intro d hd
  rw [mem_arrange] at hd
  exact Or.inr ⟨rfl, (List.mem_filter.mp hd).2⟩

/-- Unless the call is `Close`, every plan satisfies the directory side conditions with `closing = false`. -/
theorem plan_safe {s : State} (h : Inv s) (orc : Oracle) (op : Op) (hnc : ∀ order, op ≠ .close order) :
    AllSteps (Safe false) s (plan s orc op).1 := by
  cases op with
  | close order => exact absurd rfl (hnc order)
  | restart cfg => exact allSteps_plain (restartPlan_plain s orc cfg) _
  | prepare key parent labels =>
    simp only [plan]; split
    · trivial
    · have hc := createPlan_safe h orc .active key parent labels
      unfold preparePlan
      split
      · rename_i st1 e heq; rw [heq] at hc; exact hc
      · rename_i st1 sn pids heq
        rw [heq] at hc
        simp only []
        split
        · rw [allSteps_append]
          exact ⟨hc, allSteps_plain (mountsPlan_plain _ _ _ _ _) _⟩
        · split
          · split
            · rw [allSteps_append]
              exact ⟨hc, allSteps_plain (by simp [Step.isPlain]) _⟩
            · split
              · rw [allSteps_append, allSteps_append]
                exact ⟨⟨hc, allSteps_plain (by simp [Step.isPlain]) _⟩, allSteps_plain (by simp [Step.isPlain]) _⟩
              · rw [allSteps_append, allSteps_append]
                exact ⟨⟨hc, allSteps_plain (by simp [Step.isPlain]) _⟩, allSteps_plain (by simp [Step.isPlain]) _⟩
          · rw [allSteps_append]
            exact ⟨hc, trivial, allSteps_plain (mountsPlan_plain _ _ _ _ _) _⟩
  | view key parent labels =>
    simp only [plan]; split
    · trivial
    · have hc := createPlan_safe h orc .view key parent labels
      unfold viewPlan
      split
      · rename_i st1 e heq; rw [heq] at hc; exact hc
      · rename_i st1 sn pids heq
        rw [heq] at hc
        rw [allSteps_append]
        exact ⟨hc, allSteps_plain (mountsPlan_plain _ _ _ _ _) _⟩
  | commit name key labels =>
    simp only [plan]; split
    · trivial
    · apply allSteps_plain
      unfold commitPlan
      split
      · simp
      · split
        · simp
        · split
          · simp
          · split
            · simp
            · split
              · simp
              · simp [Step.isPlain]
  | mounts key =>
    simp only [plan]; split
    · trivial
    · apply allSteps_plain
      unfold mountsOpPlan
      split
      · simp
      · split
        · simp
        · split
          · simp
          · exact mountsPlan_plain _ _ _ _ _
  | remove key order =>
    simp only [plan]; split
    · trivial
    · unfold removePlan
      split
      · trivial
      · split
        · trivial
        · split
          · exact ⟨trivial, trivial⟩
          · refine ⟨trivial, trivial, ?_⟩
            apply cleanupSteps_safe
            intro d hd
            rw [mem_arrange] at hd
            have := (List.mem_filter.mp hd).2
            left
            simpa [applyStep] using this
  | cleanup order =>
    simp only [plan]; split
    · trivial
    · unfold cleanupPlan
      apply cleanupSteps_safe
      intro d hd
      rw [mem_arrange] at hd
      have := (List.mem_filter.mp hd).2
      left
      simpa using this
  | walk =>
    simp only [plan]; split
    · trivial
    · split <;> trivial
  | stat key =>
    simp only [plan]; split
    · trivial
    · split <;> trivial
  | update key lk lv =>
    simp only [plan]; split
    · trivial
    · unfold updatePlan
      split
      · trivial
      · exact ⟨trivial, trivial⟩

/-! ### parent chains and mount lists -/

/-- `ch` is the list of snapshots met by following parent links from key `k` (nearest first). -/
inductive IsChain (snaps : List Snap) : String → List Snap → Prop
  | nil : IsChain snaps "" []
  | cons {k : String} {p : Snap} {rest : List Snap} :
      k ≠ "" → findKey snaps k = some p → IsChain snaps p.parent rest → IsChain snaps k (p :: rest)

theorem chain_isChain {snaps : List Snap} : ∀ (fuel : Nat) (k : String) (ch : List Snap),
    chain snaps fuel k = some ch → IsChain snaps k ch := by
  intro fuel
  induction fuel with
  | zero => intro k ch h; simp [chain] at h
  | succ n ih =>
    intro k ch h
    unfold chain at h
    split at h
    · rename_i hk; cases h; subst hk; exact IsChain.nil
    · rename_i hk
      split at h
      · cases h
      · rename_i p hf
        cases hc : chain snaps n p.parent with
        | none => simp [hc] at h
        | some r =>
          simp [hc] at h
          subst h
          exact IsChain.cons hk hf (ih _ _ hc)

theorem chain_total {s : State} (h : Inv s) : ∀ (fuel : Nat) (k : String),
    ((k = "" ∧ 1 ≤ fuel) ∨ ∃ p, findKey s.snaps k = some p ∧ p.id < fuel) → ∃ ch, chain s.snaps fuel k = some ch := by
  intro fuel
  induction fuel with
  | zero =>
    intro k hk
    rcases hk with ⟨_, h1⟩ | ⟨p, _, h1⟩ <;> omega
  | succ n ih =>
    intro k hk
    unfold chain
    split
    · exact ⟨[], rfl⟩
    · rename_i hne
      rcases hk with ⟨e, _⟩ | ⟨p, hf, hlt⟩
      · exact absurd e hne
      · rw [hf]
        have hp := findKey_some hf
        have hb := h.idBound p hp.1
        have : ∃ ch, chain s.snaps n p.parent = some ch := by
          apply ih
          by_cases hpp : p.parent = ""
          · left; exact ⟨hpp, by omega⟩
          · right
            obtain ⟨q, hq1, hq2, _, hq4⟩ := h.parentOk p hp.1 hpp
            refine ⟨q, ?_, by omega⟩
            rw [← hq2]; exact h.findKey_of_mem hq1
        obtain ⟨ch, hch⟩ := this
        exact ⟨p :: ch, by simp [hch]⟩

theorem chainOf_total {s : State} (h : Inv s) (k : String) (hk : k = "" ∨ hasKey s.snaps k = true) :
    ∃ ch, chainOf s k = some ch ∧ IsChain s.snaps k ch := by
  have : ∃ ch, chain s.snaps (s.seq + 1) k = some ch := by
    apply chain_total h
    rcases hk with e | hk
    · left; exact ⟨e, by omega⟩
    · right
      obtain ⟨p, hf⟩ := hasKey_true.mp hk
      have := (h.idBound p (findKey_some hf).1).2
      exact ⟨p, hf, by omega⟩
  obtain ⟨ch, hch⟩ := this
  exact ⟨ch, hch, chain_isChain _ _ _ hch⟩

theorem mountsPlan_result {s : State} {orc : Oracle} {sn : Snap} {pids : List Nat} {ck : String} {m : MountSpec}
    (h : (mountsPlan s orc sn pids ck).2 = .mounts m) :
    m = mountSpec sn pids ∧
    (ck = "" ∨ ∃ ch, chainOf s ck = some ch ∧ ∀ c ∈ ch, isRemote c.labels = true → orc.checkOk c.id = true) := by
  unfold mountsPlan at h
  split at h
  · rename_i hck
    simp only [Res.mounts.injEq] at h
    exact ⟨h.symm, Or.inl hck⟩
  · split at h
    · cases h
    · rename_i ch hch
      simp only [] at h
      split at h
      · rename_i hall
        simp only [Res.mounts.injEq] at h
        refine ⟨h.symm, Or.inr ⟨ch, hch, ?_⟩⟩
        intro c hc hr
        simp only [List.all_eq_true] at hall
        exact hall c (by unfold remoteOf; exact List.mem_filter.mpr ⟨hc, hr⟩)
      · cases h

theorem mountSpec_overlay {sn : Snap} {pids : List Nat} {up : Option Nat} {lower : List Nat}
    (h : mountSpec sn pids = .overlay up lower) : lower = pids ∧ pids ≠ [] := by
  unfold mountSpec at h
  split at h
  · cases h
  · split at h
    · simp only [MountSpec.overlay.injEq] at h
      exact ⟨h.2.symm, by simp⟩
    · split at h
      · cases h
      · simp only [MountSpec.overlay.injEq] at h
        exact ⟨h.2.symm, by simp⟩

theorem preparePlan_mounts {s : State} {orc : Oracle} {key parent : String} {labels : Labels} {m : MountSpec}
    (h : (preparePlan s orc key parent labels).2 = .mounts m) :
    ∃ st1 sn pids, createPlan s orc .active key parent labels = (st1, .ok (sn, pids)) ∧
      (mountsPlan (applySteps s st1) orc sn pids parent).2 = .mounts m ∧
      applySteps s (preparePlan s orc key parent labels).1 = applySteps s st1 ∧
      (lget labels targetLabel = none ∨ orc.mountOk sn.id = false) := by
  unfold preparePlan at h ⊢
  split at h
  · cases h
  · rename_i st1 sn pids heq
    rw [heq]
    simp only [] at h ⊢
    refine ⟨st1, sn, pids, rfl, ?_⟩
    split at h
    · rename_i hl
      simp only [hl]
      refine ⟨h, ?_, Or.inl trivial⟩
      rw [applySteps_append, mountsPlan_state]
    · rename_i target hl
      simp only [hl]
      split at h
      · split at h
        · cases h
        · split at h <;> cases h
      · rename_i hmo
        simp only [hmo]
        refine ⟨h, ?_, Or.inr (by simp)⟩
        simp only [Bool.false_eq_true, if_false]
        rw [applySteps_append, applySteps_cons]
        show applySteps (applySteps s st1) _ = _
        exact mountsPlan_state _ _ _ _ _

theorem viewPlan_mounts {s : State} {orc : Oracle} {key parent : String} {labels : Labels} {m : MountSpec}
    (h : (viewPlan s orc key parent labels).2 = .mounts m) :
    ∃ st1 sn pids, createPlan s orc .view key parent labels = (st1, .ok (sn, pids)) ∧
      (mountsPlan (applySteps s st1) orc sn pids parent).2 = .mounts m ∧
      applySteps s (viewPlan s orc key parent labels).1 = applySteps s st1 := by
  unfold viewPlan at h ⊢
  split at h
  · cases h
  · rename_i st1 sn pids heq
    rw [heq]
    simp only [] at h ⊢
    exact ⟨st1, sn, pids, rfl, h, by rw [applySteps_append, mountsPlan_state]⟩

theorem chainOf_empty (s : State) : chainOf s "" = some [] := by
  simp [chainOf, chain]

theorem mountsPlan_result' {s : State} {orc : Oracle} {sn : Snap} {pids : List Nat} {ck : String} {m : MountSpec}
    (h : (mountsPlan s orc sn pids ck).2 = .mounts m) :
    m = mountSpec sn pids ∧
    ∃ ch, chainOf s ck = some ch ∧ ∀ c ∈ ch, isRemote c.labels = true → orc.checkOk c.id = true := by
  obtain ⟨h1, h2⟩ := mountsPlan_result h
  refine ⟨h1, ?_⟩
  rcases h2 with rfl | h2
  · exact ⟨[], chainOf_empty s, fun c hc => nomatch hc⟩
  · exact h2

/-- which calls can return a mount list -/
theorem plan_mounts_cases {s : State} {orc : Oracle} {op : Op} {m : MountSpec}
    (h : (plan s orc op).2 = .mounts m) :
    (∃ k p l, op = .prepare k p l ∧ plan s orc op = preparePlan s orc k p l) ∨
    (∃ k p l, op = .view k p l ∧ plan s orc op = viewPlan s orc k p l) ∨
    (∃ k, op = .mounts k ∧ plan s orc op = mountsOpPlan s orc k) := by
  cases op with
  | restart cfg =>
    simp only [plan, restartPlan] at h
    split at h
    · cases h
    · split at h <;> cases h
  | prepare k p l =>
    simp only [plan] at h ⊢
    split at h
    · cases h
    · rename_i hc; simp only [hc]; exact Or.inl ⟨k, p, l, rfl, rfl⟩
  | view k p l =>
    simp only [plan] at h ⊢
    split at h
    · cases h
    · rename_i hc; simp only [hc]; exact Or.inr (Or.inl ⟨k, p, l, rfl, rfl⟩)
  | mounts k =>
    simp only [plan] at h ⊢
    split at h
    · cases h
    · rename_i hc; simp [hc]
  | commit name key labels =>
    simp only [plan, commitPlan] at h
    split at h
    · cases h
    · split at h
      · cases h
      · split at h
        · cases h
        · split at h
          · cases h
          · split at h
            · cases h
            · split at h <;> cases h
  | remove key order =>
    simp only [plan, removePlan] at h
    split at h
    · cases h
    · split at h
      · cases h
      · split at h
        · cases h
        · split at h <;> cases h
  | cleanup order =>
    simp only [plan, cleanupPlan] at h
    split at h <;> cases h
  | walk =>
    simp only [plan] at h
    split at h
    · cases h
    · split at h <;> cases h
  | stat key =>
    simp only [plan] at h
    split at h
    · cases h
    · split at h <;> cases h
  | update key lk lv =>
    simp only [plan, updatePlan] at h
    split at h
    · cases h
    · split at h <;> cases h
  | close order =>
    simp only [plan, closePlan] at h
    split at h <;> cases h

theorem mountsOp_spec {s : State} {orc : Oracle} {key : String} {m : MountSpec}
    (h : (mountsOpPlan s orc key).2 = .mounts m) :
    applySteps s (mountsOpPlan s orc key).1 = s ∧
    ∃ sn ps, findKey s.snaps key = some sn ∧ chainOf s sn.parent = some ps ∧ m = mountSpec sn (ps.map (·.id)) ∧
      ∃ ch, chainOf s key = some ch ∧ ∀ c ∈ ch, isRemote c.labels = true → orc.checkOk c.id = true := by
  unfold mountsOpPlan at h ⊢
  split at h
  · cases h
  · rename_i sn hf
    simp only [hf]
    split at h
    · cases h
    · rename_i hk
      simp only [hk]
      split at h
      · cases h
      · rename_i ps hps
        obtain ⟨h1, h2⟩ := mountsPlan_result' h
        exact ⟨mountsPlan_state _ _ _ _ _, sn, ps, rfl, hps, h1, h2⟩

theorem create_mounts_spec {s : State} (hinv : Inv s) {orc : Oracle} {kind : Kind} {key parent : String}
    {labels : Labels} {st1 : List Step} {sn : Snap} {pids : List Nat} {m : MountSpec}
    (hc : createPlan s orc kind key parent labels = (st1, .ok (sn, pids)))
    (hm : (mountsPlan (applySteps s st1) orc sn pids parent).2 = .mounts m) :
    findKey (applySteps s st1).snaps key = some sn ∧ sn.parent = parent ∧ sn.kind = kind ∧ sn.labels = labels ∧
    sn.id = s.seq + 1 ∧
    ∃ ps, chainOf s parent = some ps ∧ m = mountSpec sn (ps.map (·.id)) ∧
      ∃ ch, chainOf (applySteps s st1) parent = some ch ∧ ∀ c ∈ ch, isRemote c.labels = true → orc.checkOk c.id = true := by
  have hok := createPlan_stepsOk hinv orc kind key parent labels
  rw [hc] at hok
  have hinv1 := inv_steps hinv hok
  obtain ⟨ps, hchk, hp, _, _, hsn, hst⟩ := createPlan_ok hc
  have hmem : sn ∈ (applySteps s st1).snaps := by rw [hst]; exact mem_insertSnap.mpr (Or.inl rfl)
  have hk : sn.key = key := by rw [hsn]
  obtain ⟨h1, h2⟩ := mountsPlan_result' hm
  refine ⟨by rw [← hk]; exact hinv1.findKey_of_mem hmem, by rw [hsn], by rw [hsn], by rw [hsn], by rw [hsn], ps,
    (createChecks_ok hchk).2.2.2, by rw [h1, hp], h2⟩

theorem findKey_insertSnap_ne {sn : Snap} {l : List Snap} {k : String} (h : k ≠ sn.key) :
    findKey (insertSnap sn l) k = findKey l k := by
  induction l with
  | nil =>
    simp only [insertSnap, findKey, List.find?_cons, List.find?_nil]
    have : (sn.key == k) = false := by simp [Ne.symm h]
    simp [this]
  | cons y ys ih =>
    unfold insertSnap
    split
    · simp only [findKey, List.find?_cons]
      have : (sn.key == k) = false := by simp [Ne.symm h]
      simp [this]
    · simp only [findKey, List.find?_cons] at ih ⊢
      split
      · rfl
      · exact ih

def committedOf (l : List Snap) : List Snap := l.filter (fun a => a.kind == .committed)

theorem committedOf_insert {sn : Snap} {l : List Snap} (h : sn.kind ≠ .committed) :
    committedOf (insertSnap sn l) = committedOf l := by
  have hk : (sn.kind == Kind.committed) = false := by simp [h]
  induction l with
  | nil => simp [insertSnap, committedOf, hk]
  | cons y ys ih =>
    unfold insertSnap
    split
    · simp [committedOf, List.filter_cons, hk]
    · simp only [committedOf, List.filter_cons] at ih ⊢
      rw [ih]

theorem createChecks_err_exists {s : State} {key parent : String}
    (h : createChecks s key parent = .error .exists) : hasKey s.snaps key = true := by
  unfold createChecks at h
  split at h
  · rename_i e hpe
    simp only [Except.error.injEq] at h
    subst h
    unfold parentErr at hpe
    split at hpe
    · cases hpe
    · split at hpe
      · cases hpe
      · split at hpe <;> cases hpe
  · split at h
    · cases h
    · split at h
      · assumption
      · split at h <;> cases h

theorem createPlan_err_exists {s : State} {orc : Oracle} {kind : Kind} {key parent : String} {labels : Labels}
    {st : List Step} (h : createPlan s orc kind key parent labels = (st, .error .exists)) :
    hasKey s.snaps key = true := by
  unfold createPlan at h
  simp only [] at h
  split at h
  · rename_i e hc
    simp only [Prod.mk.injEq, Except.error.injEq] at h
    rw [h.2] at hc
    exact createChecks_err_exists hc
  · split at h
    · simp at h
    · split at h
      · simp at h
      · simp at h

theorem isRemote_lset (l : Labels) (v : String) : isRemote (lset l remoteLabel v) = true := by
  simp [isRemote, lhas, lset, lget]

theorem mountsPlan_res_cases (s : State) (orc : Oracle) (sn : Snap) (pids : List Nat) (ck : String) :
    (∃ m, (mountsPlan s orc sn pids ck).2 = .mounts m) ∨ (mountsPlan s orc sn pids ck).2 = .err .unavailable := by
  unfold mountsPlan
  split
  · exact Or.inl ⟨_, rfl⟩
  · split
    · exact Or.inr rfl
    · simp only []
      split
      · exact Or.inl ⟨_, rfl⟩
      · exact Or.inr rfl

/-! ### final states of the cleanup loops and of restore -/

theorem cleanupDir_state (s : State) (orc : Oracle) (d : Dir) :
    (applySteps s (cleanupDir orc d)).snaps = s.snaps ∧ (applySteps s (cleanupDir orc d)).closed = s.closed ∧
    (applySteps s (cleanupDir orc d)).seq = s.seq ∧ (applySteps s (cleanupDir orc d)).init = s.init ∧
    (applySteps s (cleanupDir orc d)).cfg = s.cfg ∧
    (∀ x, x ∈ (applySteps s (cleanupDir orc d)).dirs ↔ x ∈ s.dirs ∧ x ≠ d) ∧
    (∀ n, n ∈ (applySteps s (cleanupDir orc d)).mounts ↔ n ∈ s.mounts ∧ Dir.id n ≠ d) := by
  cases d with
  | temp t => simp [applySteps, applyStep, cleanupDir]
  | id m => simp [applySteps, applyStep, cleanupDir]

theorem cleanupSteps_state (orc : Oracle) (ds : List Dir) : ∀ (s : State),
    (applySteps s (cleanupSteps orc ds)).snaps = s.snaps ∧ (applySteps s (cleanupSteps orc ds)).closed = s.closed ∧
    (applySteps s (cleanupSteps orc ds)).seq = s.seq ∧ (applySteps s (cleanupSteps orc ds)).init = s.init ∧
    (applySteps s (cleanupSteps orc ds)).cfg = s.cfg ∧
    (∀ x, x ∈ (applySteps s (cleanupSteps orc ds)).dirs ↔ x ∈ s.dirs ∧ x ∉ ds) ∧
    (∀ n, n ∈ (applySteps s (cleanupSteps orc ds)).mounts ↔ n ∈ s.mounts ∧ Dir.id n ∉ ds) := by
  induction ds with
  | nil => intro s; simp [cleanupSteps, applySteps]
  | cons d r ih =>
    intro s
    have h1 := cleanupDir_state s orc d
    have h2 := ih (applySteps s (cleanupDir orc d))
    unfold cleanupSteps at h2 ⊢
    rw [List.flatMap_cons, applySteps_append]
    obtain ⟨a1, a2, a3, a4, a5, a6, a7⟩ := h1
    obtain ⟨b1, b2, b3, b4, b5, b6, b7⟩ := h2
    refine ⟨b1.trans a1, b2.trans a2, b3.trans a3, b4.trans a4, b5.trans a5, ?_, ?_⟩
    · intro x; rw [b6, a6]; simp only [List.mem_cons, not_or]; constructor
      · rintro ⟨⟨h, h'⟩, h''⟩; exact ⟨h, h', h''⟩
      · rintro ⟨h, h', h''⟩; exact ⟨⟨h, h'⟩, h''⟩
    · intro n; rw [b7, a7]; simp only [List.mem_cons, not_or]; constructor
      · rintro ⟨⟨h, h'⟩, h''⟩; exact ⟨h, h', h''⟩
      · rintro ⟨h, h', h''⟩; exact ⟨⟨h, h'⟩, h''⟩

theorem restoreSteps_state (allow : Bool) (orc : Oracle) (tasks : List Snap) : ∀ (s : State),
    (applySteps s (restoreSteps allow orc tasks).1).snaps = s.snaps ∧
    (applySteps s (restoreSteps allow orc tasks).1).closed = s.closed ∧
    (applySteps s (restoreSteps allow orc tasks).1).seq = s.seq ∧
    (applySteps s (restoreSteps allow orc tasks).1).init = s.init ∧
    (applySteps s (restoreSteps allow orc tasks).1).cfg = s.cfg ∧
    (∀ x, x ∈ (applySteps s (restoreSteps allow orc tasks).1).dirs →
        x ∈ s.dirs ∨ ∃ t ∈ tasks, x = Dir.id t.id) ∧
    (∀ x, x ∈ s.dirs → x ∈ (applySteps s (restoreSteps allow orc tasks).1).dirs) ∧
    ((restoreSteps allow orc tasks).2 = true →
        ∀ t ∈ tasks, Dir.id t.id ∈ (applySteps s (restoreSteps allow orc tasks).1).dirs) := by
  induction tasks with
  | nil => intro s; simp [restoreSteps, applySteps]
  | cons sn rest ih =>
    intro s
    obtain ⟨m1, m2, m3, m4, m5⟩ := mkdirId_facts s sn.id
    have hmc : (applyStep s (.mkdirId sn.id)).closed = s.closed := by simp only [applyStep]; split <;> rfl
    have hmi : (applyStep s (.mkdirId sn.id)).init = s.init := by simp only [applyStep]; split <;> rfl
    have hmg : (applyStep s (.mkdirId sn.id)).cfg = s.cfg := by simp only [applyStep]; split <;> rfl
    unfold restoreSteps
    split
    · simp only [applySteps_cons]
      have := ih (applyStep (applyStep (applyStep (applyStep (applyStep s (.mkdirId sn.id)) (.marker "restore.mkdir"))
        (.mkdirFs sn.id)) (.fsMount sn.id sn.labels true)) (.marker "restore.mounted"))
      obtain ⟨b1, b2, b3, b4, b5, b6, b7, b8⟩ := this
      refine ⟨b1.trans m4, b2.trans hmc, b3.trans m3, b4.trans hmi, b5.trans hmg, ?_, ?_, ?_⟩
      · intro x hx
        rcases b6 x hx with h | ⟨t, ht, rfl⟩
        · rcases (m5 x).mp h with h | rfl
          · exact Or.inl h
          · exact Or.inr ⟨sn, List.mem_cons_self .., rfl⟩
        · exact Or.inr ⟨t, List.mem_cons_of_mem _ ht, rfl⟩
      · intro x hx; exact b7 x ((m5 x).mpr (Or.inl hx))
      · intro hok t ht
        rcases List.mem_cons.mp ht with rfl | ht
        · exact b7 _ m1
        · exact b8 hok t ht
    · split
      · simp only [applySteps_cons]
        have := ih (applyStep (applyStep (applyStep (applyStep s (.mkdirId sn.id)) (.marker "restore.mkdir"))
          (.mkdirFs sn.id)) (.fsMount sn.id sn.labels false))
        obtain ⟨b1, b2, b3, b4, b5, b6, b7, b8⟩ := this
        refine ⟨b1.trans m4, b2.trans hmc, b3.trans m3, b4.trans hmi, b5.trans hmg, ?_, ?_, ?_⟩
        · intro x hx
          rcases b6 x hx with h | ⟨t, ht, rfl⟩
          · rcases (m5 x).mp h with h | rfl
            · exact Or.inl h
            · exact Or.inr ⟨sn, List.mem_cons_self .., rfl⟩
          · exact Or.inr ⟨t, List.mem_cons_of_mem _ ht, rfl⟩
        · intro x hx; exact b7 x ((m5 x).mpr (Or.inl hx))
        · intro hok t ht
          rcases List.mem_cons.mp ht with rfl | ht
          · exact b7 _ m1
          · exact b8 hok t ht
      · simp only [applySteps_cons, applySteps_nil]
        refine ⟨m4, hmc, m3, hmi, hmg, ?_, ?_, ?_⟩
        · intro x hx
          rcases (m5 x).mp hx with h | rfl
          · exact Or.inl h
          · exact Or.inr ⟨sn, List.mem_cons_self .., rfl⟩
        · intro x hx; exact (m5 x).mpr (Or.inl hx)
        · intro hok; cases hok

/-! ### every live snapshot has its directory (quiescent states) -/

def AllDirs (s : State) : Prop := ∀ a ∈ s.snaps, Dir.id a.id ∈ s.dirs

theorem allDirs_step {s : State} (h : AllDirs s) {st : Step} (hs : Safe false s st) : AllDirs (applyStep s st) := by
  cases st with
  | mkTemp t => intro a ha; exact List.mem_append_left _ (h a ha)
  | rename t id =>
    intro a ha
    show Dir.id a.id ∈ (s.dirs.filter (fun d => d != Dir.temp t)) ++ [Dir.id id]
    apply List.mem_append_left
    rw [filter_ne_mem]; exact ⟨h a ha, by simp⟩
  | txCreate sn =>
    intro a ha
    rcases mem_insertSnap.mp ha with rfl | ha
    · exact hs
    · exact h a ha
  | fsMount id l ok => cases ok <;> exact h
  | txCommitActive key name lb =>
    intro a ha
    simp only [applyStep, commitActive] at ha
    split at ha
    · exact h a ha
    · rename_i sn hf
      rcases mem_insertSnap.mp ha with rfl | ha
      · exact h sn (findKey_some hf).1
      · exact h a (mem_removeKey.mp ha).1
  | txRemove key => intro a ha; exact h a (mem_removeKey.mp ha).1
  | txUpdate key lb =>
    intro a ha
    obtain ⟨y, hy, rfl⟩ := mem_updateLabels.mp ha
    have := h y hy
    split <;> exact this
  | fsUnmount d ok => cases d <;> exact h
  | rmdir d =>
    intro a ha
    show Dir.id a.id ∈ s.dirs.filter (fun x => x != d)
    rw [filter_ne_mem]
    refine ⟨h a ha, ?_⟩
    rintro rfl
    rcases hs with hl | ⟨hc, _⟩
    · simp only [liveDir, List.any_eq_false] at hl
      exact hl a ha (by simp)
    · cases hc
  | fsCheck id ok => exact h
  | mkdirId id =>
    intro a ha
    have ha' : a ∈ s.snaps := by rw [← (mkdirId_facts s id).2.2.2.1]; exact ha
    exact ((mkdirId_facts s id).2.2.2.2 _).mpr (Or.inl (h a ha'))
  | mkdirFs id => exact h
  | dbClose => exact h
  | crash cfg => exact h
  | opened => exact h
  | marker m => exact h

theorem allDirs_steps {l : List Step} : ∀ {s : State}, AllDirs s → AllSteps (Safe false) s l → AllDirs (applySteps s l) := by
  induction l with
  | nil => intro s h _; exact h
  | cons st r ih => intro s h hs; exact ih (allDirs_step h hs.1) hs.2

/-- quiescent invariant: a live snapshot lacks its directory only if it is remote and the
snapshotter is closed (Close deletes the directories of remote snapshots, restore recreates them) -/
def QDirs (s : State) : Prop :=
  ∀ a ∈ s.snaps, Dir.id a.id ∈ s.dirs ∨ (isRemote a.labels = true ∧ s.closed = true)

theorem plan_closed {s : State} (hc : s.closed = true) (orc : Oracle) (op : Op) (hnr : ∀ cfg, op ≠ .restart cfg) :
    plan s orc op = ([], .err .other) := by
  cases op with
  | restart cfg => exact absurd rfl (hnr cfg)
  | _ => simp [plan, hc]

theorem qdirs_runOp {s : State} (hinv : Inv s) (hq : QDirs s) (orc : Oracle) (op : Op)
    (hres : ∀ cfg, op = .restart cfg → cfg.noRestore = false) : QDirs (runOp s orc op).1 := by
  unfold runOp
  by_cases hrs : ∃ cfg, op = .restart cfg
  · obtain ⟨cfg, rfl⟩ := hrs
    have hnr := hres cfg rfl
    simp only [plan, restartPlan, hnr, Bool.false_eq_true, if_false]
    obtain ⟨r1, r2, _, _, _, _, r7, r8⟩ := restoreSteps_state cfg.allowInvalid orc (remoteOf s.snaps) (applyStep s (.crash cfg))
    split
    · rename_i hok
      simp only [applySteps_cons, applySteps_append, applySteps_nil]
      intro a ha
      have ha' : a ∈ s.snaps := by
        have : a ∈ (applySteps (applyStep s (.crash cfg)) (restoreSteps cfg.allowInvalid orc (remoteOf s.snaps)).1).snaps := ha
        rw [r1] at this; exact this
      left
      show Dir.id a.id ∈ (applySteps (applyStep s (.crash cfg)) (restoreSteps cfg.allowInvalid orc (remoteOf s.snaps)).1).dirs
      rcases hq a ha' with hd | ⟨hr, _⟩
      · exact r7 _ hd
      · exact r8 hok a (List.mem_filter.mpr ⟨ha', hr⟩)
    · simp only [applySteps_cons]
      intro a ha
      rw [r1] at ha
      have ha' : a ∈ s.snaps := ha
      rcases hq a ha' with hd | ⟨hr, _⟩
      · exact Or.inl (r7 _ hd)
      · right; exact ⟨hr, by rw [r2]; rfl⟩
  · have hnr : ∀ cfg, op ≠ .restart cfg := fun cfg e => hrs ⟨cfg, e⟩
    by_cases hcl : s.closed = true
    · rw [plan_closed hcl orc op hnr]; exact hq
    · have hopen : s.closed = false := by simpa using hcl
      have had : AllDirs s := by
        intro a ha
        rcases hq a ha with h | ⟨_, h⟩
        · exact h
        · rw [hopen] at h; cases h
      by_cases hclose : ∃ order, op = .close order
      · obtain ⟨order, rfl⟩ := hclose
        simp only [plan, hopen, Bool.false_eq_true, if_false, closePlan, applySteps_append]
        obtain ⟨c1, c2, _, _, _, c6, _⟩ := cleanupSteps_state orc (arrange order (s.dirs.filter (fun d => remoteDir s.snaps d))) s
        intro a ha
        have ha' : a ∈ s.snaps := by
          have : a ∈ (applySteps s (cleanupSteps orc (arrange order (s.dirs.filter (fun d => remoteDir s.snaps d))))).snaps := ha
          rw [c1] at this; exact this
        by_cases hin : Dir.id a.id ∈ arrange order (s.dirs.filter (fun d => remoteDir s.snaps d))
        · right
          rw [mem_arrange] at hin
          have hrd := (List.mem_filter.mp hin).2
          simp only [remoteDir, List.any_eq_true, Bool.and_eq_true, beq_iff_eq] at hrd
          obtain ⟨b, hb, hbid, hbr⟩ := hrd
          have : b = a := hinv.idInj hb ha' hbid
          rw [← this]
          exact ⟨hbr, rfl⟩
        · left
          show Dir.id a.id ∈ (applySteps s (cleanupSteps orc _)).dirs
          exact (c6 _).mpr ⟨had a ha', hin⟩
      · have hs := plan_safe hinv orc op (fun order e => hclose ⟨order, e⟩)
        have := allDirs_steps had hs
        intro a ha
        exact Or.inl (this a ha)

/-- every restart in the history restores (NoRestore is off) -/
def RestoreOn (hist : List (Op × Oracle)) : Prop := ∀ p ∈ hist, ∀ cfg, p.1 = .restart cfg → cfg.noRestore = false

theorem qdirs_runOps {s : State} (hinv : Inv s) (hq : QDirs s) (hist : List (Op × Oracle)) (hro : RestoreOn hist) :
    QDirs (runOps s hist) := by
  induction hist generalizing s with
  | nil => exact hq
  | cons x r ih =>
    apply ih (inv_runOp hinv x.2 x.1) (qdirs_runOp hinv hq x.2 x.1 (hro x (List.mem_cons_self ..)))
    intro p hp; exact hro p (List.mem_cons_of_mem _ hp)

theorem qdirs_init (cfg : Config) : QDirs (init cfg) := by
  intro a ha; simp [init] at ha

/-! ### the remote label (calls that do not set it themselves) -/

/-- the caller does not put the remote label into the labels it supplies -/
def CleanOp : Op → Prop
  | .prepare _ _ l => isRemote l = false
  | .view _ _ l => isRemote l = false
  | .commit _ _ l => isRemote l = false
  | .update _ lk _ => lk ≠ remoteLabel
  | _ => True

/-- the target named by a `Prepare` -/
def targetOf : Op → Option String
  | .prepare _ _ l => lget l targetLabel
  | _ => none

def Step.isLabelStep : Step → Bool
  | .txCreate _ => true
  | .txCommitActive _ _ _ => true
  | .txUpdate _ _ => true
  | _ => false

/-- Side conditions about the remote label: records are created without it, `Update` keeps it as it
is, and it is only ever set by the internal commit of a `Prepare` naming that target, on a snapshot
that carries a live backend mount. -/
def RemoteSafe (tgt : Option String) (s : State) : Step → Prop
  | .txCreate sn => isRemote sn.labels = false
  | .txCommitActive key name lb => isRemote lb = true →
      tgt = some name ∧ ∃ sn, findKey s.snaps key = some sn ∧ sn.id ∈ s.mounts
  | .txUpdate key lb => ∀ sn, findKey s.snaps key = some sn → isRemote lb = isRemote sn.labels
  | _ => True

theorem remoteSafe_of_notLabel {tgt : Option String} {s : State} {st : Step} (h : st.isLabelStep = false) :
    RemoteSafe tgt s st := by
  cases st <;> first | trivial | (simp [Step.isLabelStep] at h)

theorem allSteps_notLabel {tgt : Option String} {l : List Step} (h : ∀ st ∈ l, st.isLabelStep = false) (s : State) :
    AllSteps (RemoteSafe tgt) s l :=
  allSteps_of_forall (fun st hst _ => remoteSafe_of_notLabel (h st hst)) s

theorem cleanupSteps_notLabel (orc : Oracle) (ds : List Dir) : ∀ st ∈ cleanupSteps orc ds, st.isLabelStep = false := by
  intro st hst
  unfold cleanupSteps at hst
  rw [List.mem_flatMap] at hst
  obtain ⟨d, _, hd⟩ := hst
  simp only [cleanupDir, List.mem_cons, List.not_mem_nil, or_false] at hd
  rcases hd with rfl | rfl | rfl | rfl <;> rfl

theorem cleanupDir_notLabel (orc : Oracle) (d : Dir) : ∀ st ∈ cleanupDir orc d, st.isLabelStep = false := by
  intro st hd
  simp only [cleanupDir, List.mem_cons, List.not_mem_nil, or_false] at hd
  rcases hd with rfl | rfl | rfl | rfl <;> rfl

theorem mountsPlan_notLabel (s : State) (orc : Oracle) (sn : Snap) (pids : List Nat) (ck : String) :
    ∀ st ∈ (mountsPlan s orc sn pids ck).1, st.isLabelStep = false := by
  unfold mountsPlan
  split
  · simp
  · split
    · simp
    · simp only []
      split <;> (intro st hst; simp only [List.mem_map] at hst; obtain ⟨c, _, rfl⟩ := hst; rfl)

theorem restoreSteps_notLabel (allow : Bool) (orc : Oracle) (tasks : List Snap) :
    ∀ st ∈ (restoreSteps allow orc tasks).1, st.isLabelStep = false := by
  induction tasks with
  | nil => simp [restoreSteps]
  | cons sn rest ih =>
    unfold restoreSteps
    split
    · intro st hst
      simp only [List.mem_cons] at hst
      rcases hst with rfl | rfl | rfl | rfl | rfl | hst <;> first | rfl | exact ih st hst
    · split
      · intro st hst
        simp only [List.mem_cons] at hst
        rcases hst with rfl | rfl | rfl | rfl | hst <;> first | rfl | exact ih st hst
      · simp [Step.isLabelStep]

theorem lget_ldel_ne {l : Labels} {k k' : String} (h : k' ≠ k) : lget (ldel l k) k' = lget l k' := by
  induction l with
  | nil => rfl
  | cons p r ih =>
    obtain ⟨a, b⟩ := p
    simp only [ldel, List.filter_cons]
    by_cases hak : a = k
    · subst hak
      simp only [bne_self_eq_false, Bool.false_eq_true, if_false]
      rw [show lget ((a, b) :: r) k' = lget r k' by simp [lget, Ne.symm h]]
      exact ih
    · have : (a != k) = true := by simp [hak]
      simp only [this, if_true, lget]
      split
      · rfl
      · exact ih

theorem isRemote_ldel_ne {l : Labels} {k : String} (h : k ≠ remoteLabel) : isRemote (ldel l k) = isRemote l := by
  simp only [isRemote, lhas, lget_ldel_ne (Ne.symm h)]

theorem isRemote_lset_ne {l : Labels} {k v : String} (h : k ≠ remoteLabel) : isRemote (lset l k v) = isRemote l := by
  simp only [isRemote, lhas, lset, lget, h, if_false, lget_ldel_ne (Ne.symm h)]

theorem createPlan_remoteSafe {tgt : Option String} (s : State) (orc : Oracle) (kind : Kind) (key parent : String)
    (labels : Labels) (hl : isRemote labels = false) :
    AllSteps (RemoteSafe tgt) s (createPlan s orc kind key parent labels).1 := by
  unfold createPlan
  simp only []
  split
  · exact ⟨trivial, trivial, allSteps_notLabel (cleanupDir_notLabel _ _) _⟩
  · split
    · exact ⟨trivial, trivial, trivial, allSteps_notLabel (cleanupDir_notLabel _ _) _⟩
    · split
      · refine ⟨trivial, trivial, trivial, ?_⟩
        rw [allSteps_append]
        exact ⟨allSteps_notLabel (cleanupDir_notLabel _ _) _, allSteps_notLabel (cleanupDir_notLabel _ _) _⟩
      · exact ⟨trivial, trivial, trivial, trivial, trivial, hl, trivial, trivial⟩

theorem plan_remoteSafe {s : State} (hinv : Inv s) (orc : Oracle) (op : Op) (hclean : CleanOp op) :
    AllSteps (RemoteSafe (targetOf op)) s (plan s orc op).1 := by
  cases op with
  | restart cfg =>
    apply allSteps_notLabel
    simp only [plan, restartPlan]
    split
    · simp [Step.isLabelStep]
    · split
      · intro st hst
        simp only [List.mem_cons, List.mem_append, List.not_mem_nil, or_false] at hst
        rcases hst with rfl | hst | rfl
        · rfl
        · exact restoreSteps_notLabel _ _ _ st hst
        · rfl
      · intro st hst
        simp only [List.mem_cons] at hst
        rcases hst with rfl | hst
        · rfl
        · exact restoreSteps_notLabel _ _ _ st hst
  | prepare key parent labels =>
    simp only [plan]; split
    · trivial
    · have hc := createPlan_remoteSafe (tgt := targetOf (.prepare key parent labels)) s orc .active key parent labels hclean
      have hok := createPlan_stepsOk hinv orc .active key parent labels
      unfold preparePlan
      split
      · rename_i st1 e heq; rw [heq] at hc; exact hc
      · rename_i st1 sn pids heq
        rw [heq] at hc hok
        obtain ⟨ps, _, _, _, _, hsn, hst⟩ := createPlan_ok heq
        have hinv1 := inv_steps hinv hok
        have hmem : sn ∈ (applySteps s st1).snaps := by rw [hst]; exact mem_insertSnap.mpr (Or.inl rfl)
        have hkey : sn.key = key := by rw [hsn]
        have hfk : findKey (applySteps s st1).snaps key = some sn := by rw [← hkey]; exact hinv1.findKey_of_mem hmem
        simp only []
        split
        · rw [allSteps_append]
          exact ⟨hc, allSteps_notLabel (mountsPlan_notLabel _ _ _ _ _) _⟩
        · rename_i target htl
          split
          · split
            · rw [allSteps_append]
              exact ⟨hc, allSteps_notLabel (by simp [Step.isLabelStep]) _⟩
            · split
              · rw [allSteps_append, allSteps_append]
                exact ⟨⟨hc, allSteps_notLabel (by simp [Step.isLabelStep]) _⟩, allSteps_notLabel (by simp [Step.isLabelStep]) _⟩
              · rw [allSteps_append, allSteps_append]
                refine ⟨⟨hc, allSteps_notLabel (by simp [Step.isLabelStep]) _⟩, trivial, ?_, trivial, trivial⟩
                intro _
                refine ⟨htl, sn, ?_, ?_⟩
                · simpa [applySteps, applyStep] using hfk
                · simp [applySteps, applyStep]
          · rw [allSteps_append]
            exact ⟨hc, trivial, allSteps_notLabel (mountsPlan_notLabel _ _ _ _ _) _⟩
  | view key parent labels =>
    simp only [plan]; split
    · trivial
    · have hc := createPlan_remoteSafe (tgt := targetOf (.view key parent labels)) s orc .view key parent labels hclean
      unfold viewPlan
      split
      · rename_i st1 e heq; rw [heq] at hc; exact hc
      · rename_i st1 sn pids heq
        rw [heq] at hc
        rw [allSteps_append]
        exact ⟨hc, allSteps_notLabel (mountsPlan_notLabel _ _ _ _ _) _⟩
  | commit name key labels =>
    simp only [plan]; split
    · trivial
    · unfold commitPlan
      split
      · trivial
      · split
        · trivial
        · split
          · trivial
          · split
            · trivial
            · split
              · trivial
              · refine ⟨trivial, ?_, trivial⟩
                intro hr
                have : isRemote labels = false := hclean
                rw [this] at hr; cases hr
  | mounts key =>
    simp only [plan]; split
    · trivial
    · apply allSteps_notLabel
      unfold mountsOpPlan
      split
      · simp
      · split
        · simp
        · split
          · simp
          · exact mountsPlan_notLabel _ _ _ _ _
  | remove key order =>
    simp only [plan]; split
    · trivial
    · unfold removePlan
      split
      · trivial
      · split
        · trivial
        · split
          · exact ⟨trivial, trivial⟩
          · exact ⟨trivial, trivial, allSteps_notLabel (cleanupSteps_notLabel _ _) _⟩
  | cleanup order =>
    simp only [plan]; split
    · trivial
    · exact allSteps_notLabel (cleanupSteps_notLabel _ _) _
  | walk =>
    simp only [plan]; split
    · trivial
    · split <;> trivial
  | stat key =>
    simp only [plan]; split
    · trivial
    · split <;> trivial
  | update key lk lv =>
    simp only [plan]; split
    · trivial
    · unfold updatePlan
      split
      · trivial
      · rename_i sn hf
        refine ⟨?_, trivial⟩
        intro sn' hf'
        rw [hf] at hf'
        cases hf'
        have hlk : lk ≠ remoteLabel := hclean
        split
        · exact isRemote_ldel_ne hlk
        · exact isRemote_lset_ne hlk
  | close order =>
    simp only [plan]; split
    · trivial
    · unfold closePlan
      rw [allSteps_append]
      exact ⟨allSteps_notLabel (cleanupSteps_notLabel _ _) _, trivial, trivial, trivial⟩

/-- invariant of all small-step states of histories whose calls do not set the remote label
themselves: only committed snapshots are remote, and only a remote snapshot may lack its directory. -/
structure CInv (s : State) : Prop where
  remoteCommitted : ∀ a ∈ s.snaps, isRemote a.labels = true → a.kind = .committed
  dirOrRemote : ∀ a ∈ s.snaps, Dir.id a.id ∈ s.dirs ∨ isRemote a.labels = true

theorem cinv_step {s : State} (hinv : Inv s) (h : CInv s) {st : Step} {c : Bool} {tgt : Option String}
    (hok : StepOk s st) (hs : Safe c s st) (hr : RemoteSafe tgt s st) : CInv (applyStep s st) := by
  cases st with
  | mkTemp t =>
    refine ⟨h.remoteCommitted, ?_⟩
    intro a ha
    rcases h.dirOrRemote a ha with hd | hd
    · exact Or.inl (List.mem_append_left _ hd)
    · exact Or.inr hd
  | rename t id =>
    refine ⟨h.remoteCommitted, ?_⟩
    intro a ha
    rcases h.dirOrRemote a ha with hd | hd
    · left
      show Dir.id a.id ∈ (s.dirs.filter (fun d => d != Dir.temp t)) ++ [Dir.id id]
      apply List.mem_append_left
      rw [filter_ne_mem]; exact ⟨hd, by simp⟩
    · exact Or.inr hd
  | txCreate sn =>
    have hnr : isRemote sn.labels = false := hr
    refine ⟨?_, ?_⟩
    · intro a ha har
      rcases mem_insertSnap.mp ha with rfl | ha
      · rw [hnr] at har; cases har
      · exact h.remoteCommitted a ha har
    · intro a ha
      rcases mem_insertSnap.mp ha with rfl | ha
      · exact Or.inl hs
      · exact h.dirOrRemote a ha
  | fsMount id l ok => cases ok <;> exact ⟨h.remoteCommitted, h.dirOrRemote⟩
  | txCommitActive key name lb =>
    obtain ⟨_, _, sn, hf, hkind⟩ := hok
    have hsn := findKey_some hf
    simp only [applyStep, commitActive, hf]
    refine ⟨?_, ?_⟩
    · intro a ha har
      rcases mem_insertSnap.mp ha with rfl | ha
      · rfl
      · exact h.remoteCommitted a (mem_removeKey.mp ha).1 har
    · intro a ha
      rcases mem_insertSnap.mp ha with rfl | ha
      · left
        rcases h.dirOrRemote sn hsn.1 with hd | hd
        · exact hd
        · have := h.remoteCommitted sn hsn.1 hd
          rw [hkind] at this; cases this
      · exact h.dirOrRemote a (mem_removeKey.mp ha).1
  | txRemove key =>
    exact ⟨fun a ha => h.remoteCommitted a (mem_removeKey.mp ha).1, fun a ha => h.dirOrRemote a (mem_removeKey.mp ha).1⟩
  | txUpdate key lb =>
    have hr' : ∀ sn, findKey s.snaps key = some sn → isRemote lb = isRemote sn.labels := hr
    have key_fact : ∀ y ∈ s.snaps, isRemote (if y.key == key then { y with labels := lb } else y).labels = isRemote y.labels := by
      intro y hy
      split
      · rename_i hk
        have hk' : y.key = key := by simpa using hk
        exact hr' y (by rw [← hk']; exact hinv.findKey_of_mem hy)
      · rfl
    refine ⟨?_, ?_⟩
    · intro a ha har
      obtain ⟨y, hy, rfl⟩ := mem_updateLabels.mp ha
      rw [key_fact y hy] at har
      have := h.remoteCommitted y hy har
      split <;> exact this
    · intro a ha
      obtain ⟨y, hy, rfl⟩ := mem_updateLabels.mp ha
      rw [key_fact y hy]
      have := h.dirOrRemote y hy
      split <;> exact this
  | fsUnmount d ok => cases d <;> exact ⟨h.remoteCommitted, h.dirOrRemote⟩
  | rmdir d =>
    refine ⟨h.remoteCommitted, ?_⟩
    intro a ha
    by_cases hda : Dir.id a.id = d
    · subst hda
      rcases hs with hl | ⟨_, hrd⟩
      · simp only [liveDir, List.any_eq_false] at hl
        exact absurd (by simp) (hl a ha)
      · right
        simp only [remoteDir, List.any_eq_true, Bool.and_eq_true, beq_iff_eq] at hrd
        obtain ⟨b, hb, hbid, hbr⟩ := hrd
        rw [← hinv.idInj hb ha hbid]; exact hbr
    · rcases h.dirOrRemote a ha with hd | hd
      · left
        show Dir.id a.id ∈ s.dirs.filter (fun x => x != d)
        rw [filter_ne_mem]; exact ⟨hd, hda⟩
      · exact Or.inr hd
  | fsCheck id ok => exact ⟨h.remoteCommitted, h.dirOrRemote⟩
  | mkdirId id =>
    obtain ⟨_, _, _, m4, m5⟩ := mkdirId_facts s id
    refine ⟨?_, ?_⟩
    · intro a ha; rw [m4] at ha; exact h.remoteCommitted a ha
    · intro a ha
      rw [m4] at ha
      rcases h.dirOrRemote a ha with hd | hd
      · exact Or.inl ((m5 _).mpr (Or.inl hd))
      · exact Or.inr hd
  | mkdirFs id => exact ⟨h.remoteCommitted, h.dirOrRemote⟩
  | dbClose => exact ⟨h.remoteCommitted, h.dirOrRemote⟩
  | crash cfg => exact ⟨h.remoteCommitted, h.dirOrRemote⟩
  | opened => exact ⟨h.remoteCommitted, h.dirOrRemote⟩
  | marker m => exact h

theorem allSteps_take {P : State → Step → Prop} {s : State} {steps : List Step} (h : AllSteps P s steps) (k : Nat) :
    AllSteps P s (steps.take k) := by
  induction steps generalizing s k with
  | nil => simp [AllSteps]
  | cons st r ih =>
    cases k with
    | zero => simp [AllSteps]
    | succ k => exact ⟨h.1, ih h.2 k⟩

theorem cinv_steps {c : Bool} {tgt : Option String} {l : List Step} : ∀ {s : State}, Inv s → CInv s → StepsOk s l →
    AllSteps (Safe c) s l → AllSteps (RemoteSafe tgt) s l → CInv (applySteps s l) := by
  induction l with
  | nil => intro s _ h _ _ _; exact h
  | cons st r ih =>
    intro s hinv h hok hs hr
    exact ih (inv_step hinv hok.1) (cinv_step hinv h hok.1 hs.1 hr.1) hok.2 hs.2 hr.2

def closingOf : Op → Bool
  | .close _ => true
  | _ => false

theorem plan_safe' {s : State} (h : Inv s) (orc : Oracle) (op : Op) :
    AllSteps (Safe (closingOf op)) s (plan s orc op).1 := by
  by_cases hc : ∃ order, op = .close order
  · obtain ⟨order, rfl⟩ := hc
    simp only [plan, closingOf]
    split
    · trivial
    · exact closePlan_safe s orc order
  · have : closingOf op = false := by
      cases op <;> first | rfl | exact absurd ⟨_, rfl⟩ hc
    rw [this]
    exact plan_safe h orc op (fun order e => hc ⟨order, e⟩)

theorem cinv_init (cfg : Config) : CInv (init cfg) := by
  constructor <;> (intro a ha; simp [init] at ha)

theorem cinv_runOp {s : State} (hinv : Inv s) (h : CInv s) (orc : Oracle) (op : Op) (hclean : CleanOp op) :
    CInv (runOp s orc op).1 :=
  cinv_steps hinv h (plan_stepsOk hinv orc op) (plan_safe' hinv orc op) (plan_remoteSafe hinv orc op hclean)

/-- no call of the history sets the remote label itself -/
def CleanHist (hist : List (Op × Oracle)) : Prop := ∀ p ∈ hist, CleanOp p.1

theorem cinv_runOps {s : State} (hinv : Inv s) (h : CInv s) (hist : List (Op × Oracle)) (hc : CleanHist hist) :
    CInv (runOps s hist) := by
  induction hist generalizing s with
  | nil => exact h
  | cons x r ih =>
    exact ih (inv_runOp hinv x.2 x.1) (cinv_runOp hinv h x.2 x.1 (hc x (List.mem_cons_self ..)))
      (fun p hp => hc p (List.mem_cons_of_mem _ hp))

/-- states a crash can expose in histories whose calls do not set the remote label themselves -/
def CleanReachable (cfg0 : Config) (s : State) : Prop :=
  ∃ (hist : List (Op × Oracle)) (op : Op) (orc : Oracle) (k : Nat), CleanHist hist ∧ CleanOp op ∧
    s = applySteps (runOps (init cfg0) hist) ((plan (runOps (init cfg0) hist) orc op).1.take k)

theorem CleanReachable.reachable {cfg0 : Config} {s : State} (h : CleanReachable cfg0 s) : Reachable cfg0 s := by
  obtain ⟨hist, op, orc, k, _, _, rfl⟩ := h
  exact ⟨hist, op, orc, k, rfl⟩

theorem cinv_reachable {cfg0 : Config} {s : State} (h : CleanReachable cfg0 s) : CInv s := by
  obtain ⟨hist, op, orc, k, hh, hop, rfl⟩ := h
  have hinv := inv_runOps (inv_init cfg0) hist
  exact cinv_steps hinv (cinv_runOps (inv_init cfg0) (cinv_init cfg0) hist hh)
    (stepsOk_take (plan_stepsOk hinv orc op) k) (allSteps_take (plan_safe' hinv orc op) k)
    (allSteps_take (plan_remoteSafe hinv orc op hop) k)

/-! ### restore -/

theorem restoreSteps_fails_iff (allow : Bool) (orc : Oracle) (tasks : List Snap) :
    (restoreSteps allow orc tasks).2 = false ↔ allow = false ∧ ∃ t ∈ tasks, orc.mountOk t.id = false := by
  induction tasks with
  | nil => simp [restoreSteps]
  | cons sn rest ih =>
    unfold restoreSteps
    by_cases hm : orc.mountOk sn.id = true
    · simp only [hm, if_true, ih, List.mem_cons, exists_eq_or_imp, Bool.true_eq_false, false_or]
    · have hm' : orc.mountOk sn.id = false := by simpa using hm
      cases allow with
      | true => simp only [hm', Bool.false_eq_true, if_false, if_true, ih, Bool.true_eq_false, false_and]
      | false => simp [hm']

theorem restoreSteps_mounts (allow : Bool) (orc : Oracle) (tasks : List Snap) : ∀ (s : State),
    (restoreSteps allow orc tasks).2 = true →
    ∀ n, n ∈ (applySteps s (restoreSteps allow orc tasks).1).mounts ↔
      n ∈ s.mounts ∨ ∃ t ∈ tasks, t.id = n ∧ orc.mountOk n = true := by
  induction tasks with
  | nil => intro s _ n; simp [restoreSteps, applySteps]
  | cons sn rest ih =>
    intro s hok n
    obtain ⟨_, m2, _, _, _⟩ := mkdirId_facts s sn.id
    unfold restoreSteps at hok ⊢
    by_cases hm : orc.mountOk sn.id = true
    · simp only [hm, if_true] at hok ⊢
      simp only [applySteps_cons]
      rw [ih _ hok]
      have hmm : (applyStep (applyStep (applyStep (applyStep (applyStep s (.mkdirId sn.id)) (.marker "restore.mkdir"))
          (.mkdirFs sn.id)) (.fsMount sn.id sn.labels true)) (.marker "restore.mounted")).mounts = sn.id :: s.mounts := by
        show sn.id :: (applyStep s (.mkdirId sn.id)).mounts = _
        rw [m2]
      rw [hmm]
      simp only [List.mem_cons, exists_eq_or_imp]
      constructor
      · rintro ((rfl | h) | h)
        · exact Or.inr (Or.inl ⟨rfl, hm⟩)
        · exact Or.inl h
        · exact Or.inr (Or.inr h)
      · rintro (h | ⟨rfl, _⟩ | h)
        · exact Or.inl (Or.inr h)
        · exact Or.inl (Or.inl rfl)
        · exact Or.inr h
    · have hm' : orc.mountOk sn.id = false := by simpa using hm
      cases allow with
      | false => simp [hm'] at hok
      | true =>
        simp only [hm', Bool.false_eq_true, if_false, if_true] at hok ⊢
        simp only [applySteps_cons]
        rw [ih _ hok]
        have hmm : (applyStep (applyStep (applyStep (applyStep s (.mkdirId sn.id)) (.marker "restore.mkdir"))
            (.mkdirFs sn.id)) (.fsMount sn.id sn.labels false)).mounts = s.mounts := by
          show (applyStep s (.mkdirId sn.id)).mounts = _
          rw [m2]
        rw [hmm]
        simp only [List.mem_cons, exists_eq_or_imp]
        constructor
        · rintro (h | h)
          · exact Or.inl h
          · exact Or.inr (Or.inr h)
        · rintro (h | ⟨rfl, h⟩ | h)
          · exact Or.inl h
          · rw [hm'] at h; cases h
          · exact Or.inr h

/-- every Mount issued by restore is for a task, with the task's recorded labels and the oracle's answer -/
theorem restoreSteps_mount_steps (allow : Bool) (orc : Oracle) (tasks : List Snap) :
    ∀ id l ok, Step.fsMount id l ok ∈ (restoreSteps allow orc tasks).1 →
      ∃ t ∈ tasks, id = t.id ∧ l = t.labels ∧ ok = orc.mountOk t.id := by
  induction tasks with
  | nil => intro id l ok h; simp [restoreSteps] at h
  | cons sn rest ih =>
    intro id l ok h
    unfold restoreSteps at h
    split at h
    · rename_i hm
      simp only [List.mem_cons, Step.fsMount.injEq, reduceCtorEq, false_or] at h
      rcases h with ⟨rfl, rfl, rfl⟩ | h
      · exact ⟨sn, List.mem_cons_self .., rfl, rfl, hm.symm⟩
      · obtain ⟨t, ht, h⟩ := ih id l ok h
        exact ⟨t, List.mem_cons_of_mem _ ht, h⟩
    · rename_i hm
      have hm' : orc.mountOk sn.id = false := by simpa using hm
      split at h
      · simp only [List.mem_cons, Step.fsMount.injEq, reduceCtorEq, false_or] at h
        rcases h with ⟨rfl, rfl, rfl⟩ | h
        · exact ⟨sn, List.mem_cons_self .., rfl, rfl, hm'.symm⟩
        · obtain ⟨t, ht, h⟩ := ih id l ok h
          exact ⟨t, List.mem_cons_of_mem _ ht, h⟩
      · simp only [List.mem_cons, Step.fsMount.injEq, reduceCtorEq, false_or, List.not_mem_nil, or_false] at h
        obtain ⟨rfl, rfl, rfl⟩ := h
        exact ⟨sn, List.mem_cons_self .., rfl, rfl, hm'.symm⟩

/-- when restore succeeds, every task got its Mount call -/
theorem restoreSteps_all_mounted (allow : Bool) (orc : Oracle) (tasks : List Snap)
    (hok : (restoreSteps allow orc tasks).2 = true) :
    ∀ t ∈ tasks, Step.fsMount t.id t.labels (orc.mountOk t.id) ∈ (restoreSteps allow orc tasks).1 := by
  induction tasks with
  | nil => intro t ht; cases ht
  | cons sn rest ih =>
    intro t ht
    unfold restoreSteps at hok ⊢
    by_cases hm : orc.mountOk sn.id = true
    · simp only [hm, if_true] at hok ⊢
      rcases List.mem_cons.mp ht with rfl | ht
      · simp [hm]
      · have := ih hok t ht
        simp [this]
    · have hm' : orc.mountOk sn.id = false := by simpa using hm
      cases allow with
      | false => simp [hm'] at hok
      | true =>
        simp only [hm', Bool.false_eq_true, if_false, if_true] at hok ⊢
        rcases List.mem_cons.mp ht with rfl | ht
        · simp [hm']
        · have := ih hok t ht
          simp [this]

/-- keys whose records a step modifies or removes -/
def Step.touches : Step → List String
  | .txCommitActive key _ _ => [key]
  | .txRemove key => [key]
  | .txUpdate key _ => [key]
  | _ => []

theorem mem_applyStep_of_untouched {s : State} {st : Step} {a : Snap} (ha : a ∈ s.snaps)
    (hk : a.key ∉ st.touches) : a ∈ (applyStep s st).snaps := by
  cases st with
  | txCreate sn => exact mem_insertSnap.mpr (Or.inr ha)
  | txCommitActive key name lb =>
    simp only [Step.touches, List.mem_singleton] at hk
    simp only [applyStep, commitActive]
    split
    · exact ha
    · exact mem_insertSnap.mpr (Or.inr (mem_removeKey.mpr ⟨ha, hk⟩))
  | txRemove key =>
    simp only [Step.touches, List.mem_singleton] at hk
    exact mem_removeKey.mpr ⟨ha, hk⟩
  | txUpdate key lb =>
    simp only [Step.touches, List.mem_singleton] at hk
    refine mem_updateLabels.mpr ⟨a, ha, ?_⟩
    have : (a.key == key) = false := by simp [hk]
    simp [this]
  | fsMount id l ok => cases ok <;> exact ha
  | fsUnmount d ok => cases d <;> exact ha
  | mkdirId id => rw [(mkdirId_facts s id).2.2.2.1]; exact ha
  | mkTemp t => exact ha
  | rename t id => exact ha
  | rmdir d => exact ha
  | fsCheck id ok => exact ha
  | mkdirFs id => exact ha
  | dbClose => exact ha
  | crash cfg => exact ha
  | opened => exact ha
  | marker m => exact ha

theorem mem_applySteps_of_untouched {l : List Step} : ∀ {s : State} {a : Snap}, a ∈ s.snaps →
    (∀ st ∈ l, a.key ∉ st.touches) → a ∈ (applySteps s l).snaps := by
  induction l with
  | nil => intro s a ha _; exact ha
  | cons st r ih =>
    intro s a ha h
    exact ih (mem_applyStep_of_untouched ha (h st (List.mem_cons_self ..)))
      (fun st' hst' => h st' (List.mem_cons_of_mem _ hst'))

/-- the keys a call may consume or modify: everything else acknowledged before is untouched at
every instant of the call -/
def consumes : Op → List String
  | .remove k _ => [k]
  | .commit _ k _ => [k]
  | .update k _ _ => [k]
  | _ => []

theorem touches_nil_of_plainMeta {st : Step} (h : st.touches = []) (k : String) : k ∉ st.touches := by
  rw [h]; exact List.not_mem_nil

theorem cleanupSteps_touches (orc : Oracle) (ds : List Dir) : ∀ st ∈ cleanupSteps orc ds, st.touches = [] := by
  intro st hst
  unfold cleanupSteps at hst
  rw [List.mem_flatMap] at hst
  obtain ⟨d, _, hd⟩ := hst
  simp only [cleanupDir, List.mem_cons, List.not_mem_nil, or_false] at hd
  rcases hd with rfl | rfl | rfl | rfl <;> rfl

theorem cleanupDir_touches (orc : Oracle) (d : Dir) : ∀ st ∈ cleanupDir orc d, st.touches = [] := by
  intro st hd
  simp only [cleanupDir, List.mem_cons, List.not_mem_nil, or_false] at hd
  rcases hd with rfl | rfl | rfl | rfl <;> rfl

theorem mountsPlan_touches (s : State) (orc : Oracle) (sn : Snap) (pids : List Nat) (ck : String) :
    ∀ st ∈ (mountsPlan s orc sn pids ck).1, st.touches = [] := by
  unfold mountsPlan
  split
  · simp
  · split
    · simp
    · simp only []
      split <;> (intro st hst; simp only [List.mem_map] at hst; obtain ⟨c, _, rfl⟩ := hst; rfl)

theorem restoreSteps_touches (allow : Bool) (orc : Oracle) (tasks : List Snap) :
    ∀ st ∈ (restoreSteps allow orc tasks).1, st.touches = [] := by
  induction tasks with
  | nil => simp [restoreSteps]
  | cons sn rest ih =>
    unfold restoreSteps
    split
    · intro st hst
      simp only [List.mem_cons] at hst
      rcases hst with rfl | rfl | rfl | rfl | rfl | hst <;> first | rfl | exact ih st hst
    · split
      · intro st hst
        simp only [List.mem_cons] at hst
        rcases hst with rfl | rfl | rfl | rfl | hst <;> first | rfl | exact ih st hst
      · simp [Step.touches]

theorem createPlan_touches (s : State) (orc : Oracle) (kind : Kind) (key parent : String) (labels : Labels) :
    ∀ st ∈ (createPlan s orc kind key parent labels).1, st.touches = [] := by
  unfold createPlan
  simp only []
  split
  · intro st hst
    simp only [List.mem_cons] at hst
    rcases hst with rfl | rfl | hst
    · rfl
    · rfl
    · exact cleanupDir_touches _ _ st hst
  · split
    · intro st hst
      simp only [List.mem_cons] at hst
      rcases hst with rfl | rfl | rfl | hst
      · rfl
      · rfl
      · rfl
      · exact cleanupDir_touches _ _ st hst
    · split
      · intro st hst
        simp only [List.mem_cons, List.mem_append] at hst
        rcases hst with rfl | rfl | rfl | hst | hst
        · rfl
        · rfl
        · rfl
        · exact cleanupDir_touches _ _ st hst
        · exact cleanupDir_touches _ _ st hst
      · simp [Step.touches]

/-- a step of a plan touches only keys the call consumes, or keys that did not exist before the call -/
theorem plan_touches (s : State) (orc : Oracle) (op : Op) :
    ∀ st ∈ (plan s orc op).1, ∀ k ∈ st.touches, k ∈ consumes op ∨ hasKey s.snaps k = false := by
  have nil_case : ∀ (l : List Step), (∀ st ∈ l, st.touches = []) →
      ∀ st ∈ l, ∀ k ∈ st.touches, k ∈ consumes op ∨ hasKey s.snaps k = false := by
    intro l h st hst k hk
    rw [h st hst] at hk; cases hk
  cases op with
  | restart cfg =>
    apply nil_case
    simp only [plan, restartPlan]
    split
    · simp [Step.touches]
    · split
      · intro st hst
        simp only [List.mem_cons, List.mem_append, List.not_mem_nil, or_false] at hst
        rcases hst with rfl | hst | rfl
        · rfl
        · exact restoreSteps_touches _ _ _ st hst
        · rfl
      · intro st hst
        simp only [List.mem_cons] at hst
        rcases hst with rfl | hst
        · rfl
        · exact restoreSteps_touches _ _ _ st hst
  | prepare key parent labels =>
    simp only [plan]; split
    · simp
    · unfold preparePlan
      split
      · rename_i st1 e heq
        apply nil_case
        have := createPlan_touches s orc .active key parent labels
        rw [heq] at this; exact this
      · rename_i st1 sn pids heq
        have hct := createPlan_touches s orc .active key parent labels
        rw [heq] at hct
        obtain ⟨ps, hchk, _⟩ := createPlan_ok heq
        have hnk := (createChecks_ok hchk).2.2.1
        simp only []
        split
        · apply nil_case
          intro st hst
          rcases List.mem_append.mp hst with h | h
          · exact hct st h
          · exact mountsPlan_touches _ _ _ _ _ st h
        · split
          · split
            · apply nil_case
              intro st hst
              simp only [List.mem_append, List.mem_cons, List.not_mem_nil, or_false] at hst
              rcases hst with h | rfl | rfl
              · exact hct st h
              · rfl
              · rfl
            · split
              · apply nil_case
                intro st hst
                simp only [List.mem_append, List.mem_cons, List.not_mem_nil, or_false] at hst
                rcases hst with (h | rfl | rfl) | rfl
                · exact hct st h
                · rfl
                · rfl
                · rfl
              · intro st hst k hk
                simp only [List.mem_append, List.mem_cons, List.not_mem_nil, or_false] at hst
                rcases hst with (h | rfl | rfl) | rfl | rfl | rfl
                · rw [hct st h] at hk; cases hk
                · cases hk
                · cases hk
                · cases hk
                · simp only [Step.touches, List.mem_singleton] at hk
                  subst hk; exact Or.inr hnk
                · cases hk
          · apply nil_case
            intro st hst
            simp only [List.mem_append, List.mem_cons] at hst
            rcases hst with h | rfl | h
            · exact hct st h
            · rfl
            · exact mountsPlan_touches _ _ _ _ _ st h
  | view key parent labels =>
    simp only [plan]; split
    · simp
    · apply nil_case
      unfold viewPlan
      have hct := createPlan_touches s orc .view key parent labels
      split
      · rename_i st1 e heq; rw [heq] at hct; exact hct
      · rename_i st1 sn pids heq
        rw [heq] at hct
        intro st hst
        rcases List.mem_append.mp hst with h | h
        · exact hct st h
        · exact mountsPlan_touches _ _ _ _ _ st h
  | commit name key labels =>
    simp only [plan]; split
    · simp
    · unfold commitPlan
      split
      · simp
      · split
        · simp
        · split
          · simp
          · split
            · simp
            · split
              · simp
              · intro st hst k hk
                simp only [List.mem_cons, List.not_mem_nil, or_false] at hst
                rcases hst with rfl | rfl
                · cases hk
                · simp only [Step.touches, List.mem_singleton] at hk
                  subst hk; left; simp [consumes]
  | mounts key =>
    simp only [plan]; split
    · simp
    · apply nil_case
      unfold mountsOpPlan
      split
      · simp
      · split
        · simp
        · split
          · simp
          · exact mountsPlan_touches _ _ _ _ _
  | remove key order =>
    simp only [plan]; split
    · simp
    · unfold removePlan
      split
      · simp
      · split
        · simp
        · split
          · intro st hst k hk
            simp only [List.mem_cons, List.not_mem_nil, or_false] at hst
            subst hst
            simp only [Step.touches, List.mem_singleton] at hk
            subst hk; left; simp [consumes]
          · intro st hst k hk
            simp only [List.mem_cons] at hst
            rcases hst with rfl | rfl | hst
            · simp only [Step.touches, List.mem_singleton] at hk
              subst hk; left; simp [consumes]
            · cases hk
            · rw [cleanupSteps_touches _ _ st hst] at hk; cases hk
  | cleanup order =>
    simp only [plan]; split
    · simp
    · exact nil_case _ (cleanupSteps_touches _ _)
  | walk =>
    simp only [plan]; split
    · simp
    · split <;> simp
  | stat key =>
    simp only [plan]; split
    · simp
    · split <;> simp
  | update key lk lv =>
    simp only [plan]; split
    · simp
    · unfold updatePlan
      split
      · simp
      · intro st hst k hk
        simp only [List.mem_cons, List.not_mem_nil, or_false] at hst
        subst hst
        simp only [Step.touches, List.mem_singleton] at hk
        subst hk; left; simp [consumes]
  | close order =>
    simp only [plan]; split
    · simp
    · apply nil_case
      unfold closePlan
      intro st hst
      simp only [List.mem_append, List.mem_cons, List.not_mem_nil, or_false] at hst
      rcases hst with h | rfl | rfl
      · exact cleanupSteps_touches _ _ st h
      · rfl
      · rfl

theorem cleanup_exact_of_allDirs (s : State) (hopen : s.closed = false) (had : AllDirs s) (orc : Oracle) (order : List Dir) :
    (runOp s orc (.cleanup order)).2 = .ok ∧
    ∀ d, d ∈ (runOp s orc (.cleanup order)).1.dirs ↔ ∃ a ∈ (runOp s orc (.cleanup order)).1.snaps, d = Dir.id a.id := by
  simp only [runOp, plan, hopen, Bool.false_eq_true, if_false, cleanupPlan]
  obtain ⟨c1, _, _, _, _, c6, _⟩ := cleanupSteps_state orc (arrange order (s.dirs.filter (fun d => !liveDir s.snaps d))) s
  refine ⟨trivial, ?_⟩
  intro d
  rw [c6, c1, mem_arrange]
  constructor
  · rintro ⟨hd, hnot⟩
    have hl : liveDir s.snaps d = true := by
      cases hld : liveDir s.snaps d with
      | true => rfl
      | false => exact absurd (List.mem_filter.mpr ⟨hd, by simp [hld]⟩) hnot
    cases d with
    | temp t => simp [liveDir] at hl
    | id n =>
      simp only [liveDir, List.any_eq_true, beq_iff_eq] at hl
      obtain ⟨a, ha, rfl⟩ := hl
      exact ⟨a, ha, rfl⟩
  · rintro ⟨a, ha, rfl⟩
    refine ⟨had a ha, ?_⟩
    intro hm
    have := (List.mem_filter.mp hm).2
    simp only [liveDir, Bool.not_eq_eq_eq_not, Bool.not_true, List.any_eq_false, beq_iff_eq] at this
    exact this a ha rfl

theorem inv_ofDurable {s : State} (h : Inv s) (cfg : Config) : Inv (ofDurable (crash s) cfg) :=
  ⟨h.keyNe, h.distinct, h.idBound, h.parentOk, (fun _ hn => nomatch hn), List.nodup_nil,
   (fun _ hn => nomatch hn), h.uninit⟩

/-- the result of a start on a durable image -/
theorem restore_result (d : Durable) (cfg : Config) (orc : Oracle) :
    ((restore d cfg orc).2 = .ok ∨ (restore d cfg orc).2 = .err .other) ∧
    ((restore d cfg orc).2 = .err .other ↔
      (cfg.noRestore = false ∧ cfg.allowInvalid = false ∧
        ∃ a ∈ d.snaps, isRemote a.labels = true ∧ orc.mountOk a.id = false)) := by
  simp only [restore, runOp, plan, restartPlan, ofDurable]
  by_cases hnr : cfg.noRestore = true
  · simp [hnr]
  · have hnr' : cfg.noRestore = false := by simpa using hnr
    simp only [hnr', Bool.false_eq_true, if_false, true_and]
    by_cases hres : (restoreSteps cfg.allowInvalid orc (remoteOf d.snaps)).2 = true
    · simp only [hres, if_true, true_or, reduceCtorEq, false_iff, true_and]
      intro hcontra
      have := (restoreSteps_fails_iff cfg.allowInvalid orc (remoteOf d.snaps)).mpr
        ⟨hcontra.1, by
          obtain ⟨a, ha, har, hm⟩ := hcontra.2
          exact ⟨a, List.mem_filter.mpr ⟨ha, har⟩, hm⟩⟩
      rw [hres] at this; cases this
    · have hres' : (restoreSteps cfg.allowInvalid orc (remoteOf d.snaps)).2 = false := by simpa using hres
      simp only [hres', Bool.false_eq_true, if_false, or_true, true_iff, true_and]
      obtain ⟨h1, t, ht, hm⟩ := (restoreSteps_fails_iff cfg.allowInvalid orc (remoteOf d.snaps)).mp hres'
      have ht' := List.mem_filter.mp ht
      exact ⟨h1, t, ht'.1, ht'.2, hm⟩

theorem restore_snaps (d : Durable) (cfg : Config) (orc : Oracle) :
    (restore d cfg orc).1.snaps = d.snaps ∧ (restore d cfg orc).1.seq = d.seq ∧ (restore d cfg orc).1.init = d.init := by
  simp only [restore, runOp, plan, restartPlan]
  split
  · simp [applySteps, applyStep, ofDurable]
  · obtain ⟨r1, _, r3, r4, _⟩ := restoreSteps_state cfg.allowInvalid orc (remoteOf (ofDurable d cfg).snaps)
      (applyStep (ofDurable d cfg) (.crash cfg))
    split
    · simp only [applySteps_cons, applySteps_append, applySteps_nil]
      exact ⟨r1, r3, r4⟩
    · simp only [applySteps_cons]
      exact ⟨r1, r3, r4⟩

/-- the state after a successful restoring start -/
theorem restore_ok_state (d : Durable) (cfg : Config) (orc : Oracle) (hnr : cfg.noRestore = false)
    (hok : (restore d cfg orc).2 = .ok) :
    (restore d cfg orc).1.closed = false ∧
    (∀ n, n ∈ (restore d cfg orc).1.mounts ↔ ∃ a ∈ d.snaps, isRemote a.labels = true ∧ a.id = n ∧ orc.mountOk n = true) ∧
    (∀ x, x ∈ (restore d cfg orc).1.dirs ↔ x ∈ d.dirs ∨ ∃ a ∈ d.snaps, isRemote a.labels = true ∧ x = Dir.id a.id) := by
  simp only [restore, runOp, plan, restartPlan, hnr, Bool.false_eq_true, if_false] at hok ⊢
  by_cases hres : (restoreSteps cfg.allowInvalid orc (remoteOf (ofDurable d cfg).snaps)).2 = true
  case neg => simp [hres] at hok
  case pos =>
    simp only [hres, if_true, applySteps_cons, applySteps_append, applySteps_nil]
    obtain ⟨_, _, _, _, _, r6, r7, r8⟩ := restoreSteps_state cfg.allowInvalid orc (remoteOf (ofDurable d cfg).snaps)
      (applyStep (ofDurable d cfg) (.crash cfg))
    have rm := restoreSteps_mounts cfg.allowInvalid orc (remoteOf (ofDurable d cfg).snaps)
      (applyStep (ofDurable d cfg) (.crash cfg)) hres
    refine ⟨rfl, ?_, ?_⟩
    · intro n
      show n ∈ (applySteps (applyStep (ofDurable d cfg) (.crash cfg)) _).mounts ↔ _
      rw [rm]
      constructor
      · rintro (h | ⟨t, ht, h1, h2⟩)
        · cases h
        · have ht' := List.mem_filter.mp ht
          exact ⟨t, ht'.1, ht'.2, h1, h2⟩
      · rintro ⟨a, ha, har, h1, h2⟩
        exact Or.inr ⟨a, List.mem_filter.mpr ⟨ha, har⟩, h1, h2⟩
    · intro x
      show x ∈ (applySteps (applyStep (ofDurable d cfg) (.crash cfg)) _).dirs ↔ _
      constructor
      · intro hx
        rcases r6 x hx with h | ⟨t, ht, rfl⟩
        · exact Or.inl h
        · have ht' := List.mem_filter.mp ht
          exact Or.inr ⟨t, ht'.1, ht'.2, rfl⟩
      · rintro (h | ⟨a, ha, har, rfl⟩)
        · exact r7 x h
        · exact r8 hres a (List.mem_filter.mpr ⟨ha, har⟩)

end SV.Snap
