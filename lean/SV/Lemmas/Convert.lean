/-
Helper lemmas for C19 (SV/Model/Convert.lean): the content-store model, the common write-and-describe
tail of the converters, and the external-TOC map as a sorted association list.
-/
import SV.Model.Convert

namespace SV.Convert

/-- `omega` does not look through the `Digest` abbreviation. -/
macro "domega" : tactic => `(tactic| ((try simp only [Digest] at *); omega))

/-! ## Store -/

/-- A content-addressed store: every entry sits under the digest of its bytes. -/
def Store.WF (H : Bytes → Digest) (s : Store) : Prop :=
  ∀ d e, s.lookup d = some e → H e.bytes = d

theorem Store.commit_fresh (H : Bytes → Digest) (s : Store) (r : Ref) (data : Bytes) (l : Option Digest)
    (h : s.lookup (H data) = none) :
    (s.commit H r data l).1.lookup (H data) = some ⟨data, l⟩ ∧ (s.commit H r data l).2 = true := by
  unfold Store.commit
  simp only [h]
  simp [Store.lookup, List.lookup]

theorem Store.commit_exists (H : Bytes → Digest) (s : Store) (r : Ref) (data : Bytes) (l : Option Digest)
    (e : Entry) (h : s.lookup (H data) = some e) :
    (s.commit H r data l).1.blobs = s.blobs ∧ (s.commit H r data l).2 = false := by
  unfold Store.commit
  simp only [h]
  simp

/-- Commit never removes or changes a stored blob. -/
theorem Store.commit_mono (H : Bytes → Digest) (s : Store) (r : Ref) (data : Bytes) (l : Option Digest)
    (d : Digest) (e : Entry) (h : s.lookup d = some e) :
    (s.commit H r data l).1.lookup d = some e := by
  unfold Store.commit
  cases hx : s.lookup (H data) with
  | some e' => simpa [Store.lookup] using h
  | none =>
    have hne : d ≠ H data := by
      intro heq; subst heq; rw [hx] at h; cases h
    simp only [Store.lookup, List.lookup]
    have : (d == H data) = false := by simpa using hne
    simp only [this]
    simpa [Store.lookup] using h

theorem Store.commit_wf (H : Bytes → Digest) (s : Store) (r : Ref) (data : Bytes) (l : Option Digest)
    (wf : s.WF H) : (s.commit H r data l).1.WF H := by
  unfold Store.commit
  cases hx : s.lookup (H data) with
  | some e' =>
    intro d e h
    exact wf d e (by simpa [Store.lookup] using h)
  | none =>
    intro d e h
    simp only [Store.lookup, List.lookup] at h
    by_cases hd : d = H data
    · subst hd
      simp at h
      subst h; rfl
    · have : (d == H data) = false := by simpa using hd
      simp only [this] at h
      exact wf d e (by simpa [Store.lookup] using h)

/-! ## The common tail: write and describe -/

/-- Whatever an interrupted earlier run left under the ref, the descriptor is computed from the
built blob alone. -/
theorem writeAndDescribe_desc (E : Env) (s : Store) (r : Ref) (b : Built) (mt : MT) :
    (writeAndDescribe E s r b mt).2 =
      { mt := mt, digest := E.H b.blob, size := b.blob.length, tocAnn := E.H b.tocJSON,
        uncompressedAnn := b.stream.length } := by
  simp [writeAndDescribe]

theorem writeAndDescribe_store (E : Env) (s : Store) (r : Ref) (b : Built) (mt : MT) :
    (writeAndDescribe E s r b mt).1 = (s.commit E.H r b.blob (some (E.H b.stream))).1 := by
  simp [writeAndDescribe]

/-- The store after the write: the new digest holds exactly the built blob with the DiffID label when
it was absent before; otherwise no blob changes (AlreadyExists). -/
theorem writeAndDescribe_committed (E : Env) (s : Store) (r : Ref) (b : Built) (mt : MT) :
    (s.lookup (E.H b.blob) = none →
        (writeAndDescribe E s r b mt).1.lookup (E.H b.blob) = some ⟨b.blob, some (E.H b.stream)⟩) ∧
    (∀ e, s.lookup (E.H b.blob) = some e → (writeAndDescribe E s r b mt).1.blobs = s.blobs) := by
  rw [writeAndDescribe_store]
  exact ⟨fun h => (Store.commit_fresh E.H s r b.blob _ h).1,
         fun e h => (Store.commit_exists E.H s r b.blob _ e h).1⟩

theorem writeAndDescribe_wf (E : Env) (s : Store) (r : Ref) (b : Built) (mt : MT) (wf : s.WF E.H) :
    (writeAndDescribe E s r b mt).1.WF E.H := by
  rw [writeAndDescribe_store]; exact Store.commit_wf E.H s r _ _ wf

/-- The digest the descriptor names is present afterwards, under bytes that hash to it. -/
theorem writeAndDescribe_present (E : Env) (s : Store) (r : Ref) (b : Built) (mt : MT) (wf : s.WF E.H) :
    ∃ e, (writeAndDescribe E s r b mt).1.lookup (writeAndDescribe E s r b mt).2.digest = some e ∧
      E.H e.bytes = (writeAndDescribe E s r b mt).2.digest := by
  rw [writeAndDescribe_desc]
  cases hx : s.lookup (E.H b.blob) with
  | none => exact ⟨_, (writeAndDescribe_committed E s r b mt).1 hx, rfl⟩
  | some e =>
    refine ⟨e, ?_, wf _ _ hx⟩
    rw [writeAndDescribe_store]
    exact Store.commit_mono E.H s r _ _ _ _ hx

/-! ## Inversion of the four converters: a successful result comes from a build -/

/-- The build a successful conversion is made from, and the media type it gets. -/
structure FromBuild (E : Env) (s : Store) (src : Src) (s' : Store) (d : Desc) (b : Built) (r : Ref) (mt : MT) : Prop where
  layer : isLayerType src.mt = true
  store : s' = (writeAndDescribe E s r b mt).1
  desc : d = { (writeAndDescribe E s r b mt).2 with mt := d.mt }

theorem convertEsgz_ok (E : Env) (o : List Opt) (s : Store) (src : Src) (s' : Store) (d : Desc) (ob : Option Built)
    (h : convertEsgz E o s src = (s', .ok d, ob)) :
    ∃ b, ob = some b ∧ E.build o src.blob = some b ∧ d.mt = gzipTargetMT src.mt ∧
      isLayerType src.mt = true ∧
      s' = (writeAndDescribe E s (.esgz, src.digest) b (gzipTargetMT src.mt)).1 ∧
      d = (writeAndDescribe E s (.esgz, src.digest) b (gzipTargetMT src.mt)).2 := by
  unfold convertEsgz at h
  by_cases hl : isLayerType src.mt = true
  · simp only [hl, Bool.not_true, Bool.false_eq_true, if_false] at h
    cases hi : s.lookup src.digest with
    | none => simp [hi] at h
    | some e =>
      simp only [hi] at h
      cases hb : E.build o src.blob with
      | none => simp [hb] at h
      | some b =>
        simp only [hb] at h
        injection h with h1 h2
        injection h2 with h2 h3
        injection h2 with h2
        refine ⟨b, h3.symm, rfl, ?_, hl, h1.symm, h2.symm⟩
        rw [← h2]; simp [writeAndDescribe]
  · simp [hl] at h

theorem convertZstd_ok (E : Env) (o : List Opt) (s : Store) (src : Src) (s' : Store) (d : Desc) (ob : Option Built)
    (h : convertZstd E o s src = (s', .ok d, ob)) :
    ∃ b m, ob = some b ∧ E.buildZstd o src.blob = some b ∧ zstdTargetMT src.mt = some m ∧ d.mt = m ∧
      isLayerType src.mt = true ∧
      s' = (writeAndDescribe E s (.zstd, src.digest) b src.mt).1 ∧
      d = { (writeAndDescribe E s (.zstd, src.digest) b src.mt).2 with mt := m } := by
  unfold convertZstd at h
  by_cases hl : isLayerType src.mt = true
  · simp only [hl, Bool.not_true, Bool.false_eq_true, if_false] at h
    cases hi : s.lookup src.digest with
    | none => simp [hi] at h
    | some e =>
      simp only [hi] at h
      cases hb : E.buildZstd o src.blob with
      | none => simp [hb] at h
      | some b =>
        simp only [hb] at h
        cases hm : zstdTargetMT src.mt with
        | none => simp [hm] at h
        | some m =>
          simp only [hm] at h
          injection h with h1 h2
          injection h2 with h2 h3
          injection h2 with h2
          exact ⟨b, m, h3.symm, rfl, rfl, by rw [← h2], hl, h1.symm, h2.symm⟩
  · simp [hl] at h

theorem convertLossless_ok (E : Env) (o : List Opt) (s : Store) (src : Src) (s' : Store) (d : Desc) (ob : Option Built)
    (h : convertLossless E o s src = (s', .ok d, ob)) :
    ∃ b org, ob = some b ∧ E.buildLossless o src.blob = some b ∧ E.decomp src.blob = some org ∧
      E.H b.stream = E.H org ∧ b.stream.length = org.length ∧ d.mt = gzipTargetMT src.mt ∧
      isLayerType src.mt = true ∧
      s' = (writeAndDescribe E s (.esgz, src.digest) b (gzipTargetMT src.mt)).1 ∧
      d = (writeAndDescribe E s (.esgz, src.digest) b (gzipTargetMT src.mt)).2 := by
  unfold convertLossless at h
  by_cases hl : isLayerType src.mt = true
  · simp only [hl, Bool.not_true, Bool.false_eq_true, if_false] at h
    cases hi : s.lookup src.digest with
    | none => simp [hi] at h
    | some e =>
      simp only [hi] at h
      cases hb : E.buildLossless o src.blob with
      | none => simp [hb] at h
      | some b =>
        cases hd : E.decomp src.blob with
        | none => simp [hb, hd] at h
        | some org =>
          simp only [hb, hd] at h
          by_cases h1 : E.H b.stream = E.H org
          · by_cases h2 : b.stream.length = org.length
            · simp only [h1, h2, ne_eq, not_true_eq_false, if_false] at h
              injection h with e1 e2
              injection e2 with e2 e3
              injection e2 with e2
              refine ⟨b, org, e3.symm, rfl, rfl, h1, h2, ?_, hl, e1.symm, e2.symm⟩
              rw [← e2]; simp [writeAndDescribe]
            · simp [h1, h2] at h
          · simp [h1] at h
  · simp [hl] at h

/-! ## External-TOC map -/

/-- strictly increasing keys -/
def TocMap.Sorted (m : TocMap) : Prop := m.Pairwise fun a b => a.1 < b.1

theorem TocMap.mem_put (k : Digest) (v : TocInfo) (m : TocMap) (x : Digest × TocInfo)
    (h : x ∈ TocMap.put k v m) : x = (k, v) ∨ x ∈ m := by
  induction m with
  | nil => simp [TocMap.put] at h; exact Or.inl h
  | cons hd tl ih =>
    obtain ⟨k', v'⟩ := hd
    unfold TocMap.put at h
    split at h
    · simp at h; rcases h with h | h | h
      · exact Or.inl h
      · exact Or.inr (by simp [h])
      · exact Or.inr (by simp [h])
    · split at h
      · simp at h; rcases h with h | h
        · exact Or.inl h
        · exact Or.inr (by simp [h])
      · simp at h; rcases h with h | h
        · exact Or.inr (by simp [h])
        · rcases ih h with h | h
          · exact Or.inl h
          · exact Or.inr (by simp [h])

theorem TocMap.put_sorted (k : Digest) (v : TocInfo) (m : TocMap) (hs : m.Sorted) : (TocMap.put k v m).Sorted := by
  induction m with
  | nil => simp [TocMap.put, TocMap.Sorted]
  | cons hd tl ih =>
    obtain ⟨k', v'⟩ := hd
    unfold TocMap.Sorted at hs ⊢
    rw [List.pairwise_cons] at hs
    unfold TocMap.put
    split
    · rename_i hlt
      rw [List.pairwise_cons]
      refine ⟨?_, List.pairwise_cons.mpr hs⟩
      intro x hx
      simp at hx
      rcases hx with hx | hx
      · subst hx; exact hlt
      · exact Nat.lt_trans hlt (hs.1 x hx)
    · split
      · rename_i _ heq
        subst heq
        rw [List.pairwise_cons]
        exact ⟨hs.1, hs.2⟩
      · rename_i hnlt hne
        rw [List.pairwise_cons]
        refine ⟨?_, ih hs.2⟩
        intro x hx
        rcases TocMap.mem_put k v tl x hx with hx | hx
        · subst hx; show k' < k; domega
        · exact hs.1 x hx

theorem TocMap.puts_sorted (ps : List (Digest × TocInfo)) (m : TocMap) (hs : m.Sorted) :
    (TocMap.puts ps m).Sorted := by
  induction ps generalizing m with
  | nil => simpa [TocMap.puts]
  | cons p ps ih =>
    simp only [TocMap.puts, List.foldl_cons]
    exact ih _ (TocMap.put_sorted p.1 p.2 m hs)

/-- The put key is present with the put value afterwards. -/
theorem TocMap.mem_put_self (k : Digest) (v : TocInfo) (m : TocMap) : (k, v) ∈ TocMap.put k v m := by
  induction m with
  | nil => simp [TocMap.put]
  | cons hd tl ih =>
    obtain ⟨k', v'⟩ := hd
    unfold TocMap.put
    split
    · simp
    · split
      · simp
      · simp [ih]

/-- Other keys keep their entries. -/
theorem TocMap.mem_put_other (k : Digest) (v : TocInfo) (m : TocMap) (x : Digest × TocInfo)
    (hx : x ∈ m) (hne : x.1 ≠ k) : x ∈ TocMap.put k v m := by
  induction m with
  | nil => cases hx
  | cons hd tl ih =>
    obtain ⟨k', v'⟩ := hd
    unfold TocMap.put
    split
    · simp at hx ⊢; rcases hx with hx | hx
      · exact Or.inr (Or.inl hx)
      · exact Or.inr (Or.inr hx)
    · split
      · rename_i _ heq
        simp at hx ⊢; rcases hx with hx | hx
        · subst hx; exact absurd heq.symm hne
        · exact Or.inr hx
      · simp at hx ⊢; rcases hx with hx | hx
        · exact Or.inl hx
        · exact Or.inr (ih hx)

/-- Two atomic puts commute when their keys differ or their values agree. -/
theorem TocMap.put_comm (k1 k2 : Digest) (v1 v2 : TocInfo) (m : TocMap) (h : k1 ≠ k2 ∨ v1 = v2) :
    TocMap.put k1 v1 (TocMap.put k2 v2 m) = TocMap.put k2 v2 (TocMap.put k1 v1 m) := by
  by_cases hk : k1 = k2
  · subst hk
    rcases h with h | h
    · exact absurd rfl h
    · subst h; rfl
  · induction m with
    | nil =>
      simp only [TocMap.put]
      by_cases h12 : k1 < k2
      · have : ¬ k2 < k1 := by domega
        have h21 : ¬ k2 = k1 := fun e => hk e.symm
        simp [h12, this, h21]
      · have h21 : k2 < k1 := by domega
        simp [h12, hk, h21]
    | cons hd tl ih =>
      obtain ⟨k', v'⟩ := hd
      have h21 : ¬ k2 = k1 := fun e => hk e.symm
      by_cases a1 : k1 < k'
      · by_cases a2 : k2 < k'
        · by_cases h12 : k1 < k2
          · have : ¬ k2 < k1 := by domega
            simp [TocMap.put, a1, a2, h12, this, h21]
          · have : k2 < k1 := by domega
            simp [TocMap.put, a1, a2, h12, this, hk]
        · by_cases e2 : k2 = k'
          · subst e2
            have : ¬ k2 < k1 := by domega
            simp [TocMap.put, a1, this, h21]
          · have : ¬ k2 < k1 := by domega
            simp [TocMap.put, a1, a2, e2, this, h21]
      · by_cases e1 : k1 = k'
        · subst e1
          by_cases a2 : k2 < k1
          · have : ¬ k1 < k2 := by domega
            simp [TocMap.put, a2, this, hk]
          · simp [TocMap.put, a2, h21]
        · by_cases a2 : k2 < k'
          · have : ¬ k1 < k2 := by domega
            simp [TocMap.put, a1, e1, a2, this, hk]
          · by_cases e2 : k2 = k'
            · subst e2
              simp [TocMap.put, a1, e1]
            · simp [TocMap.put, a1, e1, a2, e2, ih]

/-- Order independence of the shared map: any permutation of a history of atomic puts in which equal
keys carry equal values yields the same finite map. -/
theorem TocMap.puts_perm (ps qs : List (Digest × TocInfo)) (m : TocMap) (hp : ps.Perm qs)
    (hc : ∀ p ∈ ps, ∀ q ∈ ps, p.1 = q.1 → p.2 = q.2) :
    TocMap.puts ps m = TocMap.puts qs m := by
  unfold TocMap.puts
  apply List.Perm.foldl_eq' hp
  intro x hx y hy z
  apply TocMap.put_comm
  by_cases hk : y.1 = x.1
  · exact Or.inr (hc y hy x hx hk)
  · exact Or.inl hk

/-- Every put of a consistent history is in the final map. -/
theorem TocMap.mem_puts (ps : List (Digest × TocInfo)) (m : TocMap)
    (hc : ∀ p ∈ ps, ∀ q ∈ ps, p.1 = q.1 → p.2 = q.2) (p : Digest × TocInfo) (hp : p ∈ ps) :
    p ∈ TocMap.puts ps m := by
  induction ps generalizing m with
  | nil => cases hp
  | cons a ps ih =>
    simp only [TocMap.puts, List.foldl_cons]
    have hc' : ∀ p ∈ ps, ∀ q ∈ ps, p.1 = q.1 → p.2 = q.2 :=
      fun p hp q hq => hc p (List.mem_cons_of_mem _ hp) q (List.mem_cons_of_mem _ hq)
    rcases List.mem_cons.mp hp with h | h
    · subst h
      -- p was put first; later puts either have another key or the same value
      have key : ∀ (qs : List (Digest × TocInfo)) (m : TocMap), p ∈ m →
          (∀ q ∈ qs, q.1 = p.1 → q.2 = p.2) → p ∈ TocMap.puts qs m := by
        intro qs
        induction qs with
        | nil => intro m hm _; simpa [TocMap.puts] using hm
        | cons q qs ihq =>
          intro m hm hq
          simp only [TocMap.puts, List.foldl_cons]
          apply ihq
          · by_cases e : q.1 = p.1
            · have e2 := hq q (List.mem_cons_self) e
              have : p = (q.1, q.2) := by
                cases p; cases q; simp_all
              rw [this]; exact TocMap.mem_put_self _ _ _
            · exact TocMap.mem_put_other _ _ _ _ hm (fun h => e h.symm)
          · exact fun q' hq' => hq q' (List.mem_cons_of_mem _ hq')
      apply key ps _ (by cases p; exact TocMap.mem_put_self _ _ _)
      intro q hq e
      exact hc q (List.mem_cons_of_mem _ hq) p (List.mem_cons_self) e
    · exact ih _ hc' h

/-- Nothing but the puts (and the initial entries) is in the map. -/
theorem TocMap.mem_puts_inv (ps : List (Digest × TocInfo)) (m : TocMap) (x : Digest × TocInfo)
    (hx : x ∈ TocMap.puts ps m) : x ∈ ps ∨ x ∈ m := by
  induction ps generalizing m with
  | nil => exact Or.inr (by simpa [TocMap.puts] using hx)
  | cons a ps ih =>
    simp only [TocMap.puts, List.foldl_cons] at hx
    rcases ih _ hx with h | h
    · exact Or.inl (List.mem_cons_of_mem _ h)
    · rcases TocMap.mem_put _ _ _ _ h with h | h
      · exact Or.inl (by cases a; simp_all)
      · exact Or.inr h

/-- In a sorted map a key has one value. -/
theorem TocMap.Sorted.unique {m : TocMap} (hs : m.Sorted) {k : Digest} {v1 v2 : TocInfo}
    (h1 : (k, v1) ∈ m) (h2 : (k, v2) ∈ m) : v1 = v2 := by
  induction m with
  | nil => cases h1
  | cons hd tl ih =>
    unfold TocMap.Sorted at hs
    rw [List.pairwise_cons] at hs
    rcases List.mem_cons.mp h1 with e1 | e1 <;> rcases List.mem_cons.mp h2 with e2 | e2
    · rw [← e1] at e2; injection e2 with _ e; exact e.symm ▸ rfl
    · have := hs.1 _ e2; rw [← e1] at this; simp at this
    · have := hs.1 _ e1; rw [← e2] at this; simp at this
    · exact ih hs.2 e1 e2

/-! ## finalize -/

theorem mem_insertByToc (l x : TocLayer) (xs : List TocLayer) : x ∈ insertByToc l xs ↔ x = l ∨ x ∈ xs := by
  induction xs with
  | nil => simp [insertByToc]
  | cons y ys ih =>
    unfold insertByToc
    split
    · simp
    · simp [ih]; constructor
      · rintro (h | h | h)
        · exact Or.inr (Or.inl h)
        · exact Or.inl h
        · exact Or.inr (Or.inr h)
      · rintro (h | h | h)
        · exact Or.inr (Or.inl h)
        · exact Or.inl h
        · exact Or.inr (Or.inr h)

theorem length_insertByToc (l : TocLayer) (xs : List TocLayer) : (insertByToc l xs).length = xs.length + 1 := by
  induction xs with
  | nil => simp [insertByToc]
  | cons y ys ih =>
    unfold insertByToc
    split <;> simp [ih]

theorem mem_finalize (m : TocMap) (x : TocLayer) : x ∈ finalize m ↔ (x.layer, x.toc) ∈ m := by
  unfold finalize
  induction m with
  | nil => simp
  | cons kv m ih =>
    simp only [List.map_cons, List.foldr_cons, mem_insertByToc, ih, List.mem_cons]
    constructor
    · rintro (h | h)
      · subst h; exact Or.inl rfl
      · exact Or.inr h
    · rintro (h | h)
      · left; cases x; cases kv; simp_all
      · exact Or.inr h

theorem length_finalize (m : TocMap) : (finalize m).length = m.length := by
  unfold finalize
  induction m with
  | nil => simp
  | cons kv m ih => simp only [List.map_cons, List.foldr_cons, length_insertByToc, ih, List.length_cons]

/-- The manifest is sorted by TOC digest (what `sort.Slice` establishes). -/
theorem insertByToc_sorted (l : TocLayer) (xs : List TocLayer)
    (h : xs.Pairwise fun a b => a.toc.digest ≤ b.toc.digest) :
    (insertByToc l xs).Pairwise fun a b => a.toc.digest ≤ b.toc.digest := by
  induction xs with
  | nil => simp [insertByToc]
  | cons y ys ih =>
    rw [List.pairwise_cons] at h
    unfold insertByToc
    split
    · rename_i hle
      rw [List.pairwise_cons]
      refine ⟨?_, List.pairwise_cons.mpr h⟩
      intro x hx
      rcases List.mem_cons.mp hx with e | e
      · subst e; exact hle
      · exact Nat.le_trans hle (h.1 x e)
    · rename_i hnle
      rw [List.pairwise_cons]
      refine ⟨?_, ih h.2⟩
      intro x hx
      rcases (mem_insertByToc l x ys).mp hx with e | e
      · subst e; domega
      · exact h.1 x e

theorem finalize_sorted (m : TocMap) : (finalize m).Pairwise fun a b => a.toc.digest ≤ b.toc.digest := by
  unfold finalize
  induction m with
  | nil => simp
  | cons kv m ih => simp only [List.map_cons, List.foldr_cons]; exact insertByToc_sorted _ _ ih

/-- Looking a layer up in the manifest of a sorted map finds exactly its map entry. -/
theorem fetchToc_finalize (m : TocMap) (hs : m.Sorted) (k : Digest) (v : TocInfo) (h : (k, v) ∈ m) :
    fetchToc (finalize m) k = some v := by
  unfold fetchToc
  have hmem : (⟨v, k⟩ : TocLayer) ∈ finalize m := (mem_finalize m ⟨v, k⟩).mpr h
  cases hf : (finalize m).find? (fun l => l.layer = k) with
  | none =>
    have := List.find?_eq_none.mp hf _ hmem
    simp at this
  | some l =>
    have hl := List.find?_some hf
    have hlm := List.mem_of_find?_eq_some hf
    simp at hl
    have h2 : (l.layer, l.toc) ∈ m := (mem_finalize m l).mp hlm
    rw [hl] at h2
    simp [hs.unique h h2]

theorem fetchToc_finalize_none (m : TocMap) (k : Digest) (h : ∀ v, (k, v) ∉ m) :
    fetchToc (finalize m) k = none := by
  unfold fetchToc
  cases hf : (finalize m).find? (fun l => l.layer = k) with
  | none => rfl
  | some l =>
    have hl := List.find?_some hf
    have hlm := List.mem_of_find?_eq_some hf
    simp at hl
    have h2 : (l.layer, l.toc) ∈ m := (mem_finalize m l).mp hlm
    rw [hl] at h2
    exact absurd h2 (h _)

end SV.Convert

namespace SV.Convert

/-! ## Inversion of the external-TOC wrapper -/

theorem convertExt_ok (E : Env) (ll : Bool) (o : List Opt) (s : Store) (src : Src) (s' : Store) (d : Desc)
    (p : Option (Digest × TocInfo)) (h : convertExt E ll o s src = (s', .ok d, p)) :
    ∃ b toc s1, (if ll then convertLossless E o s src else convertEsgz E o s src) = (s1, .ok d, some b) ∧
      b.tocBlob = some toc ∧ s' = (s1.commit E.H (.toc, 0) toc none).1 ∧
      p = some (d.digest, ⟨E.H toc, toc.length⟩) := by
  unfold convertExt at h
  generalize (if ll = true then convertLossless E o s src else convertEsgz E o s src) = x at h ⊢
  obtain ⟨s1, r, ob⟩ := x
  simp only at h
  cases r with
  | untouched => simp at h
  | err => simp at h
  | panic => simp at h
  | ok d0 =>
    simp only at h
    cases ob with
    | none => simp at h
    | some b =>
      cases ht : b.tocBlob with
      | none => simp [ht] at h
      | some toc =>
        simp only [Option.bind_some, ht] at h
        injection h with h1 h2
        injection h2 with h2 h3
        injection h2 with h2
        subst h2
        exact ⟨b, toc, s1, rfl, ht, h1.symm, h3.symm⟩

/-! ## The media-type table: what the property demands of a row, and the rows that miss it -/

/-- What C19 demands of the row (converter `t`, input media type `m`): a non-layer type is left
untouched; a layer type gets a layer media type that names the compression the converter really
writes, keeps (non-)distributability, stays in its family for the gzip converters and becomes OCI for
zstd:chunked; an error return is tolerated only where the target family has no such media type
(Docker zstd input to zstd:chunked); a panic never. -/
def rowOK (t : Target) (m : MT) : Bool :=
  match outMediaType t m with
  | .untouched => !isLayerType m
  | .ok m' =>
    isLayerType m && isLayerType m' && (m'.comp == some t.comp) &&
    (isNonDistributable m' == isNonDistributable m) &&
    (if t = .zstdchunked then !isDockerType m' else isDockerType m' == isDockerType m)
  | .err => t = .zstdchunked && m = .dockerLayerZstd
  | .panic => false

/-- The rows on which the code as written misses `rowOK`:
 (E1) a zstd-typed layer given to a gzip-producing converter keeps its zstd media type;
 (E2) a non-layer media type given to an external-TOC converter panics. -/
def rowExc (t : Target) (m : MT) : Bool :=
  (isLayerType m && (m.comp == some .zstd) && (t != .zstdchunked)) ||
  (!isLayerType m && (t == .extToc || t == .extTocLossless))

end SV.Convert
