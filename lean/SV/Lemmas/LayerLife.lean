import SV.Model.LayerLife
import SV.Lemmas.Refcount
import SV.Props.C10
/-
Helper lemmas for C12 (layer life cycle).  Composition with C10: both caches of the resolver are
`SV.Refcount.TTL` states reachable by TTL operations (`Reach`), so C10's invariant `TInv` and C10's
theorems apply to them; on top of that the invariants linking refCounters to `*layer` / `Blob`
objects (`Link`), the blob closures owned by layers (`XInv`), and their preservation by every
operation of the model.
-/
namespace SV.LayerLife
open SV.Refcount

/-! ## A. what one cache operation changes in the refCounter list -/

@[simp] theorem RC.inc_calls (r : RC) : r.inc.calls = r.calls := rfl
theorem RC.dec_calls_ge (r : RC) : r.calls ≤ r.dec.calls := by
  unfold RC.dec; split <;> simp
theorem RC.finalize_calls_ge (r : RC) : r.calls ≤ r.finalize.calls := by
  unfold RC.finalize; split
  · exact Nat.le_refl _
  · exact RC.dec_calls_ge r

/-- `c'` differs from `c` in the refCounter list at most at index `id`, and there key and payload
are the same and the callback counter did not decrease. -/
structure Frame (c c' : Core) (id : Nat) : Prop where
  len : c'.rcs.length = c.rcs.length
  other : ∀ j, j ≠ id → c'.rcs[j]? = c.rcs[j]?
  same : ∀ r', c'.rcs[id]? = some r' →
    ∃ r, c.rcs[id]? = some r ∧ r'.key = r.key ∧ r'.val = r.val ∧ r.calls ≤ r'.calls
  fin : ∀ r r', c.rcs[id]? = some r → c'.rcs[id]? = some r' → r.finDone = true → r'.finDone = true

theorem Frame.refl (c : Core) (id : Nat) : Frame c c id :=
  ⟨rfl, fun _ _ => rfl, fun r' h => ⟨r', h, rfl, rfl, Nat.le_refl _⟩,
   fun r r' h h' hf => by rw [h] at h'; cases h'; exact hf⟩

theorem Frame.trans {a b c : Core} {id : Nat} (h1 : Frame a b id) (h2 : Frame b c id) : Frame a c id := by
  refine ⟨h2.len.trans h1.len, fun j hj => (h2.other j hj).trans (h1.other j hj), ?_, ?_⟩
  · intro r' hr'
    obtain ⟨r1, e1, k1, v1, c1⟩ := h2.same r' hr'
    obtain ⟨r0, e0, k0, v0, c0⟩ := h1.same r1 e1
    exact ⟨r0, e0, k1.trans k0, v1.trans v0, Nat.le_trans c0 c1⟩
  · intro r r' hr hr' hf
    obtain ⟨r1, e1, _⟩ := h2.same r' hr'
    exact h2.fin r1 r' e1 hr' (h1.fin r r1 hr e1 hf)

theorem frame_modify (c : Core) (toks' : List Tok) (id : Nat) (f : RC → RC)
    (hf : ∀ r, (f r).key = r.key ∧ (f r).val = r.val ∧ r.calls ≤ (f r).calls)
    (hfin : ∀ r, r.finDone = true → (f r).finDone = true) :
    Frame c { rcs := c.rcs.modify id f, toks := toks' } id := by
  refine ⟨by simp, ?_, ?_, ?_⟩
  · intro j hj
    simp only [getElem?_modify_eq]
    cases c.rcs[j]? with
    | none => rfl
    | some r => simp [Ne.symm hj]
  · intro r' hr'
    simp only [getElem?_modify_eq] at hr'
    cases h : c.rcs[id]? with
    | none => simp [h] at hr'
    | some r =>
      simp only [h, Option.map_some, if_true, Option.some.injEq] at hr'
      subst hr'
      exact ⟨r, rfl, (hf r).1, (hf r).2.1, (hf r).2.2⟩
  · intro r r' hr hr' hfd
    simp only [getElem?_modify_eq, hr, Option.map_some, if_true, Option.some.injEq] at hr'
    subst hr'
    exact hfin r hfd

theorem frame_newTok (c : Core) (id : Nat) : Frame c (c.newTok id) id :=
  frame_modify c _ id RC.inc (fun _ => ⟨rfl, rfl, Nat.le_refl _⟩) (fun _ h => h)

theorem frame_fin (c : Core) (id : Nat) : Frame c (c.fin id) id :=
  frame_modify c _ id RC.finalize (fun r => ⟨by simp, by simp, RC.finalize_calls_ge r⟩) (fun _ _ => by simp)

theorem frame_release (c : Core) (tok : Nat) (t : Tok) (ht : c.toks[tok]? = some t) :
    Frame c (c.release tok) t.rc := by
  unfold Core.release
  simp only [ht]
  split
  · exact Frame.refl _ _
  · exact frame_modify c _ t.rc RC.dec (fun r => ⟨by simp, by simp, RC.dec_calls_ge r⟩) (fun _ h => by simpa using h)

theorem set_self {α} (l : List α) (i : Nat) (a : α) (h : l[i]? = some a) : l.set i a = l := by
  apply List.ext_getElem?
  intro j
  rw [List.getElem?_set]
  split
  · rename_i e; subst e
    split
    · exact h.symm
    · simp [List.getElem?_eq_none (by omega : l.length ≤ i)] at h
  · rfl

theorem release_toks (c : Core) (tok : Nat) (t : Tok) (ht : c.toks[tok]? = some t) :
    (c.release tok).toks = c.toks.set tok { t with once := true } := by
  unfold Core.release
  simp only [ht]
  split
  · rename_i h
    have : ({ t with once := true } : Tok) = t := by cases t; simp_all
    rw [this]
    exact (set_self _ _ _ ht).symm
  · rfl

theorem callsOf_of {c : Core} {id : Nat} {r : RC} (h : c.rcs[id]? = some r) : callsOf c id = r.calls := by
  simp [callsOf, h]

theorem valOf_of {c : Core} {id : Nat} {r : RC} (h : c.rcs[id]? = some r) : c.valOf id = r.val := by
  simp [Core.valOf, h]

/-! ### the TTL operations in explicit form -/

theorem TTL.get_miss {t : TTL} {k : Nat} (h : t.m k = none) : t.get k = (t, .miss) := by
  simp [TTL.get, h]

theorem TTL.get_hit {t : TTL} {k id : Nat} (h : t.m k = some id) :
    t.get k = ({ t with core := t.core.newTok id }, .got (t.core.valOf id) t.core.toks.length true) := by
  simp [TTL.get, h]

theorem TTL.add_new {t : TTL} {k : Nat} (v : Nat) (h : t.m k = none) :
    t.add k v = ({ m := fun k' => if k' = k then some t.core.rcs.length else t.m k',
                   core := (t.core.newRc k v).newTok t.core.rcs.length },
                 .got v t.core.toks.length true) := by
  simp [TTL.add, h]

theorem TTL.add_hit {t : TTL} {k id : Nat} (v : Nat) (h : t.m k = some id) :
    t.add k v = ({ t with core := t.core.newTok id }, .got (t.core.valOf id) t.core.toks.length false) := by
  simp [TTL.add, h]

theorem TTL.done_toks {t : TTL} {tok : Nat} {tk : Tok} (e : Bool) (ht : t.core.toks[tok]? = some tk) :
    (t.done tok e).1.core.toks = t.core.toks.set tok { tk with once := true } := by
  cases e with
  | false => rw [TTL.done_false_eq]; exact release_toks _ _ _ ht
  | true => rw [TTL.done_true_core ht]; exact release_toks _ _ _ ht

theorem TTL.done_frame {t : TTL} {tok : Nat} {tk : Tok} (e : Bool) (ht : t.core.toks[tok]? = some tk) :
    Frame t.core (t.done tok e).1.core tk.rc := by
  cases e with
  | false => rw [TTL.done_false_eq]; exact frame_release _ _ _ ht
  | true =>
    rw [TTL.done_true_core ht]
    exact (frame_release _ _ _ ht).trans (frame_fin _ _)

/-- `done` never adds a map entry. -/
theorem TTL.done_m_sub {t : TTL} {tok : Nat} (e : Bool) {k id : Nat}
    (h : (t.done tok e).1.m k = some id) : t.m k = some id := by
  unfold TTL.done at h
  split at h
  · exact h
  · cases e with
    | false => exact h
    | true =>
      simp only [if_true] at h
      split at h
      · exact h
      · split at h
        · simp only at h
          split at h
          · cases h
          · exact h
        · exact h

theorem TTL.evict_frame {t : TTL} {k id : Nat} (h : t.m k = some id) :
    Frame t.core (t.evictLocked k).core id := by
  rw [TTL.evictLocked_of_mem h]; exact frame_fin _ _

theorem TTL.evict_m_sub {t : TTL} {k : Nat} {k' id : Nat}
    (h : (t.evictLocked k).m k' = some id) : t.m k' = some id := by
  unfold TTL.evictLocked at h
  split at h
  · simp only at h
    split at h
    · cases h
    · exact h
  · exact h

/-! ## B. both caches are reachable C10 states -/

/-- The cache is in a state the C10 model reaches from `NewTTLCache` by some TTL operations. -/
def Reach (t : TTL) : Prop := ∃ ops, t = TTL.run ops

theorem Reach.init : Reach {} := ⟨[], rfl⟩

theorem Reach.step {t : TTL} (h : Reach t) (op : TOp) : Reach (t.step op).1 := by
  obtain ⟨ops, rfl⟩ := h
  exact ⟨ops ++ [op], by simp [TTL.run, List.foldl_append]⟩

theorem Reach.inv {t : TTL} (h : Reach t) : TInv t := by
  obtain ⟨ops, rfl⟩ := h; exact TInv.run ops

theorem Reach.get {t : TTL} (h : Reach t) (k : Nat) : Reach (t.get k).1 := h.step (.get k)
theorem Reach.add {t : TTL} (h : Reach t) (k v : Nat) : Reach (t.add k v).1 := h.step (.add k v)
theorem Reach.evict {t : TTL} (h : Reach t) (k : Nat) : Reach (t.evictLocked k) := h.step (.expire k)
theorem Reach.done {t : TTL} (h : Reach t) (tok : Nat) (e : Bool) : Reach (t.done tok e).1 :=
  h.step (.done tok e)

/-- Under C10's invariant the callback counter is 0 or 1. -/
theorem _root_.SV.Refcount.TInv.calls_le_one {t : TTL} (inv : TInv t) {id : Nat} {r : RC} (h : t.core.rcs[id]? = some r) :
    r.calls ≤ 1 := (inv.core.ok id r h).calls_le_one

/-! ## C. refCounter `i` of a cache stands for object `i` -/

structure Link {α : Type} (t : TTL) (objs : List α) (name : α → Nat) (closed : α → Bool) : Prop where
  len : t.core.rcs.length = objs.length
  ok : ∀ (i : Nat) (r : RC), t.core.rcs[i]? = some r →
    ∃ o, objs[i]? = some o ∧ r.val = i ∧ name o = r.key ∧ closed o = (r.calls == 1)

theorem Link.init {α : Type} (name : α → Nat) (closed : α → Bool) : Link {} ([] : List α) name closed :=
  ⟨rfl, by intro i r h; simp at h⟩

theorem Link.obj {α : Type} {t : TTL} {objs : List α} {name closed} (lk : Link t objs name closed)
    {i : Nat} {o : α} (h : objs[i]? = some o) :
    ∃ r, t.core.rcs[i]? = some r ∧ r.val = i ∧ name o = r.key ∧ closed o = (r.calls == 1) := by
  have hlt : i < t.core.rcs.length := by rw [lk.len]; exact (List.getElem_of_getElem? h).1
  obtain ⟨o', ho', hv, hn, hc⟩ := lk.ok i _ (List.getElem?_eq_getElem hlt)
  rw [h] at ho'; cases ho'
  exact ⟨_, List.getElem?_eq_getElem hlt, hv, hn, hc⟩

theorem Link.step {α : Type} {t t' : TTL} {objs objs' : List α} {name closed} {id : Nat}
    (lk : Link t objs name closed) (fr : Frame t.core t'.core id)
    (hlen : objs'.length = objs.length)
    (hoth : ∀ j, j ≠ id → objs'[j]? = objs[j]?)
    (hid : ∀ o r r', objs[id]? = some o → t.core.rcs[id]? = some r → t'.core.rcs[id]? = some r' →
      ∃ o', objs'[id]? = some o' ∧ name o' = name o ∧ closed o' = (r'.calls == 1)) :
    Link t' objs' name closed := by
  refine ⟨by rw [fr.len, lk.len, hlen], ?_⟩
  intro i r' hr'
  by_cases e : i = id
  · subst e
    obtain ⟨r, hr, hk, hv, _⟩ := fr.same r' hr'
    obtain ⟨o, ho, hv0, hn0, _⟩ := lk.ok i r hr
    obtain ⟨o', ho', hn', hc'⟩ := hid o r r' ho hr hr'
    exact ⟨o', ho', hv.trans hv0, by rw [hn', hn0, hk], hc'⟩
  · rw [fr.other i e] at hr'
    obtain ⟨o, ho, hv0, hn0, hc0⟩ := lk.ok i r' hr'
    exact ⟨o, by rw [hoth i e]; exact ho, hv0, hn0, hc0⟩

/-- A step that leaves the callback counter of `id` alone keeps the link with the same objects. -/
theorem Link.step_same {α : Type} {t t' : TTL} {objs : List α} {name closed} {id : Nat}
    (lk : Link t objs name closed) (fr : Frame t.core t'.core id)
    (hc : ∀ r r', t.core.rcs[id]? = some r → t'.core.rcs[id]? = some r' → r'.calls = r.calls) :
    Link t' objs name closed := by
  refine lk.step fr rfl (fun _ _ => rfl) ?_
  intro o r r' ho hr hr'
  obtain ⟨o1, ho1, _, _, hc1⟩ := lk.ok id r hr
  rw [ho] at ho1; cases ho1
  exact ⟨o, ho, rfl, by rw [hc1, hc r r' hr hr']⟩

theorem Link.newTok {α : Type} {t : TTL} {objs : List α} {name closed} (lk : Link t objs name closed)
    (id : Nat) : Link { t with core := t.core.newTok id } objs name closed := by
  refine lk.step_same (frame_newTok _ _) ?_
  intro r r' hr hr'
  simp only [Core.newTok, getElem?_modify_eq, hr, Option.map_some, if_true, Option.some.injEq] at hr'
  subst hr'; rfl

/-- `Add` of a new key with the next object index as payload. -/
theorem Link.addNew {α : Type} {t : TTL} {objs : List α} {name closed} (lk : Link t objs name closed)
    {k : Nat} (hm : t.m k = none) (o : α) (hn : name o = k) (hc : closed o = false) :
    Link (t.add k objs.length).1 (objs ++ [o]) name closed := by
  rw [TTL.add_new _ hm]
  have h1 : Link { m := fun k' => if k' = k then some t.core.rcs.length else t.m k',
                   core := t.core.newRc k objs.length } (objs ++ [o]) name closed := by
    refine ⟨by simp [Core.newRc, lk.len], ?_⟩
    intro i r hr
    simp only [Core.newRc] at hr
    rw [List.getElem?_append] at hr
    split at hr
    · rename_i hlt
      obtain ⟨o', ho', h2⟩ := lk.ok i r hr
      refine ⟨o', ?_, h2⟩
      rw [List.getElem?_append_left (by rw [← lk.len]; exact hlt)]; exact ho'
    · rename_i hge
      have hi : i = t.core.rcs.length := by
        cases hj' : i - t.core.rcs.length with
        | zero => omega
        | succ n => simp [hj'] at hr
      subst hi
      simp at hr
      subst hr
      refine ⟨o, by simp [lk.len], by simp [lk.len], by simp [hn], by simp [hc, RC.initialize, RC.inc]⟩
  exact h1.newTok _

/-! ## D. blob closures owned by layers -/

/-- `L` = the layers, `T` = the closures of the blob cache, `p` = a closure a running `Resolve`
holds in a local variable (`blobR`) and has not yet handed to a layer or released.
Every layer owns its own closure, released iff the layer is closed; every other closure is released. -/
structure XInv (L : List Layer) (T : List Tok) (p : Option Nat) : Prop where
  btok : ∀ (i : Nat) (l : Layer), L[i]? = some l → ∃ t, T[l.blobTok]? = some t ∧ t.once = l.closed
  binj : ∀ (i j : Nat) (li lj : Layer), L[i]? = some li → L[j]? = some lj → li.blobTok = lj.blobTok → i = j
  orphan : ∀ (tok : Nat) (t : Tok), T[tok]? = some t → t.once = false →
    (∃ (i : Nat) (l : Layer), L[i]? = some l ∧ l.blobTok = tok) ∨ p = some tok
  pend : ∀ tok, p = some tok →
    (∃ t, T[tok]? = some t ∧ t.once = false) ∧ ∀ (i : Nat) (l : Layer), L[i]? = some l → l.blobTok ≠ tok

theorem XInv.init : XInv [] [] none :=
  ⟨by intro i l h; simp at h, by intro i j li lj h; simp at h, by intro tok t h; simp at h,
   by intro tok h; cases h⟩

theorem XInv.tokLt {L : List Layer} {T : List Tok} {p : Option Nat} (x : XInv L T p) {i : Nat} {l : Layer} (h : L[i]? = some l) :
    l.blobTok < T.length := by
  obtain ⟨t, ht, _⟩ := x.btok i l h
  exact (List.getElem_of_getElem? ht).1

/-- `Get`/`Add` of the blob cache hands out a new closure, kept in `blobR`. -/
theorem XInv.newTok {L : List Layer} {T : List Tok} (x : XInv L T none) (id : Nat) : XInv L (T ++ [{ rc := id }]) (some T.length) := by
  refine ⟨?_, x.binj, ?_, ?_⟩
  · intro i l h
    obtain ⟨t, ht, ho⟩ := x.btok i l h
    exact ⟨t, by rw [List.getElem?_append_left (x.tokLt h)]; exact ht, ho⟩
  · intro tok t ht ho
    by_cases hlt : tok < T.length
    · rw [List.getElem?_append_left hlt] at ht
      rcases x.orphan tok t ht ho with h | h
      · exact Or.inl h
      · cases h
    · have : tok = T.length := by
        have := (List.getElem_of_getElem? ht).1
        simp at this; omega
      exact Or.inr (by rw [this])
  · intro tok h
    cases h
    refine ⟨⟨{ rc := id }, by simp, rfl⟩, ?_⟩
    intro i l h e
    have := x.tokLt h
    omega

/-- `blobR.done(true)` on the closure held in `blobR`. -/
theorem XInv.releasePending {L : List Layer} {T : List Tok} {tok : Nat} {t : Tok} (x : XInv L T (some tok)) (ht : T[tok]? = some t) :
    XInv L (T.set tok { t with once := true }) none := by
  have hne := (x.pend tok rfl).2
  refine ⟨?_, x.binj, ?_, by intro tok h; cases h⟩
  · intro i l h
    obtain ⟨t', ht', ho⟩ := x.btok i l h
    refine ⟨t', ?_, ho⟩
    rw [List.getElem?_set_ne (Ne.symm (hne i l h))]; exact ht'
  · intro tok' t' ht' ho
    by_cases e : tok = tok'
    · subst e
      rw [List.getElem?_set_self (List.getElem_of_getElem? ht).1] at ht'
      cases ht'; simp at ho
    · rw [List.getElem?_set_ne e] at ht'
      rcases x.orphan tok' t' ht' ho with h | h
      · exact Or.inl h
      · cases h; exact absurd rfl e

/-- `newLayer(…, blobR, …)`: the closure held in `blobR` becomes the new layer's. -/
theorem XInv.attach {L : List Layer} {T : List Tok} {b : Nat} (x : XInv L T (some b)) (l : Layer) (hb : l.blobTok = b)
    (hc : l.closed = false) : XInv (L ++ [l]) T none := by
  obtain ⟨⟨t, ht, ho⟩, hne⟩ := x.pend b rfl
  have look : ∀ (i : Nat) (li : Layer), (L ++ [l])[i]? = some li → (L[i]? = some li) ∨ (i = L.length ∧ li = l) := by
    intro i li h
    rw [List.getElem?_append] at h
    split at h
    · exact Or.inl h
    · have hi : i = L.length := by
        cases hj' : i - L.length with
        | zero => omega
        | succ n => simp [hj'] at h
      subst hi; simp at h; exact Or.inr ⟨rfl, h.symm⟩
  refine ⟨?_, ?_, ?_, by intro tok h; cases h⟩
  · intro i li h
    rcases look i li h with h | ⟨_, h⟩
    · exact x.btok i li h
    · subst h; exact ⟨t, by rw [hb]; exact ht, by rw [ho, hc]⟩
  · intro i j li lj hi hj e
    rcases look i li hi with hi0 | ⟨hi1, hi2⟩ <;> rcases look j lj hj with hj0 | ⟨hj1, hj2⟩
    · exact x.binj i j li lj hi0 hj0 e
    · exact absurd (e.trans (hj2 ▸ hb)) (hne i li hi0)
    · exact absurd (e.symm.trans (hi2 ▸ hb)) (hne j lj hj0)
    · omega
  · intro tok t' ht' ho'
    rcases x.orphan tok t' ht' ho' with ⟨i, li, hi, hli⟩ | h
    · exact Or.inl ⟨i, li, by rw [List.getElem?_append_left (List.getElem_of_getElem? hi).1]; exact hi, hli⟩
    · cases h
      exact Or.inl ⟨L.length, l, by simp, hb⟩

/-- `layer.close`: the layer is marked closed and its blob closure is called. -/
theorem XInv.closeLayer {L : List Layer} {T : List Tok} {p : Option Nat} {lid : Nat} {l l' : Layer} {t : Tok} (x : XInv L T p)
    (hl : L[lid]? = some l) (ht : T[l.blobTok]? = some t)
    (hb : l'.blobTok = l.blobTok) (hc : l'.closed = true) :
    XInv (L.set lid l') (T.set l.blobTok { t with once := true }) p := by
  have hlt := (List.getElem_of_getElem? hl).1
  have look : ∀ (i : Nat) (li : Layer), (L.set lid l')[i]? = some li →
      (i ≠ lid ∧ L[i]? = some li) ∨ (i = lid ∧ li = l') := by
    intro i li h
    by_cases e : lid = i
    · subst e
      rw [List.getElem?_set_self hlt] at h
      exact Or.inr ⟨rfl, by cases h; rfl⟩
    · rw [List.getElem?_set_ne e] at h
      exact Or.inl ⟨Ne.symm e, h⟩
  have tlt := (List.getElem_of_getElem? ht).1
  refine ⟨?_, ?_, ?_, ?_⟩
  · intro i li h
    rcases look i li h with ⟨hne, h⟩ | ⟨_, h⟩
    · obtain ⟨t', ht', ho⟩ := x.btok i li h
      have : l.blobTok ≠ li.blobTok := fun e => hne (x.binj i lid li l h hl e.symm)
      exact ⟨t', by rw [List.getElem?_set_ne this]; exact ht', ho⟩
    · subst h
      exact ⟨{ t with once := true }, by rw [hb, List.getElem?_set_self tlt], by simp [hc]⟩
  · intro i j li lj hi hj e
    have bt : ∀ (i : Nat) (li : Layer), (L.set lid l')[i]? = some li → ∃ lo, L[i]? = some lo ∧ lo.blobTok = li.blobTok := by
      intro i li h
      rcases look i li h with ⟨_, h⟩ | ⟨h1, h2⟩
      · exact ⟨li, h, rfl⟩
      · subst h1 h2; exact ⟨l, hl, hb.symm⟩
    obtain ⟨a, ha, ea⟩ := bt i li hi
    obtain ⟨b, hb', eb⟩ := bt j lj hj
    exact x.binj i j a b ha hb' (by rw [ea, eb, e])
  · intro tok t' ht' ho'
    by_cases e : l.blobTok = tok
    · subst e
      rw [List.getElem?_set_self tlt] at ht'
      cases ht'; simp at ho'
    · rw [List.getElem?_set_ne e] at ht'
      rcases x.orphan tok t' ht' ho' with ⟨i, li, hi, hli⟩ | h
      · have : i ≠ lid := by
          intro ei; subst ei; rw [hl] at hi; cases hi; exact e hli
        exact Or.inl ⟨i, li, by rw [List.getElem?_set_ne (Ne.symm this)]; exact hi, hli⟩
      · exact Or.inr h
  · intro tok hp
    obtain ⟨⟨t', ht', ho⟩, hne⟩ := x.pend tok hp
    have e : l.blobTok ≠ tok := hne lid l hl
    refine ⟨⟨t', by rw [List.getElem?_set_ne e]; exact ht', ho⟩, ?_⟩
    intro i li h
    rcases look i li h with ⟨_, h⟩ | ⟨h1, h2⟩
    · exact hne i li h
    · subst h2; rw [hb]; exact e

/-! ## D'. a closed layer's blob reference was released WITH eviction -/

/-- `layer.close` calls `l.blob.done(true)`: the refCounter behind a closed layer's blob closure has
been finalised (`finalizeOnce` fired), i.e. the blob left the blob cache. -/
def FInv (L : List Layer) (c : Core) : Prop :=
  ∀ (i : Nat) (l : Layer) (tk : Tok), L[i]? = some l → l.closed = true → c.toks[l.blobTok]? = some tk →
    ∃ r, c.rcs[tk.rc]? = some r ∧ r.finDone = true

theorem Frame.finMono {c c' : Core} {id : Nat} (fr : Frame c c' id) {j : Nat} {r : RC}
    (h : c.rcs[j]? = some r) (hf : r.finDone = true) : ∃ r', c'.rcs[j]? = some r' ∧ r'.finDone = true := by
  by_cases e : j = id
  · subst e
    have hlt : j < c'.rcs.length := by rw [fr.len]; exact (List.getElem_of_getElem? h).1
    exact ⟨_, List.getElem?_eq_getElem hlt, fr.fin r _ h (List.getElem?_eq_getElem hlt) hf⟩
  · exact ⟨r, by rw [fr.other j e]; exact h, hf⟩

/-- The blob cache changed (refCounters monotone, closures keep their refCounter), the layers did not. -/
theorem FInv.core {L : List Layer} {c c' : Core} {p : Option Nat} (f : FInv L c) (x : XInv L c.toks p)
    (hrc : ∀ (j : Nat) (r : RC), c.rcs[j]? = some r → r.finDone = true → ∃ r', c'.rcs[j]? = some r' ∧ r'.finDone = true)
    (htk : ∀ (tok : Nat) (tk : Tok), c.toks[tok]? = some tk → ∃ tk', c'.toks[tok]? = some tk' ∧ tk'.rc = tk.rc) :
    FInv L c' := by
  intro i l tk' hl hc htk'
  obtain ⟨tk, htk0, _⟩ := x.btok i l hl
  obtain ⟨tk'', h2, hrc2⟩ := htk _ tk htk0
  rw [htk'] at h2; cases h2
  obtain ⟨r, hr, hf⟩ := f i l tk hl hc htk0
  rw [hrc2]
  exact hrc _ r hr hf

theorem toks_append_fwd (T : List Tok) (x : Tok) :
    ∀ (tok : Nat) (tk : Tok), T[tok]? = some tk → ∃ tk', (T ++ [x])[tok]? = some tk' ∧ tk'.rc = tk.rc := by
  intro tok tk h
  exact ⟨tk, by rw [List.getElem?_append_left (List.getElem_of_getElem? h).1]; exact h, rfl⟩

theorem toks_set_fwd (T : List Tok) (n : Nat) (t : Tok) (ht : T[n]? = some t) :
    ∀ (tok : Nat) (tk : Tok), T[tok]? = some tk →
      ∃ tk', (T.set n { t with once := true })[tok]? = some tk' ∧ tk'.rc = tk.rc := by
  intro tok tk h
  by_cases e : n = tok
  · subst e
    rw [ht] at h; cases h
    exact ⟨_, List.getElem?_set_self (List.getElem_of_getElem? ht).1, rfl⟩
  · exact ⟨tk, by rw [List.getElem?_set_ne e]; exact h, rfl⟩

theorem FInv.done {L : List Layer} {t : TTL} {p : Option Nat} (f : FInv L t.core) (x : XInv L t.core.toks p)
    {tok : Nat} {tk : Tok} (e : Bool) (ht : t.core.toks[tok]? = some tk) : FInv L (t.done tok e).1.core := by
  refine f.core x (fun _ _ h hf => (TTL.done_frame e ht).finMono h hf) ?_
  rw [TTL.done_toks e ht]
  exact toks_set_fwd _ _ _ ht

theorem FInv.evict {L : List Layer} {t : TTL} {p : Option Nat} (f : FInv L t.core) (x : XInv L t.core.toks p)
    (k : Nat) : FInv L (t.evictLocked k).core := by
  cases hm : t.m k with
  | none => simpa [TTL.evictLocked, hm] using f
  | some id =>
    refine f.core x (fun _ _ h hf => (TTL.evict_frame hm).finMono h hf) ?_
    rw [TTL.evictLocked_toks]
    exact fun tok tk h => ⟨tk, h, rfl⟩

theorem FInv.newTok {L : List Layer} {c : Core} {p : Option Nat} (f : FInv L c) (x : XInv L c.toks p)
    (id : Nat) : FInv L (c.newTok id) :=
  f.core x (fun _ _ h hf => (frame_newTok c id).finMono h hf) (toks_append_fwd _ _)

theorem FInv.addNew {L : List Layer} {t : TTL} {p : Option Nat} (f : FInv L t.core) (x : XInv L t.core.toks p)
    {k : Nat} (v : Nat) (hm : t.m k = none) : FInv L (t.add k v).1.core := by
  rw [TTL.add_new _ hm]
  have f1 : FInv L (t.core.newRc k v) := by
    refine f.core x ?_ (fun tok tk h => ⟨tk, h, rfl⟩)
    intro j r h hf
    exact ⟨r, by simp only [Core.newRc]; rw [List.getElem?_append_left (List.getElem_of_getElem? h).1]; exact h, hf⟩
  exact f1.newTok (p := p) x _

theorem FInv.attach {L : List Layer} {c : Core} (f : FInv L c) (l : Layer) (hc : l.closed = false) :
    FInv (L ++ [l]) c := by
  intro i li tk hl hcl htk
  rw [List.getElem?_append] at hl
  split at hl
  · exact f i li tk hl hcl htk
  · have hi : i = L.length := by
      cases hj' : i - L.length with
      | zero => omega
      | succ n => simp [hj'] at hl
    subst hi; simp at hl; subst hl; rw [hc] at hcl; cases hcl

/-- `layer.close`: the layer is marked closed and its closure is called with `evict = true`. -/
theorem FInv.closeLayer {L : List Layer} {t : TTL} {p : Option Nat} (hr : Reach t) (f : FInv L t.core)
    (x : XInv L t.core.toks p) {lid : Nat} {l l' : Layer} {tk : Tok} (hl : L[lid]? = some l) (ht : t.core.toks[l.blobTok]? = some tk)
    (hb : l'.blobTok = l.blobTok) : FInv (L.set lid l') (t.done l.blobTok true).1.core := by
  have hlt := (List.getElem_of_getElem? hl).1
  have fd := f.done x true ht
  intro i li tk' hli hc htk'
  by_cases e : lid = i
  · subst e
    rw [List.getElem?_set_self hlt] at hli; cases hli
    rw [hb, TTL.done_toks true ht, List.getElem?_set_self (List.getElem_of_getElem? ht).1] at htk'
    cases htk'
    show ∃ r, (t.done l.blobTok true).1.core.rcs[tk.rc]? = some r ∧ r.finDone = true
    rw [TTL.done_true_core ht]
    have hlt2 : tk.rc < (t.core.release l.blobTok).rcs.length := by
      rw [(frame_release _ _ _ ht).len]
      exact hr.inv.core.tokLt tk (List.mem_of_getElem? ht)
    exact ⟨((t.core.release l.blobTok).rcs[tk.rc]).finalize,
      by rw [fin_lookup, List.getElem?_eq_getElem hlt2]; simp, by simp⟩
  · rw [List.getElem?_set_ne e] at hli
    exact fd i li tk' hli hc htk'

/-! ## E. what the callbacks and cache operations of the state leave untouched -/

@[simp] theorem closeBlob_bc (s : State) (bid : Nat) : (closeBlob s bid).bc = s.bc := by
  unfold closeBlob; split
  · rfl
  · split <;> rfl
@[simp] theorem closeBlob_lc (s : State) (bid : Nat) : (closeBlob s bid).lc = s.lc := by
  unfold closeBlob; split
  · rfl
  · split <;> rfl
@[simp] theorem closeBlob_layers (s : State) (bid : Nat) : (closeBlob s bid).layers = s.layers := by
  unfold closeBlob; split
  · rfl
  · split <;> rfl
@[simp] theorem closeBlob_fsDirs (s : State) (bid : Nat) : (closeBlob s bid).fsDirs = s.fsDirs := by
  unfold closeBlob; split
  · rfl
  · split <;> rfl

@[simp] theorem bcFire_bc (s : State) (c0 : Core) (id : Nat) : (bcFire s c0 id).bc = s.bc := by
  unfold bcFire; split <;> simp
@[simp] theorem bcFire_lc (s : State) (c0 : Core) (id : Nat) : (bcFire s c0 id).lc = s.lc := by
  unfold bcFire; split <;> simp
@[simp] theorem bcFire_layers (s : State) (c0 : Core) (id : Nat) : (bcFire s c0 id).layers = s.layers := by
  unfold bcFire; split <;> simp
@[simp] theorem bcFire_fsDirs (s : State) (c0 : Core) (id : Nat) : (bcFire s c0 id).fsDirs = s.fsDirs := by
  unfold bcFire; split <;> simp

@[simp] theorem bcDone_bc (s : State) (tok : Nat) (e : Bool) : (bcDone s tok e).bc = (s.bc.done tok e).1 := by
  unfold bcDone; split
  · rename_i h; simp [TTL.done, h]
  · simp
@[simp] theorem bcDone_lc (s : State) (tok : Nat) (e : Bool) : (bcDone s tok e).lc = s.lc := by
  unfold bcDone; split <;> simp
@[simp] theorem bcDone_layers (s : State) (tok : Nat) (e : Bool) : (bcDone s tok e).layers = s.layers := by
  unfold bcDone; split <;> simp
@[simp] theorem bcDone_fsDirs (s : State) (tok : Nat) (e : Bool) : (bcDone s tok e).fsDirs = s.fsDirs := by
  unfold bcDone; split <;> simp

@[simp] theorem bcEvict_bc (s : State) (k : Nat) : (bcEvict s k).bc = s.bc.evictLocked k := by
  unfold bcEvict; split
  · rename_i h; simp [TTL.evictLocked, h]
  · simp
@[simp] theorem bcEvict_lc (s : State) (k : Nat) : (bcEvict s k).lc = s.lc := by
  unfold bcEvict; split <;> simp
@[simp] theorem bcEvict_layers (s : State) (k : Nat) : (bcEvict s k).layers = s.layers := by
  unfold bcEvict; split <;> simp
@[simp] theorem bcEvict_fsDirs (s : State) (k : Nat) : (bcEvict s k).fsDirs = s.fsDirs := by
  unfold bcEvict; split <;> simp

@[simp] theorem TTL.evictLocked_toks' (t : TTL) (k : Nat) : (t.evictLocked k).core.toks = t.core.toks :=
  TTL.evictLocked_toks t k

/-! ## F. the invariants of the state -/

/-- blob cache ↔ `Blob` objects ↔ `httpcache` directories -/
structure BInv (s : State) : Prop where
  reach : Reach s.bc
  link : Link s.bc s.blobs Blob.name Blob.closed
  flags : ∀ (i : Nat) (b : Blob), s.blobs[i]? = some b → b.cacheClosed = b.closed
  dirs : s.httpDirs = ((s.blobs.countP (fun b => !b.closed) : Nat) : Int)

/-- layer cache ↔ `*layer` objects ↔ `fscache` directories -/
structure LInv (s : State) : Prop where
  reach : Reach s.lc
  link : Link s.lc s.layers Layer.name Layer.closed
  flags : ∀ (i : Nat) (l : Layer), s.layers[i]? = some l →
    l.readerClosed = l.closed ∧ l.metadataClosed = l.closed ∧ l.cachesClosed = l.closed ∧
    l.blobDone = (if l.closed then 1 else 0)
  dirs : s.fsDirs = ((s.layers.countP (fun l => !l.closed) : Nat) : Int)

structure Inv (s : State) (p : Option Nat) : Prop where
  b : BInv s
  l : LInv s
  x : XInv s.layers s.bc.core.toks p
  f : FInv s.layers s.bc.core

theorem BInv.congr {s s' : State} (h : BInv s) (e1 : s'.bc = s.bc) (e2 : s'.blobs = s.blobs)
    (e3 : s'.httpDirs = s.httpDirs) : BInv s' :=
  ⟨e1 ▸ h.reach, by rw [e1, e2]; exact h.link, by rw [e2]; exact h.flags, by rw [e2, e3]; exact h.dirs⟩

theorem LInv.congr {s s' : State} (h : LInv s) (e1 : s'.lc = s.lc) (e2 : s'.layers = s.layers)
    (e3 : s'.fsDirs = s.fsDirs) : LInv s' :=
  ⟨e1 ▸ h.reach, by rw [e1, e2]; exact h.link, by rw [e2]; exact h.flags, by rw [e2, e3]; exact h.dirs⟩

theorem Inv.init : Inv {} none :=
  ⟨⟨Reach.init, Link.init _ _, by intro i b h; simp at h, rfl⟩,
   ⟨Reach.init, Link.init _ _, by intro i l h; simp at h, rfl⟩, XInv.init,
   by intro i l tk h; simp at h⟩

/-- Did the callback of `id` run between `c` and `c'`?  Under C10's invariant: yes iff the counter
went from 0 to 1. -/
theorem fired_cases {t t' : TTL} {id : Nat} (fr : Frame t.core t'.core id) (inv' : TInv t') :
    (callsOf t.core id < callsOf t'.core id ∧
      ∃ r r', t.core.rcs[id]? = some r ∧ t'.core.rcs[id]? = some r' ∧ r.calls = 0 ∧ r'.calls = 1) ∨
    (¬ callsOf t.core id < callsOf t'.core id ∧
      ∀ r r', t.core.rcs[id]? = some r → t'.core.rcs[id]? = some r' → r'.calls = r.calls) := by
  cases h' : t'.core.rcs[id]? with
  | none =>
    right
    have hn : t.core.rcs[id]? = none := by
      have := fr.len
      rw [List.getElem?_eq_none_iff] at h' ⊢; omega
    refine ⟨by simp [callsOf, h', hn], ?_⟩
    intro r r' hr; rw [hn] at hr; cases hr
  | some r' =>
    obtain ⟨r, hr, _, _, hle⟩ := fr.same r' h'
    have h1 := inv'.calls_le_one h'
    rw [callsOf_of hr, callsOf_of h']
    by_cases hlt : r.calls < r'.calls
    · left; exact ⟨hlt, r, r', hr, rfl, by omega, by omega⟩
    · right
      refine ⟨hlt, ?_⟩
      intro a b ha hb
      rw [hr] at ha; cases ha; cases hb; omega

theorem countP_set_close {α : Type} (closed : α → Bool) (objs : List α) (i : Nat) (o o' : α)
    (h : objs[i]? = some o) (hc : closed o = false) (hc' : closed o' = true) :
    (((objs.set i o').countP (fun b => !closed b) : Nat) : Int) =
      ((objs.countP (fun b => !closed b) : Nat) : Int) - 1 := by
  obtain ⟨hlt, hget⟩ := List.getElem_of_getElem? h
  rw [List.countP_set hlt]
  have hpos : 0 < objs.countP (fun b => !closed b) :=
    List.countP_pos_iff.mpr ⟨o, List.mem_of_getElem? h, by simp [hc]⟩
  simp [hget, hc, hc']
  omega

theorem closeBlob_open {s : State} {bid : Nat} {b : Blob} (h : s.blobs[bid]? = some b)
    (hc : b.closed = false) :
    closeBlob s bid = { s with blobs := s.blobs.set bid { b with closed := true, cacheClosed := true },
                               httpDirs := s.httpDirs - 1 } := by
  simp [closeBlob, h, hc]

/-- A blob-cache operation followed by the callback it may have triggered keeps the blob side. -/
theorem BInv.fire {s : State} (inv : BInv s) {t' : TTL} {id : Nat} (hr : Reach t')
    (fr : Frame s.bc.core t'.core id) : BInv (bcFire { s with bc := t' } s.bc.core id) := by
  unfold bcFire
  rcases fired_cases fr hr.inv with ⟨hf, r, r', h0, h1, c0, c1⟩ | ⟨hf, hsame⟩
  · simp only [hf, if_true]
    obtain ⟨b, hb, hv, hn, hc⟩ := inv.link.ok id r h0
    have hbc : b.closed = false := by rw [hc, c0]; rfl
    obtain ⟨r0, hr0, _, hv0, _⟩ := fr.same r' h1
    rw [h0] at hr0; cases hr0
    have hval : t'.core.valOf id = id := by rw [valOf_of h1, hv0, hv]
    simp only [hval]
    rw [closeBlob_open (s := { s with bc := t' }) hb hbc]
    have hlt := (List.getElem_of_getElem? hb).1
    refine ⟨hr, ?_, ?_, ?_⟩
    · refine inv.link.step fr (by simp) (fun j hj => by simp [List.getElem?_set_ne (Ne.symm hj)]) ?_
      intro o a a' ho ha ha'
      rw [hb] at ho; cases ho
      rw [h1] at ha'; cases ha'
      exact ⟨{ b with closed := true, cacheClosed := true }, by simp [List.getElem?_set_self hlt], rfl,
        by simp [c1]⟩
    · intro i b' hb'
      simp only at hb'
      by_cases e : id = i
      · subst e; rw [List.getElem?_set_self hlt] at hb'; cases hb'; rfl
      · rw [List.getElem?_set_ne e] at hb'; exact inv.flags i b' hb'
    · simp only
      rw [countP_set_close Blob.closed s.blobs id b _ hb hbc rfl, inv.dirs]
  · simp only [hf, if_false]
    exact ⟨hr, inv.link.step_same fr hsame, inv.flags, inv.dirs⟩

theorem BInv.bcDone {s : State} (inv : BInv s) (tok : Nat) (e : Bool) : BInv (bcDone s tok e) := by
  unfold SV.LayerLife.bcDone
  split
  · exact inv
  · rename_i t ht
    exact inv.fire (inv.reach.done tok e) (TTL.done_frame e ht)

theorem BInv.bcEvict {s : State} (inv : BInv s) (k : Nat) : BInv (bcEvict s k) := by
  unfold SV.LayerLife.bcEvict
  split
  · exact inv
  · rename_i id hm
    exact inv.fire (inv.reach.evict k) (TTL.evict_frame hm)

theorem bcDone_toks {s : State} {tok : Nat} {t : Tok} (e : Bool) (ht : s.bc.core.toks[tok]? = some t) :
    (bcDone s tok e).bc.core.toks = s.bc.core.toks.set tok { t with once := true } := by
  rw [bcDone_bc]; exact TTL.done_toks e ht

/-! ## G. layer side -/

/-- What `layer.close` turns an open layer into. -/
def Layer.shut (l : Layer) : Layer :=
  { l with closed := true, readerClosed := true, cachesClosed := true, metadataClosed := true,
           blobDone := l.blobDone + 1 }

theorem closeLayer_open {s : State} {lid : Nat} {l : Layer} (h : s.layers[lid]? = some l)
    (hc : l.closed = false) :
    closeLayer s lid =
      bcDone { s with layers := s.layers.set lid l.shut, fsDirs := s.fsDirs - 1 } l.blobTok true := by
  simp [closeLayer, h, hc, Layer.shut]

theorem closeLayer_closed {s : State} {lid : Nat} {l : Layer} (h : s.layers[lid]? = some l)
    (hc : l.closed = true) : closeLayer s lid = s := by
  simp [closeLayer, h, hc]

@[simp] theorem closeLayer_lc (s : State) (lid : Nat) : (closeLayer s lid).lc = s.lc := by
  unfold closeLayer; split
  · rfl
  · split
    · rfl
    · simp

@[simp] theorem lcFire_lc (s : State) (c0 : Core) (id : Nat) : (lcFire s c0 id).lc = s.lc := by
  unfold lcFire; split <;> simp

@[simp] theorem lcDone_lc (s : State) (tok : Nat) (e : Bool) : (lcDone s tok e).lc = (s.lc.done tok e).1 := by
  unfold lcDone; split
  · rename_i h; simp [TTL.done, h]
  · simp

@[simp] theorem lcEvict_lc (s : State) (k : Nat) : (lcEvict s k).lc = s.lc.evictLocked k := by
  unfold lcEvict; split
  · rename_i h; simp [TTL.evictLocked, h]
  · simp

/-- A layer-cache operation followed by the callback it may have triggered (which in turn calls the
blob closure, which may trigger the blob cache's callback) keeps the whole invariant. -/
theorem Inv.lcFire {s : State} {p : Option Nat} (inv : Inv s p) {t' : TTL} {id : Nat} (hr : Reach t')
    (fr : Frame s.lc.core t'.core id) : Inv (lcFire { s with lc := t' } s.lc.core id) p := by
  unfold SV.LayerLife.lcFire
  rcases fired_cases fr hr.inv with ⟨hf, r, r', h0, h1, c0, c1⟩ | ⟨hf, hsame⟩
  · simp only [hf, if_true]
    obtain ⟨l, hl, hv, hn, hc⟩ := inv.l.link.ok id r h0
    have hlc : l.closed = false := by rw [hc, c0]; rfl
    obtain ⟨r0, hr0, _, hv0, _⟩ := fr.same r' h1
    rw [h0] at hr0; cases hr0
    have hval : t'.core.valOf id = id := by rw [valOf_of h1, hv0, hv]
    simp only [hval]
    rw [closeLayer_open (s := { s with lc := t' }) hl hlc]
    have hlt := (List.getElem_of_getElem? hl).1
    obtain ⟨tk, htk, _⟩ := inv.x.btok id l hl
    refine ⟨?_, ?_, ?_, ?_⟩
    · apply BInv.bcDone
      exact inv.b.congr rfl rfl rfl
    · refine LInv.congr (s := { s with lc := t', layers := s.layers.set id l.shut, fsDirs := s.fsDirs - 1 })
        ?_ (by simp) (by simp) (by simp)
      refine ⟨hr, ?_, ?_, ?_⟩
      · refine inv.l.link.step fr (by simp) (fun j hj => by simp [List.getElem?_set_ne (Ne.symm hj)]) ?_
        intro o a a' ho ha ha'
        rw [hl] at ho; cases ho
        rw [h1] at ha'; cases ha'
        exact ⟨l.shut, by simp [List.getElem?_set_self hlt], rfl, by simp [c1, Layer.shut]⟩
      · intro i l' hl'
        simp only at hl'
        by_cases e : id = i
        · subst e
          rw [List.getElem?_set_self hlt] at hl'; cases hl'
          have := (inv.l.flags id l hl).2.2.2
          simp [Layer.shut, this, hlc]
        · rw [List.getElem?_set_ne e] at hl'; exact inv.l.flags i l' hl'
      · simp only
        rw [countP_set_close Layer.closed s.layers id l _ hl hlc rfl, inv.l.dirs]
    · rw [bcDone_layers, bcDone_toks true (by exact htk)]
      exact inv.x.closeLayer hl htk rfl rfl
    · rw [bcDone_layers, bcDone_bc]
      exact FInv.closeLayer inv.b.reach inv.f inv.x hl htk rfl
  · simp only [hf, if_false]
    exact ⟨inv.b.congr rfl rfl rfl, ⟨hr, inv.l.link.step_same fr hsame, inv.l.flags, inv.l.dirs⟩, inv.x, inv.f⟩

theorem Inv.lcDone {s : State} {p : Option Nat} (inv : Inv s p) (tok : Nat) (e : Bool) :
    Inv (lcDone s tok e) p := by
  unfold SV.LayerLife.lcDone
  split
  · exact inv
  · rename_i t ht
    exact inv.lcFire (inv.l.reach.done tok e) (TTL.done_frame e ht)

theorem Inv.lcEvict {s : State} {p : Option Nat} (inv : Inv s p) (k : Nat) : Inv (lcEvict s k) p := by
  unfold SV.LayerLife.lcEvict
  split
  · exact inv
  · rename_i id hm
    exact inv.lcFire (inv.l.reach.evict k) (TTL.evict_frame hm)

theorem Inv.bcEvict {s : State} {p : Option Nat} (inv : Inv s p) (k : Nat) : Inv (bcEvict s k) p :=
  ⟨inv.b.bcEvict k, inv.l.congr (by simp) (by simp) (by simp), by simpa using inv.x,
   by rw [bcEvict_layers, bcEvict_bc]; exact inv.f.evict inv.x k⟩

/-- `blobR.done(true)` on the closure a running `Resolve` still holds. -/
theorem Inv.bcDonePending {s : State} {tok : Nat} (inv : Inv s (some tok)) :
    Inv (bcDone s tok true) none := by
  obtain ⟨⟨t, ht, _⟩, _⟩ := inv.x.pend tok rfl
  refine ⟨inv.b.bcDone _ _, inv.l.congr (by simp) (by simp) (by simp), ?_, ?_⟩
  · rw [bcDone_layers, bcDone_toks true ht]
    exact inv.x.releasePending ht
  · rw [bcDone_layers, bcDone_bc]
    exact inv.f.done inv.x true ht

/-! ## H. nothing is gained by the clean-up operations -/

/-- `s'` has no cache entry, layer object or directory that `s` does not have. -/
structure Sub (s s' : State) : Prop where
  lcm : ∀ k id, s'.lc.m k = some id → s.lc.m k = some id
  bcm : ∀ k id, s'.bc.m k = some id → s.bc.m k = some id
  nlay : s'.layers.length = s.layers.length
  fs : s'.fsDirs ≤ s.fsDirs
  http : s'.httpDirs ≤ s.httpDirs

theorem Sub.refl (s : State) : Sub s s :=
  ⟨fun _ _ h => h, fun _ _ h => h, rfl, Int.le_refl _, Int.le_refl _⟩

theorem Sub.trans {a b c : State} (h1 : Sub a b) (h2 : Sub b c) : Sub a c :=
  ⟨fun k id h => h1.lcm k id (h2.lcm k id h), fun k id h => h1.bcm k id (h2.bcm k id h),
   h2.nlay.trans h1.nlay, Int.le_trans h2.fs h1.fs, Int.le_trans h2.http h1.http⟩

theorem closeBlob_http_le (s : State) (bid : Nat) : (closeBlob s bid).httpDirs ≤ s.httpDirs := by
  unfold closeBlob; split
  · exact Int.le_refl _
  · split
    · exact Int.le_refl _
    · simp only; omega

theorem bcFire_http_le (s : State) (c0 : Core) (id : Nat) : (bcFire s c0 id).httpDirs ≤ s.httpDirs := by
  unfold bcFire; split
  · exact closeBlob_http_le _ _
  · exact Int.le_refl _

theorem bcDone_http_le (s : State) (tok : Nat) (e : Bool) : (bcDone s tok e).httpDirs ≤ s.httpDirs := by
  unfold bcDone; split
  · exact Int.le_refl _
  · exact bcFire_http_le _ _ _

theorem bcEvict_http_le (s : State) (k : Nat) : (bcEvict s k).httpDirs ≤ s.httpDirs := by
  unfold bcEvict; split
  · exact Int.le_refl _
  · exact bcFire_http_le _ _ _

theorem sub_bcDone (s : State) (tok : Nat) (e : Bool) : Sub s (bcDone s tok e) :=
  ⟨by simp, by intro k id h; rw [bcDone_bc] at h; exact TTL.done_m_sub e h, by simp, by simp,
   bcDone_http_le s tok e⟩

theorem sub_bcEvict (s : State) (k : Nat) : Sub s (bcEvict s k) :=
  ⟨by simp, by intro k' id h; rw [bcEvict_bc] at h; exact TTL.evict_m_sub h, by simp, by simp,
   bcEvict_http_le s k⟩

theorem sub_closeLayer (s : State) (lid : Nat) : Sub s (closeLayer s lid) := by
  unfold closeLayer
  split
  · exact Sub.refl s
  · split
    · exact Sub.refl s
    · rename_i l _ _
      refine Sub.trans (b := { s with layers := s.layers.set lid _, fsDirs := s.fsDirs - 1 }) ?_ (sub_bcDone _ _ _)
      exact ⟨fun _ _ h => h, fun _ _ h => h, by simp, by simp only; omega, Int.le_refl _⟩

theorem sub_lcFire (s : State) (c0 : Core) (id : Nat) : Sub s (lcFire s c0 id) := by
  unfold lcFire; split
  · exact sub_closeLayer _ _
  · exact Sub.refl s

theorem sub_lcDone (s : State) (tok : Nat) (e : Bool) : Sub s (lcDone s tok e) := by
  unfold lcDone; split
  · exact Sub.refl s
  · refine Sub.trans (b := { s with lc := (s.lc.done tok e).1 }) ?_ (sub_lcFire _ _ _)
    exact ⟨fun k id h => TTL.done_m_sub e h, fun _ _ h => h, rfl, Int.le_refl _, Int.le_refl _⟩

theorem sub_lcEvict (s : State) (k : Nat) : Sub s (lcEvict s k) := by
  unfold lcEvict; split
  · exact Sub.refl s
  · refine Sub.trans (b := { s with lc := s.lc.evictLocked k }) ?_ (sub_lcFire _ _ _)
    exact ⟨fun k' id h => TTL.evict_m_sub h, fun _ _ h => h, rfl, Int.le_refl _, Int.le_refl _⟩

/-! ### what the layer-side operations do to the closures of the layer cache -/

@[simp] theorem closeLayer_lc' (s : State) (lid : Nat) : (closeLayer s lid).lc.core.toks = s.lc.core.toks := by
  rw [closeLayer_lc]

theorem lcDone_toks {s : State} {tok : Nat} {t : Tok} (e : Bool) (ht : s.lc.core.toks[tok]? = some t) :
    (lcDone s tok e).lc.core.toks = s.lc.core.toks.set tok { t with once := true } := by
  rw [lcDone_lc]; exact TTL.done_toks e ht

/-! ### cached objects are open -/

theorem cached_open {α : Type} {t : TTL} {objs : List α} {name closed} (hr : Reach t)
    (lk : Link t objs name closed) {k id : Nat} (hm : t.m k = some id) :
    ∃ o r, objs[id]? = some o ∧ t.core.rcs[id]? = some r ∧ r.val = id ∧ r.key = k ∧ name o = k ∧
      closed o = false := by
  obtain ⟨r, hr', hk, hf⟩ := hr.inv.mOk k id hm
  obtain ⟨o, ho, hv, hn, hc⟩ := lk.ok id r hr'
  have h3 := (hr.inv.core.ok id r hr').2.2
  have : r.calls = 0 := by simpa [hf] using h3
  exact ⟨o, r, ho, hr', hv, hk, hn.trans hk, by rw [hc, this]; rfl⟩

/-- A closure not yet called keeps its value un-finalised (C10 `ttl_held_not_finalised`). -/
theorem held_open {α : Type} {t : TTL} {objs : List α} {name closed} (hr : Reach t)
    (lk : Link t objs name closed) {tok : Nat} {tk : Tok} (ht : t.core.toks[tok]? = some tk)
    (hn : tk.once = false) :
    ∃ o r, objs[tk.rc]? = some o ∧ t.core.rcs[tk.rc]? = some r ∧ r.val = tk.rc ∧ closed o = false := by
  have inv := hr.inv
  have hlt := inv.core.tokLt tk (List.mem_of_getElem? ht)
  have hr' := List.getElem?_eq_getElem hlt
  have ok := inv.core.ok tk.rc _ hr'
  have hp := held_pos_of_tok ht hn
  have h3 := ok.2.2
  have hz : ¬ ((t.core.rcs[tk.rc]).finDone = true ∧ held t.core.toks tk.rc = 0) := by
    intro h; omega
  have hc : (t.core.rcs[tk.rc]).calls = 0 := by simpa [hz] using h3
  obtain ⟨o, ho, hv, _, hcl⟩ := lk.ok tk.rc _ hr'
  exact ⟨o, _, ho, hr', hv, by rw [hcl, hc]; rfl⟩

/-- An open layer's blob is open. -/
theorem open_layer_blob {s : State} {p : Option Nat} (inv : Inv s p) {i : Nat} {l : Layer}
    (hl : s.layers[i]? = some l) (hc : l.closed = false) :
    ∃ tk bid b, s.bc.core.toks[l.blobTok]? = some tk ∧ tk.once = false ∧ blobOfTok s l.blobTok = some bid ∧
      s.blobs[bid]? = some b ∧ b.closed = false ∧ b.cacheClosed = false := by
  obtain ⟨tk, htk, ho⟩ := inv.x.btok i l hl
  rw [hc] at ho
  obtain ⟨b, r, hb, hr, hv, hbc⟩ := held_open inv.b.reach inv.b.link htk ho
  refine ⟨tk, tk.rc, b, htk, ho, ?_, hb, hbc, ?_⟩
  · simp [blobOfTok, htk, valOf_of hr, hv]
  · rw [inv.b.flags _ b hb, hbc]

theorem layerCheck_open {s : State} {p : Option Nat} (inv : Inv s p) {i : Nat} {l : Layer}
    (hl : s.layers[i]? = some l) (hc : l.closed = false) (probe : Bool) : layerCheck s i probe = probe := by
  obtain ⟨tk, bid, b, _, _, hbt, hb, hbc, _⟩ := open_layer_blob inv hl hc
  simp [layerCheck, hl, hc, blobRefCheck, hbt, blobCheck, blobClosed, hb, hbc]

theorem layerCheck_cached {s : State} {p : Option Nat} (inv : Inv s p) {k a : Nat}
    (hm : s.lc.m k = some a) (probe : Bool) : layerCheck s a probe = probe := by
  obtain ⟨l, _, hl, _, _, _, _, hc⟩ := cached_open inv.l.reach inv.l.link hm
  exact layerCheck_open inv hl hc probe

theorem blobCheck_cached {s : State} (inv : BInv s) {k id : Nat} (hm : s.bc.m k = some id)
    (probe : Bool) : blobCheck s id probe = probe := by
  obtain ⟨b, _, hb, _, _, _, _, hc⟩ := cached_open inv.reach inv.link hm
  simp [blobCheck, blobClosed, hb, hc]

/-! ## I. Resolve -/

theorem rbf_fail {s : State} {name : Nat} {o : Oracle} (h : o.bres = false) :
    resolveBlobFresh s name o = ({ s with httpDirs := s.httpDirs + 1 - 1 }, none) := by
  simp [resolveBlobFresh, h]

theorem rbf_ok {s : State} {name : Nat} {o : Oracle} (h : o.bres = true) (hm : s.bc.m name = none) :
    resolveBlobFresh s name o =
      ({ s with httpDirs := s.httpDirs + 1, blobs := s.blobs ++ [({ name := name } : Blob)],
                bc := (s.bc.add name s.blobs.length).1 }, some s.bc.core.toks.length) := by
  simp [resolveBlobFresh, h, TTL.add_new _ hm]

theorem Inv.fixHttp {s : State} {p : Option Nat} (inv : Inv s p) :
    Inv { s with httpDirs := s.httpDirs + 1 - 1 } p :=
  ⟨inv.b.congr rfl rfl (by simp only; omega), inv.l.congr rfl rfl rfl, inv.x, inv.f⟩

theorem Inv.fixFs {s : State} {p : Option Nat} (inv : Inv s p) :
    Inv { s with fsDirs := s.fsDirs + 1 - 1 } p :=
  ⟨inv.b.congr rfl rfl rfl, inv.l.congr rfl rfl (by simp only; omega), inv.x, inv.f⟩

/-- `makeBlob` + `blobCache.Add` of a name that is not cached. -/
theorem Inv.addBlob {s : State} (inv : Inv s none) {name : Nat} (hm : s.bc.m name = none) :
    Inv { s with httpDirs := s.httpDirs + 1, blobs := s.blobs ++ [({ name := name } : Blob)],
                 bc := (s.bc.add name s.blobs.length).1 } (some s.bc.core.toks.length) := by
  refine ⟨⟨inv.b.reach.add _ _, inv.b.link.addNew hm _ rfl rfl, ?_, ?_⟩, inv.l.congr rfl rfl rfl, ?_,
    inv.f.addNew inv.x _ hm⟩
  · intro i b hb
    simp only at hb
    rw [List.getElem?_append] at hb
    split at hb
    · exact inv.b.flags i b hb
    · have hi : i = s.blobs.length := by
        cases hj' : i - s.blobs.length with
        | zero => omega
        | succ n => simp [hj'] at hb
      subst hi; simp at hb; subst hb; rfl
  · simp only [List.countP_append, List.countP_singleton, inv.b.dirs]
    simp
  · simp only [TTL.add_new _ hm, newTok_toks, newRc_toks]
    exact inv.x.newTok _

/-- `blobCache.Get` hit: a new closure of the cached blob. -/
theorem Inv.getBlob {s : State} (inv : Inv s none) {name id : Nat} (hm : s.bc.m name = some id) :
    Inv { s with bc := { s.bc with core := s.bc.core.newTok id } } (some s.bc.core.toks.length) := by
  have hr : Reach { s.bc with core := s.bc.core.newTok id } := by
    have := inv.b.reach.get name
    rwa [TTL.get_hit hm] at this
  exact ⟨⟨hr, inv.b.link.newTok id, inv.b.flags, inv.b.dirs⟩, inv.l.congr rfl rfl rfl, inv.x.newTok id,
    inv.f.newTok inv.x id⟩

/-- `layerCache.Get` hit. -/
theorem Inv.getLayer {s : State} {p : Option Nat} (inv : Inv s p) {name id : Nat} (hm : s.lc.m name = some id) :
    Inv { s with lc := { s.lc with core := s.lc.core.newTok id } } p := by
  have hr : Reach { s.lc with core := s.lc.core.newTok id } := by
    have := inv.l.reach.get name
    rwa [TTL.get_hit hm] at this
  exact ⟨inv.b.congr rfl rfl rfl, ⟨hr, inv.l.link.newTok id, inv.l.flags, inv.l.dirs⟩, inv.x, inv.f⟩

/-- `newLayer` + `layerCache.Add` of a name that is not cached. -/
theorem Inv.addLayer {s : State} {btok : Nat} (inv : Inv s (some btok)) {name : Nat} (hm : s.lc.m name = none) :
    Inv { s with fsDirs := s.fsDirs + 1, layers := s.layers ++ [({ name := name, blobTok := btok } : Layer)],
                 lc := (s.lc.add name s.layers.length).1 } none := by
  refine ⟨inv.b.congr rfl rfl rfl, ⟨inv.l.reach.add _ _, inv.l.link.addNew hm _ rfl rfl, ?_, ?_⟩, ?_,
    inv.f.attach _ rfl⟩
  · intro i l hl
    simp only at hl
    rw [List.getElem?_append] at hl
    split at hl
    · exact inv.l.flags i l hl
    · have hi : i = s.layers.length := by
        cases hj' : i - s.layers.length with
        | zero => omega
        | succ n => simp [hj'] at hl
      subst hi; simp at hl; subst hl; simp
  · simp only [List.countP_append, List.countP_singleton, inv.l.dirs]
    simp
  · exact inv.x.attach _ rfl rfl

/-- C10 `ttl_evicting_release_removes_own` for a reachable cache. -/
theorem Reach.removes_own {t : TTL} (hr : Reach t) {tok : Nat} {tk : Tok} {k : Nat}
    (ht : t.core.toks[tok]? = some tk) (hm : t.m k = some tk.rc) : (t.done tok true).1.m k = none := by
  obtain ⟨ops, rfl⟩ := hr
  exact SV.Props.C10.ttl_evicting_release_removes_own ops tok tk k ht hm

/-- C10 `ttl_evicting_release_spares_newer` for a reachable cache. -/
theorem Reach.spares_other {t : TTL} (hr : Reach t) {tok : Nat} {tk : Tok} {k id : Nat}
    (ht : t.core.toks[tok]? = some tk) (hm : t.m k = some id) (hne : id ≠ tk.rc) :
    (t.done tok true).1.m k = some id := by
  obtain ⟨ops, rfl⟩ := hr
  exact SV.Props.C10.ttl_evicting_release_spares_newer ops tok tk k id ht hm hne

/-- The error path after a blob was resolved afresh: `blobR.done(true)` removes the new cache entry
again and closes the new blob (its directory goes). -/
theorem undo_fresh {s : State} (inv : Inv s none) {name : Nat} (hm : s.bc.m name = none) :
    let s' : State := { s with httpDirs := s.httpDirs + 1, blobs := s.blobs ++ [({ name := name } : Blob)],
                               bc := (s.bc.add name s.blobs.length).1 }
    (∀ k id, (bcDone s' s.bc.core.toks.length true).bc.m k = some id → s.bc.m k = some id) ∧
    (bcDone s' s.bc.core.toks.length true).httpDirs ≤ s.httpDirs := by
  intro s'
  have inv' : Inv s' (some s.bc.core.toks.length) := inv.addBlob hm
  have hlen : s.bc.core.rcs.length = s.blobs.length := inv.b.link.len
  have hbc' : s'.bc = { m := fun k' => if k' = name then some s.bc.core.rcs.length else s.bc.m k',
                        core := (s.bc.core.newRc name s.blobs.length).newTok s.bc.core.rcs.length } := by
    show (s.bc.add name s.blobs.length).1 = _
    rw [TTL.add_new _ hm]
  have htok : s'.bc.core.toks[s.bc.core.toks.length]? = some { rc := s.bc.core.rcs.length } := by
    rw [hbc']; simp
  have hmn : s'.bc.m name = some s.bc.core.rcs.length := by rw [hbc']; simp
  have hrm : (s'.bc.done s.bc.core.toks.length true).1.m name = none :=
    inv'.b.reach.removes_own htok hmn
  constructor
  · intro k id h
    rw [bcDone_bc] at h
    by_cases e : k = name
    · subst e; rw [hrm] at h; cases h
    · have := TTL.done_m_sub true h
      rw [hbc'] at this
      simpa [e] using this
  · -- the callback of the new blob fires
    have inv2 : TInv (s'.bc.done s.bc.core.toks.length true).1 := (inv'.b.reach.done _ _).inv
    have fr := TTL.done_frame true htok
    have hlt2 : s.bc.core.rcs.length < (s'.bc.done s.bc.core.toks.length true).1.core.rcs.length := by
      rw [fr.len, hbc']; simp [Core.newRc]
    obtain ⟨r2, hr2⟩ : ∃ r2, (s'.bc.done s.bc.core.toks.length true).1.core.rcs[s.bc.core.rcs.length]? = some r2 :=
      ⟨_, List.getElem?_eq_getElem hlt2⟩
    have ok2 := inv2.core.ok _ r2 hr2
    have hfin : r2.finDone = true := by
      have h := hr2
      rw [TTL.done_true_core htok, fin_lookup] at h
      cases hx : (s'.bc.core.release s.bc.core.toks.length).rcs[s.bc.core.rcs.length]? with
      | none => simp [hx] at h
      | some r0 =>
        simp only [hx, Option.map_some, if_true, Option.some.injEq] at h
        rw [← h]; simp
    have hheld : held (s'.bc.done s.bc.core.toks.length true).1.core.toks s.bc.core.rcs.length = 0 := by
      rw [TTL.done_toks true htok, held_set_released htok rfl]
      have : held s'.bc.core.toks s.bc.core.rcs.length = 1 := by
        rw [hbc']
        simp only [newTok_toks, newRc_toks]
        rw [held_append_one, held_eq_zero_of_fresh _ _ inv.b.reach.inv.core.tokLt]
        simp
      simp [this]
    have hc2 : r2.calls = 1 := by
      have := ok2.2.2
      simpa [hfin, hheld] using this
    obtain ⟨b', r', hb', hr', hv', _, _, hcl'⟩ := cached_open inv'.b.reach inv'.b.link hmn
    obtain ⟨r0, hr0, _, hv0, _⟩ := fr.same _ hr2
    rw [hr'] at hr0; cases hr0
    have hc1 : r'.calls = 0 := by
      obtain ⟨o, ho, _, _, hc⟩ := inv'.b.link.ok _ r' hr'
      rw [hb'] at ho; cases ho
      rw [hcl'] at hc
      cases hcc : r'.calls with
      | zero => rfl
      | succ n =>
        have := inv'.b.reach.inv.calls_le_one hr'
        have : r'.calls = 1 := by omega
        rw [this] at hc; simp at hc
    unfold SV.LayerLife.bcDone
    simp only [htok]
    unfold bcFire
    have hfire : callsOf s'.bc.core s.bc.core.rcs.length <
        callsOf (s'.bc.done s.bc.core.toks.length true).1.core s.bc.core.rcs.length := by
      rw [callsOf_of hr', callsOf_of hr2, hc1, hc2]; exact Nat.one_pos
    simp only [hfire, if_true]
    have hval : (s'.bc.done s.bc.core.toks.length true).1.core.valOf s.bc.core.rcs.length = s.bc.core.rcs.length := by
      rw [valOf_of hr2, hv0, hv']
    rw [hval, closeBlob_open (b := b') (by exact hb') hcl']
    show s.httpDirs + 1 - 1 ≤ s.httpDirs
    omega

/-- What `resolveBlob` guarantees about its result `r` = (state, new `blobRef` or error). -/
structure RB (s : State) (o : Oracle) (r : State × Option Nat) : Prop where
  lc : r.1.lc = s.lc
  layers : r.1.layers = s.layers
  fsDirs : r.1.fsDirs = s.fsDirs
  fail : r.2 = none → o.bres = false ∧ Inv r.1 none ∧
    (∀ k id, r.1.bc.m k = some id → s.bc.m k = some id) ∧ r.1.httpDirs ≤ s.httpDirs
  ok : ∀ btok, r.2 = some btok → Inv r.1 (some btok) ∧
    (∀ k id, (bcDone r.1 btok true).bc.m k = some id → s.bc.m k = some id) ∧
    (bcDone r.1 btok true).httpDirs ≤ s.httpDirs

theorem RB.weaken {s0 s : State} {o : Oracle} {r : State × Option Nat} (h : RB s o r)
    (e1 : s.lc = s0.lc) (e2 : s.layers = s0.layers) (e3 : s.fsDirs = s0.fsDirs)
    (bcm : ∀ k id, s.bc.m k = some id → s0.bc.m k = some id) (http : s.httpDirs ≤ s0.httpDirs) :
    RB s0 o r :=
  ⟨h.lc.trans e1, h.layers.trans e2, h.fsDirs.trans e3,
   fun hn => let ⟨a, b, c, d⟩ := h.fail hn; ⟨a, b, fun k id x => bcm k id (c k id x), Int.le_trans d http⟩,
   fun btok hs => let ⟨a, c, d⟩ := h.ok btok hs; ⟨a, fun k id x => bcm k id (c k id x), Int.le_trans d http⟩⟩

theorem rbf_spec {s : State} (inv : Inv s none) {name : Nat} (hm : s.bc.m name = none) (o : Oracle) :
    RB s o (resolveBlobFresh s name o) := by
  cases hb : o.bres with
  | false =>
    rw [rbf_fail hb]
    exact ⟨rfl, rfl, rfl, fun _ => ⟨hb, inv.fixHttp, fun _ _ h => h, by simp only; omega⟩,
      (fun btok h => by cases h)⟩
  | true =>
    rw [rbf_ok hb hm]
    refine ⟨rfl, rfl, rfl, (fun h => by cases h), ?_⟩
    intro btok h
    cases h
    have := undo_fresh inv hm
    exact ⟨inv.addBlob hm, this.1, this.2⟩

theorem rbf_some {s : State} {name : Nat} {o : Oracle} (hb : o.bres = true) (hm : s.bc.m name = none) :
    ∃ btok, (resolveBlobFresh s name o).2 = some btok := by
  rw [rbf_ok hb hm]; exact ⟨_, rfl⟩

theorem resolveBlob_miss {s : State} {name : Nat} (o : Oracle) (hm : s.bc.m name = none) :
    resolveBlob s name o = resolveBlobFresh s name o := by
  simp [resolveBlob, TTL.get_miss hm]

theorem resolveBlob_hit {s : State} (inv : Inv s none) {name id : Nat} (o : Oracle) (hm : s.bc.m name = some id) :
    resolveBlob s name o =
      if o.bchk then
        ({ s with bc := { s.bc with core := s.bc.core.newTok id } }, some s.bc.core.toks.length)
      else
        resolveBlobFresh
          (bcEvict (bcDone { s with bc := { s.bc with core := s.bc.core.newTok id } } s.bc.core.toks.length true) name)
          name o := by
  obtain ⟨b, r, hb, hr, hv, _, _, hc⟩ := cached_open inv.b.reach inv.b.link hm
  have hval : s.bc.core.valOf id = id := by rw [valOf_of hr, hv]
  have hchk : ∀ probe, blobCheck { s with bc := { s.bc with core := s.bc.core.newTok id } } id probe = probe := by
    intro probe; simp [blobCheck, blobClosed, hb, hc]
  simp only [resolveBlob, TTL.get_hit hm, hval, hchk]

theorem resolveBlob_spec {s : State} (inv : Inv s none) (name : Nat) (o : Oracle) :
    RB s o (resolveBlob s name o) := by
  cases hm : s.bc.m name with
  | none => rw [resolveBlob_miss o hm]; exact rbf_spec inv hm o
  | some id =>
    rw [resolveBlob_hit inv o hm]
    have inv1 := inv.getBlob hm
    cases hb : o.bchk with
    | true =>
      simp only [if_true]
      refine ⟨rfl, rfl, rfl, (fun h => by cases h), ?_⟩
      intro btok h
      cases h
      have sb := sub_bcDone { s with bc := { s.bc with core := s.bc.core.newTok id } } s.bc.core.toks.length true
      exact ⟨inv1, fun k id' h => sb.bcm k id' h, sb.http⟩
    | false =>
      simp only [Bool.false_eq_true, if_false]
      have inv2 := inv1.bcDonePending
      have inv3 := inv2.bcEvict name
      have hm3 : (bcEvict (bcDone { s with bc := { s.bc with core := s.bc.core.newTok id } }
          s.bc.core.toks.length true) name).bc.m name = none := by
        rw [bcEvict_bc]; exact TTL.evictLocked_none_self _ _
      have sb := (sub_bcDone { s with bc := { s.bc with core := s.bc.core.newTok id } }
        s.bc.core.toks.length true).trans (sub_bcEvict _ name)
      exact (rbf_spec inv3 hm3 o).weaken (by simp) (by simp) (by simp)
        (fun k id' h => sb.bcm k id' h) sb.http

theorem resolveBlob_some {s : State} (inv : Inv s none) (name : Nat) {o : Oracle} (hb : o.bres = true) :
    ∃ btok, (resolveBlob s name o).2 = some btok := by
  cases hm : s.bc.m name with
  | none => rw [resolveBlob_miss o hm]; exact rbf_some hb hm
  | some id =>
    rw [resolveBlob_hit inv o hm]
    cases o.bchk with
    | true => exact ⟨_, rfl⟩
    | false =>
      simp only [Bool.false_eq_true, if_false]
      exact rbf_some hb (by rw [bcEvict_bc]; exact TTL.evictLocked_none_self _ _)

theorem bcDone_setFs (s : State) (x : Int) (tok : Nat) (e : Bool) :
    bcDone { s with fsDirs := x } tok e = { bcDone s tok e with fsDirs := x } := by
  unfold bcDone
  simp only
  split
  · rfl
  · unfold bcFire
    simp only
    split
    · unfold closeBlob
      simp only
      split
      · rfl
      · split <;> rfl
    · rfl

/-- What `Resolve` guarantees after a layer-cache miss; `r` = (state, result). -/
structure RF (s : State) (name : Nat) (o : Oracle) (r : State × Out) : Prop where
  inv : Inv r.1 none
  res :
    (r.2 = .errBlob ∧ o.bres = false ∧ Sub s r.1 ∧ r.1.lc = s.lc) ∨
    (r.2 = .errMeta ∧ o.mres = false ∧ Sub s r.1 ∧ r.1.lc = s.lc) ∨
    (r.2 = .fresh s.layers.length s.lc.core.toks.length ∧ o.mres = true ∧
      r.1.lc = (s.lc.add name s.layers.length).1 ∧
      ∃ btok, r.1.layers = s.layers ++ [({ name := name, blobTok := btok } : Layer)])

theorem resolveFresh_spec {s : State} (inv : Inv s none) {name : Nat} (hm : s.lc.m name = none) (o : Oracle) :
    RF s name o (resolveFresh s name o) := by
  have rb := resolveBlob_spec inv name o
  unfold resolveFresh
  cases hrb : resolveBlob s name o with
  | mk s1 ob =>
    rw [hrb] at rb
    cases ob with
    | none =>
      obtain ⟨hb, inv1, bcm, http⟩ := rb.fail rfl
      refine ⟨inv1, Or.inl ⟨rfl, hb, ⟨?_, bcm, ?_, ?_, http⟩, rb.lc⟩⟩
      · intro k id h; rw [show s1.lc = s.lc from rb.lc] at h; exact h
      · rw [show s1.layers = s.layers from rb.layers]
      · rw [show s1.fsDirs = s.fsDirs from rb.fsDirs]; exact Int.le_refl _
    | some btok =>
      obtain ⟨inv1, bcm, http⟩ := rb.ok btok rfl
      have e1 : s1.lc = s.lc := rb.lc
      have e2 : s1.layers = s.layers := rb.layers
      have e3 : s1.fsDirs = s.fsDirs := rb.fsDirs
      cases hmr : o.mres with
      | false =>
        simp only [Bool.not_false, if_true]
        refine ⟨inv1.fixFs.bcDonePending, Or.inr (Or.inl ⟨rfl, hmr, ?_, ?_⟩)⟩
        · rw [bcDone_setFs]
          refine ⟨?_, bcm, ?_, ?_, http⟩
          · intro k id h; simp only [bcDone_lc] at h; rw [e1] at h; exact h
          · simp [e2]
          · simp only [e3]; omega
        · rw [bcDone_lc]; exact e1
      | true =>
        simp only [Bool.not_true, Bool.false_eq_true, if_false]
        have hm1 : s1.lc.m name = none := by rw [e1]; exact hm
        rw [TTL.add_new _ hm1]
        simp only [if_true]
        have ia := inv1.addLayer hm1
        rw [TTL.add_new _ hm1] at ia
        refine ⟨ia, Or.inr (Or.inr ⟨?_, hmr, ?_, btok, ?_⟩)⟩
        · simp only [e1, e2]
        · simp only [e1, e2]; rw [TTL.add_new _ hm]
        · simp only [e2]

theorem resolveFresh_ok {s : State} (inv : Inv s none) {name : Nat} (hm : s.lc.m name = none) {o : Oracle}
    (hb : o.bres = true) (hr : o.mres = true) :
    (resolveFresh s name o).2 = .fresh s.layers.length s.lc.core.toks.length := by
  have sp := resolveFresh_spec inv hm o
  rcases sp.res with ⟨_, h, _⟩ | ⟨_, h, _⟩ | ⟨h, _⟩
  · rw [hb] at h; cases h
  · rw [hr] at h; cases h
  · exact h

theorem resolve_miss {s : State} {name : Nat} (o : Oracle) (hm : s.lc.m name = none) :
    resolve s name o = resolveFresh s name o := by
  simp [resolve, TTL.get_miss hm]

theorem resolve_hit {s : State} (inv : Inv s none) {name a : Nat} (o : Oracle) (hm : s.lc.m name = some a) :
    resolve s name o =
      if o.lchk then
        ({ s with lc := { s.lc with core := s.lc.core.newTok a } }, .hit a s.lc.core.toks.length)
      else
        resolveFresh
          (lcEvict (lcDone { s with lc := { s.lc with core := s.lc.core.newTok a } } s.lc.core.toks.length true) name)
          name o := by
  obtain ⟨l, r, hl, hr, hv, _, _, hc⟩ := cached_open inv.l.reach inv.l.link hm
  have hval : s.lc.core.valOf a = a := by rw [valOf_of hr, hv]
  have hchk : ∀ probe, layerCheck { s with lc := { s.lc with core := s.lc.core.newTok a } } a probe = probe :=
    fun probe => layerCheck_cached (inv.getLayer hm) (k := name) (by exact hm) probe
  simp only [resolve, TTL.get_hit hm, hval, hchk]

/-- Every `Resolve` keeps the invariant. -/
theorem Inv.resolve {s : State} (inv : Inv s none) (name : Nat) (o : Oracle) : Inv (resolve s name o).1 none := by
  cases hm : s.lc.m name with
  | none => rw [resolve_miss o hm]; exact (resolveFresh_spec inv hm o).inv
  | some a =>
    rw [resolve_hit inv o hm]
    cases o.lchk with
    | true => exact inv.getLayer hm
    | false =>
      simp only [Bool.false_eq_true, if_false]
      refine (resolveFresh_spec (((inv.getLayer hm).lcDone _ _).lcEvict name) ?_ o).inv
      rw [lcEvict_lc]; exact TTL.evictLocked_none_self _ _

theorem Inv.step {s : State} (inv : Inv s none) (op : Op) : Inv (step s op).1 none := by
  cases op with
  | resolve n o => exact inv.resolve n o
  | done tok e =>
    simp only [SV.LayerLife.step]
    split
    · exact inv
    · exact inv.lcDone tok e
  | expireL n => exact inv.lcEvict n
  | expireB n => exact inv.bcEvict n
  | refresh tok reg => exact inv
  | read tok => exact inv
  | readOld tok => exact inv

theorem Inv.runFrom (ops : List Op) : ∀ {s : State}, Inv s none → Inv (runFrom s ops) none := by
  induction ops with
  | nil => intro s h; exact h
  | cons o ops ih => intro s h; exact ih (h.step o)

theorem Inv.run (ops : List Op) : Inv (run ops) none := Inv.runFrom ops Inv.init

/-! ## J. facts about single operations used by the property theorems -/

/-- The layer and the holder's closure a successful `Resolve` returns. -/
def Out.layer? : Out → Option (Nat × Nat)
  | .hit lid tok => some (lid, tok)
  | .fresh lid tok => some (lid, tok)
  | .existing lid tok => some (lid, tok)
  | _ => none

def Out.isErr : Out → Bool
  | .errBlob => true
  | .errMeta => true
  | _ => false

theorem addNew_facts {t : TTL} {k : Nat} (v : Nat) (hm : t.m k = none) :
    (t.add k v).1.m k = some t.core.rcs.length ∧
    (t.add k v).1.core.toks = t.core.toks ++ [{ rc := t.core.rcs.length }] ∧
    ∀ k', k' ≠ k → (t.add k v).1.m k' = t.m k' := by
  rw [TTL.add_new _ hm]
  refine ⟨by simp, by simp, ?_⟩
  intro k' h; simp [h]

/-- After a layer-cache miss: the result is an error or a brand-new layer, cached under `name`,
with a new un-called closure for the caller. -/
theorem resolveFresh_shape {s : State} (inv : Inv s none) {name : Nat} (hm : s.lc.m name = none) (o : Oracle)
    {lid tok : Nat} (h : (resolveFresh s name o).2.layer? = some (lid, tok)) :
    lid = s.layers.length ∧ tok = s.lc.core.toks.length ∧
    (resolveFresh s name o).1.lc.m name = some lid ∧
    (resolveFresh s name o).1.lc.core.toks[tok]? = some { rc := lid } ∧
    (∀ k', k' ≠ name → (resolveFresh s name o).1.lc.m k' = s.lc.m k') := by
  have sp := resolveFresh_spec inv hm o
  rcases sp.res with ⟨hr, _⟩ | ⟨hr, _⟩ | ⟨hr, _, hlc, _⟩
  · rw [hr] at h; cases h
  · rw [hr] at h; cases h
  · rw [hr] at h; cases h
    have f := addNew_facts s.layers.length hm
    have hlen : s.lc.core.rcs.length = s.layers.length := inv.l.link.len
    rw [hlc]
    refine ⟨rfl, rfl, by rw [f.1, hlen], ?_, f.2.2⟩
    rw [f.2.1, hlen]; simp

theorem resolveFresh_err {s : State} (inv : Inv s none) {name : Nat} (hm : s.lc.m name = none) (o : Oracle)
    (h : (resolveFresh s name o).2.isErr = true) :
    Sub s (resolveFresh s name o).1 ∧ (resolveFresh s name o).1.lc = s.lc := by
  have sp := resolveFresh_spec inv hm o
  rcases sp.res with ⟨_, _, hs, hl⟩ | ⟨_, _, hs, hl⟩ | ⟨hr, _⟩
  · exact ⟨hs, hl⟩
  · exact ⟨hs, hl⟩
  · rw [hr] at h; cases h

/-- The state in which `Resolve` continues after the cached layer failed its check. -/
def afterBadCheck (s : State) (name a : Nat) : State :=
  lcEvict (lcDone { s with lc := { s.lc with core := s.lc.core.newTok a } } s.lc.core.toks.length true) name

theorem afterBadCheck_inv {s : State} (inv : Inv s none) {name a : Nat} (hm : s.lc.m name = some a) :
    Inv (afterBadCheck s name a) none ∧ (afterBadCheck s name a).lc.m name = none :=
  ⟨((inv.getLayer hm).lcDone _ _).lcEvict name, by
    unfold afterBadCheck; rw [lcEvict_lc]; exact TTL.evictLocked_none_self _ _⟩

theorem afterBadCheck_sub (s : State) (name a : Nat) : Sub s (afterBadCheck s name a) := by
  unfold afterBadCheck
  refine Sub.trans (b := { s with lc := { s.lc with core := s.lc.core.newTok a } }) ?_
    ((sub_lcDone _ _ _).trans (sub_lcEvict _ _))
  exact ⟨fun _ _ h => h, fun _ _ h => h, rfl, Int.le_refl _, Int.le_refl _⟩

theorem afterBadCheck_toks (s : State) (name a : Nat) :
    (afterBadCheck s name a).lc.core.toks =
      s.lc.core.toks ++ [{ rc := a, once := true }] := by
  unfold afterBadCheck
  rw [lcEvict_lc, TTL.evictLocked_toks]
  have ht : ({ s with lc := { s.lc with core := s.lc.core.newTok a } } : State).lc.core.toks[s.lc.core.toks.length]?
      = some { rc := a } := by simp
  rw [lcDone_toks true ht]
  simp

theorem resolve_hit' {s : State} (inv : Inv s none) {name a : Nat} (o : Oracle) (hm : s.lc.m name = some a) :
    resolve s name o =
      if o.lchk then
        ({ s with lc := { s.lc with core := s.lc.core.newTok a } }, .hit a s.lc.core.toks.length)
      else resolveFresh (afterBadCheck s name a) name o := resolve_hit inv o hm

/-- A key other than the one the evicting closure belongs to keeps its entry. -/
theorem Reach.done_m_other {t : TTL} (hr : Reach t) {tok : Nat} {tk : Tok} {k k' : Nat}
    (ht : t.core.toks[tok]? = some tk) (hm : t.m k = some tk.rc) (hne : k' ≠ k) :
    (t.done tok true).1.m k' = t.m k' := by
  cases h : t.m k' with
  | none =>
    cases h2 : (t.done tok true).1.m k' with
    | none => rfl
    | some x => rw [TTL.done_m_sub true h2] at h; cases h
  | some b =>
    refine hr.spares_other ht h ?_
    intro e
    obtain ⟨r1, hr1, hk1, _⟩ := hr.inv.mOk k' b h
    obtain ⟨r2, hr2, hk2, _⟩ := hr.inv.mOk k tk.rc hm
    rw [e, hr2] at hr1; cases hr1
    exact hne (hk1.symm.trans hk2)

theorem evictLocked_m_other (t : TTL) {k k' : Nat} (hne : k' ≠ k) : (t.evictLocked k).m k' = t.m k' := by
  unfold TTL.evictLocked; split <;> simp [hne]

theorem afterBadCheck_m_other {s : State} (inv : Inv s none) {name a : Nat} (hm : s.lc.m name = some a)
    {k' : Nat} (hne : k' ≠ name) : (afterBadCheck s name a).lc.m k' = s.lc.m k' := by
  unfold afterBadCheck
  rw [lcEvict_lc, evictLocked_m_other _ hne, lcDone_lc]
  have inv1 := inv.getLayer hm
  exact inv1.l.reach.done_m_other (tk := { rc := a }) (by simp) (by exact hm) hne

/-- What a successful `Resolve` returns: either the cached layer (its check passed) or a brand-new
one; either way the layer is now cached under `name` and the caller got a fresh closure of it. -/
theorem resolve_ok_shape {s : State} (inv : Inv s none) (name : Nat) (o : Oracle) {lid tok : Nat}
    (h : (resolve s name o).2.layer? = some (lid, tok)) :
    ((s.lc.m name = some lid ∧ o.lchk = true) ∨ lid = s.layers.length) ∧
    s.lc.core.toks.length ≤ tok ∧
    (resolve s name o).1.lc.m name = some lid ∧
    (∃ tk, (resolve s name o).1.lc.core.toks[tok]? = some tk ∧ tk.rc = lid ∧ tk.once = false) ∧
    (∀ k', k' ≠ name → (resolve s name o).1.lc.m k' = s.lc.m k') := by
  cases hm : s.lc.m name with
  | none =>
    rw [resolve_miss o hm] at h ⊢
    obtain ⟨h1, h2, h3, h4, h5⟩ := resolveFresh_shape inv hm o h
    exact ⟨Or.inr h1, by omega, h3, ⟨_, h4, rfl, rfl⟩, h5⟩
  | some a =>
    rw [resolve_hit' inv o hm] at h ⊢
    cases hc : o.lchk with
    | true =>
      rw [hc, if_pos rfl] at h
      rw [if_pos rfl]
      cases h
      exact ⟨Or.inl ⟨rfl, rfl⟩, Nat.le_refl _, hm, ⟨{ rc := lid }, by simp, rfl, rfl⟩, fun _ _ => rfl⟩
    | false =>
      simp only [hc, Bool.false_eq_true, if_false] at h ⊢
      obtain ⟨inv3, hm3⟩ := afterBadCheck_inv inv hm
      obtain ⟨h1, h2, h3, h4, h5⟩ := resolveFresh_shape inv3 hm3 o h
      refine ⟨Or.inr (h1.trans (afterBadCheck_sub s name a).nlay), ?_, h3, ⟨_, h4, rfl, rfl⟩, ?_⟩
      · rw [h2, afterBadCheck_toks]; simp
      · intro k' hk'; rw [h5 k' hk', afterBadCheck_m_other inv hm hk']

/-- What a failed `Resolve` leaves behind: nothing new, and its own layer-cache closure is released. -/
theorem resolve_err {s : State} (inv : Inv s none) (name : Nat) (o : Oracle)
    (h : (resolve s name o).2.isErr = true) :
    Sub s (resolve s name o).1 ∧
    (∀ tok t, (resolve s name o).1.lc.core.toks[tok]? = some t → s.lc.core.toks.length ≤ tok → t.once = true) ∧
    (∀ k', k' ≠ name → (resolve s name o).1.lc.m k' = s.lc.m k') := by
  cases hm : s.lc.m name with
  | none =>
    rw [resolve_miss o hm] at h ⊢
    obtain ⟨hs, hl⟩ := resolveFresh_err inv hm o h
    refine ⟨hs, ?_, fun _ _ => by rw [hl]⟩
    intro tok t ht hle
    rw [hl] at ht
    have := (List.getElem_of_getElem? ht).1
    omega
  | some a =>
    rw [resolve_hit' inv o hm] at h ⊢
    cases hc : o.lchk with
    | true => simp [hc, Out.isErr] at h
    | false =>
      simp only [hc, Bool.false_eq_true, if_false] at h ⊢
      obtain ⟨inv3, hm3⟩ := afterBadCheck_inv inv hm
      obtain ⟨hs, hl⟩ := resolveFresh_err inv3 hm3 o h
      refine ⟨(afterBadCheck_sub s name a).trans hs, ?_, ?_⟩
      · intro tok t ht hle
        rw [hl, afterBadCheck_toks] at ht
        rw [List.getElem?_append] at ht
        split at ht
        · omega
        · rename_i hge
          cases hj : tok - s.lc.core.toks.length with
          | zero => simp [hj] at ht; rw [← ht]
          | succ n => simp [hj] at ht
      · intro k' hk'; rw [hl, afterBadCheck_m_other inv hm hk']

theorem resolveFresh_dichotomy {s : State} (inv : Inv s none) {name : Nat} (hm : s.lc.m name = none) (o : Oracle) :
    (resolveFresh s name o).2.isErr = true ∨ ∃ lid tok, (resolveFresh s name o).2.layer? = some (lid, tok) := by
  rcases (resolveFresh_spec inv hm o).res with ⟨hr, _⟩ | ⟨hr, _⟩ | ⟨hr, _⟩
  · left; rw [hr]; rfl
  · left; rw [hr]; rfl
  · right; rw [hr]; exact ⟨_, _, rfl⟩

theorem resolve_dichotomy {s : State} (inv : Inv s none) (name : Nat) (o : Oracle) :
    (resolve s name o).2.isErr = true ∨ ∃ lid tok, (resolve s name o).2.layer? = some (lid, tok) := by
  cases hm : s.lc.m name with
  | none => rw [resolve_miss o hm]; exact resolveFresh_dichotomy inv hm o
  | some a =>
    rw [resolve_hit' inv o hm]
    cases o.lchk with
    | true => right; exact ⟨_, _, rfl⟩
    | false =>
      simp only [Bool.false_eq_true, if_false]
      exact resolveFresh_dichotomy (afterBadCheck_inv inv hm).1 (afterBadCheck_inv inv hm).2 o

/-- `Resolve` of one name never touches the layer-cache entry of another name. -/
theorem resolve_m_other {s : State} (inv : Inv s none) (n : Nat) (o : Oracle) {k' : Nat} (hne : k' ≠ n) :
    (resolve s n o).1.lc.m k' = s.lc.m k' := by
  rcases resolve_dichotomy inv n o with h | ⟨lid, tok, h⟩
  · exact (resolve_err inv n o h).2.2 k' hne
  · exact (resolve_ok_shape inv n o h).2.2.2.2 k' hne

/-- The operations that can take the layer cached under `name` out of the cache: its timer, an
evicting release (`Close`) and a `Resolve` of that name whose connectivity check fails. -/
def mayEvict (name : Nat) : Op → Bool
  | .expireL n => n == name
  | .done _ e => e
  | .resolve n o => n == name && !o.lchk
  | _ => false

theorem keeps_entry {s : State} (inv : Inv s none) {name a : Nat} (hm : s.lc.m name = some a) {op : Op}
    (h : mayEvict name op = false) : (step s op).1.lc.m name = some a := by
  cases op with
  | resolve n o =>
    simp only [SV.LayerLife.step]
    by_cases e : n = name
    · subst e
      have hl : o.lchk = true := by simpa [mayEvict] using h
      rw [resolve_hit' inv o hm, hl, if_pos rfl]
      exact hm
    · rw [resolve_m_other inv n o (Ne.symm e)]; exact hm
  | done tok e =>
    have he : e = false := by simpa [mayEvict] using h
    subst he
    simp only [SV.LayerLife.step]
    split
    · exact hm
    · rw [lcDone_lc, TTL.done_false_eq]; exact hm
  | expireL n =>
    have hn : name ≠ n := by
      intro e; subst e; simp [mayEvict] at h
    simp only [SV.LayerLife.step]
    rw [lcEvict_lc, evictLocked_m_other _ hn]; exact hm
  | expireB n => simp only [SV.LayerLife.step]; rw [bcEvict_lc]; exact hm
  | refresh tok reg => exact hm
  | read tok => exact hm
  | readOld tok => exact hm

theorem keeps_entry_run {name a : Nat} (ops : List Op) : ∀ {s : State}, Inv s none → s.lc.m name = some a →
    (∀ op ∈ ops, mayEvict name op = false) → (runFrom s ops).lc.m name = some a := by
  induction ops with
  | nil => intro s _ hm _; exact hm
  | cons o ops ih =>
    intro s inv hm h
    exact ih (inv.step o) (keeps_entry inv hm (h o (List.mem_cons_self ..)))
      (fun op hop => h op (List.mem_cons_of_mem _ hop))

/-- Every closure of the blob cache that has not been called belongs to an open layer; so a blob
all of whose layers are closed has no holder left. -/
theorem blob_unheld {s : State} (inv : Inv s none) {bid : Nat}
    (h : ∀ (i : Nat) (l : Layer), s.layers[i]? = some l → blobOfTok s l.blobTok = some bid → l.closed = true) :
    held s.bc.core.toks bid = 0 := by
  cases hh : held s.bc.core.toks bid with
  | zero => rfl
  | succ n =>
    exfalso
    have hp : 0 < held s.bc.core.toks bid := by omega
    simp only [held, List.countP_pos_iff] at hp
    obtain ⟨t, hmem, ht⟩ := hp
    obtain ⟨tok, htok⟩ := List.getElem?_of_mem hmem
    have hrc : t.rc = bid := by simp at ht; exact ht.1
    have ho : t.once = false := by simp at ht; exact ht.2
    rcases inv.x.orphan tok t htok ho with ⟨i, l, hl, hbt⟩ | hp
    · obtain ⟨t', ht', hoc⟩ := inv.x.btok i l hl
      rw [hbt, htok] at ht'; cases ht'
      obtain ⟨b, r, _, hr, hv, _⟩ := held_open inv.b.reach inv.b.link htok ho
      have : blobOfTok s l.blobTok = some bid := by
        subst hrc
        simp [blobOfTok, hbt, htok, valOf_of hr, hv]
      have := h i l hl this
      rw [this] at hoc; rw [ho] at hoc; cases hoc
    · cases hp

end SV.LayerLife
