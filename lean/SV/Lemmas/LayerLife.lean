import SV.Model.LayerLife
import SV.Lemmas.Refcount
/-
Helper lemmas for C12 (layer life cycle).  Composition with C10: both caches of the resolver are
`SV.Refcount.TTL` states reachable by TTL operations (`Reach`), so C10's invariant `TInv` and C10's
theorems apply to them; on top of that the invariants linking refCounters to `*layer` / `Blob`
objects (`Link`), the blob closures owned by layers (`XInv`), and their preservation by every
operation of the model.
-/
namespace SV.LayerLife
open SV.Refcount

/-! ## A. what one cache operation changes in the refCounter list -/

@[simp] theorem RC.inc_calls (r : RC) : r.inc.calls = r.calls := rfl
theorem RC.dec_calls_ge (r : RC) : r.calls ≤ r.dec.calls := by
  unfold RC.dec; split <;> simp
theorem RC.finalize_calls_ge (r : RC) : r.calls ≤ r.finalize.calls := by
  unfold RC.finalize; split
  · exact Nat.le_refl _
  · exact RC.dec_calls_ge r

/-- `c'` differs from `c` in the refCounter list at most at index `id`, and there key and payload
are the same and the callback counter did not decrease. -/
structure Frame (c c' : Core) (id : Nat) : Prop where
  len : c'.rcs.length = c.rcs.length
  other : ∀ j, j ≠ id → c'.rcs[j]? = c.rcs[j]?
  same : ∀ r', c'.rcs[id]? = some r' →
    ∃ r, c.rcs[id]? = some r ∧ r'.key = r.key ∧ r'.val = r.val ∧ r.calls ≤ r'.calls

theorem Frame.refl (c : Core) (id : Nat) : Frame c c id :=
  ⟨rfl, fun _ _ => rfl, fun r' h => ⟨r', h, rfl, rfl, Nat.le_refl _⟩⟩

theorem Frame.trans {a b c : Core} {id : Nat} (h1 : Frame a b id) (h2 : Frame b c id) : Frame a c id := by
  refine ⟨h2.len.trans h1.len, fun j hj => (h2.other j hj).trans (h1.other j hj), ?_⟩
  intro r' hr'
  obtain ⟨r1, e1, k1, v1, c1⟩ := h2.same r' hr'
  obtain ⟨r0, e0, k0, v0, c0⟩ := h1.same r1 e1
  exact ⟨r0, e0, k1.trans k0, v1.trans v0, Nat.le_trans c0 c1⟩

theorem frame_modify (c : Core) (toks' : List Tok) (id : Nat) (f : RC → RC)
    (hf : ∀ r, (f r).key = r.key ∧ (f r).val = r.val ∧ r.calls ≤ (f r).calls) :
    Frame c { rcs := c.rcs.modify id f, toks := toks' } id := by
  refine ⟨by simp, ?_, ?_⟩
  · intro j hj
    simp only [getElem?_modify_eq]
    cases c.rcs[j]? with
    | none => rfl
    | some r => simp [Ne.symm hj]
  · intro r' hr'
    simp only [getElem?_modify_eq] at hr'
    cases h : c.rcs[id]? with
    | none => simp [h] at hr'
    | some r =>
      simp only [h, Option.map_some, if_true, Option.some.injEq] at hr'
      subst hr'
      exact ⟨r, rfl, (hf r).1, (hf r).2.1, (hf r).2.2⟩

theorem frame_newTok (c : Core) (id : Nat) : Frame c (c.newTok id) id :=
  frame_modify c _ id RC.inc (fun _ => ⟨rfl, rfl, Nat.le_refl _⟩)

theorem frame_fin (c : Core) (id : Nat) : Frame c (c.fin id) id :=
  frame_modify c _ id RC.finalize (fun r => ⟨by simp, by simp, RC.finalize_calls_ge r⟩)

theorem frame_release (c : Core) (tok : Nat) (t : Tok) (ht : c.toks[tok]? = some t) :
    Frame c (c.release tok) t.rc := by
  unfold Core.release
  simp only [ht]
  split
  · exact Frame.refl _ _
  · exact frame_modify c _ t.rc RC.dec (fun r => ⟨by simp, by simp, RC.dec_calls_ge r⟩)

theorem set_self {α} (l : List α) (i : Nat) (a : α) (h : l[i]? = some a) : l.set i a = l := by
  apply List.ext_getElem?
  intro j
  rw [List.getElem?_set]
  split
  · rename_i e; subst e
    split
    · exact h.symm
    · simp [List.getElem?_eq_none (by omega : l.length ≤ i)] at h
  · rfl

theorem release_toks (c : Core) (tok : Nat) (t : Tok) (ht : c.toks[tok]? = some t) :
    (c.release tok).toks = c.toks.set tok { t with once := true } := by
  unfold Core.release
  simp only [ht]
  split
  · rename_i h
    have : ({ t with once := true } : Tok) = t := by cases t; simp_all
    rw [this]
    exact (set_self _ _ _ ht).symm
  · rfl

theorem callsOf_of {c : Core} {id : Nat} {r : RC} (h : c.rcs[id]? = some r) : callsOf c id = r.calls := by
  simp [callsOf, h]

theorem valOf_of {c : Core} {id : Nat} {r : RC} (h : c.rcs[id]? = some r) : c.valOf id = r.val := by
  simp [Core.valOf, h]

/-! ### the TTL operations in explicit form -/

theorem TTL.get_miss {t : TTL} {k : Nat} (h : t.m k = none) : t.get k = (t, .miss) := by
  simp [TTL.get, h]

theorem TTL.get_hit {t : TTL} {k id : Nat} (h : t.m k = some id) :
    t.get k = ({ t with core := t.core.newTok id }, .got (t.core.valOf id) t.core.toks.length true) := by
  simp [TTL.get, h]

theorem TTL.add_new {t : TTL} {k : Nat} (v : Nat) (h : t.m k = none) :
    t.add k v = ({ m := fun k' => if k' = k then some t.core.rcs.length else t.m k',
                   core := (t.core.newRc k v).newTok t.core.rcs.length },
                 .got v t.core.toks.length true) := by
  simp [TTL.add, h]

theorem TTL.add_hit {t : TTL} {k id : Nat} (v : Nat) (h : t.m k = some id) :
    t.add k v = ({ t with core := t.core.newTok id }, .got (t.core.valOf id) t.core.toks.length false) := by
  simp [TTL.add, h]

theorem TTL.done_toks {t : TTL} {tok : Nat} {tk : Tok} (e : Bool) (ht : t.core.toks[tok]? = some tk) :
    (t.done tok e).1.core.toks = t.core.toks.set tok { tk with once := true } := by
  cases e with
  | false => rw [TTL.done_false_eq]; exact release_toks _ _ _ ht
  | true => rw [TTL.done_true_core ht]; exact release_toks _ _ _ ht

theorem TTL.done_frame {t : TTL} {tok : Nat} {tk : Tok} (e : Bool) (ht : t.core.toks[tok]? = some tk) :
    Frame t.core (t.done tok e).1.core tk.rc := by
  cases e with
  | false => rw [TTL.done_false_eq]; exact frame_release _ _ _ ht
  | true =>
    rw [TTL.done_true_core ht]
    exact (frame_release _ _ _ ht).trans (frame_fin _ _)

/-- `done` never adds a map entry. -/
theorem TTL.done_m_sub {t : TTL} {tok : Nat} (e : Bool) {k id : Nat}
    (h : (t.done tok e).1.m k = some id) : t.m k = some id := by
  unfold TTL.done at h
  split at h
  · exact h
  · cases e with
    | false => exact h
    | true =>
      simp only [if_true] at h
      split at h
      · exact h
      · split at h
        · simp only at h
          split at h
          · cases h
          · exact h
        · exact h

theorem TTL.evict_frame {t : TTL} {k id : Nat} (h : t.m k = some id) :
    Frame t.core (t.evictLocked k).core id := by
  rw [TTL.evictLocked_of_mem h]; exact frame_fin _ _

theorem TTL.evict_m_sub {t : TTL} {k : Nat} {k' id : Nat}
    (h : (t.evictLocked k).m k' = some id) : t.m k' = some id := by
  unfold TTL.evictLocked at h
  split at h
  · simp only at h
    split at h
    · cases h
    · exact h
  · exact h

/-! ## B. both caches are reachable C10 states -/

/-- The cache is in a state the C10 model reaches from `NewTTLCache` by some TTL operations. -/
def Reach (t : TTL) : Prop := ∃ ops, t = TTL.run ops

theorem Reach.init : Reach {} := ⟨[], rfl⟩

theorem Reach.step {t : TTL} (h : Reach t) (op : TOp) : Reach (t.step op).1 := by
  obtain ⟨ops, rfl⟩ := h
  exact ⟨ops ++ [op], by simp [TTL.run, List.foldl_append]⟩

theorem Reach.inv {t : TTL} (h : Reach t) : TInv t := by
  obtain ⟨ops, rfl⟩ := h; exact TInv.run ops

theorem Reach.get {t : TTL} (h : Reach t) (k : Nat) : Reach (t.get k).1 := h.step (.get k)
theorem Reach.add {t : TTL} (h : Reach t) (k v : Nat) : Reach (t.add k v).1 := h.step (.add k v)
theorem Reach.evict {t : TTL} (h : Reach t) (k : Nat) : Reach (t.evictLocked k) := h.step (.expire k)
theorem Reach.done {t : TTL} (h : Reach t) (tok : Nat) (e : Bool) : Reach (t.done tok e).1 :=
  h.step (.done tok e)

/-- Under C10's invariant the callback counter is 0 or 1. -/
theorem _root_.SV.Refcount.TInv.calls_le_one {t : TTL} (inv : TInv t) {id : Nat} {r : RC} (h : t.core.rcs[id]? = some r) :
    r.calls ≤ 1 := (inv.core.ok id r h).calls_le_one

/-! ## C. refCounter `i` of a cache stands for object `i` -/

structure Link {α : Type} (t : TTL) (objs : List α) (name : α → Nat) (closed : α → Bool) : Prop where
  len : t.core.rcs.length = objs.length
  ok : ∀ (i : Nat) (r : RC), t.core.rcs[i]? = some r →
    ∃ o, objs[i]? = some o ∧ r.val = i ∧ name o = r.key ∧ closed o = (r.calls == 1)

theorem Link.init {α : Type} (name : α → Nat) (closed : α → Bool) : Link {} ([] : List α) name closed :=
  ⟨rfl, by intro i r h; simp at h⟩

theorem Link.obj {α : Type} {t : TTL} {objs : List α} {name closed} (lk : Link t objs name closed)
    {i : Nat} {o : α} (h : objs[i]? = some o) :
    ∃ r, t.core.rcs[i]? = some r ∧ r.val = i ∧ name o = r.key ∧ closed o = (r.calls == 1) := by
  have hlt : i < t.core.rcs.length := by rw [lk.len]; exact (List.getElem_of_getElem? h).1
  obtain ⟨o', ho', hv, hn, hc⟩ := lk.ok i _ (List.getElem?_eq_getElem hlt)
  rw [h] at ho'; cases ho'
  exact ⟨_, List.getElem?_eq_getElem hlt, hv, hn, hc⟩

theorem Link.step {α : Type} {t t' : TTL} {objs objs' : List α} {name closed} {id : Nat}
    (lk : Link t objs name closed) (fr : Frame t.core t'.core id)
    (hlen : objs'.length = objs.length)
    (hoth : ∀ j, j ≠ id → objs'[j]? = objs[j]?)
    (hid : ∀ o r r', objs[id]? = some o → t.core.rcs[id]? = some r → t'.core.rcs[id]? = some r' →
      ∃ o', objs'[id]? = some o' ∧ name o' = name o ∧ closed o' = (r'.calls == 1)) :
    Link t' objs' name closed := by
  refine ⟨by rw [fr.len, lk.len, hlen], ?_⟩
  intro i r' hr'
  by_cases e : i = id
  · subst e
    obtain ⟨r, hr, hk, hv, _⟩ := fr.same r' hr'
    obtain ⟨o, ho, hv0, hn0, _⟩ := lk.ok i r hr
    obtain ⟨o', ho', hn', hc'⟩ := hid o r r' ho hr hr'
    exact ⟨o', ho', hv.trans hv0, by rw [hn', hn0, hk], hc'⟩
  · rw [fr.other i e] at hr'
    obtain ⟨o, ho, hv0, hn0, hc0⟩ := lk.ok i r' hr'
    exact ⟨o, by rw [hoth i e]; exact ho, hv0, hn0, hc0⟩

/-- A step that leaves the callback counter of `id` alone keeps the link with the same objects. -/
theorem Link.step_same {α : Type} {t t' : TTL} {objs : List α} {name closed} {id : Nat}
    (lk : Link t objs name closed) (fr : Frame t.core t'.core id)
    (hc : ∀ r r', t.core.rcs[id]? = some r → t'.core.rcs[id]? = some r' → r'.calls = r.calls) :
    Link t' objs name closed := by
  refine lk.step fr rfl (fun _ _ => rfl) ?_
  intro o r r' ho hr hr'
  obtain ⟨o1, ho1, _, _, hc1⟩ := lk.ok id r hr
  rw [ho] at ho1; cases ho1
  exact ⟨o, ho, rfl, by rw [hc1, hc r r' hr hr']⟩

theorem Link.newTok {α : Type} {t : TTL} {objs : List α} {name closed} (lk : Link t objs name closed)
    (id : Nat) : Link { t with core := t.core.newTok id } objs name closed := by
  refine lk.step_same (frame_newTok _ _) ?_
  intro r r' hr hr'
  simp only [Core.newTok, getElem?_modify_eq, hr, Option.map_some, if_true, Option.some.injEq] at hr'
  subst hr'; rfl

/-- `Add` of a new key with the next object index as payload. -/
theorem Link.addNew {α : Type} {t : TTL} {objs : List α} {name closed} (lk : Link t objs name closed)
    {k : Nat} (hm : t.m k = none) (o : α) (hn : name o = k) (hc : closed o = false) :
    Link (t.add k objs.length).1 (objs ++ [o]) name closed := by
  rw [TTL.add_new _ hm]
  have h1 : Link { m := fun k' => if k' = k then some t.core.rcs.length else t.m k',
                   core := t.core.newRc k objs.length } (objs ++ [o]) name closed := by
    refine ⟨by simp [Core.newRc, lk.len], ?_⟩
    intro i r hr
    simp only [Core.newRc] at hr
    rw [List.getElem?_append] at hr
    split at hr
    · rename_i hlt
      obtain ⟨o', ho', h2⟩ := lk.ok i r hr
      refine ⟨o', ?_, h2⟩
      rw [List.getElem?_append_left (by rw [← lk.len]; exact hlt)]; exact ho'
    · rename_i hge
      have hi : i = t.core.rcs.length := by
        cases hj' : i - t.core.rcs.length with
        | zero => omega
        | succ n => simp [hj'] at hr
      subst hi
      simp at hr
      subst hr
      refine ⟨o, by simp [lk.len], by simp [lk.len], by simp [hn], by simp [hc, RC.initialize, RC.inc]⟩
  exact h1.newTok _

/-! ## D. blob closures owned by layers -/

/-- `L` = the layers, `T` = the closures of the blob cache, `p` = a closure a running `Resolve`
holds in a local variable (`blobR`) and has not yet handed to a layer or released.
Every layer owns its own closure, released iff the layer is closed; every other closure is released. -/
structure XInv (L : List Layer) (T : List Tok) (p : Option Nat) : Prop where
  btok : ∀ (i : Nat) (l : Layer), L[i]? = some l → ∃ t, T[l.blobTok]? = some t ∧ t.once = l.closed
  binj : ∀ (i j : Nat) (li lj : Layer), L[i]? = some li → L[j]? = some lj → li.blobTok = lj.blobTok → i = j
  orphan : ∀ (tok : Nat) (t : Tok), T[tok]? = some t → t.once = false →
    (∃ (i : Nat) (l : Layer), L[i]? = some l ∧ l.blobTok = tok) ∨ p = some tok
  pend : ∀ tok, p = some tok →
    (∃ t, T[tok]? = some t ∧ t.once = false) ∧ ∀ (i : Nat) (l : Layer), L[i]? = some l → l.blobTok ≠ tok

theorem XInv.init : XInv [] [] none :=
  ⟨by intro i l h; simp at h, by intro i j li lj h; simp at h, by intro tok t h; simp at h,
   by intro tok h; cases h⟩

theorem XInv.tokLt {L : List Layer} {T : List Tok} {p : Option Nat} (x : XInv L T p) {i : Nat} {l : Layer} (h : L[i]? = some l) :
    l.blobTok < T.length := by
  obtain ⟨t, ht, _⟩ := x.btok i l h
  exact (List.getElem_of_getElem? ht).1

/-- `Get`/`Add` of the blob cache hands out a new closure, kept in `blobR`. -/
theorem XInv.newTok {L : List Layer} {T : List Tok} (x : XInv L T none) (id : Nat) : XInv L (T ++ [{ rc := id }]) (some T.length) := by
  refine ⟨?_, x.binj, ?_, ?_⟩
  · intro i l h
    obtain ⟨t, ht, ho⟩ := x.btok i l h
    exact ⟨t, by rw [List.getElem?_append_left (x.tokLt h)]; exact ht, ho⟩
  · intro tok t ht ho
    by_cases hlt : tok < T.length
    · rw [List.getElem?_append_left hlt] at ht
      rcases x.orphan tok t ht ho with h | h
      · exact Or.inl h
      · cases h
    · have : tok = T.length := by
        have := (List.getElem_of_getElem? ht).1
        simp at this; omega
      exact Or.inr (by rw [this])
  · intro tok h
    cases h
    refine ⟨⟨{ rc := id }, by simp, rfl⟩, ?_⟩
    intro i l h e
    have := x.tokLt h
    omega

/-- `blobR.done(true)` on the closure held in `blobR`. -/
theorem XInv.releasePending {L : List Layer} {T : List Tok} {tok : Nat} {t : Tok} (x : XInv L T (some tok)) (ht : T[tok]? = some t) :
    XInv L (T.set tok { t with once := true }) none := by
  have hne := (x.pend tok rfl).2
  refine ⟨?_, x.binj, ?_, by intro tok h; cases h⟩
  · intro i l h
    obtain ⟨t', ht', ho⟩ := x.btok i l h
    refine ⟨t', ?_, ho⟩
    rw [List.getElem?_set_ne (Ne.symm (hne i l h))]; exact ht'
  · intro tok' t' ht' ho
    by_cases e : tok = tok'
    · subst e
      rw [List.getElem?_set_self (List.getElem_of_getElem? ht).1] at ht'
      cases ht'; simp at ho
    · rw [List.getElem?_set_ne e] at ht'
      rcases x.orphan tok' t' ht' ho with h | h
      · exact Or.inl h
      · cases h; exact absurd rfl e

/-- `newLayer(…, blobR, …)`: the closure held in `blobR` becomes the new layer's. -/
theorem XInv.attach {L : List Layer} {T : List Tok} {b : Nat} (x : XInv L T (some b)) (l : Layer) (hb : l.blobTok = b)
    (hc : l.closed = false) : XInv (L ++ [l]) T none := by
  obtain ⟨⟨t, ht, ho⟩, hne⟩ := x.pend b rfl
  have look : ∀ (i : Nat) (li : Layer), (L ++ [l])[i]? = some li → (L[i]? = some li) ∨ (i = L.length ∧ li = l) := by
    intro i li h
    rw [List.getElem?_append] at h
    split at h
    · exact Or.inl h
    · have hi : i = L.length := by
        cases hj' : i - L.length with
        | zero => omega
        | succ n => simp [hj'] at h
      subst hi; simp at h; exact Or.inr ⟨rfl, h.symm⟩
  refine ⟨?_, ?_, ?_, by intro tok h; cases h⟩
  · intro i li h
    rcases look i li h with h | ⟨_, h⟩
    · exact x.btok i li h
    · subst h; exact ⟨t, by rw [hb]; exact ht, by rw [ho, hc]⟩
  · intro i j li lj hi hj e
    rcases look i li hi with hi0 | ⟨hi1, hi2⟩ <;> rcases look j lj hj with hj0 | ⟨hj1, hj2⟩
    · exact x.binj i j li lj hi0 hj0 e
    · exact absurd (e.trans (hj2 ▸ hb)) (hne i li hi0)
    · exact absurd (e.symm.trans (hi2 ▸ hb)) (hne j lj hj0)
    · omega
  · intro tok t' ht' ho'
    rcases x.orphan tok t' ht' ho' with ⟨i, li, hi, hli⟩ | h
    · exact Or.inl ⟨i, li, by rw [List.getElem?_append_left (List.getElem_of_getElem? hi).1]; exact hi, hli⟩
    · cases h
      exact Or.inl ⟨L.length, l, by simp, hb⟩

/-- `layer.close`: the layer is marked closed and its blob closure is called. -/
theorem XInv.closeLayer {L : List Layer} {T : List Tok} {p : Option Nat} {lid : Nat} {l l' : Layer} {t : Tok} (x : XInv L T p)
    (hl : L[lid]? = some l) (ht : T[l.blobTok]? = some t)
    (hb : l'.blobTok = l.blobTok) (hc : l'.closed = true) :
    XInv (L.set lid l') (T.set l.blobTok { t with once := true }) p := by
  have hlt := (List.getElem_of_getElem? hl).1
  have look : ∀ (i : Nat) (li : Layer), (L.set lid l')[i]? = some li →
      (i ≠ lid ∧ L[i]? = some li) ∨ (i = lid ∧ li = l') := by
    intro i li h
    by_cases e : lid = i
    · subst e
      rw [List.getElem?_set_self hlt] at h
      exact Or.inr ⟨rfl, by cases h; rfl⟩
    · rw [List.getElem?_set_ne e] at h
      exact Or.inl ⟨Ne.symm e, h⟩
  have tlt := (List.getElem_of_getElem? ht).1
  refine ⟨?_, ?_, ?_, ?_⟩
  · intro i li h
    rcases look i li h with ⟨hne, h⟩ | ⟨_, h⟩
    · obtain ⟨t', ht', ho⟩ := x.btok i li h
      have : l.blobTok ≠ li.blobTok := fun e => hne (x.binj i lid li l h hl e.symm)
      exact ⟨t', by rw [List.getElem?_set_ne this]; exact ht', ho⟩
    · subst h
      exact ⟨{ t with once := true }, by rw [hb, List.getElem?_set_self tlt], by simp [hc]⟩
  · intro i j li lj hi hj e
    have bt : ∀ (i : Nat) (li : Layer), (L.set lid l')[i]? = some li → ∃ lo, L[i]? = some lo ∧ lo.blobTok = li.blobTok := by
      intro i li h
      rcases look i li h with ⟨_, h⟩ | ⟨h1, h2⟩
      · exact ⟨li, h, rfl⟩
      · subst h1 h2; exact ⟨l, hl, hb.symm⟩
    obtain ⟨a, ha, ea⟩ := bt i li hi
    obtain ⟨b, hb', eb⟩ := bt j lj hj
    exact x.binj i j a b ha hb' (by rw [ea, eb, e])
  · intro tok t' ht' ho'
    by_cases e : l.blobTok = tok
    · subst e
      rw [List.getElem?_set_self tlt] at ht'
      cases ht'; simp at ho'
    · rw [List.getElem?_set_ne e] at ht'
      rcases x.orphan tok t' ht' ho' with ⟨i, li, hi, hli⟩ | h
      · have : i ≠ lid := by
          intro ei; subst ei; rw [hl] at hi; cases hi; exact e hli
        exact Or.inl ⟨i, li, by rw [List.getElem?_set_ne (Ne.symm this)]; exact hi, hli⟩
      · exact Or.inr h
  · intro tok hp
    obtain ⟨⟨t', ht', ho⟩, hne⟩ := x.pend tok hp
    have e : l.blobTok ≠ tok := hne lid l hl
    refine ⟨⟨t', by rw [List.getElem?_set_ne e]; exact ht', ho⟩, ?_⟩
    intro i li h
    rcases look i li h with ⟨_, h⟩ | ⟨h1, h2⟩
    · exact hne i li h
    · subst h2; rw [hb]; exact e

/-! ## E. what the callbacks and cache operations of the state leave untouched -/

@[simp] theorem closeBlob_bc (s : State) (bid : Nat) : (closeBlob s bid).bc = s.bc := by
  unfold closeBlob; split
  · rfl
  · split <;> rfl
@[simp] theorem closeBlob_lc (s : State) (bid : Nat) : (closeBlob s bid).lc = s.lc := by
  unfold closeBlob; split
  · rfl
  · split <;> rfl
@[simp] theorem closeBlob_layers (s : State) (bid : Nat) : (closeBlob s bid).layers = s.layers := by
  unfold closeBlob; split
  · rfl
  · split <;> rfl
@[simp] theorem closeBlob_fsDirs (s : State) (bid : Nat) : (closeBlob s bid).fsDirs = s.fsDirs := by
  unfold closeBlob; split
  · rfl
  · split <;> rfl

@[simp] theorem bcFire_bc (s : State) (c0 : Core) (id : Nat) : (bcFire s c0 id).bc = s.bc := by
  unfold bcFire; split <;> simp
@[simp] theorem bcFire_lc (s : State) (c0 : Core) (id : Nat) : (bcFire s c0 id).lc = s.lc := by
  unfold bcFire; split <;> simp
@[simp] theorem bcFire_layers (s : State) (c0 : Core) (id : Nat) : (bcFire s c0 id).layers = s.layers := by
  unfold bcFire; split <;> simp
@[simp] theorem bcFire_fsDirs (s : State) (c0 : Core) (id : Nat) : (bcFire s c0 id).fsDirs = s.fsDirs := by
  unfold bcFire; split <;> simp

@[simp] theorem bcDone_bc (s : State) (tok : Nat) (e : Bool) : (bcDone s tok e).bc = (s.bc.done tok e).1 := by
  unfold bcDone; split
  · rename_i h; simp [TTL.done, h]
  · simp
@[simp] theorem bcDone_lc (s : State) (tok : Nat) (e : Bool) : (bcDone s tok e).lc = s.lc := by
  unfold bcDone; split <;> simp
@[simp] theorem bcDone_layers (s : State) (tok : Nat) (e : Bool) : (bcDone s tok e).layers = s.layers := by
  unfold bcDone; split <;> simp
@[simp] theorem bcDone_fsDirs (s : State) (tok : Nat) (e : Bool) : (bcDone s tok e).fsDirs = s.fsDirs := by
  unfold bcDone; split <;> simp

@[simp] theorem bcEvict_bc (s : State) (k : Nat) : (bcEvict s k).bc = s.bc.evictLocked k := by
  unfold bcEvict; split
  · rename_i h; simp [TTL.evictLocked, h]
  · simp
@[simp] theorem bcEvict_lc (s : State) (k : Nat) : (bcEvict s k).lc = s.lc := by
  unfold bcEvict; split <;> simp
@[simp] theorem bcEvict_layers (s : State) (k : Nat) : (bcEvict s k).layers = s.layers := by
  unfold bcEvict; split <;> simp
@[simp] theorem bcEvict_fsDirs (s : State) (k : Nat) : (bcEvict s k).fsDirs = s.fsDirs := by
  unfold bcEvict; split <;> simp

@[simp] theorem TTL.evictLocked_toks' (t : TTL) (k : Nat) : (t.evictLocked k).core.toks = t.core.toks :=
  TTL.evictLocked_toks t k

/-! ## F. the invariants of the state -/

/-- blob cache ↔ `Blob` objects ↔ `httpcache` directories -/
structure BInv (s : State) : Prop where
  reach : Reach s.bc
  link : Link s.bc s.blobs Blob.name Blob.closed
  flags : ∀ (i : Nat) (b : Blob), s.blobs[i]? = some b → b.cacheClosed = b.closed
  dirs : s.httpDirs = ((s.blobs.countP (fun b => !b.closed) : Nat) : Int)

/-- layer cache ↔ `*layer` objects ↔ `fscache` directories -/
structure LInv (s : State) : Prop where
  reach : Reach s.lc
  link : Link s.lc s.layers Layer.name Layer.closed
  flags : ∀ (i : Nat) (l : Layer), s.layers[i]? = some l →
    l.readerClosed = l.closed ∧ l.metadataClosed = l.closed ∧ l.cachesClosed = l.closed ∧
    l.blobDone = (if l.closed then 1 else 0)
  dirs : s.fsDirs = ((s.layers.countP (fun l => !l.closed) : Nat) : Int)

structure Inv (s : State) (p : Option Nat) : Prop where
  b : BInv s
  l : LInv s
  x : XInv s.layers s.bc.core.toks p

theorem BInv.congr {s s' : State} (h : BInv s) (e1 : s'.bc = s.bc) (e2 : s'.blobs = s.blobs)
    (e3 : s'.httpDirs = s.httpDirs) : BInv s' :=
  ⟨e1 ▸ h.reach, by rw [e1, e2]; exact h.link, by rw [e2]; exact h.flags, by rw [e2, e3]; exact h.dirs⟩

theorem LInv.congr {s s' : State} (h : LInv s) (e1 : s'.lc = s.lc) (e2 : s'.layers = s.layers)
    (e3 : s'.fsDirs = s.fsDirs) : LInv s' :=
  ⟨e1 ▸ h.reach, by rw [e1, e2]; exact h.link, by rw [e2]; exact h.flags, by rw [e2, e3]; exact h.dirs⟩

theorem Inv.init : Inv {} none :=
  ⟨⟨Reach.init, Link.init _ _, by intro i b h; simp at h, rfl⟩,
   ⟨Reach.init, Link.init _ _, by intro i l h; simp at h, rfl⟩, XInv.init⟩

/-- Did the callback of `id` run between `c` and `c'`?  Under C10's invariant: yes iff the counter
went from 0 to 1. -/
theorem fired_cases {t t' : TTL} {id : Nat} (fr : Frame t.core t'.core id) (inv' : TInv t') :
    (callsOf t.core id < callsOf t'.core id ∧
      ∃ r r', t.core.rcs[id]? = some r ∧ t'.core.rcs[id]? = some r' ∧ r.calls = 0 ∧ r'.calls = 1) ∨
    (¬ callsOf t.core id < callsOf t'.core id ∧
      ∀ r r', t.core.rcs[id]? = some r → t'.core.rcs[id]? = some r' → r'.calls = r.calls) := by
  cases h' : t'.core.rcs[id]? with
  | none =>
    right
    have hn : t.core.rcs[id]? = none := by
      have := fr.len
      rw [List.getElem?_eq_none_iff] at h' ⊢; omega
    refine ⟨by simp [callsOf, h', hn], ?_⟩
    intro r r' hr; rw [hn] at hr; cases hr
  | some r' =>
    obtain ⟨r, hr, _, _, hle⟩ := fr.same r' h'
    have h1 := inv'.calls_le_one h'
    rw [callsOf_of hr, callsOf_of h']
    by_cases hlt : r.calls < r'.calls
    · left; exact ⟨hlt, r, r', hr, rfl, by omega, by omega⟩
    · right
      refine ⟨hlt, ?_⟩
      intro a b ha hb
      rw [hr] at ha; cases ha; cases hb; omega

theorem countP_set_close {α : Type} (closed : α → Bool) (objs : List α) (i : Nat) (o o' : α)
    (h : objs[i]? = some o) (hc : closed o = false) (hc' : closed o' = true) :
    (((objs.set i o').countP (fun b => !closed b) : Nat) : Int) =
      ((objs.countP (fun b => !closed b) : Nat) : Int) - 1 := by
  obtain ⟨hlt, hget⟩ := List.getElem_of_getElem? h
  rw [List.countP_set hlt]
  have hpos : 0 < objs.countP (fun b => !closed b) :=
    List.countP_pos_iff.mpr ⟨o, List.mem_of_getElem? h, by simp [hc]⟩
  simp [hget, hc, hc']
  omega

theorem closeBlob_open {s : State} {bid : Nat} {b : Blob} (h : s.blobs[bid]? = some b)
    (hc : b.closed = false) :
    closeBlob s bid = { s with blobs := s.blobs.set bid { b with closed := true, cacheClosed := true },
                               httpDirs := s.httpDirs - 1 } := by
  simp [closeBlob, h, hc]

/-- A blob-cache operation followed by the callback it may have triggered keeps the blob side. -/
theorem BInv.fire {s : State} (inv : BInv s) {t' : TTL} {id : Nat} (hr : Reach t')
    (fr : Frame s.bc.core t'.core id) : BInv (bcFire { s with bc := t' } s.bc.core id) := by
  unfold bcFire
  rcases fired_cases fr hr.inv with ⟨hf, r, r', h0, h1, c0, c1⟩ | ⟨hf, hsame⟩
  · simp only [hf, if_true]
    obtain ⟨b, hb, hv, hn, hc⟩ := inv.link.ok id r h0
    have hbc : b.closed = false := by rw [hc, c0]; rfl
    obtain ⟨r0, hr0, _, hv0, _⟩ := fr.same r' h1
    rw [h0] at hr0; cases hr0
    have hval : t'.core.valOf id = id := by rw [valOf_of h1, hv0, hv]
    simp only [hval]
    rw [closeBlob_open (s := { s with bc := t' }) hb hbc]
    have hlt := (List.getElem_of_getElem? hb).1
    refine ⟨hr, ?_, ?_, ?_⟩
    · refine inv.link.step fr (by simp) (fun j hj => by simp [List.getElem?_set_ne (Ne.symm hj)]) ?_
      intro o a a' ho ha ha'
      rw [hb] at ho; cases ho
      rw [h1] at ha'; cases ha'
      exact ⟨{ b with closed := true, cacheClosed := true }, by simp [List.getElem?_set_self hlt], rfl,
        by simp [c1]⟩
    · intro i b' hb'
      simp only at hb'
      by_cases e : id = i
      · subst e; rw [List.getElem?_set_self hlt] at hb'; cases hb'; rfl
      · rw [List.getElem?_set_ne e] at hb'; exact inv.flags i b' hb'
    · simp only
      rw [countP_set_close Blob.closed s.blobs id b _ hb hbc rfl, inv.dirs]
  · simp only [hf, if_false]
    exact ⟨hr, inv.link.step_same fr hsame, inv.flags, inv.dirs⟩

theorem BInv.bcDone {s : State} (inv : BInv s) (tok : Nat) (e : Bool) : BInv (bcDone s tok e) := by
  unfold SV.LayerLife.bcDone
  split
  · exact inv
  · rename_i t ht
    exact inv.fire (inv.reach.done tok e) (TTL.done_frame e ht)

theorem BInv.bcEvict {s : State} (inv : BInv s) (k : Nat) : BInv (bcEvict s k) := by
  unfold SV.LayerLife.bcEvict
  split
  · exact inv
  · rename_i id hm
    exact inv.fire (inv.reach.evict k) (TTL.evict_frame hm)

theorem bcDone_toks {s : State} {tok : Nat} {t : Tok} (e : Bool) (ht : s.bc.core.toks[tok]? = some t) :
    (bcDone s tok e).bc.core.toks = s.bc.core.toks.set tok { t with once := true } := by
  rw [bcDone_bc]; exact TTL.done_toks e ht

/-! ## G. layer side -/

/-- What `layer.close` turns an open layer into. -/
def Layer.shut (l : Layer) : Layer :=
  { l with closed := true, readerClosed := true, cachesClosed := true, metadataClosed := true,
           blobDone := l.blobDone + 1 }

theorem closeLayer_open {s : State} {lid : Nat} {l : Layer} (h : s.layers[lid]? = some l)
    (hc : l.closed = false) :
    closeLayer s lid =
      bcDone { s with layers := s.layers.set lid l.shut, fsDirs := s.fsDirs - 1 } l.blobTok true := by
  simp [closeLayer, h, hc, Layer.shut]

theorem closeLayer_closed {s : State} {lid : Nat} {l : Layer} (h : s.layers[lid]? = some l)
    (hc : l.closed = true) : closeLayer s lid = s := by
  simp [closeLayer, h, hc]

@[simp] theorem closeLayer_lc (s : State) (lid : Nat) : (closeLayer s lid).lc = s.lc := by
  unfold closeLayer; split
  · rfl
  · split
    · rfl
    · simp

@[simp] theorem lcFire_lc (s : State) (c0 : Core) (id : Nat) : (lcFire s c0 id).lc = s.lc := by
  unfold lcFire; split <;> simp

@[simp] theorem lcDone_lc (s : State) (tok : Nat) (e : Bool) : (lcDone s tok e).lc = (s.lc.done tok e).1 := by
  unfold lcDone; split
  · rename_i h; simp [TTL.done, h]
  · simp

@[simp] theorem lcEvict_lc (s : State) (k : Nat) : (lcEvict s k).lc = s.lc.evictLocked k := by
  unfold lcEvict; split
  · rename_i h; simp [TTL.evictLocked, h]
  · simp

/-- A layer-cache operation followed by the callback it may have triggered (which in turn calls the
blob closure, which may trigger the blob cache's callback) keeps the whole invariant. -/
theorem Inv.lcFire {s : State} {p : Option Nat} (inv : Inv s p) {t' : TTL} {id : Nat} (hr : Reach t')
    (fr : Frame s.lc.core t'.core id) : Inv (lcFire { s with lc := t' } s.lc.core id) p := by
  unfold SV.LayerLife.lcFire
  rcases fired_cases fr hr.inv with ⟨hf, r, r', h0, h1, c0, c1⟩ | ⟨hf, hsame⟩
  · simp only [hf, if_true]
    obtain ⟨l, hl, hv, hn, hc⟩ := inv.l.link.ok id r h0
    have hlc : l.closed = false := by rw [hc, c0]; rfl
    obtain ⟨r0, hr0, _, hv0, _⟩ := fr.same r' h1
    rw [h0] at hr0; cases hr0
    have hval : t'.core.valOf id = id := by rw [valOf_of h1, hv0, hv]
    simp only [hval]
    rw [closeLayer_open (s := { s with lc := t' }) hl hlc]
    have hlt := (List.getElem_of_getElem? hl).1
    obtain ⟨tk, htk, _⟩ := inv.x.btok id l hl
    refine ⟨?_, ?_, ?_⟩
    · apply BInv.bcDone
      exact inv.b.congr rfl rfl rfl
    · refine LInv.congr (s := { s with lc := t', layers := s.layers.set id l.shut, fsDirs := s.fsDirs - 1 })
        ?_ (by simp) (by simp) (by simp)
      refine ⟨hr, ?_, ?_, ?_⟩
      · refine inv.l.link.step fr (by simp) (fun j hj => by simp [List.getElem?_set_ne (Ne.symm hj)]) ?_
        intro o a a' ho ha ha'
        rw [hl] at ho; cases ho
        rw [h1] at ha'; cases ha'
        exact ⟨l.shut, by simp [List.getElem?_set_self hlt], rfl, by simp [c1, Layer.shut]⟩
      · intro i l' hl'
        simp only at hl'
        by_cases e : id = i
        · subst e
          rw [List.getElem?_set_self hlt] at hl'; cases hl'
          have := (inv.l.flags id l hl).2.2.2
          simp [Layer.shut, this, hlc]
        · rw [List.getElem?_set_ne e] at hl'; exact inv.l.flags i l' hl'
      · simp only
        rw [countP_set_close Layer.closed s.layers id l _ hl hlc rfl, inv.l.dirs]
    · rw [bcDone_layers, bcDone_toks true (by exact htk)]
      exact inv.x.closeLayer hl htk rfl rfl
  · simp only [hf, if_false]
    exact ⟨inv.b.congr rfl rfl rfl, ⟨hr, inv.l.link.step_same fr hsame, inv.l.flags, inv.l.dirs⟩, inv.x⟩

theorem Inv.lcDone {s : State} {p : Option Nat} (inv : Inv s p) (tok : Nat) (e : Bool) :
    Inv (lcDone s tok e) p := by
  unfold SV.LayerLife.lcDone
  split
  · exact inv
  · rename_i t ht
    exact inv.lcFire (inv.l.reach.done tok e) (TTL.done_frame e ht)

theorem Inv.lcEvict {s : State} {p : Option Nat} (inv : Inv s p) (k : Nat) : Inv (lcEvict s k) p := by
  unfold SV.LayerLife.lcEvict
  split
  · exact inv
  · rename_i id hm
    exact inv.lcFire (inv.l.reach.evict k) (TTL.evict_frame hm)

theorem Inv.bcEvict {s : State} {p : Option Nat} (inv : Inv s p) (k : Nat) : Inv (bcEvict s k) p :=
  ⟨inv.b.bcEvict k, inv.l.congr (by simp) (by simp) (by simp), by simpa using inv.x⟩

/-- `blobR.done(true)` on the closure a running `Resolve` still holds. -/
theorem Inv.bcDonePending {s : State} {tok : Nat} (inv : Inv s (some tok)) :
    Inv (bcDone s tok true) none := by
  obtain ⟨⟨t, ht, _⟩, _⟩ := inv.x.pend tok rfl
  refine ⟨inv.b.bcDone _ _, inv.l.congr (by simp) (by simp) (by simp), ?_⟩
  rw [bcDone_layers, bcDone_toks true ht]
  exact inv.x.releasePending ht

/-! ## H. nothing is gained by the clean-up operations -/

/-- `s'` has no cache entry, layer object or directory that `s` does not have. -/
structure Sub (s s' : State) : Prop where
  lcm : ∀ k id, s'.lc.m k = some id → s.lc.m k = some id
  bcm : ∀ k id, s'.bc.m k = some id → s.bc.m k = some id
  nlay : s'.layers.length = s.layers.length
  fs : s'.fsDirs ≤ s.fsDirs
  http : s'.httpDirs ≤ s.httpDirs

theorem Sub.refl (s : State) : Sub s s :=
  ⟨fun _ _ h => h, fun _ _ h => h, rfl, Int.le_refl _, Int.le_refl _⟩

theorem Sub.trans {a b c : State} (h1 : Sub a b) (h2 : Sub b c) : Sub a c :=
  ⟨fun k id h => h1.lcm k id (h2.lcm k id h), fun k id h => h1.bcm k id (h2.bcm k id h),
   h2.nlay.trans h1.nlay, Int.le_trans h2.fs h1.fs, Int.le_trans h2.http h1.http⟩

theorem closeBlob_http_le (s : State) (bid : Nat) : (closeBlob s bid).httpDirs ≤ s.httpDirs := by
  unfold closeBlob; split
  · exact Int.le_refl _
  · split
    · exact Int.le_refl _
    · simp only; omega

theorem bcFire_http_le (s : State) (c0 : Core) (id : Nat) : (bcFire s c0 id).httpDirs ≤ s.httpDirs := by
  unfold bcFire; split
  · exact closeBlob_http_le _ _
  · exact Int.le_refl _

theorem bcDone_http_le (s : State) (tok : Nat) (e : Bool) : (bcDone s tok e).httpDirs ≤ s.httpDirs := by
  unfold bcDone; split
  · exact Int.le_refl _
  · exact bcFire_http_le _ _ _

theorem bcEvict_http_le (s : State) (k : Nat) : (bcEvict s k).httpDirs ≤ s.httpDirs := by
  unfold bcEvict; split
  · exact Int.le_refl _
  · exact bcFire_http_le _ _ _

theorem sub_bcDone (s : State) (tok : Nat) (e : Bool) : Sub s (bcDone s tok e) :=
  ⟨by simp, by intro k id h; rw [bcDone_bc] at h; exact TTL.done_m_sub e h, by simp, by simp,
   bcDone_http_le s tok e⟩

theorem sub_bcEvict (s : State) (k : Nat) : Sub s (bcEvict s k) :=
  ⟨by simp, by intro k' id h; rw [bcEvict_bc] at h; exact TTL.evict_m_sub h, by simp, by simp,
   bcEvict_http_le s k⟩

theorem sub_closeLayer (s : State) (lid : Nat) : Sub s (closeLayer s lid) := by
  unfold closeLayer
  split
  · exact Sub.refl s
  · split
    · exact Sub.refl s
    · rename_i l _ _
      refine Sub.trans (b := { s with layers := s.layers.set lid _, fsDirs := s.fsDirs - 1 }) ?_ (sub_bcDone _ _ _)
      exact ⟨fun _ _ h => h, fun _ _ h => h, by simp, by simp only; omega, Int.le_refl _⟩

theorem sub_lcFire (s : State) (c0 : Core) (id : Nat) : Sub s (lcFire s c0 id) := by
  unfold lcFire; split
  · exact sub_closeLayer _ _
  · exact Sub.refl s

theorem sub_lcDone (s : State) (tok : Nat) (e : Bool) : Sub s (lcDone s tok e) := by
  unfold lcDone; split
  · exact Sub.refl s
  · refine Sub.trans (b := { s with lc := (s.lc.done tok e).1 }) ?_ (sub_lcFire _ _ _)
    exact ⟨fun k id h => TTL.done_m_sub e h, fun _ _ h => h, rfl, Int.le_refl _, Int.le_refl _⟩

theorem sub_lcEvict (s : State) (k : Nat) : Sub s (lcEvict s k) := by
  unfold lcEvict; split
  · exact Sub.refl s
  · refine Sub.trans (b := { s with lc := s.lc.evictLocked k }) ?_ (sub_lcFire _ _ _)
    exact ⟨fun k' id h => TTL.evict_m_sub h, fun _ _ h => h, rfl, Int.le_refl _, Int.le_refl _⟩

/-! ### what the layer-side operations do to the closures of the layer cache -/

@[simp] theorem closeLayer_lc' (s : State) (lid : Nat) : (closeLayer s lid).lc.core.toks = s.lc.core.toks := by
  rw [closeLayer_lc]

theorem lcDone_toks {s : State} {tok : Nat} {t : Tok} (e : Bool) (ht : s.lc.core.toks[tok]? = some t) :
    (lcDone s tok e).lc.core.toks = s.lc.core.toks.set tok { t with once := true } := by
  rw [lcDone_lc]; exact TTL.done_toks e ht

/-! ### cached objects are open -/

theorem cached_open {α : Type} {t : TTL} {objs : List α} {name closed} (hr : Reach t)
    (lk : Link t objs name closed) {k id : Nat} (hm : t.m k = some id) :
    ∃ o r, objs[id]? = some o ∧ t.core.rcs[id]? = some r ∧ r.val = id ∧ r.key = k ∧ name o = k ∧
      closed o = false := by
  obtain ⟨r, hr', hk, hf⟩ := hr.inv.mOk k id hm
  obtain ⟨o, ho, hv, hn, hc⟩ := lk.ok id r hr'
  have h3 := (hr.inv.core.ok id r hr').2.2
  have : r.calls = 0 := by simpa [hf] using h3
  exact ⟨o, r, ho, hr', hv, hk, hn.trans hk, by rw [hc, this]; rfl⟩

/-- A closure not yet called keeps its value un-finalised (C10 `ttl_held_not_finalised`). -/
theorem held_open {α : Type} {t : TTL} {objs : List α} {name closed} (hr : Reach t)
    (lk : Link t objs name closed) {tok : Nat} {tk : Tok} (ht : t.core.toks[tok]? = some tk)
    (hn : tk.once = false) :
    ∃ o r, objs[tk.rc]? = some o ∧ t.core.rcs[tk.rc]? = some r ∧ r.val = tk.rc ∧ closed o = false := by
  have inv := hr.inv
  have hlt := inv.core.tokLt tk (List.mem_of_getElem? ht)
  have hr' := List.getElem?_eq_getElem hlt
  have ok := inv.core.ok tk.rc _ hr'
  have hp := held_pos_of_tok ht hn
  have h3 := ok.2.2
  have hz : ¬ ((t.core.rcs[tk.rc]).finDone = true ∧ held t.core.toks tk.rc = 0) := by
    intro h; omega
  have hc : (t.core.rcs[tk.rc]).calls = 0 := by simpa [hz] using h3
  obtain ⟨o, ho, hv, _, hcl⟩ := lk.ok tk.rc _ hr'
  exact ⟨o, _, ho, hr', hv, by rw [hcl, hc]; rfl⟩

/-- An open layer's blob is open. -/
theorem open_layer_blob {s : State} {p : Option Nat} (inv : Inv s p) {i : Nat} {l : Layer}
    (hl : s.layers[i]? = some l) (hc : l.closed = false) :
    ∃ tk bid b, s.bc.core.toks[l.blobTok]? = some tk ∧ tk.once = false ∧ blobOfTok s l.blobTok = some bid ∧
      s.blobs[bid]? = some b ∧ b.closed = false ∧ b.cacheClosed = false := by
  obtain ⟨tk, htk, ho⟩ := inv.x.btok i l hl
  rw [hc] at ho
  obtain ⟨b, r, hb, hr, hv, hbc⟩ := held_open inv.b.reach inv.b.link htk ho
  refine ⟨tk, tk.rc, b, htk, ho, ?_, hb, hbc, ?_⟩
  · simp [blobOfTok, htk, valOf_of hr, hv]
  · rw [inv.b.flags _ b hb, hbc]

theorem layerCheck_open {s : State} {p : Option Nat} (inv : Inv s p) {i : Nat} {l : Layer}
    (hl : s.layers[i]? = some l) (hc : l.closed = false) (probe : Bool) : layerCheck s i probe = probe := by
  obtain ⟨tk, bid, b, _, _, hbt, hb, hbc, _⟩ := open_layer_blob inv hl hc
  simp [layerCheck, hl, hc, blobRefCheck, hbt, blobCheck, blobClosed, hb, hbc]

theorem layerCheck_cached {s : State} {p : Option Nat} (inv : Inv s p) {k a : Nat}
    (hm : s.lc.m k = some a) (probe : Bool) : layerCheck s a probe = probe := by
  obtain ⟨l, _, hl, _, _, _, _, hc⟩ := cached_open inv.l.reach inv.l.link hm
  exact layerCheck_open inv hl hc probe

theorem blobCheck_cached {s : State} (inv : BInv s) {k id : Nat} (hm : s.bc.m k = some id)
    (probe : Bool) : blobCheck s id probe = probe := by
  obtain ⟨b, _, hb, _, _, _, _, hc⟩ := cached_open inv.reach inv.link hm
  simp [blobCheck, blobClosed, hb, hc]

/-! ## I. Resolve -/

theorem rbf_fail {s : State} {name : Nat} {o : Oracle} (h : o.bres = false) :
    resolveBlobFresh s name o = ({ s with httpDirs := s.httpDirs + 1 - 1 }, none) := by
  simp [resolveBlobFresh, h]

theorem rbf_ok {s : State} {name : Nat} {o : Oracle} (h : o.bres = true) (hm : s.bc.m name = none) :
    resolveBlobFresh s name o =
      ({ s with httpDirs := s.httpDirs + 1, blobs := s.blobs ++ [({ name := name } : Blob)],
                bc := (s.bc.add name s.blobs.length).1 }, some s.bc.core.toks.length) := by
  simp [resolveBlobFresh, h, TTL.add_new _ hm]

theorem Inv.fixHttp {s : State} {p : Option Nat} (inv : Inv s p) :
    Inv { s with httpDirs := s.httpDirs + 1 - 1 } p :=
  ⟨inv.b.congr rfl rfl (by simp only; omega), inv.l.congr rfl rfl rfl, inv.x⟩

theorem Inv.fixFs {s : State} {p : Option Nat} (inv : Inv s p) :
    Inv { s with fsDirs := s.fsDirs + 1 - 1 } p :=
  ⟨inv.b.congr rfl rfl rfl, inv.l.congr rfl rfl (by simp only; omega), inv.x⟩

/-- `makeBlob` + `blobCache.Add` of a name that is not cached. -/
theorem Inv.addBlob {s : State} (inv : Inv s none) {name : Nat} (hm : s.bc.m name = none) :
    Inv { s with httpDirs := s.httpDirs + 1, blobs := s.blobs ++ [({ name := name } : Blob)],
                 bc := (s.bc.add name s.blobs.length).1 } (some s.bc.core.toks.length) := by
  refine ⟨⟨inv.b.reach.add _ _, inv.b.link.addNew hm _ rfl rfl, ?_, ?_⟩, inv.l.congr rfl rfl rfl, ?_⟩
  · intro i b hb
    simp only at hb
    rw [List.getElem?_append] at hb
    split at hb
    · exact inv.b.flags i b hb
    · have hi : i = s.blobs.length := by
        cases hj' : i - s.blobs.length with
        | zero => omega
        | succ n => simp [hj'] at hb
      subst hi; simp at hb; subst hb; rfl
  · simp only [List.countP_append, List.countP_singleton, inv.b.dirs]
    simp
  · simp only [TTL.add_new _ hm, newTok_toks, newRc_toks]
    exact inv.x.newTok _

/-- `blobCache.Get` hit: a new closure of the cached blob. -/
theorem Inv.getBlob {s : State} (inv : Inv s none) {name id : Nat} (hm : s.bc.m name = some id) :
    Inv { s with bc := { s.bc with core := s.bc.core.newTok id } } (some s.bc.core.toks.length) := by
  have hr : Reach { s.bc with core := s.bc.core.newTok id } := by
    have := inv.b.reach.get name
    rwa [TTL.get_hit hm] at this
  exact ⟨⟨hr, inv.b.link.newTok id, inv.b.flags, inv.b.dirs⟩, inv.l.congr rfl rfl rfl, inv.x.newTok id⟩

/-- `layerCache.Get` hit. -/
theorem Inv.getLayer {s : State} {p : Option Nat} (inv : Inv s p) {name id : Nat} (hm : s.lc.m name = some id) :
    Inv { s with lc := { s.lc with core := s.lc.core.newTok id } } p := by
  have hr : Reach { s.lc with core := s.lc.core.newTok id } := by
    have := inv.l.reach.get name
    rwa [TTL.get_hit hm] at this
  exact ⟨inv.b.congr rfl rfl rfl, ⟨hr, inv.l.link.newTok id, inv.l.flags, inv.l.dirs⟩, inv.x⟩

/-- `newLayer` + `layerCache.Add` of a name that is not cached. -/
theorem Inv.addLayer {s : State} {btok : Nat} (inv : Inv s (some btok)) {name : Nat} (hm : s.lc.m name = none) :
    Inv { s with fsDirs := s.fsDirs + 1, layers := s.layers ++ [({ name := name, blobTok := btok } : Layer)],
                 lc := (s.lc.add name s.layers.length).1 } none := by
  refine ⟨inv.b.congr rfl rfl rfl, ⟨inv.l.reach.add _ _, inv.l.link.addNew hm _ rfl rfl, ?_, ?_⟩, ?_⟩
  · intro i l hl
    simp only at hl
    rw [List.getElem?_append] at hl
    split at hl
    · exact inv.l.flags i l hl
    · have hi : i = s.layers.length := by
        cases hj' : i - s.layers.length with
        | zero => omega
        | succ n => simp [hj'] at hl
      subst hi; simp at hl; subst hl; simp
  · simp only [List.countP_append, List.countP_singleton, inv.l.dirs]
    simp
  · exact inv.x.attach _ rfl rfl

end SV.LayerLife
