/-
The invariant of the interleaved semantics (`SV/Model/SnapConc.lean`) and the proof that every
transition preserves it.  Rely/guarantee style: `TOk s pc` is what a thread at `pc` relies on; the
frame lemmas show that it survives every step another thread may take.
-/
import SV.Lemmas.Snap
import SV.Model.SnapConc

namespace SV.Snap.Conc
open SV.Snap

/-- no live snapshot owns the directory, and none ever will (ids are not reused) -/
def DeadDir (s : State) : Dir → Prop
  | .id n => n ≤ s.seq ∧ ∀ a ∈ s.snaps, a.id ≠ n
  | .temp _ => True

/-- the record created for `sn` is still there (its labels may have been updated) -/
def LiveRec (s : State) (sn : Snap) : Prop := ∃ a ∈ s.snaps, a.id = sn.id ∧ a.key = sn.key

/-- `storage.CreateSnapshot(sn)` passed its checks in the transaction that is still open -/
def NewRec (s : State) (sn : Snap) : Prop :=
  sn.key ≠ "" ∧ hasKey s.snaps sn.key = false ∧ sn.id = s.seq + 1 ∧
  (sn.parent ≠ "" → ∃ p ∈ s.snaps, p.key = sn.parent ∧ p.kind = .committed)

/-- what a thread at `pc` relies on -/
def TOk (s : State) : PC → Prop
  | .crRename _ _ sn => NewRec s sn
  | .crCommit _ sn => NewRec s sn ∧ Dir.id sn.id ∈ s.dirs
  | .prepMount _ sn => LiveRec s sn ∧ sn.id ∉ s.mounts
  | .prepCommit _ sn => LiveRec s sn
  | .clean ds u => (∀ d ∈ ds, DeadDir s d) ∧
      (u = true → ∀ d r, ds = d :: r → ∀ n, d = Dir.id n → n ∉ s.mounts)
  | _ => True

/-- the snapshot record a Prepare/View in flight has created or is creating -/
def PC.owned : PC → Option Snap
  | .crRename _ _ sn => some sn
  | .crCommit _ sn => some sn
  | .prepMount _ sn => some sn
  | .prepCommit _ sn => some sn
  | _ => none

structure CInvar (c : CState) : Prop where
  inv : Inv c.s
  /-- every live snapshot has its directory -/
  allDirs : AllDirs c.s
  oneHolder : ∀ i j, (c.th i).holds = true → (c.th j).holds = true → i = j
  /-- id-named directories are below the sequence, except the one renamed by the lock holder -/
  dirBound : ∀ n, Dir.id n ∈ c.s.dirs → n ≤ c.s.seq ∨ ∃ i tgt sn, c.th i = .crCommit tgt sn ∧ sn.id = n
  tok : ∀ i, TOk c.s (c.th i)
  ownDistinct : ∀ i j a b, i ≠ j → (c.th i).owned = some a → (c.th j).owned = some b → a.key ≠ b.key
  noConflict : ∀ i j k, (c.th i).ownKey = some k → (c.th j).consumes ≠ some k

theorem setPc_same (th : Nat → PC) (i : Nat) (pc : PC) : setPc th i pc i = pc := by simp [setPc]
theorem setPc_other (th : Nat → PC) {i j : Nat} (pc : PC) (h : j ≠ i) : setPc th i pc j = th j := by
  simp [setPc, h]

/-! ### frame lemmas: `TOk` survives the steps of other threads -/

theorem deadDir_mono {s s' : State} {d : Dir} (h : DeadDir s d) (hseq : s.seq ≤ s'.seq)
    (hsn : ∀ a ∈ s'.snaps, (∃ b ∈ s.snaps, b.id = a.id) ∨ s.seq < a.id) : DeadDir s' d := by
  cases d with
  | temp t => trivial
  | id n =>
    refine ⟨Nat.le_trans h.1 hseq, ?_⟩
    intro a ha e
    rcases hsn a ha with ⟨b, hb, hbe⟩ | hlt
    · exact h.2 b hb (hbe.trans e)
    · have := h.1; omega

theorem tok_dirs_mounts {s s' : State} {pc : PC} (h : TOk s pc)
    (hsn : s'.snaps = s.snaps) (hseq : s'.seq = s.seq)
    (hd : ∀ n, n = s.seq + 1 → Dir.id n ∈ s.dirs → Dir.id n ∈ s'.dirs)
    (hm : ∀ n, n ∈ s'.mounts → n ∈ s.mounts ∨ ((∃ a ∈ s.snaps, a.id = n) ∧ ∀ T sn, pc = .prepMount T sn → sn.id ≠ n)) :
    TOk s' pc := by
  cases pc with
  | crRename tgt t sn => simpa [TOk, NewRec, hsn, hseq] using h
  | crCommit tgt sn =>
    obtain ⟨h1, h2⟩ := h
    refine ⟨by simpa [NewRec, hsn, hseq] using h1, hd _ h1.2.2.1 h2⟩
  | prepMount T sn =>
    obtain ⟨h1, h2⟩ := h
    refine ⟨by simpa [LiveRec, hsn] using h1, ?_⟩
    intro hmem
    rcases hm _ hmem with h' | ⟨_, h'⟩
    · exact h2 h'
    · exact h' T sn rfl rfl
  | prepCommit T sn => simpa [TOk, LiveRec, hsn] using h
  | clean ds u =>
    obtain ⟨h1, h2⟩ := h
    refine ⟨?_, ?_⟩
    · intro d hd'
      exact deadDir_mono (h1 d hd') (by rw [hseq]; exact Nat.le_refl _) (by
        intro a ha; rw [hsn] at ha; exact Or.inl ⟨a, ha, rfl⟩)
    · intro hu d r hds n hn hmem
      rcases hm _ hmem with h' | ⟨⟨a, ha, hae⟩, _⟩
      · exact h2 hu d r hds n hn h'
      · have hdead := h1 d (by rw [hds]; exact List.mem_cons_self ..)
        rw [hn] at hdead
        exact hdead.2 a ha hae
  | idle op => trivial
  | done => trivial

/-- metadata steps: seen by threads that do not hold the lock -/
theorem tok_meta {s s' : State} {pc : PC} (h : TOk s pc) (hh : pc.holds = false)
    (hd : s'.dirs = s.dirs) (hm : s'.mounts = s.mounts) (hseq : s.seq ≤ s'.seq)
    (hnew : ∀ a ∈ s'.snaps, (∃ b ∈ s.snaps, b.id = a.id) ∨ s.seq < a.id)
    (hkeep : ∀ sn, pc.owned = some sn → ∀ a ∈ s.snaps, a.id = sn.id → a.key = sn.key →
      ∃ a' ∈ s'.snaps, a'.id = sn.id ∧ a'.key = sn.key) : TOk s' pc := by
  cases pc with
  | crRename tgt t sn => simp [PC.holds] at hh
  | crCommit tgt sn => simp [PC.holds] at hh
  | prepMount T sn =>
    obtain ⟨⟨a, ha, h1, h2⟩, h3⟩ := h
    exact ⟨hkeep sn rfl a ha h1 h2, by rw [hm]; exact h3⟩
  | prepCommit T sn =>
    obtain ⟨a, ha, h1, h2⟩ := h
    exact hkeep sn rfl a ha h1 h2
  | clean ds u =>
    obtain ⟨h1, h2⟩ := h
    exact ⟨fun d hd' => deadDir_mono (h1 d hd') hseq hnew, by rw [hm]; exact h2⟩
  | idle op => trivial
  | done => trivial

/-! ### the generic update -/

theorem cinvar_update {c : CState} (h : CInvar c) (i : Nat) (s' : State) (pc' : PC) (c' : CState)
    (hcs : c'.s = s') (hcth : c'.th = setPc c.th i pc')
    (hinv : Inv s') (had : AllDirs s')
    (hhold : pc'.holds = true → (c.th i).holds = true ∨ c.lockFree)
    (hdb : ∀ n, Dir.id n ∈ s'.dirs → n ≤ s'.seq ∨ ∃ j tgt sn, setPc c.th i pc' j = .crCommit tgt sn ∧ sn.id = n)
    (hothers : ∀ j, j ≠ i → TOk s' (c.th j))
    (hself : TOk s' pc')
    (hown : ∀ a, pc'.owned = some a → (c.th i).owned = some a ∨
        ∀ j b, j ≠ i → (c.th j).owned = some b → a.key ≠ b.key)
    (hkey : ∀ k, pc'.ownKey = some k → (c.th i).ownKey = some k ∨ ∀ j, j ≠ i → (c.th j).consumes ≠ some k)
    (hcons : ∀ k, pc'.consumes = some k → (c.th i).consumes = some k ∨ ∀ j, j ≠ i → (c.th j).ownKey ≠ some k) :
    CInvar c' := by
  refine ⟨by rw [hcs]; exact hinv, by rw [hcs]; exact had, ?_, by rw [hcs, hcth]; exact hdb, ?_, ?_, ?_⟩
  · intro a b ha hb
    rw [hcth] at ha hb
    by_cases hai : a = i <;> by_cases hbi : b = i
    · rw [hai, hbi]
    · subst hai
      rw [setPc_same] at ha
      rw [setPc_other _ _ hbi] at hb
      rcases hhold ha with h1 | h1
      · exact h.oneHolder _ _ h1 hb
      · rw [h1 b] at hb; cases hb
    · subst hbi
      rw [setPc_same] at hb
      rw [setPc_other _ _ hai] at ha
      rcases hhold hb with h1 | h1
      · exact h.oneHolder _ _ ha h1
      · rw [h1 a] at ha; cases ha
    · rw [setPc_other _ _ hai] at ha
      rw [setPc_other _ _ hbi] at hb
      exact h.oneHolder _ _ ha hb
  · intro j
    rw [hcs, hcth]
    by_cases hj : j = i
    · subst hj; rw [setPc_same]; exact hself
    · rw [setPc_other _ _ hj]; exact hothers j hj
  · intro a b x y hab hx hy
    rw [hcth] at hx hy
    by_cases hai : a = i <;> by_cases hbi : b = i
    · exact absurd (hai.trans hbi.symm) hab
    · subst hai
      rw [setPc_same] at hx
      rw [setPc_other _ _ hbi] at hy
      rcases hown x hx with h1 | h1
      · exact h.ownDistinct _ _ _ _ hab h1 hy
      · exact h1 b y hbi hy
    · subst hbi
      rw [setPc_same] at hy
      rw [setPc_other _ _ hai] at hx
      rcases hown y hy with h1 | h1
      · exact h.ownDistinct _ _ _ _ hab hx h1
      · exact fun e => h1 a x hai hx e.symm
    · rw [setPc_other _ _ hai] at hx
      rw [setPc_other _ _ hbi] at hy
      exact h.ownDistinct _ _ _ _ hab hx hy
  · intro a b k hk
    rw [hcth] at hk ⊢
    by_cases hai : a = i <;> by_cases hbi : b = i
    · subst hai; subst hbi
      rw [setPc_same] at hk ⊢
      intro hc
      rcases hkey k hk with h1 | h1
      · rcases hcons k hc with h2 | h2
        · exact h.noConflict _ _ k h1 h2
        · -- both come from new pc: ownKey and consumes of the same pc are never both defined
          cases pc' <;> simp [PC.ownKey, PC.consumes] at hk hc
          rename_i op; cases op <;> simp [PC.ownKey, PC.consumes] at hk hc
      · cases pc' <;> simp [PC.ownKey, PC.consumes] at hk hc
        rename_i op; cases op <;> simp [PC.ownKey, PC.consumes] at hk hc
    · subst hai
      rw [setPc_same] at hk
      rw [setPc_other _ _ hbi]
      rcases hkey k hk with h1 | h1
      · exact h.noConflict _ _ k h1
      · exact h1 b hbi
    · subst hbi
      rw [setPc_other _ _ hai] at hk
      rw [setPc_same]
      intro hc
      rcases hcons k hc with h1 | h1
      · exact h.noConflict _ _ k hk h1
      · exact h1 a hai hk
    · rw [setPc_other _ _ hai] at hk
      rw [setPc_other _ _ hbi]
      exact h.noConflict _ _ k hk

end SV.Snap.Conc
