/-
The invariant of the interleaved semantics (`SV/Model/SnapConc.lean`) and the proof that every
transition preserves it.  Rely/guarantee style: `TOk s pc` is what a thread at `pc` relies on; the
frame lemmas show that it survives every step another thread may take.
-/
import SV.Lemmas.Snap
import SV.Model.SnapConc

set_option linter.unusedSimpArgs false
set_option linter.unusedVariables false

namespace SV.Snap.Conc
open SV.Snap

/-- no live snapshot owns the directory, and none ever will (ids are not reused) -/
def DeadDir (s : State) : Dir → Prop
  | .id n => n ≤ s.seq ∧ ∀ a ∈ s.snaps, a.id ≠ n
  | .temp _ => True

/-- the record created for `sn` is still there (its labels may have been updated) -/
def LiveRec (s : State) (sn : Snap) : Prop := ∃ a ∈ s.snaps, a.id = sn.id ∧ a.key = sn.key

/-- `storage.CreateSnapshot(sn)` passed its checks in the transaction that is still open -/
def NewRec (s : State) (sn : Snap) : Prop :=
  sn.key ≠ "" ∧ hasKey s.snaps sn.key = false ∧ sn.id = s.seq + 1 ∧
  (sn.parent ≠ "" → ∃ p ∈ s.snaps, p.key = sn.parent ∧ p.kind = .committed)

/-- what a thread at `pc` relies on -/
def TOk (s : State) : PC → Prop
  | .crRename _ _ sn => NewRec s sn
  | .crCommit _ sn => NewRec s sn ∧ Dir.id sn.id ∈ s.dirs
  | .prepMount _ sn => LiveRec s sn ∧ sn.id ∉ s.mounts
  | .prepCommit _ sn => LiveRec s sn ∧ sn.id ∈ s.mounts
  | .clean ds u => (∀ d ∈ ds, DeadDir s d) ∧
      (u = true → ∀ d r, ds = d :: r → ∀ n, d = Dir.id n → n ∉ s.mounts)
  | _ => True

/-- the snapshot record a Prepare/View in flight has created or is creating -/
def PC.owned : PC → Option Snap
  | .crRename _ _ sn => some sn
  | .crCommit _ sn => some sn
  | .prepMount _ sn => some sn
  | .prepCommit _ sn => some sn
  | _ => none

structure CInvar (c : CState) : Prop where
  inv : Inv c.s
  /-- every live snapshot has its directory -/
  allDirs : AllDirs c.s
  oneHolder : ∀ i j, (c.th i).holds = true → (c.th j).holds = true → i = j
  /-- id-named directories are below the sequence, except the one renamed by the lock holder -/
  dirBound : ∀ n, Dir.id n ∈ c.s.dirs → n ≤ c.s.seq ∨ ∃ i tgt sn, c.th i = .crCommit tgt sn ∧ sn.id = n
  tok : ∀ i, TOk c.s (c.th i)
  ownDistinct : ∀ i j a b, i ≠ j → (c.th i).owned = some a → (c.th j).owned = some b → a.key ≠ b.key
  noConflict : ∀ i j k, (c.th i).ownKey = some k → (c.th j).consumes ≠ some k

theorem setPc_same (th : Nat → PC) (i : Nat) (pc : PC) : setPc th i pc i = pc := by simp [setPc]
theorem setPc_other (th : Nat → PC) {i j : Nat} (pc : PC) (h : j ≠ i) : setPc th i pc j = th j := by
  simp [setPc, h]

/-! ### frame lemmas: `TOk` survives the steps of other threads -/

theorem deadDir_mono {s s' : State} {d : Dir} (h : DeadDir s d) (hseq : s.seq ≤ s'.seq)
    (hsn : ∀ a ∈ s'.snaps, (∃ b ∈ s.snaps, b.id = a.id) ∨ s.seq < a.id) : DeadDir s' d := by
  cases d with
  | temp t => trivial
  | id n =>
    refine ⟨Nat.le_trans h.1 hseq, ?_⟩
    intro a ha e
    rcases hsn a ha with ⟨b, hb, hbe⟩ | hlt
    · exact h.2 b hb (hbe.trans e)
    · have := h.1; omega

theorem tok_dirs_mounts {s s' : State} {pc : PC} (h : TOk s pc)
    (hsn : s'.snaps = s.snaps) (hseq : s'.seq = s.seq)
    (hd : ∀ n, n = s.seq + 1 → Dir.id n ∈ s.dirs → Dir.id n ∈ s'.dirs)
    (hm : ∀ n, n ∈ s'.mounts → n ∈ s.mounts ∨ ((∃ a ∈ s.snaps, a.id = n) ∧ ∀ T sn, pc = .prepMount T sn → sn.id ≠ n))
    (hkm : ∀ n, n ∈ s.mounts → (∃ a ∈ s.snaps, a.id = n) → n ∈ s'.mounts) :
    TOk s' pc := by
  cases pc with
  | crRename tgt t sn => simpa [TOk, NewRec, hsn, hseq] using h
  | crCommit tgt sn =>
    obtain ⟨h1, h2⟩ := h
    refine ⟨by simpa [NewRec, hsn, hseq] using h1, hd _ h1.2.2.1 h2⟩
  | prepMount T sn =>
    obtain ⟨h1, h2⟩ := h
    refine ⟨by simpa [LiveRec, hsn] using h1, ?_⟩
    intro hmem
    rcases hm _ hmem with h' | ⟨_, h'⟩
    · exact h2 h'
    · exact h' T sn rfl rfl
  | prepCommit T sn =>
    obtain ⟨h1, h2⟩ := h
    refine ⟨by simpa [LiveRec, hsn] using h1, ?_⟩
    obtain ⟨a, ha, hai, _⟩ := h1
    exact hkm _ h2 ⟨a, ha, hai⟩
  | clean ds u =>
    obtain ⟨h1, h2⟩ := h
    refine ⟨?_, ?_⟩
    · intro d hd'
      exact deadDir_mono (h1 d hd') (by rw [hseq]; exact Nat.le_refl _) (by
        intro a ha; rw [hsn] at ha; exact Or.inl ⟨a, ha, rfl⟩)
    · intro hu d r hds n hn hmem
      rcases hm _ hmem with h' | ⟨⟨a, ha, hae⟩, _⟩
      · exact h2 hu d r hds n hn h'
      · have hdead := h1 d (by rw [hds]; exact List.mem_cons_self ..)
        rw [hn] at hdead
        exact hdead.2 a ha hae
  | idle op => trivial
  | done => trivial

/-- metadata steps: seen by threads that do not hold the lock -/
theorem tok_meta {s s' : State} {pc : PC} (h : TOk s pc) (hh : pc.holds = false)
    (hd : s'.dirs = s.dirs) (hm : s'.mounts = s.mounts) (hseq : s.seq ≤ s'.seq)
    (hnew : ∀ a ∈ s'.snaps, (∃ b ∈ s.snaps, b.id = a.id) ∨ s.seq < a.id)
    (hkeep : ∀ sn, pc.owned = some sn → ∀ a ∈ s.snaps, a.id = sn.id → a.key = sn.key →
      ∃ a' ∈ s'.snaps, a'.id = sn.id ∧ a'.key = sn.key) : TOk s' pc := by
  cases pc with
  | crRename tgt t sn => simp [PC.holds] at hh
  | crCommit tgt sn => simp [PC.holds] at hh
  | prepMount T sn =>
    obtain ⟨⟨a, ha, h1, h2⟩, h3⟩ := h
    exact ⟨hkeep sn rfl a ha h1 h2, by rw [hm]; exact h3⟩
  | prepCommit T sn =>
    obtain ⟨⟨a, ha, h1, h2⟩, h3⟩ := h
    exact ⟨hkeep sn rfl a ha h1 h2, by rw [hm]; exact h3⟩
  | clean ds u =>
    obtain ⟨h1, h2⟩ := h
    exact ⟨fun d hd' => deadDir_mono (h1 d hd') hseq hnew, by rw [hm]; exact h2⟩
  | idle op => trivial
  | done => trivial

/-! ### the generic update -/

theorem cinvar_update {c : CState} (h : CInvar c) (i : Nat) (s' : State) (pc' : PC) (c' : CState)
    (hcs : c'.s = s') (hcth : c'.th = setPc c.th i pc')
    (hinv : Inv s') (had : AllDirs s')
    (hhold : pc'.holds = true → (c.th i).holds = true ∨ c.lockFree)
    (hdb : ∀ n, Dir.id n ∈ s'.dirs → n ≤ s'.seq ∨ ∃ j tgt sn, setPc c.th i pc' j = .crCommit tgt sn ∧ sn.id = n)
    (hothers : ∀ j, j ≠ i → TOk s' (c.th j))
    (hself : TOk s' pc')
    (hown : ∀ a, pc'.owned = some a → (c.th i).owned = some a ∨
        ∀ j b, j ≠ i → (c.th j).owned = some b → a.key ≠ b.key)
    (hkey : ∀ k, pc'.ownKey = some k → (c.th i).ownKey = some k ∨ ∀ j, j ≠ i → (c.th j).consumes ≠ some k)
    (hcons : ∀ k, pc'.consumes = some k → (c.th i).consumes = some k ∨ ∀ j, j ≠ i → (c.th j).ownKey ≠ some k) :
    CInvar c' := by
  refine ⟨by rw [hcs]; exact hinv, by rw [hcs]; exact had, ?_, by rw [hcs, hcth]; exact hdb, ?_, ?_, ?_⟩
  · intro a b ha hb
    rw [hcth] at ha hb
    by_cases hai : a = i <;> by_cases hbi : b = i
    · rw [hai, hbi]
    · subst hai
      rw [setPc_same] at ha
      rw [setPc_other _ _ hbi] at hb
      rcases hhold ha with h1 | h1
      · exact h.oneHolder _ _ h1 hb
      · rw [h1 b] at hb; cases hb
    · subst hbi
      rw [setPc_same] at hb
      rw [setPc_other _ _ hai] at ha
      rcases hhold hb with h1 | h1
      · exact h.oneHolder _ _ ha h1
      · rw [h1 a] at ha; cases ha
    · rw [setPc_other _ _ hai] at ha
      rw [setPc_other _ _ hbi] at hb
      exact h.oneHolder _ _ ha hb
  · intro j
    rw [hcs, hcth]
    by_cases hj : j = i
    · subst hj; rw [setPc_same]; exact hself
    · rw [setPc_other _ _ hj]; exact hothers j hj
  · intro a b x y hab hx hy
    rw [hcth] at hx hy
    by_cases hai : a = i <;> by_cases hbi : b = i
    · exact absurd (hai.trans hbi.symm) hab
    · subst hai
      rw [setPc_same] at hx
      rw [setPc_other _ _ hbi] at hy
      rcases hown x hx with h1 | h1
      · exact h.ownDistinct _ _ _ _ hab h1 hy
      · exact h1 b y hbi hy
    · subst hbi
      rw [setPc_same] at hy
      rw [setPc_other _ _ hai] at hx
      rcases hown y hy with h1 | h1
      · exact h.ownDistinct _ _ _ _ hab hx h1
      · exact fun e => h1 a x hai hx e.symm
    · rw [setPc_other _ _ hai] at hx
      rw [setPc_other _ _ hbi] at hy
      exact h.ownDistinct _ _ _ _ hab hx hy
  · intro a b k hk
    rw [hcth] at hk ⊢
    by_cases hai : a = i <;> by_cases hbi : b = i
    · subst hai; subst hbi
      rw [setPc_same] at hk ⊢
      intro hc
      rcases hkey k hk with h1 | h1
      · rcases hcons k hc with h2 | h2
        · exact h.noConflict _ _ k h1 h2
        · -- both come from new pc: ownKey and consumes of the same pc are never both defined
          cases pc' <;> simp [PC.ownKey, PC.consumes] at hk hc
          rename_i op; cases op <;> simp [PC.ownKey, PC.consumes] at hk hc
      · cases pc' <;> simp [PC.ownKey, PC.consumes] at hk hc
        rename_i op; cases op <;> simp [PC.ownKey, PC.consumes] at hk hc
    · subst hai
      rw [setPc_same] at hk
      rw [setPc_other _ _ hbi]
      rcases hkey k hk with h1 | h1
      · exact h.noConflict _ _ k h1
      · exact h1 b hbi
    · subst hbi
      rw [setPc_other _ _ hai] at hk
      rw [setPc_same]
      intro hc
      rcases hcons k hc with h1 | h1
      · exact h.noConflict _ _ k hk h1
      · exact h1 a hai hk
    · rw [setPc_other _ _ hai] at hk
      rw [setPc_other _ _ hbi]
      exact h.noConflict _ _ k hk


/-! ### every transition preserves the invariant -/

theorem dirBound_frame {c : CState} (h : CInvar c) (i : Nat) (pc' : PC) (s' : State)
    (hd : ∀ n, Dir.id n ∈ s'.dirs → Dir.id n ∈ c.s.dirs) (hseq : c.s.seq ≤ s'.seq)
    (hi : ∀ tgt sn, c.th i = .crCommit tgt sn → pc' = .crCommit tgt sn ∨ sn.id ≤ s'.seq) :
    ∀ n, Dir.id n ∈ s'.dirs → n ≤ s'.seq ∨ ∃ j tgt sn, setPc c.th i pc' j = .crCommit tgt sn ∧ sn.id = n := by
  intro n hn
  rcases h.dirBound n (hd n hn) with h1 | ⟨j, tgt, sn, hj, hid⟩
  · exact Or.inl (Nat.le_trans h1 hseq)
  · by_cases hji : j = i
    · subst hji
      rcases hi tgt sn hj with h2 | h2
      · exact Or.inr ⟨j, tgt, sn, by rw [setPc_same]; exact h2, hid⟩
      · exact Or.inl (by rw [← hid]; exact h2)
    · exact Or.inr ⟨j, tgt, sn, by rw [setPc_other _ _ hji]; exact hj, hid⟩

theorem lockFree_dirs {c : CState} (h : CInvar c) (hl : c.lockFree) : ∀ n, Dir.id n ∈ c.s.dirs → n ≤ c.s.seq := by
  intro n hn
  rcases h.dirBound n hn with h1 | ⟨j, tgt, sn, hj, _⟩
  · exact h1
  · have := hl j; rw [hj] at this; simp [PC.holds] at this

theorem orphans_dead {c : CState} (h : CInvar c) (hl : c.lockFree) (s' : State) (hd : s'.dirs = c.s.dirs)
    (hseq : s'.seq = c.s.seq) : ∀ d ∈ orphans s', DeadDir s' d := by
  intro d hd'
  unfold orphans at hd'
  obtain ⟨h1, h2⟩ := List.mem_filter.mp hd'
  cases d with
  | temp t => trivial
  | id n =>
    refine ⟨by rw [hseq]; exact lockFree_dirs h hl n (by rw [← hd]; exact h1), ?_⟩
    intro a ha e
    simp only [liveDir, Bool.not_eq_eq_eq_not, Bool.not_true, List.any_eq_false, beq_iff_eq] at h2
    exact h2 a ha e

theorem others_nonholders {c : CState} (h : CInvar c) {i : Nat} (hi : (c.th i).holds = true ∨ c.lockFree) :
    ∀ j, j ≠ i → (c.th j).holds = false := by
  intro j hj
  rcases hi with h1 | h1
  · cases hh : (c.th j).holds with
    | false => rfl
    | true => exact absurd (h.oneHolder _ _ hh h1) hj
  · exact h1 j

theorem owned_ownKey {pc : PC} {sn : Snap} (h : pc.owned = some sn) : pc.ownKey = some sn.key := by
  cases pc <;> simp [PC.owned] at h <;> subst h <;> rfl

theorem liveRec_of_owned_nonholder {s : State} {pc : PC} {sn : Snap} (h : TOk s pc) (ho : pc.owned = some sn)
    (hh : pc.holds = false) : LiveRec s sn := by
  cases pc <;> simp [PC.owned] at ho <;> simp [PC.holds] at hh
  · subst ho; exact h.1
  · subst ho; exact h.1

theorem cinvar_step {c c' : CState} (h : CInvar c) (hs : CStep {} c c') : CInvar c' := by
  have keepOwn : ∀ {i : Nat} {pc' : PC}, pc'.owned = (c.th i).owned ∨ pc'.owned = none →
      ∀ a, pc'.owned = some a → (c.th i).owned = some a ∨ ∀ j b, j ≠ i → (c.th j).owned = some b → a.key ≠ b.key := by
    intro i pc' hp a ha
    rcases hp with hp | hp
    · exact Or.inl (by rw [← hp]; exact ha)
    · rw [hp] at ha; cases ha
  have keepKey : ∀ {i : Nat} {pc' : PC}, pc'.ownKey = (c.th i).ownKey ∨ pc'.ownKey = none →
      ∀ k, pc'.ownKey = some k → (c.th i).ownKey = some k ∨ ∀ j, j ≠ i → (c.th j).consumes ≠ some k := by
    intro i pc' hp k hk
    rcases hp with hp | hp
    · exact Or.inl (by rw [← hp]; exact hk)
    · rw [hp] at hk; cases hk
  have noCons : ∀ {i : Nat} {pc' : PC}, pc'.consumes = none →
      ∀ k, pc'.consumes = some k → (c.th i).consumes = some k ∨ ∀ j, j ≠ i → (c.th j).ownKey ≠ some k := by
    intro i pc' hp k hk; rw [hp] at hk; cases hk
  cases hs with
  | spawn i op orc hfree hk =>
    refine cinvar_update h i c.s (.idle op) _ rfl rfl h.inv h.allDirs (by intro hh; simp [PC.holds] at hh) ?_
      (fun j _ => h.tok j) trivial (by intro a ha; simp [PC.owned] at ha) ?_ ?_
    · exact dirBound_frame h i _ c.s (fun n hn => hn) (Nat.le_refl _) (by intro tgt sn e; rw [hfree] at e; cases e)
    · intro k hk'; exact Or.inr (fun j _ => (hk j).1 k hk')
    · intro k hk'; exact Or.inr (fun j _ => (hk j).2 k hk')
  | createBegin i kind key parent labels hpc hkind hlock hok =>
    obtain ⟨⟨ps, hchk, _⟩, hfreeDir⟩ := hok
    obtain ⟨hpe, hkne, hnk, _⟩ := createChecks_ok hchk
    have hsn : NewRec (applyStep c.s (.mkTemp c.tmp)) ⟨key, c.s.seq + 1, kind, parent, labels⟩ :=
      ⟨hkne, hnk, rfl, fun hp => parentErr_none hpe hp⟩
    refine cinvar_update h i (applyStep c.s (.mkTemp c.tmp)) _ _ rfl rfl (inv_step h.inv trivial)
      (allDirs_step h.allDirs trivial) (fun _ => Or.inr hlock) ?_ ?_ hsn ?_ ?_ (noCons rfl)
    · refine dirBound_frame h i _ _ ?_ (Nat.le_refl _) (by
        intro tgt sn e; have := hlock i; rw [e] at this; simp [PC.holds] at this)
      intro n hn
      simpa [applyStep] using hn
    · intro j _
      exact tok_dirs_mounts (h.tok j) rfl rfl (fun n _ hn => List.mem_append_left _ hn) (fun n hn => Or.inl hn) (fun n hn _ => hn)
    · intro a ha
      right
      intro j b hj hb
      simp only [PC.owned, Option.some.injEq] at ha
      subst ha
      obtain ⟨x, hx, _, hxk⟩ := liveRec_of_owned_nonholder (h.tok j) hb (hlock j)
      intro e
      exact hasKey_false.mp hnk x hx (by rw [hxk]; exact e.symm)
    · intro k hk
      left
      rw [hpc]
      simp only [PC.ownKey, Option.some.injEq] at hk
      subst hk
      split <;> rfl
  | createFail i kind key parent labels extra hpc hlock hfail hextra =>
    refine cinvar_update h i (applyStep c.s (.mkTemp c.tmp)) _ _ rfl rfl (inv_step h.inv trivial)
      (allDirs_step h.allDirs trivial) (by intro hh; simp [PC.holds] at hh) ?_ ?_ ?_
      (by intro a ha; simp [PC.owned] at ha) (by intro k hk; simp [PC.ownKey] at hk) (noCons rfl)
    · refine dirBound_frame h i _ _ ?_ (Nat.le_refl _) (by
        intro tgt sn e; have := hlock i; rw [e] at this; simp [PC.holds] at this)
      intro n hn
      simpa [applyStep] using hn
    · intro j _
      exact tok_dirs_mounts (h.tok j) rfl rfl (fun n _ hn => List.mem_append_left _ hn) (fun n hn => Or.inl hn) (fun n hn _ => hn)
    · refine ⟨?_, by intro hu; cases hu⟩
      intro d hd
      rcases List.mem_cons.mp hd with rfl | hd
      · trivial
      · rcases hextra with rfl | ⟨rfl, hmem⟩
        · cases hd
        · have := lockFree_dirs h hlock _ hmem
          omega
  | rename i tgt t sn hpc =>
    have htok := h.tok i
    rw [hpc] at htok
    refine cinvar_update h i (applyStep c.s (.rename t sn.id)) _ _ rfl rfl (inv_step h.inv trivial)
      (allDirs_step h.allDirs trivial) (fun _ => Or.inl (by rw [hpc]; rfl)) ?_ ?_ ?_
      (keepOwn (Or.inl (by rw [hpc]; rfl))) (keepKey (Or.inl (by rw [hpc]; rfl))) (noCons rfl)
    · intro n hn
      have hn' : Dir.id n ∈ c.s.dirs ∨ n = sn.id := by
        simp only [applyStep, List.mem_append, List.mem_filter, List.mem_singleton, Dir.id.injEq] at hn
        rcases hn with ⟨h1, _⟩ | h1
        · exact Or.inl h1
        · exact Or.inr h1
      rcases hn' with h1 | h1
      · rcases h.dirBound n h1 with h2 | ⟨j, tgt', sn', hj, _⟩
        · exact Or.inl h2
        · have : j = i := h.oneHolder _ _ (by rw [hj]; rfl) (by rw [hpc]; rfl)
          rw [this, hpc] at hj; cases hj
      · exact Or.inr ⟨i, tgt, sn, by rw [setPc_same], h1.symm⟩
    · intro j _
      refine tok_dirs_mounts (h.tok j) rfl rfl ?_ (fun n hn => Or.inl hn) (fun n hn _ => hn)
      intro n _ hn
      simp only [applyStep, List.mem_append, List.mem_filter]
      exact Or.inl ⟨hn, by simp⟩
    · exact ⟨htok, by simp [applyStep]⟩
  | createCommit i tgt sn hpc =>
    have htok := h.tok i
    rw [hpc] at htok
    obtain ⟨hnew, hdir⟩ := htok
    have hok : StepOk c.s (.txCreate sn) := hnew
    have hinv' := inv_step h.inv hok
    have hnh := others_nonholders h (i := i) (Or.inl (by rw [hpc]; rfl))
    have hpcown : (afterCreate tgt sn).owned = (c.th i).owned ∨ (afterCreate tgt sn).owned = none := by
      rw [hpc]; cases tgt <;> simp [PC.owned, afterCreate]
    have hpckey : (afterCreate tgt sn).ownKey = (c.th i).ownKey ∨ (afterCreate tgt sn).ownKey = none := by
      rw [hpc]; cases tgt <;> simp [PC.ownKey, afterCreate]
    refine cinvar_update h i (applyStep c.s (.txCreate sn)) _ _ rfl rfl hinv'
      (allDirs_step h.allDirs hdir) (by intro hh; cases tgt <;> simp [PC.holds, afterCreate] at hh) ?_ ?_ ?_
      (keepOwn hpcown) (keepKey hpckey) (by cases tgt <;> exact noCons rfl)
    · refine dirBound_frame h i _ _ (fun n hn => hn) (by show c.s.seq ≤ sn.id; rw [hnew.2.2.1]; omega) ?_
      intro tgt' sn' e
      rw [hpc] at e; cases e
      exact Or.inr (Nat.le_refl _)
    · intro j hj
      refine tok_meta (h.tok j) (hnh j hj) rfl rfl (by show c.s.seq ≤ sn.id; rw [hnew.2.2.1]; omega) ?_ ?_
      · intro a ha
        rcases mem_insertSnap.mp ha with rfl | ha
        · right; rw [hnew.2.2.1]; omega
        · exact Or.inl ⟨a, ha, rfl⟩
      · intro x _ a ha h1 h2
        exact ⟨a, mem_insertSnap.mpr (Or.inr ha), h1, h2⟩
    · cases tgt with
      | none => trivial
      | some T =>
        refine ⟨⟨sn, mem_insertSnap.mpr (Or.inl rfl), rfl, rfl⟩, ?_⟩
        intro hm
        have := h.inv.mountBound _ hm
        rw [hnew.2.2.1] at this
        omega
  | mount i T sn hpc =>
    have htok := h.tok i
    rw [hpc] at htok
    obtain ⟨⟨a, ha, hai, hak⟩, hnm⟩ := htok
    have hok : StepOk c.s (.fsMount sn.id sn.labels ((c.orc i).mountOk sn.id)) := by
      intro _
      exact ⟨by rw [← hai]; exact h.allDirs a ha, hnm, by rw [← hai]; exact (h.inv.idBound a ha).2⟩
    have hpcown : ∀ pc', (pc' = (if (c.orc i).mountOk sn.id = true then PC.prepCommit T sn else PC.done)) →
        pc'.owned = (c.th i).owned ∨ pc'.owned = none := by
      intro pc' e; subst e; rw [hpc]; split <;> simp [PC.owned]
    have hpckey : ∀ pc', (pc' = (if (c.orc i).mountOk sn.id = true then PC.prepCommit T sn else PC.done)) →
        pc'.ownKey = (c.th i).ownKey ∨ pc'.ownKey = none := by
      intro pc' e; subst e; rw [hpc]; split <;> simp [PC.ownKey]
    refine cinvar_update h i (applyStep c.s (.fsMount sn.id sn.labels ((c.orc i).mountOk sn.id))) _ _ rfl rfl
      (inv_step h.inv hok) (allDirs_step h.allDirs trivial) (by intro hh; split at hh <;> simp [PC.holds] at hh) ?_ ?_ ?_
      (keepOwn (hpcown _ rfl)) (keepKey (hpckey _ rfl)) (by split <;> exact noCons rfl)
    · refine dirBound_frame h i _ _ ?_ ?_ (by intro tgt sn' e; rw [hpc] at e; cases e)
      · intro n hn; cases hmo : (c.orc i).mountOk sn.id <;> simpa [applyStep, hmo] using hn
      · cases hmo : (c.orc i).mountOk sn.id <;> simp [applyStep]
    · intro j hj
      have hsn' : (applyStep c.s (.fsMount sn.id sn.labels ((c.orc i).mountOk sn.id))).snaps = c.s.snaps := by
        cases (c.orc i).mountOk sn.id <;> rfl
      have hsq : (applyStep c.s (.fsMount sn.id sn.labels ((c.orc i).mountOk sn.id))).seq = c.s.seq := by
        cases (c.orc i).mountOk sn.id <;> rfl
      refine tok_dirs_mounts (h.tok j) hsn' hsq ?_ ?_ (by
        intro n hn _
        cases hmo : (c.orc i).mountOk sn.id with
        | false => simpa [applyStep, hmo] using hn
        | true => simp only [applyStep, hmo, if_true]; exact List.mem_cons_of_mem _ hn)
      · intro n _ hn; cases (c.orc i).mountOk sn.id <;> exact hn
      · intro n hn
        cases hmo : (c.orc i).mountOk sn.id with
        | false => left; simpa [applyStep, hmo] using hn
        | true =>
          simp only [applyStep, hmo, if_true, List.mem_cons] at hn
          rcases hn with rfl | hn
          · right
            refine ⟨⟨a, ha, hai⟩, ?_⟩
            intro T' sn' hj' e
            have hj'' := h.tok j
            rw [hj'] at hj''
            obtain ⟨⟨b, hb, hbi, hbk⟩, _⟩ := hj''
            have hab : a = b := h.inv.idInj ha hb (by rw [hai, hbi, e])
            have := h.ownDistinct i j sn sn' (Ne.symm hj) (by rw [hpc]; rfl) (by rw [hj']; rfl)
            apply this
            rw [← hak, ← hbk, hab]
          · exact Or.inl hn
    · split
      · rename_i hmo
        refine ⟨⟨a, by simp only [applyStep, hmo, if_true]; exact ha, hai, hak⟩, ?_⟩
        simp only [applyStep, hmo, if_true]
        exact List.mem_cons_self ..
      · trivial
  | internalCommit i T sn hpc hlock hok =>
    have hstep : StepOk c.s (.txCommitActive sn.key T (lset sn.labels remoteLabel remoteVal)) := hok
    obtain ⟨_, _, sn0, hf0, _⟩ := hok
    have hsn0 := findKey_some hf0
    refine cinvar_update h i (applyStep c.s (.txCommitActive sn.key T (lset sn.labels remoteLabel remoteVal))) _ _ rfl rfl
      (inv_step h.inv hstep) (allDirs_step h.allDirs trivial) (by intro hh; simp [PC.holds] at hh) ?_ ?_ trivial
      (by intro a ha; simp [PC.owned] at ha) (by intro k hk; simp [PC.ownKey] at hk) (noCons rfl)
    · exact dirBound_frame h i _ _ (fun n hn => hn) (Nat.le_refl _) (by intro tgt sn' e; rw [hpc] at e; cases e)
    · intro j hj
      refine tok_meta (h.tok j) (hlock j) rfl rfl (Nat.le_refl _) ?_ ?_
      · intro a ha
        simp only [applyStep, commitActive, hf0] at ha
        rcases mem_insertSnap.mp ha with rfl | ha
        · exact Or.inl ⟨sn0, hsn0.1, rfl⟩
        · exact Or.inl ⟨a, (mem_removeKey.mp ha).1, rfl⟩
      · intro x hx a ha h1 h2
        have hne : a.key ≠ sn.key := by
          rw [h2]
          exact fun e => h.ownDistinct j i x sn hj hx (by rw [hpc]; rfl) e
        refine ⟨a, ?_, h1, h2⟩
        simp only [applyStep, commitActive, hf0]
        exact mem_insertSnap.mpr (Or.inr (mem_removeKey.mpr ⟨ha, hne⟩))
  | internalCommitFail i T sn hpc hlock hok =>
    refine cinvar_update h i c.s .done _ rfl rfl h.inv h.allDirs (by intro hh; simp [PC.holds] at hh) ?_
      (fun j _ => h.tok j) trivial (by intro a ha; simp [PC.owned] at ha) (by intro k hk; simp [PC.ownKey] at hk) (noCons rfl)
    exact dirBound_frame h i _ _ (fun n hn => hn) (Nat.le_refl _) (by intro tgt sn' e; rw [hpc] at e; cases e)
  | commit i name key labels hpc hlock hok =>
    have hstep : StepOk c.s (.txCommitActive key name labels) := hok
    obtain ⟨_, _, sn0, hf0, _⟩ := hok
    have hsn0 := findKey_some hf0
    refine cinvar_update h i (applyStep c.s (.txCommitActive key name labels)) _ _ rfl rfl
      (inv_step h.inv hstep) (allDirs_step h.allDirs trivial) (by intro hh; simp [PC.holds] at hh) ?_ ?_ trivial
      (by intro a ha; simp [PC.owned] at ha) (by intro k hk; simp [PC.ownKey] at hk) (noCons rfl)
    · exact dirBound_frame h i _ _ (fun n hn => hn) (Nat.le_refl _) (by intro tgt sn' e; rw [hpc] at e; cases e)
    · intro j hj
      refine tok_meta (h.tok j) (hlock j) rfl rfl (Nat.le_refl _) ?_ ?_
      · intro a ha
        simp only [applyStep, commitActive, hf0] at ha
        rcases mem_insertSnap.mp ha with rfl | ha
        · exact Or.inl ⟨sn0, hsn0.1, rfl⟩
        · exact Or.inl ⟨a, (mem_removeKey.mp ha).1, rfl⟩
      · intro x hx a ha h1 h2
        have hne : a.key ≠ key := by
          rw [h2]
          exact fun e => h.noConflict j i x.key (owned_ownKey hx) (by rw [hpc, e]; rfl)
        refine ⟨a, ?_, h1, h2⟩
        simp only [applyStep, commitActive, hf0]
        exact mem_insertSnap.mpr (Or.inr (mem_removeKey.mpr ⟨ha, hne⟩))
  | update i key lk lv sn hpc hlock hf =>
    refine cinvar_update h i (applyStep c.s (.txUpdate key _)) _ _ rfl rfl
      (inv_step h.inv trivial) (allDirs_step h.allDirs trivial) (by intro hh; simp [PC.holds] at hh) ?_ ?_ trivial
      (by intro a ha; simp [PC.owned] at ha) (by intro k hk; simp [PC.ownKey] at hk) (noCons rfl)
    · exact dirBound_frame h i _ _ (fun n hn => hn) (Nat.le_refl _) (by intro tgt sn' e; rw [hpc] at e; cases e)
    · intro j hj
      refine tok_meta (h.tok j) (hlock j) rfl rfl (Nat.le_refl _) ?_ ?_
      · intro a ha
        obtain ⟨y, hy, rfl⟩ := mem_updateLabels.mp ha
        exact Or.inl ⟨y, hy, by split <;> rfl⟩
      · intro x _ a ha h1 h2
        refine ⟨_, mem_updateLabels.mpr ⟨a, ha, rfl⟩, ?_, ?_⟩
        · split <;> exact h1
        · split <;> exact h2
  | remove i key order hpc hlock hok =>
    have hstep : StepOk c.s (.txRemove key) := hok.2
    have hpcown : ∀ pc', (pc' = (if c.s.cfg.asyncRemove = true then PC.done else
        PC.clean (arrange order (orphans (applyStep c.s (.txRemove key)))) false)) → pc'.owned = none ∧ pc'.ownKey = none ∧ pc'.consumes = none ∧ pc'.holds = false := by
      intro pc' e; subst e; split <;> simp [PC.owned, PC.ownKey, PC.consumes, PC.holds]
    obtain ⟨o1, o2, o3, o4⟩ := hpcown _ rfl
    refine cinvar_update h i (applyStep c.s (.txRemove key)) _ _ rfl rfl
      (inv_step h.inv hstep) (allDirs_step h.allDirs trivial) (by intro hh; rw [o4] at hh; cases hh) ?_ ?_ ?_
      (keepOwn (Or.inr o1)) (keepKey (Or.inr o2)) (noCons o3)
    · exact dirBound_frame h i _ _ (fun n hn => hn) (Nat.le_refl _) (by intro tgt sn' e; rw [hpc] at e; cases e)
    · intro j hj
      refine tok_meta (h.tok j) (hlock j) rfl rfl (Nat.le_refl _) ?_ ?_
      · intro a ha
        exact Or.inl ⟨a, (mem_removeKey.mp ha).1, rfl⟩
      · intro x hx a ha h1 h2
        have hne : a.key ≠ key := by
          rw [h2]
          exact fun e => h.noConflict j i x.key (owned_ownKey hx) (by rw [hpc, e]; rfl)
        exact ⟨a, mem_removeKey.mpr ⟨ha, hne⟩, h1, h2⟩
    · split
      · trivial
      · exact ⟨fun d hd => orphans_dead h hlock (applyStep c.s (.txRemove key)) rfl rfl d (mem_arrange.mp hd), by intro hu; cases hu⟩
  | cleanupScan i order hpc hlock =>
    have hl := hlock rfl
    refine cinvar_update h i c.s _ _ rfl rfl h.inv h.allDirs (by intro hh; simp [PC.holds] at hh) ?_
      (fun j _ => h.tok j) ⟨fun d hd => orphans_dead h hl _ rfl rfl d (mem_arrange.mp hd), by intro hu; cases hu⟩
      (by intro a ha; simp [PC.owned] at ha) (by intro k hk; simp [PC.ownKey] at hk) (noCons rfl)
    exact dirBound_frame h i _ _ (fun n hn => hn) (Nat.le_refl _) (by intro tgt sn' e; rw [hpc] at e; cases e)
  | cleanUnmount i d r hpc =>
    have htok := h.tok i
    rw [hpc] at htok
    have hsafe : Safe false c.s (.fsUnmount d ((c.orc i).unmountOk d)) := by
      cases d with
      | temp t => trivial
      | id n => exact Or.inr (htok.1 _ (List.mem_cons_self ..)).2
    refine cinvar_update h i (applyStep c.s (.fsUnmount d ((c.orc i).unmountOk d))) _ _ rfl rfl
      (inv_step h.inv trivial) (allDirs_step h.allDirs hsafe) (by intro hh; simp [PC.holds] at hh) ?_ ?_ ?_
      (by intro a ha; simp [PC.owned] at ha) (by intro k hk; simp [PC.ownKey] at hk) (noCons rfl)
    · refine dirBound_frame h i _ _ ?_ ?_ (by intro tgt sn' e; rw [hpc] at e; cases e)
      · intro n hn; cases d <;> exact hn
      · cases d <;> exact Nat.le_refl _
    · intro j _
      refine tok_dirs_mounts (h.tok j) (by cases d <;> rfl) (by cases d <;> rfl) ?_ ?_ ?_
      · intro n _ hn; cases d <;> exact hn
      · intro n hn
        left
        cases d with
        | temp t => exact hn
        | id m => exact (List.mem_filter.mp hn).1
      · intro n hn hlive
        cases d with
        | temp t => exact hn
        | id m =>
          refine List.mem_filter.mpr ⟨hn, ?_⟩
          obtain ⟨a, ha, hae⟩ := hlive
          have hdead := (htok.1 _ (List.mem_cons_self ..)).2 a ha
          simp only [bne_iff_ne, ne_eq]
          rw [← hae]; exact fun e => hdead e
    · refine ⟨?_, ?_⟩
      · intro d' hd'
        have := htok.1 d' hd'
        cases d <;> exact this
      · intro _ d' r' e n hn hmem
        simp only [List.cons.injEq] at e
        obtain ⟨rfl, _⟩ := e
        subst hn
        simp [applyStep] at hmem
  | cleanRmdir i d r hpc =>
    have htok := h.tok i
    rw [hpc] at htok
    have hdead := htok.1 d (List.mem_cons_self ..)
    have hok : StepOk c.s (.rmdir d) := fun n hn => htok.2 rfl d r rfl n hn
    have hsafe : Safe false c.s (.rmdir d) := by
      left
      cases d with
      | temp t => rfl
      | id n =>
        simp only [liveDir, List.any_eq_false, beq_iff_eq]
        exact fun a ha => hdead.2 a ha
    refine cinvar_update h i (applyStep c.s (.rmdir d)) _ _ rfl rfl
      (inv_step h.inv hok) (allDirs_step h.allDirs hsafe) (by intro hh; simp [PC.holds] at hh) ?_ ?_ ?_
      (by intro a ha; simp [PC.owned] at ha) (by intro k hk; simp [PC.ownKey] at hk) (noCons rfl)
    · refine dirBound_frame h i _ _ ?_ (Nat.le_refl _) (by intro tgt sn' e; rw [hpc] at e; cases e)
      intro n hn
      exact (List.mem_filter.mp hn).1
    · intro j _
      refine tok_dirs_mounts (h.tok j) rfl rfl ?_ (fun n hn => Or.inl hn) (fun n hn _ => hn)
      intro n hn1 hn
      show Dir.id n ∈ c.s.dirs.filter (fun x => x != d)
      rw [filter_ne_mem]
      refine ⟨hn, ?_⟩
      rintro rfl
      have := hdead.1
      omega
    · refine ⟨fun d' hd' => ?_, by intro hu; cases hu⟩
      have := htok.1 d' (List.mem_cons_of_mem _ hd')
      cases d' with
      | temp t => trivial
      | id n => exact this
  | finish i hpc =>
    refine cinvar_update h i c.s .done _ rfl rfl h.inv h.allDirs (by intro hh; simp [PC.holds] at hh) ?_
      (fun j _ => h.tok j) trivial (by intro a ha; simp [PC.owned] at ha) (by intro k hk; simp [PC.ownKey] at hk) (noCons rfl)
    refine dirBound_frame h i _ _ (fun n hn => hn) (Nat.le_refl _) ?_
    intro tgt sn' e
    have := hpc.1; rw [e] at this; simp [PC.holds] at this

theorem cinvar_init (cfg : Config) : CInvar (cinit cfg) := by
  refine ⟨inv_init cfg, ?_, ?_, ?_, fun _ => trivial, ?_, ?_⟩
  · intro a ha; simp [cinit, init] at ha
  · intro i j hi; simp [cinit, PC.holds] at hi
  · intro n hn; simp [cinit, init] at hn
  · intro i j a b _ ha; simp [cinit, PC.owned] at ha
  · intro i j k hk; simp [cinit, PC.ownKey] at hk

/-- the invariant holds in every state of every interleaving (unchanged code: Cleanup scans
under the writer lock) -/
theorem cinvar_reachable {cfg : Config} {c : CState} (h : CReach {} cfg c) : CInvar c := by
  induction h with
  | init => exact cinvar_init cfg
  | step _ hs ih => exact cinvar_step ih hs

/-- no transition of a concurrent run closes the metadata store -/
theorem closed_step {v : Variant} {c c' : CState} (hs : CStep v c c') : c'.s.closed = c.s.closed := by
  cases hs with
  | mount i T sn hpc => cases hm : (c.orc i).mountOk sn.id <;> simp [CState.run, applyStep, hm]
  | cleanUnmount i d r hpc => cases d <;> rfl
  | _ => rfl

theorem closed_reachable {v : Variant} {cfg : Config} {c : CState} (h : CReach v cfg c) : c.s.closed = false := by
  induction h with
  | init => rfl
  | step _ hs ih => rw [closed_step hs]; exact ih

end SV.Snap.Conc
