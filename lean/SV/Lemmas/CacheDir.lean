import SV.Model.CacheDir

/-! Invariant of a released handle (repository order): closed, directory gone, every wip file gone, nothing
committed, and no writer between its closed-check and its `MkdirAll`. -/

namespace SV.Model.CacheDir

/-- no writer has passed the closed-check without having done its `MkdirAll` yet -/
def NoWindow (s : State) : Prop := ∀ p ∈ s.pcs, p ≠ Pc.checked

structure Gone (s : State) : Prop where
  closed : s.closed = true
  dir : s.dir = false
  wip : ∀ b ∈ s.wip, b = false
  files : s.files = 0
  win : NoWindow s

theorem mem_set_ne {α} {l : List α} {w : Nat} {x a : α} (h : a ∈ l.set w x) : a ∈ l ∨ a = x :=
  List.mem_or_eq_of_mem_set h

theorem noWindow_set {s : State} {w : Nat} {x : Pc} (h : NoWindow s) (hx : x ≠ Pc.checked) :
    ∀ p ∈ s.pcs.set w x, p ≠ Pc.checked := by
  intro p hp
  rcases mem_set_ne hp with h1 | h1
  · exact h p h1
  · exact h1 ▸ hx

theorem wip_set {s : State} {w : Nat} (h : ∀ b ∈ s.wip, b = false) : ∀ b ∈ s.wip.set w false, b = false := by
  intro b hb
  rcases mem_set_ne hb with h1 | h1
  · exact h b h1
  · exact h1

/-- a writer of a `Gone` handle never is at the program counter that enables `mkdir` -/
theorem gone_no_mkdir {s : State} (g : Gone s) (w : Nat) : s.pcs[w]? ≠ some (atMkdir true) := by
  intro h
  have : Pc.checked ∈ s.pcs := by
    have := List.mem_of_getElem? h
    simpa [atMkdir] using this
  exact g.win _ this rfl

theorem gone_step {s : State} (g : Gone s) (op : Op) : Gone (step true s op).1 := by
  cases op with
  | add => simp [step, g.closed]; exact g
  | check w =>
      simp only [step]
      split
      · rw [if_pos g.closed]
        exact ⟨g.closed, g.dir, g.wip, g.files, noWindow_set g.win (by decide)⟩
      · exact g
  | mkdir w =>
      simp only [step]
      split
      · rename_i h; exact absurd h (gone_no_mkdir g w)
      · exact g
  | rename w =>
      simp only [step]
      split
      · have : (s.wip[w]? = some true && s.dir) = false := by simp [g.dir]
        simp only [this]
        exact ⟨g.closed, g.dir, g.wip, g.files, noWindow_set g.win (by decide)⟩
      · exact g
  | abort w =>
      simp only [step]
      split
      · exact ⟨g.closed, g.dir, wip_set g.wip, g.files, noWindow_set g.win (by decide)⟩
      · exact g
  | close => simp [step, g.closed]; exact g

theorem gone_run {s : State} (g : Gone s) (ops : List Op) : Gone (runFrom true s ops) := by
  induction ops generalizing s with
  | nil => exact g
  | cons o os ih => exact ih (gone_step g o)

/-- `Close` establishes everything of `Gone` but the window condition -/
theorem close_gone {s : State} (ho : s.closed = false) (h : NoWindow s) : Gone (step true s .close).1 := by
  simp only [step, ho]
  exact ⟨rfl, rfl, by simp, rfl, h⟩

theorem run_append (cf : Bool) (pre ops : List Op) :
    run cf (pre ++ Op.close :: ops) = runFrom cf (step cf (run cf pre) .close).1 ops := by
  simp [run, runFrom, List.foldl_append]

end SV.Model.CacheDir
