/-
Helper lemmas for C18 (model: SV/Model/Creds.lean).
-/
import SV.Model.Creds

namespace SV.Creds

/-! ## keychain -/

section Keychain
variable (norm : String → Option Ref)

/-- Nothing is ever stored while the backend is not connected. -/
def KInv (s : KState) : Prop := s.connected = false → ∀ r, s.config r = none

theorem kinv_init : KInv ({} : KState) := fun _ _ => rfl

theorem kstep_inv (s : KState) (op : KOp) (h : KInv s) : KInv (kstep norm s op).1 := by
  cases op with
  | connect => intro hc; simp [kstep] at hc
  | pull image auth ok =>
    cases hc : s.connected
    · simpa [kstep, hc] using h
    · cases hn : norm image <;> simp [kstep, hc, hn, KInv]
  | remove image ok =>
    cases hc : s.connected
    · simpa [kstep, hc] using h
    · cases hn : norm image <;> simp [kstep, hc, hn, KInv]

theorem krun_cons (s : KState) (op : KOp) (ops : List KOp) :
    krun norm s (op :: ops) = krun norm (kstep norm s op).1 ops := rfl

theorem krun_append (s : KState) (a b : List KOp) :
    krun norm s (a ++ b) = krun norm (krun norm s a) b := by
  simp [krun, List.foldl_append]

theorem krun_inv (ops : List KOp) : ∀ s, KInv s → KInv (krun norm s ops) := by
  induction ops with
  | nil => intro s h; exact h
  | cons op ops ih => intro s h; rw [krun_cons]; exact ih _ (kstep_inv norm s op h)

theorem kstep_connected_mono (s : KState) (op : KOp) (h : s.connected = true) :
    (kstep norm s op).1.connected = true := by
  cases op with
  | connect => simp [kstep]
  | pull image auth ok => cases hn : norm image <;> simp [kstep, h, hn]
  | remove image ok => cases hn : norm image <;> simp [kstep, h, hn]

theorem krun_connected_mono (ops : List KOp) : ∀ s, s.connected = true →
    (krun norm s ops).connected = true := by
  induction ops with
  | nil => intro s h; exact h
  | cons op ops ih => intro s h; rw [krun_cons]; exact ih _ (kstep_connected_mono norm s op h)

/-- A request that does not name `ref` leaves the entry of `ref` alone. -/
theorem kstep_untouched (s : KState) (op : KOp) (ref : Ref) (h : touches norm ref op = false) :
    (kstep norm s op).1.config ref = s.config ref := by
  cases op with
  | connect => simp [kstep]
  | pull image auth ok =>
    cases hc : s.connected
    · simp [kstep, hc]
    · cases hn : norm image with
      | none => simp [kstep, hc, hn]
      | some k =>
        have : ref ≠ k := by
          intro e; subst e; simp [touches, hn] at h
        simp [kstep, hc, hn, this]
  | remove image ok =>
    cases hc : s.connected
    · simp [kstep, hc]
    · cases hn : norm image with
      | none => simp [kstep, hc, hn]
      | some k =>
        have : ref ≠ k := by
          intro e; subst e; simp [touches, hn] at h
        simp [kstep, hc, hn, this]

theorem krun_untouched (ops : List KOp) (ref : Ref) : ∀ s,
    (∀ op ∈ ops, touches norm ref op = false) → (krun norm s ops).config ref = s.config ref := by
  induction ops with
  | nil => intro s _; rfl
  | cons op ops ih =>
    intro s h
    rw [krun_cons, ih _ (fun o ho => h o (List.mem_cons_of_mem _ ho))]
    exact kstep_untouched norm s op ref (h op (List.mem_cons_self ..))

/-- A connected pull of an image that normalises to `ref` stores its auth under `ref`. -/
theorem kstep_pull_stores (s : KState) (image : String) (auth : Option AuthConfig) (ok : Bool)
    (ref : Ref) (hc : s.connected = true) (hn : norm image = some ref) :
    (kstep norm s (.pull image auth ok)).1.config ref = some auth := by
  simp [kstep, hc, hn]

/-- A remove of an image that normalises to `ref` leaves no entry for `ref` (connected or not). -/
theorem kstep_remove_clears (s : KState) (hi : KInv s) (image : String) (ok : Bool) (ref : Ref)
    (hn : norm image = some ref) : (kstep norm s (.remove image ok)).1.config ref = none := by
  cases hc : s.connected
  · simpa [kstep, hc] using hi hc ref
  · simp [kstep, hc, hn]

/-- Where an entry comes from: it was there at the start and nobody named `ref` since, or it is
the auth of a connected pull of exactly `ref` after which nobody named `ref`. -/
theorem config_origin (ops : List KOp) : ∀ s, KInv s → ∀ (ref : Ref) (a : Option AuthConfig),
    (krun norm s ops).config ref = some a →
    (s.config ref = some a ∧ ∀ op ∈ ops, touches norm ref op = false) ∨
    ∃ pre image ok post, ops = pre ++ KOp.pull image a ok :: post ∧ norm image = some ref ∧
      (krun norm s pre).connected = true ∧ ∀ op ∈ post, touches norm ref op = false := by
  induction ops with
  | nil => intro s _ ref a h; exact Or.inl ⟨h, by simp⟩
  | cons op ops ih =>
    intro s hi ref a h
    rw [krun_cons] at h
    rcases ih _ (kstep_inv norm s op hi) ref a h with ⟨h1, h2⟩ | ⟨pre, image, ok, post, he, hn, hc, hp⟩
    · cases ht : touches norm ref op
      · left
        rw [kstep_untouched norm s op ref ht] at h1
        refine ⟨h1, ?_⟩
        intro o ho
        rcases List.mem_cons.mp ho with rfl | ho
        · exact ht
        · exact h2 o ho
      · cases op with
        | connect => simp [touches] at ht
        | pull image auth ok =>
          have hn : norm image = some ref := by simpa [touches] using ht
          cases hc : s.connected
          · have := hi hc ref
            simp [kstep, hc, this] at h1
          · rw [kstep_pull_stores norm s image auth ok ref hc hn] at h1
            cases h1
            right
            exact ⟨[], image, ok, ops, rfl, hn, hc, h2⟩
        | remove image ok =>
          have hn : norm image = some ref := by simpa [touches] using ht
          rw [kstep_remove_clears norm s hi image ok ref hn] at h1
          cases h1
    · right
      refine ⟨op :: pre, image, ok, post, by simp [he], hn, ?_, hp⟩
      rw [krun_cons]; exact hc

end Keychain

/-! ## ParseAuth -/

/-- With a server address that does not denote `host`, nothing is returned. -/
theorem parseAuth_mismatch (a : AuthConfig) (host : String) (h1 : a.serverAddress ≠ "")
    (h2 : urlHost a.serverAddress ≠ some host) :
    parseAuth (some a) host = .ok [] [] ∨ parseAuth (some a) host = .err := by
  simp only [parseAuth, h1, ne_eq, not_false_eq_true, if_true]
  cases hu : urlHost a.serverAddress with
  | none => right; rfl
  | some h =>
    left
    have : host ≠ h := by
      intro e; subst e; exact h2 hu
    simp [this]

/-- A non-empty answer of `ParseAuth` means: no server address, or one denoting `host`. -/
theorem parseAuth_nonEmpty (auth : Option AuthConfig) (host : String) (u s : Bytes)
    (h : parseAuth auth host = .ok u s) (hne : u ≠ [] ∨ s ≠ []) :
    ∃ a, auth = some a ∧ (a.serverAddress = "" ∨ urlHost a.serverAddress = some host) ∧
      parseAuthForms a = .ok u s := by
  cases auth with
  | none =>
    simp [parseAuth] at h
    rcases h with ⟨rfl, rfl⟩
    simp at hne
  | some a =>
    refine ⟨a, rfl, ?_⟩
    by_cases h1 : a.serverAddress = ""
    · simp [parseAuth, h1] at h
      exact ⟨Or.inl h1, h⟩
    · simp only [parseAuth, h1, ne_eq, not_false_eq_true, if_true] at h
      cases hu : urlHost a.serverAddress with
      | none => simp [hu] at h
      | some hh =>
        simp only [hu] at h
        by_cases e : host = hh
        · subst e
          simp at h
          exact ⟨Or.inr rfl, h⟩
        · simp [e] at h
          rcases h with ⟨rfl, rfl⟩
          simp at hne

/-! ## multiCredsFuncs -/

theorem multiCreds_skip_empty (pre rest : List (String → Ref → Res)) (host : String) (ref : Ref)
    (h : ∀ g ∈ pre, g host ref = .ok [] []) :
    multiCreds (pre ++ rest) host ref = multiCreds rest host ref := by
  induction pre with
  | nil => rfl
  | cons g pre ih =>
    have hg := h g (List.mem_cons_self ..)
    simp only [List.cons_append, multiCreds, hg]
    simp
    exact ih (fun g' hg' => h g' (List.mem_cons_of_mem _ hg'))

/-! ## RegistryHostsFromConfig -/

theorem hostHeadersFrom_spec (ms : List Bool) : ∀ (k i j : Nat),
    (hostHeadersFrom k ms)[i]? = some (some j) → j = k + i ∧ ms[i]? = some true := by
  induction ms with
  | nil =>
    intro k i j h
    cases i <;> simp [hostHeadersFrom] at h
  | cons m ms ih =>
    intro k i j h
    cases i with
    | zero =>
      cases m <;> simp [hostHeadersFrom] at h
      simp [h]
    | succ i =>
      simp only [hostHeadersFrom, List.getElem?_cons_succ] at h
      obtain ⟨h1, h2⟩ := ih (k + 1) i j h
      exact ⟨by omega, by simpa using h2⟩

/-! ## fetcher headers -/

def AllConfined (l : List Req) : Prop := ∀ r ∈ l, r.confined

theorem allConfined_nil : AllConfined [] := by intro r h; cases h

theorem allConfined_append {a b : List Req} :
    AllConfined (a ++ b) ↔ AllConfined a ∧ AllConfined b := by
  constructor
  · intro h
    exact ⟨fun r hr => h r (List.mem_append_left _ hr), fun r hr => h r (List.mem_append_right _ hr)⟩
  · rintro ⟨h1, h2⟩ r hr
    rcases List.mem_append.mp hr with hr | hr
    · exact h1 r hr
    · exact h2 r hr

/-- Every request `tr.RoundTrip` sends is the request it was given (the 401 retry is a clone). -/
theorem roundTrip_log (az : Authz) (k : ReqKind) (t : Target) (c : Option Nat) (sc : List Ans) :
    ∀ r ∈ (roundTrip az k t c sc).1, r = ⟨k, t, c⟩ := by
  intro r hr
  unfold roundTrip at hr
  cases sc with
  | nil => simpa using hr
  | cons a rest =>
    simp only at hr
    split at hr
    · cases az with
      | absent => simpa using hr
      | fail => simpa using hr
      | retry =>
        cases rest with
        | nil => simp at hr; exact hr
        | cons b rest' => simp at hr; exact hr
    · simpa using hr

theorem roundTrip_confined (az : Authz) (k : ReqKind) (t : Target) (c : Option Nat)
    (sc : List Ans) (h : ∀ j, c = some j → t = .reg j) :
    AllConfined (roundTrip az k t c sc).1 := by
  intro r hr
  rw [roundTrip_log az k t c sc r hr]
  exact h

/-- The state of a fetcher justifies the request `fetch`/`check` build from it. -/
theorem inv_req (st : FState) (h : st.inv) : ∀ j, st.hdr = some j → st.url = .reg j := by
  intro j hj
  obtain ⟨e, hu⟩ := h.2 j hj
  rw [hu, e]

theorem redirect_confined (az : Authz) (i : Nat) (c : Option Nat) (sc : List Ans)
    (hc : ∀ j, c = some j → j = i) : AllConfined (redirect az i c sc).1 := by
  unfold redirect
  exact roundTrip_confined az .redirect (.reg i) c sc (fun j hj => by rw [hc j hj])

/-- What `redirect` hands back: no header set, or the one it was given together with the
original URL. -/
theorem redirectResult_spec (i : Nat) (c : Option Nat) (a : Ans) (u : Target) (h : Option Nat)
    (hr : redirectResult i c a = some (u, h)) :
    h = none ∨ (h = c ∧ u = .reg i ∧ a.isBody = true) := by
  cases a <;> simp [redirectResult] at hr
  · right; simp [hr.1, hr.2, Ans.isBody]
  · right; simp [hr.1, hr.2, Ans.isBody]
  · left; exact hr.2.symm

theorem redirect_result (az : Authz) (i : Nat) (c : Option Nat) (sc : List Ans) (u : Target)
    (h : Option Nat) (hr : (redirect az i c sc).2.1 = some (u, h)) :
    h = none ∨ (h = c ∧ u = .reg i) := by
  unfold redirect at hr
  rcases redirectResult_spec i c _ u h hr with h1 | ⟨h1, h2, _⟩
  · exact Or.inl h1
  · exact Or.inr ⟨h1, h2⟩

theorem getSize_confined (az : Authz) (t : Target) (c : Option Nat) (sc : List Ans)
    (h : ∀ j, c = some j → t = .reg j) : AllConfined (getSize az t c sc).1 := by
  unfold getSize
  have h1 := roundTrip_confined az .head t c sc h
  rcases hrt : roundTrip az .head t c sc with ⟨l1, a1, r1⟩
  rw [hrt] at h1
  have h2 := roundTrip_confined az .sizeGet t c r1 h
  cases a1 <;> simp only <;> first | exact h1 | exact allConfined_append.mpr ⟨h1, h2⟩

theorem newFetcherFrom_spec (az : Authz) (force : Bool) (hosts : List HostCfg) :
    ∀ (i : Nat) (sc : List Ans),
      AllConfined (newFetcherFrom az force i hosts sc).1 ∧
      ∀ st, (newFetcherFrom az force i hosts sc).2.1 = some st → st.inv := by
  induction hosts with
  | nil => intro i sc; simp [newFetcherFrom, allConfined_nil]
  | cons h hs ih =>
    intro i sc
    unfold newFetcherFrom
    cases hv : h.valid
    · simpa using ih (i + 1) sc
    · simp only [Bool.not_true, Bool.false_eq_true, if_false]
      have horg : ∀ j, (if h.hasHeader then some i else none) = some j → j = i := by
        intro j hj; split at hj <;> simp at hj; exact hj.symm
      have hc1 := redirect_confined az i _ sc horg
      have hres := redirect_result az i (if h.hasHeader then some i else none) sc
      rcases hrd : redirect az i (if h.hasHeader then some i else none) sc with ⟨l1, res, r1⟩
      rw [hrd] at hc1 hres
      cases res with
      | none =>
        simp only
        obtain ⟨ha, hb⟩ := ih (i + 1) r1
        exact ⟨allConfined_append.mpr ⟨hc1, ha⟩, hb⟩
      | some p =>
        obtain ⟨u, hd⟩ := p
        simp only
        have hud : ∀ j, hd = some j → u = .reg j := by
          intro j hj
          rcases hres u hd rfl with h0 | ⟨h1, h2⟩
          · rw [h0] at hj; cases hj
          · rw [h2, horg j (h1 ▸ hj)]
        have hc2 := getSize_confined az u hd r1 hud
        rcases hgs : getSize az u hd r1 with ⟨l2, ok, r2⟩
        rw [hgs] at hc2
        cases ok with
        | false =>
          simp only
          obtain ⟨ha, hb⟩ := ih (i + 1) r2
          exact ⟨allConfined_append.mpr ⟨allConfined_append.mpr ⟨hc1, hc2⟩, ha⟩, hb⟩
        | true =>
          simp only
          refine ⟨allConfined_append.mpr ⟨hc1, hc2⟩, ?_⟩
          intro st hst
          cases hst
          refine ⟨horg, ?_⟩
          intro j hj
          rcases hres u hd rfl with h0 | ⟨h1, h2⟩
          · simp at hj; rw [h0] at hj; cases hj
          · simp at hj
            exact ⟨horg j (h1 ▸ hj), h2⟩

theorem refreshURL_spec (az : Authz) (st : FState) (sc : List Ans) (hi : st.inv) :
    AllConfined (refreshURL az st sc).1 ∧
    ∀ st', (refreshURL az st sc).2.1 = some st' →
      st'.inv ∧ st'.host = st.host ∧ st'.org = st.org ∧ st'.single = st.single := by
  unfold refreshURL
  have hc1 := redirect_confined az st.host st.org sc hi.1
  have hres := redirect_result az st.host st.org sc
  rcases hrd : redirect az st.host st.org sc with ⟨l1, res, r1⟩
  rw [hrd] at hc1 hres
  cases res with
  | none => exact ⟨hc1, by intro st' h; cases h⟩
  | some p =>
    obtain ⟨u, hd⟩ := p
    refine ⟨hc1, ?_⟩
    intro st' h
    cases h
    refine ⟨⟨hi.1, ?_⟩, rfl, rfl, rfl⟩
    intro j hj
    simp at hj
    rcases hres u hd rfl with h0 | ⟨h1, h2⟩
    · rw [h0] at hj; cases hj
    · exact ⟨hi.1 j (h1 ▸ hj), h2⟩

theorem fetch_spec (az : Authz) (st : FState) (sc : List Ans) (hi : st.inv) :
    AllConfined (fetch az st sc).1 ∧ (fetch az st sc).2.1.inv := by
  unfold fetch
  have h1 := roundTrip_confined az .fetch st.url st.hdr sc (inv_req st hi)
  rcases hrt : roundTrip az .fetch st.url st.hdr sc with ⟨l1, a, r1⟩
  rw [hrt] at h1
  cases a <;> simp only <;> try exact ⟨h1, hi⟩
  · -- 403: refresh and retry once
    have hr := refreshURL_spec az st r1 hi
    rcases hrf : refreshURL az st r1 with ⟨l2, res, r2⟩
    rw [hrf] at hr
    cases res with
    | none => exact ⟨allConfined_append.mpr ⟨h1, hr.1⟩, hi⟩
    | some st' =>
      obtain ⟨hi', _⟩ := hr.2 st' rfl
      have h3 := roundTrip_confined az .fetch st'.url st'.hdr r2 (inv_req st' hi')
      exact ⟨allConfined_append.mpr ⟨allConfined_append.mpr ⟨h1, hr.1⟩, h3⟩, hi'⟩
  · -- 400: single range mode and retry once
    cases hs : st.single
    · simp only [Bool.false_eq_true, if_false]
      have hi' : ({ st with single := true } : FState).inv := hi
      have h3 := roundTrip_confined az .fetch st.url st.hdr r1 (inv_req st hi)
      exact ⟨allConfined_append.mpr ⟨h1, h3⟩, hi'⟩
    · simp only [if_true]
      exact ⟨h1, hi⟩

theorem check_spec (az : Authz) (st : FState) (sc : List Ans) (hi : st.inv) :
    AllConfined (check az st sc).1 ∧ (check az st sc).2.1.inv := by
  unfold check
  have h1 := roundTrip_confined az .check st.url st.hdr sc (inv_req st hi)
  rcases hrt : roundTrip az .check st.url st.hdr sc with ⟨l1, a, r1⟩
  rw [hrt] at h1
  cases a <;> simp only <;> try exact ⟨h1, hi⟩
  have hr := refreshURL_spec az st r1 hi
  rcases hrf : refreshURL az st r1 with ⟨l2, res, r2⟩
  rw [hrf] at hr
  cases res with
  | none => exact ⟨allConfined_append.mpr ⟨h1, hr.1⟩, hi⟩
  | some st' => exact ⟨allConfined_append.mpr ⟨h1, hr.1⟩, (hr.2 st' rfl).1⟩

theorem fstep_spec (cfg : FCfg) (st : FState) (op : FOp) (hi : st.inv) :
    AllConfined (fstep cfg st op).1 ∧ (fstep cfg st op).2.1.inv := by
  cases op with
  | read sc => exact fetch_spec cfg.az st sc hi
  | check sc => exact check_spec cfg.az st sc hi
  | refresh sc =>
    simp only [fstep, newFetcher]
    have h := newFetcherFrom_spec cfg.az cfg.force cfg.hosts 0 sc
    rcases hn : newFetcherFrom cfg.az cfg.force 0 cfg.hosts sc with ⟨l, res, r⟩
    rw [hn] at h
    cases res with
    | none => exact ⟨h.1, hi⟩
    | some st' => exact ⟨h.1, h.2 st' rfl⟩

theorem frun_spec (cfg : FCfg) (ops : List FOp) : ∀ st, st.inv →
    AllConfined (frun cfg st ops).1 ∧ (frun cfg st ops).2.inv := by
  induction ops with
  | nil => intro st hi; exact ⟨allConfined_nil, hi⟩
  | cons op ops ih =>
    intro st hi
    have h := fstep_spec cfg st op hi
    rcases hs : fstep cfg st op with ⟨l, st', ok, r⟩
    rw [hs] at h
    have h' := ih st' h.2
    rcases hr : frun cfg st' ops with ⟨l', st''⟩
    rw [hr] at h'
    simp only [frun, hs, hr]
    exact ⟨allConfined_append.mpr ⟨h.1, h'.1⟩, h'.2⟩

end SV.Creds
