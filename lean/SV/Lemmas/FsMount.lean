import SV.Model.FsMount
import SV.Lemmas.LayerLife
import SV.Props.C12
/-
Helper lemmas for C12b (holder side of C12, `fs/fs.go` Mount / Check / Unmount, `mount` = the code since
fix 62b0917; the pre-fix `mountOld` only appears in counterexamples of SV/Props/C12b.lean): what every step does
to the closures of the layer cache (`s.ll.lc.core.toks`), to `fs.layer` and to the kernel mount table,
and the invariant of the states reachable by `SV.FsMount.run`.
-/
namespace SV.FsMount
open SV.LayerLife SV.Refcount

/-! ## A. token lists -/

theorem liveToks_append (A B : List Tok) : liveToks (A ++ B) = liveToks A + liveToks B := by
  simp [liveToks]

theorem isLive_append_lt (A B : List Tok) {j : Nat} (h : j < A.length) :
    isLive (A ++ B) j = isLive A j := by
  simp [isLive, List.getElem?_append_left h]

theorem isLive_ge (A : List Tok) {j : Nat} (h : A.length ≤ j) : isLive A j = false := by
  have : A[j]? = none := List.getElem?_eq_none_iff.mpr h
  simp [isLive, this]

theorem isLive_lt {A : List Tok} {j : Nat} (h : isLive A j = true) : j < A.length := by
  apply Classical.byContradiction
  intro hn
  rw [isLive_ge A (Nat.le_of_not_lt hn)] at h
  cases h

theorem isLive_of_dead (D : List Tok) (h : liveToks D = 0) (j : Nat) : isLive D j = false := by
  unfold isLive
  cases hj : D[j]? with
  | none => rfl
  | some t =>
    have hmem := List.mem_of_getElem? hj
    simp only [liveToks, List.countP_eq_zero] at h
    have := h t hmem
    simpa using this

theorem isLive_append_dead (A D : List Tok) (h : liveToks D = 0) (j : Nat) :
    isLive (A ++ D) j = isLive A j := by
  by_cases hj : j < A.length
  · exact isLive_append_lt A D hj
  · have hj' : A.length ≤ j := Nat.le_of_not_lt hj
    rw [isLive_ge A hj']
    unfold isLive
    rw [List.getElem?_append_right hj']
    exact isLive_of_dead D h _

theorem isLive_some {A : List Tok} {j : Nat} (h : isLive A j = true) :
    ∃ t, A[j]? = some t ∧ t.once = false := by
  unfold isLive at h
  cases hj : A[j]? with
  | none => rw [hj] at h; cases h
  | some t => rw [hj] at h; exact ⟨t, rfl, by simpa using h⟩

theorem liveToks_set_dead : ∀ (A : List Tok) (j : Nat) (t : Tok), A[j]? = some t →
    liveToks (A.set j { t with once := true }) + (if isLive A j then 1 else 0) = liveToks A := by
  intro A
  induction A with
  | nil => intro j t h; simp at h
  | cons a A ih =>
    intro j t h
    cases j with
    | zero =>
      simp at h; subst h
      cases ho : a.once <;> simp [liveToks, isLive, ho]
    | succ j =>
      simp at h
      have := ih j t h
      have e1 : liveToks ((a :: A).set (j + 1) { t with once := true }) =
          liveToks (A.set j { t with once := true }) + (if !a.once then 1 else 0) := by
        simp [liveToks, List.countP_cons]
      have e2 : liveToks (a :: A) = liveToks A + (if !a.once then 1 else 0) := by
        simp [liveToks, List.countP_cons]
      have e3 : isLive (a :: A) (j + 1) = isLive A j := by simp [isLive]
      rw [e1, e2, e3]; omega

theorem isLive_set_dead (A : List Tok) (j : Nat) (t : Tok) (k : Nat) :
    isLive (A.set j { t with once := true }) k = if k = j then false else isLive A k := by
  unfold isLive
  rw [List.getElem?_set]
  by_cases h : j = k
  · subst h
    by_cases hl : j < A.length <;> simp [hl]
  · have h' : ¬ k = j := fun e => h e.symm
    simp [h, h']

/-! ## B. association lists -/

theorem lookup_erase_self {α : Type} (k : Nat) (m : List (Nat × α)) : lookup k (erase k m) = none := by
  induction m with
  | nil => rfl
  | cons p m ih =>
    obtain ⟨k', v⟩ := p
    by_cases h : k' = k
    · simp [erase, h] at ih ⊢; exact ih
    · simp [erase, h, lookup] at ih ⊢; exact ih

theorem lookup_erase_ne {α : Type} {k k' : Nat} (h : k' ≠ k) (m : List (Nat × α)) :
    lookup k' (erase k m) = lookup k' m := by
  induction m with
  | nil => rfl
  | cons p m ih =>
    obtain ⟨k2, v⟩ := p
    by_cases h2 : k2 = k
    · subst h2
      have h3 : ¬ k2 = k' := fun e => h e.symm
      simp [erase, lookup, h3] at ih ⊢; exact ih
    · simp [erase, h2, lookup] at ih ⊢
      rw [ih]

theorem lookup_insert_self {α : Type} (k : Nat) (v : α) (m : List (Nat × α)) :
    lookup k (insert k v m) = some v := by
  simp [insert, lookup]

theorem lookup_insert_ne {α : Type} {k k' : Nat} (h : k' ≠ k) (v : α) (m : List (Nat × α)) :
    lookup k' (insert k v m) = lookup k' m := by
  have h' : ¬ k = k' := fun e => h e.symm
  simp [insert, lookup, h', lookup_erase_ne h]

theorem erase_of_lookup_none {α : Type} {k : Nat} : ∀ {m : List (Nat × α)}, lookup k m = none → erase k m = m := by
  intro m
  induction m with
  | nil => intro _; rfl
  | cons p m ih =>
    obtain ⟨k', v⟩ := p
    intro h
    by_cases h2 : k' = k
    · simp [lookup, h2] at h
    · simp only [lookup, h2, if_false] at h
      have := ih h
      simp only [erase] at this ⊢
      simp [h2, this]

theorem lookup_mem {α : Type} {k : Nat} {v : α} : ∀ {m : List (Nat × α)}, lookup k m = some v → (k, v) ∈ m := by
  intro m
  induction m with
  | nil => intro h; cases h
  | cons p m ih =>
    obtain ⟨k', v'⟩ := p
    intro h
    by_cases h2 : k' = k
    · simp [lookup, h2] at h; subst h2; subst h; exact List.mem_cons_self ..
    · simp only [lookup, h2, if_false] at h
      exact List.mem_cons_of_mem _ (ih h)

theorem erase_sublist {α : Type} (k : Nat) (m : List (Nat × α)) : (erase k m).Sublist m :=
  List.filter_sublist

theorem mem_erase {α : Type} {k : Nat} {m : List (Nat × α)} {p : Nat × α} (h : p ∈ erase k m) :
    p ∈ m ∧ p.1 ≠ k := by
  simp [erase] at h
  exact ⟨h.1, h.2⟩

/-! ## C. `Reaches`: the resolver state moved by a `LayerLife` history -/

def Reaches (a b : LayerLife.State) : Prop := ∃ lops : List LayerLife.Op, b = LayerLife.runFrom a lops

theorem Reaches.refl (a : LayerLife.State) : Reaches a a := ⟨[], rfl⟩

theorem Reaches.trans {a b c : LayerLife.State} (h1 : Reaches a b) (h2 : Reaches b c) : Reaches a c := by
  obtain ⟨l1, e1⟩ := h1
  obtain ⟨l2, e2⟩ := h2
  exact ⟨l1 ++ l2, by rw [e2, e1]; simp [LayerLife.runFrom, List.foldl_append]⟩

theorem Reaches.step (a : LayerLife.State) (op : LayerLife.Op) : Reaches a (LayerLife.step a op).1 :=
  ⟨[op], rfl⟩

theorem Reaches.inv {a b : LayerLife.State} (h : Reaches a b) (inv : Inv a none) : Inv b none := by
  obtain ⟨l, e⟩ := h
  rw [e]; exact Inv.runFrom l inv

/-! ## D. what the resolver's steps do to the closures of the layer cache -/

theorem resolveFresh_toks {s : LayerLife.State} (inv : Inv s none) {name : Nat} (hm : s.lc.m name = none)
    (o : Oracle) :
    (holderOf (resolveFresh s name o).2 = none ∧ (resolveFresh s name o).1.lc.core.toks = s.lc.core.toks) ∨
    (holderOf (resolveFresh s name o).2 = some (s.layers.length, s.lc.core.toks.length) ∧
      (resolveFresh s name o).1.lc.core.toks = s.lc.core.toks ++ [{ rc := s.layers.length }]) := by
  have sp := resolveFresh_spec inv hm o
  rcases sp.res with ⟨hr, _, _, hl⟩ | ⟨hr, _, _, hl⟩ | ⟨hr, _, hlc, _⟩
  · left; rw [hr, hl]; exact ⟨rfl, rfl⟩
  · left; rw [hr, hl]; exact ⟨rfl, rfl⟩
  · right; rw [hr, hlc, (addNew_facts _ hm).2.1, inv.l.link.len]; exact ⟨rfl, rfl⟩

/-- `Resolve` only appends closures: possibly one already released (the cached layer that failed its
check), then — on success — the caller's new, un-called one. -/
theorem resolve_toks {s : LayerLife.State} (inv : Inv s none) (name : Nat) (o : Oracle) :
    ∃ D, liveToks D = 0 ∧
      ((holderOf (resolve s name o).2 = none ∧ (resolve s name o).1.lc.core.toks = s.lc.core.toks ++ D) ∨
       (∃ lid, holderOf (resolve s name o).2 = some (lid, (s.lc.core.toks ++ D).length) ∧
          (resolve s name o).1.lc.core.toks = s.lc.core.toks ++ D ++ [{ rc := lid }])) := by
  cases hm : s.lc.m name with
  | none =>
    rw [resolve_miss o hm]
    refine ⟨[], rfl, ?_⟩
    rcases resolveFresh_toks inv hm o with ⟨h1, h2⟩ | ⟨h1, h2⟩
    · left; exact ⟨h1, by simpa using h2⟩
    · right; exact ⟨_, by simpa using h1, by simpa using h2⟩
  | some a =>
    rw [resolve_hit' inv o hm]
    cases hc : o.lchk with
    | true =>
      rw [if_pos rfl]
      refine ⟨[], rfl, Or.inr ⟨a, ?_, ?_⟩⟩
      · simp [holderOf]
      · simp [Core.newTok]
    | false =>
      simp only [Bool.false_eq_true, if_false]
      obtain ⟨inv3, hm3⟩ := afterBadCheck_inv inv hm
      have ht := afterBadCheck_toks s name a
      refine ⟨[{ rc := a, once := true }], by simp [liveToks], ?_⟩
      rcases resolveFresh_toks inv3 hm3 o with ⟨h1, h2⟩ | ⟨h1, h2⟩
      · left; exact ⟨h1, by rw [h2, ht]⟩
      · right; exact ⟨_, by rw [h1, ht], by rw [h2, ht]⟩

theorem step_done_toks (s : LayerLife.State) (tok : Nat) (e : Bool) {t : Tok}
    (ht : s.lc.core.toks[tok]? = some t) :
    (LayerLife.step s (.done tok e)).1.lc.core.toks = s.lc.core.toks.set tok { t with once := true } := by
  simp only [LayerLife.step, ht]
  exact lcDone_toks e ht

theorem step_done_none (s : LayerLife.State) (tok : Nat) (e : Bool) (ht : s.lc.core.toks[tok]? = none) :
    (LayerLife.step s (.done tok e)).1 = s := by
  simp only [LayerLife.step, ht]

/-- `Done()` / `Close()` of a holder releases that holder's reference and nothing else. -/
theorem done_toks_cases (s : LayerLife.State) (tok : Nat) (e : Bool) :
    (LayerLife.step s (.done tok e)).1.lc.core.toks.length = s.lc.core.toks.length ∧
    isLive (LayerLife.step s (.done tok e)).1.lc.core.toks tok = false ∧
    (∀ t, t ≠ tok → isLive (LayerLife.step s (.done tok e)).1.lc.core.toks t = isLive s.lc.core.toks t) ∧
    liveToks (LayerLife.step s (.done tok e)).1.lc.core.toks + (if isLive s.lc.core.toks tok then 1 else 0) =
      liveToks s.lc.core.toks := by
  cases ht : s.lc.core.toks[tok]? with
  | none =>
    rw [step_done_none s tok e ht]
    have : isLive s.lc.core.toks tok = false := by simp [isLive, ht]
    exact ⟨rfl, this, fun _ _ => rfl, by simp [this]⟩
  | some t =>
    rw [step_done_toks s tok e ht]
    refine ⟨by simp, ?_, ?_, liveToks_set_dead _ _ _ ht⟩
    · rw [isLive_set_dead]; simp
    · intro t' h; rw [isLive_set_dead]; simp [h]

theorem set_mid (A X : List Tok) (t t' : Tok) : (A ++ [t] ++ X).set A.length t' = A ++ [t'] ++ X := by
  simp

theorem getElem?_mid (A X : List Tok) (t : Tok) : (A ++ [t] ++ X)[A.length]? = some t := by
  simp

theorem preResolve_cons_none {s : LayerLife.State} {n : Nat} {o : Oracle} (rest : List (Nat × Oracle))
    (h : holderOf (resolve s n o).2 = none) :
    preResolve s ((n, o) :: rest) = preResolve (resolve s n o).1 rest := by
  simp only [preResolve, LayerLife.step, h]

theorem preResolve_cons_some {s : LayerLife.State} {n : Nat} {o : Oracle} (rest : List (Nat × Oracle))
    {lid tok : Nat} (h : holderOf (resolve s n o).2 = some (lid, tok)) :
    preResolve s ((n, o) :: rest) =
      preResolve (LayerLife.step (resolve s n o).1 (.done tok false)).1 rest := by
  rw [preResolve]
  simp only [show LayerLife.step s (.resolve n o) = resolve s n o from rfl, h]

/-- The pre-resolution of the neighbouring layers leaves no reference behind. -/
theorem preResolve_spec : ∀ (ns : List (Nat × Oracle)) (s : LayerLife.State), Inv s none →
    ∃ D, liveToks D = 0 ∧ (preResolve s ns).lc.core.toks = s.lc.core.toks ++ D ∧
      Reaches s (preResolve s ns) := by
  intro ns
  induction ns with
  | nil => intro s _; exact ⟨[], rfl, by simp [preResolve], Reaches.refl s⟩
  | cons p rest ih =>
    obtain ⟨n, o⟩ := p
    intro s inv
    have hr : Reaches s (resolve s n o).1 := Reaches.step s (.resolve n o)
    have inv1 := inv.resolve n o
    obtain ⟨D, hD, h⟩ := resolve_toks inv n o
    rcases h with ⟨h1, h2⟩ | ⟨lid, h1, h2⟩
    · obtain ⟨D2, hD2, h3, h4⟩ := ih _ inv1
      rw [preResolve_cons_none rest h1]
      exact ⟨D ++ D2, by rw [liveToks_append, hD, hD2], by rw [h3, h2, List.append_assoc], hr.trans h4⟩
    · rw [preResolve_cons_some rest h1]
      have ht : (resolve s n o).1.lc.core.toks[(s.lc.core.toks ++ D).length]? = some { rc := lid } := by
        rw [h2]; simp
      have h3 := step_done_toks (resolve s n o).1 (s.lc.core.toks ++ D).length false ht
      have inv2 := inv1.step (.done (s.lc.core.toks ++ D).length false)
      have hr2 := hr.trans (Reaches.step (resolve s n o).1 (.done (s.lc.core.toks ++ D).length false))
      obtain ⟨D2, hD2, h4, h5⟩ := ih _ inv2
      refine ⟨D ++ [{ rc := lid, once := true }] ++ D2, ?_, ?_, hr2.trans h5⟩
      · rw [liveToks_append, liveToks_append, hD, hD2]; simp [liveToks]
      · rw [h4, h3, h2]
        have := set_mid (s.lc.core.toks ++ D) [] { rc := lid } { rc := lid, once := true }
        simp only [List.append_nil] at this
        rw [this]; simp [List.append_assoc]

/-! ## E. verification step -/

theorem vstOf_setV (s : State) (lid : Nat) (v : VState) : vstOf (setV s lid v) lid = v := by
  simp [vstOf, setV, lookup_insert_self]

theorem skipVerify_facts (s : State) (lid : Nat) :
    (skipVerify s lid).ll = s.ll ∧ (skipVerify s lid).layer = s.layer ∧
    (skipVerify s lid).kmounts = s.kmounts ∧ vstOf (skipVerify s lid) lid ≠ .unset := by
  unfold skipVerify
  cases h : vstOf s lid with
  | unset => refine ⟨rfl, rfl, rfl, ?_⟩; rw [vstOf_setV]; simp
  | verified => exact ⟨rfl, rfl, rfl, by rw [h]; simp⟩
  | skipped => exact ⟨rfl, rfl, rfl, by rw [h]; simp⟩

theorem verify_some {s s2 : State} {lid : Nat} {d : Bool} (h : verify s lid d = some s2) :
    s2 = setV s lid .verified := by
  unfold verify at h
  split at h
  · cases h
  · split at h
    · cases h
    · split at h
      · exact (Option.some.inj h).symm
      · cases h

theorem setV_facts (s : State) (lid : Nat) (v : VState) (hv : v ≠ .unset) :
    (setV s lid v).ll = s.ll ∧ (setV s lid v).layer = s.layer ∧
    (setV s lid v).kmounts = s.kmounts ∧ vstOf (setV s lid v) lid ≠ .unset :=
  ⟨rfl, rfl, rfl, by rw [vstOf_setV]; exact hv⟩

/-- A verify / skip-verify step that succeeds touches only the per-layer verification state and
leaves the layer with a reader. -/
theorem verifyStep_some {s s2 : State} {lid : Nat} {i : MountIn} (h : verifyStep s lid i = some s2) :
    s2.ll = s.ll ∧ s2.layer = s.layer ∧ s2.kmounts = s.kmounts ∧ vstOf s2 lid ≠ .unset := by
  unfold verifyStep at h
  split at h
  · rw [← Option.some.inj h]; exact skipVerify_facts s lid
  · split at h
    · cases h
    · rw [verify_some h]; exact setV_facts s lid _ (by simp)
    · rw [verify_some h]; exact setV_facts s lid _ (by simp)
    · split at h
      · rw [← Option.some.inj h]; exact skipVerify_facts s lid
      · cases h

/-! ## F. Mount -/

structure MInv (s : State) : Prop where
  ll : Inv s.ll none
  keys : (s.layer.map (·.1)).Nodup
  toks : (s.layer.map (·.2)).Nodup
  lt : ∀ p ∈ s.layer, p.2 < s.ll.lc.core.toks.length

theorem MInv.init : MInv {} :=
  ⟨Inv.init, by show ([] : List Nat).Nodup; exact List.nodup_nil,
    by show ([] : List Nat).Nodup; exact List.nodup_nil, by intro p h; cases h⟩

theorem erase_insert {α : Type} (k : Nat) (v : α) (m : List (Nat × α)) :
    erase k (insert k v m) = erase k m := by
  simp [erase, insert, List.filter_filter]

/-- The deferred failure branch when `fs.layer[mp]` is not this Mount's holder: only `Done()`. -/
theorem failMount_other {s : State} {mp tok : Nat} (r : Res) (h : lookup mp s.layer ≠ some tok) :
    failMount s mp tok r = ({ s with ll := (LayerLife.step s.ll (.done tok false)).1 }, r) := by
  simp only [failMount, if_neg h]

/-- The deferred failure branch when `fs.layer[mp]` is this Mount's holder: delete, then `Done()`. -/
theorem failMount_own {s : State} {mp tok : Nat} (r : Res) (h : lookup mp s.layer = some tok) :
    failMount s mp tok r =
      ({ s with layer := erase mp s.layer, ll := (LayerLife.step s.ll (.done tok false)).1 }, r) := by
  simp only [failMount, if_pos h]

theorem mountWith_none (fail : State → Nat → Nat → Res → State × Res) {s : State} {mp : Nat} {i : MountIn}
    (h : holderOf (resolve s.ll i.name i.o).2 = none) :
    mountWith fail s mp i =
      ({ s with ll := preResolve (resolve s.ll i.name i.o).1 (neighbours i) }, .errResolve) := by
  simp only [mountWith, LayerLife.step, h]

theorem mountWith_verify_none (fail : State → Nat → Nat → Res → State × Res) {s : State} {mp : Nat}
    {i : MountIn} {lid tok : Nat}
    (h : holderOf (resolve s.ll i.name i.o).2 = some (lid, tok))
    (hv : verifyStep { s with ll := preResolve (resolve s.ll i.name i.o).1 (neighbours i) } lid i = none) :
    mountWith fail s mp i =
      fail { s with ll := preResolve (resolve s.ll i.name i.o).1 (neighbours i) } mp tok .errVerify := by
  simp only [mountWith, LayerLife.step, h, hv]

theorem mountWith_root (fail : State → Nat → Nat → Res → State × Res) {s s2 : State} {mp : Nat}
    {i : MountIn} {lid tok : Nat}
    (h : holderOf (resolve s.ll i.name i.o).2 = some (lid, tok))
    (hv : verifyStep { s with ll := preResolve (resolve s.ll i.name i.o).1 (neighbours i) } lid i = some s2)
    (hr : rootNodeFails s2 lid = false) :
    mountWith fail s mp i =
      if i.fuse then
        ({ s2 with layer := insert mp tok s2.layer, kmounts := mp :: s2.kmounts }, .ok)
      else fail { s2 with layer := insert mp tok s2.layer } mp tok .errFuse := by
  simp only [mountWith, LayerLife.step, h, hv, hr, Bool.false_eq_true, if_false]

/-- What one `Mount` (as it is since fix 62b0917) does from a state satisfying the invariant: the
closures of the layer cache are only appended to (`Y`); on success exactly one of the new ones is
un-called and `fs.layer[mp]` holds it; on every failure none is, and `fs.layer` is unchanged except
that a failing FUSE step deletes the entry of `mp` (its own, which overwrote any earlier one). The
`RootNode` failure does not occur. -/
theorem mount_spec (s : State) (mp : Nat) (i : MountIn) (hM : MInv s) :
    ∃ Y, (mount s mp i).1.ll.lc.core.toks = s.ll.lc.core.toks ++ Y ∧ Reaches s.ll (mount s mp i).1.ll ∧
      (((mount s mp i).2 = .ok ∧ i.fuse = true ∧ liveToks Y = 1 ∧
          ∃ tok, s.ll.lc.core.toks.length ≤ tok ∧ isLive (mount s mp i).1.ll.lc.core.toks tok = true ∧
            (mount s mp i).1.layer = insert mp tok s.layer ∧ (mount s mp i).1.kmounts = mp :: s.kmounts) ∨
       ((mount s mp i).2 = .errFuse ∧ i.fuse = false ∧ liveToks Y = 0 ∧
            (mount s mp i).1.layer = erase mp s.layer ∧ (mount s mp i).1.kmounts = s.kmounts) ∨
       (((mount s mp i).2 = .errResolve ∨ (mount s mp i).2 = .errVerify) ∧ liveToks Y = 0 ∧
          (mount s mp i).1.layer = s.layer ∧ (mount s mp i).1.kmounts = s.kmounts)) := by
  have inv := hM.ll
  have hr0 : Reaches s.ll (resolve s.ll i.name i.o).1 := Reaches.step s.ll (.resolve i.name i.o)
  have inv1 := inv.resolve i.name i.o
  obtain ⟨D, hD, h⟩ := resolve_toks inv i.name i.o
  obtain ⟨X, hX, hP, hrP⟩ := preResolve_spec (neighbours i) _ inv1
  have invP := hrP.inv inv1
  unfold mount
  rcases h with ⟨h1, h2⟩ | ⟨lid, h1, h2⟩
  · rw [mountWith_none failMount h1]
    refine ⟨D ++ X, ?_, hr0.trans hrP, Or.inr (Or.inr ⟨Or.inl rfl, ?_, rfl, rfl⟩)⟩
    · show (preResolve _ _).lc.core.toks = _
      rw [hP, h2, List.append_assoc]
    · rw [liveToks_append, hD, hX]
  · -- the target resolved: its closure sits at index `(T ++ D).length`
    have hPt : (preResolve (resolve s.ll i.name i.o).1 (neighbours i)).lc.core.toks =
        (s.ll.lc.core.toks ++ D) ++ [{ rc := lid }] ++ X := by rw [hP, h2]
    have hget : (preResolve (resolve s.ll i.name i.o).1 (neighbours i)).lc.core.toks[(s.ll.lc.core.toks ++ D).length]?
        = some { rc := lid } := by rw [hPt]; exact getElem?_mid _ _ _
    have hge : s.ll.lc.core.toks.length ≤ (s.ll.lc.core.toks ++ D).length := by simp
    -- the closure is brand-new: no entry of `fs.layer` holds it
    have hfresh : lookup mp s.layer ≠ some (s.ll.lc.core.toks ++ D).length := by
      intro hh
      have : (s.ll.lc.core.toks ++ D).length < s.ll.lc.core.toks.length := hM.lt _ (lookup_mem hh)
      omega
    -- the deferred `Done()` on a failure
    have hdone := step_done_toks _ (s.ll.lc.core.toks ++ D).length false hget
    rw [hPt, set_mid] at hdone
    have hrD := (hr0.trans hrP).trans
      (Reaches.step (preResolve (resolve s.ll i.name i.o).1 (neighbours i))
        (.done (s.ll.lc.core.toks ++ D).length false))
    have hdead : liveToks (D ++ [({ rc := lid, once := true } : Tok)] ++ X) = 0 := by
      rw [liveToks_append, liveToks_append, hD, hX]; simp [liveToks]
    have hdone' : (LayerLife.step (preResolve (resolve s.ll i.name i.o).1 (neighbours i))
        (.done (s.ll.lc.core.toks ++ D).length false)).1.lc.core.toks =
        s.ll.lc.core.toks ++ (D ++ [({ rc := lid, once := true } : Tok)] ++ X) := by
      rw [hdone]; simp [List.append_assoc]
    cases hv : verifyStep { s with ll := preResolve (resolve s.ll i.name i.o).1 (neighbours i) } lid i with
    | none =>
      rw [mountWith_verify_none failMount h1 hv, failMount_other _ (by exact hfresh)]
      exact ⟨_, hdone', hrD, Or.inr (Or.inr ⟨Or.inr rfl, hdead, rfl, rfl⟩)⟩
    | some s2 =>
      obtain ⟨e1, e2, e3, e4⟩ := verifyStep_some hv
      have e1' : s2.ll = preResolve (resolve s.ll i.name i.o).1 (neighbours i) := e1
      have e2' : s2.layer = s.layer := e2
      have e3' : s2.kmounts = s.kmounts := e3
      obtain ⟨l, r, hl, _, _, hc⟩ := held_open invP.l.reach invP.l.link hget rfl
      have hl' : (preResolve (resolve s.ll i.name i.o).1 (neighbours i)).layers[lid]? = some l := hl
      have hbeq : (vstOf s2 lid == VState.unset) = false := by
        cases hv2 : vstOf s2 lid with
        | unset => exact absurd hv2 e4
        | verified => rfl
        | skipped => rfl
      have hroot : rootNodeFails s2 lid = false := by
        simp [rootNodeFails, layerClosed, e1', hl', hc, hbeq]
      rw [mountWith_root failMount h1 hv hroot]
      cases hf : i.fuse with
      | true =>
        rw [if_pos rfl]
        refine ⟨D ++ [({ rc := lid } : Tok)] ++ X, ?_, ?_, Or.inl ⟨rfl, rfl, ?_, _, hge, ?_, ?_, ?_⟩⟩
        · show s2.ll.lc.core.toks = _
          rw [e1', hPt]; simp [List.append_assoc]
        · show Reaches s.ll s2.ll
          rw [e1']; exact hr0.trans hrP
        · rw [liveToks_append, liveToks_append, hD, hX]; simp [liveToks]
        · show isLive s2.ll.lc.core.toks _ = true
          rw [e1']; unfold isLive; rw [hget]; rfl
        · show insert mp _ s2.layer = _
          rw [e2']
        · show mp :: s2.kmounts = _
          rw [e3']
      | false =>
        rw [if_neg Bool.false_ne_true,
          failMount_own _ (show lookup mp ({ s2 with layer := insert mp (s.ll.lc.core.toks ++ D).length s2.layer } : State).layer
            = some (s.ll.lc.core.toks ++ D).length from lookup_insert_self _ _ _)]
        refine ⟨_, ?_, ?_, Or.inr (Or.inl ⟨rfl, rfl, hdead, ?_, ?_⟩)⟩
        · show (LayerLife.step s2.ll _).1.lc.core.toks = _
          rw [e1']; exact hdone'
        · show Reaches s.ll (LayerLife.step s2.ll _).1
          rw [e1']; exact hrD
        · show erase mp (insert mp _ s2.layer) = _
          rw [erase_insert, e2']
        · show s2.kmounts = _
          exact e3'

/-! ## G. Unmount -/

theorem unmount_spec (s : State) (mp tok : Nat) (hm : lookup mp s.layer = some tok) :
    (unmount s mp).1.layer = erase mp s.layer ∧
    (unmount s mp).1.ll = (LayerLife.step s.ll (.done tok true)).1 ∧
    (((unmount s mp).2 = .ok ∧ (unmount s mp).1.kmounts = s.kmounts.erase mp) ∨
     ((unmount s mp).2 = .errUmount ∧ (unmount s mp).1.kmounts = s.kmounts)) := by
  simp only [unmount, hm]
  split
  · exact ⟨rfl, rfl, Or.inl ⟨rfl, rfl⟩⟩
  · exact ⟨rfl, rfl, Or.inr ⟨rfl, rfl⟩⟩

theorem unmount_none (s : State) (mp : Nat) (hm : lookup mp s.layer = none) :
    unmount s mp = (s, .errNotMounted) := by
  simp only [unmount, hm]

/-! ## H. the invariant of the reachable holder-side states -/

/-- Entries of an association list whose closure is un-called in `T`. -/
def liveIn (T : List Tok) (l : List (Nat × Nat)) : Nat := l.countP (fun p => isLive T p.2)

theorem liveEntries_eq (s : State) : liveEntries s = liveIn s.ll.lc.core.toks s.layer := rfl

theorem liveIn_congr {T T' : List Tok} {l : List (Nat × Nat)}
    (h : ∀ p ∈ l, isLive T' p.2 = isLive T p.2) : liveIn T' l = liveIn T l := by
  unfold liveIn
  apply List.countP_congr
  intro p hp
  rw [h p hp]

theorem liveIn_erase_le (T : List Tok) (k : Nat) (l : List (Nat × Nat)) :
    liveIn T (erase k l) ≤ liveIn T l := by
  unfold liveIn
  exact List.Sublist.countP_le (erase_sublist k l)

theorem lookup_none_of_not_mem {α : Type} {k : Nat} : ∀ {l : List (Nat × α)}, k ∉ l.map (·.1) →
    lookup k l = none := by
  intro l
  induction l with
  | nil => intro _; rfl
  | cons p m ih =>
    obtain ⟨k', v⟩ := p
    intro h
    simp only [List.map_cons, List.mem_cons, not_or] at h
    have h1 : ¬ k' = k := fun e => h.1 e.symm
    simp only [lookup, h1, if_false]
    exact ih h.2

theorem liveIn_erase_lookup (T : List Tok) {k v : Nat} : ∀ {l : List (Nat × Nat)}, (l.map (·.1)).Nodup →
    lookup k l = some v → liveIn T l = liveIn T (erase k l) + (if isLive T v then 1 else 0) := by
  intro l
  induction l with
  | nil => intro _ h; cases h
  | cons p m ih =>
    obtain ⟨k', v'⟩ := p
    intro hn h
    rw [List.map_cons, List.nodup_cons] at hn
    by_cases h2 : k' = k
    · have hv : v' = v := by simpa [lookup, h2] using h
      have hnone : lookup k m = none := lookup_none_of_not_mem (by rw [← h2]; exact hn.1)
      have he : erase k ((k', v') :: m) = m := by
        have := erase_of_lookup_none hnone
        simp only [erase] at this ⊢
        simp [h2, this]
      rw [he, hv]
      simp [liveIn, List.countP_cons]
    · have h' : lookup k m = some v := by simpa [lookup, h2] using h
      have he : erase k ((k', v') :: m) = (k', v') :: erase k m := by
        simp [erase, h2]
      rw [he]
      have := ih hn.2 h'
      simp only [liveIn, List.countP_cons] at this ⊢
      omega

theorem eq_of_nodup_snd : ∀ {l : List (Nat × Nat)}, (l.map (·.2)).Nodup →
    ∀ {p q : Nat × Nat}, p ∈ l → q ∈ l → p.2 = q.2 → p = q := by
  intro l
  induction l with
  | nil => intro _ p q hp; cases hp
  | cons a m ih =>
    intro hn p q hp hq e
    rw [List.map_cons, List.nodup_cons] at hn
    rcases List.mem_cons.1 hp with hpa | hp'
    · rcases List.mem_cons.1 hq with hqa | hq'
      · rw [hpa, hqa]
      · exact absurd (List.mem_map.2 ⟨q, hq', by rw [← e, hpa]⟩) hn.1
    · rcases List.mem_cons.1 hq with hqa | hq'
      · exact absurd (List.mem_map.2 ⟨p, hp', by rw [e, hqa]⟩) hn.1
      · exact ih hn.2 hp' hq' e

theorem insert_facts {s : State} (h : MInv s) (mp tok : Nat) (T' Y : List Tok)
    (hT : T' = s.ll.lc.core.toks ++ Y) (hge : s.ll.lc.core.toks.length ≤ tok) (hlt : tok < T'.length) :
    ((insert mp tok s.layer).map (·.1)).Nodup ∧ ((insert mp tok s.layer).map (·.2)).Nodup ∧
    (∀ p ∈ insert mp tok s.layer, p.2 < T'.length) ∧
    liveIn T' (insert mp tok s.layer) =
      liveIn s.ll.lc.core.toks (erase mp s.layer) + (if isLive T' tok then 1 else 0) ∧
    (∀ p ∈ erase mp s.layer, isLive T' p.2 = isLive s.ll.lc.core.toks p.2) := by
  have hsub := erase_sublist mp s.layer
  have hold : ∀ p ∈ erase mp s.layer, p.2 < s.ll.lc.core.toks.length :=
    fun p hp => h.lt p (mem_erase hp).1
  have hlen : s.ll.lc.core.toks.length ≤ T'.length := by rw [hT]; simp
  have hcong : ∀ p ∈ erase mp s.layer, isLive T' p.2 = isLive s.ll.lc.core.toks p.2 := by
    intro p hp; rw [hT]; exact isLive_append_lt _ _ (hold p hp)
  refine ⟨?_, ?_, ?_, ?_, hcong⟩
  · show (mp :: (erase mp s.layer).map (·.1)).Nodup
    rw [List.nodup_cons]
    refine ⟨?_, List.Nodup.sublist (hsub.map _) h.keys⟩
    intro hmem
    obtain ⟨p, hp, e⟩ := List.mem_map.1 hmem
    exact (mem_erase hp).2 e
  · show (tok :: (erase mp s.layer).map (·.2)).Nodup
    rw [List.nodup_cons]
    refine ⟨?_, List.Nodup.sublist (hsub.map _) h.toks⟩
    intro hmem
    obtain ⟨p, hp, e⟩ := List.mem_map.1 hmem
    have := hold p hp
    have e' : p.2 = tok := e
    omega
  · intro p hp
    rcases List.mem_cons.1 hp with hpa | hp'
    · rw [hpa]; exact hlt
    · have := hold p hp'; omega
  · show liveIn T' ((mp, tok) :: erase mp s.layer) = _
    rw [← liveIn_congr hcong]
    simp [liveIn, List.countP_cons]

/-- Every entry of `fs.layer` holds an un-called closure. -/
def AllLive (s : State) : Prop := ∀ p ∈ s.layer, isLive s.ll.lc.core.toks p.2 = true

theorem mount_facts {s : State} (h : MInv s) (mp : Nat) (i : MountIn) :
    MInv (mount s mp i).1 ∧
    liveToks s.ll.lc.core.toks + liveEntries (mount s mp i).1 ≤
      liveToks (mount s mp i).1.ll.lc.core.toks + liveEntries s ∧
    (lookup mp s.layer = none →
      liveToks s.ll.lc.core.toks + liveEntries (mount s mp i).1 =
        liveToks (mount s mp i).1.ll.lc.core.toks + liveEntries s) ∧
    (AllLive s → AllLive (mount s mp i).1) := by
  obtain ⟨Y, hT, hR, hc⟩ := mount_spec s mp i h
  have hinv' := hR.inv h.ll
  generalize mount s mp i = m at *
  have hle := liveIn_erase_le s.ll.lc.core.toks mp s.layer
  rcases hc with ⟨_, hfu, hY, tok, hge, hlive, hL, _⟩ | ⟨_, hfu, hY, hL, _⟩ | ⟨_, hY, hL, _⟩
  · obtain ⟨f1, f2, f3, f4, f5⟩ := insert_facts h mp tok m.1.ll.lc.core.toks Y hT hge (isLive_lt hlive)
    have hEnt : liveEntries m.1 = liveIn s.ll.lc.core.toks (erase mp s.layer) + 1 := by
      rw [liveEntries_eq, hL, f4, hlive]; simp
    have hTok : liveToks m.1.ll.lc.core.toks = liveToks s.ll.lc.core.toks + 1 := by
      rw [hT, liveToks_append, hY]
    refine ⟨⟨hinv', by rw [hL]; exact f1, by rw [hL]; exact f2, by rw [hL]; exact f3⟩, ?_, ?_, ?_⟩
    · rw [hEnt, hTok, liveEntries_eq s]; omega
    · intro hnone
      rw [erase_of_lookup_none hnone] at hEnt
      rw [hEnt, hTok, liveEntries_eq s]; omega
    · intro hall p hp
      rw [hL] at hp
      rcases List.mem_cons.1 hp with hpa | hp'
      · rw [hpa]; exact hlive
      · rw [f5 p hp']; exact hall p (mem_erase hp').1
  · have hiso : ∀ j, isLive m.1.ll.lc.core.toks j = isLive s.ll.lc.core.toks j :=
      fun j => by rw [hT]; exact isLive_append_dead _ _ hY j
    have hEnt : liveEntries m.1 = liveIn s.ll.lc.core.toks (erase mp s.layer) := by
      rw [liveEntries_eq, hL]; exact liveIn_congr (fun p _ => hiso p.2)
    have hTok : liveToks m.1.ll.lc.core.toks = liveToks s.ll.lc.core.toks := by
      rw [hT, liveToks_append, hY]; rfl
    refine ⟨⟨hinv', ?_, ?_, ?_⟩, ?_, ?_, ?_⟩
    · rw [hL]; exact List.Nodup.sublist ((erase_sublist mp s.layer).map _) h.keys
    · rw [hL]; exact List.Nodup.sublist ((erase_sublist mp s.layer).map _) h.toks
    · intro p hp; rw [hL] at hp
      have := h.lt p (mem_erase hp).1
      rw [hT, List.length_append]; omega
    · rw [hEnt, hTok, liveEntries_eq s]; omega
    · intro hnone
      rw [erase_of_lookup_none hnone] at hEnt
      rw [hEnt, hTok, liveEntries_eq s]
    · intro hall p hp
      rw [hL] at hp; rw [hiso]; exact hall p (mem_erase hp).1
  · have hiso : ∀ j, isLive m.1.ll.lc.core.toks j = isLive s.ll.lc.core.toks j :=
      fun j => by rw [hT]; exact isLive_append_dead _ _ hY j
    have hEnt : liveEntries m.1 = liveEntries s := by
      rw [liveEntries_eq, liveEntries_eq, hL]; exact liveIn_congr (fun p _ => hiso p.2)
    have hTok : liveToks m.1.ll.lc.core.toks = liveToks s.ll.lc.core.toks := by
      rw [hT, liveToks_append, hY]; rfl
    refine ⟨⟨hinv', by rw [hL]; exact h.keys, by rw [hL]; exact h.toks, ?_⟩, ?_, ?_, ?_⟩
    · intro p hp; rw [hL] at hp
      have := h.lt p hp
      rw [hT, List.length_append]; omega
    · rw [hEnt, hTok]; omega
    · intro _; rw [hEnt, hTok]
    · intro hall p hp
      rw [hL] at hp; rw [hiso]; exact hall p hp

theorem unmount_facts {s : State} (h : MInv s) (mp : Nat) :
    MInv (unmount s mp).1 ∧
    liveToks s.ll.lc.core.toks + liveEntries (unmount s mp).1 =
      liveToks (unmount s mp).1.ll.lc.core.toks + liveEntries s ∧
    (AllLive s → AllLive (unmount s mp).1) := by
  cases hm : lookup mp s.layer with
  | none => rw [unmount_none s mp hm]; exact ⟨h, rfl, fun a => a⟩
  | some tok =>
    obtain ⟨hL, hll, _⟩ := unmount_spec s mp tok hm
    obtain ⟨d1, d2, d3, d4⟩ := done_toks_cases s.ll tok true
    rw [← hll] at d1 d2 d3 d4
    have hinv' : Inv (unmount s mp).1.ll none := by rw [hll]; exact h.ll.step _
    generalize unmount s mp = u at *
    have hmem := lookup_mem hm
    have hne : ∀ p ∈ erase mp s.layer, p.2 ≠ tok := by
      intro p hp e
      have := eq_of_nodup_snd h.toks (mem_erase hp).1 hmem e
      exact (mem_erase hp).2 (by rw [this])
    have hcong : ∀ p ∈ erase mp s.layer,
        isLive u.1.ll.lc.core.toks p.2 = isLive s.ll.lc.core.toks p.2 :=
      fun p hp => d3 p.2 (hne p hp)
    have hsplit := liveIn_erase_lookup s.ll.lc.core.toks h.keys hm
    refine ⟨⟨hinv', ?_, ?_, ?_⟩, ?_, ?_⟩
    · rw [hL]; exact List.Nodup.sublist ((erase_sublist mp s.layer).map _) h.keys
    · rw [hL]; exact List.Nodup.sublist ((erase_sublist mp s.layer).map _) h.toks
    · intro p hp; rw [hL] at hp; rw [d1]; exact h.lt p (mem_erase hp).1
    · rw [liveEntries_eq, liveEntries_eq, hL, liveIn_congr hcong, hsplit]; omega
    · intro hall p hp; rw [hL] at hp; rw [hcong p hp]; exact hall p (mem_erase hp).1

theorem same_toks_facts {s s' : State} (h : MInv s) (hinv : Inv s'.ll none) (hL : s'.layer = s.layer)
    (hT : s'.ll.lc.core.toks = s.ll.lc.core.toks) :
    MInv s' ∧ liveToks s.ll.lc.core.toks + liveEntries s' = liveToks s'.ll.lc.core.toks + liveEntries s ∧
    (AllLive s → AllLive s') := by
  have hEnt : liveEntries s' = liveEntries s := by
    rw [liveEntries_eq, liveEntries_eq, hL, hT]
  refine ⟨⟨hinv, by rw [hL]; exact h.keys, by rw [hL]; exact h.toks, ?_⟩, by rw [hEnt, hT], ?_⟩
  · intro p hp; rw [hL] at hp; rw [hT]; exact h.lt p hp
  · intro hall p hp; rw [hL] at hp; rw [hT]; exact hall p hp

theorem noRemount_cons (s : State) (op : Op) (rest : List Op) :
    noRemount s (op :: rest) = (noRemount s [op] && noRemount (step s op).1 rest) := by
  simp [noRemount]

theorem step_facts {s : State} (h : MInv s) (op : Op) :
    MInv (step s op).1 ∧
    liveToks s.ll.lc.core.toks + liveEntries (step s op).1 ≤
      liveToks (step s op).1.ll.lc.core.toks + liveEntries s ∧
    (noRemount s [op] = true →
      liveToks s.ll.lc.core.toks + liveEntries (step s op).1 =
        liveToks (step s op).1.ll.lc.core.toks + liveEntries s) ∧
    (AllLive s → AllLive (step s op).1) := by
  cases op with
  | mount mp i =>
    obtain ⟨a, b, c, d⟩ := mount_facts h mp i
    refine ⟨a, b, ?_, d⟩
    intro hnr
    exact c (by simpa [noRemount] using hnr)
  | mountNoSrc mp => exact ⟨h, Nat.le_refl _, fun _ => rfl, fun a => a⟩
  | check mp p r => exact ⟨h, Nat.le_refl _, fun _ => rfl, fun a => a⟩
  | unmount mp =>
    obtain ⟨a, b, c⟩ := unmount_facts h mp
    exact ⟨a, Nat.le_of_eq b, fun _ => b, c⟩
  | unmountEmpty => exact ⟨h, Nat.le_refl _, fun _ => rfl, fun a => a⟩
  | expireL n =>
    obtain ⟨a, b, c⟩ := same_toks_facts (s' := (step s (.expireL n)).1) h (h.ll.step (.expireL n)) rfl
      (by show (lcEvict s.ll n).lc.core.toks = _; rw [lcEvict_lc, TTL.evictLocked_toks'])
    exact ⟨a, Nat.le_of_eq b, fun _ => b, c⟩
  | expireB n =>
    obtain ⟨a, b, c⟩ := same_toks_facts (s' := (step s (.expireB n)).1) h (h.ll.step (.expireB n)) rfl
      (by show (bcEvict s.ll n).lc.core.toks = _; rw [bcEvict_lc])
    exact ⟨a, Nat.le_of_eq b, fun _ => b, c⟩

theorem step_reaches (s : State) (op : Op) (h : MInv s) : Reaches s.ll (step s op).1.ll := by
  cases op with
  | mount mp i => obtain ⟨_, _, hR, _⟩ := mount_spec s mp i h; exact hR
  | mountNoSrc mp => exact Reaches.refl _
  | check mp p r => exact Reaches.refl _
  | unmount mp =>
    cases hm : lookup mp s.layer with
    | none => show Reaches s.ll (unmount s mp).1.ll; rw [unmount_none s mp hm]; exact Reaches.refl _
    | some tok =>
      show Reaches s.ll (unmount s mp).1.ll
      rw [(unmount_spec s mp tok hm).2.1]; exact Reaches.step _ _
  | unmountEmpty => exact Reaches.refl _
  | expireL n => exact Reaches.step s.ll (.expireL n)
  | expireB n => exact Reaches.step s.ll (.expireB n)

/-! ## I. histories -/

theorem MInv.runFrom : ∀ (ops : List Op) {s : State}, MInv s → MInv (runFrom s ops) := by
  intro ops
  induction ops with
  | nil => intro s h; exact h
  | cons o ops ih => intro s h; exact ih (step_facts h o).1

theorem MInv.run (ops : List Op) : MInv (run ops) := MInv.runFrom ops MInv.init

theorem reaches_runFrom : ∀ (ops : List Op) {s : State}, MInv s → Reaches s.ll (runFrom s ops).ll := by
  intro ops
  induction ops with
  | nil => intro s _; exact Reaches.refl _
  | cons o ops ih =>
    intro s h
    exact (step_reaches s o h).trans (ih (step_facts h o).1)

theorem gap_runFrom : ∀ (ops : List Op) {s : State}, MInv s →
    liveEntries s ≤ liveToks s.ll.lc.core.toks →
    liveEntries (runFrom s ops) ≤ liveToks (runFrom s ops).ll.lc.core.toks := by
  intro ops
  induction ops with
  | nil => intro s _ h; exact h
  | cons o ops ih =>
    intro s h hle
    obtain ⟨a, b, _, _⟩ := step_facts h o
    have ih' := ih a (by omega)
    exact ih'

theorem acct_runFrom : ∀ (ops : List Op) {s : State}, MInv s → noRemount s ops = true →
    liveToks s.ll.lc.core.toks = liveEntries s →
    liveToks (runFrom s ops).ll.lc.core.toks = liveEntries (runFrom s ops) := by
  intro ops
  induction ops with
  | nil => intro s _ _ h; exact h
  | cons o ops ih =>
    intro s h hnr he
    rw [noRemount_cons, Bool.and_eq_true] at hnr
    obtain ⟨a, _, c, _⟩ := step_facts h o
    have := c hnr.1
    have ih' := ih a hnr.2 (by omega)
    exact ih'

/-- Since fix 62b0917 every entry of `fs.layer` holds an un-called closure, after any history. -/
theorem allLive_runFrom : ∀ (ops : List Op) {s : State}, MInv s →
    AllLive s → AllLive (runFrom s ops) := by
  intro ops
  induction ops with
  | nil => intro s _ h; exact h
  | cons o ops ih =>
    intro s h hall
    obtain ⟨a, _, _, d⟩ := step_facts h o
    exact ih a (d hall)

theorem AllLive.init : AllLive {} := by intro p hp; cases hp

theorem allLive_run (ops : List Op) : AllLive (run ops) := allLive_runFrom ops MInv.init AllLive.init

/-- `Unmount` of a registered mountpoint, from ANY state: the entry goes, its reference is released,
nothing else is touched. -/
theorem unmount_releases (s : State) (mp tok : Nat) (hm : lookup mp s.layer = some tok) :
    lookup mp (unmount s mp).1.layer = none ∧
    (∀ mp', mp' ≠ mp → lookup mp' (unmount s mp).1.layer = lookup mp' s.layer) ∧
    isLive (unmount s mp).1.ll.lc.core.toks tok = false ∧
    (∀ t, t ≠ tok → isLive (unmount s mp).1.ll.lc.core.toks t = isLive s.ll.lc.core.toks t) ∧
    liveToks (unmount s mp).1.ll.lc.core.toks + (if isLive s.ll.lc.core.toks tok then 1 else 0) =
      liveToks s.ll.lc.core.toks ∧
    ((unmount s mp).2 = .ok ∨ (unmount s mp).2 = .errUmount) := by
  obtain ⟨hL, hll, hres⟩ := unmount_spec s mp tok hm
  obtain ⟨d1, d2, d3, d4⟩ := done_toks_cases s.ll tok true
  rw [← hll] at d1 d2 d3 d4
  refine ⟨by rw [hL]; exact lookup_erase_self _ _, fun mp' hne => by rw [hL]; exact lookup_erase_ne hne _,
    d2, d3, d4, ?_⟩
  rcases hres with ⟨h, _⟩ | ⟨h, _⟩
  · exact Or.inl h
  · exact Or.inr h

end SV.FsMount
