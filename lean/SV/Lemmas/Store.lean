/-
Helper lemmas for the C16 model (SV.Store): Go-map algebra, what each operation does to the
three views `lay` / `cnt` / `mem`, and the invariants of reachable states.
-/
import SV.Model.Store
namespace SV.Store
namespace Map
variable {V : Type}

@[simp] theorem get_nil (k : Nat) : get ([] : Map V) k = none := rfl

theorem get_cons (a : Nat) (v : V) (m : Map V) (k : Nat) :
    get ((a, v) :: m) k = if a = k then some v else get m k := rfl

theorem get_erase (m : Map V) (k k' : Nat) :
    get (erase m k) k' = if k' = k then none else get m k' := by
  induction m with
  | nil => simp [erase]
  | cons p m ih =>
    obtain ⟨a, v⟩ := p
    unfold erase at ih ⊢
    by_cases h : a = k
    · simp [h, get_cons]; grind
    · simp [h, get_cons]; grind

theorem get_set (m : Map V) (k : Nat) (v : V) (k' : Nat) :
    get (set m k v) k' = if k' = k then some v else get m k' := by
  simp [set, get_cons, get_erase]; grind

theorem eq_nil_iff (m : Map V) : m = [] ↔ ∀ k, get m k = none := by
  constructor
  · intro h; subst h; simp
  · intro h
    cases m with
    | nil => rfl
    | cons p m => obtain ⟨a, v⟩ := p; have := h a; simp [get_cons] at this

theorem get2_of_get_none (m : Map (Map V)) (r t : Nat) (h : get m r = none) : get2 m r t = none := by
  simp [get2, inner, h]

theorem get2_of_isNone (m : Map (Map V)) (r t : Nat) (h : (get m r).isNone = true) :
    get2 m r t = none := by
  apply get2_of_get_none; simpa using h

theorem isNone_of_get2 (m : Map (Map V)) (r t : Nat) (v : V) (h : get2 m r t = some v) :
    (get m r).isNone = false := by
  cases hg : get m r with
  | none => simp [get2_of_get_none m r t hg] at h
  | some i => rfl

theorem get2_set2 (m : Map (Map V)) (r t : Nat) (v : V) (r' t' : Nat) :
    get2 (set2 m r t v) r' t' = if r' = r ∧ t' = t then some v else get2 m r' t' := by
  unfold get2 set2 inner
  rw [get_set]
  by_cases hr : r' = r
  · subst hr; simp [get_set]
  · simp [hr]

theorem get2_del2 (m : Map (Map V)) (r t r' t' : Nat) :
    get2 (del2 m r t) r' t' = if r' = r ∧ t' = t then none else get2 m r' t' := by
  unfold del2
  cases hg : get m r with
  | none =>
    by_cases hr : r' = r
    · subst hr; simp [get2_of_get_none m r' t' hg]
    · simp [hr]
  | some i =>
    unfold get2 inner
    rw [get_set]
    by_cases hr : r' = r
    · subst hr; simp [get_erase, hg]
    · simp [hr]

theorem get2_erase (m : Map (Map V)) (r r' t' : Nat) :
    get2 (erase m r) r' t' = if r' = r then none else get2 m r' t' := by
  unfold get2 inner
  rw [get_erase]
  by_cases hr : r' = r <;> simp [hr]

theorem emptyAt_iff (m : Map (Map V)) (r : Nat) : emptyAt m r = true ↔ ∀ t, get2 m r t = none := by
  unfold emptyAt get2
  rw [List.isEmpty_iff, eq_nil_iff]

end Map

open Map

/-! ### use -/

theorem use_fields (s : St) (r t : Nat) :
    (use s r t).1.layer = s.layer ∧ (use s r t).1.memo = s.memo ∧ (use s r t).1.done = s.done ∧
    (use s r t).1.next = s.next ∧ (use s r t).1.disk = s.disk ∧
    (use s r t).1.pool = poolUse s.pool r := by
  unfold use; dsimp only; split <;> simp

theorem use_cnt (s : St) (r t r' t' : Nat) :
    cnt (use s r t).1 r' t' =
      if r' = r ∧ t' = t then some ((cnt s r t).getD 0 + 1) else cnt s r' t' := by
  unfold use cnt; dsimp only
  split <;> rename_i h <;> simp [get2_set2, h]

theorem use_res (s : St) (r t : Nat) : (use s r t).2 = .count ((cnt s r t).getD 0 + 1) := by
  unfold use cnt; dsimp only
  split <;> rename_i h <;> simp [h]

/-! ### release -/

theorem release_untracked (s : St) (r t : Nat) (h : cnt s r t = none) :
    release s r t = ({ s with pool := poolRelease s.pool r }, .err) := by
  unfold release; dsimp only
  unfold cnt at h
  split
  · rfl
  · simp [h]

theorem dropCount_fields (s : St) (r t : Nat) :
    (dropCount s r t).layer = s.layer ∧ (dropCount s r t).done = s.done ∧
    (dropCount s r t).next = s.next ∧ (dropCount s r t).disk = s.disk ∧
    (dropCount s r t).pool = s.pool := by
  unfold dropCount; dsimp only; split <;> simp

theorem dropCount_cnt (s : St) (r t r' t' : Nat) :
    cnt (dropCount s r t) r' t' = if r' = r ∧ t' = t then none else cnt s r' t' := by
  unfold dropCount cnt; dsimp only
  split
  · rename_i h
    rw [emptyAt_iff] at h
    simp only [get2_erase]
    by_cases hr : r' = r
    · subst hr
      have := h t'
      rw [get2_del2] at this
      by_cases ht : t' = t <;> simp_all
    · simp [hr, get2_del2]
  · simp [get2_del2]

/-- every other entry of the image's counter map is gone. -/
def AllGone (s : St) (r t : Nat) : Prop := ∀ t', t' ≠ t → cnt s r t' = none

theorem dropCount_emptyAt (s : St) (r t : Nat) :
    emptyAt (del2 s.refcounter r t) r = true ↔ AllGone s r t := by
  unfold AllGone cnt
  rw [emptyAt_iff]
  constructor
  · intro h t' ht
    have := h t'; rw [get2_del2] at this; simpa [ht] using this
  · intro h t'
    rw [get2_del2]
    by_cases ht : t' = t
    · simp [ht]
    · simpa [ht] using h t' ht

theorem dropCount_mem_reset (s : St) (r t d : Nat) (h : AllGone s r t) :
    mem (dropCount s r t) r d = none := by
  unfold dropCount mem; dsimp only
  rw [if_pos ((dropCount_emptyAt s r t).2 h)]
  simp [get2_erase]

theorem dropCount_mem_keep (s : St) (r t r' d : Nat) (h : r' ≠ r ∨ ¬ AllGone s r t) :
    mem (dropCount s r t) r' d = mem s r' d := by
  unfold dropCount mem; dsimp only
  split
  · rename_i he
    rw [dropCount_emptyAt] at he
    rcases h with h | h
    · simp [get2_erase, h]
    · exact absurd he h
  · rfl

theorem dropCount_mem_le (s : St) (r t r' d : Nat) :
    mem (dropCount s r t) r' d = none ∨ mem (dropCount s r t) r' d = mem s r' d := by
  by_cases h : r' ≠ r ∨ ¬ AllGone s r t
  · exact Or.inr (dropCount_mem_keep s r t r' d h)
  · have h1 : r' = r := by
      apply Classical.byContradiction; intro hn; exact h (Or.inl hn)
    have h2 : AllGone s r t := by
      apply Classical.byContradiction; intro hn; exact h (Or.inr hn)
    subst h1
    exact Or.inl (dropCount_mem_reset s r' t d h2)

theorem dropLayer_none (s : St) (r t : Nat) (i : Int) (h : lay s r t = none) :
    dropLayer s r t i = (s, .err) := by
  unfold dropLayer; unfold lay at h
  split
  · rfl
  · simp [h]

theorem dropLayer_some (s : St) (r t : Nat) (i : Int) (l : Layer) (h : lay s r t = some l) :
    (dropLayer s r t i).2 = .count i ∧
    (dropLayer s r t i).1.refcounter = s.refcounter ∧
    (dropLayer s r t i).1.done = l.id :: s.done ∧
    (dropLayer s r t i).1.next = s.next ∧ (dropLayer s r t i).1.disk = s.disk ∧
    (dropLayer s r t i).1.pool = s.pool ∧
    (∀ r' t', lay (dropLayer s r t i).1 r' t' = if r' = r ∧ t' = t then none else lay s r' t') ∧
    (∀ r' d, mem (dropLayer s r t i).1 r' d = if r' = r ∧ d = l.digest then none else mem s r' d) := by
  unfold lay at h
  have hn := isNone_of_get2 _ _ _ _ h
  unfold dropLayer lay mem
  simp only [hn, h, Bool.false_eq_true, if_false]
  split
  · rename_i he
    rw [emptyAt_iff] at he
    refine ⟨by first | rfl | trivial, by first | rfl | trivial, by first | rfl | trivial, by first | rfl | trivial,
      by first | rfl | trivial, by first | rfl | trivial, ?_, ?_⟩
    · intro r' t'
      simp only [get2_erase]
      by_cases hr : r' = r
      · subst hr
        have := he t'
        rw [get2_del2] at this
        by_cases ht : t' = t <;> simp_all
      · simp [hr, get2_del2]
    · intro r' d; simp [get2_del2]
  · refine ⟨by first | rfl | trivial, by first | rfl | trivial, by first | rfl | trivial, by first | rfl | trivial,
      by first | rfl | trivial, by first | rfl | trivial, ?_, ?_⟩
    · intro r' t'; simp [get2_del2]
    · intro r' d; simp [get2_del2]

theorem release_keep (s : St) (r t : Nat) (c : Int) (h : cnt s r t = some c) (hc : 1 < c) :
    release s r t =
      ({ s with pool := poolRelease s.pool r, refcounter := set2 s.refcounter r t (c - 1) },
        .count (c - 1)) := by
  unfold cnt at h
  have hn := isNone_of_get2 _ _ _ _ h
  unfold release
  simp only [hn, h, Bool.false_eq_true, if_false]
  rw [if_neg (by omega)]

/-- the state between the decrement and the drop. -/
def decr (s : St) (r t : Nat) (c : Int) : St :=
  { s with pool := poolRelease s.pool r, refcounter := set2 s.refcounter r t (c - 1) }

theorem release_drop (s : St) (r t : Nat) (c : Int) (h : cnt s r t = some c) (hc : c ≤ 1) :
    release s r t = dropLayer (dropCount (decr s r t c) r t) r t (c - 1) := by
  unfold cnt at h
  have hn := isNone_of_get2 _ _ _ _ h
  unfold release decr
  simp only [hn, h, Bool.false_eq_true, if_false]
  rw [if_pos (by omega)]

theorem decr_cnt (s : St) (r t : Nat) (c : Int) (r' t' : Nat) :
    cnt (decr s r t c) r' t' = if r' = r ∧ t' = t then some (c - 1) else cnt s r' t' := by
  simp [decr, cnt, get2_set2]

theorem decr_allGone (s : St) (r t : Nat) (c : Int) : AllGone (decr s r t c) r t ↔ AllGone s r t := by
  unfold AllGone
  constructor <;> intro h t' ht <;> have := h t' ht <;> rw [decr_cnt] at * <;> simp_all

/-- `release` of a tracked (ref, TOC digest) whose count is at most 1: what is left. -/
theorem release_drop_spec (s : St) (r t : Nat) (c : Int) (h : cnt s r t = some c) (hc : c ≤ 1) :
    (∀ r' t', cnt (release s r t).1 r' t' = if r' = r ∧ t' = t then none else cnt s r' t') ∧
    (release s r t).1.next = s.next ∧ (release s r t).1.disk = s.disk ∧
    (release s r t).1.pool = poolRelease s.pool r ∧
    (∀ r' d, mem (release s r t).1 r' d = none ∨ mem (release s r t).1 r' d = mem s r' d) ∧
    (∀ r' d, r' ≠ r → mem (release s r t).1 r' d = mem s r' d) ∧
    (AllGone s r t → ∀ d, mem (release s r t).1 r d = none) ∧
    (lay s r t = none →
      (release s r t).2 = .err ∧ (release s r t).1.layer = s.layer ∧
      (release s r t).1.done = s.done) ∧
    (∀ l, lay s r t = some l →
      (release s r t).2 = .count (c - 1) ∧ (release s r t).1.done = l.id :: s.done ∧
      (∀ r' t', lay (release s r t).1 r' t' = if r' = r ∧ t' = t then none else lay s r' t') ∧
      mem (release s r t).1 r l.digest = none ∧
      (¬ AllGone s r t → ∀ d, d ≠ l.digest → mem (release s r t).1 r d = mem s r d)) := by
  rw [release_drop s r t c h hc]
  have hf := dropCount_fields (decr s r t c) r t
  have hlay : ∀ r' t', lay (dropCount (decr s r t c) r t) r' t' = lay s r' t' := by
    intro r' t'; unfold lay; rw [hf.1]; rfl
  have hcnt : ∀ r' t', cnt (dropCount (decr s r t c) r t) r' t'
      = if r' = r ∧ t' = t then none else cnt s r' t' := by
    intro r' t'
    rw [dropCount_cnt, decr_cnt]
    by_cases hx : r' = r ∧ t' = t <;> simp [hx]
  have hmemD : ∀ r' d, mem (decr s r t c) r' d = mem s r' d := fun _ _ => rfl
  cases hl : lay s r t with
  | none =>
    have hl' : lay (dropCount (decr s r t c) r t) r t = none := by rw [hlay]; exact hl
    rw [dropLayer_none _ _ _ _ hl']
    refine ⟨hcnt, hf.2.2.1, hf.2.2.2.1, hf.2.2.2.2, ?_, ?_, ?_, ?_, ?_⟩
    · intro r' d
      have := dropCount_mem_le (decr s r t c) r t r' d
      rwa [hmemD] at this
    · intro r' d hr
      rw [dropCount_mem_keep _ _ _ _ _ (Or.inl hr), hmemD]
    · intro hg d
      exact dropCount_mem_reset _ _ _ _ ((decr_allGone s r t c).2 hg)
    · intro _; exact ⟨rfl, hf.1, hf.2.1⟩
    · intro l hl2; simp at hl2
  | some l =>
    have hl' : lay (dropCount (decr s r t c) r t) r t = some l := by rw [hlay]; exact hl
    obtain ⟨h1, h2, h3, h4, h5, h6, h7, h8⟩ := dropLayer_some _ r t (c - 1) l hl'
    refine ⟨?_, ?_, ?_, ?_, ?_, ?_, ?_, ?_, ?_⟩
    · intro r' t'; unfold cnt; rw [h2]; exact hcnt r' t'
    · rw [h4]; exact hf.2.2.1
    · rw [h5]; exact hf.2.2.2.1
    · rw [h6]; exact hf.2.2.2.2
    · intro r' d
      rw [h8]
      have := dropCount_mem_le (decr s r t c) r t r' d
      rw [hmemD] at this
      by_cases hx : r' = r ∧ d = l.digest
      · simp [hx]
      · simpa [hx] using this
    · intro r' d hr
      rw [h8, dropCount_mem_keep _ _ _ _ _ (Or.inl hr), hmemD]
      simp [hr]
    · intro hg d
      rw [h8, dropCount_mem_reset _ _ _ _ ((decr_allGone s r t c).2 hg)]
      simp
    · intro hn; simp at hn
    · intro l2 hl2
      have : l2 = l := by simpa using hl2.symm
      subst this
      refine ⟨h1, ?_, ?_, ?_, ?_⟩
      · rw [h3, hf.2.1]; rfl
      · intro r' t'; rw [h7, hlay]
      · rw [h8]; simp
      · intro hg d hd
        rw [h8, dropCount_mem_keep _ _ _ _ _ (Or.inr (fun hh => hg ((decr_allGone s r t c).1 hh))), hmemD]
        simp [hd]

/-! ### resolveLayer / getLayer -/

/-- cached layers sit under their own TOC digest. -/
def KeyOK (s : St) : Prop := ∀ r t l, lay s r t = some l → l.toc = t

theorem getCached_eq_lay (s : St) (hk : KeyOK s) (r t : Nat) : getCached s r t = lay s r t := by
  unfold getCached
  cases h : get2 s.layer r t with
  | none => simp [lay, h]
  | some l =>
    have := hk r t l h
    simp [lay, h, this]

/-- the resolution of manifest layer `(d, t)` puts a new instance into the cache. -/
def Adds (o : Oracle) (r : Nat) (s : St) (d t : Nat) : Prop :=
  mem s r d = none ∧ o.layer r d = true ∧ lay s r t = none

theorem resolve_fields (o : Oracle) (r : Nat) (s : St) (dt : Nat × Nat) :
    (resolveLayer o r s dt).refcounter = s.refcounter ∧ (resolveLayer o r s dt).done = s.done ∧
    (resolveLayer o r s dt).pool = s.pool ∧ (resolveLayer o r s dt).disk = s.disk := by
  unfold resolveLayer cacheLayer
  split
  · simp
  · split
    · dsimp only; split <;> simp
    · simp

theorem resolve_mem (o : Oracle) (r : Nat) (s : St) (d t r' d' : Nat) :
    mem (resolveLayer o r s (d, t)) r' d' =
      if r' = r ∧ d' = d ∧ mem s r d = none then
        some (if o.layer r d = true then Outcome.ok else Outcome.err)
      else mem s r' d' := by
  unfold resolveLayer mem cacheLayer
  dsimp only
  cases hm : get2 s.memo r d with
  | some x => simp
  | none =>
    by_cases ho : o.layer r d = true
    · simp only [ho, if_true]
      split <;> simp [get2_set2] <;> grind
    · simp only [ho]
      simp [get2_set2] <;> grind

theorem resolve_adds (o : Oracle) (r : Nat) (s : St) (hk : KeyOK s) (d t : Nat)
    (h : Adds o r s d t) :
    (resolveLayer o r s (d, t)).next = s.next + 1 ∧
    ∀ r' t', lay (resolveLayer o r s (d, t)) r' t' =
      if r' = r ∧ t' = t then some ⟨s.next, d, t⟩ else lay s r' t' := by
  obtain ⟨h1, h2, h3⟩ := h
  have hc : getCached s r t = none := by rw [getCached_eq_lay s hk]; exact h3
  unfold mem at h1
  unfold resolveLayer cacheLayer lay
  simp only [h1, h2, hc, if_true]
  refine ⟨by first | rfl | trivial, ?_⟩
  intro r' t'
  simp [get2_set2]

theorem resolve_noadd (o : Oracle) (r : Nat) (s : St) (hk : KeyOK s) (d t : Nat)
    (h : ¬ Adds o r s d t) :
    (resolveLayer o r s (d, t)).next = s.next ∧ (resolveLayer o r s (d, t)).layer = s.layer := by
  unfold Adds at h
  unfold resolveLayer cacheLayer
  dsimp only
  cases hm : get2 s.memo r d with
  | some x => simp
  | none =>
    by_cases ho : o.layer r d = true
    · have hl : lay s r t ≠ none := by
        intro hl; exact h ⟨hm, ho, hl⟩
      have hc : getCached s r t ≠ none := by rw [getCached_eq_lay s hk]; exact hl
      simp only [ho, if_true]
      split
      · simp
      · rename_i hcn; exact absurd hcn hc
    · simp [ho]

/-- Invariants of every reachable state (`T` is the registry truth). -/
structure Inv (T : Truth) (s : St) : Prop where
  key : ∀ r t l, lay s r t = some l → l.toc = t
  member : ∀ r t l, lay s r t = some l → ∃ ls, T.images r = some ls ∧ (l.digest, t) ∈ ls
  fresh : ∀ r t l, lay s r t = some l → l.id < s.next
  live : ∀ r t l, lay s r t = some l → l.id ∉ s.done
  uniq : ∀ r t l r' t' l', lay s r t = some l → lay s r' t' = some l' → l.id = l'.id →
    r = r' ∧ t = t'
  doneLt : ∀ i, i ∈ s.done → i < s.next
  pos : ∀ r t c, cnt s r t = some c → 1 ≤ c
  ppos : ∀ r c, get s.pool r = some c → 1 ≤ c

theorem inv_init (T : Truth) : Inv T init := by
  constructor <;> simp [init, lay, cnt, get2, inner]

theorem resolve_inv (T : Truth) (o : Oracle) (r : Nat) (s : St) (hI : Inv T s)
    (ls : List (Nat × Nat)) (hm : T.images r = some ls) (d t : Nat) (hin : (d, t) ∈ ls) :
    Inv T (resolveLayer o r s (d, t)) := by
  obtain ⟨f1, f2, f3, f4⟩ := resolve_fields o r s (d, t)
  have hcnt : ∀ r' t', cnt (resolveLayer o r s (d, t)) r' t' = cnt s r' t' := by
    intro r' t'; unfold cnt; rw [f1]
  by_cases ha : Adds o r s d t
  · obtain ⟨hn, hl⟩ := resolve_adds o r s hI.key d t ha
    constructor
    · intro r' t' l h; rw [hl] at h
      split at h
      · rename_i hx; cases h; exact hx.2.symm
      · exact hI.key _ _ _ h
    · intro r' t' l h; rw [hl] at h
      split at h
      · rename_i hx; cases h; obtain ⟨rfl, rfl⟩ := hx; exact ⟨ls, hm, hin⟩
      · exact hI.member _ _ _ h
    · intro r' t' l h; rw [hl] at h; rw [hn]
      split at h
      · cases h; simp
      · have := hI.fresh _ _ _ h; omega
    · intro r' t' l h; rw [hl] at h; rw [f2]
      split at h
      · cases h; intro hd; have := hI.doneLt _ hd; simp at this
      · exact hI.live _ _ _ h
    · intro r1 t1 l1 r2 t2 l2 h1 h2 he
      rw [hl] at h1 h2
      split at h1 <;> split at h2
      · rename_i hx hy; exact ⟨hx.1.trans hy.1.symm, hx.2.trans hy.2.symm⟩
      · cases h1; have := hI.fresh _ _ _ h2; simp at he; omega
      · cases h2; have := hI.fresh _ _ _ h1; simp at he; omega
      · exact hI.uniq _ _ _ _ _ _ h1 h2 he
    · intro i hi; rw [f2] at hi; rw [hn]; have := hI.doneLt i hi; omega
    · intro r' t' c h; rw [hcnt] at h; exact hI.pos _ _ _ h
    · intro r' c h; rw [f3] at h; exact hI.ppos _ _ h
  · obtain ⟨hn, hl⟩ := resolve_noadd o r s hI.key d t ha
    have hlay : ∀ r' t', lay (resolveLayer o r s (d, t)) r' t' = lay s r' t' := by
      intro r' t'; unfold lay; rw [hl]
    constructor
    · intro r' t' l h; rw [hlay] at h; exact hI.key _ _ _ h
    · intro r' t' l h; rw [hlay] at h; exact hI.member _ _ _ h
    · intro r' t' l h; rw [hlay] at h; rw [hn]; exact hI.fresh _ _ _ h
    · intro r' t' l h; rw [hlay] at h; rw [f2]; exact hI.live _ _ _ h
    · intro r1 t1 l1 r2 t2 l2 h1 h2 he; rw [hlay] at h1 h2; exact hI.uniq _ _ _ _ _ _ h1 h2 he
    · intro i hi; rw [f2] at hi; rw [hn]; exact hI.doneLt i hi
    · intro r' t' c h; rw [hcnt] at h; exact hI.pos _ _ _ h
    · intro r' c h; rw [f3] at h; exact hI.ppos _ _ h

/-- `s'` is `s0` after some more layers were resolved: nothing is lost, new instances are fresh. -/
structure Ext (s0 s' : St) : Prop where
  rc : s'.refcounter = s0.refcounter
  dn : s'.done = s0.done
  pl : s'.pool = s0.pool
  nx : s0.next ≤ s'.next
  layMono : ∀ r t l, lay s0 r t = some l → lay s' r t = some l
  layNew : ∀ r t l, lay s' r t = some l → lay s0 r t = some l ∨ s0.next ≤ l.id
  memMono : ∀ r d x, mem s0 r d = some x → mem s' r d = some x

theorem ext_refl (s : St) : Ext s s :=
  ⟨rfl, rfl, rfl, Nat.le_refl _, fun _ _ _ h => h, fun _ _ _ h => Or.inl h, fun _ _ _ h => h⟩

theorem resolve_ext (o : Oracle) (r : Nat) (s0 s : St) (hk : KeyOK s) (hE : Ext s0 s) (d t : Nat) :
    Ext s0 (resolveLayer o r s (d, t)) := by
  obtain ⟨f1, f2, f3, f4⟩ := resolve_fields o r s (d, t)
  have hmem : ∀ r' d' x, mem s r' d' = some x → mem (resolveLayer o r s (d, t)) r' d' = some x := by
    intro r' d' x h
    rw [resolve_mem]
    split
    · rename_i hx; obtain ⟨rfl, rfl, hx⟩ := hx; rw [hx] at h; cases h
    · exact h
  by_cases ha : Adds o r s d t
  · obtain ⟨hn, hl⟩ := resolve_adds o r s hk d t ha
    refine ⟨f1.trans hE.rc, f2.trans hE.dn, f3.trans hE.pl, ?_, ?_, ?_, ?_⟩
    · have := hE.nx; omega
    · intro r' t' l h
      have h' := hE.layMono _ _ _ h
      rw [hl]
      split
      · rename_i hx; obtain ⟨rfl, rfl⟩ := hx; rw [ha.2.2] at h'; cases h'
      · exact h'
    · intro r' t' l h
      rw [hl] at h
      split at h
      · cases h; exact Or.inr hE.nx
      · exact hE.layNew _ _ _ h
    · intro r' d' x h; exact hmem _ _ _ (hE.memMono _ _ _ h)
  · obtain ⟨hn, hl⟩ := resolve_noadd o r s hk d t ha
    have hlay : ∀ r' t', lay (resolveLayer o r s (d, t)) r' t' = lay s r' t' := by
      intro r' t'; unfold lay; rw [hl]
    refine ⟨f1.trans hE.rc, f2.trans hE.dn, f3.trans hE.pl, ?_, ?_, ?_, ?_⟩
    · rw [hn]; exact hE.nx
    · intro r' t' l h; rw [hlay]; exact hE.layMono _ _ _ h
    · intro r' t' l h; rw [hlay] at h; exact hE.layNew _ _ _ h
    · intro r' d' x h; exact hmem _ _ _ (hE.memMono _ _ _ h)

theorem fold_induct (P : St → Prop) (o : Oracle) (r : Nat) (ls : List (Nat × Nat))
    (hstep : ∀ s dt, dt ∈ ls → P s → P (resolveLayer o r s dt)) (s : St) (h : P s) :
    P (ls.foldl (resolveLayer o r) s) := by
  induction ls generalizing s with
  | nil => exact h
  | cons x xs ih =>
    simp only [List.foldl_cons]
    apply ih
    · intro s' dt hdt hp; exact hstep s' dt (List.mem_cons_of_mem _ hdt) hp
    · exact hstep s x (List.mem_cons_self ..) h

theorem fold_inv_ext (T : Truth) (o : Oracle) (r : Nat) (full : List (Nat × Nat))
    (hm : T.images r = some full) (ls : List (Nat × Nat)) (hsub : ∀ x, x ∈ ls → x ∈ full)
    (s : St) (hI : Inv T s) :
    Inv T (ls.foldl (resolveLayer o r) s) ∧ Ext s (ls.foldl (resolveLayer o r) s) := by
  apply fold_induct (fun s' => Inv T s' ∧ Ext s s') o r ls
  · intro s' dt hdt hp
    obtain ⟨d, t⟩ := dt
    exact ⟨resolve_inv T o r s' hp.1 full hm d t (hsub _ hdt), resolve_ext o r s s' hp.1.key hp.2 d t⟩
  · exact ⟨hI, ext_refl s⟩

/-- the layer digest determines the TOC digest (a digest names one blob). -/
def DigestFun (ls : List (Nat × Nat)) : Prop :=
  ∀ d t t', (d, t) ∈ ls → (d, t') ∈ ls → t = t'

/-- a resolvable manifest layer without resolve status is cached after the pass over the manifest. -/
theorem fold_caches (T : Truth) (o : Oracle) (r : Nat) (full : List (Nat × Nat))
    (hm : T.images r = some full) (hfun : DigestFun full) (ls : List (Nat × Nat))
    (hsub : ∀ x, x ∈ ls → x ∈ full) (s : St) (hI : Inv T s) (d t : Nat) (hin : (d, t) ∈ ls)
    (hmem : mem s r d = none) (ho : o.layer r d = true) :
    lay (ls.foldl (resolveLayer o r) s) r t ≠ none := by
  induction ls generalizing s with
  | nil => cases hin
  | cons x xs ih =>
    obtain ⟨d0, t0⟩ := x
    simp only [List.foldl_cons]
    have hx : (d0, t0) ∈ full := hsub _ (List.mem_cons_self ..)
    have hsub' : ∀ x, x ∈ xs → x ∈ full := fun x hx => hsub x (List.mem_cons_of_mem _ hx)
    have hI1 := resolve_inv T o r s hI full hm d0 t0 hx
    by_cases hd : d0 = d
    · -- the head is this very layer (same digest, hence same TOC digest)
      subst hd
      have ht : t0 = t := hfun d0 t0 t hx (hsub _ hin)
      subst ht
      have hpres : lay (resolveLayer o r s (d0, t0)) r t0 ≠ none := by
        by_cases ha : Adds o r s d0 t0
        · rw [(resolve_adds o r s hI.key d0 t0 ha).2]; simp
        · have hl : lay s r t0 ≠ none := fun hl => ha ⟨hmem, ho, hl⟩
          have := (resolve_noadd o r s hI.key d0 t0 ha).2
          unfold lay at hl ⊢; rw [this]; exact hl
      have hE := (fold_inv_ext T o r full hm xs hsub' _ hI1).2
      cases hq : lay (resolveLayer o r s (d0, t0)) r t0 with
      | none => exact absurd hq hpres
      | some l => rw [hE.layMono _ _ _ hq]; simp
    · have hin' : (d, t) ∈ xs := by
        rcases List.mem_cons.mp hin with h | h
        · cases h; exact absurd rfl hd
        · exact h
      apply ih hsub' _ hI1 hin'
      rw [resolve_mem, if_neg (fun h => hd h.2.1.symm)]; exact hmem

/-! ### loadRef / lookup / info -/

theorem loadRef_some (T : Truth) (o : Oracle) (s : St) (r : Nat) (s1 : St) (ls : List (Nat × Nat))
    (h : loadRef T o s r = some (s1, ls)) :
    T.images r = some ls ∧ (r ∈ s.disk ∨ o.manifest r = true) ∧
    s1.layer = s.layer ∧ s1.refcounter = s.refcounter ∧ s1.memo = s.memo ∧ s1.done = s.done ∧
    s1.next = s.next ∧ s1.pool = s.pool := by
  unfold loadRef at h
  split at h
  · rename_i hd
    cases hi : T.images r with
    | none => simp [hi] at h
    | some ls' =>
      simp [hi] at h; obtain ⟨rfl, rfl⟩ := h
      exact ⟨rfl, Or.inl hd, rfl, rfl, rfl, rfl, rfl, rfl⟩
  · split at h
    · rename_i hd ho
      cases hi : T.images r with
      | none => simp [hi] at h
      | some ls' =>
        simp [hi] at h; obtain ⟨rfl, rfl⟩ := h
        exact ⟨rfl, Or.inr ho, rfl, rfl, rfl, rfl, rfl, rfl⟩
    · cases h

theorem loadRef_avail (T : Truth) (o : Oracle) (s : St) (r : Nat) (ls : List (Nat × Nat))
    (hi : T.images r = some ls) (ha : r ∈ s.disk ∨ o.manifest r = true) :
    ∃ s1, loadRef T o s r = some (s1, ls) := by
  unfold loadRef
  by_cases hd : r ∈ s.disk
  · simp [hd, hi]
  · rcases ha with ha | ha
    · exact absurd ha hd
    · simp [hd, ha, hi]

theorem inv_of_fields (T : Truth) (s s1 : St) (hI : Inv T s) (h1 : s1.layer = s.layer)
    (h2 : s1.refcounter = s.refcounter) (h3 : s1.done = s.done) (h4 : s1.next = s.next)
    (h5 : ∀ r c, get s1.pool r = some c → 1 ≤ c) : Inv T s1 := by
  have hlay : ∀ r t, lay s1 r t = lay s r t := by intro r t; unfold lay; rw [h1]
  have hcnt : ∀ r t, cnt s1 r t = cnt s r t := by intro r t; unfold cnt; rw [h2]
  constructor
  · intro r t l h; rw [hlay] at h; exact hI.key _ _ _ h
  · intro r t l h; rw [hlay] at h; exact hI.member _ _ _ h
  · intro r t l h; rw [hlay] at h; rw [h4]; exact hI.fresh _ _ _ h
  · intro r t l h; rw [hlay] at h; rw [h3]; exact hI.live _ _ _ h
  · intro r t l r' t' l' h h'; rw [hlay] at h h'; exact hI.uniq _ _ _ _ _ _ h h'
  · intro i hi; rw [h3] at hi; rw [h4]; exact hI.doneLt i hi
  · intro r t c h; rw [hcnt] at h; exact hI.pos _ _ _ h
  · exact h5

/-- the three ways `getLayer` can go. -/
theorem lookup_cases (T : Truth) (o : Oracle) (s : St) (r t : Nat) :
    (∃ l, getCached s r t = some l ∧ lookup T o s r t = (s, .layer l)) ∨
    (getCached s r t = none ∧ loadRef T o s r = none ∧ lookup T o s r t = (s, .err)) ∨
    (∃ s1 ls, getCached s r t = none ∧ loadRef T o s r = some (s1, ls) ∧
      (lookup T o s r t).1 = ls.foldl (resolveLayer o r) s1 ∧
      (lookup T o s r t).2 =
        match getCached (ls.foldl (resolveLayer o r) s1) r t with
        | some l => .layer l
        | none => .err) := by
  unfold lookup
  cases hc : getCached s r t with
  | some l => exact Or.inl ⟨l, rfl, rfl⟩
  | none =>
    cases hl : loadRef T o s r with
    | none => exact Or.inr (Or.inl ⟨rfl, rfl, rfl⟩)
    | some p =>
      obtain ⟨s1, ls⟩ := p
      refine Or.inr (Or.inr ⟨s1, ls, rfl, rfl, ?_, ?_⟩)
      · dsimp only; split <;> rfl
      · dsimp only; split <;> rename_i h <;> simp [h]

theorem ext_of_fields (s s1 : St) (h1 : s1.layer = s.layer) (h2 : s1.refcounter = s.refcounter)
    (h3 : s1.memo = s.memo) (h4 : s1.done = s.done) (h5 : s1.next = s.next)
    (h6 : s1.pool = s.pool) : Ext s s1 := by
  refine ⟨h2, h4, h6, by omega, ?_, ?_, ?_⟩
  · intro r t l h; unfold lay at *; rw [h1]; exact h
  · intro r t l h; unfold lay at *; rw [h1] at h; exact Or.inl h
  · intro r d x h; unfold mem at *; rw [h3]; exact h

theorem ext_trans (a b c : St) (h1 : Ext a b) (h2 : Ext b c) : Ext a c := by
  refine ⟨h2.rc.trans h1.rc, h2.dn.trans h1.dn, h2.pl.trans h1.pl, ?_, ?_, ?_, ?_⟩
  · have := h1.nx; have := h2.nx; omega
  · intro r t l h; exact h2.layMono _ _ _ (h1.layMono _ _ _ h)
  · intro r t l h
    rcases h2.layNew _ _ _ h with h | h
    · exact h1.layNew _ _ _ h
    · exact Or.inr (by have := h1.nx; omega)
  · intro r d x h; exact h2.memMono _ _ _ (h1.memMono _ _ _ h)

theorem lookup_inv_ext (T : Truth) (o : Oracle) (s : St) (r t : Nat) (hI : Inv T s) :
    Inv T (lookup T o s r t).1 ∧ Ext s (lookup T o s r t).1 := by
  rcases lookup_cases T o s r t with ⟨l, _, h⟩ | ⟨_, _, h⟩ | ⟨s1, ls, _, hl, h, _⟩
  · rw [h]; exact ⟨hI, ext_refl s⟩
  · rw [h]; exact ⟨hI, ext_refl s⟩
  · rw [h]
    obtain ⟨hi, _, e1, e2, e3, e4, e5, e6⟩ := loadRef_some T o s r s1 ls hl
    have hI1 : Inv T s1 := inv_of_fields T s s1 hI e1 e2 e4 e5 (by rw [e6]; exact hI.ppos)
    have := fold_inv_ext T o r ls hi ls (fun _ h => h) s1 hI1
    exact ⟨this.1, ext_trans _ _ _ (ext_of_fields s s1 e1 e2 e3 e4 e5 e6) this.2⟩

theorem info_fields (T : Truth) (o : Oracle) (s : St) (r t : Nat) :
    (info T o s r t).1.layer = s.layer ∧ (info T o s r t).1.refcounter = s.refcounter ∧
    (info T o s r t).1.memo = s.memo ∧ (info T o s r t).1.done = s.done ∧
    (info T o s r t).1.next = s.next ∧ (info T o s r t).1.pool = s.pool := by
  unfold info
  cases hl : loadRef T o s r with
  | none => simp
  | some p =>
    obtain ⟨s1, ls⟩ := p
    obtain ⟨_, _, e1, e2, e3, e4, e5, e6⟩ := loadRef_some T o s r s1 ls hl
    dsimp only
    split
    · exact ⟨e1, e2, e3, e4, e5, e6⟩
    · split <;> exact ⟨e1, e2, e3, e4, e5, e6⟩

theorem poolUse_pos (p : Map Int) (r : Nat) (hp : ∀ r c, get p r = some c → 1 ≤ c) :
    ∀ r' c, get (poolUse p r) r' = some c → 1 ≤ c := by
  intro r' c h
  unfold poolUse at h
  split at h <;> rename_i hg <;> rw [get_set] at h <;> split at h
  · cases h; omega
  · exact hp _ _ h
  · cases h; have := hp _ _ hg; omega
  · exact hp _ _ h

theorem poolRelease_pos (p : Map Int) (r : Nat) (hp : ∀ r c, get p r = some c → 1 ≤ c) :
    ∀ r' c, get (poolRelease p r) r' = some c → 1 ≤ c := by
  intro r' c h
  unfold poolRelease at h
  split at h
  · exact hp _ _ h
  · split at h
    · rw [get_erase] at h; split at h
      · cases h
      · exact hp _ _ h
    · rw [get_set] at h; split at h
      · cases h; omega
      · exact hp _ _ h

theorem use_inv (T : Truth) (s : St) (r t : Nat) (hI : Inv T s) : Inv T (use s r t).1 := by
  obtain ⟨e1, e2, e3, e4, e5, e6⟩ := use_fields s r t
  have hlay : ∀ r' t', lay (use s r t).1 r' t' = lay s r' t' := by intro r' t'; unfold lay; rw [e1]
  constructor
  · intro r' t' l h; rw [hlay] at h; exact hI.key _ _ _ h
  · intro r' t' l h; rw [hlay] at h; exact hI.member _ _ _ h
  · intro r' t' l h; rw [hlay] at h; rw [e4]; exact hI.fresh _ _ _ h
  · intro r' t' l h; rw [hlay] at h; rw [e3]; exact hI.live _ _ _ h
  · intro r1 t1 l1 r2 t2 l2 h h'; rw [hlay] at h h'; exact hI.uniq _ _ _ _ _ _ h h'
  · intro i hi; rw [e3] at hi; rw [e4]; exact hI.doneLt i hi
  · intro r' t' c h
    rw [use_cnt] at h
    split at h
    · cases h
      cases hc : cnt s r t with
      | none => simp
      | some c0 => have := hI.pos _ _ _ hc; simp; omega
    · exact hI.pos _ _ _ h
  · rw [e6]; exact poolUse_pos _ _ hI.ppos

theorem release_inv (T : Truth) (s : St) (r t : Nat) (hI : Inv T s) : Inv T (release s r t).1 := by
  cases hc : cnt s r t with
  | none =>
    rw [release_untracked s r t hc]
    exact inv_of_fields T s _ hI rfl rfl rfl rfl (poolRelease_pos _ _ hI.ppos)
  | some c =>
    by_cases h1 : 1 < c
    · rw [release_keep s r t c hc h1]
      constructor
      · intro r' t' l h; exact hI.key _ _ _ h
      · intro r' t' l h; exact hI.member _ _ _ h
      · intro r' t' l h; exact hI.fresh _ _ _ h
      · intro r' t' l h; exact hI.live _ _ _ h
      · intro r1 t1 l1 r2 t2 l2 h h'; exact hI.uniq _ _ _ _ _ _ h h'
      · exact hI.doneLt
      · intro r' t' c' h
        unfold cnt at h; dsimp only at h; rw [get2_set2] at h
        split at h
        · cases h; omega
        · exact hI.pos _ _ _ h
      · exact poolRelease_pos _ _ hI.ppos
    · have hc1 : c ≤ 1 := by omega
      obtain ⟨g1, g2, g3, g4, g5, g6, g7, g8, g9⟩ := release_drop_spec s r t c hc hc1
      have hpos : ∀ r' t' c', cnt (release s r t).1 r' t' = some c' → 1 ≤ c' := by
        intro r' t' c' h; rw [g1] at h
        split at h
        · cases h
        · exact hI.pos _ _ _ h
      have hpp : ∀ r' c', get (release s r t).1.pool r' = some c' → 1 ≤ c' := by
        rw [g4]; exact poolRelease_pos _ _ hI.ppos
      cases hl : lay s r t with
      | none =>
        obtain ⟨_, k2, k3⟩ := g8 hl
        have hlay : ∀ r' t', lay (release s r t).1 r' t' = lay s r' t' := by
          intro r' t'; unfold lay; rw [k2]
        constructor
        · intro r' t' l h; rw [hlay] at h; exact hI.key _ _ _ h
        · intro r' t' l h; rw [hlay] at h; exact hI.member _ _ _ h
        · intro r' t' l h; rw [hlay] at h; rw [g2]; exact hI.fresh _ _ _ h
        · intro r' t' l h; rw [hlay] at h; rw [k3]; exact hI.live _ _ _ h
        · intro r1 t1 l1 r2 t2 l2 h h'; rw [hlay] at h h'; exact hI.uniq _ _ _ _ _ _ h h'
        · intro i hi; rw [k3] at hi; rw [g2]; exact hI.doneLt i hi
        · exact hpos
        · exact hpp
      | some l =>
        obtain ⟨_, k2, k3, _, _⟩ := g9 l hl
        have hsub : ∀ r' t' l', lay (release s r t).1 r' t' = some l' →
            lay s r' t' = some l' ∧ ¬ (r' = r ∧ t' = t) := by
          intro r' t' l' h; rw [k3] at h
          split at h
          · cases h
          · rename_i hx; exact ⟨h, hx⟩
        constructor
        · intro r' t' l' h; exact hI.key _ _ _ (hsub _ _ _ h).1
        · intro r' t' l' h; exact hI.member _ _ _ (hsub _ _ _ h).1
        · intro r' t' l' h; rw [g2]; exact hI.fresh _ _ _ (hsub _ _ _ h).1
        · intro r' t' l' h; rw [k2]
          obtain ⟨h1', h2'⟩ := hsub _ _ _ h
          intro hm
          rcases List.mem_cons.mp hm with e | e
          · have := hI.uniq _ _ _ _ _ _ h1' hl e
            exact h2' this
          · exact hI.live _ _ _ h1' e
        · intro r1 t1 l1 r2 t2 l2 h h'
          exact hI.uniq _ _ _ _ _ _ (hsub _ _ _ h).1 (hsub _ _ _ h').1
        · intro i hi; rw [k2] at hi; rw [g2]
          rcases List.mem_cons.mp hi with e | e
          · rw [e]; exact hI.fresh _ _ _ hl
          · exact hI.doneLt i e
        · exact hpos
        · exact hpp

theorem step_inv (T : Truth) (s : St) (op : Op) (hI : Inv T s) : Inv T (step T s op).1 := by
  cases op with
  | lookup o r t => exact (lookup_inv_ext T o s r t hI).1
  | info o r t =>
    show Inv T (info T o s r t).1
    obtain ⟨e1, e2, _, e4, e5, e6⟩ := info_fields T o s r t
    exact inv_of_fields T s _ hI e1 e2 e4 e5 (by rw [e6]; exact hI.ppos)
  | use r t => exact use_inv T s r t hI
  | release r t => exact release_inv T s r t hI

theorem run_induct (T : Truth) (P : St → Prop) (h : List Op)
    (hstep : ∀ s op, op ∈ h → P s → P (step T s op).1) (s : St) (hs : P s) : P (run T s h) := by
  induction h generalizing s with
  | nil => exact hs
  | cons op ops ih =>
    unfold run; simp only [List.foldl_cons]
    apply ih
    · intro s' op' hop hp; exact hstep s' op' (List.mem_cons_of_mem _ hop) hp
    · exact hstep s op (List.mem_cons_self ..) hs

theorem reach_inv (T : Truth) (s : St) (h : Reachable T s) : Inv T s := by
  obtain ⟨ops, rfl⟩ := h
  exact run_induct T (Inv T) ops (fun s op _ hp => step_inv T s op hp) init (inv_init T)

/-! ### Invariants about the resolve status -/

/-- the layer digest determines the TOC digest, in every image. -/
def Truth.Functional (T : Truth) : Prop := ∀ r ls, T.images r = some ls → DigestFun ls

/-- different layers of one image have different TOC digests. -/
def Truth.Injective (T : Truth) : Prop :=
  ∀ r ls, T.images r = some ls → ∀ d d' t, (d, t) ∈ ls → (d', t) ∈ ls → d = d'

/-- the registry answers every request. -/
def Oracle.Healthy (o : Oracle) : Prop := (∀ r, o.manifest r = true) ∧ ∀ r d, o.layer r d = true

/-- the registry serves every layer request (manifest requests may fail). -/
def Oracle.LayersOk (o : Oracle) : Prop := ∀ r d, o.layer r d = true

/-- an operation during which no layer resolution fails.  The manifest part of the oracle is
free: a manifest that cannot be fetched — registry error, or the client cancelled the context of
its lookup (the layers themselves are resolved on `context.Background()`) — fails the lookup but
is not memoised. -/
def Op.Healthy : Op → Prop
  | .lookup o _ _ => o.LayersOk
  | .info o _ _ => o.LayersOk
  | _ => True

/-- no error is memoised. -/
def AllOk (s : St) : Prop := ∀ r d x, mem s r d = some x → x = .ok

/-- every manifest layer that is not cached can still be resolved (some layer with its TOC digest
has no resolve status). -/
def Resolvable (T : Truth) (s : St) : Prop :=
  ∀ r ls d t, T.images r = some ls → (d, t) ∈ ls → lay s r t = none →
    ∃ d', (d', t) ∈ ls ∧ mem s r d' = none

/-- a layer whose resolve status is "ok" is cached. -/
def OkCached (T : Truth) (s : St) : Prop :=
  ∀ r ls d t, T.images r = some ls → (d, t) ∈ ls → mem s r d = some .ok → lay s r t ≠ none

theorem resolve_lay_cases (o : Oracle) (r : Nat) (s : St) (hk : KeyOK s) (d t : Nat) :
    (Adds o r s d t ∧ ∀ r' t', lay (resolveLayer o r s (d, t)) r' t' =
        if r' = r ∧ t' = t then some ⟨s.next, d, t⟩ else lay s r' t') ∨
    (¬ Adds o r s d t ∧ ∀ r' t', lay (resolveLayer o r s (d, t)) r' t' = lay s r' t') := by
  by_cases ha : Adds o r s d t
  · exact Or.inl ⟨ha, (resolve_adds o r s hk d t ha).2⟩
  · refine Or.inr ⟨ha, ?_⟩
    intro r' t'; unfold lay; rw [(resolve_noadd o r s hk d t ha).2]

theorem resolve_lay_mono (o : Oracle) (r : Nat) (s : St) (hk : KeyOK s) (d t r' t' : Nat)
    (h : lay s r' t' ≠ none) : lay (resolveLayer o r s (d, t)) r' t' ≠ none := by
  rcases resolve_lay_cases o r s hk d t with ⟨_, hl⟩ | ⟨_, hl⟩
  · rw [hl]; split
    · simp
    · exact h
  · rw [hl]; exact h

theorem resolve_okCached (T : Truth) (o : Oracle) (r : Nat) (s : St) (hI : Inv T s)
    (ls : List (Nat × Nat)) (hm : T.images r = some ls) (hfun : DigestFun ls) (d t : Nat)
    (hin : (d, t) ∈ ls) (hO : OkCached T s) : OkCached T (resolveLayer o r s (d, t)) := by
  intro r' ls' d' t' hm' hin' hmem
  rw [resolve_mem] at hmem
  split at hmem
  · rename_i hx
    obtain ⟨rfl, rfl, hnone⟩ := hx
    have hls : ls' = ls := by rw [hm] at hm'; cases hm'; rfl
    subst hls
    have ht : t' = t := hfun d' t' t hin' hin
    subst ht
    have ho : o.layer r' d' = true := by
      cases hq : o.layer r' d' with
      | true => rfl
      | false => simp [hq] at hmem
    rcases resolve_lay_cases o r' s hI.key d' t' with ⟨_, hl⟩ | ⟨hna, hl⟩
    · rw [hl]; simp
    · rw [hl]; intro hl0; exact hna ⟨hnone, ho, hl0⟩
  · exact resolve_lay_mono o r s hI.key d t r' t' (hO r' ls' d' t' hm' hin' hmem)

theorem resolve_allOk (o : Oracle) (ho : o.LayersOk) (r : Nat) (s : St) (d t : Nat)
    (hA : AllOk s) : AllOk (resolveLayer o r s (d, t)) := by
  intro r' d' x h
  rw [resolve_mem] at h
  split at h
  · rw [ho r d] at h; simpa using h.symm
  · exact hA _ _ _ h

theorem resolve_resolvable (T : Truth) (o : Oracle) (ho : o.LayersOk) (r : Nat) (s : St)
    (hI : Inv T s) (ls : List (Nat × Nat)) (hm : T.images r = some ls) (hfun : DigestFun ls)
    (d t : Nat) (hin : (d, t) ∈ ls) (hR : Resolvable T s) :
    Resolvable T (resolveLayer o r s (d, t)) := by
  intro r' ls' d' t' hm' hin' hnone
  have hnone0 : lay s r' t' = none := by
    cases hq : lay s r' t' with
    | none => rfl
    | some l => exact absurd hnone (resolve_lay_mono o r s hI.key d t r' t' (by simp [hq]))
  obtain ⟨d2, hd2, hmem2⟩ := hR r' ls' d' t' hm' hin' hnone0
  refine ⟨d2, hd2, ?_⟩
  rw [resolve_mem]
  split
  · rename_i hx
    obtain ⟨rfl, rfl, hn⟩ := hx
    exfalso
    have hls : ls' = ls := by rw [hm] at hm'; cases hm'; rfl
    subst hls
    have ht : t' = t := hfun d2 t' t hd2 hin
    subst ht
    rcases resolve_lay_cases o r' s hI.key d2 t' with ⟨_, hl⟩ | ⟨hna, _⟩
    · rw [hl] at hnone; simp at hnone
    · exact hna ⟨hn, ho _ _, hnone0⟩
  · exact hmem2

/-- the views of the state `loadRef` hands on are those of `s`. -/
theorem views_of_fields (s s1 : St) (h1 : s1.layer = s.layer) (h3 : s1.memo = s.memo) :
    (∀ r t, lay s1 r t = lay s r t) ∧ (∀ r d, mem s1 r d = mem s r d) :=
  ⟨fun r t => by unfold lay; rw [h1], fun r d => by unfold mem; rw [h3]⟩

theorem lookup_okCached (T : Truth) (hfun : T.Functional) (o : Oracle) (s : St) (r t : Nat)
    (hI : Inv T s) (hO : OkCached T s) : OkCached T (lookup T o s r t).1 := by
  rcases lookup_cases T o s r t with ⟨l, _, h⟩ | ⟨_, _, h⟩ | ⟨s1, ls, _, hl, h, _⟩
  · rw [h]; exact hO
  · rw [h]; exact hO
  · rw [h]
    obtain ⟨hi, _, e1, e2, e3, e4, e5, e6⟩ := loadRef_some T o s r s1 ls hl
    have hI1 : Inv T s1 := inv_of_fields T s s1 hI e1 e2 e4 e5 (by rw [e6]; exact hI.ppos)
    obtain ⟨v1, v2⟩ := views_of_fields s s1 e1 e3
    have hO1 : OkCached T s1 := by
      intro r' ls' d' t' a b c; rw [v2] at c; rw [v1]; exact hO r' ls' d' t' a b c
    have := fold_induct (fun s' => Inv T s' ∧ OkCached T s') o r ls
      (fun s' dt hdt hp => by
        obtain ⟨d, t0⟩ := dt
        exact ⟨resolve_inv T o r s' hp.1 ls hi d t0 hdt,
          resolve_okCached T o r s' hp.1 ls hi (hfun r ls hi) d t0 hdt hp.2⟩) s1 ⟨hI1, hO1⟩
    exact this.2

theorem lookup_ok_inv (T : Truth) (hfun : T.Functional) (o : Oracle) (ho : o.LayersOk) (s : St)
    (r t : Nat) (hI : Inv T s) (hA : AllOk s) (hR : Resolvable T s) :
    AllOk (lookup T o s r t).1 ∧ Resolvable T (lookup T o s r t).1 := by
  rcases lookup_cases T o s r t with ⟨l, _, h⟩ | ⟨_, _, h⟩ | ⟨s1, ls, _, hl, h, _⟩
  · rw [h]; exact ⟨hA, hR⟩
  · rw [h]; exact ⟨hA, hR⟩
  · rw [h]
    obtain ⟨hi, _, e1, e2, e3, e4, e5, e6⟩ := loadRef_some T o s r s1 ls hl
    have hI1 : Inv T s1 := inv_of_fields T s s1 hI e1 e2 e4 e5 (by rw [e6]; exact hI.ppos)
    obtain ⟨v1, v2⟩ := views_of_fields s s1 e1 e3
    have hA1 : AllOk s1 := by intro r' d' x c; rw [v2] at c; exact hA _ _ _ c
    have hR1 : Resolvable T s1 := by
      intro r' ls' d' t' a b c; rw [v1] at c
      obtain ⟨d2, p, q⟩ := hR r' ls' d' t' a b c
      exact ⟨d2, p, by rw [v2]; exact q⟩
    have := fold_induct (fun s' => Inv T s' ∧ AllOk s' ∧ Resolvable T s') o r ls
      (fun s' dt hdt hp => by
        obtain ⟨d, t0⟩ := dt
        exact ⟨resolve_inv T o r s' hp.1 ls hi d t0 hdt, resolve_allOk o ho r s' d t0 hp.2.1,
          resolve_resolvable T o ho r s' hp.1 ls hi (hfun r ls hi) d t0 hdt hp.2.2⟩)
      s1 ⟨hI1, hA1, hR1⟩
    exact this.2

/-- what `release` does to the two views that the resolve-status invariants talk about. -/
theorem release_views (T : Truth) (s : St) (r t : Nat) (_hI : Inv T s) :
    (∀ r' d, mem (release s r t).1 r' d = none ∨ mem (release s r t).1 r' d = mem s r' d) ∧
    ((∀ r' t', lay (release s r t).1 r' t' = lay s r' t') ∨
      ∃ l, lay s r t = some l ∧ mem (release s r t).1 r l.digest = none ∧
        ∀ r' t', lay (release s r t).1 r' t' = if r' = r ∧ t' = t then none else lay s r' t') := by
  cases hc : cnt s r t with
  | none =>
    rw [release_untracked s r t hc]
    exact ⟨fun _ _ => Or.inr rfl, Or.inl fun _ _ => rfl⟩
  | some c =>
    by_cases h1 : 1 < c
    · rw [release_keep s r t c hc h1]
      exact ⟨fun _ _ => Or.inr rfl, Or.inl fun _ _ => rfl⟩
    · have hc1 : c ≤ 1 := by omega
      obtain ⟨_, _, _, _, g5, _, _, g8, g9⟩ := release_drop_spec s r t c hc hc1
      refine ⟨g5, ?_⟩
      cases hl : lay s r t with
      | none =>
        left; intro r' t'; unfold lay; rw [(g8 hl).2.1]
      | some l =>
        right
        obtain ⟨_, _, k3, k4, _⟩ := g9 l hl
        exact ⟨l, rfl, k4, k3⟩

theorem release_allOk (T : Truth) (s : St) (r t : Nat) (hI : Inv T s) (hA : AllOk s) :
    AllOk (release s r t).1 := by
  intro r' d x h
  rcases (release_views T s r t hI).1 r' d with e | e
  · rw [e] at h; cases h
  · rw [e] at h; exact hA _ _ _ h

theorem release_resolvable (T : Truth) (s : St) (r t : Nat) (hI : Inv T s) (hR : Resolvable T s) :
    Resolvable T (release s r t).1 := by
  obtain ⟨hm, hl⟩ := release_views T s r t hI
  have shrink : ∀ r' d, mem s r' d = none → mem (release s r t).1 r' d = none := by
    intro r' d h; rcases hm r' d with e | e
    · exact e
    · rw [e]; exact h
  intro r' ls d' t' a b c
  rcases hl with hl | ⟨l, hl0, hm0, hl⟩
  · rw [hl] at c
    obtain ⟨d2, p, q⟩ := hR r' ls d' t' a b c
    exact ⟨d2, p, shrink _ _ q⟩
  · by_cases hx : r' = r ∧ t' = t
    · obtain ⟨rfl, rfl⟩ := hx
      obtain ⟨ls', a', b'⟩ := hI.member _ _ _ hl0
      have : ls' = ls := by rw [a] at a'; cases a'; rfl
      subst this
      exact ⟨l.digest, b', hm0⟩
    · rw [hl, if_neg hx] at c
      obtain ⟨d2, p, q⟩ := hR r' ls d' t' a b c
      exact ⟨d2, p, shrink _ _ q⟩

theorem release_okCached (T : Truth) (hinj : T.Injective) (s : St) (r t : Nat) (hI : Inv T s)
    (hO : OkCached T s) : OkCached T (release s r t).1 := by
  obtain ⟨hm, hl⟩ := release_views T s r t hI
  intro r' ls d' t' a b c
  have c0 : mem s r' d' = some .ok := by
    rcases hm r' d' with e | e
    · rw [e] at c; cases c
    · rw [← e]; exact c
  have h0 := hO r' ls d' t' a b c0
  rcases hl with hl | ⟨l, hl0, hm0, hl⟩
  · rw [hl]; exact h0
  · rw [hl]
    by_cases hx : r' = r ∧ t' = t
    · obtain ⟨rfl, rfl⟩ := hx
      exfalso
      obtain ⟨ls', a', b'⟩ := hI.member _ _ _ hl0
      have : ls' = ls := by rw [a] at a'; cases a'; rfl
      subst this
      have : d' = l.digest := hinj r' ls' a d' l.digest t' b b'
      subst this
      rw [hm0] at c; cases c
    · rw [if_neg hx]; exact h0

theorem step_okCached (T : Truth) (hfun : T.Functional) (hinj : T.Injective) (s : St) (op : Op)
    (hI : Inv T s) (hO : OkCached T s) : OkCached T (step T s op).1 := by
  cases op with
  | lookup o r t => exact lookup_okCached T hfun o s r t hI hO
  | info o r t =>
    show OkCached T (info T o s r t).1
    obtain ⟨e1, _, e3, _, _, _⟩ := info_fields T o s r t
    obtain ⟨v1, v2⟩ := views_of_fields s _ e1 e3
    intro r' ls' d' t' a b c; rw [v2] at c; rw [v1]; exact hO r' ls' d' t' a b c
  | use r t =>
    show OkCached T (use s r t).1
    obtain ⟨e1, e3, _⟩ := use_fields s r t
    obtain ⟨v1, v2⟩ := views_of_fields s _ e1 e3
    intro r' ls' d' t' a b c; rw [v2] at c; rw [v1]; exact hO r' ls' d' t' a b c
  | release r t => exact release_okCached T hinj s r t hI hO

theorem step_ok_inv (T : Truth) (hfun : T.Functional) (s : St) (op : Op) (hop : op.Healthy)
    (hI : Inv T s) (hA : AllOk s) (hR : Resolvable T s) :
    AllOk (step T s op).1 ∧ Resolvable T (step T s op).1 := by
  cases op with
  | lookup o r t => exact lookup_ok_inv T hfun o hop s r t hI hA hR
  | info o r t =>
    show AllOk (info T o s r t).1 ∧ Resolvable T (info T o s r t).1
    obtain ⟨e1, _, e3, _, _, _⟩ := info_fields T o s r t
    obtain ⟨v1, v2⟩ := views_of_fields s _ e1 e3
    refine ⟨?_, ?_⟩
    · intro r' d' x c; rw [v2] at c; exact hA _ _ _ c
    · intro r' ls' d' t' a b c; rw [v1] at c
      obtain ⟨d2, p, q⟩ := hR r' ls' d' t' a b c
      exact ⟨d2, p, by rw [v2]; exact q⟩
  | use r t =>
    show AllOk (use s r t).1 ∧ Resolvable T (use s r t).1
    obtain ⟨e1, e3, _⟩ := use_fields s r t
    obtain ⟨v1, v2⟩ := views_of_fields s _ e1 e3
    refine ⟨?_, ?_⟩
    · intro r' d' x c; rw [v2] at c; exact hA _ _ _ c
    · intro r' ls' d' t' a b c; rw [v1] at c
      obtain ⟨d2, p, q⟩ := hR r' ls' d' t' a b c
      exact ⟨d2, p, by rw [v2]; exact q⟩
  | release r t => exact ⟨release_allOk T s r t hI hA, release_resolvable T s r t hI hR⟩

theorem init_views : (∀ r t, lay init r t = none) ∧ (∀ r d, mem init r d = none) ∧
    (∀ r t, cnt init r t = none) := by
  refine ⟨?_, ?_, ?_⟩ <;> intros <;> rfl

/-- in every reachable state a memoised "ok" means the layer is cached
(needs: digest ↔ TOC digest one-to-one inside each image). -/
theorem reach_okCached (T : Truth) (hfun : T.Functional) (hinj : T.Injective) (h : List Op) :
    Inv T (run T init h) ∧ OkCached T (run T init h) := by
  apply run_induct T (fun s => Inv T s ∧ OkCached T s) h
  · intro s op _ hp
    exact ⟨step_inv T s op hp.1, step_okCached T hfun hinj s op hp.1 hp.2⟩
  · refine ⟨inv_init T, ?_⟩
    intro r ls d t _ _ c; rw [init_views.2.1] at c; cases c

/-- after a history in which the registry never failed, no error is memoised and every
manifest layer is cached or resolvable. -/
theorem reach_ok (T : Truth) (hfun : T.Functional) (h : List Op) (hh : ∀ op, op ∈ h → op.Healthy) :
    Inv T (run T init h) ∧ AllOk (run T init h) ∧ Resolvable T (run T init h) := by
  apply run_induct T (fun s => Inv T s ∧ AllOk s ∧ Resolvable T s) h
  · intro s op hop hp
    exact ⟨step_inv T s op hp.1, step_ok_inv T hfun s op (hh op hop) hp.1 hp.2.1 hp.2.2⟩
  · refine ⟨inv_init T, ?_, ?_⟩
    · intro r d x c; rw [init_views.2.1] at c; cases c
    · intro r ls d t _ hin _; exact ⟨d, hin, init_views.2.1 r d⟩

/-! ### The outcome of a lookup -/

/-- `getLayer` either fails and leaves (ref, TOC digest) uncached, or returns the cached instance. -/
theorem lookup_res (T : Truth) (o : Oracle) (s : St) (r t : Nat) (hI : Inv T s) :
    ((lookup T o s r t).2 = .err ∧ lay (lookup T o s r t).1 r t = none) ∨
    ∃ l, (lookup T o s r t).2 = .layer l ∧ lay (lookup T o s r t).1 r t = some l := by
  have hI' := (lookup_inv_ext T o s r t hI).1
  rcases lookup_cases T o s r t with ⟨l, hc, h⟩ | ⟨hc, _, h⟩ | ⟨s1, ls, _, _, h1, h2⟩
  · right; rw [h]; rw [getCached_eq_lay s hI.key] at hc; exact ⟨l, rfl, hc⟩
  · left; rw [h]; rw [getCached_eq_lay s hI.key] at hc; exact ⟨rfl, hc⟩
  · rw [h1] at hI'
    rw [h2, h1, getCached_eq_lay _ hI'.key]
    cases hq : lay (List.foldl (resolveLayer o r) s1 ls) r t with
    | none => left; exact ⟨rfl, rfl⟩
    | some l => right; exact ⟨l, rfl, rfl⟩

theorem lookup_of_cached (T : Truth) (o : Oracle) (s : St) (r t : Nat) (hI : Inv T s) (l : Layer)
    (h : lay s r t = some l) : lookup T o s r t = (s, .layer l) := by
  have hc : getCached s r t = some l := by rw [getCached_eq_lay s hI.key]; exact h
  unfold lookup; rw [hc]

/-- a manifest layer with the wanted TOC digest that has no resolve status and that the registry
serves now makes the lookup succeed. -/
theorem lookup_of_resolvable (T : Truth) (o : Oracle) (s : St) (r t : Nat) (hI : Inv T s)
    (ls : List (Nat × Nat)) (hi : T.images r = some ls) (hfun : DigestFun ls)
    (hman : r ∈ s.disk ∨ o.manifest r = true) (d : Nat) (hin : (d, t) ∈ ls)
    (hmem : mem s r d = none) (ho : o.layer r d = true) :
    ∃ l, (lookup T o s r t).2 = .layer l := by
  rcases lookup_res T o s r t hI with ⟨he, hn⟩ | ⟨l, hl, _⟩
  · exfalso
    rcases lookup_cases T o s r t with ⟨l, _, h⟩ | ⟨_, hl, _⟩ | ⟨s1, ls', _, hl, h1, _⟩
    · rw [h] at he; cases he
    · obtain ⟨s1, h1⟩ := loadRef_avail T o s r ls hi hman
      rw [h1] at hl; cases hl
    · obtain ⟨hi', _, e1, e2, e3, e4, e5, e6⟩ := loadRef_some T o s r s1 ls' hl
      have : ls' = ls := by rw [hi] at hi'; cases hi'; rfl
      subst this
      have hI1 : Inv T s1 := inv_of_fields T s s1 hI e1 e2 e4 e5 (by rw [e6]; exact hI.ppos)
      have hmem1 : mem s1 r d = none := by unfold mem at *; rw [e3]; exact hmem
      have := fold_caches T o r ls' hi hfun ls' (fun _ h => h) s1 hI1 d t hin hmem1 ho
      rw [h1] at hn
      exact this hn
  · exact ⟨l, hl⟩

end SV.Store
